#!/usr/bin/env python3
"""C20 driver: explorer F (cargo feature configurations) + the c20 harness binary (lifts, casts, approx).

Enumerates feature configurations of /repo's working tree, builds the digest program
(/verif/checks/digest, which uses only always-present vek items) against each one, runs it and
compares its output with the output under the bare base configuration (`std` or `libm` alone).
  * a configuration that does not build            -> violation  "feature-config|does-not-build"
  * a configuration whose digest differs from base -> violation  "feature-config|behaviour-changed"
  * a feature-only sweep of the digest program (`featcheck` lines: vek's image::Pixel impls against the image crate's own
    Rgb/Rgba pixels over a pixel alphabet) reports a mismatch -> violation "feature-config|feature-item-misbehaves"
The per-configuration results are handed to the c20 binary (env VX_C20_FEATURES), which owns the
evidence file, the known-findings matching and the exit code (0 held / 1 VIOLATION / 2 machinery).

quick   : {std} x (bare, 14 singletons, full set, the az x vecN / rgb x rgba / uv x uvw / mint x bytemuck / serde x * pairs) + {libm} x (bare, full)
thorough: {std, libm} x (bare, 14 singletons, all 91 pairs, full set) = 214 configurations
"""
import hashlib, itertools, json, os, subprocess, sys, time
from concurrent.futures import ThreadPoolExecutor

FEATURES = ["vec8", "vec16", "vec32", "vec64", "rgb", "rgba", "uv", "uvw", "serde", "mint", "bytemuck", "az", "image", "repr_simd"]
ROOT = os.path.dirname(os.path.dirname(os.path.abspath(__file__)))
BUILD = os.environ.get("VX_BUILD_DIR") or os.path.join(ROOT, ".build")
DIGEST = os.path.join(ROOT, "checks", "digest")
POOL = 12


def configs(tier):
    out = []
    if tier == "thorough":
        for base in ("std", "libm"):
            out.append((base, ()))
            out += [(base, (f,)) for f in FEATURES]
            out += [(base, p) for p in itertools.combinations(FEATURES, 2)]
            out.append((base, tuple(FEATURES)))
    else:
        out.append(("std", ()))
        out += [("std", (f,)) for f in FEATURES]
        pairs = [("az", v) for v in ("vec8", "vec16", "vec32", "vec64")] + [("rgb", "rgba"), ("uv", "uvw"), ("mint", "bytemuck"),
                 ("serde", "vec8"), ("serde", "rgba"), ("serde", "mint"), ("az", "rgba"), ("az", "uv"), ("image", "rgba"), ("image", "rgb"), ("repr_simd", "vec8"), ("bytemuck", "vec16"), ("mint", "vec32")]
        out += [("std", tuple(sorted(p, key=FEATURES.index))) for p in pairs]
        out.append(("std", tuple(FEATURES)))
        out.append(("libm", ()))
        out.append(("libm", tuple(FEATURES)))
    return out


def build_and_run(job):
    slot, (base, feats) = job
    tdir = os.path.join(BUILD, "feat-%d" % slot)
    fl = ",".join((base,) + feats)
    env = dict(os.environ, CARGO_NET_OFFLINE="true", CARGO_TARGET_DIR=tdir)
    t0 = time.time()
    r = subprocess.run(["cargo", "build", "--offline", "--quiet", "-j", "3", "--no-default-features", "--features", fl],
                       cwd=DIGEST, env=env, stdout=subprocess.PIPE, stderr=subprocess.PIPE, text=True)
    res = {"base": base, "features": list(feats), "build_ok": r.returncode == 0, "build_s": round(time.time() - t0, 2)}
    if r.returncode != 0:
        errs = [l for l in r.stderr.splitlines() if l.startswith("error")]
        res["errors"] = errs[:6]
        res["stderr_tail"] = r.stderr[-1500:]
        # an error located in the digest program itself (not in vek) means a feature changed what a
        # downstream program may write (e.g. an added impl made inference ambiguous): still a violation
        res["error_in"] = "vek" if "could not compile `vek`" in r.stderr else "downstream program"
        return res
    try:
        o = subprocess.run([os.path.join(tdir, "debug", "vekdigest")], stdout=subprocess.PIPE, stderr=subprocess.PIPE, text=True, timeout=120)
    except subprocess.TimeoutExpired:
        res.update(run_ok=False, run_error="timeout")
        return res
    res["run_ok"] = o.returncode == 0
    if o.returncode != 0:
        res["run_error"] = o.stderr[-800:]
    lines = o.stdout.splitlines()
    compiled_for = lines[0].split(": ", 1)[1] if lines and lines[0].startswith("compiled-for: ") else None
    res["compiled_for_matches_request"] = compiled_for == fl
    if compiled_for != fl:
        res["compiled_for"] = compiled_for
    # feature-only observations: verdict lines of the exhaustive sweeps the digest program runs over items that exist only under
    # a feature (image::Pixel impls vs the image crate's own pixel types); not part of the comparison with the bare configuration
    fc = [l for l in lines[1:] if l.startswith("featcheck ")]
    res["featchecks"] = len(fc)
    res["featcheck_evaluations"] = sum(int(l.rsplit("n=", 1)[1]) for l in fc if " = ok n=" in l)
    res["featcheck_fail"] = [l[:700] for l in fc if " = ok n=" not in l][:6]
    res["featcheck_expected"] = ("image" in feats) and ("rgb" in feats or "rgba" in feats)
    res["lines"] = [l for l in lines[1:] if not l.startswith("featcheck ")]
    res["sha"] = hashlib.sha256("\n".join(res["lines"]).encode()).hexdigest()[:16]
    return res


def warm():
    """setup: build every optional dependency once in each pool directory, and the bare configuration"""
    os.makedirs(BUILD, exist_ok=True)
    with ThreadPoolExecutor(max_workers=POOL) as ex:
        rs = list(ex.map(build_and_run, [(k, ("std", tuple(FEATURES))) for k in range(POOL)]))
    ok = all(r["build_ok"] for r in rs)
    print("c20 feature pool warmed:", ok)
    return 0 if ok else 2


def fallback_judge(tier, results, log, wall):
    """The c20 binary (judge and evidence writer) could not be built.  Judge the feature matrix here: a configuration that does
    not build is a VIOLATION (same site|class key as the binary uses, so known_findings.json applies); if everything in the
    matrix builds, the harness failure is ours: machinery error."""
    vd = os.environ.get("VX_VERIF_DIR", ROOT)
    known = []
    try:
        known = [k["key"] for k in json.load(open(os.path.join(vd, "known_findings.json"))) if k.get("status") == "known" and k.get("property") == "C20"]
    except Exception:
        pass
    rdir = os.path.join(vd, "replays", "C20")
    subprocess.run(["rm", "-rf", rdir]); os.makedirs(rdir, exist_ok=True)
    os.makedirs(os.path.join(vd, "evidence"), exist_ok=True)
    bad = [r for r in results if not r["build_ok"]]
    bad.sort(key=lambda r: (len(r["features"]), r["base"]))
    new, seen_known, n = 0, {}, 0
    for r in bad:
        name = "cargo features [%s]" % ",".join([r["base"]] + r["features"])
        key = name + "|does-not-build"
        if key in known:
            seen_known[key] = 1; continue
        new += 1
        if new > 6: continue
        n += 1
        path = os.path.join(rdir, "%d.json" % n)
        json.dump({"property": "C20", "tier": tier, "section": "feature configurations build and do not change behaviour (judged by the driver: the harness itself did not build)",
                   "site": name, "class": "does-not-build", "detail": {"configuration": name, "error_in": r.get("error_in"), "errors": r.get("errors"), "stderr_tail": r.get("stderr_tail")}}, open(path, "w"), indent=1)
        print("VIOLATION property=C20 replay=%s" % path)
        print("  what: %s [does-not-build] :: %s" % (name, "; ".join(r.get("errors") or [])[:300]))
    for k in seen_known: print("KNOWN-FINDING: property=C20 %s" % k)
    merr = []
    if new == 0:
        merr = ["harness build failed although every configuration of the feature matrix builds (see %s)" % log]
        print("MACHINERY-ERROR property=C20 " + merr[0])
        subprocess.run("grep -E '^error' -A6 %s | head -40" % log, shell=True)
    ev = {"property_id": "C20", "tier": tier, "seed": int(os.environ.get("VERIF_SEED", "0") or 0), "level": "exploration",
          "coverage": {"evaluations": len(results), "distinct_nontrivial": len([r for r in results if r["features"]]),
                       "rule": "FALLBACK: the harness binary did not build, so only the cargo feature matrix was explored (every configuration of the tier's list built from /repo's working tree); the lift/cast/approx sections did not run; non-trivial: a configuration with at least one optional feature",
                       "samples": [{"configuration": "cargo features [%s]" % ",".join([r["base"]] + r["features"]), "build_ok": r["build_ok"]} for r in (bad[:2] + results[:1])],
                       "exhaustive": False, "configurations": len(results), "built": len(results) - len(bad), "harness_build": "failed", "machinery_errors": merr,
                       "known_findings_seen": seen_known, "new_violation_kinds": ["cargo features [%s]|does-not-build" % ",".join([r["base"]] + r["features"]) for r in bad][:20]},
          "assumptions": ["cargo and rustc build each configuration faithfully"], "wall_s": round(wall, 1), "violations": new}
    json.dump(ev, open(os.path.join(vd, "evidence", "C20.json"), "w"), indent=1)
    print("C20 tier=%s (fallback judge) configurations=%d not-building=%d new_violations=%d exit=%d" % (tier, len(results), len(bad), new, 1 if new else 2))
    return 1 if new else 2


def main():
    args = sys.argv[1:]
    if args[:1] == ["--warm"]:
        sys.exit(warm())
    tier = os.environ.get("VERIF_TIER", "quick")
    passthru = []
    i = 0
    while i < len(args):
        if args[i] == "--tier":
            tier = args[i + 1]; i += 1
        elif args[i] == "--replay":
            passthru += args[i:i + 2]
            try:
                rp = json.load(open(args[i + 1]))
                if rp.get("tier") == "thorough":
                    tier = "thorough"
            except Exception:
                pass
            i += 1
        i += 1
    tier = "thorough" if tier == "thorough" else "quick"
    os.makedirs(BUILD, exist_ok=True)
    # 1. build the harness binary first (a build failure here is a machinery error, exit 2)
    env = dict(os.environ, CARGO_NET_OFFLINE="true", CARGO_TARGET_DIR=os.path.join(BUILD, "target"))
    log = os.path.join(BUILD, "build-c20.log")
    with open(log, "w") as lf:
        b = subprocess.run(["cargo", "build", "--offline", "--release", "--bin", "c20", "--features", "az"], cwd=os.path.join(ROOT, "harness"), env=env, stdout=lf, stderr=subprocess.STDOUT)
    az_build = "ok"
    if b.returncode != 0:
        # vek may not compile with az + vecN (that is a finding of the feature matrix below, not a machinery error):
        # fall back to the harness without its az section
        az_build = "failed: the harness does not build with vek/az enabled; az cast section skipped, see the feature-matrix violations"
        with open(log, "a") as lf:
            b = subprocess.run(["cargo", "build", "--offline", "--release", "--bin", "c20"], cwd=os.path.join(ROOT, "harness"), env=env, stdout=lf, stderr=subprocess.STDOUT)
    harness_ok = b.returncode == 0
    # If the harness does not build at all, the reason may be the property itself: vek does not compile under the harness's own
    # feature set (std, rgb, rgba, uv, uvw, vec8..vec64, mint, bytemuck).  The matrix below is then still run and judged by
    # fallback_judge(); only when every configuration of the matrix builds is the harness failure a machinery error.
    # 2. the feature matrix
    cfgs = configs(tier)
    t0 = time.time()
    # static slot assignment: each pool directory keeps its dependency builds between configurations
    jobs = [(k % POOL, c) for k, c in enumerate(cfgs)]
    by_slot = {}
    for j in jobs:
        by_slot.setdefault(j[0], []).append(j)
    def run_slot(js):
        return [build_and_run(j) for j in js]
    with ThreadPoolExecutor(max_workers=POOL) as ex:
        results = [r for rs in ex.map(run_slot, by_slot.values()) for r in rs]
    key = lambda r: (r["base"], len(r["features"]), [FEATURES.index(f) for f in r["features"]])
    results.sort(key=key)
    base_lines = {r["base"]: r.get("lines") for r in results if not r["features"]}
    for r in results:
        bl = base_lines.get(r["base"])
        if r.get("lines") is not None and bl is not None:
            diff = []
            want = dict(l.split(" = ", 1) for l in bl if " = " in l)
            got = dict(l.split(" = ", 1) for l in r["lines"] if " = " in l)
            for k in want:
                if got.get(k) != want[k]:
                    diff.append({"observation": k, "bare": want[k][:300], "with_features": (got.get(k) or "<missing>")[:300]})
            for k in got:
                if k not in want:
                    diff.append({"observation": k, "bare": "<missing>", "with_features": got[k][:300]})
            r["diff"] = diff[:8]
            r["diff_count"] = len(diff)
        r["n_lines"] = len(r.get("lines") or [])
        if r["features"]:
            r.pop("lines", None)
    for r in results:
        if not r["features"] and r.get("lines"):
            r["sample_lines"] = r["lines"][30:34]
            r.pop("lines", None)
    out = {"tier": tier, "configurations": results, "wall_s": round(time.time() - t0, 1), "feature_universe": FEATURES, "bases": ["std", "libm"],
           "harness_az_build": az_build, "toolchain": subprocess.run(["rustc", "--version"], stdout=subprocess.PIPE, text=True).stdout.strip()}
    fpath = os.path.join(BUILD, "c20_features.json")
    json.dump(out, open(fpath, "w"))
    if not harness_ok:
        sys.exit(fallback_judge(tier, results, log, time.time() - t0))
    env2 = dict(os.environ, VX_C20_FEATURES=fpath)
    rc = subprocess.run([os.path.join(BUILD, "target", "release", "c20"), "--tier", tier] + passthru, env=env2).returncode
    sys.exit(rc)


if __name__ == "__main__":
    main()
