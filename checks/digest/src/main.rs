//! Prints one line per observation of always-present vek items (no optional type or interop
//! feature is named here), so that the output can be compared across cargo feature configurations:
//! enabling a feature must only add items, never change what these lines say.
//! Deliberately uses `.into()` / type inference in places where an added impl could make a
//! downstream program ambiguous.
use std::fmt::Debug;
use std::mem::{align_of, size_of};
use vek::approx::{AbsDiffEq, RelativeEq, UlpsEq};
use vek::num_traits::{CheckedAdd, CheckedMul, CheckedSub, One, WrappingAdd, Zero};
use vek::*;

fn p<T: Debug>(k: &str, v: T) { println!("{} = {:?}", k, v); }

macro_rules! layout { ($($t:ty),*) => { $( println!("layout {} = size {} align {}", stringify!($t), size_of::<$t>(), align_of::<$t>()); )* } }

fn vectors() {
    let a = Vec4::new(1.5f64, -2.0, 3.25, 0.5);
    let b = Vec4::new(0.25f64, 4.0, -1.5, 2.0);
    let ia = Vec4::new(100i8, -100, 5, -7); let ib = Vec4::new(27i8, -28, 3, 2);
    p("v4 add", a + b); p("v4 sub", a - b); p("v4 mul", a * b); p("v4 div", a / b); p("v4 rem", a % b); p("v4 neg", -a);
    p("v4 scal", a * 2.0); p("v4 scal/", a / 4.0); p("v4 lscal", 2.0 * a);
    p("v4 dot", a.dot(b)); p("v4 mag", a.magnitude()); p("v4 mag2", a.magnitude_squared()); p("v4 norm", a.normalized());
    p("v4 dist", a.distance(b)); p("v4 sum", a.sum()); p("v4 product", a.product()); p("v4 avg", a.average());
    p("v4 min", Vec4::<i32>::min(ia.as_(), ib.as_())); p("v4 max", Vec4::<i32>::max(ia.as_(), ib.as_())); p("v4 pmin", Vec4::<f64>::partial_min(a, b)); p("v4 pmax", Vec4::<f64>::partial_max(a, b));
    p("v4 rmin", a.reduce_partial_min()); p("v4 rmax", a.reduce_partial_max());
    p("v4 lt", a.partial_cmplt(&b)); p("v4 ge", a.partial_cmpge(&b)); p("v4 eq", a.partial_cmpeq(&b));
    p("v4 lerp", Vec4::lerp(a, b, 0.25)); p("v4 lerpp", Vec4::lerp_unclamped_precise(a, b, 1.5));
    p("v4 clamp", a.clamped(Vec4::broadcast(0.0), Vec4::broadcast(1.0))); p("v4 muladd", a.mul_add(b, a));
    p("v4 map", a.map(|x| x as i32)); p("v4 as", a.as_::<i16>()); p("v4 numcast", a.numcast::<u8>()); p("v4 numcast2", b.numcast::<u8>());
    p("v4 reflect", a.reflected(b.normalized())); p("v4 refract", a.normalized().refracted(b.normalized(), 0.5));
    p("v4 angle", a.angle_between(b)); p("v4 homog", a.homogenized()); p("v4 ispt", (a.is_point(), a.is_direction()));
    p("v4 shuffle", a.shuffled((3, 1, 0, 2))); p("v4 lohi", Vec4::shuffle_lo_hi(a, b, (0, 1, 2, 3))); p("v4 zyxw", a.zyxw()); p("v4 wzyx", a.wzyx());
    p("v4 hadd", a.hadd(b)); p("v4 il", (Vec4::interleave_0011(a, b), Vec4::interleave_2233(a, b)));
    p("v4 iter", a.into_iter().rev().collect::<Vec<_>>()); p("v4 arr", a.into_array()); p("v4 tup", a.into_tuple()); p("v4 slice", a.as_slice());
    p("v4 fromarr", Vec4::<i32>::from([1, 2, 3, 4])); p("v4 fromtup", Vec4::<u8>::from((1u8, 2u8, 3u8, 4u8))); p("v4 bc", Vec4::broadcast(7u8)); p("v4 iota", Vec4::<i32>::iota());
    p("v4 from3", Vec4::<i32>::from(Vec3::new(1, 2, 3))); p("v4 from2", Vec4::<i32>::from(Vec2::new(1, 2))); p("v4 pt", Vec4::<i32>::from_point(Vec3::new(1, 2, 3))); p("v4 dir", Vec4::<i32>::from_direction(Vec3::new(1, 2, 3)));
    p("v4 zero one", (Vec4::<i32>::zero(), Vec4::<i32>::one(), Vec4::<i32>::zero().is_zero()));
    p("v4 display", format!("{} | {:.2}", a, b));
    p("v4 default", Vec4::<f32>::default());
    p("v4 checked", (ia.checked_add(&ib), ia.checked_sub(&ib), ia.checked_mul(&ib))); p("v4 checked2", ia.checked_add(&Vec4::new(28, 0, 0, 0)));
    p("v4 wrapping", ia.wrapping_add(&Vec4::new(28, -29, 0, 0)));
    p("v4 bits", (ia & ib, ia | ib, ia ^ ib, !ia, ia << 1, ia >> 1)); p("v4 irem", ia % ib);
    p("v4 abs_diff_eq", (a.abs_diff_eq(&b, 10.0), a.abs_diff_eq(&b, 0.1), a.relative_eq(&a, 0.0, 0.0), a.ulps_eq(&(a + 1e-16), 0.0, 4)));
    p("v4 bool", (Vec4::new(true, true, false, true).reduce_and(), Vec4::new(false, false, true, false).reduce_or()));
    p("v4 wrap", Vec4::new(5, -3, 12, 7).wrapped(Vec4::broadcast(4))); p("v4 between", a.is_between(Vec4::broadcast(0.0), Vec4::broadcast(2.0)));

    let c = Vec3::new(1.0f32, 2.0, 2.0); let d = Vec3::new(-3.0f32, 0.5, 4.0);
    p("v3 cross", c.cross(d)); p("v3 norm", c.normalized()); p("v3 nm", c.normalized_and_get_magnitude()); p("v3 try", (c.try_normalized(), Vec3::<f32>::zero().try_normalized()));
    p("v3 slerp", Vec3::slerp(c, d, 0.3)); p("v3 lerp", Vec3::lerp(c, d, 0.3)); p("v3 face", c.face_forward(d, c));
    p("v3 units", (Vec3::<i32>::unit_x(), Vec3::<i32>::unit_y(), Vec3::<i32>::unit_z(), Vec3::<i32>::up(), Vec3::<i32>::right(), Vec3::<i32>::forward_lh(), Vec3::<i32>::forward_rh()));
    p("v3 swz", (c.zyx(), c.xy(), Vec3::<i32>::from(Vec4::new(1, 2, 3, 4)), Vec3::<i32>::from(Vec2::new(1, 2)), Vec3::<i32>::from_point_2d(Vec2::new(5, 6)), Vec3::<i32>::from_direction_2d(Vec2::new(5, 6))));
    p("v3 with", (c.with_x(9.0), c.with_y(9.0), c.with_z(9.0), Vec3::with_w(Vec3::new(1, 2, 3), 4)));
    p("v3 sqrt etc", (c.sqrt(), c.rsqrt(), c.recip(), c.floor(), d.ceil(), d.round()));
    let e = Vec2::new(3.0f64, -4.0); let f = Vec2::new(0.5f64, 2.0);
    p("v2 misc", (e.yx(), e.rotated_z(1.0), e.determine_side(f, Vec2::zero()), Vec2::signed_triangle_area(e, f, Vec2::zero()), Vec2::triangle_area(e, f, Vec2::zero()), e.with_z(1.0)));
    p("v2 from", (Vec2::<i32>::from(Vec3::new(1, 2, 3)), Vec2::<i32>::from(Vec4::new(1, 2, 3, 4)), Vec2::<i32>::from(Extent2::new(8, 9)), Vec2::<i32>::from((1, 2)), Vec2::<i32>::from([3, 4])));
    let ex: Extent3<u32> = Extent3::new(2, 3, 4); p("extent", (ex, ex.w, ex.h, ex.d, ex.product(), Extent2::<u8>::from(Vec2::new(1u8, 2)), Vec3::<u32>::from(ex), Extent3::<i32>::from(Vec3::new(1, 2, 3)), ex.as_::<f32>()));
    let v: Vec3<i32> = [1, 2, 3].into(); let t: (i32, i32, i32) = v.into_tuple(); let ar: [i32; 3] = v.into_array(); p("v3 into", (v, t, ar));
    let s: i32 = Vec3::new(1, 2, 3).into_iter().sum(); p("v3 itersum", s);
    let vs: Vec3<i32> = vec![Vec3::new(1, 2, 3), Vec3::new(4, 5, 6)].into_iter().sum(); p("v3 Sum", vs);
    let vp: Vec3<i32> = vec![Vec3::new(1, 2, 3), Vec3::new(4, 5, 6)].into_iter().product(); p("v3 Product", vp);
}

fn matrices() {
    use vek::mat::repr_c::column_major as cm;
    use vek::mat::repr_c::row_major as rm;
    let a = rm::Mat4::new(1.0f64, 2., 3., 4., 0., 1., 4., -2., 5., 6., 0., 1., -1., 2., 2., 3.);
    let b = cm::Mat4::new(1.0f64, 2., 3., 4., 0., 1., 4., -2., 5., 6., 0., 1., -1., 2., 2., 3.);
    let v = Vec4::new(1.0f64, -2., 0.5, 1.);
    p("rm4", (a, a * a, a * v, v * a, a.transposed(), a.determinant(), a.inverted(), a.trace(), a.diagonal()));
    p("cm4", (b, b * b, b * v, v * b, b.transposed(), b.determinant(), b.inverted(), b.trace(), b.diagonal()));
    p("mixed", (a * b, b * a, rm::Mat4::from(b) == a, cm::Mat4::from(a) == b));
    p("m4 arrays", (a.into_row_array(), a.into_col_array(), b.into_row_arrays(), b.into_col_arrays(), a.gl_should_transpose(), b.gl_should_transpose()));
    p("m4 index", (a[(1, 2)], b[(1, 2)], a.as_row_slice().len(), b.as_col_slice()[6]));
    p("m4 display", format!("{}", a) == format!("{}", b));
    p("m4 elementwise", (a + a, a - a * 2.0, a * 0.5, a / 2.0, -b, a.mul_memberwise(a), a.map(|x| x as i8), b.as_::<i32>(), b.numcast::<u8>()));
    let m = Mat4::<f32>::identity();
    p("m4 builders", (m.translated_3d(Vec3::new(1., 2., 3.)).scaled_3d(Vec3::new(2., 3., 4.)).rotated_x(0.5).rotated_y(0.25).rotated_z(-0.5).rotated_3d(1.0, Vec3::new(1., 2., 2.)), Mat4::<f32>::translation_2d(Vec2::new(1., 2.)), Mat4::<f32>::scaling_3d(2.0)));
    p("m4 points", (a.mul_point(Vec3::new(1., 2., 3.)), a.mul_direction(Vec3::new(1., 2., 3.)), b.mul_point(Vec3::new(1., 2., 3.)), b.mul_direction(Vec3::new(1., 2., 3.))));
    let eye = Vec3::new(1.0f32, 2., 3.); let tgt = Vec3::new(-1.0f32, 0.5, 0.); let up = Vec3::new(0.0f32, 1., 0.);
    p("m4 lookat", (Mat4::<f32>::look_at_lh(eye, tgt, up), Mat4::<f32>::look_at_rh(eye, tgt, up), Mat4::<f32>::model_look_at_lh(eye, tgt, up), Mat4::<f32>::model_look_at_rh(eye, tgt, up)));
    let fp = FrustumPlanes { left: -1.0f32, right: 2., bottom: -1.5, top: 1., near: 0.5, far: 10. };
    p("m4 ortho", (Mat4::orthographic_lh_zo(fp), Mat4::orthographic_rh_no(fp), Mat4::orthographic_without_depth_planes(fp), Mat4::orthographic_lh_no(fp), Mat4::orthographic_rh_zo(fp)));
    p("m4 frustum", (Mat4::frustum_lh_zo(fp), Mat4::frustum_rh_no(fp), Mat4::frustum_lh_no(fp), Mat4::frustum_rh_zo(fp)));
    p("m4 persp", (Mat4::<f32>::perspective_rh_no(1.0, 1.5, 0.1, 100.), Mat4::<f32>::perspective_lh_zo(1.0, 1.5, 0.1, 100.), Mat4::<f32>::perspective_fov_rh_zo(1.0, 640., 480., 0.1, 100.), Mat4::<f32>::perspective_fov_lh_no(1.0, 640., 480., 0.1, 100.), Mat4::<f32>::infinite_perspective_rh(1.0, 1.5, 0.1), Mat4::<f32>::tweaked_infinite_perspective_lh(1.0, 1.5, 0.1, 0.001)));
    let vp = Rect::new(0.0f32, 0., 640., 480.);
    let mv = Mat4::look_at_rh(eye, tgt, up); let pr = Mat4::<f32>::perspective_rh_no(1.0, 1.5, 0.1, 100.);
    let w = Mat4::world_to_viewport_no(Vec3::new(0.5, 0.25, -1.0), mv, pr, vp);
    p("m4 viewport", (w, Mat4::viewport_to_world_no(w, mv, pr, vp), Mat4::world_to_viewport_zo(Vec3::new(0.5, 0.25, -1.0), mv, pr, vp), Mat4::picking_region(Vec2::new(100.0f32, 120.), Vec2::new(4., 6.), vp)));
    p("m4 basis", (Mat4::<f32>::basis_to_local(Vec3::new(1.0f32, 2., 3.), Vec3::unit_y(), Vec3::unit_z(), Vec3::unit_x()), Mat4::<f32>::local_to_basis(Vec3::new(1.0f32, 2., 3.), Vec3::unit_y(), Vec3::unit_z(), Vec3::unit_x())));
    p("m4 fromto", (Mat4::<f64>::rotation_from_to_3d(Vec3::new(1., 0., 0.), Vec3::new(0., 1., 1.)), Mat3::<f64>::rotation_from_to_3d(Vec3::new(1., 2., 0.), Vec3::new(-1., -2., 0.))));
    p("m4 rigid inv", (Mat4::<f64>::translation_3d(Vec3::new(1., 2., 3.)).rotated_z(0.5).inverted_affine_transform_no_scale(), Mat4::<f64>::scaling_3d(Vec3::new(1., 2., 3.)).rotated_z(0.5).translated_3d(Vec3::new(1., 2., 3.)).inverted_affine_transform()));
    let c = rm::Mat3::new(2.0f32, 0., 1., 1., 3., -1., 0., 5., 4.); let d = cm::Mat3::new(2.0f32, 0., 1., 1., 3., -1., 0., 5., 4.);
    p("m3", (c * c, d * d, c * Vec3::new(1., 2., 3.), Vec3::new(1., 2., 3.) * d, c.determinant(), d.determinant(), c.transposed(), Mat3::<f32>::rotation_3d(1.0, Vec3::new(0., 3., 4.)), Mat3::<f32>::from(Mat4::<f32>::identity()), Mat3::<i32>::from(Mat2::new(1, 2, 3, 4)), c.mul_point_2d(Vec2::new(1., 2.)), d.mul_direction_2d(Vec2::new(1., 2.))));
    let e = rm::Mat2::new(1, 2, 3, 4); let f = cm::Mat2::new(1, 2, 3, 4);
    p("m2", (e * e, f * f, e * Vec2::new(5, 6), Vec2::new(5, 6) * f, e.determinant(), f.transposed(), Mat2::<f32>::rotation_z(0.5), Mat2::<f32>::shearing_x(2.0), Mat2::<f32>::scaling_2d(Vec2::new(2., 3.)), Mat2::from(Mat4::<i32>::identity()), vek::mat::repr_c::row_major::Mat4::from(e), Mat3::from(f)));
    p("m zero one", (Mat2::<i32>::zero(), Mat3::<i32>::one(), Mat4::<u8>::default(), Mat3::<i32>::with_diagonal(Vec3::new(1, 2, 3)), Mat2::<i32>::broadcast_diagonal(4)));
    p("m approx", (a.abs_diff_eq(&(a + a * 1e-9), 1e-6), b.relative_eq(&b, 0.0, 0.0), c.ulps_eq(&c, 0.0, 0)));
    p("v4 mat2", (Vec4::new(1, 2, 3, 4).mat2_rows_mul(Vec4::new(5, 6, 7, 8)), Vec4::new(1, 2, 3, 4).mat2_cols_mul(Vec4::new(5, 6, 7, 8)), Vec4::new(1, 2, 3, 4).mat2_rows_adj_mul(Vec4::new(5, 6, 7, 8)), Vec4::new(1, 2, 3, 4).mat2_cols_mul_adj(Vec4::new(5, 6, 7, 8))));
}

fn quaternions_and_transforms() {
    let q = Quaternion::<f64>::rotation_3d(1.0, Vec3::new(1., 2., 2.)); let r = Quaternion::<f64>::rotation_x(0.5).rotated_y(0.25).rotated_z(-1.5);
    p("quat", (q, r, q * r, r * q, q * Vec3::new(1., 2., 3.), q * Vec4::new(1., 2., 3., 4.), q.conjugate(), q.inverse(), q.dot(r), q.magnitude()));
    p("quat2", (q.normalized(), q.into_angle_axis(), Quaternion::<f64>::identity(), Quaternion::<f32>::default()));
    p("quat arith", (q + r, q - r, -q, q * 2.0, q / 2.0, q.into_vec4(), Quaternion::from_vec4(Vec4::new(1, 2, 3, 4)), q.into_vec3(), Quaternion::from_scalar_and_vec3((1, Vec3::new(2, 3, 4))), q.into_scalar_and_vec3(), Quaternion::from_xyzw(1, 2, 3, 4)));
    p("quat fromto", (Quaternion::<f64>::rotation_from_to_3d(Vec3::new(1., 0., 0.), Vec3::new(0., 1., 1.)), Quaternion::<f64>::rotation_from_to_3d(Vec3::new(1., 2., 0.), Vec3::new(-1., -2., 0.)), Quaternion::<f64>::rotation_from_to_3d(Vec3::new(0., 0., 2.), Vec3::new(0., 0., -1.))));
    p("quat interp", (Quaternion::lerp(q, r, 0.3), Quaternion::lerp_unclamped(q, r, 0.3), Quaternion::slerp(q, r, 0.3), Quaternion::slerp(q, -r, 0.7), Quaternion::slerp_unclamped(q, r, 1.5), Slerp::slerp(q, r, 0.5), Lerp::lerp(q, r, 0.5)));
    p("quat mat", (Mat4::from(q), Mat3::from(r), vek::mat::repr_c::row_major::Mat4::from(q), vek::mat::repr_c::row_major::Mat3::from(r)));
    p("quat approx", (q.abs_diff_eq(&r, 2.0), q.relative_eq(&q, 0.0, 0.0), q.ulps_eq(&q, 0.0, 0)));
    let t = Transform { position: Vec3::new(1.0f64, 2., 3.), orientation: q, scale: Vec3::new(2., 1., 0.5) };
    let u = Transform::<f64, f64, f64>::default();
    p("transform", (t, u, Mat4::from(t), Lerp::lerp(t, u, 0.25)));
    let tr = Transition::with_mapper_and_progress(0.0f32, 10.0f32, ProgressMapperFn(|x: f32| x * x), 0.25f32);
    p("transition", (tr.into_current(), LinearTransition::<Vec2<f32>, f32>::with_progress(Vec2::new(0., 1.), Vec2::new(2., 3.), 0.5).into_current()));
}

fn ops() {
    p("clamp", (5.clamped(0, 3), (-5).clamped(0, 3), 0.5f32.clamped01(), 2.5f64.clamped_minus1_1(), 7u8.is_between(3, 7), 5i32.clamped_to_inclusive_range(1..=2)));
    p("wrap", (7.wrapped(5), (-7).wrapped(5), (-128i8).wrapped(3), 250u8.pingpong(200), 7.5f32.wrapped(2.0), (-0.5f64).wrapped_between(1.0, 3.0), 5.5f32.pingpong(2.0), 1.0f32.delta_angle(6.0), 10.0f64.delta_angle_degrees(350.0), 7.0f32.wrapped_2pi()));
    p("lerp", (Lerp::lerp(0.0f32, 10.0, 0.3), Lerp::lerp_unclamped(200u8, 100u8, 0.5f32), Lerp::lerp_unclamped_precise(-128i8, 127i8, 0.5f64), Lerp::lerp(10i32, 20, 2.0f32), <f64 as Lerp<f64>>::lerp_unclamped_inclusive_range(1.0..=3.0, 0.5)));
    p("muladd", (vek::ops::MulAdd::mul_add(2.0f32, 3.0, 4.0), vek::ops::MulAdd::mul_add(2i32, 3, 4)));
    p("colorcomponent", (<u8 as ColorComponent>::full(), <f32 as ColorComponent>::full(), <i16 as ColorComponent>::full()));
}

fn shapes_and_curves() {
    let r = Rect::new(1, 2, 3, 4); let a = Aabr { min: Vec2::new(0, 0), max: Vec2::new(4, 6) }; let b = Aabr { min: Vec2::new(2, 3), max: Vec2::new(8, 9) };
    p("rect", (r, r.into_aabr(), Rect::from(a), r.contains_point(Vec2::new(4, 6)), r.collides_with_rect(Rect::new(3, 3, 1, 1)), r.center(), r.position(), r.extent(), r.split_at_x(2), r.as_::<f32, f64>()));
    p("aabr", (a.union(b), a.intersection(b), a.contains_point(Vec2::new(4, 6)), a.contains_aabr(b), a.collides_with_aabr(b), a.collision_vector_with_aabr(b), a.center(), a.size(), a.half_size()));
    p("aabr2", (a.is_valid(), a.expanded_to_contain_point(Vec2::new(-1, 9)), a.split_at_y(2), a.projected_point(Vec2::new(9, -9)), a.as_::<f64>().distance_to_point(Vec2::new(7., 10.))));
    let c = Aabb { min: Vec3::new(0., 0., 0.), max: Vec3::new(2., 2., 2.) }; let d = Aabb { min: Vec3::new(1., 1., 1.), max: Vec3::new(3., 4., 5.) };
    p("aabb", (c.union(d), c.intersection(d), c.collides_with_aabb(d), c.collision_vector_with_aabb(d), Rect3::from(d), c.contains_point(Vec3::new(2., 2., 2.)), c.split_at_z(1.0), d.made_valid(), Aabb::new_empty(Vec3::new(1, 2, 3))));
    let k = Disk::new(Vec2::new(1.0f64, 1.), 2.); let s = Sphere::new(Vec3::new(0.0f64, 1., 2.), 3.);
    p("disk sphere", (k.contains_point(Vec2::new(3., 1.)), k.collides_with_disk(Disk::unit(Vec2::new(4., 1.))), k.collision_vector_with_disk(Disk::unit(Vec2::new(2., 1.))), k.area(), k.circumference(), k.diameter(), k.aabr(), k.rect()));
    p("sphere", (s.volume(), s.surface_area(), s.aabb(), s.rect3(), s.contains_point(Vec3::new(0., 4., 2.)), s.collides_with_sphere(Sphere::unit(Vec3::new(0., 5., 2.)))));
    let l2 = LineSegment2 { start: Vec2::new(0.0f64, 0.), end: Vec2::new(4., 2.) }; let l3 = LineSegment3 { start: Vec3::new(0.0f32, 0., 0.), end: Vec3::new(1., 2., 2.) };
    p("segments", (l2.projected_point(Vec2::new(1., 3.)), l2.distance_to_point(Vec2::new(1., 3.)), l3.projected_point(Vec3::new(5., 5., 5.)), l3.distance_to_point(Vec3::new(0., 1., 0.)), l2.into_range(), LineSegment2::from(Vec2::new(1, 2)..Vec2::new(3, 4))));
    let ray = Ray::new(Vec3::new(0.25f64, 0.25, -1.), Vec3::new(0., 0., 1.));
    p("ray", (ray.triangle_intersection([Vec3::new(0., 0., 0.), Vec3::new(1., 0., 0.), Vec3::new(0., 1., 0.)]), ray.triangle_intersection([Vec3::new(2., 0., 0.), Vec3::new(3., 0., 0.), Vec3::new(2., 1., 0.)])));
    let q2 = QuadraticBezier2 { start: Vec2::new(0.0f64, 0.), ctrl: Vec2::new(3., 4.), end: Vec2::new(1., -1.) };
    let c3 = CubicBezier3 { start: Vec3::new(0.0f64, 0., 0.), ctrl0: Vec3::new(3., 4., -2.), ctrl1: Vec3::new(-2., 1., 5.), end: Vec3::new(1., -1., 1.) };
    p("quadratic", (q2.evaluate(0.3), q2.evaluate_derivative(0.3), q2.split(0.4), q2.into_cubic(), q2.x_bounds(), q2.y_inflection(), q2.min_x(), q2.max_y()));
    p("quadratic2", (q2.aabr(), q2.length_by_discretization(8), q2.binary_search_point_by_steps(Vec2::new(2., 2.), 8, 1e-3), q2.reversed(), q2.flipped_x(), q2.into_3d(), QuadraticBezier2::<f64>::from(l2), QuadraticBezier2::<f64>::matrix()));
    p("cubic", (c3.evaluate(0.3), c3.evaluate_derivative(0.3), c3.split(0.4), c3.x_bounds(), c3.y_inflections(), c3.min_z(), c3.max_x()));
    p("cubic2", (c3.aabb(), c3.length_by_discretization(8), c3.binary_search_point_by_steps(Vec3::new(2., 2., 2.), 8, 1e-3), c3.reversed(), c3.flipped_z(), c3.into_2d(), CubicBezier3::<f32>::from(l3), CubicBezier3::<f64>::matrix(), Mat4::<f64>::scaling_3d(2.0) * c3));
    p("circle", (CubicBezier2::<f32>::unit_quarter_circle().evaluate(0.5), CubicBezier2::<f64>::unit_circle()[2].evaluate(0.25)));
}

/// Feature-only observations (`featcheck` lines).  They are NOT compared with the bare configuration (the items do not exist
/// there); each line is a verdict of an exhaustive sweep over a small pixel alphabet: vek's `image::Pixel` impls for `Rgb<T>` /
/// `Rgba<T>` against the `image` crate's own `Rgb<T>` / `Rgba<T>` (same trait, same channels) wherever both define the same
/// thing, and against the colour-helper definitions of vek (full alpha, `full - x` inversion that keeps alpha) elsewhere.
#[cfg(all(feature = "image", any(feature = "rgb", feature = "rgba")))]
mod image_interop {
    extern crate image_crate as image;
    use self::image::{Pixel, Primitive};
    use std::fmt::Debug;
    use vek::ColorComponent;

    pub struct Tally { n: u64, bad: u64, first: Vec<String> }
    impl Tally {
        fn new() -> Self { Tally { n: 0, bad: 0, first: vec![] } }
        fn chk<A: PartialEq + Debug>(&mut self, what: &str, input: &dyn Debug, got: A, want: A) {
            self.n += 1;
            if got != want { self.bad += 1; if self.first.len() < 3 { self.first.push(format!("{} on {:?}: got {:?}, want {:?}", what, input, got, want)); } }
        }
        fn done(self, name: &str) {
            if self.bad == 0 { println!("featcheck image {} = ok n={}", name, self.n); } else { println!("featcheck image {} = FAIL bad={} of {} first={:?}", name, self.bad, self.n, self.first); }
        }
    }
    /// r+g+b is representable (vek's to_luma forms that sum in T, like average_rgb, whose documentation says so)
    fn fits<T: Primitive>(r: T, g: T, b: T) -> bool { let f = |x: T| x.to_f64().unwrap(); f(r) + f(g) + f(b) <= f(T::max_value()) && f(r) + f(g) >= f(T::min_value()) && f(r) + f(g) + f(b) >= f(T::min_value()) && f(r) + f(g) <= f(T::max_value()) }
    pub struct Fns<T> { pub f: fn(T) -> T, pub g: fn(T) -> T, pub h: fn(T, T) -> T, pub inv: fn(T) -> T, pub full: T, pub int: bool }

    #[cfg(feature = "rgba")]
    pub fn rgba<T>(ty: &str, al: &[T], k: &Fns<T>) where T: Primitive + ColorComponent + Debug + PartialEq + 'static {
        type V<T> = vek::Rgba<T>; type I<T> = image::Rgba<T>;
        let mut t = Tally::new();
        let (f, g, h) = (k.f, k.g, k.h);
        t.chk("CHANNEL_COUNT", &ty, (<V<T> as Pixel>::CHANNEL_COUNT, <V<T> as Pixel>::channel_count()), (<I<T> as Pixel>::CHANNEL_COUNT, 4));
        t.chk("COLOR_MODEL", &ty, (<V<T> as Pixel>::COLOR_MODEL, <V<T> as Pixel>::color_model()), (<I<T> as Pixel>::COLOR_MODEL, "RGBA"));
        if k.int { t.chk("COLOR_TYPE", &ty, (<V<T> as Pixel>::COLOR_TYPE, <V<T> as Pixel>::color_type()), (<I<T> as Pixel>::COLOR_TYPE, <I<T> as Pixel>::color_type())); }
        for &r in al { for &gg in al { for &b in al { for &a in al {
            let px = [r, gg, b, a]; let o = [a, b, r, gg];
            let v: V<T> = vek::Rgba { r, g: gg, b, a }; let i: I<T> = image::Rgba(px);
            let vo: V<T> = vek::Rgba { r: o[0], g: o[1], b: o[2], a: o[3] }; let io: I<T> = image::Rgba(o);
            let arr = |p: &V<T>| [p.r, p.g, p.b, p.a];
            t.chk("channels", &px, Pixel::channels(&v).to_vec(), i.channels().to_vec());
            t.chk("channels4", &px, Pixel::channels4(&v), i.channels4());
            t.chk("from_channels", &px, arr(&<V<T> as Pixel>::from_channels(r, gg, b, a)), <I<T> as Pixel>::from_channels(r, gg, b, a).0);
            t.chk("from_slice", &px, arr(<V<T> as Pixel>::from_slice(&px)), <I<T> as Pixel>::from_slice(&px).0);
            let (mut s1, mut s2) = (px, px);
            { let m = <V<T> as Pixel>::from_slice_mut(&mut s1); Pixel::channels_mut(m)[3] = f(a); m.g = g(gg); }
            { let m = <I<T> as Pixel>::from_slice_mut(&mut s2); m.channels_mut()[3] = f(a); m.0[1] = g(gg); }
            t.chk("from_slice_mut + channels_mut write through", &px, s1, s2);
            t.chk("to_rgb", &px, Pixel::to_rgb(&v).0, i.to_rgb().0);
            t.chk("to_rgba", &px, Pixel::to_rgba(&v).0, i.to_rgba().0);
            t.chk("to_bgr", &px, Pixel::to_bgr(&v).0, i.to_bgr().0);
            t.chk("to_bgra", &px, Pixel::to_bgra(&v).0, i.to_bgra().0);
            if fits(r, gg, b) { t.chk("to_luma_alpha keeps alpha", &px, Pixel::to_luma_alpha(&v).0[1], a); }
            t.chk("map", &px, arr(&Pixel::map(&v, f)), i.map(f).0);
            t.chk("map_with_alpha", &px, arr(&Pixel::map_with_alpha(&v, f, g)), i.map_with_alpha(f, g).0);
            t.chk("map_without_alpha", &px, arr(&Pixel::map_without_alpha(&v, f)), i.map_without_alpha(f).0);
            t.chk("map2", &px, arr(&Pixel::map2(&v, &vo, h)), i.map2(&io, h).0);
            let (mut v2, mut i2) = (v, i); Pixel::apply(&mut v2, f); i2.apply(f); t.chk("apply", &px, arr(&v2), i2.0);
            let (mut v2, mut i2) = (v, i); Pixel::apply_with_alpha(&mut v2, f, g); i2.apply_with_alpha(f, g); t.chk("apply_with_alpha", &px, arr(&v2), i2.0);
            let (mut v2, mut i2) = (v, i); Pixel::apply_without_alpha(&mut v2, f); i2.apply_without_alpha(f); t.chk("apply_without_alpha", &px, arr(&v2), i2.0);
            let (mut v2, mut i2) = (v, i); Pixel::apply2(&mut v2, &vo, h); i2.apply2(&io, h); t.chk("apply2", &px, arr(&v2), i2.0);
            let (mut v2, mut i2) = (v, i); Pixel::invert(&mut v2); i2.invert();
            t.chk("invert = full - x on r,g,b, alpha kept", &px, arr(&v2), [(k.inv)(r), (k.inv)(gg), (k.inv)(b), a]);
            t.chk("invert = inverted_rgb", &px, arr(&v2), arr(&v.inverted_rgb()));
            if k.int { t.chk("invert agrees with image::Rgba", &px, arr(&v2), i2.0); }
            Pixel::invert(&mut v2); t.chk("invert twice", &px, arr(&v2), px);
            // a second call on the same value, and a call after an in-place mutation (history)
            let mut v3 = v; Pixel::apply(&mut v3, f); Pixel::invert(&mut v3);
            t.chk("apply then invert", &px, arr(&v3), [(k.inv)(f(r)), (k.inv)(f(gg)), (k.inv)(f(b)), f(a)]);
        }}}}
        t.done(&format!("Rgba<{}>", ty));
    }

    #[cfg(feature = "rgb")]
    pub fn rgb<T>(ty: &str, al: &[T], k: &Fns<T>) where T: Primitive + ColorComponent + Debug + PartialEq + 'static {
        type V<T> = vek::Rgb<T>; type I<T> = image::Rgb<T>;
        let mut t = Tally::new();
        let (f, g, h) = (k.f, k.g, k.h);
        t.chk("CHANNEL_COUNT", &ty, (<V<T> as Pixel>::CHANNEL_COUNT, <V<T> as Pixel>::channel_count()), (<I<T> as Pixel>::CHANNEL_COUNT, 3));
        t.chk("COLOR_MODEL", &ty, (<V<T> as Pixel>::COLOR_MODEL, <V<T> as Pixel>::color_model()), (<I<T> as Pixel>::COLOR_MODEL, "RGB"));
        if k.int { t.chk("COLOR_TYPE", &ty, (<V<T> as Pixel>::COLOR_TYPE, <V<T> as Pixel>::color_type()), (<I<T> as Pixel>::COLOR_TYPE, <I<T> as Pixel>::color_type())); }
        for &r in al { for &gg in al { for &b in al {
            let px = [r, gg, b]; let o = [b, r, gg]; let d = al[al.len() / 2];
            let v: V<T> = vek::Rgb { r, g: gg, b }; let i: I<T> = image::Rgb(px);
            let vo: V<T> = vek::Rgb { r: o[0], g: o[1], b: o[2] }; let io: I<T> = image::Rgb(o);
            let arr = |p: &V<T>| [p.r, p.g, p.b];
            t.chk("channels", &px, Pixel::channels(&v).to_vec(), i.channels().to_vec());
            t.chk("channels4 (full alpha)", &px, Pixel::channels4(&v), (r, gg, b, k.full));
            t.chk("from_channels", &px, arr(&<V<T> as Pixel>::from_channels(r, gg, b, d)), <I<T> as Pixel>::from_channels(r, gg, b, d).0);
            t.chk("from_slice", &px, arr(<V<T> as Pixel>::from_slice(&px)), <I<T> as Pixel>::from_slice(&px).0);
            let (mut s1, mut s2) = (px, px);
            { let m = <V<T> as Pixel>::from_slice_mut(&mut s1); Pixel::channels_mut(m)[2] = f(b); m.r = g(r); }
            { let m = <I<T> as Pixel>::from_slice_mut(&mut s2); m.channels_mut()[2] = f(b); m.0[0] = g(r); }
            t.chk("from_slice_mut + channels_mut write through", &px, s1, s2);
            t.chk("to_rgb", &px, Pixel::to_rgb(&v).0, i.to_rgb().0);
            t.chk("to_bgr", &px, Pixel::to_bgr(&v).0, i.to_bgr().0);
            t.chk("to_rgba (full alpha)", &px, Pixel::to_rgba(&v).0, [r, gg, b, k.full]);
            t.chk("to_bgra (full alpha)", &px, Pixel::to_bgra(&v).0, [b, gg, r, k.full]);
            if fits(r, gg, b) { t.chk("to_luma_alpha has full alpha", &px, Pixel::to_luma_alpha(&v).0[1], k.full); }
            if k.int {
                t.chk("channels4 agrees with image::Rgb", &px, Pixel::channels4(&v), i.channels4());
                t.chk("to_rgba agrees with image::Rgb", &px, Pixel::to_rgba(&v).0, i.to_rgba().0);
                t.chk("to_bgra agrees with image::Rgb", &px, Pixel::to_bgra(&v).0, i.to_bgra().0);
            }
            t.chk("map", &px, arr(&Pixel::map(&v, f)), i.map(f).0);
            t.chk("map_with_alpha", &px, arr(&Pixel::map_with_alpha(&v, f, g)), i.map_with_alpha(f, g).0);
            t.chk("map_without_alpha", &px, arr(&Pixel::map_without_alpha(&v, f)), i.map_without_alpha(f).0);
            t.chk("map2", &px, arr(&Pixel::map2(&v, &vo, h)), i.map2(&io, h).0);
            let (mut v2, mut i2) = (v, i); Pixel::apply(&mut v2, f); i2.apply(f); t.chk("apply", &px, arr(&v2), i2.0);
            let (mut v2, mut i2) = (v, i); Pixel::apply_with_alpha(&mut v2, f, g); i2.apply_with_alpha(f, g); t.chk("apply_with_alpha", &px, arr(&v2), i2.0);
            let (mut v2, mut i2) = (v, i); Pixel::apply_without_alpha(&mut v2, f); i2.apply_without_alpha(f); t.chk("apply_without_alpha", &px, arr(&v2), i2.0);
            let (mut v2, mut i2) = (v, i); Pixel::apply2(&mut v2, &vo, h); i2.apply2(&io, h); t.chk("apply2", &px, arr(&v2), i2.0);
            let (mut v2, mut i2) = (v, i); Pixel::invert(&mut v2); i2.invert();
            t.chk("invert = full - x", &px, arr(&v2), [(k.inv)(r), (k.inv)(gg), (k.inv)(b)]);
            t.chk("invert = inverted_rgb", &px, arr(&v2), arr(&v.inverted_rgb()));
            if k.int { t.chk("invert agrees with image::Rgb", &px, arr(&v2), i2.0); }
            Pixel::invert(&mut v2); t.chk("invert twice", &px, arr(&v2), px);
        }}}
        t.done(&format!("Rgb<{}>", ty));
    }

    pub fn run() {
        let k8 = Fns::<u8> { f: |x| x.wrapping_mul(3).wrapping_add(7), g: |x| x ^ 0x55, h: |x, y| x.wrapping_sub(y.wrapping_mul(2)), inv: |x| 255 - x, full: 255, int: true };
        let k16 = Fns::<u16> { f: |x| x.wrapping_mul(3).wrapping_add(7), g: |x| x ^ 0x5555, h: |x, y| x.wrapping_sub(y.wrapping_mul(2)), inv: |x| 65535 - x, full: 65535, int: true };
        let kf = Fns::<f32> { f: |x| x * 3.0 + 7.0, g: |x| x - 0.5, h: |x, y| x - 2.0 * y, inv: |x| 1.0 - x, full: 1.0, int: false };
        let a8 = [0u8, 1, 2, 127, 128, 254, 255];
        let a16 = [0u16, 1, 255, 256, 32767, 32768, 65534, 65535];
        let af = [0.0f32, 0.25, 0.5, 1.0, -1.0, 2.0];
        #[cfg(feature = "rgba")] { rgba("u8", &a8, &k8); rgba("u16", &a16, &k16); rgba("f32", &af, &kf); }
        #[cfg(feature = "rgb")] { rgb("u8", &a8, &k8); rgb("u16", &a16, &k16); rgb("f32", &af, &kf); }
    }
}

/// An element type that implements the three approx traits and nothing else (no arithmetic, no Neg, no Float): the approx impls of
/// vectors, matrices and quaternions must keep accepting it - a narrowed impl bound is an API break that shows as a build failure of
/// this program in every configuration.
#[derive(Clone, Copy, Debug, PartialEq)]
struct Tol(i32);
impl AbsDiffEq for Tol { type Epsilon = i32; fn default_epsilon() -> i32 { 1 } fn abs_diff_eq(&self, o: &Tol, e: i32) -> bool { (self.0 - o.0).abs() <= e } }
impl RelativeEq for Tol { fn default_max_relative() -> i32 { 2 } fn relative_eq(&self, o: &Tol, e: i32, m: i32) -> bool { (self.0 - o.0).abs() <= e.max(m) } }
impl UlpsEq for Tol { fn default_max_ulps() -> u32 { 3 } fn ulps_eq(&self, o: &Tol, e: i32, u: u32) -> bool { (self.0 - o.0).abs() <= e.max(u as i32) } }
fn approx_on_a_minimal_element() {
    let (a, b) = (Vec4::new(Tol(0), Tol(10), Tol(20), Tol(30)), Vec4::new(Tol(1), Tol(12), Tol(23), Tol(30)));
    p("tol vec4", ((a.abs_diff_eq(&b, 2), a.abs_diff_eq(&b, 3)), (a.relative_eq(&b, 0, 2), a.relative_eq(&b, 0, 3)), (a.ulps_eq(&b, 0, 2), a.ulps_eq(&b, 0, 3)), (Vec4::<Tol>::default_epsilon(), Vec4::<Tol>::default_max_relative(), Vec4::<Tol>::default_max_ulps())));
    let (q, r) = (Quaternion { x: Tol(0), y: Tol(-10), z: Tol(20), w: Tol(-30) }, Quaternion { x: Tol(0), y: Tol(10), z: Tol(-20), w: Tol(30) });
    p("tol quaternion", ((q.abs_diff_eq(&q, 0), q.abs_diff_eq(&r, 19), q.abs_diff_eq(&r, 60)), (q.relative_eq(&r, 0, 59), q.relative_eq(&r, 60, 0)), (q.ulps_eq(&q, 0, 0), q.ulps_eq(&r, 0, 59), q.ulps_eq(&r, 0, 60)), Quaternion::<Tol>::default_max_ulps()));
    let m = Mat3::new(Tol(0), Tol(1), Tol(2), Tol(3), Tol(4), Tol(5), Tol(6), Tol(7), Tol(8)); let n = Mat3::new(Tol(0), Tol(1), Tol(2), Tol(3), Tol(4), Tol(9), Tol(6), Tol(7), Tol(8));
    p("tol mat3", ((m.abs_diff_eq(&n, 3), m.abs_diff_eq(&n, 4)), (m.relative_eq(&n, 3, 3), m.relative_eq(&n, 0, 4)), (m.ulps_eq(&n, 3, 3), m.ulps_eq(&n, 4, 0))));
    let rm = vek::mat::repr_c::row_major::Mat2::new(Tol(0), Tol(1), Tol(2), Tol(3)); let rn = vek::mat::repr_c::row_major::Mat2::new(Tol(0), Tol(1), Tol(5), Tol(3));
    p("tol row mat2", (rm.abs_diff_eq(&rn, 2), rm.abs_diff_eq(&rn, 3), rm.relative_eq(&rn, 0, 3), rm.ulps_eq(&rn, 0, 2)));
}

fn main() {
    // which configuration this binary was compiled for (checked by the driver against the requested one; not part of the comparison)
    let cfg: Vec<&str> = [("std", cfg!(feature = "std")), ("libm", cfg!(feature = "libm")), ("vec8", cfg!(feature = "vec8")), ("vec16", cfg!(feature = "vec16")), ("vec32", cfg!(feature = "vec32")), ("vec64", cfg!(feature = "vec64")),
        ("rgb", cfg!(feature = "rgb")), ("rgba", cfg!(feature = "rgba")), ("uv", cfg!(feature = "uv")), ("uvw", cfg!(feature = "uvw")), ("serde", cfg!(feature = "serde")), ("mint", cfg!(feature = "mint")),
        ("bytemuck", cfg!(feature = "bytemuck")), ("az", cfg!(feature = "az")), ("image", cfg!(feature = "image")), ("repr_simd", cfg!(feature = "repr_simd"))].iter().filter(|x| x.1).map(|x| x.0).collect();
    println!("compiled-for: {}", cfg.join(","));
    layout!(Vec2<f32>, Vec3<f32>, Vec4<f32>, Vec3<u8>, Vec4<f64>, Extent2<u16>, Extent3<u64>, Mat2<f32>, Mat3<f32>, Mat4<f64>, vek::mat::repr_c::row_major::Mat4<f32>, Quaternion<f32>, Transform<f32, f32, f32>, Rect<i32, u32>, Rect3<f32, f32>, Aabr<i8>, Aabb<f64>, Disk<f32, f32>, Sphere<f64, f64>, LineSegment2<f32>, LineSegment3<f64>, Ray<f32>, QuadraticBezier2<f32>, QuadraticBezier3<f32>, CubicBezier2<f64>, CubicBezier3<f32>, FrustumPlanes<f32>, vek::vec::repr_c::vec4::IntoIter<u8>, vek::vec::ShuffleMask4);
    vectors();
    matrices();
    quaternions_and_transforms();
    ops();
    shapes_and_curves();
    approx_on_a_minimal_element();
    #[cfg(all(feature = "image", any(feature = "rgb", feature = "rgba")))]
    image_interop::run();
    p("checked wrapping", (Vec2::new(250u8, 1).checked_add(&Vec2::new(5, 1)), Vec2::new(250u8, 1).wrapping_add(&Vec2::new(10, 1))));
}
