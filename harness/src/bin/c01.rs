//! C01 — matrix products are the linear-algebra product in both layouts.
use std::ops::*;
use vx::fr::Deg;
use vx::lattice::*;
use vx::matx::*;
use vx::term::Term;
use vx::*;

fn arrx<const N: usize>(a: &[i64]) -> A<X, N> { let mut m = [[qi(0); N]; N]; for i in 0..N { for j in 0..N { m[i][j] = qi(a[i * N + j] as i128); } } m }
fn vecx<const N: usize>(a: &[i64]) -> [X; N] { let mut v = [qi(0); N]; for i in 0..N { v[i] = qi(a[i] as i128); } v }

/// every matrix*matrix form on the lattice L(2N^2, d)
fn mm_products<const N: usize, R, C>(s: &Section, d: u32)
where
    R: MatIO<X, N> + Copy + Send + Sync + Mul<R, Output = R> + Mul<C, Output = C> + MulAssign<R>,
    C: MatIO<X, N> + Copy + Send + Sync + Mul<C, Output = C> + Mul<R, Output = R> + MulAssign<C>,
{
    let nn = N * N;
    par_lattice(2 * nn, d, |a| {
        let (aa, bb) = (arrx::<N>(&a[..nn]), arrx::<N>(&a[nn..]));
        let want = mmul(&aa, &bb);
        let nz = a[..nn].iter().any(|&v| v != 0) && a[nn..].iter().any(|&v| v != 0);
        let w: u64 = a.iter().sum::<i64>() as u64;
        let inp = || json!({"A": jmat(&aa), "B": jmat(&bb)});
        let (ra, rb, ca, cb) = (R::build(&aa), R::build(&bb), C::build(&aa), C::build(&bb));
        let mut chk = |site: &str, got: Option<A<X, N>>| {
            s.eval(nz);
            if let Some(g) = got { if g != want { s.violation_w(&format!("Mat{}::mul {}", N, site), "wrong-product", json!({"input": inp(), "got": jmat(&g), "want": jmat(&want)}), w); } }
        };
        chk("row*row", s.call("row*row", inp, || (ra * rb).decode()));
        chk("col*col", s.call("col*col", inp, || (ca * cb).decode()));
        chk("row*col->col", s.call("row*col", inp, || (ra * cb).decode()));
        chk("col*row->row", s.call("col*row", inp, || (ca * rb).decode()));
        chk("row*=row", s.call("row*=row", inp, || { let mut m = ra; m *= rb; m.decode() }));
        chk("col*=col", s.call("col*=col", inp, || { let mut m = ca; m *= cb; m.decode() }));
        if nz && w == d as u64 && s.wants_sample() { s.sample(json!({"N": N, "A": jmat(&aa), "B": jmat(&bb), "A*B": jmat(&want), "forms_checked": 6})); }
    });
    s.meta("lattice", json!({"order": d, "points": lattice_count(2 * nn, d).to_string()}));
}

/// matrix*column-vector and row-vector*matrix on L(N^2+N, d)
fn mv_products<const N: usize, R, C, V>(s: &Section, d: u32)
where
    R: MatIO<X, N> + Copy + Send + Sync + Mul<V, Output = V>,
    C: MatIO<X, N> + Copy + Send + Sync + Mul<V, Output = V>,
    V: VecIO<X, N> + Copy + Send + Sync + Mul<R, Output = V> + Mul<C, Output = V>,
{
    let nn = N * N;
    par_lattice(nn + N, d, |a| {
        let (aa, vv) = (arrx::<N>(&a[..nn]), vecx::<N>(&a[nn..]));
        let (want_mv, want_vm) = (mvec(&aa, &vv), vmat(&vv, &aa));
        let nz = a[..nn].iter().any(|&v| v != 0) && a[nn..].iter().any(|&v| v != 0);
        let w: u64 = a.iter().sum::<i64>() as u64;
        let inp = || json!({"M": jmat(&aa), "v": jxs(&vv)});
        let (r, c, v) = (R::build(&aa), C::build(&aa), V::build(&vv));
        let mut chk = |site: &str, got: Option<[X; N]>, want: &[X; N]| {
            s.eval(nz);
            if let Some(g) = got { if &g != want { s.violation_w(&format!("Mat{} {}", N, site), "wrong-product", json!({"input": inp(), "got": jxs(&g), "want": jxs(want)}), w); } }
        };
        chk("row-major M*v", s.call("row M*v", inp, || (r * v).decode()), &want_mv);
        chk("col-major M*v", s.call("col M*v", inp, || (c * v).decode()), &want_mv);
        chk("v*row-major M", s.call("v*row M", inp, || (v * r).decode()), &want_vm);
        chk("v*col-major M", s.call("v*col M", inp, || (v * c).decode()), &want_vm);
        if nz && w == d as u64 && s.wants_sample() { s.sample(json!({"N": N, "M": jmat(&aa), "v": jxs(&vv), "M*v": jxs(&want_mv), "v*M": jxs(&want_vm)})); }
    });
    s.meta("lattice", json!({"order": d, "points": lattice_count(nn + N, d).to_string()}));
}

/// degree and branch-freedom premise, measured on the code as it is on disk
fn deg_products<const N: usize, R, C, V>(s: &Section) -> u32
where
    R: MatIO<Deg, N> + Copy + Mul<R, Output = R> + Mul<C, Output = C> + Mul<V, Output = V>,
    C: MatIO<Deg, N> + Copy + Mul<C, Output = C> + Mul<R, Output = R> + Mul<V, Output = V>,
    V: VecIO<Deg, N> + Copy + Mul<R, Output = V> + Mul<C, Output = V>,
{
    let a = [[Deg::VAR; N]; N];
    let v = [Deg::VAR; N];
    let mut maxd = 0u32;
    let mut upd = |r: Result<Vec<Deg>, Caught>, what: &str| {
        s.eval(true);
        match r { Ok(ds) => for d in ds { maxd = maxd.max(d.n + d.d); if d.d != 0 { s.degrade(&format!("{}: division present", what)); } },
                  Err(e) => s.degrade(&format!("{}: {:?}", what, e)) }
    };
    let flat = |m: A<Deg, N>| m.iter().flatten().copied().collect::<Vec<_>>();
    upd(catch(|| flat((R::build(&a) * R::build(&a)).decode())), "row*row");
    upd(catch(|| flat((C::build(&a) * C::build(&a)).decode())), "col*col");
    upd(catch(|| flat((R::build(&a) * C::build(&a)).decode())), "row*col");
    upd(catch(|| flat((C::build(&a) * R::build(&a)).decode())), "col*row");
    upd(catch(|| (R::build(&a) * V::build(&v)).decode().to_vec()), "row*v");
    upd(catch(|| (C::build(&a) * V::build(&v)).decode().to_vec()), "col*v");
    upd(catch(|| (V::build(&v) * R::build(&a)).decode().to_vec()), "v*row");
    upd(catch(|| (V::build(&v) * C::build(&a)).decode().to_vec()), "v*col");
    maxd
}

fn tvars<const N: usize>(off: u32) -> A<Term, N> { let mut m = [[Term::cst(0); N]; N]; for i in 0..N { for j in 0..N { m[i][j] = Term::var(off + (i * N + j) as u32); } } m }

/// element-wise operators and scalar forms on free terms: position (i,j) must be op(a_ij, b_ij) / op(a_ij, s)
macro_rules! elementwise { ($s:expr, $N:expr, $M:ty, $lay:expr) => {{
    let s: &Section = $s;
    const N: usize = $N;
    let (ta, tb) = (tvars::<N>(0), tvars::<N>(100));
    let sc = Term::var(999);
    let (a, b) = (<$M as MatIO<Term, N>>::build(&ta), <$M as MatIO<Term, N>>::build(&tb));
    let site = |op: &str| format!("Mat{}<{}> {}", N, $lay, op);
    let expect = |op: &str, got: Result<$M, Caught>, f: &dyn Fn(usize, usize) -> Term| {
        s.eval(true);
        match got {
            Ok(m) => { let g = m.decode(); for i in 0..N { for j in 0..N { if g[i][j] != f(i, j) {
                s.violation(&site(op), "wrong-element", json!({"position": [i, j], "got": jd(&g[i][j]), "want": jd(&f(i, j))})); } } } }
            Err(e) => s.violation(&site(op), "panic", json!({"error": jd(&e)})),
        }
    };
    expect("+ M", catch(|| a + b), &|i, j| Term::bin("add", ta[i][j], tb[i][j]));
    expect("- M", catch(|| a - b), &|i, j| Term::bin("sub", ta[i][j], tb[i][j]));
    expect("/ M", catch(|| a / b), &|i, j| Term::bin("div", ta[i][j], tb[i][j]));
    expect("% M", catch(|| a % b), &|i, j| Term::bin("rem", ta[i][j], tb[i][j]));
    expect("neg", catch(|| -a), &|i, j| Term::un("neg", ta[i][j]));
    expect("mul_memberwise", catch(|| a.mul_memberwise(b)), &|i, j| Term::bin("mul", ta[i][j], tb[i][j]));
    expect("+ scalar", catch(|| a + sc), &|i, j| Term::bin("add", ta[i][j], sc));
    expect("- scalar", catch(|| a - sc), &|i, j| Term::bin("sub", ta[i][j], sc));
    expect("* scalar", catch(|| a * sc), &|i, j| Term::bin("mul", ta[i][j], sc));
    expect("/ scalar", catch(|| a / sc), &|i, j| Term::bin("div", ta[i][j], sc));
    expect("% scalar", catch(|| a % sc), &|i, j| Term::bin("rem", ta[i][j], sc));
    expect("+= M", catch(|| { let mut m = a; m += b; m }), &|i, j| Term::bin("add", ta[i][j], tb[i][j]));
    expect("-= M", catch(|| { let mut m = a; m -= b; m }), &|i, j| Term::bin("sub", ta[i][j], tb[i][j]));
    expect("/= M", catch(|| { let mut m = a; m /= b; m }), &|i, j| Term::bin("div", ta[i][j], tb[i][j]));
    expect("%= M", catch(|| { let mut m = a; m %= b; m }), &|i, j| Term::bin("rem", ta[i][j], tb[i][j]));
    expect("+= scalar", catch(|| { let mut m = a; m += sc; m }), &|i, j| Term::bin("add", ta[i][j], sc));
    expect("-= scalar", catch(|| { let mut m = a; m -= sc; m }), &|i, j| Term::bin("sub", ta[i][j], sc));
    expect("*= scalar", catch(|| { let mut m = a; m *= sc; m }), &|i, j| Term::bin("mul", ta[i][j], sc));
    expect("/= scalar", catch(|| { let mut m = a; m /= sc; m }), &|i, j| Term::bin("div", ta[i][j], sc));
    expect("%= scalar", catch(|| { let mut m = a; m %= sc; m }), &|i, j| Term::bin("rem", ta[i][j], sc));
    let k = |i: usize, j: usize, d: i64, o: i64| Term::cst(if i == j { d } else { o });
    expect("identity()", catch(|| <$M>::identity()), &|i, j| k(i, j, 1, 0));
    expect("zero()", catch(|| <$M>::zero()), &|i, j| k(i, j, 0, 0));
    expect("Default", catch(|| <$M as Default>::default()), &|i, j| k(i, j, 1, 0));
    expect("Zero::zero", catch(|| <$M as num_traits::Zero>::zero()), &|i, j| k(i, j, 0, 0));
    expect("One::one", catch(|| <$M as num_traits::One>::one()), &|i, j| k(i, j, 1, 0));
    s.sample(json!({"matrix": format!("Mat{}<{}>", N, $lay), "a[0][1]": jd(&ta[0][1]), "b[0][1]": jd(&tb[0][1]), "(a/b)[0][1] must be": jd(&Term::bin("div", ta[0][1], tb[0][1]))}));
}} }

/// identity neutrality on every lattice point (values), both sides
fn neutrality<const N: usize, M>(s: &Section, d: u32, id: M, lay: &str)
where M: MatIO<X, N> + Copy + Send + Sync + Mul<M, Output = M> {
    par_lattice(N * N, d, |a| {
        let aa = arrx::<N>(a);
        let m = M::build(&aa);
        for (side, got) in [("I*M", s.call("I*M", || jmat(&aa), || (id * m).decode())), ("M*I", s.call("M*I", || jmat(&aa), || (m * id).decode()))] {
            s.eval(a.iter().any(|&v| v != 0));
            if let Some(g) = got { if g != aa { s.violation(&format!("Mat{}<{}> {}", N, lay, side), "identity-not-neutral", json!({"M": jmat(&aa), "got": jmat(&g)})); } }
        }
    });
}

fn main() {
    let rep = Report::start("C01", "exploration");
    let extra = if rep.thorough() { 4 } else { 2 };

    rep.section("premise: products are branch-free of total degree 2", "one run of each product form on tropical degree values (every comparison or cast panics); non-trivial: all", true, true, |s| {
        let d2 = deg_products::<2, rm::Mat2<Deg>, cm::Mat2<Deg>, Vec2<Deg>>(s);
        let d3 = deg_products::<3, rm::Mat3<Deg>, cm::Mat3<Deg>, Vec3<Deg>>(s);
        let d4 = deg_products::<4, rm::Mat4<Deg>, cm::Mat4<Deg>, Vec4<Deg>>(s);
        s.meta("measured_degree", json!({"mat2": d2, "mat3": d3, "mat4": d4}));
        s.sample(json!({"form": "row*col (4x4)", "input": "all 32 entries = degree-1 variable", "measured_output_degree": d4}));
        if d2.max(d3).max(d4) > 2 { s.degrade("measured degree exceeds the lattice order used below"); }
    });
    let rule_mm = "all points of the simplex lattice L(2N^2, D) (entries = small non-negative integers, sum <= D), D = measured degree 2, run at D+2 (quick) / D+4 (thorough), every matrix*matrix form vs sum_k A(i,k)B(k,j) on public fields; non-trivial: both operands non-zero";
    rep.section("matrix*matrix N=2", rule_mm, true, true, |s| mm_products::<2, rm::Mat2<X>, cm::Mat2<X>>(s, 2 + extra));
    rep.section("matrix*matrix N=3", rule_mm, true, true, |s| mm_products::<3, rm::Mat3<X>, cm::Mat3<X>>(s, 2 + extra));
    rep.section("matrix*matrix N=4", rule_mm, true, true, |s| mm_products::<4, rm::Mat4<X>, cm::Mat4<X>>(s, 2 + extra));
    let rule_mv = "all points of L(N^2+N, D), D = 2+2 (quick) / 2+4 (thorough): M*v and v*M for both layouts vs the defining sums; non-trivial: matrix and vector non-zero";
    rep.section("matrix*vector N=2", rule_mv, true, true, |s| mv_products::<2, rm::Mat2<X>, cm::Mat2<X>, Vec2<X>>(s, 2 + extra));
    rep.section("matrix*vector N=3", rule_mv, true, true, |s| mv_products::<3, rm::Mat3<X>, cm::Mat3<X>, Vec3<X>>(s, 2 + extra));
    rep.section("matrix*vector N=4", rule_mv, true, true, |s| mv_products::<4, rm::Mat4<X>, cm::Mat4<X>, Vec4<X>>(s, 2 + extra));

    rep.section("element-wise operators, scalar forms, identity/zero/one (free terms)",
        "each operator form of each of the 6 matrix types run once on pairwise distinct uninterpreted terms (the most general input: the operators are uninterpreted constructors); every element position compared; non-trivial: all", true, true, |s| {
        elementwise!(s, 2, rm::Mat2<Term>, "row"); elementwise!(s, 2, cm::Mat2<Term>, "col");
        elementwise!(s, 3, rm::Mat3<Term>, "row"); elementwise!(s, 3, cm::Mat3<Term>, "col");
        elementwise!(s, 4, rm::Mat4<Term>, "row"); elementwise!(s, 4, cm::Mat4<Term>, "col");
    });
    rep.section("identity is neutral", "all points of L(N^2, 1+extra) (degree 1): I*M = M*I = M with I from identity(); non-trivial: M non-zero", true, true, |s| {
        neutrality::<2, _>(s, 1 + extra, rm::Mat2::<X>::identity(), "row"); neutrality::<2, _>(s, 1 + extra, cm::Mat2::<X>::identity(), "col");
        neutrality::<3, _>(s, 1 + extra, rm::Mat3::<X>::identity(), "row"); neutrality::<3, _>(s, 1 + extra, cm::Mat3::<X>::identity(), "col");
        neutrality::<4, _>(s, 1 + extra, rm::Mat4::<X>::identity(), "row"); neutrality::<4, _>(s, 1 + extra, cm::Mat4::<X>::identity(), "col");
        s.sample(json!({"M": "e_01 (single unit entry)", "law": "identity()*M == M == M*identity()"}));
    });

    rep.section("Vec4-as-2x2 helpers", "all points of L(8, 2+extra): the six mat2_{rows,cols}_{mul,adj_mul,mul_adj} vs 2x2 products with adj[[a,b],[c,d]]=[[d,-b],[-c,a]]; non-trivial: both operands non-zero", true, true, |s| {
        let dm = { // degree premise
            let v = Vec4 { x: Deg::VAR, y: Deg::VAR, z: Deg::VAR, w: Deg::VAR };
            match catch(|| [v.mat2_rows_mul(v), v.mat2_rows_adj_mul(v), v.mat2_rows_mul_adj(v), v.mat2_cols_mul(v), v.mat2_cols_adj_mul(v), v.mat2_cols_mul_adj(v)]) {
                Ok(rs) => rs.iter().map(|r| [r.x, r.y, r.z, r.w].iter().map(|d| d.n + d.d).max().unwrap()).max().unwrap(),
                Err(e) => { s.degrade(&format!("{:?}", e)); 99 }
            }
        };
        s.meta("measured_degree", json!(dm));
        if dm > 2 { s.degrade("degree above lattice order"); }
        par_lattice(8, 2 + extra, |p| {
            let a: [X; 4] = vecx::<4>(&p[..4]); let b: [X; 4] = vecx::<4>(&p[4..]);
            let (va, vb) = (v4(&a), v4(&b));
            let rows = |v: &[X; 4]| -> A<X, 2> { [[v[0], v[1]], [v[2], v[3]]] };
            let cols = |v: &[X; 4]| -> A<X, 2> { [[v[0], v[2]], [v[1], v[3]]] };
            let adj = |m: &A<X, 2>| -> A<X, 2> { [[m[1][1], -m[0][1]], [-m[1][0], m[0][0]]] };
            let flat_r = |m: A<X, 2>| [m[0][0], m[0][1], m[1][0], m[1][1]];
            let flat_c = |m: A<X, 2>| [m[0][0], m[1][0], m[0][1], m[1][1]];
            let nz = p[..4].iter().any(|&v| v != 0) && p[4..].iter().any(|&v| v != 0);
            let cases: [(&str, Option<Vec4<X>>, [X; 4]); 6] = [
                ("mat2_rows_mul", s.call("mat2_rows_mul", || json!(p), || va.mat2_rows_mul(vb)), flat_r(mmul(&rows(&a), &rows(&b)))),
                ("mat2_rows_adj_mul", s.call("mat2_rows_adj_mul", || json!(p), || va.mat2_rows_adj_mul(vb)), flat_r(mmul(&adj(&rows(&a)), &rows(&b)))),
                ("mat2_rows_mul_adj", s.call("mat2_rows_mul_adj", || json!(p), || va.mat2_rows_mul_adj(vb)), flat_r(mmul(&rows(&a), &adj(&rows(&b))))),
                ("mat2_cols_mul", s.call("mat2_cols_mul", || json!(p), || va.mat2_cols_mul(vb)), flat_c(mmul(&cols(&a), &cols(&b)))),
                ("mat2_cols_adj_mul", s.call("mat2_cols_adj_mul", || json!(p), || va.mat2_cols_adj_mul(vb)), flat_c(mmul(&adj(&cols(&a)), &cols(&b)))),
                ("mat2_cols_mul_adj", s.call("mat2_cols_mul_adj", || json!(p), || va.mat2_cols_mul_adj(vb)), flat_c(mmul(&cols(&a), &adj(&cols(&b))))),
            ];
            for (name, got, want) in cases {
                s.eval(nz);
                if let Some(g) = got { let g = dv4(&g); if g != want {
                    s.violation_w(&format!("Vec4::{}", name), "wrong-product", json!({"a": jxs(&a), "b": jxs(&b), "got": jxs(&g), "want": jxs(&want)}), p.iter().sum::<i64>() as u64); } }
            }
        });
        s.sample(json!({"a": [1, 0, 0, 0], "b": [0, 1, 0, 0], "functions": 6}));
    });
    std::process::exit(rep.finish());
}
