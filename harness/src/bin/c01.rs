//! C01 — matrix products are the linear-algebra product in both layouts.
use std::ops::*;
use vx::fr::Deg;
use vx::lattice::*;
use vx::matx::*;
use vx::term::Term;
use vx::*;

fn arrx<const N: usize>(a: &[i64]) -> A<X, N> { let mut m = [[qi(0); N]; N]; for i in 0..N { for j in 0..N { m[i][j] = qi(a[i * N + j] as i128); } } m }
fn vecx<const N: usize>(a: &[i64]) -> [X; N] { let mut v = [qi(0); N]; for i in 0..N { v[i] = qi(a[i] as i128); } v }

/// every matrix*matrix form on the lattice L(2N^2, d)
fn mm_products<const N: usize, R, C>(s: &Section, d: u32)
where
    R: MatIO<X, N> + Copy + Send + Sync + Mul<R, Output = R> + Mul<C, Output = C> + MulAssign<R>,
    C: MatIO<X, N> + Copy + Send + Sync + Mul<C, Output = C> + Mul<R, Output = R> + MulAssign<C>,
{
    let nn = N * N;
    par_lattice(2 * nn, d, |a| {
        let (aa, bb) = (arrx::<N>(&a[..nn]), arrx::<N>(&a[nn..]));
        let want = mmul(&aa, &bb);
        let nz = a[..nn].iter().any(|&v| v != 0) && a[nn..].iter().any(|&v| v != 0);
        let w: u64 = a.iter().sum::<i64>() as u64;
        let inp = || json!({"A": jmat(&aa), "B": jmat(&bb)});
        let (ra, rb, ca, cb) = (R::build(&aa), R::build(&bb), C::build(&aa), C::build(&bb));
        let mut chk = |site: &str, got: Option<A<X, N>>| {
            s.eval(nz);
            if let Some(g) = got { if g != want { s.violation_w(&format!("Mat{}::mul {}", N, site), "wrong-product", json!({"input": inp(), "got": jmat(&g), "want": jmat(&want)}), w); } }
        };
        chk("row*row", s.call("row*row", inp, || (ra * rb).decode()));
        chk("col*col", s.call("col*col", inp, || (ca * cb).decode()));
        chk("row*col->col", s.call("row*col", inp, || (ra * cb).decode()));
        chk("col*row->row", s.call("col*row", inp, || (ca * rb).decode()));
        chk("row*=row", s.call("row*=row", inp, || { let mut m = ra; m *= rb; m.decode() }));
        chk("col*=col", s.call("col*=col", inp, || { let mut m = ca; m *= cb; m.decode() }));
        if nz && w == d as u64 && s.wants_sample() { s.sample(json!({"N": N, "A": jmat(&aa), "B": jmat(&bb), "A*B": jmat(&want), "forms_checked": 6})); }
    });
    s.meta("lattice", json!({"order": d, "points": lattice_count(2 * nn, d).to_string()}));
}

/// matrix*column-vector and row-vector*matrix on L(N^2+N, d)
fn mv_products<const N: usize, R, C, V>(s: &Section, d: u32)
where
    R: MatIO<X, N> + Copy + Send + Sync + Mul<V, Output = V>,
    C: MatIO<X, N> + Copy + Send + Sync + Mul<V, Output = V>,
    V: VecIO<X, N> + Copy + Send + Sync + Mul<R, Output = V> + Mul<C, Output = V>,
{
    let nn = N * N;
    par_lattice(nn + N, d, |a| {
        let (aa, vv) = (arrx::<N>(&a[..nn]), vecx::<N>(&a[nn..]));
        let (want_mv, want_vm) = (mvec(&aa, &vv), vmat(&vv, &aa));
        let nz = a[..nn].iter().any(|&v| v != 0) && a[nn..].iter().any(|&v| v != 0);
        let w: u64 = a.iter().sum::<i64>() as u64;
        let inp = || json!({"M": jmat(&aa), "v": jxs(&vv)});
        let (r, c, v) = (R::build(&aa), C::build(&aa), V::build(&vv));
        let mut chk = |site: &str, got: Option<[X; N]>, want: &[X; N]| {
            s.eval(nz);
            if let Some(g) = got { if &g != want { s.violation_w(&format!("Mat{} {}", N, site), "wrong-product", json!({"input": inp(), "got": jxs(&g), "want": jxs(want)}), w); } }
        };
        chk("row-major M*v", s.call("row M*v", inp, || (r * v).decode()), &want_mv);
        chk("col-major M*v", s.call("col M*v", inp, || (c * v).decode()), &want_mv);
        chk("v*row-major M", s.call("v*row M", inp, || (v * r).decode()), &want_vm);
        chk("v*col-major M", s.call("v*col M", inp, || (v * c).decode()), &want_vm);
        if nz && w == d as u64 && s.wants_sample() { s.sample(json!({"N": N, "M": jmat(&aa), "v": jxs(&vv), "M*v": jxs(&want_mv), "v*M": jxs(&want_vm)})); }
    });
    s.meta("lattice", json!({"order": d, "points": lattice_count(nn + N, d).to_string()}));
}

/// degree and branch-freedom premise, measured on the code as it is on disk
fn deg_products<const N: usize, R, C, V>(s: &Section) -> u32
where
    R: MatIO<Deg, N> + Copy + Mul<R, Output = R> + Mul<C, Output = C> + Mul<V, Output = V>,
    C: MatIO<Deg, N> + Copy + Mul<C, Output = C> + Mul<R, Output = R> + Mul<V, Output = V>,
    V: VecIO<Deg, N> + Copy + Mul<R, Output = V> + Mul<C, Output = V>,
{
    let a = [[Deg::VAR; N]; N];
    let v = [Deg::VAR; N];
    let mut maxd = 0u32;
    let mut upd = |r: Result<Vec<Deg>, Caught>, what: &str| {
        s.eval(true);
        match r { Ok(ds) => for d in ds { maxd = maxd.max(d.n + d.d); if d.d != 0 { s.degrade(&format!("{}: division present", what)); } },
                  Err(e) => s.degrade(&format!("{}: {:?}", what, e)) }
    };
    let flat = |m: A<Deg, N>| m.iter().flatten().copied().collect::<Vec<_>>();
    upd(catch(|| flat((R::build(&a) * R::build(&a)).decode())), "row*row");
    upd(catch(|| flat((C::build(&a) * C::build(&a)).decode())), "col*col");
    upd(catch(|| flat((R::build(&a) * C::build(&a)).decode())), "row*col");
    upd(catch(|| flat((C::build(&a) * R::build(&a)).decode())), "col*row");
    upd(catch(|| (R::build(&a) * V::build(&v)).decode().to_vec()), "row*v");
    upd(catch(|| (C::build(&a) * V::build(&v)).decode().to_vec()), "col*v");
    upd(catch(|| (V::build(&v) * R::build(&a)).decode().to_vec()), "v*row");
    upd(catch(|| (V::build(&v) * C::build(&a)).decode().to_vec()), "v*col");
    maxd
}

fn tvars<const N: usize>(off: u32) -> A<Term, N> { let mut m = [[Term::cst(0); N]; N]; for i in 0..N { for j in 0..N { m[i][j] = Term::var(off + (i * N + j) as u32); } } m }

/// element-wise operators and scalar forms on free terms: position (i,j) must be op(a_ij, b_ij) / op(a_ij, s)
macro_rules! elementwise { ($s:expr, $N:expr, $M:ty, $lay:expr) => {{
    let s: &Section = $s;
    const N: usize = $N;
    let (ta, tb) = (tvars::<N>(0), tvars::<N>(100));
    let sc = Term::var(999);
    let (a, b) = (<$M as MatIO<Term, N>>::build(&ta), <$M as MatIO<Term, N>>::build(&tb));
    let site = |op: &str| format!("Mat{}<{}> {}", N, $lay, op);
    let expect = |op: &str, got: Result<$M, Caught>, f: &dyn Fn(usize, usize) -> Term| {
        s.eval(true);
        match got {
            Ok(m) => { let g = m.decode(); for i in 0..N { for j in 0..N { if g[i][j] != f(i, j) {
                s.violation(&site(op), "wrong-element", json!({"position": [i, j], "got": jd(&g[i][j]), "want": jd(&f(i, j))})); } } } }
            Err(e) => s.violation(&site(op), "panic", json!({"error": jd(&e)})),
        }
    };
    expect("+ M", catch(|| a + b), &|i, j| Term::bin("add", ta[i][j], tb[i][j]));
    expect("- M", catch(|| a - b), &|i, j| Term::bin("sub", ta[i][j], tb[i][j]));
    expect("/ M", catch(|| a / b), &|i, j| Term::bin("div", ta[i][j], tb[i][j]));
    expect("% M", catch(|| a % b), &|i, j| Term::bin("rem", ta[i][j], tb[i][j]));
    expect("neg", catch(|| -a), &|i, j| Term::un("neg", ta[i][j]));
    expect("mul_memberwise", catch(|| a.mul_memberwise(b)), &|i, j| Term::bin("mul", ta[i][j], tb[i][j]));
    expect("+ scalar", catch(|| a + sc), &|i, j| Term::bin("add", ta[i][j], sc));
    expect("- scalar", catch(|| a - sc), &|i, j| Term::bin("sub", ta[i][j], sc));
    expect("* scalar", catch(|| a * sc), &|i, j| Term::bin("mul", ta[i][j], sc));
    expect("/ scalar", catch(|| a / sc), &|i, j| Term::bin("div", ta[i][j], sc));
    expect("% scalar", catch(|| a % sc), &|i, j| Term::bin("rem", ta[i][j], sc));
    expect("+= M", catch(|| { let mut m = a; m += b; m }), &|i, j| Term::bin("add", ta[i][j], tb[i][j]));
    expect("-= M", catch(|| { let mut m = a; m -= b; m }), &|i, j| Term::bin("sub", ta[i][j], tb[i][j]));
    expect("/= M", catch(|| { let mut m = a; m /= b; m }), &|i, j| Term::bin("div", ta[i][j], tb[i][j]));
    expect("%= M", catch(|| { let mut m = a; m %= b; m }), &|i, j| Term::bin("rem", ta[i][j], tb[i][j]));
    expect("+= scalar", catch(|| { let mut m = a; m += sc; m }), &|i, j| Term::bin("add", ta[i][j], sc));
    expect("-= scalar", catch(|| { let mut m = a; m -= sc; m }), &|i, j| Term::bin("sub", ta[i][j], sc));
    expect("*= scalar", catch(|| { let mut m = a; m *= sc; m }), &|i, j| Term::bin("mul", ta[i][j], sc));
    expect("/= scalar", catch(|| { let mut m = a; m /= sc; m }), &|i, j| Term::bin("div", ta[i][j], sc));
    expect("%= scalar", catch(|| { let mut m = a; m %= sc; m }), &|i, j| Term::bin("rem", ta[i][j], sc));
    let k = |i: usize, j: usize, d: i64, o: i64| Term::cst(if i == j { d } else { o });
    expect("identity()", catch(|| <$M>::identity()), &|i, j| k(i, j, 1, 0));
    expect("zero()", catch(|| <$M>::zero()), &|i, j| k(i, j, 0, 0));
    expect("Default", catch(|| <$M as Default>::default()), &|i, j| k(i, j, 1, 0));
    expect("Zero::zero", catch(|| <$M as num_traits::Zero>::zero()), &|i, j| k(i, j, 0, 0));
    expect("One::one", catch(|| <$M as num_traits::One>::one()), &|i, j| k(i, j, 1, 0));
    s.sample(json!({"matrix": format!("Mat{}<{}>", N, $lay), "a[0][1]": jd(&ta[0][1]), "b[0][1]": jd(&tb[0][1]), "(a/b)[0][1] must be": jd(&Term::bin("div", ta[0][1], tb[0][1]))}));
}} }

/// identity neutrality on every lattice point (values), both sides
fn neutrality<const N: usize, M>(s: &Section, d: u32, id: M, lay: &str)
where M: MatIO<X, N> + Copy + Send + Sync + Mul<M, Output = M> {
    par_lattice(N * N, d, |a| {
        let aa = arrx::<N>(a);
        let m = M::build(&aa);
        for (side, got) in [("I*M", s.call("I*M", || jmat(&aa), || (id * m).decode())), ("M*I", s.call("M*I", || jmat(&aa), || (m * id).decode()))] {
            s.eval(a.iter().any(|&v| v != 0));
            if let Some(g) = got { if g != aa { s.violation(&format!("Mat{}<{}> {}", N, lay, side), "identity-not-neutral", json!({"M": jmat(&aa), "got": jmat(&g)})); } }
        }
    });
}

// =====================================================================================================
// Audit round: the sections above decide the claim for all inputs only *if* the premise (branch-free
// ring arithmetic of degree 2) holds; a failed premise merely degrades the evidence.  Everything below
// widens the alphabets (signed / dense / fractional / 2^+-40-scaled affine images of the same lattice,
// which stay unisolvent: an affine bijection preserves polynomial degree), adds call sequences, value-level
// scalar / element-wise / is_zero checks (a free term never takes a `is_zero()` or `==` branch), a
// symbolic expansion of every product into a polynomial, and the real primitive element types.
// =====================================================================================================
use num_traits::{One, Zero};
use std::collections::BTreeMap;
use vx::term::Node;

/// `par_lattice` with a split deep enough that no work item holds more than a few percent of the points
/// (the library version splits on at most 8 coordinates: 59% of L(48,3) would land in one task)
fn par_lattice_bal(n: usize, d: u32, f: impl Fn(&[i64]) + Sync) {
    use rayon::prelude::*;
    let mut k = n.min(3);
    while k < n && lattice_count(k, d) < 20000 { k += 1; }
    let mut pre: Vec<Vec<i64>> = Vec::new();
    lattice(k, d, |p| pre.push(p.to_vec()));
    pre.sort_by_key(|p| p.iter().sum::<i64>());
    pre.par_iter().for_each(|p| {
        let used: i64 = p.iter().sum();
        let mut buf = vec![0i64; n];
        buf[..k].copy_from_slice(p);
        lattice(n - k, d - used as u32, |rest| { buf[k..].copy_from_slice(rest); f(&buf); });
    });
}
const MAPS: [&str; 5] = ["signed", "dense", "fractional", "scaled-up-down", "scaled-up-up"];
/// names of all maps of `aff` (second audit round: 5 and 6 straddle the `epsilon()` = 2^-52 of the exact type)
const MAPN: [&str; 7] = ["signed", "dense", "fractional", "scaled-up-down", "scaled-up-up", "tiny-huge", "tiny-tiny"];
fn p2(e: i32) -> X { if e >= 0 { qi(1i128 << e) } else { q(1, 1i128 << (-e)) } }
fn dense_i(idx: usize, a: i64) -> i64 { [1, -2, 3, -1, 2][idx % 5] + [-1, 2, -3, 1][idx % 4] * a }
/// affine image of the lattice value `a` of coordinate `idx`; `op`: 0 = first operand, 1 = second, 2 = third
fn aff(map: usize, idx: usize, a: i64, op: usize) -> X {
    match map {
        0 => if (idx * 7 + idx / 3) % 2 == 0 { qi(-a as i128) } else { qi(a as i128) },
        1 => qi(dense_i(idx, a) as i128),
        2 => q([1, -3, 5, -7][idx % 4], 2) + q([2, -1, 4][idx % 3], 3) * qi(a as i128),
        3 => qi(dense_i(idx, a) as i128) * p2(if op % 2 == 0 { 40 } else { -40 }),
        4 => qi(dense_i(idx, a) as i128) * p2(40),
        5 => qi(dense_i(idx, a) as i128) * p2(if op % 2 == 0 { -60 } else { 60 }),
        _ => qi(dense_i(idx, a) as i128) * p2(-60),
    }
}
fn arrm<const N: usize>(map: usize, a: &[i64], off: usize, op: usize) -> A<X, N> { let mut m = [[qi(0); N]; N]; for i in 0..N { for j in 0..N { m[i][j] = aff(map, off + i * N + j, a[i * N + j], op); } } m }
fn vecm<const N: usize>(map: usize, a: &[i64], off: usize, op: usize) -> [X; N] { let mut v = [qi(0); N]; for i in 0..N { v[i] = aff(map, off + i, a[i], op); } v }
fn nzm<const N: usize>(m: &A<X, N>) -> bool { m.iter().flatten().any(|v| !v.is_zero()) }
fn has_neg<const N: usize>(m: &A<X, N>) -> bool { m.iter().flatten().any(|v| *v < qi(0)) }

/// every matrix*matrix form on affine images of L(2N^2, d) (same sites / classes as `mm_products`)
fn mm_products_map<const N: usize, R, C>(s: &Section, d: u32, maps: &[usize])
where
    R: MatIO<X, N> + Copy + Send + Sync + Mul<R, Output = R> + Mul<C, Output = C> + MulAssign<R>,
    C: MatIO<X, N> + Copy + Send + Sync + Mul<C, Output = C> + Mul<R, Output = R> + MulAssign<C>,
{
    let nn = N * N;
    let negres = std::sync::atomic::AtomicU64::new(0);
    for &map in maps {
        par_lattice_bal(2 * nn, d, |a| {
            let (aa, bb) = (arrm::<N>(map, &a[..nn], 0, 0), arrm::<N>(map, &a[nn..], nn, 1));
            let want = mmul(&aa, &bb);
            let nz = nzm(&aa) && nzm(&bb);
            if has_neg(&want) { negres.fetch_add(1, std::sync::atomic::Ordering::Relaxed); }
            let w: u64 = a.iter().sum::<i64>() as u64;
            let inp = || json!({"map": MAPN[map], "A": jmat(&aa), "B": jmat(&bb)});
            let (ra, rb, ca, cb) = (R::build(&aa), R::build(&bb), C::build(&aa), C::build(&bb));
            let chk = |site: &str, got: Option<A<X, N>>| {
                s.eval(nz);
                if let Some(g) = got { if g != want { s.violation_w(&format!("Mat{}::mul {}", N, site), "wrong-product", json!({"input": inp(), "got": jmat(&g), "want": jmat(&want)}), w); } }
            };
            chk("row*row", s.call("row*row", inp, || (ra * rb).decode()));
            chk("col*col", s.call("col*col", inp, || (ca * cb).decode()));
            chk("row*col->col", s.call("row*col", inp, || (ra * cb).decode()));
            chk("col*row->row", s.call("col*row", inp, || (ca * rb).decode()));
            chk("row*=row", s.call("row*=row", inp, || { let mut m = ra; m *= rb; m.decode() }));
            chk("col*=col", s.call("col*=col", inp, || { let mut m = ca; m *= cb; m.decode() }));
            if map == 1 && w == d as u64 && s.wants_sample() { s.sample(json!({"N": N, "map": MAPN[map], "A": jmat(&aa), "B": jmat(&bb), "A*B": jmat(&want), "forms_checked": 6})); }
        });
        s.class_n(MAPN[map], lattice_count(2 * nn, d) as u64);
    }
    s.class_n("negative-result-entry", negres.into_inner());
    s.meta("lattice", json!({"order": d, "points_per_map": lattice_count(2 * nn, d).to_string(), "maps": maps.iter().map(|&m| MAPN[m]).collect::<Vec<_>>()}));
}

/// matrix*column-vector and row-vector*matrix on affine images of L(N^2+N, d)
fn mv_products_map<const N: usize, R, C, V>(s: &Section, d: u32, maps: &[usize])
where
    R: MatIO<X, N> + Copy + Send + Sync + Mul<V, Output = V>,
    C: MatIO<X, N> + Copy + Send + Sync + Mul<V, Output = V>,
    V: VecIO<X, N> + Copy + Send + Sync + Mul<R, Output = V> + Mul<C, Output = V>,
{
    let nn = N * N;
    for &map in maps {
        par_lattice_bal(nn + N, d, |a| {
            let (aa, vv) = (arrm::<N>(map, &a[..nn], 0, 0), vecm::<N>(map, &a[nn..], nn, 1));
            let (want_mv, want_vm) = (mvec(&aa, &vv), vmat(&vv, &aa));
            let nz = nzm(&aa) && vv.iter().any(|v| !v.is_zero());
            let w: u64 = a.iter().sum::<i64>() as u64;
            let inp = || json!({"map": MAPN[map], "M": jmat(&aa), "v": jxs(&vv)});
            let (r, c, v) = (R::build(&aa), C::build(&aa), V::build(&vv));
            let chk = |site: &str, got: Option<[X; N]>, want: &[X; N]| {
                s.eval(nz);
                if let Some(g) = got { if &g != want { s.violation_w(&format!("Mat{} {}", N, site), "wrong-product", json!({"input": inp(), "got": jxs(&g), "want": jxs(want)}), w); } }
            };
            chk("row-major M*v", s.call("row M*v", inp, || (r * v).decode()), &want_mv);
            chk("col-major M*v", s.call("col M*v", inp, || (c * v).decode()), &want_mv);
            chk("v*row-major M", s.call("v*row M", inp, || (v * r).decode()), &want_vm);
            chk("v*col-major M", s.call("v*col M", inp, || (v * c).decode()), &want_vm);
            if map == 2 && w == d as u64 && s.wants_sample() { s.sample(json!({"N": N, "map": MAPN[map], "M": jmat(&aa), "v": jxs(&vv), "M*v": jxs(&want_mv), "v*M": jxs(&want_vm)})); }
        });
        s.class_n(MAPN[map], lattice_count(nn + N, d) as u64);
    }
    s.meta("lattice", json!({"order": d, "points_per_map": lattice_count(nn + N, d).to_string()}));
}

/// call sequences: triple products in both associations, mixed-layout chains, chained `*=`, vector chains
fn seq_products<const N: usize, R, C, V>(s: &Section, d: u32, maps: &[usize])
where
    R: MatIO<X, N> + Copy + Send + Sync + Mul<R, Output = R> + Mul<C, Output = C> + Mul<V, Output = V> + MulAssign<R>,
    C: MatIO<X, N> + Copy + Send + Sync + Mul<C, Output = C> + Mul<R, Output = R> + Mul<V, Output = V> + MulAssign<C>,
    V: VecIO<X, N> + Copy + Send + Sync + Mul<R, Output = V> + Mul<C, Output = V>,
{
    let nn = N * N;
    for &map in maps {
        par_lattice_bal(3 * nn, d, |a| {
            let (aa, bb, cc) = (arrm::<N>(map, &a[..nn], 0, 0), arrm::<N>(map, &a[nn..2 * nn], nn, 1), arrm::<N>(map, &a[2 * nn..], 2 * nn, 2));
            let mut vv = [qi(0); N]; for k in 0..N { vv[k] = cc[k][N - 1 - k]; }
            let ab = mmul(&aa, &bb);
            let abc = mmul(&ab, &cc);
            let (want_vab, want_abv) = (vmat(&vmat(&vv, &aa), &bb), mvec(&aa, &mvec(&bb, &vv)));
            let nz = nzm(&aa) && nzm(&bb) && nzm(&cc);
            let w: u64 = a.iter().sum::<i64>() as u64;
            let inp = || json!({"map": MAPN[map], "A": jmat(&aa), "B": jmat(&bb), "C": jmat(&cc), "v": jxs(&vv)});
            let (ra, rb, rc, ca, cb, cc_, v) = (R::build(&aa), R::build(&bb), R::build(&cc), C::build(&aa), C::build(&bb), C::build(&cc), V::build(&vv));
            let chk = |site: &str, got: Option<A<X, N>>| {
                s.eval(nz);
                if let Some(g) = got { if g != abc { s.violation_w(&format!("Mat{} seq {}", N, site), "wrong-product", json!({"input": inp(), "got": jmat(&g), "want": jmat(&abc)}), w); } }
            };
            chk("row (A*B)*C", s.call("row (A*B)*C", inp, || ((ra * rb) * rc).decode()));
            chk("row A*(B*C)", s.call("row A*(B*C)", inp, || (ra * (rb * rc)).decode()));
            chk("col (A*B)*C", s.call("col (A*B)*C", inp, || ((ca * cb) * cc_).decode()));
            chk("col A*(B*C)", s.call("col A*(B*C)", inp, || (ca * (cb * cc_)).decode()));
            chk("mixed (rowA*colB)*rowC->row", s.call("mixed (rowA*colB)*rowC", inp, || ((ra * cb) * rc).decode()));
            chk("mixed rowA*(colB*rowC)->row", s.call("mixed rowA*(colB*rowC)", inp, || (ra * (cb * rc)).decode()));
            chk("mixed (colA*rowB)*colC->col", s.call("mixed (colA*rowB)*colC", inp, || ((ca * rb) * cc_).decode()));
            chk("mixed colA*(rowB*colC)->col", s.call("mixed colA*(rowB*colC)", inp, || (ca * (rb * cc_)).decode()));
            chk("row A*=B;A*=C", s.call("row A*=B;A*=C", inp, || { let mut m = ra; m *= rb; m *= rc; m.decode() }));
            chk("col A*=B;A*=C", s.call("col A*=B;A*=C", inp, || { let mut m = ca; m *= cb; m *= cc_; m.decode() }));
            let chkv = |site: &str, got: Option<[X; N]>, want: &[X; N]| {
                s.eval(nz);
                if let Some(g) = got { if &g != want { s.violation_w(&format!("Mat{} seq {}", N, site), "wrong-product", json!({"input": inp(), "got": jxs(&g), "want": jxs(want)}), w); } }
            };
            chkv("row (v*A)*B", s.call("row (v*A)*B", inp, || ((v * ra) * rb).decode()), &want_vab);
            chkv("row v*(A*B)", s.call("row v*(A*B)", inp, || (v * (ra * rb)).decode()), &want_vab);
            chkv("col (v*A)*B", s.call("col (v*A)*B", inp, || ((v * ca) * cb).decode()), &want_vab);
            chkv("col v*(A*B)", s.call("col v*(A*B)", inp, || (v * (ca * cb)).decode()), &want_vab);
            chkv("mixed v*(rowA*colB)", s.call("mixed v*(rowA*colB)", inp, || (v * (ra * cb)).decode()), &want_vab);
            chkv("mixed (v*colA)*rowB", s.call("mixed (v*colA)*rowB", inp, || ((v * ca) * rb).decode()), &want_vab);
            chkv("row A*(B*v)", s.call("row A*(B*v)", inp, || (ra * (rb * v)).decode()), &want_abv);
            chkv("row (A*B)*v", s.call("row (A*B)*v", inp, || ((ra * rb) * v).decode()), &want_abv);
            chkv("col A*(B*v)", s.call("col A*(B*v)", inp, || (ca * (cb * v)).decode()), &want_abv);
            chkv("col (A*B)*v", s.call("col (A*B)*v", inp, || ((ca * cb) * v).decode()), &want_abv);
            chkv("mixed (colA*rowB)*v", s.call("mixed (colA*rowB)*v", inp, || ((ca * rb) * v).decode()), &want_abv);
            chkv("mixed rowA*(colB*v)", s.call("mixed rowA*(colB*v)", inp, || (ra * (cb * v)).decode()), &want_abv);
            if map == 1 && w == d as u64 && s.wants_sample() { s.sample(json!({"N": N, "map": MAPN[map], "A": jmat(&aa), "B": jmat(&bb), "C": jmat(&cc), "A*B*C": jmat(&abc), "forms_checked": 22})); }
        });
        s.class_n(MAPN[map], lattice_count(3 * nn, d) as u64);
    }
    s.meta(&format!("lattice N={} D={}", N, d), json!({"points_per_map": lattice_count(3 * nn, d).to_string(), "maps": maps.iter().map(|&m| MAPN[m]).collect::<Vec<_>>()}));
}
/// degree premise of the sequences (triple product and chained `*=`): measured, must be <= 3
fn deg_seq<const N: usize, R, C>(s: &Section) -> u32
where
    R: MatIO<Deg, N> + Copy + Mul<R, Output = R> + Mul<C, Output = C> + MulAssign<R>,
    C: MatIO<Deg, N> + Copy + Mul<C, Output = C> + Mul<R, Output = R> + MulAssign<C>,
{
    let a = [[Deg::VAR; N]; N];
    let mut maxd = 0u32;
    let mut upd = |r: Result<A<Deg, N>, Caught>, what: &str| {
        s.eval(true);
        match r { Ok(m) => for d in m.iter().flatten() { maxd = maxd.max(d.n + d.d); if d.d != 0 { s.degrade(&format!("{}: division present", what)); } },
                  Err(e) => s.degrade(&format!("{}: {:?}", what, e)) }
    };
    upd(catch(|| ((R::build(&a) * R::build(&a)) * R::build(&a)).decode()), "row triple");
    upd(catch(|| (C::build(&a) * (C::build(&a) * C::build(&a))).decode()), "col triple");
    upd(catch(|| ((R::build(&a) * C::build(&a)) * R::build(&a)).decode()), "mixed triple (row)");
    upd(catch(|| (C::build(&a) * (R::build(&a) * C::build(&a))).decode()), "mixed triple (col)");
    upd(catch(|| { let mut m = R::build(&a); m *= R::build(&a); m *= R::build(&a); m.decode() }), "row *= *=");
    upd(catch(|| { let mut m = C::build(&a); m *= C::build(&a); m *= C::build(&a); m.decode() }), "col *= *=");
    maxd
}

/// powers: M^k by repeated `*=` from the identity (every intermediate state compared) and by num_traits::pow
fn powers<const N: usize, M>(s: &Section, d: u32, maps: &[usize], kmax: usize, id: M, lay: &str)
where M: MatIO<X, N> + Copy + Send + Sync + Mul<M, Output = M> + MulAssign<M> + One {
    for &map in maps {
        par_lattice_bal(N * N, d, |a| {
            let aa = arrm::<N>(map, a, 0, 0);
            let m = M::build(&aa);
            let w: u64 = a.iter().sum::<i64>() as u64;
            let mut refs: Vec<A<X, N>> = vec![ident::<X, N>()];
            for k in 1..=kmax { let p = mmul(&refs[k - 1], &aa); refs.push(p); }
            let inp = || json!({"map": MAPN[map], "M": jmat(&aa)});
            if let Some(steps) = s.call("I; repeat *= M", inp, || { let mut acc = id; let mut out = vec![acc.decode()]; for _ in 1..=kmax { acc *= m; out.push(acc.decode()); } out }) {
                for k in 0..=kmax { s.eval(nzm(&aa) && k > 1); if steps[k] != refs[k] {
                    s.violation_w(&format!("Mat{}<{}> identity() then {}x `*= M`", N, lay, k), "wrong-power", json!({"input": inp(), "got": jmat(&steps[k]), "want": jmat(&refs[k])}), w + k as u64); } }
            }
            for k in 0..=kmax {
                s.eval(nzm(&aa) && k > 1);
                if let Some(g) = s.call("num_traits::pow", inp, || num_traits::pow(m, k).decode()) { if g != refs[k] {
                    s.violation_w(&format!("Mat{}<{}> num_traits::pow(M,{})", N, lay, k), "wrong-power", json!({"input": inp(), "got": jmat(&g), "want": jmat(&refs[k])}), w + k as u64); } }
            }
        });
        s.class_n(MAPN[map], lattice_count(N * N, d) as u64);
    }
}

/// the operator surface of one matrix type at element type X (value level)
trait MatOps: Copy + Add<Output = Self> + Sub<Output = Self> + Div<Output = Self> + Rem<Output = Self> + Neg<Output = Self>
    + Add<X, Output = Self> + Sub<X, Output = Self> + Mul<X, Output = Self> + Div<X, Output = Self> + Rem<X, Output = Self>
    + AddAssign + SubAssign + DivAssign + RemAssign + AddAssign<X> + SubAssign<X> + MulAssign<X> + DivAssign<X> + RemAssign<X>
    + Zero + One + PartialEq {}
impl<T> MatOps for T where T: Copy + Add<Output = T> + Sub<Output = T> + Div<Output = T> + Rem<Output = T> + Neg<Output = T>
    + Add<X, Output = T> + Sub<X, Output = T> + Mul<X, Output = T> + Div<X, Output = T> + Rem<X, Output = T>
    + AddAssign + SubAssign + DivAssign + RemAssign + AddAssign<X> + SubAssign<X> + MulAssign<X> + DivAssign<X> + RemAssign<X>
    + Zero + One + PartialEq {}

/// scalar and element-wise operators on *values* (zero / one / negative / fractional / 2^+-40 scalars, zero and
/// identity matrices included), `Zero::is_zero`, `One::is_one`: position (i,j) must be op(a_ij, b_ij) / op(a_ij, s)
fn ew_values<const N: usize, M: MatOps + MatIO<X, N>>(s: &Section, d: u32, lay: &str, mw: fn(M, M) -> M) {
    let site = |op: &str| format!("Mat{}<{}> {}", N, lay, op);
    let scalars: [(X, &str); 9] = [(qi(0), "zero-scalar"), (qi(1), "one-scalar"), (qi(-1), "negative-scalar"), (qi(2), "positive-scalar"), (qi(-3), "negative-scalar"),
        (q(1, 2), "fractional-scalar"), (q(-7, 3), "fractional-scalar"), (p2(40), "huge-scalar"), (p2(-40), "tiny-scalar")];
    // second operands / divisors: dense, every entry non-zero, not symmetric
    let bs: Vec<A<X, N>> = (0..3usize).map(|k| { let mut m = [[qi(0); N]; N]; for i in 0..N { for j in 0..N {
        let v = [3, -2, 5, -7, 4, -1, 6][(i * N + j + 2 * k) % 7]; m[i][j] = if k == 2 { q(v, 2 + ((i + j) % 2) as i128) } else { qi(v) }; } } m }).collect();
    let mut mats: Vec<(A<X, N>, &'static str, u64)> = Vec::new();
    lattice(N * N, d, |p| for map in 0..3 { mats.push((arrm::<N>(map, p, 0, 0), MAPN[map], p.iter().sum::<i64>() as u64)); });
    mats.push((zeros::<X, N>(), "zero-matrix", 0)); mats.push((ident::<X, N>(), "identity-matrix", N as u64));
    { let mut m = ident::<X, N>(); for i in 0..N { m[i][i] = qi(-1); } mats.push((m, "neg-identity", N as u64)); }
    { let mut m = ident::<X, N>(); m[N - 1][0] = qi(1); mats.push((m, "identity-plus-one-entry", N as u64 + 1)); }
    { let mut m = ident::<X, N>(); m[N - 1][N - 1] = qi(0); mats.push((m, "identity-minus-last", N as u64 - 1)); }
    let bin_ops: [(&str, fn(M, M) -> M, fn(X, X) -> X); 9] = [
        ("+ M", |a, b| a + b, |x, y| x + y), ("- M", |a, b| a - b, |x, y| x - y), ("/ M", |a, b| a / b, |x, y| x / y), ("% M", |a, b| a % b, |x, y| x % y),
        ("mul_memberwise", mw, |x, y| x * y),
        ("+= M", |mut a, b| { a += b; a }, |x, y| x + y), ("-= M", |mut a, b| { a -= b; a }, |x, y| x - y),
        ("/= M", |mut a, b| { a /= b; a }, |x, y| x / y), ("%= M", |mut a, b| { a %= b; a }, |x, y| x % y)];
    let sc_ops: [(&str, fn(M, X) -> M, fn(X, X) -> X, bool); 10] = [
        ("+ scalar", |a, k| a + k, |x, y| x + y, false), ("- scalar", |a, k| a - k, |x, y| x - y, false), ("* scalar", |a, k| a * k, |x, y| x * y, false),
        ("/ scalar", |a, k| a / k, |x, y| x / y, true), ("% scalar", |a, k| a % k, |x, y| x % y, true),
        ("+= scalar", |mut a, k| { a += k; a }, |x, y| x + y, false), ("-= scalar", |mut a, k| { a -= k; a }, |x, y| x - y, false), ("*= scalar", |mut a, k| { a *= k; a }, |x, y| x * y, false),
        ("/= scalar", |mut a, k| { a /= k; a }, |x, y| x / y, true), ("%= scalar", |mut a, k| { a %= k; a }, |x, y| x % y, true)];
    for (aa, cls, w) in &mats {
        s.class(cls);
        let a = M::build(aa);
        let cmp = |op: &str, rhs: &dyn Fn() -> Value, got: Option<M>, f: &dyn Fn(usize, usize) -> X| {
            s.eval(true);
            if let Some(m) = got { let g = m.decode(); for i in 0..N { for j in 0..N { let want = f(i, j); if g[i][j] != want {
                s.violation_w(&site(op), "wrong-element", json!({"A": jmat(aa), "rhs": rhs(), "position": [i, j], "got": jx(g[i][j]), "want": jx(want)}), *w); } } } }
        };
        for bb in &bs {
            let b = M::build(bb);
            for (name, f, r) in bin_ops.iter() {
                cmp(name, &|| jmat(bb), s.call(&site(name), || json!({"A": jmat(aa), "B": jmat(bb)}), || f(a, b)), &|i, j| r(aa[i][j], bb[i][j]));
                // the zero matrix and the identity as *left* operand are in `mats`; as right operand only where no division occurs
            }
        }
        for z in [zeros::<X, N>(), ident::<X, N>()] {
            let b = M::build(&z);
            for (name, f, r) in bin_ops.iter().filter(|o| !o.0.contains('/') && !o.0.contains('%')) {
                cmp(name, &|| jmat(&z), s.call(&site(name), || json!({"A": jmat(aa), "B": jmat(&z)}), || f(a, b)), &|i, j| r(aa[i][j], z[i][j]));
            }
        }
        for (k, kcls) in scalars.iter() {
            s.class(kcls);
            for (name, f, r, nonzero) in sc_ops.iter() {
                if *nonzero && k.is_zero() { continue; }
                cmp(name, &|| jx(*k), s.call(&site(name), || json!({"A": jmat(aa), "scalar": jx(*k)}), || f(a, *k)), &|i, j| r(aa[i][j], *k));
            }
        }
        cmp("neg", &|| json!(null), s.call(&site("neg"), || jmat(aa), || -a), &|i, j| -aa[i][j]);
        s.eval(true);
        let (isz, iso) = (!nzm(aa), *aa == ident::<X, N>());
        if isz { s.class("is_zero-true"); } else { s.class("is_zero-false"); }
        if iso { s.class("is_one-true"); }
        if let Some(g) = s.call(&site("Zero::is_zero"), || jmat(aa), || Zero::is_zero(&a)) { if g != isz {
            s.violation_w(&site("Zero::is_zero"), "wrong-verdict", json!({"M": jmat(aa), "got": g, "want": isz}), *w); } }
        if let Some(g) = s.call(&site("One::is_one"), || jmat(aa), || One::is_one(&a)) { if g != iso {
            s.violation_w(&site("One::is_one"), "wrong-verdict", json!({"M": jmat(aa), "got": g, "want": iso}), *w); } }
        if let Some(g) = s.call(&site("Zero::set_zero"), || jmat(aa), || { let mut m = a; Zero::set_zero(&mut m); m.decode() }) { if nzm(&g) {
            s.violation_w(&site("Zero::set_zero"), "wrong-element", json!({"M": jmat(aa), "got": jmat(&g)}), *w); } }
        if let Some(g) = s.call(&site("One::set_one"), || jmat(aa), || { let mut m = a; One::set_one(&mut m); m.decode() }) { if g != ident::<X, N>() {
            s.violation_w(&site("One::set_one"), "wrong-element", json!({"M": jmat(aa), "got": jmat(&g)}), *w); } }
    }
    s.meta(&format!("Mat{}<{}>", N, lay), json!({"left_operands": mats.len(), "right_matrices": bs.len() + 2, "scalars": scalars.len()}));
}

/// identity neutrality beyond `I*M`, `M*I` of one layout: identity from identity() / One::one() / Default, mixed
/// layouts, vectors on both sides, `M *= I`, on affine images of L(N^2+N, d)
fn neutrality_ext<const N: usize, R, C, V>(s: &Section, d: u32, maps: &[usize], ids_r: &[(R, &str)], ids_c: &[(C, &str)])
where
    R: MatIO<X, N> + Copy + Send + Sync + Mul<R, Output = R> + Mul<C, Output = C> + Mul<V, Output = V> + MulAssign<R>,
    C: MatIO<X, N> + Copy + Send + Sync + Mul<C, Output = C> + Mul<R, Output = R> + Mul<V, Output = V> + MulAssign<C>,
    V: VecIO<X, N> + Copy + Send + Sync + Mul<R, Output = V> + Mul<C, Output = V>,
{
    let nn = N * N;
    for &map in maps {
        par_lattice_bal(nn + N, d, |a| {
            let (aa, vv) = (arrm::<N>(map, &a[..nn], 0, 0), vecm::<N>(map, &a[nn..], nn, 1));
            let (mr, mc, v) = (R::build(&aa), C::build(&aa), V::build(&vv));
            let w: u64 = a.iter().sum::<i64>() as u64;
            let nz = nzm(&aa);
            let inp = || json!({"map": MAPN[map], "M": jmat(&aa), "v": jxs(&vv)});
            let chk = |lay: &str, form: &str, how: &str, got: Option<A<X, N>>| {
                s.eval(nz);
                if let Some(g) = got { if g != aa { s.violation_w(&format!("Mat{}<{}> {} [I={}]", N, lay, form, how), "identity-not-neutral", json!({"input": inp(), "got": jmat(&g)}), w); } }
            };
            let chkv = |lay: &str, form: &str, how: &str, got: Option<[X; N]>| {
                s.eval(vv.iter().any(|x| !x.is_zero()));
                if let Some(g) = got { if g != vv { s.violation_w(&format!("Mat{}<{}> {} [I={}]", N, lay, form, how), "identity-not-neutral", json!({"input": inp(), "got": jxs(&g)}), w); } }
            };
            for &(ir, how) in ids_r {
                chk("row", "I*M", how, s.call("I*M", inp, || (ir * mr).decode()));
                chk("row", "M*I", how, s.call("M*I", inp, || (mr * ir).decode()));
                chk("row", "M*=I", how, s.call("M*=I", inp, || { let mut m = mr; m *= ir; m.decode() }));
                chk("row", "I*M(col)->col", how, s.call("I*M(col)", inp, || (ir * mc).decode()));
                chk("row", "M(col)*I->row", how, s.call("M(col)*I", inp, || (mc * ir).decode()));
                chkv("row", "I*v", how, s.call("I*v", inp, || (ir * v).decode()));
                chkv("row", "v*I", how, s.call("v*I", inp, || (v * ir).decode()));
            }
            for &(ic, how) in ids_c {
                chk("col", "I*M", how, s.call("I*M", inp, || (ic * mc).decode()));
                chk("col", "M*I", how, s.call("M*I", inp, || (mc * ic).decode()));
                chk("col", "M*=I", how, s.call("M*=I", inp, || { let mut m = mc; m *= ic; m.decode() }));
                chk("col", "I*M(row)->row", how, s.call("I*M(row)", inp, || (ic * mr).decode()));
                chk("col", "M(row)*I->col", how, s.call("M(row)*I", inp, || (mr * ic).decode()));
                chkv("col", "I*v", how, s.call("I*v", inp, || (ic * v).decode()));
                chkv("col", "v*I", how, s.call("v*I", inp, || (v * ic).decode()));
            }
        });
        s.class_n(MAPN[map], lattice_count(nn + N, d) as u64);
    }
}

// ---- symbolic expansion: Term -> polynomial with integer coefficients over commuting variables ------------
type Poly = BTreeMap<Vec<u32>, i128>;
fn p_lin(a: &Poly, b: &Poly, sg: i128) -> Poly { let mut o = a.clone(); for (m, c) in b { *o.entry(m.clone()).or_insert(0) += sg * c; } o.retain(|_, c| *c != 0); o }
fn p_mul(a: &Poly, b: &Poly) -> Poly {
    let mut o = Poly::new();
    for (ma, ca) in a { for (mb, cb) in b { let mut m = ma.clone(); m.extend(mb.iter().copied()); m.sort(); *o.entry(m).or_insert(0) += ca * cb; } }
    o.retain(|_, c| *c != 0); o
}
fn p_var(i: u32) -> Poly { let mut p = Poly::new(); p.insert(vec![i], 1); p }
/// Ok(polynomial) for terms built from var / const / neg / add / sub / mul / fma, Err(node) otherwise
fn poly_of(t: Term) -> Result<Poly, String> {
    Ok(match t.node() {
        Node::Var(i) => p_var(i),
        Node::Const(c) => { let mut p = Poly::new(); if c != 0 { p.insert(vec![], c as i128); } p }
        Node::Un(op, a) if op == "neg" => p_lin(&Poly::new(), &poly_of(a)?, -1),
        Node::Bin(op, a, b) if op == "add" => p_lin(&poly_of(a)?, &poly_of(b)?, 1),
        Node::Bin(op, a, b) if op == "sub" => p_lin(&poly_of(a)?, &poly_of(b)?, -1),
        Node::Bin(op, a, b) if op == "mul" => p_mul(&poly_of(a)?, &poly_of(b)?),
        Node::Tri(op, a, b, c) if op == "fma" => p_lin(&p_mul(&poly_of(a)?, &poly_of(b)?), &poly_of(c)?, 1),
        other => return Err(format!("non-ring node {:?}", other)),
    })
}
fn jpoly(p: &Poly) -> Value { Value::String(p.iter().map(|(m, c)| format!("{}*{}", c, m.iter().map(|v| format!("v{}", v)).collect::<Vec<_>>().join("."))).collect::<Vec<_>>().join(" + ")) }
fn tvec<const N: usize>(off: u32) -> [Term; N] { let mut v = [Term::cst(0); N]; for i in 0..N { v[i] = Term::var(off + i as u32); } v }

/// one run of every product form on pairwise distinct free variables; each output element, expanded, must be
/// the polynomial sum_k a_ik b_kj (resp. sum_k a_ik v_k, sum_k v_k a_kj): the identity in all 2N^2 entries itself
fn sym_products<const N: usize, R, C, V>(s: &Section, ids_r: &[(R, &str)], ids_c: &[(C, &str)])
where
    R: MatIO<Term, N> + Copy + Mul<R, Output = R> + Mul<C, Output = C> + Mul<V, Output = V> + MulAssign<R> + Mul<Term, Output = R>,
    C: MatIO<Term, N> + Copy + Mul<C, Output = C> + Mul<R, Output = R> + Mul<V, Output = V> + MulAssign<C> + Mul<Term, Output = C>,
    V: VecIO<Term, N> + Copy + Mul<R, Output = V> + Mul<C, Output = V>,
{
    let (ta, tb, tv) = (tvars::<N>(0), tvars::<N>(100), tvec::<N>(200));
    let (ra, rb, ca, cb, v) = (R::build(&ta), R::build(&tb), C::build(&ta), C::build(&tb), V::build(&tv));
    let pa = |i: usize, j: usize| p_var((i * N + j) as u32);
    let pb = |i: usize, j: usize| p_var(100 + (i * N + j) as u32);
    let pv = |i: usize| p_var(200 + i as u32);
    let sum = |f: &dyn Fn(usize) -> Poly| { let mut o = Poly::new(); for k in 0..N { o = p_lin(&o, &f(k), 1); } o };
    let elem = |site: String, class: &str, pos: Value, got: Term, want: Poly| {
        s.eval(true);
        match poly_of(got) {
            Ok(p) => if p != want { s.violation(&site, class, json!({"position": pos, "got_term": jd(&got), "got_polynomial": jpoly(&p), "want_polynomial": jpoly(&want)})); },
            Err(e) => s.violation(&site, "non-ring-operation", json!({"position": pos, "got_term": jd(&got), "why": e})),
        }
    };
    let mat = |site: String, class: &str, got: Result<A<Term, N>, Caught>, want: &dyn Fn(usize, usize) -> Poly| match got {
        Ok(g) => for i in 0..N { for j in 0..N { elem(site.clone(), class, json!([i, j]), g[i][j], want(i, j)); } },
        Err(e) => { s.eval(true); s.violation(&site, "panic", json!({"error": jd(&e)})) }
    };
    let vecr = |site: String, class: &str, got: Result<[Term; N], Caught>, want: &dyn Fn(usize) -> Poly| match got {
        Ok(g) => for i in 0..N { elem(site.clone(), class, json!([i]), g[i], want(i)); },
        Err(e) => { s.eval(true); s.violation(&site, "panic", json!({"error": jd(&e)})) }
    };
    let ab = |i: usize, j: usize| sum(&|k| p_mul(&pa(i, k), &pb(k, j)));
    let mm = |f: &str| format!("Mat{}::mul {}", N, f);
    mat(mm("row*row"), "wrong-polynomial", catch(|| (ra * rb).decode()), &ab);
    mat(mm("col*col"), "wrong-polynomial", catch(|| (ca * cb).decode()), &ab);
    mat(mm("row*col->col"), "wrong-polynomial", catch(|| (ra * cb).decode()), &ab);
    mat(mm("col*row->row"), "wrong-polynomial", catch(|| (ca * rb).decode()), &ab);
    mat(mm("row*=row"), "wrong-polynomial", catch(|| { let mut m = ra; m *= rb; m.decode() }), &ab);
    mat(mm("col*=col"), "wrong-polynomial", catch(|| { let mut m = ca; m *= cb; m.decode() }), &ab);
    let mvw = |i: usize| sum(&|k| p_mul(&pa(i, k), &pv(k)));
    let vmw = |j: usize| sum(&|k| p_mul(&pv(k), &pa(k, j)));
    let mv = |f: &str| format!("Mat{} {}", N, f);
    vecr(mv("row-major M*v"), "wrong-polynomial", catch(|| (ra * v).decode()), &mvw);
    vecr(mv("col-major M*v"), "wrong-polynomial", catch(|| (ca * v).decode()), &mvw);
    vecr(mv("v*row-major M"), "wrong-polynomial", catch(|| (v * ra).decode()), &vmw);
    vecr(mv("v*col-major M"), "wrong-polynomial", catch(|| (v * ca).decode()), &vmw);
    // scalar multiple as a polynomial (a_ij * s)
    let sc = Term::var(999);
    mat(format!("Mat{}<row> * scalar", N), "wrong-polynomial", catch(|| (ra * sc).decode()), &|i, j| p_mul(&pa(i, j), &p_var(999)));
    mat(format!("Mat{}<col> * scalar", N), "wrong-polynomial", catch(|| (ca * sc).decode()), &|i, j| p_mul(&pa(i, j), &p_var(999)));
    // neutrality as a polynomial identity: every element of I*M, M*I (same and mixed layout), I*v, v*I is the bare variable
    for &(ir, how) in ids_r {
        let st = |form: &str| format!("Mat{}<row> {} [I={}]", N, form, how);
        mat(st("I*M"), "identity-not-neutral", catch(|| (ir * ra).decode()), &pa);
        mat(st("M*I"), "identity-not-neutral", catch(|| (ra * ir).decode()), &pa);
        mat(st("M*=I"), "identity-not-neutral", catch(|| { let mut m = ra; m *= ir; m.decode() }), &pa);
        mat(st("I*M(col)->col"), "identity-not-neutral", catch(|| (ir * ca).decode()), &pa);
        mat(st("M(col)*I->row"), "identity-not-neutral", catch(|| (ca * ir).decode()), &pa);
        vecr(st("I*v"), "identity-not-neutral", catch(|| (ir * v).decode()), &pv);
        vecr(st("v*I"), "identity-not-neutral", catch(|| (v * ir).decode()), &pv);
    }
    for &(ic, how) in ids_c {
        let st = |form: &str| format!("Mat{}<col> {} [I={}]", N, form, how);
        mat(st("I*M"), "identity-not-neutral", catch(|| (ic * ca).decode()), &pa);
        mat(st("M*I"), "identity-not-neutral", catch(|| (ca * ic).decode()), &pa);
        mat(st("M*=I"), "identity-not-neutral", catch(|| { let mut m = ca; m *= ic; m.decode() }), &pa);
        mat(st("I*M(row)->row"), "identity-not-neutral", catch(|| (ic * ra).decode()), &pa);
        mat(st("M(row)*I->col"), "identity-not-neutral", catch(|| (ra * ic).decode()), &pa);
        vecr(st("I*v"), "identity-not-neutral", catch(|| (ic * v).decode()), &pv);
        vecr(st("v*I"), "identity-not-neutral", catch(|| (v * ic).decode()), &pv);
    }
    if s.wants_sample() { if let Ok(g) = catch(|| (ra * cb).decode()) { s.sample(json!({"form": format!("Mat{} row*col", N), "element": [0, 1], "term": jd(&g[0][1]), "expanded": poly_of(g[0][1]).map(|p| jpoly(&p)).unwrap_or_default(), "must_be": jpoly(&ab(0, 1))})); } }
}

// ---- the same generic code instantiated at the real primitive element types --------------------------------
fn f32p2(e: i32) -> f32 { assert!((-126..=127).contains(&e)); f32::from_bits(((127 + e) as u32) << 23) }
fn f64p2(e: i32) -> f64 { assert!((-1022..=1023).contains(&e)); f64::from_bits(((1023 + e) as u64) << 52) }

/// all 10 product forms at element type T on integer images of L(2N^2, d) (dense signed, or dense non-negative for
/// unsigned T), each operand uniformly scaled by an exact power of two for floats: every intermediate value is
/// exactly representable, so any evaluation order (fused or not) of the defining sums gives exactly `want`
fn prim_products<const N: usize, T, R, C, V>(s: &Section, d: u32, tname: &str, signed: bool, conv: &(dyn Fn(i128, i32) -> T + Sync), scales: &[(i32, i32)])
where
    T: Copy + PartialEq + std::fmt::Debug + Send + Sync,
    R: MatIO<T, N> + Copy + Send + Sync + Mul<R, Output = R> + Mul<C, Output = C> + Mul<V, Output = V> + MulAssign<R>,
    C: MatIO<T, N> + Copy + Send + Sync + Mul<C, Output = C> + Mul<R, Output = R> + Mul<V, Output = V> + MulAssign<C>,
    V: VecIO<T, N> + Copy + Send + Sync + Mul<R, Output = V> + Mul<C, Output = V>,
{
    let nn = N * N;
    let cs: Vec<String> = ["row*row", "col*col", "row*col", "col*row", "row*=row", "col*=col", "row M*v", "col M*v", "v*row M", "v*col M"].iter().map(|f| format!("Mat{}<{}> {}", N, tname, f)).collect();
    par_lattice_bal(2 * nn, d, |a| {
        let img = |idx: usize, v: i64| -> i128 { if signed { dense_i(idx, v) as i128 } else { (v + ((idx * 5 + idx / N) % 3) as i64) as i128 } };
        let mut ia = [[0i128; N]; N]; let mut ib = [[0i128; N]; N];
        for i in 0..N { for j in 0..N { ia[i][j] = img(i * N + j, a[i * N + j]); ib[i][j] = img(nn + i * N + j, a[nn + i * N + j]); } }
        let mut iv = [0i128; N]; for k in 0..N { iv[k] = ib[k][N - 1 - k]; }
        let (wab, wav, wva) = (mmul(&ia, &ib), mvec(&ia, &iv), vmat(&iv, &ia));
        let w: u64 = a.iter().sum::<i64>() as u64;
        for &(sa, sb) in scales {
            let cm = |m: &A<i128, N>, e: i32| { let mut o = [[conv(0, 0); N]; N]; for i in 0..N { for j in 0..N { o[i][j] = conv(m[i][j], e); } } o };
            let cv = |m: &[i128; N], e: i32| { let mut o = [conv(0, 0); N]; for i in 0..N { o[i] = conv(m[i], e); } o };
            let (ta, tb, tv) = (cm(&ia, sa), cm(&ib, sb), cv(&iv, sb));
            let (want_ab, want_av, want_va) = (cm(&wab, sa + sb), cv(&wav, sa + sb), cv(&wva, sa + sb));
            let inp = || json!({"T": tname, "A": jd(&ta), "B": jd(&tb), "v": jd(&tv), "scale_exponents": [sa, sb]});
            let (ra, rb, ca, cb, v) = (R::build(&ta), R::build(&tb), C::build(&ta), C::build(&tb), V::build(&tv));
            let chk = |form: &str, got: Option<A<T, N>>| {
                s.eval(true);
                if let Some(g) = got { if g != want_ab { s.violation_w(&format!("Mat{}<{}>::mul {}", N, tname, form), "wrong-product", json!({"input": inp(), "got": jd(&g), "want": jd(&want_ab)}), w); } }
            };
            chk("row*row", s.call(&cs[0], inp, || (ra * rb).decode()));
            chk("col*col", s.call(&cs[1], inp, || (ca * cb).decode()));
            chk("row*col->col", s.call(&cs[2], inp, || (ra * cb).decode()));
            chk("col*row->row", s.call(&cs[3], inp, || (ca * rb).decode()));
            chk("row*=row", s.call(&cs[4], inp, || { let mut m = ra; m *= rb; m.decode() }));
            chk("col*=col", s.call(&cs[5], inp, || { let mut m = ca; m *= cb; m.decode() }));
            let chkv = |form: &str, got: Option<[T; N]>, want: &[T; N]| {
                s.eval(true);
                if let Some(g) = got { if &g != want { s.violation_w(&format!("Mat{}<{}> {}", N, tname, form), "wrong-product", json!({"input": inp(), "got": jd(&g), "want": jd(want)}), w); } }
            };
            chkv("row-major M*v", s.call(&cs[6], inp, || (ra * v).decode()), &want_av);
            chkv("col-major M*v", s.call(&cs[7], inp, || (ca * v).decode()), &want_av);
            chkv("v*row-major M", s.call(&cs[8], inp, || (v * ra).decode()), &want_va);
            chkv("v*col-major M", s.call(&cs[9], inp, || (v * ca).decode()), &want_va);
        }
    });
    s.class_n(tname, lattice_count(2 * nn, d) as u64 * scales.len() as u64);
}

/// reference values of the six Vec4-as-2x2 helpers from the 2x2 matrix expressions (adj[[a,b],[c,d]] = [[d,-b],[-c,a]])
fn mat2_refs<T: Ring>(a: &[T; 4], b: &[T; 4]) -> [(&'static str, [T; 4]); 6] {
    let rows = |v: &[T; 4]| -> A<T, 2> { [[v[0], v[1]], [v[2], v[3]]] };
    let cols = |v: &[T; 4]| -> A<T, 2> { [[v[0], v[2]], [v[1], v[3]]] };
    let adj = |m: &A<T, 2>| -> A<T, 2> { [[m[1][1], -m[0][1]], [-m[1][0], m[0][0]]] };
    let flat_r = |m: A<T, 2>| [m[0][0], m[0][1], m[1][0], m[1][1]];
    let flat_c = |m: A<T, 2>| [m[0][0], m[1][0], m[0][1], m[1][1]];
    [("mat2_rows_mul", flat_r(mmul(&rows(a), &rows(b)))), ("mat2_rows_adj_mul", flat_r(mmul(&adj(&rows(a)), &rows(b)))), ("mat2_rows_mul_adj", flat_r(mmul(&rows(a), &adj(&rows(b))))),
     ("mat2_cols_mul", flat_c(mmul(&cols(a), &cols(b)))), ("mat2_cols_adj_mul", flat_c(mmul(&adj(&cols(a)), &cols(b)))), ("mat2_cols_mul_adj", flat_c(mmul(&cols(a), &adj(&cols(b)))))]
}
fn mat2_calls<T: Copy + Add<Output = T> + Mul<Output = T> + Sub<Output = T>>() -> [fn(Vec4<T>, Vec4<T>) -> Vec4<T>; 6] {
    [|a, b| a.mat2_rows_mul(b), |a, b| a.mat2_rows_adj_mul(b), |a, b| a.mat2_rows_mul_adj(b), |a, b| a.mat2_cols_mul(b), |a, b| a.mat2_cols_adj_mul(b), |a, b| a.mat2_cols_mul_adj(b)]
}
/// Vec4 helpers at a primitive element type (integer images of L(8,d), power-of-two scaling for floats)
fn vec4_prim<T>(s: &Section, d: u32, tname: &str, conv: &(dyn Fn(i128, i32) -> T + Sync), scales: &[(i32, i32)])
where T: Copy + PartialEq + std::fmt::Debug + Send + Sync + Add<Output = T> + Mul<Output = T> + Sub<Output = T> {
    let calls = mat2_calls::<T>();
    par_lattice_bal(8, d, |p| {
        let mut ia = [0i128; 4]; let mut ib = [0i128; 4];
        for k in 0..4 { ia[k] = dense_i(k, p[k]) as i128; ib[k] = dense_i(4 + k, p[4 + k]) as i128; }
        let refs = mat2_refs(&ia, &ib);
        for &(sa, sb) in scales {
            let c4 = |v: &[i128; 4], e: i32| [conv(v[0], e), conv(v[1], e), conv(v[2], e), conv(v[3], e)];
            let (ta, tb) = (c4(&ia, sa), c4(&ib, sb));
            for (k, (name, want)) in refs.iter().enumerate() {
                s.eval(true);
                let want = c4(want, sa + sb);
                let site = format!("Vec4<{}>::{}", tname, name);
                if let Some(g) = s.call(&site, || json!({"a": jd(&ta), "b": jd(&tb)}), || dv4(&calls[k](v4(&ta), v4(&tb)))) { if g != want {
                    s.violation_w(&site, "wrong-product", json!({"a": jd(&ta), "b": jd(&tb), "got": jd(&g), "want": jd(&want)}), p.iter().sum::<i64>() as u64); } }
            }
        }
    });
    s.class_n(tname, lattice_count(8, d) as u64 * scales.len() as u64);
}

// =====================================================================================================
// Second audit round (adversarial).  The sections above already decide every branch-free slip: the code is
// generic in T, so a structural change shows on the free terms, and a polynomial one on the lattices.  What can
// still hide is a *value-dependent* path whose guard a free term never satisfies (`==`, `is_zero`, `is_one`) and
// whose witnesses lie outside the sparse / independent alphabets above:
//   * relations BETWEEN the operands (equal, negated, transposed, one entry apart) with every entry non-zero,
//   * special operands of high lattice weight (permutations, scalar matrices, all-equal, triangular, affine
//     bottom row / last column, near-identity) against dense partners and against each other,
//   * magnitudes on the far side of the exact type's `epsilon()` = 2^-52 (maps 5, 6 of `aff`, 2^-60 entries),
//   * guards that only change the result in integer or float semantics (x * (1/s) is x/s over the rationals):
//     the scalar / element-wise operators never ran at a primitive element type,
//   * the type bounds (results equal to MIN / MAX with every defining product and partial sum representable),
//     the remaining primitive types, float scalings up to 2^+-60 (f32) / 2^+-500 (f64) and subnormal results.
// =====================================================================================================
use std::num::Wrapping;

fn perms(n: usize) -> Vec<Vec<usize>> { signed_permutations(n).into_iter().map(|(p, _)| p).collect() }
/// fixed dense matrices: every entry non-zero, not symmetric; k = 2 is fractional (halves and thirds)
fn dense_fixed<const N: usize>(k: usize) -> A<X, N> {
    let pat = [3, -2, 5, -7, 4, -1, 6, 2, -5, 7, -3, 8, -4, 9, -6, 1];
    let mut m = [[qi(0); N]; N];
    for i in 0..N { for j in 0..N { let v = pat[(i * N + j + 5 * k) % 16]; m[i][j] = if k == 2 { q(v, 2 + ((i + 2 * j) % 2) as i128) } else { qi(v) }; } }
    m
}
fn scale_m<const N: usize>(m: &A<X, N>, f: X) -> A<X, N> { let mut o = *m; for i in 0..N { for j in 0..N { o[i][j] = m[i][j] * f; } } o }
fn unit<const N: usize>(i: usize, j: usize, v: X) -> A<X, N> { let mut m = zeros::<X, N>(); m[i][j] = v; m }
fn add_m<const N: usize>(a: &A<X, N>, b: &A<X, N>) -> A<X, N> { let mut o = *a; for i in 0..N { for j in 0..N { o[i][j] = a[i][j] + b[i][j]; } } o }
fn support<const N: usize>(m: &A<X, N>) -> u64 { m.iter().flatten().filter(|v| !v.is_zero()).count() as u64 }

/// special-structured matrices (the special values a fast path or guard would be keyed on)
fn structured<const N: usize>() -> Vec<(A<X, N>, &'static str)> {
    let (d0, d1, d2) = (dense_fixed::<N>(0), dense_fixed::<N>(1), dense_fixed::<N>(2));
    let id = ident::<X, N>();
    let mut v: Vec<(A<X, N>, &'static str)> = vec![(zeros::<X, N>(), "zero"), (id, "identity")];
    for k in [qi(-1), qi(2), qi(-3), q(1, 2)] { v.push((scale_m(&id, k), "scalar-matrix")); }
    { let mut m = zeros::<X, N>(); for i in 0..N { m[i][i] = qi([1, -2, 3, -4][i]); } v.push((m, "diagonal")); }
    { let mut m = zeros::<X, N>(); for i in 0..N { m[i][i] = qi(i as i128); } v.push((m, "diagonal")); }
    for p in perms(N) { if p.iter().enumerate().all(|(i, &j)| i == j) { continue; } let mut m = zeros::<X, N>(); for i in 0..N { m[i][p[i]] = qi(1); } v.push((m, "permutation")); }
    { let mut m = zeros::<X, N>(); for i in 0..N { m[i][N - 1 - i] = qi(if i % 2 == 0 { -1 } else { 1 }); } v.push((m, "permutation")); } // signed anti-diagonal
    for i in 0..N { for j in 0..N { v.push((unit::<N>(i, j, qi(1)), "single-entry")); } }
    v.push(([[qi(1); N]; N], "all-equal")); v.push(([[qi(-2); N]; N], "all-equal"));
    { let mut m = d0; for i in 0..N { for j in 0..i { m[i][j] = qi(0); } } v.push((m, "triangular")); }
    { let mut m = d1; for i in 0..N { for j in i + 1..N { m[i][j] = qi(0); } } v.push((m, "triangular")); }
    { let mut m = d0; for i in 0..N { for j in 0..=i { m[i][j] = qi(0); } } v.push((m, "triangular")); } // strictly upper (nilpotent)
    { let mut m = d0; for i in 0..N { for j in 0..N { m[i][j] = d0[i][j] + d0[j][i]; } } v.push((m, "symmetric")); }
    { let mut m = d0; for i in 0..N { for j in 0..N { m[i][j] = d0[i][j] - d0[j][i]; } } v.push((m, "skew-symmetric")); }
    for d in [d0, d2] { let mut m = d; for j in 0..N { m[N - 1][j] = qi((j == N - 1) as i128); } v.push((m, "affine-bottom-row")); }
    { let mut m = d1; for i in 0..N { m[i][N - 1] = qi((i == N - 1) as i128); } v.push((m, "affine-last-column")); }
    { let mut m = d1; for k in 0..N { m[N - 1][k] = qi((k == N - 1) as i128); m[k][N - 1] = qi((k == N - 1) as i128); } v.push((m, "affine-bottom-row")); } // linear block + 1
    { let mut m = d0; for i in 0..N { for j in 0..N { m[i][j] = d0[i][0] * d1[0][j]; } } v.push((m, "rank-one")); }
    v.push((d0, "dense")); v.push((d1, "dense")); v.push((d2, "dense")); v.push((transpose(&d0), "dense"));
    v.push((add_m(&id, &unit::<N>(N - 1, 0, p2(-60))), "near-identity")); v.push((add_m(&id, &unit::<N>(0, N - 1, p2(-60))), "near-identity"));
    v.push((add_m(&id, &unit::<N>(0, N - 1, qi(1))), "near-identity")); v.push((add_m(&id, &unit::<N>(0, 0, p2(-60))), "near-identity"));
    v.push((scale_m(&d0, p2(-60)), "tiny")); v.push((scale_m(&d1, p2(60)), "huge"));
    v
}
/// special vectors: zero, +-axes, ones, dense, homogeneous point (.., 1) and direction (.., 0), one lane, tiny, huge
fn special_vecs<const N: usize>() -> Vec<([X; N], &'static str)> {
    let pat = [3, -2, 5, -7];
    let dv = |f: X| { let mut v = [qi(0); N]; for i in 0..N { v[i] = qi(pat[i]) * f; } v };
    let mut out: Vec<([X; N], &'static str)> = vec![([qi(0); N], "zero-vector"), ([qi(1); N], "ones-vector"), (dv(qi(1)), "dense-vector"), (dv(q(-1, 3)), "dense-vector")];
    for k in 0..N { let mut v = [qi(0); N]; v[k] = qi(1); out.push((v, "axis-vector")); v[k] = qi(-1); out.push((v, "axis-vector")); v[k] = q(-7, 3); out.push((v, "single-lane-vector")); }
    { let mut v = dv(qi(1)); v[N - 1] = qi(1); out.push((v, "homogeneous-point")); v[N - 1] = qi(0); out.push((v, "homogeneous-direction")); }
    out.push((dv(p2(-60)), "tiny-vector")); out.push((dv(p2(60)), "huge-vector"));
    out
}

/// every pair of structured matrices (equal operands and transposed pairs included) through the 6 matrix*matrix
/// forms, every structured matrix against every special vector through the 4 vector forms
fn structured_products<const N: usize, R, C, V>(s: &Section)
where
    R: MatIO<X, N> + Copy + Mul<R, Output = R> + Mul<C, Output = C> + Mul<V, Output = V> + MulAssign<R>,
    C: MatIO<X, N> + Copy + Mul<C, Output = C> + Mul<R, Output = R> + Mul<V, Output = V> + MulAssign<C>,
    V: VecIO<X, N> + Copy + Mul<R, Output = V> + Mul<C, Output = V>,
{
    let ms = structured::<N>();
    let vs = special_vecs::<N>();
    for (aa, ca) in &ms { s.class(ca);
        for (bb, cb) in &ms {
            let want = mmul(&aa, &bb);
            let nz = nzm(aa) && nzm(bb);
            if aa == bb && nz { s.class("equal-operands"); }
            if *bb == transpose(aa) && aa != bb { s.class("transposed-pair"); }
            let w = support(aa) + support(bb);
            let inp = || json!({"A": jmat(aa), "B": jmat(bb), "A is": ca, "B is": cb});
            let (ra, rb, ca_, cb_) = (R::build(aa), R::build(bb), C::build(aa), C::build(bb));
            let chk = |site: &str, got: Option<A<X, N>>| {
                s.eval(nz);
                if let Some(g) = got { if g != want { s.violation_w(&format!("Mat{}::mul {}", N, site), "wrong-product", json!({"input": inp(), "got": jmat(&g), "want": jmat(&want)}), w); } }
            };
            chk("row*row", s.call("row*row", inp, || (ra * rb).decode()));
            chk("col*col", s.call("col*col", inp, || (ca_ * cb_).decode()));
            chk("row*col->col", s.call("row*col", inp, || (ra * cb_).decode()));
            chk("col*row->row", s.call("col*row", inp, || (ca_ * rb).decode()));
            chk("row*=row", s.call("row*=row", inp, || { let mut m = ra; m *= rb; m.decode() }));
            chk("col*=col", s.call("col*=col", inp, || { let mut m = ca_; m *= cb_; m.decode() }));
        }
        for (vv, cv) in &vs {
            let (want_mv, want_vm) = (mvec(aa, vv), vmat(vv, aa));
            let nz = nzm(aa) && vv.iter().any(|x| !x.is_zero());
            let w = support(aa) + vv.iter().filter(|x| !x.is_zero()).count() as u64;
            let inp = || json!({"M": jmat(aa), "v": jxs(vv), "M is": ca, "v is": cv});
            let (r, c, v) = (R::build(aa), C::build(aa), V::build(vv));
            let chk = |site: &str, got: Option<[X; N]>, want: &[X; N]| {
                s.eval(nz);
                if let Some(g) = got { if &g != want { s.violation_w(&format!("Mat{} {}", N, site), "wrong-product", json!({"input": inp(), "got": jxs(&g), "want": jxs(want)}), w); } }
            };
            chk("row-major M*v", s.call("row M*v", inp, || (r * v).decode()), &want_mv);
            chk("col-major M*v", s.call("col M*v", inp, || (c * v).decode()), &want_mv);
            chk("v*row-major M", s.call("v*row M", inp, || (v * r).decode()), &want_vm);
            chk("v*col-major M", s.call("v*col M", inp, || (v * c).decode()), &want_vm);
        }
    }
    for (_, cv) in &vs { s.class_n(cv, ms.len() as u64); }
    s.meta(&format!("N={}", N), json!({"structured_matrices": ms.len(), "ordered_pairs": ms.len() * ms.len(), "special_vectors": vs.len()}));
}

fn bin_ops_x<M: MatOps>(mw: fn(M, M) -> M) -> [(&'static str, fn(M, M) -> M, fn(X, X) -> X); 9] {
    [("+ M", |a, b| a + b, |x, y| x + y), ("- M", |a, b| a - b, |x, y| x - y), ("/ M", |a, b| a / b, |x, y| x / y), ("% M", |a, b| a % b, |x, y| x % y),
     ("mul_memberwise", mw, |x, y| x * y),
     ("+= M", |mut a, b| { a += b; a }, |x, y| x + y), ("-= M", |mut a, b| { a -= b; a }, |x, y| x - y),
     ("/= M", |mut a, b| { a /= b; a }, |x, y| x / y), ("%= M", |mut a, b| { a %= b; a }, |x, y| x % y)]
}
fn sc_ops_x<M: MatOps>() -> [(&'static str, fn(M, X) -> M, fn(X, X) -> X); 10] {
    [("+ scalar", |a, k| a + k, |x, y| x + y), ("- scalar", |a, k| a - k, |x, y| x - y), ("* scalar", |a, k| a * k, |x, y| x * y),
     ("/ scalar", |a, k| a / k, |x, y| x / y), ("% scalar", |a, k| a % k, |x, y| x % y),
     ("+= scalar", |mut a, k| { a += k; a }, |x, y| x + y), ("-= scalar", |mut a, k| { a -= k; a }, |x, y| x - y), ("*= scalar", |mut a, k| { a *= k; a }, |x, y| x * y),
     ("/= scalar", |mut a, k| { a /= k; a }, |x, y| x / y), ("%= scalar", |mut a, k| { a %= k; a }, |x, y| x % y)]
}

/// element-wise and scalar operators on operands that are RELATED (a fixed independent right operand never makes
/// `self == rhs`, `a_ij == s`, `self == -rhs` true), every entry non-zero so that / and % are defined; and the
/// is_zero / is_one verdicts on every one-entry perturbation of zero and of the identity (2^-60 included)
fn ew_relational<const N: usize, M: MatOps + MatIO<X, N>>(s: &Section, lay: &str, mw: fn(M, M) -> M) {
    let site = |op: &str| format!("Mat{}<{}> {}", N, lay, op);
    let (d0, d1, d2) = (dense_fixed::<N>(0), dense_fixed::<N>(1), dense_fixed::<N>(2));
    let lefts: [(A<X, N>, &str); 5] = [(d0, "dense"), (d1, "dense"), (d2, "fractional"), (scale_m(&d0, p2(-60)), "tiny"), (scale_m(&d1, p2(60)), "huge")];
    let (bin_ops, sc_ops) = (bin_ops_x::<M>(mw), sc_ops_x::<M>());
    for (aa, cls) in &lefts {
        s.class(cls);
        let a = M::build(aa);
        let rights: [(A<X, N>, &str); 8] = [(*aa, "equal-operands"), (scale_m(aa, qi(-1)), "negated-operand"), (transpose(aa), "transposed-operand"),
            ({ let mut m = *aa; m[0][N - 1] = m[0][N - 1] * qi(2); m }, "one-entry-apart"), ({ let mut m = *aa; m[N - 1][N - 1] = -m[N - 1][N - 1]; m }, "one-entry-apart"),
            (scale_m(aa, qi(2)), "doubled-operand"), ([[qi(1); N]; N], "all-ones-operand"), ([[qi(-1); N]; N], "all-ones-operand")];
        for (bb, rc) in &rights {
            s.class(rc);
            let b = M::build(bb);
            for (name, f, r) in bin_ops.iter() {
                s.eval(true);
                if cls == &"huge" && name == &"mul_memberwise" && rc != &"all-ones-operand" { continue; } // 2^120 * 81 leaves i128
                if let Some(m) = s.call(&site(name), || json!({"A": jmat(aa), "B": jmat(bb), "B is": rc}), || f(a, b)) {
                    let g = m.decode();
                    for i in 0..N { for j in 0..N { let want = r(aa[i][j], bb[i][j]); if g[i][j] != want {
                        s.violation_w(&site(name), "wrong-element", json!({"A": jmat(aa), "rhs": jmat(bb), "rhs is": rc, "position": [i, j], "got": jx(g[i][j]), "want": jx(want)}), (N * N) as u64); } } }
                }
            }
        }
        let scalars: [(X, &str); 8] = [(aa[0][0], "scalar-equals-entry"), (-aa[0][0], "scalar-equals-negated-entry"), (aa[N - 1][0], "scalar-equals-entry"), (aa[N - 1][N - 1], "scalar-equals-entry"),
            (p2(-60), "scalar-below-epsilon"), (-p2(-60), "scalar-below-epsilon"), (p2(60), "scalar-2^60"), (qi(2), "scalar-two")];
        for (k, kc) in &scalars {
            s.class(kc);
            for (name, f, r) in sc_ops.iter() {
                s.eval(true);
                if cls == &"huge" && kc == &"scalar-2^60" && name.starts_with('*') { continue; }
                if let Some(m) = s.call(&site(name), || json!({"A": jmat(aa), "scalar": jx(*k), "scalar is": kc}), || f(a, *k)) {
                    let g = m.decode();
                    for i in 0..N { for j in 0..N { let want = r(aa[i][j], *k); if g[i][j] != want {
                        s.violation_w(&site(name), "wrong-element", json!({"A": jmat(aa), "rhs": jx(*k), "rhs is": kc, "position": [i, j], "got": jx(g[i][j]), "want": jx(want)}), (N * N) as u64); } } }
                }
            }
        }
    }
    // verdicts next to zero and next to the identity
    let id = ident::<X, N>();
    let mut probes: Vec<(A<X, N>, &str)> = vec![(zeros::<X, N>(), "exact-zero"), (id, "exact-identity"), ([[qi(1); N]; N], "all-ones"), (scale_m(&id, qi(-1)), "negated-identity")];
    for i in 0..N { for j in 0..N {
        for e in [p2(-60), -p2(-60), qi(1)] { probes.push((unit::<N>(i, j, e), "zero-plus-one-entry")); probes.push((add_m(&id, &unit::<N>(i, j, e)), "identity-plus-one-entry")); }
        if i == j { for e in [qi(-1), qi(-2)] { probes.push((add_m(&id, &unit::<N>(i, j, e)), "identity-diagonal-entry-changed")); } }
        if i != j { let mut m = id; m[i][j] = qi(1); m[j][i] = qi(-1); probes.push((m, "identity-plus-skew-pair")); }
    } }
    for (aa, cls) in &probes {
        s.class(cls); s.eval(true); s.eval(true);
        let a = M::build(aa);
        let (isz, iso) = (!nzm(aa), *aa == id);
        if let Some(g) = s.call(&site("Zero::is_zero"), || jmat(aa), || Zero::is_zero(&a)) { if g != isz {
            s.violation_w(&site("Zero::is_zero"), "wrong-verdict", json!({"M": jmat(aa), "got": g, "want": isz}), support(aa)); } }
        if let Some(g) = s.call(&site("One::is_one"), || jmat(aa), || One::is_one(&a)) { if g != iso {
            s.violation_w(&site("One::is_one"), "wrong-verdict", json!({"M": jmat(aa), "got": g, "want": iso}), support(aa)); } }
    }
    s.meta(&format!("Mat{}<{}>", N, lay), json!({"left_operands": lefts.len(), "related_right_operands": 8, "related_scalars": 8, "verdict_probes": probes.len()}));
}

/// the same operators with both operands the SAME free-term matrix (`self == rhs` is true on terms here, unlike
/// in the free-term section above where all variables are distinct): a/a must be div(a_ij, a_ij), not a constant
macro_rules! elementwise_equal { ($s:expr, $N:expr, $M:ty, $lay:expr) => {{
    let s: &Section = $s;
    const N: usize = $N;
    let ta = tvars::<N>(0);
    let a = <$M as MatIO<Term, N>>::build(&ta);
    let site = |op: &str| format!("Mat{}<{}> {}", N, $lay, op);
    let expect = |op: &str, got: Result<$M, Caught>, f: &dyn Fn(usize, usize) -> Term| {
        s.eval(true);
        match got {
            Ok(m) => { let g = m.decode(); for i in 0..N { for j in 0..N { if g[i][j] != f(i, j) {
                s.violation(&site(op), "wrong-element", json!({"operands": "identical", "position": [i, j], "got": jd(&g[i][j]), "want": jd(&f(i, j))})); } } } }
            Err(e) => s.violation(&site(op), "panic", json!({"error": jd(&e)})),
        }
    };
    expect("+ M", catch(|| a + a), &|i, j| Term::bin("add", ta[i][j], ta[i][j]));
    expect("- M", catch(|| a - a), &|i, j| Term::bin("sub", ta[i][j], ta[i][j]));
    expect("/ M", catch(|| a / a), &|i, j| Term::bin("div", ta[i][j], ta[i][j]));
    expect("% M", catch(|| a % a), &|i, j| Term::bin("rem", ta[i][j], ta[i][j]));
    expect("mul_memberwise", catch(|| a.mul_memberwise(a)), &|i, j| Term::bin("mul", ta[i][j], ta[i][j]));
    expect("+= M", catch(|| { let mut m = a; m += a; m }), &|i, j| Term::bin("add", ta[i][j], ta[i][j]));
    expect("-= M", catch(|| { let mut m = a; m -= a; m }), &|i, j| Term::bin("sub", ta[i][j], ta[i][j]));
    expect("/= M", catch(|| { let mut m = a; m /= a; m }), &|i, j| Term::bin("div", ta[i][j], ta[i][j]));
    expect("%= M", catch(|| { let mut m = a; m %= a; m }), &|i, j| Term::bin("rem", ta[i][j], ta[i][j]));
    // scalar operand identical to one entry of the matrix
    let sc = ta[0][N - 1];
    expect("+ scalar", catch(|| a + sc), &|i, j| Term::bin("add", ta[i][j], sc));
    expect("- scalar", catch(|| a - sc), &|i, j| Term::bin("sub", ta[i][j], sc));
    expect("* scalar", catch(|| a * sc), &|i, j| Term::bin("mul", ta[i][j], sc));
    expect("/ scalar", catch(|| a / sc), &|i, j| Term::bin("div", ta[i][j], sc));
    expect("% scalar", catch(|| a % sc), &|i, j| Term::bin("rem", ta[i][j], sc));
    // constant scalars 0 and 1 (`is_zero()` / `is_one()` are TRUE on these terms)
    for c in [0i64, 1, 2] { let k = Term::cst(c);
        expect("* scalar", catch(|| a * k), &|i, j| Term::bin("mul", ta[i][j], k));
        expect("*= scalar", catch(|| { let mut m = a; m *= k; m }), &|i, j| Term::bin("mul", ta[i][j], k));
        expect("+ scalar", catch(|| a + k), &|i, j| Term::bin("add", ta[i][j], k));
        expect("- scalar", catch(|| a - k), &|i, j| Term::bin("sub", ta[i][j], k));
        if c != 0 { expect("/ scalar", catch(|| a / k), &|i, j| Term::bin("div", ta[i][j], k)); expect("% scalar", catch(|| a % k), &|i, j| Term::bin("rem", ta[i][j], k));
                    expect("/= scalar", catch(|| { let mut m = a; m /= k; m }), &|i, j| Term::bin("div", ta[i][j], k)); }
    }
}} }

/// products with both operands the same free-term matrix, expanded: (A*A)_ij = sum_k a_ik a_kj in all forms
fn sym_squares<const N: usize, R, C>(s: &Section)
where
    R: MatIO<Term, N> + Copy + Mul<R, Output = R> + Mul<C, Output = C> + MulAssign<R>,
    C: MatIO<Term, N> + Copy + Mul<C, Output = C> + Mul<R, Output = R> + MulAssign<C>,
{
    let ta = tvars::<N>(0);
    let (ra, ca) = (R::build(&ta), C::build(&ta));
    let (rt, ct) = (R::build(&transpose(&ta)), C::build(&transpose(&ta)));
    let pa = |i: usize, j: usize| p_var((i * N + j) as u32);
    let sum = |f: &dyn Fn(usize) -> Poly| { let mut o = Poly::new(); for k in 0..N { o = p_lin(&o, &f(k), 1); } o };
    let mat = |site: String, got: Result<A<Term, N>, Caught>, want: &dyn Fn(usize, usize) -> Poly| { match got {
        Ok(g) => for i in 0..N { for j in 0..N { s.eval(true); match poly_of(g[i][j]) {
            Ok(p) => if p != want(i, j) { s.violation(&site, "wrong-polynomial", json!({"operands": "identical / transposed", "position": [i, j], "got_term": jd(&g[i][j]), "got_polynomial": jpoly(&p), "want_polynomial": jpoly(&want(i, j))})); },
            Err(e) => s.violation(&site, "non-ring-operation", json!({"position": [i, j], "got_term": jd(&g[i][j]), "why": e})) } } },
        Err(e) => { s.eval(true); s.violation(&site, "panic", json!({"error": jd(&e)})) } } };
    let sq = |i: usize, j: usize| sum(&|k| p_mul(&pa(i, k), &pa(k, j)));
    let aat = |i: usize, j: usize| sum(&|k| p_mul(&pa(i, k), &pa(j, k)));
    let mm = |f: &str| format!("Mat{}::mul {}", N, f);
    mat(mm("row*row"), catch(|| (ra * ra).decode()), &sq);
    mat(mm("col*col"), catch(|| (ca * ca).decode()), &sq);
    mat(mm("row*col->col"), catch(|| (ra * ca).decode()), &sq);
    mat(mm("col*row->row"), catch(|| (ca * ra).decode()), &sq);
    mat(mm("row*=row"), catch(|| { let mut m = ra; m *= ra; m.decode() }), &sq);
    mat(mm("col*=col"), catch(|| { let mut m = ca; m *= ca; m.decode() }), &sq);
    // A * A^T: in the mixed forms the two operands then hold the very same lines in storage
    mat(mm("row*row"), catch(|| (ra * rt).decode()), &aat);
    mat(mm("col*col"), catch(|| (ca * ct).decode()), &aat);
    mat(mm("row*col->col"), catch(|| (ra * ct).decode()), &aat);
    mat(mm("col*row->row"), catch(|| (ca * rt).decode()), &aat);
}

// ---- scalar and element-wise operators at the primitive element types -----------------------------------------
trait Elem: Copy + PartialEq + std::fmt::Debug + Add<Output = Self> + Sub<Output = Self> + Mul<Output = Self> + Div<Output = Self> + Rem<Output = Self> {}
impl<T: Copy + PartialEq + std::fmt::Debug + Add<Output = T> + Sub<Output = T> + Mul<Output = T> + Div<Output = T> + Rem<Output = T>> Elem for T {}
trait MatOpsT<T>: Copy + Add<Output = Self> + Sub<Output = Self> + Div<Output = Self> + Rem<Output = Self>
    + Add<T, Output = Self> + Sub<T, Output = Self> + Mul<T, Output = Self> + Div<T, Output = Self> + Rem<T, Output = Self>
    + AddAssign + SubAssign + DivAssign + RemAssign + AddAssign<T> + SubAssign<T> + MulAssign<T> + DivAssign<T> + RemAssign<T> {}
impl<T, M> MatOpsT<T> for M where M: Copy + Add<Output = M> + Sub<Output = M> + Div<Output = M> + Rem<Output = M>
    + Add<T, Output = M> + Sub<T, Output = M> + Mul<T, Output = M> + Div<T, Output = M> + Rem<T, Output = M>
    + AddAssign + SubAssign + DivAssign + RemAssign + AddAssign<T> + SubAssign<T> + MulAssign<T> + DivAssign<T> + RemAssign<T> {}

/// left entries: magnitudes 8..=11, right entries 1..=7, scalars 1, 2, 3, 7 (and negatives for signed types): every
/// sum, difference, product (<= 121), quotient and remainder is representable in every type down to i8 / u8; the
/// right operand is also the left one (equal operands).  Oracle: the element type's own scalar operator per element.
fn ew_prim<T: Elem, const N: usize, M: MatOpsT<T> + MatIO<T, N>>(s: &Section, tname: &str, lay: &str, signed: bool, mk: &dyn Fn(i32) -> T, mw: fn(M, M) -> M) {
    let site = |op: &str| format!("Mat{}<{}> {} [{}]", N, lay, op, tname);
    let sg = |idx: usize, k: usize, v: i32| if signed && (idx * 7 + idx / 3 + k) % 2 == 1 { -v } else { v };
    let left = |k: usize| { let mut m = [[mk(1); N]; N]; for i in 0..N { for j in 0..N { let idx = i * N + j; m[i][j] = mk(sg(idx, k, [9, 11, 8, 10, 11, 9, 10, 8][(idx + 3 * k) % 8])); } } m };
    let right = |k: usize| { let mut m = [[mk(1); N]; N]; for i in 0..N { for j in 0..N { let idx = i * N + j; m[i][j] = mk(sg(idx + 1, k, [3, 2, 5, 7, 4, 1, 6][(idx + 2 * k) % 7])); } } m };
    let mut scalars: Vec<T> = [1, 2, 3, 7].iter().map(|&v| mk(v)).collect();
    if signed { scalars.extend([-1, -2, -3].iter().map(|&v| mk(v))); }
    let bin: [(&str, fn(M, M) -> M, fn(T, T) -> T); 9] = [
        ("+ M", |a, b| a + b, |x, y| x + y), ("- M", |a, b| a - b, |x, y| x - y), ("/ M", |a, b| a / b, |x, y| x / y), ("% M", |a, b| a % b, |x, y| x % y),
        ("mul_memberwise", mw, |x, y| x * y),
        ("+= M", |mut a, b| { a += b; a }, |x, y| x + y), ("-= M", |mut a, b| { a -= b; a }, |x, y| x - y),
        ("/= M", |mut a, b| { a /= b; a }, |x, y| x / y), ("%= M", |mut a, b| { a %= b; a }, |x, y| x % y)];
    let sc: [(&str, fn(M, T) -> M, fn(T, T) -> T); 10] = [
        ("+ scalar", |a, k| a + k, |x, y| x + y), ("- scalar", |a, k| a - k, |x, y| x - y), ("* scalar", |a, k| a * k, |x, y| x * y),
        ("/ scalar", |a, k| a / k, |x, y| x / y), ("% scalar", |a, k| a % k, |x, y| x % y),
        ("+= scalar", |mut a, k| { a += k; a }, |x, y| x + y), ("-= scalar", |mut a, k| { a -= k; a }, |x, y| x - y), ("*= scalar", |mut a, k| { a *= k; a }, |x, y| x * y),
        ("/= scalar", |mut a, k| { a /= k; a }, |x, y| x / y), ("%= scalar", |mut a, k| { a %= k; a }, |x, y| x % y)];
    for ka in 0..2 {
        let aa = left(ka);
        let a = M::build(&aa);
        // unsigned `-`: the right operand is always smaller; `a - a` is 0
        for bb in [right(0), right(1), right(2), aa] {
            let b = M::build(&bb);
            for (name, f, r) in bin.iter() {
                s.eval(true);
                if let Some(m) = s.call(&site(name), || json!({"T": tname, "A": jd(&aa), "B": jd(&bb)}), || f(a, b)) {
                    let g = m.decode();
                    let mut want = aa; for i in 0..N { for j in 0..N { want[i][j] = r(aa[i][j], bb[i][j]); } }
                    if g != want { s.violation_w(&site(name), "wrong-element", json!({"T": tname, "A": jd(&aa), "B": jd(&bb), "got": jd(&g), "want": jd(&want)}), ka as u64); }
                }
            }
        }
        for k in &scalars {
            for (name, f, r) in sc.iter() {
                s.eval(true);
                if let Some(m) = s.call(&site(name), || json!({"T": tname, "A": jd(&aa), "scalar": jd(k)}), || f(a, *k)) {
                    let g = m.decode();
                    let mut want = aa; for i in 0..N { for j in 0..N { want[i][j] = r(aa[i][j], *k); } }
                    if g != want { s.violation_w(&site(name), "wrong-element", json!({"T": tname, "A": jd(&aa), "scalar": jd(k), "got": jd(&g), "want": jd(&want)}), ka as u64); }
                }
            }
        }
    }
}
fn neg_prim<T: Elem + Neg<Output = T>, const N: usize, M: Copy + Neg<Output = M> + MatIO<T, N>>(s: &Section, tname: &str, lay: &str, mk: &dyn Fn(i32) -> T) {
    let site = format!("Mat{}<{}> neg [{}]", N, lay, tname);
    let mut aa = [[mk(1); N]; N]; for i in 0..N { for j in 0..N { let idx = i * N + j; aa[i][j] = mk([9, -11, 8, 0, -10, 11, -9][idx % 7]); } }
    s.eval(true);
    if let Some(m) = s.call(&site, || json!({"T": tname, "A": jd(&aa)}), || -M::build(&aa)) {
        let g = m.decode();
        let mut want = aa; for i in 0..N { for j in 0..N { want[i][j] = -aa[i][j]; } }
        if g != want { s.violation(&site, "wrong-element", json!({"T": tname, "A": jd(&aa), "got": jd(&g), "want": jd(&want)})); }
    }
}

// ---- products: remaining primitive types, type bounds, wider float range --------------------------------------
/// exact k * 2^e for every e whose result is representable (subnormal results included): two exact steps
fn ld32(v: i128, e: i32) -> f32 { let h = e / 2; (v as f32) * f32p2(h) * f32p2(e - h) }
fn ld64(v: i128, e: i32) -> f64 { let h = e / 2; (v as f64) * f64p2(h) * f64p2(e - h) }

/// `prim_products` with a caller-supplied integer image of the lattice coordinates (narrow types need smaller entries)
fn prim_products_img<const N: usize, T, R, C, V>(s: &Section, d: u32, tname: &str, img: &(dyn Fn(usize, i64) -> i128 + Sync), conv: &(dyn Fn(i128) -> T + Sync))
where
    T: Copy + PartialEq + std::fmt::Debug + Send + Sync,
    R: MatIO<T, N> + Copy + Send + Sync + Mul<R, Output = R> + Mul<C, Output = C> + Mul<V, Output = V> + MulAssign<R>,
    C: MatIO<T, N> + Copy + Send + Sync + Mul<C, Output = C> + Mul<R, Output = R> + Mul<V, Output = V> + MulAssign<C>,
    V: VecIO<T, N> + Copy + Send + Sync + Mul<R, Output = V> + Mul<C, Output = V>,
{
    let nn = N * N;
    par_lattice_bal(2 * nn, d, |a| {
        let mut ia = [[0i128; N]; N]; let mut ib = [[0i128; N]; N];
        for i in 0..N { for j in 0..N { ia[i][j] = img(i * N + j, a[i * N + j]); ib[i][j] = img(nn + i * N + j, a[nn + i * N + j]); } }
        let mut iv = [0i128; N]; for k in 0..N { iv[k] = ib[k][N - 1 - k]; }
        prim_forms::<N, T, R, C, V>(s, tname, &ia, &ib, &iv, conv, a.iter().sum::<i64>() as u64);
    });
    s.class_n(tname, lattice_count(2 * nn, d) as u64);
}
/// the 10 product forms at element type T on one integer triple (A, B, v), compared with the exact integer result
fn prim_forms<const N: usize, T, R, C, V>(s: &Section, tname: &str, ia: &A<i128, N>, ib: &A<i128, N>, iv: &[i128; N], conv: &(dyn Fn(i128) -> T + Sync), w: u64)
where
    T: Copy + PartialEq + std::fmt::Debug,
    R: MatIO<T, N> + Copy + Mul<R, Output = R> + Mul<C, Output = C> + Mul<V, Output = V> + MulAssign<R>,
    C: MatIO<T, N> + Copy + Mul<C, Output = C> + Mul<R, Output = R> + Mul<V, Output = V> + MulAssign<C>,
    V: VecIO<T, N> + Copy + Mul<R, Output = V> + Mul<C, Output = V>,
{
    let (wab, wav, wva) = (mmul(ia, ib), mvec(ia, iv), vmat(iv, ia));
    let cm = |m: &A<i128, N>| { let mut o = [[conv(0); N]; N]; for i in 0..N { for j in 0..N { o[i][j] = conv(m[i][j]); } } o };
    let cv = |m: &[i128; N]| { let mut o = [conv(0); N]; for i in 0..N { o[i] = conv(m[i]); } o };
    let (ta, tb, tv) = (cm(ia), cm(ib), cv(iv));
    let (want_ab, want_av, want_va) = (cm(&wab), cv(&wav), cv(&wva));
    let inp = || json!({"T": tname, "A": jd(&ta), "B": jd(&tb), "v": jd(&tv)});
    let (ra, rb, ca, cb, v) = (R::build(&ta), R::build(&tb), C::build(&ta), C::build(&tb), V::build(&tv));
    let cs = |f: &str| format!("Mat{}<{}> {}", N, tname, f);
    let chk = |form: &str, got: Option<A<T, N>>| {
        s.eval(true);
        if let Some(g) = got { if g != want_ab { s.violation_w(&format!("Mat{}<{}>::mul {}", N, tname, form), "wrong-product", json!({"input": inp(), "got": jd(&g), "want": jd(&want_ab)}), w); } }
    };
    chk("row*row", s.call(&cs("row*row"), inp, || (ra * rb).decode()));
    chk("col*col", s.call(&cs("col*col"), inp, || (ca * cb).decode()));
    chk("row*col->col", s.call(&cs("row*col"), inp, || (ra * cb).decode()));
    chk("col*row->row", s.call(&cs("col*row"), inp, || (ca * rb).decode()));
    chk("row*=row", s.call(&cs("row*=row"), inp, || { let mut m = ra; m *= rb; m.decode() }));
    chk("col*=col", s.call(&cs("col*=col"), inp, || { let mut m = ca; m *= cb; m.decode() }));
    let chkv = |form: &str, got: Option<[T; N]>, want: &[T; N]| {
        s.eval(true);
        if let Some(g) = got { if &g != want { s.violation_w(&format!("Mat{}<{}> {}", N, tname, form), "wrong-product", json!({"input": inp(), "got": jd(&g), "want": jd(want)}), w); } }
    };
    chkv("row-major M*v", s.call(&cs("row M*v"), inp, || (ra * v).decode()), &want_av);
    chkv("col-major M*v", s.call(&cs("col M*v"), inp, || (ca * v).decode()), &want_av);
    chkv("v*row-major M", s.call(&cs("v*row M"), inp, || (v * ra).decode()), &want_va);
    chkv("v*col-major M", s.call(&cs("v*col M"), inp, || (v * ca).decode()), &want_va);
}
/// results AT the type bound: A has a, c in row i (columns k1 < k2), B has b, d in column j (rows k1, k2), a*b + c*d = bound,
/// all four of the same sign pattern so that each product and each partial sum in any order lies between 0 and the bound:
/// the defining sums cannot overflow, (A*B)_ij = bound, every other entry is 0; v = column j of B resp. row i of A
fn prim_bounds<const N: usize, T, R, C, V>(s: &Section, tname: &str, cases: &[(i128, i128, i128, i128)], range: (i128, i128), conv: &(dyn Fn(i128) -> T + Sync))
where
    T: Copy + PartialEq + std::fmt::Debug,
    R: MatIO<T, N> + Copy + Mul<R, Output = R> + Mul<C, Output = C> + Mul<V, Output = V> + MulAssign<R>,
    C: MatIO<T, N> + Copy + Mul<C, Output = C> + Mul<R, Output = R> + Mul<V, Output = V> + MulAssign<C>,
    V: VecIO<T, N> + Copy + Mul<R, Output = V> + Mul<C, Output = V>,
{
    let inr = |v: i128| range.0 <= v && v <= range.1;
    // every entry of every result of the 10 forms is a single product or a same-sign two-term sum: in range => no overflow on the way
    let fits = |x: &A<i128, N>, y: &A<i128, N>, v: &[i128; N]| mmul(x, y).iter().flatten().all(|&e| inr(e)) && mvec(x, v).iter().all(|&e| inr(e)) && vmat(v, x).iter().all(|&e| inr(e));
    let zero = [[0i128; N]; N];
    let (mut hit, mut skipped) = (0u64, 0u64);
    for &(a, b, c, d) in cases { for i in 0..N { for j in 0..N { for k1 in 0..N { for k2 in k1 + 1..N {
        let mut ia = [[0i128; N]; N]; let mut ib = [[0i128; N]; N];
        ia[i][k1] = a; ia[i][k2] = c; ib[k1][j] = b; ib[k2][j] = d;
        let mut col = [0i128; N]; for k in 0..N { col[k] = ib[k][j]; }
        // A*B and A*v (v = column j of B) hit the bound at (i, j) resp. lane i
        if fits(&ia, &ib, &col) { prim_forms::<N, T, R, C, V>(s, tname, &ia, &ib, &col, conv, 4); hit += 1; } else { skipped += 1; }
        // v*B with v = row i of A hits the bound at lane j
        let row = ia[i];
        if fits(&ib, &zero, &row) { prim_forms::<N, T, R, C, V>(s, tname, &ib, &zero, &row, conv, 4); hit += 1; } else { skipped += 1; }
    } } } } }
    s.class_n(tname, hit);
    s.meta(&format!("bounds Mat{}<{}>", N, tname), json!({"operand_triples_at_the_bound": hit, "skipped_because_another_entry_leaves_the_type": skipped}));
}

/// Vec4 helpers at a primitive type with a caller-supplied image; `plain_only`: unsigned types (the adjugate forms subtract)
fn vec4_prim_img<T>(s: &Section, d: u32, tname: &str, plain_only: bool, img: &(dyn Fn(usize, i64) -> i128 + Sync), conv: &(dyn Fn(i128) -> T + Sync))
where T: Copy + PartialEq + std::fmt::Debug + Send + Sync + Add<Output = T> + Mul<Output = T> + Sub<Output = T> {
    let calls = mat2_calls::<T>();
    par_lattice_bal(8, d, |p| {
        let mut ia = [0i128; 4]; let mut ib = [0i128; 4];
        for k in 0..4 { ia[k] = img(k, p[k]); ib[k] = img(4 + k, p[4 + k]); }
        let refs = mat2_refs(&ia, &ib);
        let c4 = |v: &[i128; 4]| [conv(v[0]), conv(v[1]), conv(v[2]), conv(v[3])];
        let (ta, tb) = (c4(&ia), c4(&ib));
        for (k, (name, want)) in refs.iter().enumerate() {
            if plain_only && k % 3 != 0 { continue; }
            s.eval(true);
            let want = c4(want);
            let site = format!("Vec4<{}>::{}", tname, name);
            if let Some(g) = s.call(&site, || json!({"a": jd(&ta), "b": jd(&tb)}), || dv4(&calls[k](v4(&ta), v4(&tb)))) { if g != want {
                s.violation_w(&site, "wrong-product", json!({"a": jd(&ta), "b": jd(&tb), "got": jd(&g), "want": jd(&want)}), p.iter().sum::<i64>() as u64); } }
        }
    });
    s.class_n(tname, lattice_count(8, d) as u64);
}
/// the six helpers on one pair of exact operands, plus the differential against the real Mat2 products
fn vec4_pair(s: &Section, a: &[X; 4], b: &[X; 4], what: &str, w: u64) {
    let calls = mat2_calls::<X>();
    let nz = a.iter().any(|x| !x.is_zero()) && b.iter().any(|x| !x.is_zero());
    let refs = mat2_refs(a, b);
    let mut got_plain: [Option<[X; 4]>; 2] = [None, None];
    for (k, (name, want)) in refs.iter().enumerate() {
        s.eval(nz);
        if let Some(g) = s.call(name, || json!({"operands": what, "a": jxs(a), "b": jxs(b)}), || dv4(&calls[k](v4(a), v4(b)))) {
            if k % 3 == 0 { got_plain[k / 3] = Some(g); }
            if &g != want { s.violation_w(&format!("Vec4::{}", name), "wrong-product", json!({"operands": what, "a": jxs(a), "b": jxs(b), "got": jxs(&g), "want": jxs(want)}), w); }
        }
    }
    let rr = s.call("rm::Mat2*rm::Mat2", || json!({"a": jxs(a), "b": jxs(b)}), || dr2(&(r2(&[[a[0], a[1]], [a[2], a[3]]]) * r2(&[[b[0], b[1]], [b[2], b[3]]]))));
    let cc = s.call("cm::Mat2*cm::Mat2", || json!({"a": jxs(a), "b": jxs(b)}), || dc2(&(c2(&[[a[0], a[2]], [a[1], a[3]]]) * c2(&[[b[0], b[2]], [b[1], b[3]]]))));
    s.eval(nz); s.eval(nz);
    if let (Some(m), Some(g)) = (rr, got_plain[0]) { if [m[0][0], m[0][1], m[1][0], m[1][1]] != g {
        s.violation_w("Vec4::mat2_rows_mul", "differs-from-row-major-Mat2-product", json!({"a": jxs(a), "b": jxs(b), "helper": jxs(&g), "Mat2": jmat(&m)}), w); } }
    if let (Some(m), Some(g)) = (cc, got_plain[1]) { if [m[0][0], m[1][0], m[0][1], m[1][1]] != g {
        s.violation_w("Vec4::mat2_cols_mul", "differs-from-column-major-Mat2-product", json!({"a": jxs(a), "b": jxs(b), "helper": jxs(&g), "Mat2": jmat(&m)}), w); } }
}

fn main() {
    let rep = Report::start("C01", "exploration");
    let extra = if rep.thorough() { 4 } else { 2 };

    rep.section("premise: products are branch-free of total degree 2", "one run of each product form on tropical degree values (every comparison or cast panics); non-trivial: all", true, true, |s| {
        let d2 = deg_products::<2, rm::Mat2<Deg>, cm::Mat2<Deg>, Vec2<Deg>>(s);
        let d3 = deg_products::<3, rm::Mat3<Deg>, cm::Mat3<Deg>, Vec3<Deg>>(s);
        let d4 = deg_products::<4, rm::Mat4<Deg>, cm::Mat4<Deg>, Vec4<Deg>>(s);
        s.meta("measured_degree", json!({"mat2": d2, "mat3": d3, "mat4": d4}));
        s.sample(json!({"form": "row*col (4x4)", "input": "all 32 entries = degree-1 variable", "measured_output_degree": d4}));
        if d2.max(d3).max(d4) > 2 { s.degrade("measured degree exceeds the lattice order used below"); }
    });
    let rule_mm = "all points of the simplex lattice L(2N^2, D) (entries = small non-negative integers, sum <= D), D = measured degree 2, run at D+2 (quick) / D+4 (thorough), every matrix*matrix form vs sum_k A(i,k)B(k,j) on public fields; non-trivial: both operands non-zero";
    rep.section("matrix*matrix N=2", rule_mm, true, true, |s| mm_products::<2, rm::Mat2<X>, cm::Mat2<X>>(s, 2 + extra));
    rep.section("matrix*matrix N=3", rule_mm, true, true, |s| mm_products::<3, rm::Mat3<X>, cm::Mat3<X>>(s, 2 + extra));
    rep.section("matrix*matrix N=4", rule_mm, true, true, |s| mm_products::<4, rm::Mat4<X>, cm::Mat4<X>>(s, 2 + extra));
    let rule_mv = "all points of L(N^2+N, D), D = 2+2 (quick) / 2+4 (thorough): M*v and v*M for both layouts vs the defining sums; non-trivial: matrix and vector non-zero";
    rep.section("matrix*vector N=2", rule_mv, true, true, |s| mv_products::<2, rm::Mat2<X>, cm::Mat2<X>, Vec2<X>>(s, 2 + extra));
    rep.section("matrix*vector N=3", rule_mv, true, true, |s| mv_products::<3, rm::Mat3<X>, cm::Mat3<X>, Vec3<X>>(s, 2 + extra));
    rep.section("matrix*vector N=4", rule_mv, true, true, |s| mv_products::<4, rm::Mat4<X>, cm::Mat4<X>, Vec4<X>>(s, 2 + extra));

    rep.section("element-wise operators, scalar forms, identity/zero/one (free terms)",
        "each operator form of each of the 6 matrix types run once on pairwise distinct uninterpreted terms (the most general input: the operators are uninterpreted constructors); every element position compared; non-trivial: all", true, true, |s| {
        elementwise!(s, 2, rm::Mat2<Term>, "row"); elementwise!(s, 2, cm::Mat2<Term>, "col");
        elementwise!(s, 3, rm::Mat3<Term>, "row"); elementwise!(s, 3, cm::Mat3<Term>, "col");
        elementwise!(s, 4, rm::Mat4<Term>, "row"); elementwise!(s, 4, cm::Mat4<Term>, "col");
    });
    rep.section("identity is neutral", "all points of L(N^2, 1+extra) (degree 1): I*M = M*I = M with I from identity(); non-trivial: M non-zero", true, true, |s| {
        neutrality::<2, _>(s, 1 + extra, rm::Mat2::<X>::identity(), "row"); neutrality::<2, _>(s, 1 + extra, cm::Mat2::<X>::identity(), "col");
        neutrality::<3, _>(s, 1 + extra, rm::Mat3::<X>::identity(), "row"); neutrality::<3, _>(s, 1 + extra, cm::Mat3::<X>::identity(), "col");
        neutrality::<4, _>(s, 1 + extra, rm::Mat4::<X>::identity(), "row"); neutrality::<4, _>(s, 1 + extra, cm::Mat4::<X>::identity(), "col");
        s.sample(json!({"M": "e_01 (single unit entry)", "law": "identity()*M == M == M*identity()"}));
    });

    rep.section("Vec4-as-2x2 helpers", "all points of L(8, 2+extra): the six mat2_{rows,cols}_{mul,adj_mul,mul_adj} vs 2x2 products with adj[[a,b],[c,d]]=[[d,-b],[-c,a]]; non-trivial: both operands non-zero", true, true, |s| {
        let dm = { // degree premise
            let v = Vec4 { x: Deg::VAR, y: Deg::VAR, z: Deg::VAR, w: Deg::VAR };
            match catch(|| [v.mat2_rows_mul(v), v.mat2_rows_adj_mul(v), v.mat2_rows_mul_adj(v), v.mat2_cols_mul(v), v.mat2_cols_adj_mul(v), v.mat2_cols_mul_adj(v)]) {
                Ok(rs) => rs.iter().map(|r| [r.x, r.y, r.z, r.w].iter().map(|d| d.n + d.d).max().unwrap()).max().unwrap(),
                Err(e) => { s.degrade(&format!("{:?}", e)); 99 }
            }
        };
        s.meta("measured_degree", json!(dm));
        if dm > 2 { s.degrade("degree above lattice order"); }
        par_lattice_bal(8, 2 + extra, |p| {
            let a: [X; 4] = vecx::<4>(&p[..4]); let b: [X; 4] = vecx::<4>(&p[4..]);
            let (va, vb) = (v4(&a), v4(&b));
            let rows = |v: &[X; 4]| -> A<X, 2> { [[v[0], v[1]], [v[2], v[3]]] };
            let cols = |v: &[X; 4]| -> A<X, 2> { [[v[0], v[2]], [v[1], v[3]]] };
            let adj = |m: &A<X, 2>| -> A<X, 2> { [[m[1][1], -m[0][1]], [-m[1][0], m[0][0]]] };
            let flat_r = |m: A<X, 2>| [m[0][0], m[0][1], m[1][0], m[1][1]];
            let flat_c = |m: A<X, 2>| [m[0][0], m[1][0], m[0][1], m[1][1]];
            let nz = p[..4].iter().any(|&v| v != 0) && p[4..].iter().any(|&v| v != 0);
            let cases: [(&str, Option<Vec4<X>>, [X; 4]); 6] = [
                ("mat2_rows_mul", s.call("mat2_rows_mul", || json!(p), || va.mat2_rows_mul(vb)), flat_r(mmul(&rows(&a), &rows(&b)))),
                ("mat2_rows_adj_mul", s.call("mat2_rows_adj_mul", || json!(p), || va.mat2_rows_adj_mul(vb)), flat_r(mmul(&adj(&rows(&a)), &rows(&b)))),
                ("mat2_rows_mul_adj", s.call("mat2_rows_mul_adj", || json!(p), || va.mat2_rows_mul_adj(vb)), flat_r(mmul(&rows(&a), &adj(&rows(&b))))),
                ("mat2_cols_mul", s.call("mat2_cols_mul", || json!(p), || va.mat2_cols_mul(vb)), flat_c(mmul(&cols(&a), &cols(&b)))),
                ("mat2_cols_adj_mul", s.call("mat2_cols_adj_mul", || json!(p), || va.mat2_cols_adj_mul(vb)), flat_c(mmul(&adj(&cols(&a)), &cols(&b)))),
                ("mat2_cols_mul_adj", s.call("mat2_cols_mul_adj", || json!(p), || va.mat2_cols_mul_adj(vb)), flat_c(mmul(&cols(&a), &adj(&cols(&b))))),
            ];
            for (name, got, want) in cases {
                s.eval(nz);
                if let Some(g) = got { let g = dv4(&g); if g != want {
                    s.violation_w(&format!("Vec4::{}", name), "wrong-product", json!({"a": jxs(&a), "b": jxs(&b), "got": jxs(&g), "want": jxs(&want)}), p.iter().sum::<i64>() as u64); } }
            }
        });
        s.sample(json!({"a": [1, 0, 0, 0], "b": [0, 1, 0, 0], "functions": 6}));
    });

    // ------------------------------------------------------------------------------------------- audit round
    let th = rep.thorough();
    let all: &[usize] = &[0, 1, 2, 3, 4];
    macro_rules! ids { ($M:ty) => { [(<$M>::identity(), "identity()"), (<$M as One>::one(), "One::one()"), (<$M as Default>::default(), "Default::default()")] } }

    let rule_mm2 = "affine images of L(2N^2, D) (D: 4/4/3 quick, 8/6/4 thorough for N=2/3/4) under 5 coordinate-wise affine bijections: signed (alternating signs), dense (every entry offset, steps -1/2/-3/1), fractional (halves and thirds), scaled (A*2^40, B*2^-40) and (A*2^40, B*2^40); an affine image of the principal lattice is unisolvent for the same degree, so each map decides the degree-2 identity again on negative / odd / rational / extreme inputs; all 6 matrix*matrix forms; non-trivial: both operands non-zero";
    rep.section("matrix*matrix N=2 (affine lattice images)", rule_mm2, true, true, |s| { s.require_classes(&MAPS); s.require_classes(&["negative-result-entry"]); mm_products_map::<2, rm::Mat2<X>, cm::Mat2<X>>(s, if th { 8 } else { 4 }, all) });
    rep.section("matrix*matrix N=3 (affine lattice images)", rule_mm2, true, true, |s| { s.require_classes(&MAPS); s.require_classes(&["negative-result-entry"]); mm_products_map::<3, rm::Mat3<X>, cm::Mat3<X>>(s, if th { 6 } else { 4 }, all) });
    rep.section("matrix*matrix N=4 (affine lattice images)", rule_mm2, true, true, |s| { s.require_classes(&MAPS); s.require_classes(&["negative-result-entry"]); mm_products_map::<4, rm::Mat4<X>, cm::Mat4<X>>(s, if th { 4 } else { 3 }, all) });
    let rule_mv2 = "affine images of L(N^2+N, D) (D = 4 quick; 8/6/6 thorough for N=2/3/4) under the same 5 maps (matrix scaled by 2^40, vector by 2^-40 or 2^40): M*v and v*M for both layouts; non-trivial: matrix and vector non-zero";
    rep.section("matrix*vector N=2 (affine lattice images)", rule_mv2, true, true, |s| { s.require_classes(&MAPS); mv_products_map::<2, rm::Mat2<X>, cm::Mat2<X>, Vec2<X>>(s, if th { 8 } else { 4 }, all) });
    rep.section("matrix*vector N=3 (affine lattice images)", rule_mv2, true, true, |s| { s.require_classes(&MAPS); mv_products_map::<3, rm::Mat3<X>, cm::Mat3<X>, Vec3<X>>(s, if th { 6 } else { 4 }, all) });
    rep.section("matrix*vector N=4 (affine lattice images)", rule_mv2, true, true, |s| { s.require_classes(&MAPS); mv_products_map::<4, rm::Mat4<X>, cm::Mat4<X>, Vec4<X>>(s, if th { 6 } else { 4 }, all) });

    rep.section("call sequences: triple products, mixed-layout chains, chained *=, vector chains",
        "affine images (signed, dense; N=4 quick: dense only; + fractional in thorough, N=4 thorough: dense and fractional at D=4, signed at D=3) of L(3N^2, D), D = 4/3/3 quick, 6/4/4 thorough for N=2/3/4 (measured degree 3): (A*B)*C and A*(B*C) in each layout, the four mixed-layout chains, A*=B;A*=C (in-place twin on a non-trivial prior state), (v*A)*B, v*(A*B), A*(B*v), (A*B)*v incl. mixed, vs the reference triple product; v = anti-diagonal of C; non-trivial: A, B, C all non-zero", true, true, |s| {
        let d2 = deg_seq::<2, rm::Mat2<Deg>, cm::Mat2<Deg>>(s); let d3 = deg_seq::<3, rm::Mat3<Deg>, cm::Mat3<Deg>>(s); let d4 = deg_seq::<4, rm::Mat4<Deg>, cm::Mat4<Deg>>(s);
        s.meta("measured_degree", json!({"mat2": d2, "mat3": d3, "mat4": d4}));
        if d2.max(d3).max(d4) > 3 { s.degrade("measured degree of a triple product exceeds 3"); }
        let maps: &[usize] = if th { &[0, 1, 2] } else { &[0, 1] };
        s.require_classes(&["signed", "dense"]);
        seq_products::<2, rm::Mat2<X>, cm::Mat2<X>, Vec2<X>>(s, if th { 6 } else { 4 }, maps);
        seq_products::<3, rm::Mat3<X>, cm::Mat3<X>, Vec3<X>>(s, if th { 4 } else { 3 }, maps);
        if th { seq_products::<4, rm::Mat4<X>, cm::Mat4<X>, Vec4<X>>(s, 4, &[1, 2]); seq_products::<4, rm::Mat4<X>, cm::Mat4<X>, Vec4<X>>(s, 3, &[0]); } else { seq_products::<4, rm::Mat4<X>, cm::Mat4<X>, Vec4<X>>(s, 3, &[1]); }
    });
    rep.section("call sequences: powers by repeated *= from identity() and num_traits::pow",
        "affine images (signed, dense, fractional) of L(N^2, D), D = 3 quick / 5 thorough: identity() then k times `*= M` with every intermediate state compared to the reference power M^k, and num_traits::pow(M, k) (square-and-multiply through One::one and Mul), k = 0..=4 (quick) / 0..=6 (thorough); bounded (degree k > D); non-trivial: M non-zero and k >= 2", true, false, |s| {
        s.require_classes(&["signed", "dense", "fractional"]);
        let (d, k) = if th { (5, 6) } else { (3, 4) };
        powers::<2, _>(s, d, &[0, 1, 2], k, rm::Mat2::<X>::identity(), "row"); powers::<2, _>(s, d, &[0, 1, 2], k, cm::Mat2::<X>::identity(), "col");
        powers::<3, _>(s, d, &[0, 1, 2], k, rm::Mat3::<X>::identity(), "row"); powers::<3, _>(s, d, &[0, 1, 2], k, cm::Mat3::<X>::identity(), "col");
        powers::<4, _>(s, d, &[0, 1, 2], k, rm::Mat4::<X>::identity(), "row"); powers::<4, _>(s, d, &[0, 1, 2], k, cm::Mat4::<X>::identity(), "col");
        s.sample(json!({"M": "[[1,-2],[3,-1]] (dense image of the origin, N=2)", "checked": "I, I*=M, ..., and num_traits::pow(M,k) against M^k"}));
    });

    rep.section("element-wise operators and scalar forms on values, is_zero / is_one",
        "left operand: the signed / dense / fractional images of every point of L(N^2, 2) (quick) / L(N^2, 3) (thorough) plus zero, identity, -identity, identity+1 entry, identity-1 entry; right operand: 3 dense non-zero non-symmetric matrices (one fractional) for all 9 matrix forms, and the zero and identity matrices for the 5 forms without division; scalars 0, 1, -1, 2, -3, 1/2, -7/3, 2^40, 2^-40 for the 10 scalar forms (/, % skipped at 0); each element vs op(a_ij, b_ij) / op(a_ij, s); Zero::is_zero <=> all entries 0, One::is_one <=> identity, set_zero, set_one; a value-level complement of the free-term section (a term never equals 0, so `is_zero()` / `==` shortcuts are invisible there); non-trivial: all", true, false, |s| {
        s.require_classes(&["signed", "dense", "fractional", "zero-matrix", "identity-matrix", "zero-scalar", "negative-scalar", "fractional-scalar", "huge-scalar", "tiny-scalar", "is_zero-true", "is_zero-false", "is_one-true"]);
        let d = if th { 3 } else { 2 };
        ew_values::<2, rm::Mat2<X>>(s, d, "row", |a, b| a.mul_memberwise(b)); ew_values::<2, cm::Mat2<X>>(s, d, "col", |a, b| a.mul_memberwise(b));
        ew_values::<3, rm::Mat3<X>>(s, d, "row", |a, b| a.mul_memberwise(b)); ew_values::<3, cm::Mat3<X>>(s, d, "col", |a, b| a.mul_memberwise(b));
        ew_values::<4, rm::Mat4<X>>(s, d, "row", |a, b| a.mul_memberwise(b)); ew_values::<4, cm::Mat4<X>>(s, d, "col", |a, b| a.mul_memberwise(b));
        s.sample(json!({"matrix": "Mat3<row> zero()", "scalar": "0", "law": "(M * 0)[i][j] == M[i][j] * 0, M.is_zero() == true"}));
    });

    rep.section("identity is neutral (three constructors, mixed layouts, vectors, *=)",
        "affine images (signed, dense, fractional, scaled) of L(N^2+N, D), D = 4/3/2 quick, 5/4/3 thorough for N=2/3/4 (degree 1 in M for a constant I): for I from identity(), One::one(), Default::default() of each layout: I*M, M*I, M*=I, I*M(other layout), M(other layout)*I, I*v, v*I all return the operand unchanged; non-trivial: operand non-zero", true, true, |s| {
        s.require_classes(&["signed", "dense", "fractional", "scaled-up-down"]);
        let d = if th { 4 } else { 3 };
        neutrality_ext::<2, rm::Mat2<X>, cm::Mat2<X>, Vec2<X>>(s, d + 1, &[0, 1, 2, 3], &ids!(rm::Mat2<X>), &ids!(cm::Mat2<X>));
        neutrality_ext::<3, rm::Mat3<X>, cm::Mat3<X>, Vec3<X>>(s, d, &[0, 1, 2, 3], &ids!(rm::Mat3<X>), &ids!(cm::Mat3<X>));
        neutrality_ext::<4, rm::Mat4<X>, cm::Mat4<X>, Vec4<X>>(s, d - 1, &[0, 1, 2, 3], &ids!(rm::Mat4<X>), &ids!(cm::Mat4<X>));
        s.sample(json!({"M": "dense image", "law": "One::one() * M(col) == M, v * Default::default() == v, M *= identity() leaves M"}));
    });

    rep.section("products as polynomials (symbolic expansion of one run on free variables)",
        "each product form of each size run once on pairwise distinct free variables (32 + 4 for N=4); every output element is expanded (var/const/neg/add/sub/mul/fma) into a polynomial with integer coefficients over commuting variables and compared with sum_k a_ik b_kj / sum_k a_ik v_k / sum_k v_k a_kj / a_ij s, and for I*M, M*I, M*=I, mixed, I*v, v*I (I from the three constructors) with the bare variable; this is the polynomial identity of the quantifier itself, independent of the lattice argument; it follows the single path a free term takes (branch-freedom is the premise section's business), hence not marked complete; non-trivial: all", true, false, |s| {
        sym_products::<2, rm::Mat2<Term>, cm::Mat2<Term>, Vec2<Term>>(s, &ids!(rm::Mat2<Term>), &ids!(cm::Mat2<Term>));
        sym_products::<3, rm::Mat3<Term>, cm::Mat3<Term>, Vec3<Term>>(s, &ids!(rm::Mat3<Term>), &ids!(cm::Mat3<Term>));
        sym_products::<4, rm::Mat4<Term>, cm::Mat4<Term>, Vec4<Term>>(s, &ids!(rm::Mat4<Term>), &ids!(cm::Mat4<Term>));
        // Vec4-as-2x2 helpers: expanded result vs the expanded reference 2x2 expression
        let (ta, tb) = (tvec::<4>(0), tvec::<4>(100));
        let refs = mat2_refs(&ta, &tb);
        let calls = mat2_calls::<Term>();
        for (k, (name, want)) in refs.iter().enumerate() {
            match catch(|| dv4(&calls[k](v4(&ta), v4(&tb)))) {
                Ok(g) => for i in 0..4 { s.eval(true); match (poly_of(g[i]), poly_of(want[i])) {
                    (Ok(p), Ok(wp)) => if p != wp { s.violation(&format!("Vec4::{}", name), "wrong-polynomial", json!({"lane": i, "got_term": jd(&g[i]), "got_polynomial": jpoly(&p), "want_polynomial": jpoly(&wp)})); },
                    (e1, e2) => s.violation(&format!("Vec4::{}", name), "non-ring-operation", json!({"lane": i, "got": jd(&e1), "reference": jd(&e2)})) } },
                Err(e) => { s.eval(true); s.violation(&format!("Vec4::{}", name), "panic", json!({"error": jd(&e)})) }
            }
        }
    });

    rep.section("products at primitive element types (integers, f32/f64 with power-of-two scaling)",
        "the 10 product forms (6 matrix*matrix, 4 matrix/vector) instantiated at i16, i32, i64, u8, u32, u64, f32, f64 on integer images of L(2N^2, D) (dense signed values, or dense non-negative for unsigned; D = 3/3/2 quick, 4 thorough), v = anti-diagonal of B; for floats each operand is scaled uniformly by 2^0, 2^+-40 (f32) / 2^+-400 (f64) in the combinations (0,0), (+,-), (-,+), (+,+), (-,-): every entry, product and partial sum is exactly representable, so the result must equal the exact product times 2^(ea+eb) bit for bit; non-trivial: all", true, false, |s| {
        s.require_classes(&["i16", "i32", "i64", "u8", "u32", "u64", "f32", "f64"]);
        let (d2, d3, d4) = if th { (4, 4, 4) } else { (3, 3, 2) };
        let one: &[(i32, i32)] = &[(0, 0)];
        let sc32: &[(i32, i32)] = &[(0, 0), (40, -40), (-40, 40), (40, 40), (-40, -40)];
        let sc64: &[(i32, i32)] = &[(0, 0), (400, -400), (-400, 400), (400, 400), (-400, -400)];
        macro_rules! prim { ($T:ty, $name:expr, $signed:expr, $conv:expr, $sc:expr) => {
            prim_products::<2, $T, rm::Mat2<$T>, cm::Mat2<$T>, Vec2<$T>>(s, d2, $name, $signed, &$conv, $sc);
            prim_products::<3, $T, rm::Mat3<$T>, cm::Mat3<$T>, Vec3<$T>>(s, d3, $name, $signed, &$conv, $sc);
            prim_products::<4, $T, rm::Mat4<$T>, cm::Mat4<$T>, Vec4<$T>>(s, d4, $name, $signed, &$conv, $sc);
        } }
        prim!(i16, "i16", true, |v: i128, _e: i32| v as i16, one);
        prim!(i32, "i32", true, |v: i128, _e: i32| v as i32, one);
        prim!(i64, "i64", true, |v: i128, _e: i32| v as i64, one);
        prim!(u8, "u8", false, |v: i128, _e: i32| v as u8, one);
        prim!(u32, "u32", false, |v: i128, _e: i32| v as u32, one);
        prim!(u64, "u64", false, |v: i128, _e: i32| v as u64, one);
        prim!(f32, "f32", true, |v: i128, e: i32| (v as f32) * f32p2(e), sc32);
        prim!(f64, "f64", true, |v: i128, e: i32| (v as f64) * f64p2(e), sc64);
        s.sample(json!({"T": "f32", "A": "dense integers * 2^40", "B": "dense integers * 2^-40", "law": "A*B == exact integer product, bit for bit, in all 10 forms"}));
    });

    rep.section("Vec4-as-2x2 helpers (affine lattice images, primitives, vs the real Mat2 products)",
        "the six helpers on the 5 affine images of L(8, D) (D = 4 quick / 8 thorough) vs the 2x2 expressions; the two plain products also vs the real row-major / column-major Mat2 * Mat2 on the same entries (differential); the six helpers at i32, i64, f32 (2^+-40), f64 (2^+-400) on dense integer images of L(8, D'), D' = 3 / 6; non-trivial: both operands non-zero", true, true, |s| {
        s.require_classes(&MAPS); s.require_classes(&["i32", "i64", "f32", "f64"]);
        let calls = mat2_calls::<X>();
        let d = if th { 8 } else { 4 };
        for map in 0..5usize {
            par_lattice_bal(8, d, |p| {
                let (a, b) = (vecm::<4>(map, &p[..4], 0, 0), vecm::<4>(map, &p[4..], 4, 1));
                let nz = a.iter().any(|x| !x.is_zero()) && b.iter().any(|x| !x.is_zero());
                let w = p.iter().sum::<i64>() as u64;
                let refs = mat2_refs(&a, &b);
                let mut got_plain: [Option<[X; 4]>; 2] = [None, None];
                for (k, (name, want)) in refs.iter().enumerate() {
                    s.eval(nz);
                    if let Some(g) = s.call(name, || json!({"map": MAPN[map], "a": jxs(&a), "b": jxs(&b)}), || dv4(&calls[k](v4(&a), v4(&b)))) {
                        if k % 3 == 0 { got_plain[k / 3] = Some(g); }
                        if &g != want { s.violation_w(&format!("Vec4::{}", name), "wrong-product", json!({"map": MAPN[map], "a": jxs(&a), "b": jxs(&b), "got": jxs(&g), "want": jxs(want)}), w); }
                    }
                }
                let rr = s.call("rm::Mat2*rm::Mat2", || json!({"a": jxs(&a), "b": jxs(&b)}), || dr2(&(r2(&[[a[0], a[1]], [a[2], a[3]]]) * r2(&[[b[0], b[1]], [b[2], b[3]]]))));
                let cc = s.call("cm::Mat2*cm::Mat2", || json!({"a": jxs(&a), "b": jxs(&b)}), || dc2(&(c2(&[[a[0], a[2]], [a[1], a[3]]]) * c2(&[[b[0], b[2]], [b[1], b[3]]]))));
                s.eval(nz); s.eval(nz);
                if let (Some(m), Some(g)) = (rr, got_plain[0]) { if [m[0][0], m[0][1], m[1][0], m[1][1]] != g {
                    s.violation_w("Vec4::mat2_rows_mul", "differs-from-row-major-Mat2-product", json!({"a": jxs(&a), "b": jxs(&b), "helper": jxs(&g), "Mat2": jmat(&m)}), w); } }
                if let (Some(m), Some(g)) = (cc, got_plain[1]) { if [m[0][0], m[1][0], m[0][1], m[1][1]] != g {
                    s.violation_w("Vec4::mat2_cols_mul", "differs-from-column-major-Mat2-product", json!({"a": jxs(&a), "b": jxs(&b), "helper": jxs(&g), "Mat2": jmat(&m)}), w); } }
            });
            s.class_n(MAPN[map], lattice_count(8, d) as u64);
        }
        let dp = if th { 6 } else { 3 };
        vec4_prim::<i32>(s, dp, "i32", &|v: i128, _e: i32| v as i32, &[(0, 0)]);
        vec4_prim::<i64>(s, dp, "i64", &|v: i128, _e: i32| v as i64, &[(0, 0)]);
        vec4_prim::<f32>(s, dp, "f32", &|v: i128, e: i32| (v as f32) * f32p2(e), &[(0, 0), (40, -40), (-40, 40), (40, 40), (-40, -40)]);
        vec4_prim::<f64>(s, dp, "f64", &|v: i128, e: i32| (v as f64) * f64p2(e), &[(0, 0), (400, -400), (-400, 400), (400, 400), (-400, -400)]);
        s.sample(json!({"map": "fractional", "a": "[1/2, -3/2+..]", "functions": 6, "also": "mat2_rows_mul vs rm::Mat2*rm::Mat2, mat2_cols_mul vs cm::Mat2*cm::Mat2"}));
    });

    // ------------------------------------------------------------------------------- second audit round (adversarial)
    rep.section("special-structured operands against each other and against dense partners (value-dependent shortcuts)",
        "per size N: zero, identity, -I, 2I, -3I, I/2, two diagonals, all N!-1 permutation matrices and a signed anti-diagonal, all N^2 single-entry matrices, all-equal (1, -2), upper / lower / strictly-upper triangular, symmetric, skew-symmetric, dense with bottom row (0,..,0,1), dense with last column (0,..,0,1)^T, linear block + 1, rank one, 3 dense + a transpose, identity + 2^-60 / + 1 in one entry, 2^-60 * dense, 2^60 * dense: EVERY ordered pair (equal operands and A, A^T pairs included) through the 6 matrix*matrix forms, every matrix against zero, +-axes, single-lane, ones, dense, homogeneous point / direction, 2^-60 and 2^60 vectors through the 4 vector forms, vs the defining sums; these are the operands a guard would be keyed on and whose lattice weight exceeds the orders used above; non-trivial: both operands non-zero", true, false, |s| {
        s.require_classes(&["zero", "identity", "scalar-matrix", "diagonal", "permutation", "single-entry", "all-equal", "triangular", "symmetric", "skew-symmetric", "affine-bottom-row", "affine-last-column", "rank-one", "dense", "near-identity", "tiny", "huge", "equal-operands", "transposed-pair",
            "zero-vector", "axis-vector", "single-lane-vector", "ones-vector", "dense-vector", "homogeneous-point", "homogeneous-direction", "tiny-vector", "huge-vector"]);
        structured_products::<2, rm::Mat2<X>, cm::Mat2<X>, Vec2<X>>(s);
        structured_products::<3, rm::Mat3<X>, cm::Mat3<X>, Vec3<X>>(s);
        structured_products::<4, rm::Mat4<X>, cm::Mat4<X>, Vec4<X>>(s);
        s.sample(json!({"A": "3-cycle permutation matrix", "B": "dense with bottom row (0,0,0,1)", "forms_checked": 6, "law": "(A*B)(i,j) == sum_k A(i,k)*B(k,j)"}));
    });

    rep.section("products on lattice images on both sides of epsilon (2^-60 entries)",
        "affine images 'tiny-huge' (first operand dense * 2^-60, second dense * 2^60) and 'tiny-tiny' (both * 2^-60) of L(2N^2, D) (D = 3/2/2 quick, 8/5/4 thorough), L(N^2+N, D) (D = 3 quick, 8/6/5 thorough; identity forms D = 3/2/2 quick, 5/4/3 thorough) and, for triple products, 'tiny-huge' (2^-60, 2^60, 2^-60) of L(3N^2, 2) (thorough 5/3/3): all 6 matrix*matrix forms, the 4 vector forms, the 22 chain forms, the identity forms of the three constructors; every entry lies below the exact type's epsilon() = default_epsilon() = 2^-52, which the 2^-40 maps above never reach (an 'is approximately zero' guard is invisible to them); non-trivial: operands non-zero", true, true, |s| {
        s.require_classes(&["tiny-huge", "tiny-tiny"]);
        let ex: &[usize] = &[5, 6];
        mm_products_map::<2, rm::Mat2<X>, cm::Mat2<X>>(s, if th { 8 } else { 3 }, ex);
        mm_products_map::<3, rm::Mat3<X>, cm::Mat3<X>>(s, if th { 5 } else { 2 }, ex);
        mm_products_map::<4, rm::Mat4<X>, cm::Mat4<X>>(s, if th { 4 } else { 2 }, ex);
        mv_products_map::<2, rm::Mat2<X>, cm::Mat2<X>, Vec2<X>>(s, if th { 8 } else { 3 }, ex);
        mv_products_map::<3, rm::Mat3<X>, cm::Mat3<X>, Vec3<X>>(s, if th { 6 } else { 3 }, ex);
        mv_products_map::<4, rm::Mat4<X>, cm::Mat4<X>, Vec4<X>>(s, if th { 5 } else { 3 }, ex);
        seq_products::<2, rm::Mat2<X>, cm::Mat2<X>, Vec2<X>>(s, if th { 5 } else { 2 }, &[5]);
        seq_products::<3, rm::Mat3<X>, cm::Mat3<X>, Vec3<X>>(s, if th { 3 } else { 2 }, &[5]);
        seq_products::<4, rm::Mat4<X>, cm::Mat4<X>, Vec4<X>>(s, if th { 3 } else { 2 }, &[5]);
        neutrality_ext::<2, rm::Mat2<X>, cm::Mat2<X>, Vec2<X>>(s, if th { 5 } else { 3 }, ex, &ids!(rm::Mat2<X>), &ids!(cm::Mat2<X>));
        neutrality_ext::<3, rm::Mat3<X>, cm::Mat3<X>, Vec3<X>>(s, if th { 4 } else { 2 }, ex, &ids!(rm::Mat3<X>), &ids!(cm::Mat3<X>));
        neutrality_ext::<4, rm::Mat4<X>, cm::Mat4<X>, Vec4<X>>(s, if th { 3 } else { 2 }, ex, &ids!(rm::Mat4<X>), &ids!(cm::Mat4<X>));
        s.sample(json!({"map": "tiny-tiny", "A": "dense integers * 2^-60", "B": "dense integers * 2^-60", "law": "A*B == exact product (entries of size 2^-120), nothing is flushed to zero"}));
    });

    rep.section("element-wise and scalar operators on related operands; is_zero / is_one next to zero and identity",
        "left operand: 2 dense, 1 fractional, 2^-60 * dense, 2^60 * dense (every entry non-zero); right operand DERIVED from it: the same matrix, its negation, its transpose, one entry doubled, one entry negated, twice the matrix, all ones, all minus ones (9 matrix forms incl. / and %); scalars derived from it: a_00, -a_00, a_(N-1,0), a_(N-1,N-1), +-2^-60, 2^60, 2 (10 scalar forms); each element vs op(a_ij, b_ij) / op(a_ij, s) (the value section above uses three fixed right operands, so `self == rhs`, `self == -rhs`, `a_ij == s` never hold there); Zero::is_zero and One::is_one on zero / identity with ONE entry changed by 2^-60, -2^-60, 1 (every position), diagonal entries 0 / -1, skew pairs, all ones, -identity; the same operators once more on free terms with both operands the SAME term matrix, a scalar that is one of its entries, and the constant scalars 0, 1, 2 (where `==`, is_zero(), is_one() are true on terms); all products with identical and with transposed term operands expanded to polynomials; non-trivial: all", true, false, |s| {
        s.require_classes(&["dense", "fractional", "tiny", "huge", "equal-operands", "negated-operand", "transposed-operand", "one-entry-apart", "doubled-operand", "all-ones-operand",
            "scalar-equals-entry", "scalar-equals-negated-entry", "scalar-below-epsilon", "scalar-2^60", "scalar-two", "exact-zero", "exact-identity", "zero-plus-one-entry", "identity-plus-one-entry", "identity-diagonal-entry-changed", "identity-plus-skew-pair"]);
        ew_relational::<2, rm::Mat2<X>>(s, "row", |a, b| a.mul_memberwise(b)); ew_relational::<2, cm::Mat2<X>>(s, "col", |a, b| a.mul_memberwise(b));
        ew_relational::<3, rm::Mat3<X>>(s, "row", |a, b| a.mul_memberwise(b)); ew_relational::<3, cm::Mat3<X>>(s, "col", |a, b| a.mul_memberwise(b));
        ew_relational::<4, rm::Mat4<X>>(s, "row", |a, b| a.mul_memberwise(b)); ew_relational::<4, cm::Mat4<X>>(s, "col", |a, b| a.mul_memberwise(b));
        elementwise_equal!(s, 2, rm::Mat2<Term>, "row"); elementwise_equal!(s, 2, cm::Mat2<Term>, "col");
        elementwise_equal!(s, 3, rm::Mat3<Term>, "row"); elementwise_equal!(s, 3, cm::Mat3<Term>, "col");
        elementwise_equal!(s, 4, rm::Mat4<Term>, "row"); elementwise_equal!(s, 4, cm::Mat4<Term>, "col");
        sym_squares::<2, rm::Mat2<Term>, cm::Mat2<Term>>(s); sym_squares::<3, rm::Mat3<Term>, cm::Mat3<Term>>(s); sym_squares::<4, rm::Mat4<Term>, cm::Mat4<Term>>(s);
        s.sample(json!({"A": "[[3,-2],[5,-7]]", "B": "the same matrix", "law": "(A / B)[i][j] == 1 in EVERY position (not the identity matrix), (A % B) == 0, (A - B) == 0"}));
    });

    rep.section("scalar and element-wise operators at the primitive element types",
        "the 9 matrix forms (+ - / % mul_memberwise and the four assign twins) and the 10 scalar forms (+ - * / % and twins) of each of the 6 matrix types at i8, i16, i32, i64, i128, isize, u8, u16, u32, u64, u128, usize, f32, f64, Wrapping<i32>, Wrapping<u8>; neg at the signed ones; 2 left operands (|entries| 8..=11), right operands: 3 with |entries| 1..=7 and the left operand itself; scalars 1, 2, 3, 7 (-1, -2, -3 if signed); floats: the same integers * 1.1 (inexact quotients on purpose), Wrapping: integers * 17 / * 0x01010101 (products wrap); no result leaves the type (<= 121); oracle: the element type's OWN operator applied per element (integer division truncates, % keeps the dividend's sign, IEEE rounding for floats): `m / s` by reciprocal-multiply, or any other rewrite that is the identity over the rationals, differs here; non-trivial: all", true, false, |s| {
        let names = ["i8", "i16", "i32", "i64", "i128", "isize", "u8", "u16", "u32", "u64", "u128", "usize", "f32", "f64", "Wrapping<i32>", "Wrapping<u8>"];
        s.require_classes(&names);
        macro_rules! ewp { ($T:ty, $name:expr, $signed:expr, $mk:expr) => {{
            let mk = $mk;
            ew_prim::<$T, 2, rm::Mat2<$T>>(s, $name, "row", $signed, &mk, |a, b| a.mul_memberwise(b)); ew_prim::<$T, 2, cm::Mat2<$T>>(s, $name, "col", $signed, &mk, |a, b| a.mul_memberwise(b));
            ew_prim::<$T, 3, rm::Mat3<$T>>(s, $name, "row", $signed, &mk, |a, b| a.mul_memberwise(b)); ew_prim::<$T, 3, cm::Mat3<$T>>(s, $name, "col", $signed, &mk, |a, b| a.mul_memberwise(b));
            ew_prim::<$T, 4, rm::Mat4<$T>>(s, $name, "row", $signed, &mk, |a, b| a.mul_memberwise(b)); ew_prim::<$T, 4, cm::Mat4<$T>>(s, $name, "col", $signed, &mk, |a, b| a.mul_memberwise(b));
            s.class($name);
        }} }
        macro_rules! negp { ($T:ty, $name:expr, $mk:expr) => {{
            let mk = $mk;
            neg_prim::<$T, 2, rm::Mat2<$T>>(s, $name, "row", &mk); neg_prim::<$T, 2, cm::Mat2<$T>>(s, $name, "col", &mk);
            neg_prim::<$T, 3, rm::Mat3<$T>>(s, $name, "row", &mk); neg_prim::<$T, 3, cm::Mat3<$T>>(s, $name, "col", &mk);
            neg_prim::<$T, 4, rm::Mat4<$T>>(s, $name, "row", &mk); neg_prim::<$T, 4, cm::Mat4<$T>>(s, $name, "col", &mk);
        }} }
        ewp!(i8, "i8", true, |v: i32| v as i8); ewp!(i16, "i16", true, |v: i32| v as i16); ewp!(i32, "i32", true, |v: i32| v); ewp!(i64, "i64", true, |v: i32| v as i64);
        ewp!(i128, "i128", true, |v: i32| v as i128); ewp!(isize, "isize", true, |v: i32| v as isize);
        ewp!(u8, "u8", false, |v: i32| v as u8); ewp!(u16, "u16", false, |v: i32| v as u16); ewp!(u32, "u32", false, |v: i32| v as u32); ewp!(u64, "u64", false, |v: i32| v as u64);
        ewp!(u128, "u128", false, |v: i32| v as u128); ewp!(usize, "usize", false, |v: i32| v as usize);
        ewp!(f32, "f32", true, |v: i32| v as f32 * 1.1f32); ewp!(f64, "f64", true, |v: i32| v as f64 * 1.1f64);
        ewp!(Wrapping<i32>, "Wrapping<i32>", true, |v: i32| Wrapping(v.wrapping_mul(0x0101_0101))); ewp!(Wrapping<u8>, "Wrapping<u8>", false, |v: i32| Wrapping((v * 17) as u8));
        negp!(i8, "i8", |v: i32| v as i8); negp!(i16, "i16", |v: i32| v as i16); negp!(i32, "i32", |v: i32| v); negp!(i64, "i64", |v: i32| v as i64); negp!(i128, "i128", |v: i32| v as i128); negp!(isize, "isize", |v: i32| v as isize);
        negp!(f32, "f32", |v: i32| v as f32 * 1.1f32); negp!(f64, "f64", |v: i32| v as f64 * 1.1f64); negp!(Wrapping<i32>, "Wrapping<i32>", |v: i32| Wrapping(v.wrapping_mul(0x0101_0101)));
        s.sample(json!({"T": "i32", "A": "[[9,-11],[8,-10]]", "scalar": 2, "law": "(A / 2)[i][j] == A[i][j] / 2 in i32 arithmetic (4, -5, 4, -5), not A[i][j] * (1 / 2) == 0"}));
    });

    rep.section("products at the remaining primitive types, at the type bounds, and over the float range",
        "(a) the 10 product forms at i8, u16, i128, u128, isize, usize on integer images of L(2N^2, D) (D = 3/2/2 quick, 4/3/3 thorough; |entries| <= 5 for i8); (b) results AT the type bound for u8, i8, u16, i16, u32, i32, u64, i64: A has a, c in one row, B has b, d in one column with a*b + c*d = MAX (resp. MIN), same signs, all other entries 0, every position (i, j, k1 < k2): each defining product and each partial sum in any order lies between 0 and the bound, so the defining sums cannot overflow (overflow checks are on in this build) and (A*B)(i,j), (A*v)(i), (v*B)(j) must equal the bound; cases whose other entries would leave the type are skipped; (c) f32 / f64 with uniform power-of-two operand scalings (55,55), (-63,-63), (-70,-70), (55,-70) resp. (500,500), (-511,-511), (-530,-530), (500,-530): entries up to 2^59, results up to 2^120 (2^1010), down to the smallest normal and into the subnormals (2^-140 * k, 2^-1060 * k), each operand's squared length and the result representable, every intermediate exact -> bit-for-bit; non-trivial: all", true, false, |s| {
        s.require_classes(&["i8", "u16", "i128", "u128", "isize", "usize", "u8", "i16", "u32", "i32", "u64", "i64", "f32", "f64"]);
        let (d2, d3, d4) = if th { (4, 3, 3) } else { (3, 2, 2) };
        let small = |idx: usize, v: i64| -> i128 { ([1, -1, 2, -2, 1][idx % 5] + [-1, 1, -1, 1][idx % 4] * v) as i128 };
        let sdense = |idx: usize, v: i64| -> i128 { dense_i(idx, v) as i128 };
        let udense = |idx: usize, v: i64| -> i128 { (v + ((idx * 5 + idx / 3) % 3) as i64) as i128 };
        macro_rules! primi { ($T:ty, $name:expr, $img:expr) => {
            prim_products_img::<2, $T, rm::Mat2<$T>, cm::Mat2<$T>, Vec2<$T>>(s, d2, $name, &$img, &|v: i128| v as $T);
            prim_products_img::<3, $T, rm::Mat3<$T>, cm::Mat3<$T>, Vec3<$T>>(s, d3, $name, &$img, &|v: i128| v as $T);
            prim_products_img::<4, $T, rm::Mat4<$T>, cm::Mat4<$T>, Vec4<$T>>(s, d4, $name, &$img, &|v: i128| v as $T);
        } }
        primi!(i8, "i8", small); primi!(u16, "u16", udense); primi!(i128, "i128", sdense); primi!(u128, "u128", udense); primi!(isize, "isize", sdense); primi!(usize, "usize", udense);
        macro_rules! bound { ($T:ty, $name:expr) => {{
            let (lo, hi) = (<$T>::MIN as i128, <$T>::MAX as i128);
            // MAX = a*b + 1*1 with a*b = MAX - 1 (even): a = 2; and MAX = (MAX - 6) * 1 + 2 * 3; MIN = (MIN/2)*1 + (MIN/2)*1 = (MIN/4)*2 + (MIN/2)*1
            let mut cases: Vec<(i128, i128, i128, i128)> = vec![(2, (hi - 1) / 2, 1, 1), ((hi - 1) / 2, 2, 1, 1), (hi - 6, 1, 2, 3), (1, hi - 6, 3, 2), (hi, 1, 0, 0), (1, hi, 0, 0)];
            if lo < 0 { cases.extend([(lo / 2, 1, lo / 2, 1), (1, lo / 2, 1, lo / 2), (lo / 4, 2, 1, lo / 2), (lo, 1, 0, 0)]); }
            for c in &cases { assert!(c.0 * c.1 + c.2 * c.3 == hi || c.0 * c.1 + c.2 * c.3 == lo); }
            prim_bounds::<2, $T, rm::Mat2<$T>, cm::Mat2<$T>, Vec2<$T>>(s, $name, &cases, (lo, hi), &|v: i128| v as $T);
            prim_bounds::<3, $T, rm::Mat3<$T>, cm::Mat3<$T>, Vec3<$T>>(s, $name, &cases, (lo, hi), &|v: i128| v as $T);
            prim_bounds::<4, $T, rm::Mat4<$T>, cm::Mat4<$T>, Vec4<$T>>(s, $name, &cases, (lo, hi), &|v: i128| v as $T);
        }} }
        bound!(u8, "u8"); bound!(i8, "i8"); bound!(u16, "u16"); bound!(i16, "i16"); bound!(u32, "u32"); bound!(i32, "i32"); bound!(u64, "u64"); bound!(i64, "i64");
        let sc32: &[(i32, i32)] = &[(55, 55), (-63, -63), (-70, -70), (55, -70)];
        let sc64: &[(i32, i32)] = &[(500, 500), (-511, -511), (-530, -530), (500, -530)];
        prim_products::<2, f32, rm::Mat2<f32>, cm::Mat2<f32>, Vec2<f32>>(s, d2, "f32", true, &|v: i128, e: i32| ld32(v, e), sc32);
        prim_products::<3, f32, rm::Mat3<f32>, cm::Mat3<f32>, Vec3<f32>>(s, d3, "f32", true, &|v: i128, e: i32| ld32(v, e), sc32);
        prim_products::<4, f32, rm::Mat4<f32>, cm::Mat4<f32>, Vec4<f32>>(s, d4, "f32", true, &|v: i128, e: i32| ld32(v, e), sc32);
        prim_products::<2, f64, rm::Mat2<f64>, cm::Mat2<f64>, Vec2<f64>>(s, d2, "f64", true, &|v: i128, e: i32| ld64(v, e), sc64);
        prim_products::<3, f64, rm::Mat3<f64>, cm::Mat3<f64>, Vec3<f64>>(s, d3, "f64", true, &|v: i128, e: i32| ld64(v, e), sc64);
        prim_products::<4, f64, rm::Mat4<f64>, cm::Mat4<f64>, Vec4<f64>>(s, d4, "f64", true, &|v: i128, e: i32| ld64(v, e), sc64);
        s.sample(json!({"T": "u8", "A": "[[2,1],[0,0]]", "B": "[[127,0],[1,0]]", "law": "(A*B)[0][0] == 2*127 + 1*1 == 255 == u8::MAX without overflow, in all 10 forms"}));
    });

    rep.section("Vec4-as-2x2 helpers: structured and related operands, 2^-60 lattice images, remaining primitive types",
        "the six helpers (and the differential of the two plain ones against the real Mat2 products) on every ordered pair of the N=2 structured matrices read as Vec4 (equal operands included), on every structured a with b = adj(a) (A*adj(A) = det*I) and b = a^T, on the 'tiny-huge' and 'tiny-tiny' images of L(8, D) (D = 4 quick / 6 thorough); all six at i8, i16, i128, isize and the two plain products at u8, u16, u32, u64, usize (the adjugate forms subtract: negative results do not exist there) on integer images of L(8, 3) / L(8, 5); f32 / f64 with the scalings of the section above; non-trivial: both operands non-zero", true, false, |s| {
        s.require_classes(&["structured-pair", "equal-operands", "adjugate-operand", "transposed-operand", "tiny-huge", "tiny-tiny", "i8", "i16", "i128", "isize", "u8", "u16", "u32", "u64", "usize", "f32", "f64"]);
        let ms = structured::<2>();
        let flat = |m: &A<X, 2>| [m[0][0], m[0][1], m[1][0], m[1][1]];
        for (ma, _) in &ms {
            let a = flat(ma);
            for (mb, _) in &ms { let b = flat(mb); s.class(if a == b { "equal-operands" } else { "structured-pair" }); vec4_pair(s, &a, &b, "structured pair", support(ma) + support(mb)); }
            vec4_pair(s, &a, &[a[3], -a[1], -a[2], a[0]], "b = adjugate of a (rows)", 2 * support(ma)); s.class("adjugate-operand");
            vec4_pair(s, &a, &[a[3], -a[2], -a[1], a[0]], "b = adjugate of a (cols)", 2 * support(ma)); s.class("adjugate-operand");
            vec4_pair(s, &a, &[a[0], a[2], a[1], a[3]], "b = transpose of a", 2 * support(ma)); s.class("transposed-operand");
        }
        let d = if th { 6 } else { 4 };
        for map in 5..7usize {
            par_lattice_bal(8, d, |p| { let (a, b) = (vecm::<4>(map, &p[..4], 0, 0), vecm::<4>(map, &p[4..], 4, 1)); vec4_pair(s, &a, &b, MAPN[map], p.iter().sum::<i64>() as u64); });
            s.class_n(MAPN[map], lattice_count(8, d) as u64);
        }
        let dp = if th { 5 } else { 3 };
        let small = |idx: usize, v: i64| -> i128 { ([1, -1, 2, -2, 1][idx % 5] + [-1, 1, -1, 1][idx % 4] * v) as i128 };
        let sdense = |idx: usize, v: i64| -> i128 { dense_i(idx, v) as i128 };
        let udense = |idx: usize, v: i64| -> i128 { (v + ((idx * 5 + idx / 3) % 3) as i64) as i128 };
        vec4_prim_img::<i8>(s, dp, "i8", false, &small, &|v: i128| v as i8); vec4_prim_img::<i16>(s, dp, "i16", false, &sdense, &|v: i128| v as i16);
        vec4_prim_img::<i128>(s, dp, "i128", false, &sdense, &|v: i128| v); vec4_prim_img::<isize>(s, dp, "isize", false, &sdense, &|v: i128| v as isize);
        vec4_prim_img::<u8>(s, dp, "u8", true, &udense, &|v: i128| v as u8); vec4_prim_img::<u16>(s, dp, "u16", true, &udense, &|v: i128| v as u16);
        vec4_prim_img::<u32>(s, dp, "u32", true, &udense, &|v: i128| v as u32); vec4_prim_img::<u64>(s, dp, "u64", true, &udense, &|v: i128| v as u64);
        vec4_prim_img::<usize>(s, dp, "usize", true, &udense, &|v: i128| v as usize);
        vec4_prim::<f32>(s, dp, "f32", &|v: i128, e: i32| ld32(v, e), &[(55, 55), (-63, -63), (-70, -70), (55, -70)]);
        vec4_prim::<f64>(s, dp, "f64", &|v: i128, e: i32| ld64(v, e), &[(500, 500), (-511, -511), (-530, -530), (500, -530)]);
        s.sample(json!({"a": "[3,-2,5,-7]", "b": "the same vector", "law": "a.mat2_rows_mul_adj(a) == [det,0,0,det] with det = 3*(-7) - (-2)*5 = -11"}));
    });
    std::process::exit(rep.finish());
}
