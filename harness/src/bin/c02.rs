//! C02 — vector operators and reductions act element-wise on every vector type.
//!
//! Generic code is decided on pairwise distinct free `Term` generators (one run per configuration is
//! the most general input); the non-generic impls (scalar-on-the-left, bool/int/float reduce_and/or)
//! and everything that needs an order (`min/max/cmp*`) are enumerated on concrete lanes.
//! Inputs are built with struct literals and results decoded by field access (`Lanes`).
#![allow(clippy::all)]
use std::fmt::Debug;
use std::num::Wrapping;
use vek::vec::repr_c::*;
use vx::term::Term;
use vx::*;

// ------------------------------------------------------------------------------------------------
// field-level build / decode for all 13 vector types
// ------------------------------------------------------------------------------------------------
trait Lanes<T>: Sized { fn mk(a: &[T]) -> Self; fn de(&self) -> Vec<T>; }
macro_rules! lanes_struct { ($V:ident, $n:expr, $($f:ident)+) => {
    impl<T: Clone> Lanes<T> for $V<T> {
        fn mk(a: &[T]) -> Self { assert_eq!(a.len(), $n); let mut it = a.iter().cloned(); $V { $($f: it.next().unwrap()),+ } }
        fn de(&self) -> Vec<T> { vec![$(self.$f.clone()),+] }
    }
} }
macro_rules! lanes_tuple { ($V:ident, $n:expr, $($i:tt)+) => {
    impl<T: Clone> Lanes<T> for $V<T> {
        fn mk(a: &[T]) -> Self { assert_eq!(a.len(), $n); $V($(a[$i].clone()),+) }
        fn de(&self) -> Vec<T> { vec![$(self.$i.clone()),+] }
    }
} }
lanes_struct!(Vec2, 2, x y); lanes_struct!(Vec3, 3, x y z); lanes_struct!(Vec4, 4, x y z w);
lanes_struct!(Extent2, 2, w h); lanes_struct!(Extent3, 3, w h d);
lanes_struct!(Rgb, 3, r g b); lanes_struct!(Rgba, 4, r g b a);
lanes_struct!(Uv, 2, u v); lanes_struct!(Uvw, 3, u v w);
lanes_tuple!(Vec8, 8, 0 1 2 3 4 5 6 7);
lanes_tuple!(Vec16, 16, 0 1 2 3 4 5 6 7 8 9 10 11 12 13 14 15);
lanes_tuple!(Vec32, 32, 0 1 2 3 4 5 6 7 8 9 10 11 12 13 14 15 16 17 18 19 20 21 22 23 24 25 26 27 28 29 30 31);
lanes_tuple!(Vec64, 64, 0 1 2 3 4 5 6 7 8 9 10 11 12 13 14 15 16 17 18 19 20 21 22 23 24 25 26 27 28 29 30 31 32 33 34 35 36 37 38 39 40 41 42 43 44 45 46 47 48 49 50 51 52 53 54 55 56 57 58 59 60 61 62 63);

/// expands `$cb!($s, Type, "Type", N, spatial|plain, [tuple indices])` for each of the 13 vector types
macro_rules! for_all_vecs { ($cb:ident, $s:expr) => {
    $cb!($s, Vec2, "Vec2", 2, spatial, [0 1]);
    $cb!($s, Vec3, "Vec3", 3, spatial, [0 1 2]);
    $cb!($s, Vec4, "Vec4", 4, spatial, [0 1 2 3]);
    $cb!($s, Vec8, "Vec8", 8, spatial, [0 1 2 3 4 5 6 7]);
    $cb!($s, Vec16, "Vec16", 16, spatial, [0 1 2 3 4 5 6 7 8 9 10 11 12 13 14 15]);
    $cb!($s, Vec32, "Vec32", 32, spatial, [0 1 2 3 4 5 6 7 8 9 10 11 12 13 14 15 16 17 18 19 20 21 22 23 24 25 26 27 28 29 30 31]);
    $cb!($s, Vec64, "Vec64", 64, spatial, [0 1 2 3 4 5 6 7 8 9 10 11 12 13 14 15 16 17 18 19 20 21 22 23 24 25 26 27 28 29 30 31 32 33 34 35 36 37 38 39 40 41 42 43 44 45 46 47 48 49 50 51 52 53 54 55 56 57 58 59 60 61 62 63]);
    $cb!($s, Extent2, "Extent2", 2, spatial, [0 1]);
    $cb!($s, Extent3, "Extent3", 3, spatial, [0 1 2]);
    $cb!($s, Rgb, "Rgb", 3, plain, [0 1 2]);
    $cb!($s, Rgba, "Rgba", 4, plain, [0 1 2 3]);
    $cb!($s, Uv, "Uv", 2, plain, [0 1]);
    $cb!($s, Uvw, "Uvw", 3, plain, [0 1 2]);
} }
const ALL_TYPES: [&str; 13] = ["Vec2", "Vec3", "Vec4", "Vec8", "Vec16", "Vec32", "Vec64", "Extent2", "Extent3", "Rgb", "Rgba", "Uv", "Uvw"];
macro_rules! if_spatial { (spatial, $b:block) => { $b }; (plain, $b:block) => {}; }

// ------------------------------------------------------------------------------------------------
// helpers (non-generic where possible: keeps monomorphisation small)
// ------------------------------------------------------------------------------------------------
fn vars(off: u32, n: usize) -> Vec<Term> { (0..n).map(|i| Term::var(off + i as u32)).collect() }
fn sorted(mut v: Vec<Term>) -> Vec<Term> { v.sort(); v }

/// one evaluation of configuration `site` of type `ty`: every lane of `got` must equal `want`
#[inline(never)]
fn lanes_eq<T: PartialEq + Debug>(s: &Section, ty: &str, site: &str, got: Result<Vec<T>, Caught>, want: &[T]) {
    s.eval(true);
    s.class(ty);
    match got {
        Ok(g) => {
            if g.len() != want.len() { s.violation(site, "wrong-length", json!({"got": jd(&g), "want": jd(&want)})); return; }
            for i in 0..want.len() { if g[i] != want[i] {
                s.violation_w(site, "wrong-lane", json!({"lane": i, "got": jd(&g[i]), "want": jd(&want[i]), "all_got": jd(&g)}), i as u64); return; } }
        }
        Err(Caught::Unmodelled(w)) => s.unmodelled(w),
        Err(Caught::Panic(m)) => s.violation(site, "panic", json!({"panic": m})),
    }
}
/// scalar result
#[inline(never)]
fn scalar_eq<T: PartialEq + Debug>(s: &Section, ty: &str, site: &str, input: &dyn Fn() -> Value, got: Result<T, Caught>, want: &T, weight: u64) {
    s.eval(true);
    s.class(ty);
    match got {
        Ok(g) => if &g != want { s.violation_w(site, "wrong-value", json!({"input": input(), "got": jd(&g), "want": jd(want)}), weight); },
        Err(Caught::Unmodelled(w)) => s.unmodelled(w),
        Err(Caught::Panic(m)) => s.violation(site, "panic", json!({"input": input(), "panic": m})),
    }
}
/// result must be a tree of the AC operator `op` over exactly the multiset `want` of leaves
/// (neutral seeds `neutral` may appear any number of times)
#[inline(never)]
fn ac_eq(s: &Section, ty: &str, site: &str, op: &'static str, neutral: Option<Term>, got: Result<Term, Caught>, want: &[Term]) {
    s.eval(true);
    s.class(ty);
    match got {
        Ok(t) => {
            let mut l = t.ac_leaves(op);
            if let Some(z) = neutral { l.retain(|x| *x != z); }
            if l != sorted(want.to_vec()) { s.violation(site, "wrong-operands", json!({"got_term": jd(&t), "want_leaves_of": op, "want": jd(&want)})); }
        }
        Err(Caught::Unmodelled(w)) => s.unmodelled(w),
        Err(Caught::Panic(m)) => s.violation(site, "panic", json!({"panic": m})),
    }
}
/// per-lane AC comparison (lane i must be an `op`-tree over want[i])
#[inline(never)]
fn ac_lanes_eq(s: &Section, ty: &str, site: &str, op: &'static str, neutral: Option<Term>, got: Result<Vec<Term>, Caught>, want: &[Vec<Term>]) {
    s.eval(true);
    s.class(ty);
    match got {
        Ok(g) => {
            if g.len() != want.len() { s.violation(site, "wrong-length", json!({"got": jd(&g)})); return; }
            for i in 0..want.len() {
                let mut l = g[i].ac_leaves(op);
                if let Some(z) = neutral { l.retain(|x| *x != z); }
                if l != sorted(want[i].clone()) { s.violation_w(site, "wrong-lane", json!({"lane": i, "got_term": jd(&g[i]), "want_leaves_of": op, "want": jd(&want[i])}), i as u64); return; }
            }
        }
        Err(Caught::Unmodelled(w)) => s.unmodelled(w),
        Err(Caught::Panic(m)) => s.violation(site, "panic", json!({"panic": m})),
    }
}

// ------------------------------------------------------------------------------------------------
// 1. operators on free terms
// ------------------------------------------------------------------------------------------------
macro_rules! binops_ty { ($s:expr, $V:ident, $name:literal, $N:expr, $kind:ident, [$($i:tt)+]) => {{
    #[inline(never)]
    fn run(s: &Section) {
        const N: usize = $N;
        let (ta, tb, sc) = (vars(0, N), vars(100, N), Term::var(999));
        let (a, b) = (<$V<Term>>::mk(&ta), <$V<Term>>::mk(&tb));
        macro_rules! one { ($op:tt, $sym:literal, $tn:literal) => {{
            let wv: Vec<Term> = (0..N).map(|i| Term::bin($tn, ta[i], tb[i])).collect();
            let ws: Vec<Term> = (0..N).map(|i| Term::bin($tn, ta[i], sc)).collect();
            lanes_eq(s, $name, concat!($name, " ", $sym, " V∘V"), catch(|| (a $op b).de()), &wv);
            lanes_eq(s, $name, concat!($name, " ", $sym, " V∘&V"), catch(|| (a $op &b).de()), &wv);
            lanes_eq(s, $name, concat!($name, " ", $sym, " &V∘V"), catch(|| (&a $op b).de()), &wv);
            lanes_eq(s, $name, concat!($name, " ", $sym, " &V∘&V"), catch(|| (&a $op &b).de()), &wv);
            lanes_eq(s, $name, concat!($name, " ", $sym, " V∘T"), catch(|| (a $op sc).de()), &ws);
            lanes_eq(s, $name, concat!($name, " ", $sym, " &V∘T"), catch(|| (&a $op sc).de()), &ws);
            lanes_eq(s, $name, concat!($name, " ", $sym, " &V∘&T"), catch(|| (&a $op &sc).de()), &ws);
        }} }
        one!(+, "Add", "add"); one!(-, "Sub", "sub"); one!(*, "Mul", "mul"); one!(/, "Div", "div"); one!(%, "Rem", "rem");
        one!(<<, "Shl", "shl"); one!(>>, "Shr", "shr"); one!(&, "BitAnd", "and"); one!(|, "BitOr", "or"); one!(^, "BitXor", "xor");
        if s.wants_sample() { s.sample(json!({"type": $name, "form": "&V∘&T, operator Shl", "a": jd(&ta), "scalar": jd(&sc), "result_decoded_through_fields": jd(&(&a << &sc).de())})); }
    }
    run($s);
}} }

macro_rules! assign_ty { ($s:expr, $V:ident, $name:literal, $N:expr, $kind:ident, [$($i:tt)+]) => {{
    #[inline(never)]
    fn run(s: &Section) {
        const N: usize = $N;
        let (ta, tb, sc) = (vars(0, N), vars(100, N), Term::var(999));
        let (a, b) = (<$V<Term>>::mk(&ta), <$V<Term>>::mk(&tb));
        macro_rules! one { ($op:tt, $sym:literal, $tn:literal) => {{
            let wv: Vec<Term> = (0..N).map(|i| Term::bin($tn, ta[i], tb[i])).collect();
            let ws: Vec<Term> = (0..N).map(|i| Term::bin($tn, ta[i], sc)).collect();
            lanes_eq(s, $name, concat!($name, " ", $sym, " V∘=V"), catch(|| { let mut m = a; m $op b; m.de() }), &wv);
            lanes_eq(s, $name, concat!($name, " ", $sym, " V∘=T"), catch(|| { let mut m = a; m $op sc; m.de() }), &ws);
        }} }
        one!(+=, "AddAssign", "add"); one!(-=, "SubAssign", "sub"); one!(*=, "MulAssign", "mul"); one!(/=, "DivAssign", "div"); one!(%=, "RemAssign", "rem");
        one!(<<=, "ShlAssign", "shl"); one!(>>=, "ShrAssign", "shr"); one!(&=, "BitAndAssign", "and"); one!(|=, "BitOrAssign", "or"); one!(^=, "BitXorAssign", "xor");
        if s.wants_sample() { s.sample(json!({"type": $name, "form": "m -= scalar", "m": jd(&ta), "scalar": jd(&sc), "result": jd(&{ let mut m = a; m -= sc; m.de() })})); }
    }
    run($s);
}} }

macro_rules! unary_fma_ty { ($s:expr, $V:ident, $name:literal, $N:expr, $kind:ident, [$($i:tt)+]) => {{
    #[inline(never)]
    fn run(s: &Section) {
        use vek::ops::MulAdd;
        const N: usize = $N;
        let (ta, tb, tc, s1, s2) = (vars(0, N), vars(100, N), vars(200, N), Term::var(998), Term::var(999));
        let (a, b, c) = (<$V<Term>>::mk(&ta), <$V<Term>>::mk(&tb), <$V<Term>>::mk(&tc));
        let un = |n: &'static str| -> Vec<Term> { (0..N).map(|i| Term::un(n, ta[i])).collect() };
        lanes_eq(s, $name, concat!($name, " Neg"), catch(|| (-a).de()), &un("neg"));
        lanes_eq(s, $name, concat!($name, " Not"), catch(|| (!a).de()), &un("not"));
        let fma = |m: &dyn Fn(usize) -> Term, d: &dyn Fn(usize) -> Term| -> Vec<Term> { (0..N).map(|i| Term::tri("fma", ta[i], m(i), d(i))).collect() };
        let w = fma(&|i| tb[i], &|i| tc[i]);
        lanes_eq(s, $name, concat!($name, " MulAdd V.(V,V)"), catch(|| MulAdd::mul_add(a, b, c).de()), &w);
        lanes_eq(s, $name, concat!($name, " MulAdd &V.(V,V)"), catch(|| MulAdd::mul_add(&a, b, c).de()), &w);
        lanes_eq(s, $name, concat!($name, " MulAdd V.(V,&V)"), catch(|| MulAdd::mul_add(a, b, &c).de()), &w);
        lanes_eq(s, $name, concat!($name, " MulAdd &V.(V,&V)"), catch(|| MulAdd::mul_add(&a, b, &c).de()), &w);
        lanes_eq(s, $name, concat!($name, " MulAdd V.(&V,V)"), catch(|| MulAdd::mul_add(a, &b, c).de()), &w);
        lanes_eq(s, $name, concat!($name, " MulAdd &V.(&V,V)"), catch(|| MulAdd::mul_add(&a, &b, c).de()), &w);
        lanes_eq(s, $name, concat!($name, " MulAdd V.(&V,&V)"), catch(|| MulAdd::mul_add(a, &b, &c).de()), &w);
        lanes_eq(s, $name, concat!($name, " MulAdd &V.(&V,&V)"), catch(|| MulAdd::mul_add(&a, &b, &c).de()), &w);
        lanes_eq(s, $name, concat!($name, " mul_add(V,V)"), catch(|| a.mul_add(b, c).de()), &w);
        lanes_eq(s, $name, concat!($name, " mul_add(T,V)"), catch(|| a.mul_add(s1, c).de()), &fma(&|_| s1, &|i| tc[i]));
        lanes_eq(s, $name, concat!($name, " mul_add(V,T)"), catch(|| a.mul_add(b, s2).de()), &fma(&|i| tb[i], &|_| s2));
        lanes_eq(s, $name, concat!($name, " mul_add(T,T)"), catch(|| a.mul_add(s1, s2).de()), &fma(&|_| s1, &|_| s2));
        if s.wants_sample() { s.sample(json!({"type": $name, "form": "MulAdd::mul_add(&a, &b, c)", "lane0": jd(&MulAdd::mul_add(&a, &b, c).de()[0]), "lane_last": jd(&MulAdd::mul_add(&a, &b, c).de()[N - 1])})); }
    }
    run($s);
}} }

// ------------------------------------------------------------------------------------------------
// 2. reductions on free terms
// ------------------------------------------------------------------------------------------------
/// mul is commutative in the textbook definition of dot: canonicalise operand order of a product leaf
fn canon_mul(t: Term) -> Term { match t.node() { vx::term::Node::Bin("mul", x, y) if y < x => Term::bin("mul", y, x), _ => t } }
#[inline(never)]
fn dot_eq(s: &Section, ty: &str, site: &str, got: Result<Term, Caught>, a: &[Term], b: &[Term]) {
    s.eval(true);
    s.class(ty);
    match got {
        Ok(t) => {
            let l = sorted(t.ac_leaves("add").into_iter().map(canon_mul).collect());
            let w = sorted((0..a.len()).map(|i| canon_mul(Term::bin("mul", a[i], b[i]))).collect());
            if l != w { s.violation(site, "wrong-operands", json!({"got_term": jd(&t), "want": "sum over i of a_i*b_i", "a": jd(&a), "b": jd(&b)})); }
        }
        Err(Caught::Unmodelled(w)) => s.unmodelled(w),
        Err(Caught::Panic(m)) => s.violation(site, "panic", json!({"panic": m})),
    }
}

macro_rules! reductions_ty { ($s:expr, $V:ident, $name:literal, $N:expr, $kind:ident, [$($i:tt)+]) => {{
    #[inline(never)]
    fn run(s: &Section) {
        const N: usize = $N;
        let (ta, tb, tc) = (vars(0, N), vars(100, N), vars(200, N));
        let (a, b, c) = (<$V<Term>>::mk(&ta), <$V<Term>>::mk(&tb), <$V<Term>>::mk(&tc));
        ac_eq(s, $name, concat!($name, " sum"), "add", None, catch(|| a.sum()), &ta);
        ac_eq(s, $name, concat!($name, " product"), "mul", None, catch(|| a.product()), &ta);
        ac_eq(s, $name, concat!($name, " reduce_bitand"), "and", None, catch(|| a.reduce_bitand()), &ta);
        ac_eq(s, $name, concat!($name, " reduce_bitor"), "or", None, catch(|| a.reduce_bitor()), &ta);
        ac_eq(s, $name, concat!($name, " reduce_bitxor"), "xor", None, catch(|| a.reduce_bitxor()), &ta);
        // average = div(sum, N)
        {
            s.eval(true); s.class($name);
            let site = concat!($name, " average");
            match catch(|| a.average()) {
                Ok(t) => match t.node() {
                    vx::term::Node::Bin("div", num, den) if den == Term::cst(N as i64) && num.ac_leaves("add") == sorted(ta.clone()) => {}
                    _ => s.violation(site, "wrong-value", json!({"got_term": jd(&t), "want": format!("div(sum of the {} lanes, {})", N, N)})),
                },
                Err(e) => s.violation(site, "panic", json!({"error": jd(&e)})),
            }
        }
        // user fold with a non-commutative, non-associative uninterpreted f: left fold in element order
        let want_fold = ta[1..].iter().fold(ta[0], |acc, x| Term::bin("f", acc, *x));
        scalar_eq(s, $name, concat!($name, " reduce(f)"), &|| json!({"lanes": jd(&ta)}), catch(|| a.reduce(|x, y| Term::bin("f", x, y))), &want_fold, 0);
        // hadd: adjacent pairs of the concatenation self ++ rhs
        let cat: Vec<Term> = ta.iter().chain(tb.iter()).copied().collect();
        let want_h: Vec<Vec<Term>> = (0..N).map(|i| vec![cat[2 * i], cat[2 * i + 1]]).collect();
        ac_lanes_eq(s, $name, concat!($name, " hadd"), "add", None, catch(|| a.hadd(b).de()), &want_h);
        // Sum / Product over 0, 1, 3 vectors
        let vs = [a, b, c]; let ts = [&ta, &tb, &tc];
        for k in [0usize, 1, 3] {
            let want: Vec<Vec<Term>> = (0..N).map(|i| (0..k).map(|j| ts[j][i]).collect()).collect();
            ac_lanes_eq(s, $name, &format!("{} Sum over {} vectors", $name, k), "add", Some(Term::cst(0)), catch(|| vs[..k].iter().copied().sum::<$V<Term>>().de()), &want);
            ac_lanes_eq(s, $name, &format!("{} Product over {} vectors", $name, k), "mul", Some(Term::cst(1)), catch(|| vs[..k].iter().copied().product::<$V<Term>>().de()), &want);
        }
        if_spatial!($kind, {
            dot_eq(s, $name, concat!($name, " dot"), catch(|| a.dot(b)), &ta, &tb);
            dot_eq(s, $name, concat!($name, " magnitude_squared"), catch(|| a.magnitude_squared()), &ta, &ta);
        });
        if s.wants_sample() { s.sample(json!({"type": $name, "lanes": jd(&ta), "reduce(f)": jd(&a.reduce(|x, y| Term::bin("f", x, y))), "hadd(b) lane 0": jd(&a.hadd(b).de()[0]), "average": jd(&a.average())})); }
    }
    run($s);
}} }

// ------------------------------------------------------------------------------------------------
// 3. map / apply / zip, constructors, conversions, iteration order
// ------------------------------------------------------------------------------------------------
macro_rules! map_ty { ($s:expr, $V:ident, $name:literal, $N:expr, $kind:ident, [$($i:tt)+]) => {{
    #[inline(never)]
    fn run(s: &Section) {
        const N: usize = $N;
        let (ta, tb) = (vars(0, N), vars(100, N));
        let ks: Vec<u32> = (0..N as u32).map(|i| 1000 + 7 * i).collect();
        let (a, b, k) = (<$V<Term>>::mk(&ta), <$V<Term>>::mk(&tb), <$V<u32>>::mk(&ks));
        let g = |x: Term| Term::un("g", x);
        let h = |x: Term, n: u32| Term::bin("h", x, Term::cst(n as i64));
        let h3 = |x: Term, n: u32, y: Term| Term::tri("h3", x, Term::cst(n as i64), y);
        lanes_eq(s, $name, concat!($name, " map"), catch(|| a.map(|x| (g(x), x)).de()), &(0..N).map(|i| (g(ta[i]), ta[i])).collect::<Vec<_>>());
        lanes_eq(s, $name, concat!($name, " map2"), catch(|| a.map2(k, |x, n| (x, n)).de()), &(0..N).map(|i| (ta[i], ks[i])).collect::<Vec<_>>());
        lanes_eq(s, $name, concat!($name, " map3"), catch(|| a.map3(k, b, |x, n, y| (x, n, y)).de()), &(0..N).map(|i| (ta[i], ks[i], tb[i])).collect::<Vec<_>>());
        lanes_eq(s, $name, concat!($name, " zip"), catch(|| a.zip(k).de()), &(0..N).map(|i| (ta[i], ks[i])).collect::<Vec<_>>());
        lanes_eq(s, $name, concat!($name, " apply"), catch(|| { let mut m = a; m.apply(g); m.de() }), &(0..N).map(|i| g(ta[i])).collect::<Vec<_>>());
        lanes_eq(s, $name, concat!($name, " apply2"), catch(|| { let mut m = a; m.apply2(k, h); m.de() }), &(0..N).map(|i| h(ta[i], ks[i])).collect::<Vec<_>>());
        lanes_eq(s, $name, concat!($name, " apply3"), catch(|| { let mut m = a; m.apply3(k, b, h3); m.de() }), &(0..N).map(|i| h3(ta[i], ks[i], tb[i])).collect::<Vec<_>>());
        if s.wants_sample() { s.sample(json!({"type": $name, "a.map3(k, b, |x,n,y| (x,n,y))": jd(&a.map3(k, b, |x, n, y| (x, n, y)).de())})); }
    }
    run($s);
}} }

/// all integers appearing in a `Display` rendering, in order
fn ints_in(text: &str) -> Vec<i32> {
    text.split(|c: char| !(c.is_ascii_digit() || c == '-')).filter(|t| !t.is_empty()).filter_map(|t| t.parse().ok()).collect()
}

macro_rules! ctor_ty { ($s:expr, $V:ident, $name:literal, $N:expr, $kind:ident, [$($i:tt)+]) => {{
    #[inline(never)]
    fn run(s: &Section) {
        const N: usize = $N;
        let ta = vars(0, N);
        let a = <$V<Term>>::mk(&ta);
        let sc = Term::var(999);
        lanes_eq(s, $name, concat!($name, " broadcast"), catch(|| <$V<Term>>::broadcast(sc).de()), &vec![sc; N]);
        lanes_eq(s, $name, concat!($name, " From<T>"), catch(|| <$V<Term>>::from(sc).de()), &vec![sc; N]);
        lanes_eq(s, $name, concat!($name, " zero"), catch(|| <$V<Term>>::zero().de()), &vec![Term::cst(0); N]);
        lanes_eq(s, $name, concat!($name, " one"), catch(|| <$V<Term>>::one().de()), &vec![Term::cst(1); N]);
        lanes_eq(s, $name, concat!($name, " Zero::zero"), catch(|| <$V<Term> as num_traits::Zero>::zero().de()), &vec![Term::cst(0); N]);
        lanes_eq(s, $name, concat!($name, " One::one"), catch(|| <$V<Term> as num_traits::One>::one().de()), &vec![Term::cst(1); N]);
        lanes_eq(s, $name, concat!($name, " iota<i32>"), catch(|| <$V<i32>>::iota().de()), &(0..N as i32).collect::<Vec<_>>());
        lanes_eq(s, $name, concat!($name, " iota<u8>"), catch(|| <$V<u8>>::iota().de()), &(0..N as u8).collect::<Vec<_>>());
        lanes_eq(s, $name, concat!($name, " elem_count/ELEM_COUNT"), catch(|| vec![<$V<u8>>::iota().elem_count(), <$V<u8>>::ELEM_COUNT, <$V<i32>>::iota().as_slice().len()]), &vec![N, N, N]);
        // tuples and arrays (built / decoded positionally in the check)
        lanes_eq(s, $name, concat!($name, " From<tuple>"), catch(|| <$V<Term>>::from(($(ta[$i]),+)).de()), &ta);
        lanes_eq(s, $name, concat!($name, " into_tuple"), catch(|| { let t = a.into_tuple(); vec![$(t.$i),+] }), &ta);
        lanes_eq(s, $name, concat!($name, " From<[T;N]>"), catch(|| <$V<Term>>::from([$(ta[$i]),+]).de()), &ta);
        lanes_eq(s, $name, concat!($name, " into_array"), catch(|| a.into_array().to_vec()), &ta);
        lanes_eq(s, $name, concat!($name, " as_slice"), catch(|| a.as_slice().to_vec()), &ta);
        lanes_eq(s, $name, concat!($name, " as_mut_slice"), catch(|| { let mut m = a; let l = m.as_mut_slice(); for (i, e) in l.iter_mut().enumerate() { *e = Term::bin("w", *e, Term::cst(i as i64)); } m.de() }), &(0..N).map(|i| Term::bin("w", ta[i], Term::cst(i as i64))).collect::<Vec<_>>());
        lanes_eq(s, $name, concat!($name, " iter"), catch(|| a.iter().copied().collect::<Vec<_>>()), &ta);
        lanes_eq(s, $name, concat!($name, " into_iter"), catch(|| a.into_iter().collect::<Vec<_>>()), &ta);
        lanes_eq(s, $name, concat!($name, " into_iter().rev()"), catch(|| a.into_iter().rev().collect::<Vec<_>>()), &ta.iter().rev().copied().collect::<Vec<_>>());
        lanes_eq(s, $name, concat!($name, " &V into_iter"), catch(|| (&a).into_iter().copied().collect::<Vec<_>>()), &ta);
        lanes_eq(s, $name, concat!($name, " index"), catch(|| (0..N).map(|i| a[i]).collect::<Vec<_>>()), &ta);
        // from_iter / from_slice for every length 0..=N+2: prefix in order, rest Default
        let src = vars(300, N + 2);
        for len in 0..=N + 2 {
            let want: Vec<Term> = (0..N).map(|i| if i < len { src[i] } else { Term::default() }).collect();
            lanes_eq(s, $name, concat!($name, " from_iter"), catch(|| src[..len].iter().copied().collect::<$V<Term>>().de()), &want);
            lanes_eq(s, $name, concat!($name, " from_slice"), catch(|| <$V<Term>>::from_slice(&src[..len]).de()), &want);
            // sources whose size_hint is not exact: a filter (lower bound 0), a chain of an exact and a filtered part, from_fn (0, None),
            // and an unbounded source cut by take_while - the i-th yielded item still goes to position i
            lanes_eq(s, $name, concat!($name, " from_iter(filter: size_hint lower bound 0)"), catch(|| src[..len].iter().copied().filter(|_| true).collect::<$V<Term>>().de()), &want);
            lanes_eq(s, $name, concat!($name, " from_iter(chain of exact and filtered parts)"), catch(|| { let h = len / 2; src[..h].iter().copied().chain(src[h..len].iter().copied().filter(|_| true)).collect::<$V<Term>>().de() }), &want);
            lanes_eq(s, $name, concat!($name, " from_iter(from_fn: size_hint (0, None))"), catch(|| { let mut i = 0usize; std::iter::from_fn(|| { let r = if i < len { Some(src[i]) } else { None }; i += 1; r }).collect::<$V<Term>>().de() }), &want);
            lanes_eq(s, $name, concat!($name, " from_iter(unbounded source, take_while)"), catch(|| (0usize..).take_while(|&i| i < len).map(|i| src[i]).collect::<$V<Term>>().de()), &want);
        }
        // Display lists the elements in order
        let vals: Vec<i32> = (0..N as i32).map(|i| 37 * i - 50).collect();
        lanes_eq(s, $name, concat!($name, " Display"), catch(|| ints_in(&format!("{}", <$V<i32>>::mk(&vals)))), &vals);
        if s.wants_sample() { s.sample(json!({"type": $name, "lanes": vals, "Display": format!("{}", <$V<i32>>::mk(&vals)), "from_iter(1 element)": jd(&src[..1].iter().copied().collect::<$V<Term>>().de())})); }
    }
    run($s);
}} }

// ------------------------------------------------------------------------------------------------
// 4. non-generic impls on concrete primitives
// ------------------------------------------------------------------------------------------------
trait Prim: Copy + Debug + PartialEq + Send + Sync + 'static {
    const NAME: &'static str;
    const BITS8: bool;
    fn same(self, o: Self) -> bool;
    fn cadd(self, o: Self) -> Option<Self>;
    fn cmul(self, o: Self) -> Option<Self>;
    fn alphabet(thorough: bool) -> Vec<Self>;
    fn zeros() -> Vec<Self>;
    fn nonzeros() -> Vec<Self>;
    /// -1 (2 when unsigned), 0, 1
    fn small(k: i64) -> Self;
    fn is_zero_ref(self) -> bool;
    fn mag(self) -> u64;
    /// pairs of non-zero values that cancel under some fold (sum, wrapping sum, xor, and, product, float underflow)
    fn cancel_pairs() -> Vec<(Self, Self)>;
}
macro_rules! prim_int { ($($P:ident $signed:expr),+) => { $(
    impl Prim for $P {
        const NAME: &'static str = stringify!($P);
        const BITS8: bool = std::mem::size_of::<$P>() == 1;
        fn same(self, o: Self) -> bool { self == o }
        fn cadd(self, o: Self) -> Option<Self> { self.checked_add(o) }
        fn cmul(self, o: Self) -> Option<Self> { self.checked_mul(o) }
        fn alphabet(thorough: bool) -> Vec<Self> {
            if Self::BITS8 { return (<$P>::MIN..=<$P>::MAX).collect(); }
            let mut v: Vec<$P> = vec![<$P>::MIN, <$P>::MIN + 1, <$P>::MIN / 2, 0, 1, 2, 3, 7, <$P>::MAX / 3, <$P>::MAX / 2, <$P>::MAX - 1, <$P>::MAX];
            if $signed { v.extend([Self::small(-1), Self::small(-1) + Self::small(-1), <$P>::MIN / 3]); }
            if thorough { for k in 0..(std::mem::size_of::<$P>() * 8 - 1) { let p: $P = 1 << k; v.extend([p, p - 1, p + 1]); if $signed { v.extend([(0 as $P).wrapping_sub(p), (0 as $P).wrapping_sub(p) + 1]); } } }
            v.sort(); v.dedup(); v
        }
        fn zeros() -> Vec<Self> { vec![0] }
        fn nonzeros() -> Vec<Self> { let mut v = vec![1, 2, <$P>::MAX, <$P>::MAX / 2 + 1]; if $signed { v.push(Self::small(-1)); v.push(<$P>::MIN); } v }
        fn small(k: i64) -> Self { if k < 0 { if $signed { (0 as $P).wrapping_sub(1) } else { 2 } } else { k as $P } }
        fn is_zero_ref(self) -> bool { self == 0 }
        fn mag(self) -> u64 { (self as i128).unsigned_abs().min(u64::MAX as u128) as u64 }
        fn cancel_pairs() -> Vec<(Self, Self)> {
            let h: $P = (1 as $P) << (std::mem::size_of::<$P>() * 4);          // h * h wraps to zero
            let top: $P = <$P>::MAX / 2 + 1;                                     // unsigned: top + top wraps to zero
            let mut v: Vec<($P, $P)> = vec![(1, <$P>::MAX), (5, 5), (1, 2), (h, h), (top, top), (<$P>::MAX, <$P>::MAX)];
            if $signed { v.extend([(1, Self::small(-1)), (<$P>::MAX, <$P>::MIN + 1), (<$P>::MIN, <$P>::MIN), (Self::small(-1), Self::small(-1))]); }
            v
        }
    }
)+ } }
prim_int!(i8 true, u8 false, i16 true, u16 false, i32 true, u32 false, i64 true, u64 false);
macro_rules! prim_float { ($($P:ident),+) => { $(
    impl Prim for $P {
        const NAME: &'static str = stringify!($P);
        const BITS8: bool = false;
        fn same(self, o: Self) -> bool { (self.is_nan() && o.is_nan()) || self.to_bits() == o.to_bits() }
        fn cadd(self, o: Self) -> Option<Self> { Some(self + o) }
        fn cmul(self, o: Self) -> Option<Self> { Some(self * o) }
        fn alphabet(_thorough: bool) -> Vec<Self> { vec![0.0, -0.0, 1.0, -1.0, 0.5, 3.0, -2.5, 0.1, 1e30, <$P>::MIN_POSITIVE, <$P>::EPSILON, <$P>::MAX, <$P>::MIN, <$P>::INFINITY, <$P>::NEG_INFINITY, <$P>::NAN] }
        fn zeros() -> Vec<Self> { vec![0.0, -0.0] }
        fn nonzeros() -> Vec<Self> { vec![1.0, -1.0, <$P>::MIN_POSITIVE, <$P>::MIN_POSITIVE / 4.0, <$P>::INFINITY, <$P>::NEG_INFINITY, <$P>::NAN] }
        fn small(k: i64) -> Self { k as $P }
        fn is_zero_ref(self) -> bool { self == 0.0 }
        fn mag(self) -> u64 { if self.is_finite() { (self.abs() as f64).min(1e18) as u64 } else { u64::MAX } }
        fn cancel_pairs() -> Vec<(Self, Self)> {
            vec![(1.0, -1.0), (-2.5, 2.5), (<$P>::MAX, <$P>::MIN), (<$P>::INFINITY, <$P>::NEG_INFINITY), (<$P>::MIN_POSITIVE, <$P>::MIN_POSITIVE), (<$P>::MIN_POSITIVE / 4.0, -(<$P>::MIN_POSITIVE / 4.0)),
                (<$P>::MIN_POSITIVE, -<$P>::MIN_POSITIVE), (<$P>::NAN, <$P>::NAN), (2.5, 2.5), (<$P>::MAX, <$P>::MAX), (<$P>::EPSILON, -<$P>::EPSILON)]
        }
    }
)+ } }
prim_float!(f32, f64);

type LeftFn<'a, P> = &'a (dyn Fn(P, &[P]) -> Vec<P> + Sync);
/// scalar-on-the-left `s + v` / `s * v`: all (s, x) pairs of the alphabet whose exact result fits,
/// x placed in the lanes i ≡ phase (mod 3), alone at every single lane, and in all lanes; other lanes hold
/// small fill values; lane i must be s ∘ lane_i computed on scalars
#[inline(never)]
fn scalar_left<P: Prim>(s: &Section, ty: &str, n: usize, add: LeftFn<P>, mul: LeftFn<P>) {
    use rayon::prelude::*;
    let alpha = P::alphabet(s.thorough());
    for (opname, real, reff, neutral) in [("Add", add, P::cadd as fn(P, P) -> Option<P>, P::small(0)), ("Mul", mul, P::cmul as fn(P, P) -> Option<P>, P::small(1))] {
        let site = format!("{} {} {}∘V", ty, opname, P::NAME);
        let (evals, nontriv): (u64, u64) = alpha.par_iter().map(|&sc| {
            let (mut ev, mut nt) = (0u64, 0u64);
            let fill: Vec<P> = (0..n).map(|i| { let c = P::small((i % 3) as i64 - 1); if reff(sc, c).is_some() { c } else { neutral } }).collect();
            let mut placements: Vec<Vec<bool>> = (0..3.min(n)).map(|p| (0..n).map(|i| i % 3 == p).collect()).collect();
            placements.extend((0..n).map(|j| (0..n).map(|i| i == j).collect::<Vec<bool>>())); placements.push(vec![true; n]);
            for &x in &alpha {
                let Some(r) = reff(sc, x) else { continue };
                for pl in &placements {
                    let lanes: Vec<P> = (0..n).map(|i| if pl[i] { x } else { fill[i] }).collect();
                    let want: Vec<P> = lanes.iter().map(|&l| reff(sc, l).unwrap()).collect();
                    ev += 1; if !r.same(x) { nt += 1; }
                    match catch(|| real(sc, &lanes)) {
                        Ok(g) => if g.len() != n || (0..n).any(|i| !g[i].same(want[i])) {
                            s.violation_w(&site, "wrong-lane", json!({"scalar": jd(&sc), "lanes": jd(&lanes), "got": jd(&g), "want": jd(&want)}), sc.mag().saturating_add(x.mag())); },
                        Err(e) => s.violation_w(&site, "panic", json!({"scalar": jd(&sc), "lanes": jd(&lanes), "error": jd(&e)}), sc.mag().saturating_add(x.mag())),
                    }
                }
            }
            (ev, nt)
        }).reduce(|| (0, 0), |a, b| (a.0 + b.0, a.1 + b.1));
        s.evals(evals, nontriv);
        s.class_n(ty, evals);
        s.class_n(P::NAME, evals);
    }
}
macro_rules! scalar_left_ty { ($s:expr, $V:ident, $name:literal, $N:expr, $kind:ident, [$($i:tt)+]) => {{
    #[inline(never)]
    fn run(s: &Section) {
        macro_rules! one { ($P:ident) => { scalar_left::<$P>(s, $name, $N, &|sc, l| (sc + <$V<$P>>::mk(l)).de(), &|sc, l| (sc * <$V<$P>>::mk(l)).de()); } }
        one!(i8); one!(u8); one!(i16); one!(u16); one!(i32); one!(u32); one!(i64); one!(u64); one!(f32); one!(f64);
        if s.wants_sample() { s.sample(json!({"type": $name, "expr": "3i8 * V(-1,0,1,..)", "got": jd(&(3i8 * <$V<i8>>::mk(&(0..$N).map(|i| (i % 3) as i8 - 1).collect::<Vec<_>>())).de())})); }
    }
    run($s);
}} }

/// reduce_and / reduce_or on bool vectors
#[inline(never)]
fn bool_reduce(s: &Section, ty: &str, n: usize, f: &dyn Fn(&[bool]) -> (bool, bool)) {
    let (site_and, site_or) = (format!("{} reduce_and<bool>", ty), format!("{} reduce_or<bool>", ty));
    let mut count = 0u64;
    let mut one = |v: &[bool], weight: u64| {
        count += 2;
        s.eval(v.iter().any(|&b| b) && v.iter().any(|&b| !b));
        s.eval(v.iter().any(|&b| b) && v.iter().any(|&b| !b));
        match catch(|| f(v)) {
            Ok((a, o)) => {
                if a != v.iter().all(|&b| b) { s.violation_w(&site_and, "wrong-value", json!({"lanes": v, "got": a}), weight); }
                if o != v.iter().any(|&b| b) { s.violation_w(&site_or, "wrong-value", json!({"lanes": v, "got": o}), weight); }
            }
            Err(e) => s.violation(&site_and, "panic", json!({"lanes": v, "error": jd(&e)})),
        }
    };
    if n <= 16 {
        for m in 0u32..(1 << n) { let v: Vec<bool> = (0..n).map(|i| m >> i & 1 == 1).collect(); one(&v, m.count_ones().min(n as u32 - m.count_ones()) as u64); }
    } else {
        for base in [true, false] {
            one(&vec![base; n], 0);
            for i in 0..n { let mut v = vec![base; n]; v[i] = !base; one(&v, 1);
                for j in i + 1..n { let mut w = v.clone(); w[j] = !base; one(&w, 2); } }
        }
    }
    s.class_n(ty, count);
}
/// reduce_and / reduce_or on primitive (and Wrapping) lanes: zero is false, anything else true
#[inline(never)]
fn prim_reduce<P: Prim>(s: &Section, ty: &str, wrap: &str, n: usize, f: &dyn Fn(&[P]) -> (bool, bool)) {
    let (site_and, site_or) = (format!("{} reduce_and<{}{}>", ty, wrap, P::NAME), format!("{} reduce_or<{}{}>", ty, wrap, P::NAME));
    let (zs, nzs) = (P::zeros(), P::nonzeros());
    let mut count = 0u64;
    let mut one = |v: &[P], weight: u64| {
        count += 2;
        let mixed = v.iter().any(|x| x.is_zero_ref()) && v.iter().any(|x| !x.is_zero_ref());
        s.eval(mixed); s.eval(mixed);
        match catch(|| f(v)) {
            Ok((a, o)) => {
                if a != v.iter().all(|x| !x.is_zero_ref()) { s.violation_w(&site_and, "wrong-value", json!({"lanes": jd(&v), "got": a}), weight); }
                if o != v.iter().any(|x| !x.is_zero_ref()) { s.violation_w(&site_or, "wrong-value", json!({"lanes": jd(&v), "got": o}), weight); }
            }
            Err(e) => s.violation(&site_and, "panic", json!({"lanes": jd(&v), "error": jd(&e)})),
        }
    };
    for (zi, &z) in zs.iter().enumerate() {
        one(&vec![z; n], zi as u64);
        for (ni, &nz) in nzs.iter().enumerate() {
            if zi == 0 { one(&vec![nz; n], ni as u64); }
            for j in 0..n {
                let mut hot = vec![z; n]; hot[j] = nz; one(&hot, (1 + zi + ni) as u64);
                let mut cold = vec![nz; n]; cold[j] = z; one(&cold, (1 + zi + ni) as u64);
            }
        }
    }
    // mixed non-zero values, one zero
    for j in 0..n { let mut v: Vec<P> = (0..n).map(|i| nzs[i % nzs.len()]).collect(); one(&v, 1); v[j] = zs[j % zs.len()]; one(&v, 2); }
    // thorough: two deviating lanes (two different non-zero values among zeros, two zeros among mixed non-zero values) at every pair of positions
    if s.thorough() { for j in 0..n { for k in j + 1..n {
        let mut hot = vec![zs[(j + k) % zs.len()]; n]; hot[j] = nzs[j % nzs.len()]; hot[k] = nzs[(k + 1) % nzs.len()]; one(&hot, 3);
        let mut cold: Vec<P> = (0..n).map(|i| nzs[i % nzs.len()]).collect(); cold[j] = zs[j % zs.len()]; cold[k] = zs[k % zs.len()]; one(&cold, 3);
    } } }
    s.class_n(ty, count);
    s.class_n(&format!("{}{}", wrap, P::NAME), count);
}
macro_rules! boolred_ty { ($s:expr, $V:ident, $name:literal, $N:expr, $kind:ident, [$($i:tt)+]) => {{
    #[inline(never)]
    fn run(s: &Section) {
        bool_reduce(s, $name, $N, &|l| { let v = <$V<bool>>::mk(l); (v.reduce_and(), v.reduce_or()) });
        macro_rules! int { ($P:ident) => {
            prim_reduce::<$P>(s, $name, "", $N, &|l| { let v = <$V<$P>>::mk(l); (v.reduce_and(), v.reduce_or()) });
            prim_reduce::<$P>(s, $name, "Wrapping ", $N, &|l| { let v = <$V<Wrapping<$P>>>::mk(&l.iter().map(|x| Wrapping(*x)).collect::<Vec<_>>()); (v.reduce_and(), v.reduce_or()) });
        } }
        int!(i8); int!(u8); int!(i16); int!(u16); int!(i32); int!(u32); int!(i64); int!(u64);
        prim_reduce::<f32>(s, $name, "", $N, &|l| { let v = <$V<f32>>::mk(l); (v.reduce_and(), v.reduce_or()) });
        prim_reduce::<f64>(s, $name, "", $N, &|l| { let v = <$V<f64>>::mk(l); (v.reduce_and(), v.reduce_or()) });
        if s.wants_sample() { let l: Vec<i16> = (0..$N).map(|i| if i == $N - 1 { 0 } else { -3 }).collect(); let v = <$V<i16>>::mk(&l); s.sample(json!({"type": $name, "lanes": l, "reduce_and": v.reduce_and(), "reduce_or": v.reduce_or()})); }
    }
    run($s);
}} }

// ------------------------------------------------------------------------------------------------
// 5. order-dependent functions on concrete lanes
// ------------------------------------------------------------------------------------------------
const MASKS: [&str; 24] = ["cmpeq", "cmpne", "cmpge", "cmpgt", "cmple", "cmplt", "partial_cmpeq", "partial_cmpne", "partial_cmpge", "partial_cmpgt", "partial_cmple", "partial_cmplt",
    "cmpeq_simd", "cmpne_simd", "cmpge_simd", "cmpgt_simd", "cmple_simd", "cmplt_simd", "partial_cmpeq_simd", "partial_cmpne_simd", "partial_cmpge_simd", "partial_cmpgt_simd", "partial_cmple_simd", "partial_cmplt_simd"];
const SELS: [&str; 8] = ["min(V,V)", "max(V,V)", "partial_min(V,V)", "partial_max(V,V)", "min(V,T)", "max(V,T)", "partial_min(V,T)", "partial_max(V,T)"];
fn bitsv(v: &[f64]) -> Vec<String> { v.iter().map(|x| format!("{:?}", x)).collect() }

/// element-wise min/max family and the 12 masks on i32 lanes; lane i holds pair[(r + i*k) mod len]
#[inline(never)]
fn order_i32(s: &Section, ty: &str, n: usize, sel: &dyn Fn(&[i32], &[i32], i32) -> [Vec<i32>; 8], masks: &dyn Fn(&[i32], &[i32]) -> [Vec<bool>; 24]) {
    let alpha: Vec<i32> = if s.thorough() { vec![i32::MIN, i32::MIN + 1, -2, 0, 3, i32::MAX - 1, i32::MAX] } else { vec![i32::MIN, -2, 0, 3, i32::MAX] };   // audit round 2: extremes in both tiers
    let pairs: Vec<(i32, i32)> = alpha.iter().flat_map(|&x| alpha.iter().map(move |&y| (x, y))).collect();
    let mut count = 0u64;
    let strides: &[usize] = if s.thorough() { &[1, 2, 3, 5, 7, 11] } else { &[1, 2, 7] };
    for r in 0..pairs.len() { for &k in strides {
        let a: Vec<i32> = (0..n).map(|i| pairs[(r + i * k) % pairs.len()].0).collect();
        let b: Vec<i32> = (0..n).map(|i| pairs[(r + i * k) % pairs.len()].1).collect();
        let t = alpha[r % alpha.len()];
        let rels = (0..n).map(|i| a[i].cmp(&b[i])).collect::<std::collections::BTreeSet<_>>().len();
        let inp = || json!({"a": a, "b": b, "scalar": t});
        let want_sel: [Vec<i32>; 8] = [
            (0..n).map(|i| if a[i] < b[i] { a[i] } else { b[i] }).collect(), (0..n).map(|i| if a[i] > b[i] { a[i] } else { b[i] }).collect(),
            (0..n).map(|i| if a[i] < b[i] { a[i] } else { b[i] }).collect(), (0..n).map(|i| if a[i] > b[i] { a[i] } else { b[i] }).collect(),
            (0..n).map(|i| if a[i] < t { a[i] } else { t }).collect(), (0..n).map(|i| if a[i] > t { a[i] } else { t }).collect(),
            (0..n).map(|i| if a[i] < t { a[i] } else { t }).collect(), (0..n).map(|i| if a[i] > t { a[i] } else { t }).collect()];
        match catch(|| sel(&a, &b, t)) {
            Ok(g) => for f in 0..8 { s.eval(rels > 1); count += 1; if g[f] != want_sel[f] { s.violation_w(&format!("{} {}<i32>", ty, SELS[f]), "wrong-lane", json!({"input": inp(), "got": g[f], "want": want_sel[f]}), r as u64); } },
            Err(e) => s.violation(&format!("{} min/max family<i32>", ty), "panic", json!({"input": inp(), "error": jd(&e)})),
        }
        let m6: [Vec<bool>; 6] = [(0..n).map(|i| a[i] == b[i]).collect(), (0..n).map(|i| a[i] != b[i]).collect(), (0..n).map(|i| a[i] >= b[i]).collect(),
            (0..n).map(|i| a[i] > b[i]).collect(), (0..n).map(|i| a[i] <= b[i]).collect(), (0..n).map(|i| a[i] < b[i]).collect()];
        match catch(|| masks(&a, &b)) {
            Ok(g) => for f in 0..24 { s.eval(rels > 1); count += 1; if g[f] != m6[f % 6] { s.violation_w(&format!("{} {}<i32>", ty, MASKS[f]), "wrong-lane", json!({"input": inp(), "got": g[f], "want": m6[f % 6]}), r as u64); } },
            Err(e) => s.violation(&format!("{} cmp masks<i32>", ty), "panic", json!({"input": inp(), "error": jd(&e)})),
        }
    } }
    s.class_n(ty, count);
}
/// partial_min / partial_max and the 6 partial masks on f64 lanes incl. NaN, signed zeros, infinity
#[inline(never)]
fn order_f64(s: &Section, ty: &str, n: usize, sel: &dyn Fn(&[f64], &[f64]) -> [Vec<f64>; 2], masks: &dyn Fn(&[f64], &[f64]) -> [Vec<bool>; 12]) {
    let alpha = [-1.0f64, -0.0, 0.0, 1.0, f64::INFINITY, f64::NAN, f64::NEG_INFINITY, 5e-324, 1.0000000000000002];   // audit round 2: -inf, smallest subnormal, 1 + ulp
    let pairs: Vec<(f64, f64)> = alpha.iter().flat_map(|&x| alpha.iter().map(move |&y| (x, y))).collect();
    let mut count = 0u64;
    let strides: &[usize] = if s.thorough() { &[1, 2, 3, 5, 7, 11, 13] } else { &[1, 5, 7] };
    for r in 0..pairs.len() { for &k in strides {
        let a: Vec<f64> = (0..n).map(|i| pairs[(r + i * k) % pairs.len()].0).collect();
        let b: Vec<f64> = (0..n).map(|i| pairs[(r + i * k) % pairs.len()].1).collect();
        let inp = || json!({"a": bitsv(&a), "b": bitsv(&b)});
        match catch(|| sel(&a, &b)) {
            Ok(g) => for f in 0..2 {
                s.eval(true); count += 1;
                let name = ["partial_min", "partial_max"][f];
                for i in 0..n {
                    let (x, y, z) = (a[i], b[i], g[f][i]);
                    // always: the result is one of the two operands
                    let one_of = z.to_bits() == x.to_bits() || z.to_bits() == y.to_bits();
                    // non-NaN operands: the value is the textbook minimum / maximum (ties, incl. -0 vs +0, left open)
                    let value_ok = x.is_nan() || y.is_nan() || z == if f == 0 { if x < y { x } else { y } } else { if x > y { x } else { y } };
                    if !one_of || !value_ok { s.violation_w(&format!("{} {}<f64>", ty, name), "wrong-lane", json!({"input": inp(), "lane": i, "got": format!("{:?}", z)}), (r + i) as u64); break; }
                }
            },
            Err(e) => s.violation(&format!("{} partial_min/max<f64>", ty), "panic", json!({"input": inp(), "error": jd(&e)})),
        }
        let m6: [Vec<bool>; 6] = [(0..n).map(|i| a[i] == b[i]).collect(), (0..n).map(|i| a[i] != b[i]).collect(), (0..n).map(|i| a[i] >= b[i]).collect(),
            (0..n).map(|i| a[i] > b[i]).collect(), (0..n).map(|i| a[i] <= b[i]).collect(), (0..n).map(|i| a[i] < b[i]).collect()];
        match catch(|| masks(&a, &b)) {
            Ok(g) => for f in 0..12 { s.eval(true); count += 1; if g[f] != m6[f % 6] { s.violation_w(&format!("{} {}<f64>", ty, MASKS[if f < 6 { 6 + f } else { 12 + f }]), "wrong-lane", json!({"input": inp(), "got": g[f], "want": m6[f % 6]}), r as u64); } },
            Err(e) => s.violation(&format!("{} partial cmp masks<f64>", ty), "panic", json!({"input": inp(), "error": jd(&e)})),
        }
    } }
    s.class_n(ty, count);
}
/// reduce_min / reduce_max / reduce_partial_min / reduce_partial_max
#[inline(never)]
fn order_reduce(s: &Section, ty: &str, n: usize, ri: &dyn Fn(&[i32]) -> [i32; 4], rf: &dyn Fn(&[f64]) -> [f64; 2]) {
    let mut inputs: Vec<Vec<i32>> = Vec::new();
    for r in 0..n { inputs.push((0..n).map(|i| ((i + r) % n) as i32).collect()); inputs.push((0..n).map(|i| ((n - 1 - i + r) % n) as i32).collect()); }
    inputs.push(vec![5; n]);
    for j in 0..n { for h in [1, -1] { let mut v = vec![0; n]; v[j] = h; inputs.push(v); } }
    // audit round 2: the extreme values at every position, alone and against each other
    for j in 0..n { for h in [i32::MIN, i32::MAX] { let mut v = vec![0; n]; v[j] = h; inputs.push(v.clone()); v[(j + 1) % n] = if h == i32::MIN { i32::MAX } else { i32::MIN }; inputs.push(v); } }
    let mut count = 0u64;
    for v in &inputs {
        let (mn, mx) = (*v.iter().min().unwrap(), *v.iter().max().unwrap());
        let want = [mn, mx, mn, mx];
        match catch(|| ri(v)) {
            Ok(g) => for f in 0..4 { s.eval(mn != mx); count += 1; if g[f] != want[f] {
                s.violation(&format!("{} {}<i32>", ty, ["reduce_min", "reduce_max", "reduce_partial_min", "reduce_partial_max"][f]), "wrong-value", json!({"lanes": v, "got": g[f], "want": want[f]})); } },
            Err(e) => s.violation(&format!("{} reduce_min/max<i32>", ty), "panic", json!({"lanes": v, "error": jd(&e)})),
        }
        // the same orders as floats (scaled, shifted to contain negatives), then with signed zeros and one NaN
        let base: Vec<f64> = v.iter().map(|&x| x as f64 * 0.5 - 0.25).collect();
        let mut fin: Vec<Vec<f64>> = vec![base.clone(), v.iter().map(|&x| if x == 0 { -0.0 } else { x as f64 }).collect()];
        let zmix: Vec<f64> = v.iter().enumerate().map(|(i, &x)| if x == 0 { if i % 2 == 0 { 0.0 } else { -0.0 } } else { x as f64 }).collect();
        fin.push(zmix);
        let mut withnan = base.clone(); withnan[(v[0].unsigned_abs() as usize) % n] = f64::NAN; fin.push(withnan);
        for fv in &fin {
            let has_nan = fv.iter().any(|x| x.is_nan());
            let fmin = fv.iter().copied().fold(f64::INFINITY, |m, x| if x < m { x } else { m });
            let fmax = fv.iter().copied().fold(f64::NEG_INFINITY, |m, x| if x > m { x } else { m });
            match catch(|| rf(fv)) {
                Ok(g) => for f in 0..2 {
                    s.eval(!has_nan); count += 1;
                    let one_of = fv.iter().any(|x| x.to_bits() == g[f].to_bits());
                    let value_ok = has_nan || g[f] == [fmin, fmax][f];
                    if !one_of || !value_ok { s.violation(&format!("{} {}<f64>", ty, ["reduce_partial_min", "reduce_partial_max"][f]), "wrong-value", json!({"lanes": bitsv(fv), "got": format!("{:?}", g[f])})); }
                },
                Err(e) => s.violation(&format!("{} reduce_partial_min/max<f64>", ty), "panic", json!({"lanes": bitsv(fv), "error": jd(&e)})),
            }
        }
    }
    s.class_n(ty, count);
}
macro_rules! order_ty { ($s:expr, $V:ident, $name:literal, $N:expr, $kind:ident, [$($i:tt)+]) => {{
    #[inline(never)]
    fn run(s: &Section) {
        type VI = $V<i32>; type VF = $V<f64>;
        order_i32(s, $name, $N,
            &|a, b, t| { let (a, b) = (VI::mk(a), VI::mk(b)); [VI::min(a, b).de(), VI::max(a, b).de(), VI::partial_min(a, b).de(), VI::partial_max(a, b).de(), VI::min(a, t).de(), VI::max(a, t).de(), VI::partial_min(a, t).de(), VI::partial_max(a, t).de()] },
            &|a, b| { let (a, b) = (VI::mk(a), VI::mk(b)); [a.cmpeq(&b).de(), a.cmpne(&b).de(), a.cmpge(&b).de(), a.cmpgt(&b).de(), a.cmple(&b).de(), a.cmplt(&b).de(),
                a.partial_cmpeq(&b).de(), a.partial_cmpne(&b).de(), a.partial_cmpge(&b).de(), a.partial_cmpgt(&b).de(), a.partial_cmple(&b).de(), a.partial_cmplt(&b).de(),
                a.cmpeq_simd(b).de(), a.cmpne_simd(b).de(), a.cmpge_simd(b).de(), a.cmpgt_simd(b).de(), a.cmple_simd(b).de(), a.cmplt_simd(b).de(),
                a.partial_cmpeq_simd(b).de(), a.partial_cmpne_simd(b).de(), a.partial_cmpge_simd(b).de(), a.partial_cmpgt_simd(b).de(), a.partial_cmple_simd(b).de(), a.partial_cmplt_simd(b).de()] });
        order_f64(s, $name, $N,
            &|a, b| { let (a, b) = (VF::mk(a), VF::mk(b)); [VF::partial_min(a, b).de(), VF::partial_max(a, b).de()] },
            &|a, b| { let (a, b) = (VF::mk(a), VF::mk(b)); [a.partial_cmpeq(&b).de(), a.partial_cmpne(&b).de(), a.partial_cmpge(&b).de(), a.partial_cmpgt(&b).de(), a.partial_cmple(&b).de(), a.partial_cmplt(&b).de(),
                a.partial_cmpeq_simd(b).de(), a.partial_cmpne_simd(b).de(), a.partial_cmpge_simd(b).de(), a.partial_cmpgt_simd(b).de(), a.partial_cmple_simd(b).de(), a.partial_cmplt_simd(b).de()] });
        order_reduce(s, $name, $N,
            &|a| { let v = VI::mk(a); [v.reduce_min(), v.reduce_max(), v.reduce_partial_min(), v.reduce_partial_max()] },
            &|a| { let v = VF::mk(a); [v.reduce_partial_min(), v.reduce_partial_max()] });
        if s.wants_sample() { let (a, b): (Vec<i32>, Vec<i32>) = ((0..$N).map(|i| [-2, 0, 3][i % 3]).collect(), (0..$N).map(|i| [0, 0, -2][i % 3]).collect());
            s.sample(json!({"type": $name, "a": a, "b": b, "cmple": VI::mk(&a).cmple(&VI::mk(&b)).de(), "min": VI::min(VI::mk(&a), VI::mk(&b)).de()})); }
    }
    run($s);
}} }

// ------------------------------------------------------------------------------------------------
// 6. element-wise float functions and sign predicates
// ------------------------------------------------------------------------------------------------
const FUN6: [&str; 6] = ["sqrt", "rsqrt", "recip", "ceil", "floor", "round"];
#[inline(never)]
fn float_funs(s: &Section, ty: &str, n: usize, f: &dyn Fn(&[f64]) -> [Vec<f64>; 6], sign: &dyn Fn(&[i32]) -> (bool, bool)) {
    let mut count = 0u64;
    // lane-distinct inputs: perfect squares, fractional positives, signed values with ties, rotated
    let gens: [&dyn Fn(usize) -> f64; 3] = [&|i| ((i + 1) * (i + 1)) as f64, &|i| (i as f64 + 0.5) * 1.25, &|i| (i as f64 - 3.0) * 0.75 + if i % 4 == 0 { 0.0 } else { 0.125 }];
    for (gi, g) in gens.iter().enumerate() { for r in 0..n {
        let x: Vec<f64> = (0..n).map(|i| g((i + r) % n)).collect();
        let Ok(got) = catch(|| f(&x)) else { s.eval(true); s.violation(&format!("{} float functions", ty), "panic", json!({"lanes": x})); continue };
        for k in 0..6 {
            if gi == 2 && k < 3 { continue; }       // sqrt family only on positive inputs
            s.eval(true); count += 1;
            for i in 0..n {
                let want = match k { 0 => x[i].sqrt(), 1 => 1.0 / x[i].sqrt(), 2 => 1.0 / x[i], 3 => x[i].ceil(), 4 => x[i].floor(), _ => x[i].round() };
                // single correctly rounded / exact operations: same bits; rsqrt (two roundings): derived forward bound
                let ok = if k == 1 { vx::fl::close64(got[k][i], want, want) } else { got[k][i].to_bits() == want.to_bits() };
                if !ok { s.violation_w(&format!("{} {}<f64>", ty, FUN6[k]), "wrong-lane", json!({"lanes": x, "lane": i, "got": got[k][i], "want": want}), (r + i) as u64); break; }
            }
        }
    } }
    // sign predicates: all positive, all negative, all zero, one negative / one zero / one positive lane at every position
    let mut vs: Vec<Vec<i32>> = vec![(1..=n as i32).collect(), (1..=n as i32).map(|x| -x).collect(), vec![0; n]];
    for j in 0..n { for (bg, h) in [(1, -1), (1, 0), (0, -1), (0, 1), (-1, 1), (-1, 0)] { let mut v: Vec<i32> = (0..n as i32).map(|i| bg * (i + 1)).collect(); v[j] = h * 7; vs.push(v); } }
    for v in &vs {
        let want = (v.iter().any(|&x| x < 0), v.iter().all(|&x| x > 0));
        let mixed = v.iter().map(|x| x.signum()).collect::<std::collections::BTreeSet<_>>().len() > 1;
        s.eval(mixed); s.eval(mixed); count += 2;
        match catch(|| sign(v)) {
            Ok(g) => {
                if g.0 != want.0 { s.violation(&format!("{} is_any_negative<i32>", ty), "wrong-value", json!({"lanes": v, "got": g.0})); }
                if g.1 != want.1 { s.violation(&format!("{} are_all_positive<i32>", ty), "wrong-value", json!({"lanes": v, "got": g.1})); }
            }
            Err(e) => s.violation(&format!("{} sign predicates", ty), "panic", json!({"lanes": v, "error": jd(&e)})),
        }
    }
    s.class_n(ty, count);
}
macro_rules! float_ty { ($s:expr, $V:ident, $name:literal, $N:expr, $kind:ident, [$($i:tt)+]) => {{
    #[inline(never)]
    fn run(s: &Section) {
        float_funs(s, $name, $N,
            &|x| { let v = <$V<f64>>::mk(x); [v.sqrt().de(), v.rsqrt().de(), v.recip().de(), v.ceil().de(), v.floor().de(), v.round().de()] },
            &|x| { let v = <$V<i32>>::mk(x); (v.is_any_negative(), v.are_all_positive()) });
        if s.wants_sample() { let x: Vec<f64> = (0..$N).map(|i| (i as f64 - 3.0) * 0.75 + 0.125).collect(); s.sample(json!({"type": $name, "lanes": x, "round": <$V<f64>>::mk(&x).round().de(), "floor": <$V<f64>>::mk(&x).floor().de()})); }
    }
    run($s);
}} }


// ================================================================================================
// AUDIT ROUND: sections added after the clause-by-clause audit (see out/AUDIT.md)
// ================================================================================================

/// lane patterns over an alphabet: every rotation r of the alphabet laid out with every stride k of `ks`
/// (lane i = alpha[(r + i*k) mod |alpha|]), plus every alphabet value alone at every single lane over `fill`
fn lane_patterns<P: Copy>(alpha: &[P], fill: P, n: usize, ks: &[usize]) -> Vec<Vec<P>> {
    let l = alpha.len();
    let mut out = Vec::new();
    for &k in ks { for r in 0..l { out.push((0..n).map(|i| alpha[(r + i * k) % l]).collect()); } }
    for &x in alpha { for j in 0..n { let mut v = vec![fill; n]; v[j] = x; out.push(v); } }
    out
}
/// calls `f` on every subset of 0..n with at most k members (sorted index lists, the empty set included)
fn for_subsets(n: usize, k: usize, f: &mut dyn FnMut(&[usize])) {
    fn go(n: usize, k: usize, start: usize, cur: &mut Vec<usize>, f: &mut dyn FnMut(&[usize])) {
        f(cur);
        if cur.len() == k { return; }
        for i in start..n { cur.push(i); go(n, k, i + 1, cur, f); cur.pop(); }
    }
    go(n, k, 0, &mut Vec::new(), f);
}

// ------------------------------------------------------------------------------------------------
// 7. casts: as_ and numcast
// ------------------------------------------------------------------------------------------------
const CAST_F64: [f64; 15] = [-2.75, -0.0, 0.5, 3.99, 255.5, 65536.0, -1.0, 2147483647.0, 2147483648.0, -2147483649.0, 1e10, -1e10, f64::NAN, f64::INFINITY, f64::NEG_INFINITY];
const CAST_I32: [i32; 12] = [0, 1, 255, 256, 257, -1, -256, 1000, i32::MIN, i32::MAX, 128, 77];
const CAST_I64: [i64; 8] = [0, 1, -1, 16777217, -16777217, i64::MAX, i64::MIN, 123456789012];
/// `as_` (lane i = lane_i as D) and `numcast` (Some(lanes converted) iff every lane converts, else None)
#[inline(never)]
fn cast_check<S: Copy + Debug + PartialEq, D: Copy + Debug + PartialEq>(s: &Section, ty: &str, n: usize, sn: &str, dn: &str, alpha: &[S], fill: S,
    ref_as: &dyn Fn(S) -> D, ref_num: &dyn Fn(S) -> Option<D>, real_as: &dyn Fn(&[S]) -> Vec<D>, real_num: &dyn Fn(&[S]) -> Option<Vec<D>>) {
    let ks: &[usize] = if s.thorough() { &[1, 2, 3, 5, 7, 11] } else { &[1, 3] };
    let (site_as, site_num) = (format!("{} as_<{}->{}>", ty, sn, dn), format!("{} numcast<{}->{}>", ty, sn, dn));
    assert!(ref_num(fill).is_some(), "cast_check: the fill value must convert");
    let mut pats = lane_patterns(alpha, fill, n, ks);
    let valid: Vec<S> = alpha.iter().copied().filter(|&x| ref_num(x).is_some()).collect();
    for &k in ks { for r in 0..valid.len() { pats.push((0..n).map(|i| valid[(r + i * k) % valid.len()]).collect()); } }
    let (mut count, mut some, mut none, mut none1) = (0u64, 0u64, 0u64, 0u64);
    for x in pats.iter() {
        let pi = x.iter().filter(|&&v| v != fill).count();   // weight: lanes differing from the fill, so single-lane witnesses are reported first
        let want: Vec<D> = x.iter().map(|&v| ref_as(v)).collect();
        s.eval(want.iter().any(|w| *w != want[0])); count += 1;
        match catch(|| real_as(x)) {
            Ok(g) => if g != want { let lane = (0..n).find(|&i| g.get(i) != Some(&want[i])).unwrap_or(n);
                s.violation_w(&site_as, "wrong-lane", json!({"lanes": jd(x), "lane": lane, "got": jd(&g), "want": jd(&want)}), pi as u64); },
            Err(e) => s.violation_w(&site_as, "panic", json!({"lanes": jd(x), "error": jd(&e)}), pi as u64),
        }
        let conv: Vec<Option<D>> = x.iter().map(|&v| ref_num(v)).collect();
        let bad = conv.iter().filter(|c| c.is_none()).count();
        let want_n: Option<Vec<D>> = if bad == 0 { Some(conv.iter().map(|c| c.unwrap()).collect()) } else { None };
        s.eval(bad > 0 && bad < n); count += 1;
        if bad == 0 { some += 1 } else { none += 1; if bad == 1 { none1 += 1 } }
        match catch(|| real_num(x)) {
            Ok(g) => if g != want_n { s.violation_w(&site_num, if g.is_some() != want_n.is_some() { "wrong-option" } else { "wrong-lane" }, json!({"lanes": jd(x), "got": jd(&g), "want": jd(&want_n)}), pi as u64); },
            Err(e) => s.violation_w(&site_num, "panic", json!({"lanes": jd(x), "error": jd(&e)}), pi as u64),
        }
    }
    s.class_n(ty, count); s.class_n("numcast-some", some); s.class_n("numcast-none", none); s.class_n("numcast-none-single-lane", none1);
}
macro_rules! cast_ty { ($s:expr, $V:ident, $name:literal, $N:expr, $kind:ident, [$($i:tt)+]) => {{
    #[inline(never)]
    fn run(s: &Section) {
        use num_traits::NumCast;
        cast_check::<f64, i32>(s, $name, $N, "f64", "i32", &CAST_F64, 1.0, &|x| x as i32, &|x| <i32 as NumCast>::from(x),
            &|l| <$V<f64>>::mk(l).as_::<i32>().de(), &|l| <$V<f64>>::mk(l).numcast::<i32>().map(|v| v.de()));
        cast_check::<i32, u8>(s, $name, $N, "i32", "u8", &CAST_I32, 7, &|x| x as u8, &|x| <u8 as NumCast>::from(x),
            &|l| <$V<i32>>::mk(l).as_::<u8>().de(), &|l| <$V<i32>>::mk(l).numcast::<u8>().map(|v| v.de()));
        cast_check::<i64, f32>(s, $name, $N, "i64", "f32", &CAST_I64, 3, &|x| x as f32, &|x| <f32 as NumCast>::from(x),
            &|l| <$V<i64>>::mk(l).as_::<f32>().de(), &|l| <$V<i64>>::mk(l).numcast::<f32>().map(|v| v.de()));
        if s.wants_sample() { let l: Vec<i32> = (0..$N).map(|i| if i == $N - 1 { 256 } else { i as i32 - 1 }).collect();
            s.sample(json!({"type": $name, "lanes": l, "as_::<u8>": <$V<i32>>::mk(&l).as_::<u8>().de(), "numcast::<u8>": jd(&<$V<i32>>::mk(&l).numcast::<u8>().map(|v| v.de()))})); }
    }
    run($s);
}} }

// ------------------------------------------------------------------------------------------------
// 8. bool reductions incl. the deprecated reduce_ne, deeper deviation sets
// ------------------------------------------------------------------------------------------------
#[inline(never)]
fn bool_reduce3(s: &Section, ty: &str, n: usize, f: &dyn Fn(&[bool]) -> (bool, bool, bool)) {
    let sites = [format!("{} reduce_and<bool>", ty), format!("{} reduce_or<bool>", ty), format!("{} reduce_ne<bool>", ty)];
    let mut count = 0u64;
    let mut one = |v: &[bool], weight: u64| {
        count += 3;
        let mixed = v.iter().any(|&b| b) && v.iter().any(|&b| !b);
        s.evals(3, if mixed { 3 } else { 0 });
        // textbook chain ((v0 != v1) != v2) != ... : left fold of `!=`
        let want = [v.iter().all(|&b| b), v.iter().any(|&b| b), v[1..].iter().fold(v[0], |acc, &b| acc != b)];
        match catch(|| f(v)) {
            Ok((a, o, x)) => for (k, g) in [a, o, x].into_iter().enumerate() {
                if g != want[k] { s.violation_w(&sites[k], "wrong-value", json!({"lanes": v, "got": g, "want": want[k]}), weight); } },
            Err(e) => s.violation(&sites[2], "panic", json!({"lanes": v, "error": jd(&e)})),
        }
    };
    if n <= 16 {
        for m in 0u32..(1 << n) { let v: Vec<bool> = (0..n).map(|i| m >> i & 1 == 1).collect(); one(&v, m.count_ones().min(n as u32 - m.count_ones()) as u64); }
    } else {
        let dev = if s.thorough() { 4 } else { 2 };
        for base in [true, false] { for_subsets(n, dev, &mut |set| { let mut v = vec![base; n]; for &j in set { v[j] = !base; } one(&v, set.len() as u64); }); }
    }
    s.class_n(ty, count);
}
macro_rules! boolred3_ty { ($s:expr, $V:ident, $name:literal, $N:expr, $kind:ident, [$($i:tt)+]) => {{
    #[inline(never)]
    #[allow(deprecated)]
    fn run(s: &Section) {
        bool_reduce3(s, $name, $N, &|l| { let v = <$V<bool>>::mk(l); (v.reduce_and(), v.reduce_or(), v.reduce_ne()) });
        if s.wants_sample() { let l: Vec<bool> = (0..$N).map(|i| i % 3 == 0).collect(); s.sample(json!({"type": $name, "lanes": l, "reduce_ne": <$V<bool>>::mk(&l).reduce_ne()})); }
    }
    run($s);
}} }

// ------------------------------------------------------------------------------------------------
// 9. new, consuming iterator used from both ends, mutable iteration
// ------------------------------------------------------------------------------------------------
type IterTrace = (Vec<Option<Term>>, Vec<usize>, (Option<Term>, Option<Term>, usize));
/// `pat[i]` = true: i-th element is taken with next(), false: with next_back(). Model: a deque over the lanes.
#[inline(never)]
fn iter_seq(s: &Section, ty: &str, ta: &[Term], pat: &[bool], got: Result<IterTrace, Caught>) {
    s.eval(pat.iter().any(|&b| b) && pat.iter().any(|&b| !b));
    let n = ta.len();
    let (mut lo, mut hi) = (0usize, n);
    let mut want = Vec::new(); let mut lens = vec![n];
    for &front in pat { if lo == hi { want.push(None); } else if front { want.push(Some(ta[lo])); lo += 1; } else { hi -= 1; want.push(Some(ta[hi])); } lens.push(hi - lo); }
    let fronts = pat.iter().filter(|&&b| b).count() as u64;
    let input = || json!({"lanes": jd(&ta), "pattern (true = next, false = next_back)": pat});
    match got {
        Ok((g, l, tail)) => {
            if g != want { s.violation_w(&format!("{} IntoIter next/next_back sequence", ty), "wrong-element", json!({"input": input(), "got": jd(&g), "want": jd(&want)}), fronts.min(pat.len() as u64 - fronts)); }
            if l != lens { s.violation_w(&format!("{} IntoIter len", ty), "wrong-length", json!({"input": input(), "got": l, "want": lens}), fronts.min(pat.len() as u64 - fronts)); }
            if pat.len() == n && (tail.0.is_some() || tail.1.is_some() || tail.2 != 0) { s.violation(&format!("{} IntoIter next/next_back sequence", ty), "yields-after-exhaustion", json!({"input": input(), "next": jd(&tail.0), "next_back": jd(&tail.1), "len": tail.2})); }
        }
        Err(Caught::Unmodelled(w)) => s.unmodelled(w),
        Err(Caught::Panic(m)) => s.violation(&format!("{} IntoIter next/next_back sequence", ty), "panic", json!({"input": input(), "panic": m})),
    }
}
macro_rules! iter_ty { ($s:expr, $V:ident, $name:literal, $N:expr, $kind:ident, [$($i:tt)+]) => {{
    #[inline(never)]
    fn run(s: &Section) {
        const N: usize = $N;
        let ta = vars(0, N);
        let a = <$V<Term>>::mk(&ta);
        // positional constructor
        lanes_eq(s, $name, concat!($name, " new"), catch(|| <$V<Term>>::new($(ta[$i]),+).de()), &ta);
        // mutable iteration writes through in lane order
        let w = |t: Term, i: usize| Term::bin("w", t, Term::cst(i as i64));
        lanes_eq(s, $name, concat!($name, " &mut V into_iter"), catch(|| { let mut m = a; for (i, e) in (&mut m).into_iter().enumerate() { *e = w(*e, i); } m.de() }), &(0..N).map(|i| w(ta[i], i)).collect::<Vec<_>>());
        lanes_eq(s, $name, concat!($name, " iter_mut().rev()"), catch(|| { let mut m = a; for (i, e) in m.iter_mut().rev().enumerate() { *e = w(*e, i); } m.de() }), &(0..N).map(|i| w(ta[i], N - 1 - i)).collect::<Vec<_>>());
        // consuming iterator from both ends
        let mut pats: Vec<Vec<bool>> = Vec::new();
        for k in 0..=N { pats.push((0..N).map(|i| i < k).collect()); pats.push((0..N).map(|i| i >= k).collect()); }
        for period in [2usize, 3, 5] { for phase in 0..period { pats.push((0..N).map(|i| (i + phase) % period == 0).collect()); pats.push((0..N).map(|i| (i + phase) % period != 0).collect()); } }
        if N <= (if s.thorough() { 16 } else { 8 }) { for m in 0u64..1u64.wrapping_shl(N as u32) { pats.push((0..N).map(|i| m >> i & 1 == 1).collect()); } }
        // partial consumption (prefixes of the mixed patterns): the remaining length must still be right
        let shorter: Vec<Vec<bool>> = pats.iter().filter(|p| p.len() > 2).take(2 * N + 8).map(|p| p[..p.len() / 2].to_vec()).collect();
        pats.extend(shorter);
        for p in &pats {
            s.class($name);
            iter_seq(s, $name, &ta, p, catch(|| {
                // never dropped: a broken iterator must show up as a reported violation, not as a second panic inside Drop while unwinding (abort); Term is Copy, nothing leaks
                let mut it = std::mem::ManuallyDrop::new(a.into_iter());
                let (mut out, mut lens) = (Vec::new(), vec![it.len()]);
                // a size_hint that disagrees with len() is recorded as the impossible length usize::MAX
                for &front in p { out.push(if front { it.next() } else { it.next_back() }); lens.push(if it.size_hint() == (it.len(), Some(it.len())) { it.len() } else { usize::MAX }); }
                let tail = if p.len() == N { (it.next(), it.next_back(), it.len()) } else { (None, None, 0) };
                (out, lens, tail)
            }));
        }
        if s.wants_sample() { let mut it = a.into_iter(); let f = it.next(); let b = it.next_back(); s.sample(json!({"type": $name, "lanes": jd(&ta), "next": jd(&f), "then next_back": jd(&b), "len after": it.len()})); }
    }
    run($s);
}} }

// ------------------------------------------------------------------------------------------------
// 10. call sequences on the in-place twins, closure call counts
// ------------------------------------------------------------------------------------------------
macro_rules! seq_ty { ($s:expr, $V:ident, $name:literal, $N:expr, $kind:ident, [$($i:tt)+]) => {{
    #[inline(never)]
    fn run(s: &Section) {
        const N: usize = $N;
        let (ta, tb, tc, s1, s2) = (vars(0, N), vars(100, N), vars(200, N), Term::var(998), Term::var(999));
        let ks: Vec<u32> = (0..N as u32).map(|i| 1000 + 7 * i).collect();
        let (a, b, c, k) = (<$V<Term>>::mk(&ta), <$V<Term>>::mk(&tb), <$V<Term>>::mk(&tc), <$V<u32>>::mk(&ks));
        let bin = Term::bin;
        // every compound assignment acts on the state left by the previous one
        lanes_eq(s, $name, concat!($name, " sequence += V; *= T; -= V; <<= T"), catch(|| { let mut m = a; m += b; m *= s1; m -= c; m <<= s2; m.de() }),
            &(0..N).map(|i| bin("shl", bin("sub", bin("mul", bin("add", ta[i], tb[i]), s1), tc[i]), s2)).collect::<Vec<_>>());
        lanes_eq(s, $name, concat!($name, " sequence ^= V; |= T; &= V; %= T; /= V; >>= V"), catch(|| { let mut m = a; m ^= b; m |= s1; m &= c; m %= s2; m /= b; m >>= c; m.de() }),
            &(0..N).map(|i| bin("shr", bin("div", bin("rem", bin("and", bin("or", bin("xor", ta[i], tb[i]), s1), tc[i]), s2), tb[i]), tc[i])).collect::<Vec<_>>());
        // in-place and by-value operators interleaved, the vector used as its own right-hand side
        lanes_eq(s, $name, concat!($name, " sequence += V; r = m * V; -= r; += m"), catch(|| { let mut m = a; m += b; let r = m * c; m -= r; let m2 = m; m += m2; m.de() }),
            &(0..N).map(|i| { let ab = bin("add", ta[i], tb[i]); let d = bin("sub", ab, bin("mul", ab, tc[i])); bin("add", d, d) }).collect::<Vec<_>>());
        // apply family on the state left by the previous apply
        let g = |x: Term| Term::un("g", x);
        let h = |x: Term, n: u32| Term::bin("h", x, Term::cst(n as i64));
        let h3 = |x: Term, n: u32, y: Term| Term::tri("h3", x, Term::cst(n as i64), y);
        lanes_eq(s, $name, concat!($name, " sequence apply; apply2; apply3; apply"), catch(|| { let mut m = a; m.apply(g); m.apply2(k, h); m.apply3(k, b, h3); m.apply(g); m.de() }),
            &(0..N).map(|i| g(h3(h(g(ta[i]), ks[i]), ks[i], tb[i]))).collect::<Vec<_>>());
        // the closure is called exactly once per element
        let counts = catch(|| {
            let mut n = [0usize; 6];
            let _ = a.map(|x| { n[0] += 1; x }); let _ = a.map2(k, |x, _| { n[1] += 1; x }); let _ = a.map3(k, b, |x, _, _| { n[2] += 1; x });
            let mut m = a; m.apply(|x| { n[3] += 1; x }); m.apply2(k, |x, _| { n[4] += 1; x }); m.apply3(k, b, |x, _, _| { n[5] += 1; x });
            n.to_vec()
        });
        lanes_eq(s, $name, concat!($name, " closure call counts of map map2 map3 apply apply2 apply3"), counts, &vec![N; 6]);
        if s.wants_sample() { s.sample(json!({"type": $name, "m = a; m += b; m *= s; m -= c; m <<= t  (lane 0)": jd(&{ let mut m = a; m += b; m *= s1; m -= c; m <<= s2; m.de()[0] })})); }
    }
    run($s);
}} }

// ------------------------------------------------------------------------------------------------
// 11. float functions on special values, rounding ties and f32 lanes; sign predicates on more element types
// ------------------------------------------------------------------------------------------------
trait Fl: Prim {
    /// 0 sqrt, 1 1/sqrt, 2 1/x, 3 ceil, 4 floor, 5 round (half away from zero)
    fn fun(self, k: usize) -> Self;
    fn specials() -> Vec<Self>;
    fn close(got: Self, want: Self) -> bool;
    fn finite_nonzero(self) -> bool;
}
macro_rules! fl_impl { ($P:ident, $close:ident, $below_half:expr, $big_odd:expr, $tiny:expr) => {
    impl Fl for $P {
        fn fun(self, k: usize) -> Self { match k { 0 => self.sqrt(), 1 => 1.0 / self.sqrt(), 2 => 1.0 / self, 3 => self.ceil(), 4 => self.floor(), _ => self.round() } }
        fn specials() -> Vec<Self> { vec![0.0, -0.0, 0.5, -0.5, 1.5, -1.5, 2.5, -2.5, $below_half, -$below_half, -4.0, 4.0, -7.0, 2.0, 0.1, -0.1, $big_odd, -$big_odd, 1e30, <$P>::MAX, <$P>::MIN, <$P>::MIN_POSITIVE, $tiny, -$tiny, <$P>::INFINITY, <$P>::NEG_INFINITY, <$P>::NAN,
            // audit round 2: nearly-one / nearly-integer values (a 'close enough to 1' or 'already integral' shortcut must not fire)
            1.0 + <$P>::EPSILON, 1.0 - <$P>::EPSILON / 2.0, 1.0 - <$P>::EPSILON, 1.0000001, 0.9999999, 1.0 + 4.0 * <$P>::EPSILON, 2.0 - <$P>::EPSILON, 2.0 + 2.0 * <$P>::EPSILON, -1.0 - <$P>::EPSILON, -1.0 + <$P>::EPSILON / 2.0, 1.5 - <$P>::EPSILON, 2.5 + 2.0 * <$P>::EPSILON, <$P>::EPSILON, -<$P>::EPSILON] }
        fn close(got: Self, want: Self) -> bool { vx::fl::$close(got, want as f64, want as f64) }
        fn finite_nonzero(self) -> bool { self.is_finite() && self != 0.0 }
    }
} }
fl_impl!(f64, close64, 0.49999999999999994, 4503599627370497.0, 5e-324);
fl_impl!(f32, close32, 0.49999997, 8388609.0, 1e-45);
#[inline(never)]
fn float_specials<F: Fl>(s: &Section, ty: &str, n: usize, f: &dyn Fn(&[F]) -> [Vec<F>; 6]) {
    let ks: &[usize] = if s.thorough() { &[1, 2, 3, 5, 7, 11, 13] } else { &[1, 7] };
    let mut count = 0u64;
    for (pi, x) in lane_patterns(&F::specials(), F::small(1), n, ks).iter().enumerate() {
        let got = match catch(|| f(x)) { Ok(g) => g, Err(e) => { s.eval(true); s.violation(&format!("{} float functions<{}>", ty, F::NAME), "panic", json!({"lanes": jd(x), "error": jd(&e)})); continue } };
        for k in 0..6 {
            count += 1;
            for i in 0..n {
                let want = x[i].fun(k);
                // one correctly rounded operation: same bits (any NaN equals any NaN); rsqrt (two roundings) on finite non-zero results: derived bound
                let ok = got[k].len() == n && (got[k][i].same(want) || (k == 1 && want.finite_nonzero() && F::close(got[k][i], want)));
                if !ok { s.violation_w(&format!("{} {}<{}>", ty, FUN6[k], F::NAME), "wrong-lane", json!({"lanes": jd(x), "lane": i, "got": jd(&got[k].get(i)), "want": jd(&want)}), pi as u64); break; }
            }
        }
    }
    s.evals(count, count); s.class_n(ty, count); s.class_n(F::NAME, count);
}
/// is_any_negative / are_all_positive: one deviating lane at every position over positive / negative / zero backgrounds
#[inline(never)]
fn sign_preds<P: Prim + PartialOrd>(s: &Section, ty: &str, n: usize, neg: &[P], pos: &[P], with_zero: bool, f: &dyn Fn(&[P]) -> (bool, bool)) {
    let zero = P::small(0);
    let mut vs: Vec<Vec<P>> = vec![(0..n).map(|i| pos[i % pos.len()]).collect(), (0..n).map(|i| neg[i % neg.len()]).collect()];
    let mut bgs: Vec<Vec<P>> = vec![vs[0].clone(), vs[1].clone()];
    if with_zero { vs.push(vec![zero; n]); bgs.push(vec![zero; n]); }
    let mut devs: Vec<P> = neg.iter().chain(pos.iter()).copied().collect(); if with_zero { devs.push(zero); }
    for bg in &bgs { for j in 0..n { for &d in &devs { let mut v = bg.clone(); v[j] = d; vs.push(v); } } }
    if s.thorough() { for bg in &bgs { for j in 0..n { for k in j + 1..n { for (&d, &e) in devs.iter().zip(devs.iter().rev()) { let mut v = bg.clone(); v[j] = d; v[k] = e; vs.push(v); } } } } }
    let mut count = 0u64;
    for v in &vs {
        let want = (v.iter().any(|&x| x < zero), v.iter().all(|&x| x > zero));
        let mixed = v.iter().any(|&x| x < zero) && v.iter().any(|&x| !(x < zero));
        s.evals(2, if mixed { 2 } else { 0 }); count += 2;
        match catch(|| f(v)) {
            Ok(g) => {
                if g.0 != want.0 { s.violation(&format!("{} is_any_negative<{}>", ty, P::NAME), "wrong-value", json!({"lanes": jd(v), "got": g.0})); }
                if g.1 != want.1 { s.violation(&format!("{} are_all_positive<{}>", ty, P::NAME), "wrong-value", json!({"lanes": jd(v), "got": g.1})); }
            }
            Err(e) => s.violation(&format!("{} sign predicates<{}>", ty, P::NAME), "panic", json!({"lanes": jd(v), "error": jd(&e)})),
        }
    }
    s.class_n(ty, count); s.class_n(P::NAME, count);
}
macro_rules! float2_ty { ($s:expr, $V:ident, $name:literal, $N:expr, $kind:ident, [$($i:tt)+]) => {{
    #[inline(never)]
    fn run(s: &Section) {
        float_specials::<f64>(s, $name, $N, &|x| { let v = <$V<f64>>::mk(x); [v.sqrt().de(), v.rsqrt().de(), v.recip().de(), v.ceil().de(), v.floor().de(), v.round().de()] });
        float_specials::<f32>(s, $name, $N, &|x| { let v = <$V<f32>>::mk(x); [v.sqrt().de(), v.rsqrt().de(), v.recip().de(), v.ceil().de(), v.floor().de(), v.round().de()] });
        sign_preds::<i8>(s, $name, $N, &[-1, i8::MIN, -77], &[1, i8::MAX, 50], true, &|x| { let v = <$V<i8>>::mk(x); (v.is_any_negative(), v.are_all_positive()) });
        sign_preds::<i64>(s, $name, $N, &[-1, i64::MIN, -5_000_000_000], &[1, i64::MAX, 7], true, &|x| { let v = <$V<i64>>::mk(x); (v.is_any_negative(), v.are_all_positive()) });
        sign_preds::<f64>(s, $name, $N, &[-1.0, f64::NEG_INFINITY, -f64::MIN_POSITIVE, -5e-324], &[1.0, f64::INFINITY, f64::MIN_POSITIVE, 5e-324], false, &|x| { let v = <$V<f64>>::mk(x); (v.is_any_negative(), v.are_all_positive()) });
        sign_preds::<f32>(s, $name, $N, &[-1.0, f32::NEG_INFINITY, -f32::MIN_POSITIVE, -1e-45], &[1.0, f32::INFINITY, f32::MIN_POSITIVE, 1e-45], false, &|x| { let v = <$V<f32>>::mk(x); (v.is_any_negative(), v.are_all_positive()) });
        if s.wants_sample() { let x: Vec<f64> = (0..$N).map(|i| [-2.5, -0.5, 0.5, 1.5, -4.0][i % 5]).collect(); s.sample(json!({"type": $name, "lanes": x, "round": <$V<f64>>::mk(&x).round().de(), "ceil": bitsv(&<$V<f64>>::mk(&x).ceil().de()), "sqrt": bitsv(&<$V<f64>>::mk(&x).sqrt().de())})); }
    }
    run($s);
}} }

// ------------------------------------------------------------------------------------------------
// 12. min/max family with the scalar as FIRST operand and with two scalars
// ------------------------------------------------------------------------------------------------
const SELS2: [&str; 8] = ["min(T,V)", "max(T,V)", "partial_min(T,V)", "partial_max(T,V)", "min(T,T)", "max(T,T)", "partial_min(T,T)", "partial_max(T,T)"];
#[inline(never)]
fn order_forms_i32(s: &Section, ty: &str, n: usize, sel: &dyn Fn(i32, &[i32], i32) -> [Vec<i32>; 8]) {
    let alpha: Vec<i32> = if s.thorough() { vec![i32::MIN, i32::MIN + 1, -2, -1, 0, 1, 3, i32::MAX - 1, i32::MAX] } else { vec![i32::MIN, -2, 0, 3, i32::MAX] };
    let ks: &[usize] = if s.thorough() { &[1, 2, 3, 5, 7] } else { &[1, 2] };
    let mut count = 0u64;
    for (pi, b) in lane_patterns(&alpha, 0, n, ks).iter().enumerate() { for &t in &alpha {
        let u = b[0];
        let rels = b.iter().map(|x| t.cmp(x)).collect::<std::collections::BTreeSet<_>>().len();
        let mn: Vec<i32> = b.iter().map(|&x| if t < x { t } else { x }).collect();
        let mx: Vec<i32> = b.iter().map(|&x| if t > x { t } else { x }).collect();
        let (mn2, mx2) = (vec![if t < u { t } else { u }; n], vec![if t > u { t } else { u }; n]);
        let want = [&mn, &mx, &mn, &mx, &mn2, &mx2, &mn2, &mx2];
        match catch(|| sel(t, b, u)) {
            Ok(g) => for f in 0..8 { count += 1; s.eval(if f < 4 { rels > 1 } else { t != u }); if &g[f] != want[f] {
                s.violation_w(&format!("{} {}<i32>", ty, SELS2[f]), "wrong-lane", json!({"first scalar": t, "vector (forms T,V)": b, "second scalar (forms T,T)": u, "got": g[f], "want": want[f]}), pi as u64); } },
            Err(e) => s.violation(&format!("{} min/max family, scalar first<i32>", ty), "panic", json!({"scalar": t, "vector": b, "error": jd(&e)})),
        }
    } }
    s.class_n(ty, count);
}
macro_rules! order2_ty { ($s:expr, $V:ident, $name:literal, $N:expr, $kind:ident, [$($i:tt)+]) => {{
    #[inline(never)]
    fn run(s: &Section) {
        type VI = $V<i32>;
        order_forms_i32(s, $name, $N, &|t, b, u| { let b = VI::mk(b); [VI::min(t, b).de(), VI::max(t, b).de(), VI::partial_min(t, b).de(), VI::partial_max(t, b).de(),
            VI::min(t, u).de(), VI::max(t, u).de(), VI::partial_min(t, u).de(), VI::partial_max(t, u).de()] });
        if s.wants_sample() { let b: Vec<i32> = (0..$N).map(|i| [-2, 0, 3][i % 3]).collect(); s.sample(json!({"type": $name, "min(0, b)": VI::min(0, VI::mk(&b)).de(), "b": b})); }
    }
    run($s);
}} }

// ------------------------------------------------------------------------------------------------
// 13. operators on concrete machine lanes (i8: all defined operand pairs; f64: special values; bool Not)
// ------------------------------------------------------------------------------------------------
const OPS10: [&str; 10] = ["Add", "Sub", "Mul", "Div", "Rem", "Shl", "Shr", "BitAnd", "BitOr", "BitXor"];
const FORMS5: [&str; 5] = ["V∘V", "&V∘&V", "V∘=V", "V∘T", "V∘=T"];
fn ref_i8(op: usize, x: i8, y: i8) -> Option<i8> {
    match op { 0 => x.checked_add(y), 1 => x.checked_sub(y), 2 => x.checked_mul(y), 3 => x.checked_div(y), 4 => x.checked_rem(y),
        5 => if (0..8).contains(&y) { Some(((x as u8) << y) as i8) } else { None }, 6 => if (0..8).contains(&y) { Some(x >> y) } else { None },
        7 => Some(x & y), 8 => Some(x | y), _ => Some(x ^ y) }
}
fn ref_f64(op: usize, x: f64, y: f64) -> f64 { match op { 0 => x + y, 1 => x - y, 2 => x * y, 3 => x / y, _ => x % y } }
type ConcFn<'a, P> = &'a (dyn Fn(usize, usize, &[P], &[P], P) -> Vec<P> + Sync);
/// `pairs_of(op)`: the operand pairs on which the scalar operation is defined. Vector forms: the pairs are dealt over the lanes
/// (vector j, lane i holds pair (j*n + i) mod m, and a second deal with the pair list reversed so that every pair meets other lanes);
/// scalar forms: for every right operand y, the left operands defined with y are dealt over the lanes.
#[inline(never)]
fn concrete_ops<P: Prim>(s: &Section, ty: &str, n: usize, nops: usize, alpha: &[P], reff: &(dyn Fn(usize, P, P) -> Option<P> + Sync), real: ConcFn<P>) {
    use rayon::prelude::*;
    let (evals, nontriv): (u64, u64) = (0..nops).into_par_iter().map(|op| {
        let (mut ev, mut nt) = (0u64, 0u64);
        let mut run = |form: usize, a: &[P], b: &[P], t: P| {
            let want: Vec<P> = (0..n).map(|i| reff(op, a[i], if form < 3 { b[i] } else { t }).unwrap()).collect();
            ev += 1; if want.iter().any(|w| !w.same(want[0])) { nt += 1; }
            let site = || format!("{} {} {} on {} lanes", ty, OPS10[op], FORMS5[form], P::NAME);
            match catch(|| real(op, form, a, b, t)) {
                Ok(g) => if g.len() != n || (0..n).any(|i| !g[i].same(want[i])) {
                    let lane = (0..n).find(|&i| g.get(i).map_or(true, |x| !x.same(want[i]))).unwrap_or(0);
                    s.violation_w(&site(), "wrong-lane", json!({"a": jd(&a), "b": jd(&b), "scalar": jd(&t), "lane": lane, "got": jd(&g), "want": jd(&want)}), a[lane].mag().saturating_add(b[lane].mag())); },
                Err(e) => s.violation(&site(), "panic", json!({"a": jd(&a), "b": jd(&b), "scalar": jd(&t), "error": jd(&e)})),
            }
        };
        let mut pairs: Vec<(P, P)> = alpha.iter().flat_map(|&x| alpha.iter().map(move |&y| (x, y))).filter(|&(x, y)| reff(op, x, y).is_some()).collect();
        for pass in 0..2 {
            let m = pairs.len();
            for c in (0..m).step_by(n) {
                let a: Vec<P> = (0..n).map(|i| pairs[(c + i) % m].0).collect();
                let b: Vec<P> = (0..n).map(|i| pairs[(c + i) % m].1).collect();
                for form in 0..3 { run(form, &a, &b, b[0]); }
            }
            if pass == 0 { pairs.reverse(); let r = pairs.len() / 3; pairs.rotate_left(r); }
        }
        for &y in alpha {
            let xs: Vec<P> = alpha.iter().copied().filter(|&x| reff(op, x, y).is_some()).collect();
            if xs.is_empty() { continue; }
            for c in (0..xs.len()).step_by(n) {
                let a: Vec<P> = (0..n).map(|i| xs[(c + i) % xs.len()]).collect();
                let b = vec![y; n];
                for form in 3..5 { run(form, &a, &b, y); }
            }
        }
        (ev, nt)
    }).reduce(|| (0, 0), |a, b| (a.0 + b.0, a.1 + b.1));
    s.evals(evals, nontriv); s.class_n(ty, evals); s.class_n(P::NAME, evals);
}
/// Neg / Not: every value of the alphabet on which the scalar operation is defined, dealt over the lanes
#[inline(never)]
fn concrete_unary<P: Copy + Debug + PartialEq>(s: &Section, ty: &str, n: usize, site: &str, vals: &[P], reff: &dyn Fn(P) -> P, real: &dyn Fn(&[P]) -> Vec<P>) {
    let mut count = 0u64;
    for pass in 0..2usize { for c in (0..vals.len()).step_by(n) {
        let a: Vec<P> = (0..n).map(|i| vals[(c + i * (1 + 2 * pass)) % vals.len()]).collect();
        let want: Vec<P> = a.iter().map(|&x| reff(x)).collect();
        s.eval(true); count += 1;
        match catch(|| real(&a)) {
            Ok(g) => if g != want { s.violation_w(site, "wrong-lane", json!({"lanes": jd(&a), "got": jd(&g), "want": jd(&want)}), c as u64); },
            Err(e) => s.violation(site, "panic", json!({"lanes": jd(&a), "error": jd(&e)})),
        }
    } }
    s.class_n(ty, count);
}
macro_rules! concrete_ty { ($s:expr, $V:ident, $name:literal, $N:expr, $kind:ident, [$($i:tt)+]) => {{
    #[inline(never)]
    fn run(s: &Section) {
        macro_rules! forms { ($op:tt, $opa:tt, $a:expr, $b:expr, $t:expr, $form:expr) => { match $form {
            0 => ($a $op $b).de(), 1 => (&$a $op &$b).de(), 2 => { let mut m = $a; m $opa $b; m.de() },
            3 => ($a $op $t).de(), _ => { let mut m = $a; m $opa $t; m.de() } } } }
        let alpha_i8: Vec<i8> = if s.thorough() { (i8::MIN..=i8::MAX).collect() } else { vec![-128, -127, -64, -3, -2, -1, 0, 1, 2, 3, 5, 7, 8, 63, 64, 126, 127] };
        concrete_ops::<i8>(s, $name, $N, 10, &alpha_i8, &ref_i8, &|op, form, a, b, t| { let (a, b) = (<$V<i8>>::mk(a), <$V<i8>>::mk(b)); match op {
            0 => forms!(+, +=, a, b, t, form), 1 => forms!(-, -=, a, b, t, form), 2 => forms!(*, *=, a, b, t, form), 3 => forms!(/, /=, a, b, t, form), 4 => forms!(%, %=, a, b, t, form),
            5 => forms!(<<, <<=, a, b, t, form), 6 => forms!(>>, >>=, a, b, t, form), 7 => forms!(&, &=, a, b, t, form), 8 => forms!(|, |=, a, b, t, form), _ => forms!(^, ^=, a, b, t, form) } });
        concrete_ops::<f64>(s, $name, $N, 5, &<f64 as Prim>::alphabet(false), &|op, x, y| Some(ref_f64(op, x, y)), &|op, form, a, b, t| { let (a, b) = (<$V<f64>>::mk(a), <$V<f64>>::mk(b)); match op {
            0 => forms!(+, +=, a, b, t, form), 1 => forms!(-, -=, a, b, t, form), 2 => forms!(*, *=, a, b, t, form), 3 => forms!(/, /=, a, b, t, form), _ => forms!(%, %=, a, b, t, form) } });
        let all_i8: Vec<i8> = (i8::MIN..=i8::MAX).collect();
        concrete_unary::<i8>(s, $name, $N, concat!($name, " Neg on i8 lanes"), &all_i8[1..], &|x| -x, &|l| (-<$V<i8>>::mk(l)).de());
        concrete_unary::<i8>(s, $name, $N, concat!($name, " Not on i8 lanes"), &all_i8, &|x| !x, &|l| (!<$V<i8>>::mk(l)).de());
        concrete_unary::<bool>(s, $name, $N, concat!($name, " Not on bool lanes"), &[true, false, false, true, true, true, false], &|x| !x, &|l| (!<$V<bool>>::mk(l)).de());
        concrete_unary::<i64>(s, $name, $N, concat!($name, " Neg on i64 lanes"), &[0, 1, -1, i64::MAX, i64::MIN + 1, 1 << 40, -(1 << 40), 7, -9], &|x| -x, &|l| (-<$V<i64>>::mk(l)).de());
        if s.wants_sample() { let a: Vec<i8> = (0..$N).map(|i| [-128i8, 127, -1, 64][i % 4]).collect(); let b: Vec<i8> = (0..$N).map(|i| [-1i8, 127, -128, 2][i % 4]).collect();
            s.sample(json!({"type": $name, "a": a, "b": b, "a ^ b": (<$V<i8>>::mk(&a) ^ <$V<i8>>::mk(&b)).de(), "a >> 3": (<$V<i8>>::mk(&a) >> 3i8).de()})); }
    }
    run($s);
}} }

// ================================================================================================
// AUDIT ROUND 2: sections added after the adversarial second pass (see out/AUDIT2.md)
// ================================================================================================

// ------------------------------------------------------------------------------------------------
// 14. as_ / numcast on conversion pairs where a detour through i64 / u64 / f64 / f32 changes the answer
// ------------------------------------------------------------------------------------------------
/// float results are compared as bit patterns (every NaN canonicalised)
fn cb32(x: f32) -> u32 { if x.is_nan() { 0x7fc0_0000 } else { x.to_bits() } }
fn cb64(x: f64) -> u64 { if x.is_nan() { 0x7ff8_0000_0000_0000 } else { x.to_bits() } }
/// 2^60 + 2^36 + 1: rounds UP to f32 directly (just above the tie) but to 2^60 when first rounded to f64 (exact tie, then to even)
const DR: i64 = (1i64 << 60) + (1 << 36) + 1;
fn cast2_f64() -> Vec<f64> { vec![0.1, -2.75, 0.5, -0.0, 1.0 + 1.0 / 16777216.0, 1.0 + 3.0 / 16777216.0, 16777217.0, 1e-50, 5e-324, 1e39, -1e39, 3.4028235677973366e38, f64::MAX, 9223372036854775808.0,
    18446744073709551616.0, 9007199254740994.0, 4294967296.5, -0.99, -1.0, f64::NAN, f64::INFINITY, f64::NEG_INFINITY] }
fn cast2_f32() -> Vec<f32> { vec![0.1, -2.75, 0.5, -0.0, 1e-45, f32::MAX, f32::MIN_POSITIVE, 16777216.0, 1.5, 3e9, -3e9, 1e20, 9.223372e18, f32::NAN, f32::INFINITY, f32::NEG_INFINITY] }
fn cast2_u64() -> Vec<u64> { vec![0, 1, 255, (1 << 53) + 1, (1 << 63) - 1, 1 << 63, (1 << 63) + 1, u64::MAX - 1, u64::MAX, 12345678901234567, DR as u64, (1 << 24) + 1] }
fn cast2_i64() -> Vec<i64> { vec![0, 1, -1, DR, -DR, DR - 1, DR - 2, (1 << 53) + 1, -(1 << 53) - 1, i64::MAX, i64::MAX - 1, i64::MIN, i64::MIN + 1, (1 << 25) + 1, 33554435, -129, 4294967296] }
macro_rules! cast2_ty { ($s:expr, $V:ident, $name:literal, $N:expr, $kind:ident, [$($i:tt)+]) => {{
    #[inline(never)]
    fn run(s: &Section) {
        use num_traits::NumCast;
        let (af64, af32, au64, ai64) = (cast2_f64(), cast2_f32(), cast2_u64(), cast2_i64());
        cast_check::<f64, u32>(s, $name, $N, "f64", "f32", &af64, 1.0, &|x| cb32(x as f32), &|x| <f32 as NumCast>::from(x).map(cb32),
            &|l| <$V<f64>>::mk(l).as_::<f32>().de().into_iter().map(cb32).collect(), &|l| <$V<f64>>::mk(l).numcast::<f32>().map(|v| v.de().into_iter().map(cb32).collect()));
        cast_check::<f64, u64>(s, $name, $N, "f64", "f64", &af64, 1.0, &|x| cb64(x as f64), &|x| <f64 as NumCast>::from(x).map(cb64),
            &|l| <$V<f64>>::mk(l).as_::<f64>().de().into_iter().map(cb64).collect(), &|l| <$V<f64>>::mk(l).numcast::<f64>().map(|v| v.de().into_iter().map(cb64).collect()));
        cast_check::<f32, u64>(s, $name, $N, "f32", "f64", &af32, 1.0, &|x| cb64(x as f64), &|x| <f64 as NumCast>::from(x).map(cb64),
            &|l| <$V<f32>>::mk(l).as_::<f64>().de().into_iter().map(cb64).collect(), &|l| <$V<f32>>::mk(l).numcast::<f64>().map(|v| v.de().into_iter().map(cb64).collect()));
        cast_check::<f32, i64>(s, $name, $N, "f32", "i64", &af32, 1.0, &|x| x as i64, &|x| <i64 as NumCast>::from(x),
            &|l| <$V<f32>>::mk(l).as_::<i64>().de(), &|l| <$V<f32>>::mk(l).numcast::<i64>().map(|v| v.de()));
        cast_check::<f64, u64>(s, $name, $N, "f64", "u64", &af64, 1.0, &|x| x as u64, &|x| <u64 as NumCast>::from(x),
            &|l| <$V<f64>>::mk(l).as_::<u64>().de(), &|l| <$V<f64>>::mk(l).numcast::<u64>().map(|v| v.de()));
        cast_check::<u64, u64>(s, $name, $N, "u64", "u64", &au64, 3, &|x| x, &|x| <u64 as NumCast>::from(x),
            &|l| <$V<u64>>::mk(l).as_::<u64>().de(), &|l| <$V<u64>>::mk(l).numcast::<u64>().map(|v| v.de()));
        cast_check::<u64, i64>(s, $name, $N, "u64", "i64", &au64, 3, &|x| x as i64, &|x| <i64 as NumCast>::from(x),
            &|l| <$V<u64>>::mk(l).as_::<i64>().de(), &|l| <$V<u64>>::mk(l).numcast::<i64>().map(|v| v.de()));
        cast_check::<u64, u32>(s, $name, $N, "u64", "f32", &au64, 3, &|x| cb32(x as f32), &|x| <f32 as NumCast>::from(x).map(cb32),
            &|l| <$V<u64>>::mk(l).as_::<f32>().de().into_iter().map(cb32).collect(), &|l| <$V<u64>>::mk(l).numcast::<f32>().map(|v| v.de().into_iter().map(cb32).collect()));
        cast_check::<i64, i64>(s, $name, $N, "i64", "i64", &ai64, 3, &|x| x, &|x| <i64 as NumCast>::from(x),
            &|l| <$V<i64>>::mk(l).as_::<i64>().de(), &|l| <$V<i64>>::mk(l).numcast::<i64>().map(|v| v.de()));
        cast_check::<i64, u32>(s, $name, $N, "i64", "f32 (bits)", &ai64, 3, &|x| cb32(x as f32), &|x| <f32 as NumCast>::from(x).map(cb32),
            &|l| <$V<i64>>::mk(l).as_::<f32>().de().into_iter().map(cb32).collect(), &|l| <$V<i64>>::mk(l).numcast::<f32>().map(|v| v.de().into_iter().map(cb32).collect()));
        cast_check::<i64, i8>(s, $name, $N, "i64", "i8", &ai64, 3, &|x| x as i8, &|x| <i8 as NumCast>::from(x),
            &|l| <$V<i64>>::mk(l).as_::<i8>().de(), &|l| <$V<i64>>::mk(l).numcast::<i8>().map(|v| v.de()));
        if s.wants_sample() { let l: Vec<i64> = (0..$N).map(|i| if i == $N - 1 { DR } else { i as i64 }).collect();
            s.sample(json!({"type": $name, "lanes": l, "numcast::<f32> last lane": jd(&<$V<i64>>::mk(&l).numcast::<f32>().map(|v| v.de()[$N - 1])), "the same value rounded through f64 first": (DR as f64) as f32})); }
    }
    run($s);
}} }

// ------------------------------------------------------------------------------------------------
// 15. from_iter on sources that end early / never end, slice-view trait twins, iota on more element types
// ------------------------------------------------------------------------------------------------
macro_rules! ctor2_ty { ($s:expr, $V:ident, $name:literal, $N:expr, $kind:ident, [$($i:tt)+]) => {{
    #[inline(never)]
    fn run(s: &Section) {
        use std::borrow::{Borrow, BorrowMut};
        use std::ops::{Deref, DerefMut};
        const N: usize = $N;
        const M: usize = N + 3;
        let ta = vars(0, N);
        let a = <$V<Term>>::mk(&ta);
        let src = vars(300, M);
        let (dflt, sc) = (Term::default(), Term::var(999));
        // (a) a source that yields again after its first None: the sequence ends at the first None, the rest stays Default
        for k in 0..=N {
            let want: Vec<Term> = (0..N).map(|i| if i < k { src[i] } else { dflt }).collect();
            lanes_eq(s, $name, concat!($name, " from_iter(source that yields again after its first None)"), catch(|| {
                let (mut i, mut gap) = (0usize, false);
                std::iter::from_fn(|| { if i == k && !gap { gap = true; return None; } let r = src[i % M]; i += 1; Some(r) }).collect::<$V<Term>>().de() }), &want);
        }
        // (b) sources that never end (size_hint lower bound usize::MAX): the first N items, in order
        let pre: Vec<Term> = src[..N].to_vec();
        lanes_eq(s, $name, concat!($name, " from_iter(endless source, size_hint (usize::MAX, None))"), catch(|| (0usize..).map(|i| src[i % M]).collect::<$V<Term>>().de()), &pre);
        lanes_eq(s, $name, concat!($name, " from_iter(endless source, take(usize::MAX))"), catch(|| (0usize..).map(|i| src[i % M]).take(usize::MAX).collect::<$V<Term>>().de()), &pre);
        lanes_eq(s, $name, concat!($name, " from_iter(cycle)"), catch(|| src.iter().copied().cycle().collect::<$V<Term>>().de()), &pre);
        lanes_eq(s, $name, concat!($name, " from_iter(repeat)"), catch(|| std::iter::repeat(sc).collect::<$V<Term>>().de()), &vec![sc; N]);
        for h in [0usize, 1, N / 2, N - 1] {
            lanes_eq(s, $name, concat!($name, " from_iter(exact prefix chained with an endless source)"), catch(|| src[..h].iter().copied().chain((h..).map(|i| src[i % M])).collect::<$V<Term>>().de()), &pre);
        }
        // (c) the slice-view trait forms of as_slice / as_mut_slice (implemented as separate impls): same elements, same order, same length
        lanes_eq(s, $name, concat!($name, " AsRef<[T]>"), catch(|| <$V<Term> as AsRef<[Term]>>::as_ref(&a).to_vec()), &ta);
        lanes_eq(s, $name, concat!($name, " Borrow<[T]>"), catch(|| <$V<Term> as Borrow<[Term]>>::borrow(&a).to_vec()), &ta);
        lanes_eq(s, $name, concat!($name, " Deref<Target=[T]>"), catch(|| <$V<Term> as Deref>::deref(&a).to_vec()), &ta);
        lanes_eq(s, $name, concat!($name, " AsRef<Self>"), catch(|| <$V<Term> as AsRef<$V<Term>>>::as_ref(&a).de()), &ta);
        let w = |t: Term, i: usize| Term::bin("w", t, Term::cst(i as i64));
        let ww: Vec<Term> = (0..N).map(|i| w(ta[i], i)).collect();
        lanes_eq(s, $name, concat!($name, " AsMut<[T]>"), catch(|| { let mut m = a; let l = <$V<Term> as AsMut<[Term]>>::as_mut(&mut m); let n = l.len(); for (i, e) in l.iter_mut().enumerate() { *e = w(*e, i); } let mut d = m.de(); if n != N { d.clear(); } d }), &ww);
        lanes_eq(s, $name, concat!($name, " BorrowMut<[T]>"), catch(|| { let mut m = a; let l = <$V<Term> as BorrowMut<[Term]>>::borrow_mut(&mut m); let n = l.len(); for (i, e) in l.iter_mut().enumerate() { *e = w(*e, i); } let mut d = m.de(); if n != N { d.clear(); } d }), &ww);
        lanes_eq(s, $name, concat!($name, " DerefMut"), catch(|| { let mut m = a; let l = <$V<Term> as DerefMut>::deref_mut(&mut m); let n = l.len(); for (i, e) in l.iter_mut().enumerate() { *e = w(*e, i); } let mut d = m.de(); if n != N { d.clear(); } d }), &ww);
        lanes_eq(s, $name, concat!($name, " AsMut<Self>"), catch(|| { let mut m = a; { let r = <$V<Term> as AsMut<$V<Term>>>::as_mut(&mut m); r.apply(|x| Term::un("g", x)); } m.de() }), &ta.iter().map(|&x| Term::un("g", x)).collect::<Vec<_>>());
        // (d) iota on further element types (lane i = i, counted in the element type's own arithmetic)
        lanes_eq(s, $name, concat!($name, " iota<i8>"), catch(|| <$V<i8>>::iota().de()), &(0..N as i8).collect::<Vec<_>>());
        lanes_eq(s, $name, concat!($name, " iota<i64>"), catch(|| <$V<i64>>::iota().de()), &(0..N as i64).collect::<Vec<_>>());
        lanes_eq(s, $name, concat!($name, " iota<u64>"), catch(|| <$V<u64>>::iota().de()), &(0..N as u64).collect::<Vec<_>>());
        lanes_eq(s, $name, concat!($name, " iota<f32>"), catch(|| <$V<f32>>::iota().de().into_iter().map(cb32).collect::<Vec<_>>()), &(0..N).map(|i| cb32(i as f32)).collect::<Vec<_>>());
        lanes_eq(s, $name, concat!($name, " iota<f64>"), catch(|| <$V<f64>>::iota().de().into_iter().map(cb64).collect::<Vec<_>>()), &(0..N).map(|i| cb64(i as f64)).collect::<Vec<_>>());
        lanes_eq(s, $name, concat!($name, " iota<Wrapping<u16>>"), catch(|| <$V<Wrapping<u16>>>::iota().de()), &(0..N as u16).map(Wrapping).collect::<Vec<_>>());
        if s.wants_sample() { s.sample(json!({"type": $name, "source": "yields src[0], then None once, then src[1], src[2], ...", "from_iter": jd(&{ let (mut i, mut gap) = (0usize, false);
            std::iter::from_fn(|| { if i == 1 && !gap { gap = true; return None; } let r = src[i % M]; i += 1; Some(r) }).collect::<$V<Term>>().de() })})); }
    }
    run($s);
}} }

// ------------------------------------------------------------------------------------------------
// 16. reduce_and / reduce_or: pairs of non-zero lanes that cancel under a fold
// ------------------------------------------------------------------------------------------------
/// two non-zero lanes (x at j, y at k) whose sum / wrapping sum / xor / and / product (wrapping or underflowing) is zero,
/// over all-zero backgrounds (reduce_or must stay true) and over all-one backgrounds (reduce_and must stay true)
#[inline(never)]
fn prim_reduce_pairs<P: Prim>(s: &Section, ty: &str, wrap: &str, n: usize, f: &dyn Fn(&[P]) -> (bool, bool)) {
    let (site_and, site_or) = (format!("{} reduce_and<{}{}>", ty, wrap, P::NAME), format!("{} reduce_or<{}{}>", ty, wrap, P::NAME));
    let mut bgs: Vec<Vec<P>> = P::zeros().into_iter().map(|z| vec![z; n]).collect();
    bgs.push(vec![P::small(1); n]);
    let mut count = 0u64;
    for (pi, &(x, y)) in P::cancel_pairs().iter().enumerate() { for bg in &bgs { for j in 0..n { for k in [(j + 1) % n, (j + n / 2) % n, (j + n - 1) % n] {
        if k == j { continue; }
        let mut v = bg.clone(); v[j] = x; v[k] = y;
        count += 2;
        let mixed = v.iter().any(|x| x.is_zero_ref()) && v.iter().any(|x| !x.is_zero_ref());
        s.evals(2, if mixed { 2 } else { 0 });
        match catch(|| f(&v)) {
            Ok((a, o)) => {
                if a != v.iter().all(|x| !x.is_zero_ref()) { s.violation_w(&site_and, "wrong-value", json!({"lanes": jd(&v), "got": a}), (4 + pi) as u64); }
                if o != v.iter().any(|x| !x.is_zero_ref()) { s.violation_w(&site_or, "wrong-value", json!({"lanes": jd(&v), "got": o}), (4 + pi) as u64); }
            }
            Err(e) => s.violation(&site_and, "panic", json!({"lanes": jd(&v), "error": jd(&e)})),
        }
    } } } }
    s.class_n(ty, count);
    s.class_n(&format!("{}{}", wrap, P::NAME), count);
}
macro_rules! boolred_pairs_ty { ($s:expr, $V:ident, $name:literal, $N:expr, $kind:ident, [$($i:tt)+]) => {{
    #[inline(never)]
    fn run(s: &Section) {
        macro_rules! int { ($P:ident) => {
            prim_reduce_pairs::<$P>(s, $name, "", $N, &|l| { let v = <$V<$P>>::mk(l); (v.reduce_and(), v.reduce_or()) });
            prim_reduce_pairs::<$P>(s, $name, "Wrapping ", $N, &|l| { let v = <$V<Wrapping<$P>>>::mk(&l.iter().map(|x| Wrapping(*x)).collect::<Vec<_>>()); (v.reduce_and(), v.reduce_or()) });
        } }
        int!(i8); int!(u8); int!(i16); int!(u16); int!(i32); int!(u32); int!(i64); int!(u64);
        prim_reduce_pairs::<f32>(s, $name, "", $N, &|l| { let v = <$V<f32>>::mk(l); (v.reduce_and(), v.reduce_or()) });
        prim_reduce_pairs::<f64>(s, $name, "", $N, &|l| { let v = <$V<f64>>::mk(l); (v.reduce_and(), v.reduce_or()) });
        if s.wants_sample() { let l: Vec<f32> = (0..$N).map(|i| if i == 0 { 1.0 } else if i == $N - 1 { -1.0 } else { 0.0 }).collect(); let v = <$V<f32>>::mk(&l); s.sample(json!({"type": $name, "lanes": l, "reduce_and": v.reduce_and(), "reduce_or": v.reduce_or()})); }
    }
    run($s);
}} }

// ------------------------------------------------------------------------------------------------
// 17. operators, fused multiply-add and reductions on lanes holding the constants 0 and 1 and equal operands (free terms)
// ------------------------------------------------------------------------------------------------
/// In the free term algebra `x + 0` is literally `add(x, 0)`: an implementation that special-cases a zero / one / equal operand
/// (legal only for some element types: -0.0 + 0.0, inf * 0, NaN - NaN, 0 / 0 ...) returns a different term.
macro_rules! special_ty { ($s:expr, $V:ident, $name:literal, $N:expr, $kind:ident, [$($i:tt)+]) => {{
    #[inline(never)]
    fn run(s: &Section) {
        use vek::ops::MulAdd;
        const N: usize = $N;
        let (z, o) = (Term::cst(0), Term::cst(1));
        for r in 0..10usize {
            let pick = |i: usize| -> (Term, Term) { let (va, vb) = (Term::var(i as u32), Term::var(100 + i as u32));
                match (i + r) % 10 { 0 => (va, z), 1 => (z, vb), 2 => (va, o), 3 => (o, vb), 4 => (va, va), 5 => (z, z), 6 => (o, o), 7 => (z, o), 8 => (o, z), _ => (va, vb) } };
            let ta: Vec<Term> = (0..N).map(|i| pick(i).0).collect();
            let tb: Vec<Term> = (0..N).map(|i| pick(i).1).collect();
            let tc: Vec<Term> = (0..N).map(|i| match (i + r / 2) % 5 { 0 => z, 1 => o, 2 => ta[i], 3 => tb[i], _ => Term::var(200 + i as u32) }).collect();
            let sc = [z, o, Term::var(0), Term::var(999)][r % 4];
            let s2 = [o, Term::var(999), z, Term::var(0)][r % 4];
            let (a, b, c) = (<$V<Term>>::mk(&ta), <$V<Term>>::mk(&tb), <$V<Term>>::mk(&tc));
            macro_rules! one { ($op:tt, $opa:tt, $sym:literal, $tn:literal) => {{
                let wv: Vec<Term> = (0..N).map(|i| Term::bin($tn, ta[i], tb[i])).collect();
                let ws: Vec<Term> = (0..N).map(|i| Term::bin($tn, ta[i], sc)).collect();
                lanes_eq(s, $name, concat!($name, " ", $sym, " V∘V on lanes holding 0 / 1 / equal operands"), catch(|| (a $op b).de()), &wv);
                lanes_eq(s, $name, concat!($name, " ", $sym, " V∘&V on lanes holding 0 / 1 / equal operands"), catch(|| (a $op &b).de()), &wv);
                lanes_eq(s, $name, concat!($name, " ", $sym, " &V∘V on lanes holding 0 / 1 / equal operands"), catch(|| (&a $op b).de()), &wv);
                lanes_eq(s, $name, concat!($name, " ", $sym, " &V∘&V on lanes holding 0 / 1 / equal operands"), catch(|| (&a $op &b).de()), &wv);
                lanes_eq(s, $name, concat!($name, " ", $sym, " V∘T on lanes holding 0 / 1 / equal operands"), catch(|| (a $op sc).de()), &ws);
                lanes_eq(s, $name, concat!($name, " ", $sym, " &V∘T on lanes holding 0 / 1 / equal operands"), catch(|| (&a $op sc).de()), &ws);
                lanes_eq(s, $name, concat!($name, " ", $sym, " &V∘&T on lanes holding 0 / 1 / equal operands"), catch(|| (&a $op &sc).de()), &ws);
                lanes_eq(s, $name, concat!($name, " ", $sym, " V∘=V on lanes holding 0 / 1 / equal operands"), catch(|| { let mut m = a; m $opa b; m.de() }), &wv);
                lanes_eq(s, $name, concat!($name, " ", $sym, " V∘=T on lanes holding 0 / 1 / equal operands"), catch(|| { let mut m = a; m $opa sc; m.de() }), &ws);
            }} }
            one!(+, +=, "Add", "add"); one!(-, -=, "Sub", "sub"); one!(*, *=, "Mul", "mul"); one!(/, /=, "Div", "div"); one!(%, %=, "Rem", "rem");
            one!(<<, <<=, "Shl", "shl"); one!(>>, >>=, "Shr", "shr"); one!(&, &=, "BitAnd", "and"); one!(|, |=, "BitOr", "or"); one!(^, ^=, "BitXor", "xor");
            let un = |n: &'static str| -> Vec<Term> { (0..N).map(|i| Term::un(n, ta[i])).collect() };
            lanes_eq(s, $name, concat!($name, " Neg on lanes holding 0 / 1"), catch(|| (-a).de()), &un("neg"));
            lanes_eq(s, $name, concat!($name, " Not on lanes holding 0 / 1"), catch(|| (!a).de()), &un("not"));
            let fma = |m: &dyn Fn(usize) -> Term, d: &dyn Fn(usize) -> Term| -> Vec<Term> { (0..N).map(|i| Term::tri("fma", ta[i], m(i), d(i))).collect() };
            let w = fma(&|i| tb[i], &|i| tc[i]);
            lanes_eq(s, $name, concat!($name, " MulAdd V.(V,V) on lanes holding 0 / 1 / equal operands"), catch(|| MulAdd::mul_add(a, b, c).de()), &w);
            lanes_eq(s, $name, concat!($name, " MulAdd &V.(V,V) on lanes holding 0 / 1 / equal operands"), catch(|| MulAdd::mul_add(&a, b, c).de()), &w);
            lanes_eq(s, $name, concat!($name, " MulAdd V.(V,&V) on lanes holding 0 / 1 / equal operands"), catch(|| MulAdd::mul_add(a, b, &c).de()), &w);
            lanes_eq(s, $name, concat!($name, " MulAdd &V.(V,&V) on lanes holding 0 / 1 / equal operands"), catch(|| MulAdd::mul_add(&a, b, &c).de()), &w);
            lanes_eq(s, $name, concat!($name, " MulAdd V.(&V,V) on lanes holding 0 / 1 / equal operands"), catch(|| MulAdd::mul_add(a, &b, c).de()), &w);
            lanes_eq(s, $name, concat!($name, " MulAdd &V.(&V,V) on lanes holding 0 / 1 / equal operands"), catch(|| MulAdd::mul_add(&a, &b, c).de()), &w);
            lanes_eq(s, $name, concat!($name, " MulAdd V.(&V,&V) on lanes holding 0 / 1 / equal operands"), catch(|| MulAdd::mul_add(a, &b, &c).de()), &w);
            lanes_eq(s, $name, concat!($name, " MulAdd &V.(&V,&V) on lanes holding 0 / 1 / equal operands"), catch(|| MulAdd::mul_add(&a, &b, &c).de()), &w);
            lanes_eq(s, $name, concat!($name, " mul_add(V,V) on lanes holding 0 / 1 / equal operands"), catch(|| a.mul_add(b, c).de()), &w);
            lanes_eq(s, $name, concat!($name, " mul_add(T,V) on lanes holding 0 / 1 / equal operands"), catch(|| a.mul_add(sc, c).de()), &fma(&|_| sc, &|i| tc[i]));
            lanes_eq(s, $name, concat!($name, " mul_add(V,T) on lanes holding 0 / 1 / equal operands"), catch(|| a.mul_add(b, s2).de()), &fma(&|i| tb[i], &|_| s2));
            lanes_eq(s, $name, concat!($name, " mul_add(T,T) on lanes holding 0 / 1 / equal operands"), catch(|| a.mul_add(sc, s2).de()), &fma(&|_| sc, &|_| s2));
            // reductions: every lane takes part, also a zero / one / repeated lane
            ac_eq(s, $name, concat!($name, " sum on lanes holding 0 / 1 / repeats"), "add", None, catch(|| b.sum()), &tb);
            ac_eq(s, $name, concat!($name, " product on lanes holding 0 / 1 / repeats"), "mul", None, catch(|| b.product()), &tb);
            ac_eq(s, $name, concat!($name, " reduce_bitand on lanes holding 0 / 1 / repeats"), "and", None, catch(|| b.reduce_bitand()), &tb);
            ac_eq(s, $name, concat!($name, " reduce_bitor on lanes holding 0 / 1 / repeats"), "or", None, catch(|| b.reduce_bitor()), &tb);
            ac_eq(s, $name, concat!($name, " reduce_bitxor on lanes holding 0 / 1 / repeats"), "xor", None, catch(|| b.reduce_bitxor()), &tb);
            {
                s.eval(true); s.class($name);
                let site = concat!($name, " average on lanes holding 0 / 1 / repeats");
                match catch(|| b.average()) {
                    Ok(t) => match t.node() {
                        vx::term::Node::Bin("div", num, den) if den == Term::cst(N as i64) && num.ac_leaves("add") == sorted(tb.clone()) => {}
                        _ => s.violation(site, "wrong-value", json!({"lanes": jd(&tb), "got_term": jd(&t), "want": format!("div(sum of the {} lanes, {})", N, N)})),
                    },
                    Err(e) => s.violation(site, "panic", json!({"error": jd(&e)})),
                }
            }
            let want_fold = tb[1..].iter().fold(tb[0], |acc, x| Term::bin("f", acc, *x));
            scalar_eq(s, $name, concat!($name, " reduce(f) on lanes holding 0 / 1 / repeats"), &|| json!({"lanes": jd(&tb)}), catch(|| b.reduce(|x, y| Term::bin("f", x, y))), &want_fold, 0);
            let cat: Vec<Term> = ta.iter().chain(tb.iter()).copied().collect();
            let want_h: Vec<Vec<Term>> = (0..N).map(|i| vec![cat[2 * i], cat[2 * i + 1]]).collect();
            ac_lanes_eq(s, $name, concat!($name, " hadd on lanes holding 0 / 1 / equal operands"), "add", None, catch(|| a.hadd(b).de()), &want_h);
            if_spatial!($kind, {
                dot_eq(s, $name, concat!($name, " dot on lanes holding 0 / 1 / equal operands"), catch(|| a.dot(b)), &ta, &tb);
                dot_eq(s, $name, concat!($name, " dot on lanes holding 0 / 1 / equal operands"), catch(|| b.dot(c)), &tb, &tc);
                dot_eq(s, $name, concat!($name, " magnitude_squared on lanes holding 0 / 1 / repeats"), catch(|| b.magnitude_squared()), &tb, &tb);
            });
            if r == 0 && s.wants_sample() { s.sample(json!({"type": $name, "a": jd(&ta), "b": jd(&tb), "a * b decoded through fields": jd(&(a * b).de()), "b.product()": jd(&b.product())})); }
        }
    }
    run($s);
}} }

fn main() {
    let rep = Report::start("C02", "exploration");

    rep.section("binary operators, 7 operand forms (free terms)",
        "13 vector types x 10 operators (Add Sub Mul Div Rem Shl Shr BitAnd BitOr BitXor) x 7 forms (V∘V, V∘&V, &V∘V, &V∘&V, V∘T via Into, &V∘T, &V∘&T): each configuration run once on pairwise distinct uninterpreted terms (the most general input); every lane i compared with op(a_i, b_i) resp. op(a_i, s); one evaluation per configuration; non-trivial: all",
        true, true, |s| { s.require_classes(&ALL_TYPES); for_all_vecs!(binops_ty, s); });
    rep.section("compound assignment (free terms)",
        "13 types x 10 compound-assignment operators x {vector rhs, scalar rhs}: one run each on distinct free terms, every lane compared; non-trivial: all",
        true, true, |s| { s.require_classes(&ALL_TYPES); for_all_vecs!(assign_ty, s); });
    rep.section("Neg, Not, MulAdd trait (8 borrow forms), inherent mul_add (free terms)",
        "13 types x {Neg, Not, 8 owned/borrowed MulAdd impls, inherent mul_add with (V,V) (T,V) (V,T) (T,T)}: one run each on distinct free terms, lane i must be fma(a_i, b_i, c_i) with scalars standing for their copies; non-trivial: all",
        true, true, |s| { s.require_classes(&ALL_TYPES); for_all_vecs!(unary_fma_ty, s); });
    rep.section("reductions (free terms, AC-flattened)",
        "13 types: sum product reduce_bitand/bitor/bitxor (operator tree over exactly the N lanes, association free), average (= div(sum, N)), reduce(f) with a non-commutative uninterpreted f (= left fold in lane order), hadd (lane i = sum of elements 2i, 2i+1 of self++rhs), Sum/Product iterator impls over 0, 1, 3 vectors (neutral seeds ignored), dot and magnitude_squared on the 9 spatial types (sum of a_i*b_i, factor order free); one run each on distinct free terms; non-trivial: all",
        true, true, |s| { s.require_classes(&ALL_TYPES); for_all_vecs!(reductions_ty, s); });
    rep.section("map/map2/map3/zip/apply/apply2/apply3 (free terms, heterogeneous lanes)",
        "13 types x 7 functions with closures that tuple up / wrap their arguments; second operand is a u32 vector with distinct lanes; result position i must be built from the i-th elements only (call order not asserted); non-trivial: all",
        true, true, |s| { s.require_classes(&ALL_TYPES); for_all_vecs!(map_ty, s); });
    rep.section("constructors, conversions, iteration order",
        "13 types: broadcast, From<T>, zero, one, Zero::zero, One::one, iota (i32 and u8: lane i = i), elem_count / ELEM_COUNT = N, From<tuple>, into_tuple, From<[T;N]>, into_array, as_slice, as_mut_slice, iter, into_iter (+rev), &V into_iter, indexing, from_iter (exact, filtered, chained, from_fn and take_while sources, i.e. also inexact size hints) and from_slice for EVERY source length 0..=N+2 (prefix in order, rest Default), Display (numbers parsed back in order); one evaluation per (type, function[, length]); non-trivial: all",
        true, true, |s| { s.require_classes(&ALL_TYPES); for_all_vecs!(ctor_ty, s); });
    rep.section("scalar on the left: s + V, s * V for the 10 primitive types (non-generic impls)",
        "13 types x {Add, Mul} x {i8 u8 i16 u16 i32 u32 i64 u64 f32 f64}: every pair (scalar s, lane value x) of the alphabet whose exact result fits the type (8-bit: all 256x256 pairs; wider ints: 12-15 boundary values MIN..MAX, thorough: plus all +-2^k, 2^k+-1; floats: 16 values incl. signed zeros, infinities, NaN), x placed in the lanes i = phase mod 3 for phase 0..2, alone at every single lane, and in all lanes, with small fill values (-1/0/1 pattern, replaced by the neutral element where it would overflow) elsewhere; every lane must equal s∘lane_i computed on scalars (floats: same bits or both NaN); overflowing pairs are skipped (panics are outside the property); non-trivial: s∘x differs from x",
        true, false, |s| { s.require_classes(&ALL_TYPES); s.require_classes(&["i8", "u8", "i16", "u16", "i32", "u32", "i64", "u64", "f32", "f64"]); for_all_vecs!(scalar_left_ty, s); });
    rep.section("reduce_and / reduce_or on bool, primitive and Wrapping lanes (non-generic impls)",
        "13 types; bool: all 2^N vectors for N <= 16, every vector within <= 2 deviations of all-true / all-false for N = 32, 64; i8..u64, Wrapping<i8..u64>, f32, f64 (zero, -0.0 = false; everything else incl. NaN = true): all-zero, all-nonzero, one non-zero lane at every position, one zero lane at every position, for every (zero, non-zero) value pair of the alphabet, plus mixed non-zero values (thorough: plus two deviating lanes at every pair of positions); both reductions compared with all()/any(); one evaluation per (vector, function); non-trivial: vector has both true and false lanes",
        true, false, |s| { s.require_classes(&ALL_TYPES); s.require_classes(&["Wrapping u64", "f32", "i8"]); for_all_vecs!(boolred_ty, s); });
    rep.section("min/max/partial_min/partial_max, 12 comparison masks, reduce_min/max (concrete ordered lanes)",
        "13 types; i32: lane i holds the pair P[(r + i*k) mod |P|], P = all ordered pairs over {MIN,-2,0,3,MAX} (thorough: plus MIN+1, MAX-1), every rotation r and strides k in {1,2,7} (thorough {1,2,3,5,7,11}; f64: {1,5,7}, thorough {1,2,3,5,7,11,13}), so every lane meets every relation <,=,> with varying neighbours: min max partial_min partial_max with (V,V) and (V,scalar) operands and the 24 masks cmp*/partial_cmp* and their by-value *_simd twins vs the scalar relation per lane; f64: pairs over {-1,-0,+0,1,inf,NaN,-inf,5e-324,1+ulp}: partial_min/partial_max (asserted: result is bitwise one of the two operands; equals the textbook min/max when neither is NaN, ties open) and the 6 partial masks and their *_simd twins (IEEE relations); reduce_min/max/partial_min/partial_max on every rotation of 0..N and of its reverse, all-equal, +1/-1 at every single position, i32::MIN / i32::MAX at every position alone and next to the opposite extreme (f64 copies incl. signed zeros; with a NaN lane only 'is one of the elements' is asserted); one evaluation per (vector pair, function); non-trivial: lanes do not all carry the same relation / min != max / no NaN",
        true, false, |s| { s.require_classes(&ALL_TYPES); for_all_vecs!(order_ty, s); });
    rep.section("sqrt rsqrt recip ceil floor round on f64 lanes, is_any_negative / are_all_positive on i32",
        "13 types; three lane-distinct f64 generators (perfect squares, fractional positives, signed values with .0/.125 offsets incl. negative) in every rotation: each lane must carry the scalar function of that lane (bit-identical; rsqrt = 1/sqrt within the derived 256-eps bound); sign predicates on all-positive, all-negative, all-zero and one deviating lane (negative / zero / positive) at every position; non-trivial: all float cases; predicates: lanes of mixed sign",
        true, false, |s| { s.require_classes(&ALL_TYPES); for_all_vecs!(float_ty, s); });

    // ---- sections added by the audit round -------------------------------------------------------
    rep.section("casts: as_ and numcast (concrete lanes)",
        "13 types x {f64->i32, i32->u8, i64->f32}: alphabets with fractional, negative, out-of-range, boundary, NaN and infinite values; lane i holds alphabet[(r + i*k) mod len] for every rotation r and strides k in {1,3} (thorough {1,2,3,5,7,11}), every alphabet value alone at every single lane over a convertible fill, and the same rotations over the convertible values only; as_: lane i must be the scalar `as` cast of lane i; numcast: Some(lanes converted by the scalar NumCast) iff every lane converts, otherwise None; non-trivial: as_: lanes do not all convert to the same value, numcast: convertible and non-convertible lanes mixed",
        true, false, |s| { s.require_classes(&ALL_TYPES); s.require_classes(&["numcast-some", "numcast-none", "numcast-none-single-lane"]); for_all_vecs!(cast_ty, s); });
    rep.section("bool reductions incl. deprecated reduce_ne, deeper deviation sets",
        "13 types; reduce_and, reduce_or and the deprecated reduce_ne (textbook: the chain ((v0 != v1) != v2) != ..., i.e. left fold of !=) on all 2^N bool vectors for N <= 16 and on every vector within <= 2 (thorough: <= 4) deviations of all-true / all-false for N = 32, 64; one evaluation per (vector, function); non-trivial: vector has both true and false lanes",
        true, false, |s| { s.require_classes(&ALL_TYPES); for_all_vecs!(boolred3_ty, s); });
    rep.section("new, consuming iterator driven from both ends, mutable iteration (free terms)",
        "13 types: positional constructor new; (&mut V).into_iter() and iter_mut().rev() write through in lane order; IntoIter driven by next / next_back patterns: k fronts then backs and k backs then fronts for every k in 0..=N, periodic patterns of period 2, 3, 5 in every phase and complemented, all 2^N patterns for N <= 8 (thorough: N <= 16), plus half-length prefixes (partial consumption); yielded elements compared with a deque model over the lanes, ExactSizeIterator::len() (and size_hint() = (len, Some(len))) compared after every step, and nothing may be yielded after N elements; one evaluation per pattern; non-trivial: pattern uses both ends",
        true, false, |s| { s.require_classes(&ALL_TYPES); for_all_vecs!(iter_ty, s); });
    rep.section("call sequences on in-place twins, closure call counts (free terms)",
        "13 types: three sequences of compound assignments (all 10 operators, vector and scalar right-hand sides, interleaved with a by-value operator and with the vector as its own right-hand side) and apply; apply2; apply3; apply, each acting on the state left by the previous call: lane i must be the nested scalar term of lane i; map map2 map3 apply apply2 apply3 call their closure exactly N times; one evaluation per (type, sequence); non-trivial: all",
        true, true, |s| { s.require_classes(&ALL_TYPES); for_all_vecs!(seq_ty, s); });
    rep.section("float functions on special values, rounding ties, f32 lanes; sign predicates on i8 i64 f32 f64",
        "13 types x {f64, f32}: sqrt rsqrt recip ceil floor round on 41 special values (signed zeros, +-0.5 +-1.5 +-2.5 ties, the largest float below 0.5, negative arguments, 2^52+1 resp. 2^23+1, huge, MAX, MIN, MIN_POSITIVE, subnormal, infinities, NaN, and 14 values one or a few ulps away from 1, -1, 2, 1.5, 2.5 and 0) laid out in every rotation with strides {1,7} (thorough {1,2,3,5,7,11,13}) and alone at every single lane: each lane must carry the scalar function of that lane (same bits, any NaN equals any NaN; rsqrt on finite non-zero results within the derived 256-eps bound); is_any_negative / are_all_positive on i8, i64 (incl. MIN, MAX, zero) and on non-zero, non-NaN f32 / f64 (incl. infinities and subnormals; the sign of a zero is left open): all-positive, all-negative, all-zero backgrounds with one deviating lane at every position (thorough: two); non-trivial: all float cases; predicates: negative and non-negative lanes mixed",
        true, false, |s| { s.require_classes(&ALL_TYPES); s.require_classes(&["f32", "f64", "i8", "i64"]); for_all_vecs!(float2_ty, s); });
    rep.section("min/max/partial_min/partial_max with the scalar first and with two scalars (concrete i32 lanes)",
        "13 types x {min, max, partial_min, partial_max} x {(scalar, vector), (scalar, scalar)}: vectors = every rotation of {MIN,-2,0,3,MAX} (thorough 9 values) with strides {1,2} (thorough {1,2,3,5,7}) and every value alone at every single lane, scalar = every alphabet value; lane i must be the scalar min/max of (t, b_i) resp. of the two scalars; non-trivial: lanes do not all carry the same relation to the scalar / the two scalars differ",
        true, false, |s| { s.require_classes(&ALL_TYPES); for_all_vecs!(order2_ty, s); });
    rep.section("operators on concrete machine lanes: i8 operand pairs, f64 special values, Neg / Not on i8 i64 bool",
        "13 types; i8: 10 binary operators x 5 forms (V∘V, &V∘&V, V∘=V, V∘T, V∘=T) on every operand pair of the alphabet (17 boundary values, thorough: all 256 x 256 pairs) on which the scalar operation is defined (checked_*; shifts 0..7; overflowing, zero-divisor and out-of-range-shift pairs panic and are outside the property), dealt over the lanes twice in different orders; scalar forms: for every right operand all defined left operands dealt over the lanes; f64: Add Sub Mul Div Rem x the same 5 forms on all pairs of 16 special values (same bits, any NaN equals any NaN); Neg on all i8 but MIN and on 9 i64 values, Not on all i8 and on bool lanes; every lane must equal the scalar operation on the operands' lanes; one evaluation per vector operation; non-trivial: lanes do not all carry the same result",
        true, false, |s| { s.require_classes(&ALL_TYPES); s.require_classes(&["i8", "f64"]); for_all_vecs!(concrete_ty, s); });

    // ---- sections added by audit round 2 ---------------------------------------------------------
    rep.section("as_ / numcast on conversion pairs that do not survive a detour through another type",
        "13 types x {f64->f32, f64->f64, f32->f64, f32->i64, f64->u64, u64->u64, u64->i64, u64->f32, i64->i64, i64->f32, i64->i8}: alphabets with fractions, f32 rounding ties, values above 2^53 / 2^63 / i64::MAX / f32::MAX, the double-rounding witness 2^60+2^36+1 (rounds up to f32 directly, down via f64), subnormals, NaN and infinities; float results compared as bit patterns (NaN canonicalised); same lane layouts as the first cast section (rotations x strides {1,3}, thorough {1,2,3,5,7,11}; every value alone at every lane over a convertible fill; rotations of the convertible values); as_: lane i = scalar `as` cast; numcast: Some(scalar NumCast of every lane) iff every lane converts; non-trivial as in the first cast section",
        true, false, |s| { s.require_classes(&ALL_TYPES); s.require_classes(&["numcast-some", "numcast-none", "numcast-none-single-lane"]); for_all_vecs!(cast2_ty, s); });
    rep.section("from_iter on sources that resume after None or never end, slice-view trait forms, iota on more element types (free terms)",
        "13 types: from_iter from a source that returns None once after k items and then yields again, for every k in 0..=N (the sequence ends at the first None: k items in order, rest Default); from endless sources whose size_hint lower bound is usize::MAX (range map, take(usize::MAX), cycle, repeat, exact prefix of length 0, 1, N/2, N-1 chained with an endless tail): the first N items in order; AsRef<[T]> Borrow<[T]> Deref AsRef<Self> read and AsMut<[T]> BorrowMut<[T]> DerefMut AsMut<Self> write the N lanes in lane order (length N); iota on i8 i64 u64 f32 f64 Wrapping<u16>: lane i = i; one evaluation per (type, function[, k]); non-trivial: all",
        true, false, |s| { s.require_classes(&ALL_TYPES); for_all_vecs!(ctor2_ty, s); });
    rep.section("reduce_and / reduce_or: two non-zero lanes that cancel under a fold (non-generic impls)",
        "13 types x {i8..u64, Wrapping<i8..u64>, f32, f64}: for every pair (x, y) of non-zero values whose sum, wrapping sum, xor, bitwise and, wrapping product or underflowing product is zero (1/-1, MAX/MIN+1, MIN/MIN, 1/MAX, 5/5, 1/2, 2^(bits/2) twice, top bit twice; floats: 1/-1, MAX/-MAX, inf/-inf, MIN_POSITIVE twice, +-subnormal, NaN/NaN, eps/-eps), x at lane j and y at lane j+1, j-1 and j+N/2 (cyclic) for every j, over every all-zero background (+0 and -0 for floats) and the all-one background; both reductions compared with all()/any() of 'lane != 0'; one evaluation per (vector, function); non-trivial: vector has zero and non-zero lanes",
        true, false, |s| { s.require_classes(&ALL_TYPES); s.require_classes(&["Wrapping u64", "Wrapping i8", "f32", "f64", "i8", "u64"]); for_all_vecs!(boolred_pairs_ty, s); });
    rep.section("operators, mul_add and reductions on lanes holding 0, 1 and equal operands (free terms)",
        "13 types x 10 rotations of the lane pattern (x,0) (0,y) (x,1) (1,y) (x,x) (0,0) (1,1) (0,1) (1,0) (x,y) (third operand cycling through 0, 1, a_i, b_i, free; scalars cycling through 0, 1, a lane's own variable, free): 10 binary operators x 9 forms (7 operand forms + 2 compound assignments), Neg, Not, 8 MulAdd trait forms, 4 inherent mul_add forms, sum product reduce_bitand/bitor/bitxor average reduce(f) hadd, dot and magnitude_squared on the 9 spatial types; in the free term algebra op(x, 0) is literally the term op(x, 0), so any zero / one / equal-operand fast path (wrong for -0.0 + 0.0, inf * 0, NaN - NaN, 0 / 0) shows as a different term; one evaluation per (type, rotation, configuration); non-trivial: all",
        true, false, |s| { s.require_classes(&ALL_TYPES); for_all_vecs!(special_ty, s); });

    std::process::exit(rep.finish());
}
