//! C03 — element (i,j) means row i, column j in every matrix API, whatever the layout.
//! Explicit-state search (stateright BFS) over short programs of matrix API calls; the row-major and
//! the column-major value run side by side and must denote the same abstract matrix in every state.
use stateright::{Checker, Model, Property};
use std::sync::atomic::{AtomicU64, Ordering::Relaxed};
use std::sync::Arc;
use vx::matx::*;
use vx::term::Sym;
use vx::*;

type Abs = Vec<Vec<Sym>>;
/// how often the in-program numcast::<u8>() had to succeed / had to be rejected as a whole (both must occur)
static U8_FITS: AtomicU64 = AtomicU64::new(0);
static U8_REJECTS: AtomicU64 = AtomicU64::new(0);

#[derive(Clone, Debug, PartialEq, Eq, Hash)]
enum St {
    M2 { depth: u8, abs: Abs, r: rm::Mat2<Sym>, c: cm::Mat2<Sym> },
    M3 { depth: u8, abs: Abs, r: rm::Mat3<Sym>, c: cm::Mat3<Sym> },
    M4 { depth: u8, abs: Abs, r: rm::Mat4<Sym>, c: cm::Mat4<Sym> },
    Bad { class: &'static str, site: String, detail: String },
}
#[derive(Clone, Copy, Debug, PartialEq, Eq, Hash)]
enum Act {
    Transposed, TransposeInPlace,
    RowArrayRT, ColArrayRT, RowArraysRT, ColArraysRT,
    RowToCol, ColToRow, RowsToCols, ColsToRows,
    SwapLayouts,
    Shrink3, Shrink2, Grow3, Grow4,
    Map, Map2, AsCast, Apply,
    WithDiagonal, BroadcastDiagonal,
    WriteTopRight, WriteBottomLeft,
    ReverseRows, ReverseCols,
}
const ALL: [Act; 25] = [Act::Transposed, Act::TransposeInPlace, Act::RowArrayRT, Act::ColArrayRT, Act::RowArraysRT, Act::ColArraysRT, Act::RowToCol, Act::ColToRow, Act::RowsToCols, Act::ColsToRows,
    Act::SwapLayouts, Act::Shrink3, Act::Shrink2, Act::Grow3, Act::Grow4, Act::Map, Act::Map2, Act::AsCast, Act::Apply, Act::WithDiagonal, Act::BroadcastDiagonal, Act::WriteTopRight, Act::WriteBottomLeft, Act::ReverseRows, Act::ReverseCols];

fn tr(a: &Abs) -> Abs { let n = a.len(); (0..n).map(|i| (0..n).map(|j| a[j][i]).collect()).collect() }
fn relabel(s: Sym) -> Sym { if s.0 < 2 { s } else { Sym(s.0 ^ 0x100) } }
fn mark(s: Sym, p: Sym) -> Sym { Sym(s.0 ^ (p.0 & 0x200)) }
fn partner_abs(n: usize) -> Abs { (0..n).map(|i| (0..n).map(|j| Sym(if j > i { 0x200 } else { 0x40 })).collect()).collect() }
fn render(a: &Abs) -> String {
    let mut s = String::from("(");
    for (i, row) in a.iter().enumerate() { if i > 0 { s.push_str("\n "); } for e in row { s.push(' '); s.push_str(&format!("{}", e)); } }
    s.push_str(" )"); s
}

macro_rules! size_impl { ($n:expr, $Var:ident, $M:ident, $V:ident, $build_r:ident, $build_c:ident, $dec_r:ident, $dec_c:ident, $check:ident, $step:ident) => {
    fn $check(abs: &Abs, r: &rm::$M<Sym>, c: &cm::$M<Sym>) -> Option<(&'static str, String, String)> {
        const N: usize = $n;
        let arr: A<Sym, N> = std::array::from_fn(|i| std::array::from_fn(|j| abs[i][j]));
        let bad = |class: &'static str, site: &str, d: String| Some((class, format!("Mat{}{}", N, site), d));
        if $dec_r(r) != arr { return bad("row-major-value-denotes-another-matrix", "<row> (public fields)", format!("fields {:?} model {:?}", $dec_r(r), arr)); }
        if $dec_c(c) != arr { return bad("col-major-value-denotes-another-matrix", "<col> (public fields)", format!("fields {:?} model {:?}", $dec_c(c), arr)); }
        for i in 0..N { for j in 0..N {
            if r[(i, j)] != arr[i][j] { return bad("index-is-not-row-i-col-j", "<row>::index", format!("m[({},{})] = {:?}, model {:?}", i, j, r[(i, j)], arr[i][j])); }
            if c[(i, j)] != arr[i][j] { return bad("index-is-not-row-i-col-j", "<col>::index", format!("m[({},{})] = {:?}, model {:?}", i, j, c[(i, j)], arr[i][j])); }
        } }
        let row_flat: Vec<Sym> = (0..N).flat_map(|i| (0..N).map(move |j| (i, j))).map(|(i, j)| arr[i][j]).collect();
        let col_flat: Vec<Sym> = (0..N).flat_map(|j| (0..N).map(move |i| (i, j))).map(|(i, j)| arr[i][j]).collect();
        if r.as_row_slice() != &row_flat[..] { return bad("slice-order-is-not-what-its-name-says", "<row>::as_row_slice", format!("{:?}", r.as_row_slice())); }
        if c.as_col_slice() != &col_flat[..] { return bad("slice-order-is-not-what-its-name-says", "<col>::as_col_slice", format!("{:?}", c.as_col_slice())); }
        if r.into_row_array().to_vec() != row_flat || c.into_row_array().to_vec() != row_flat { return bad("array-order-is-not-what-its-name-says", "::into_row_array", format!("{:?} / {:?}", r.into_row_array(), c.into_row_array())); }
        if r.into_col_array().to_vec() != col_flat || c.into_col_array().to_vec() != col_flat { return bad("array-order-is-not-what-its-name-says", "::into_col_array", format!("{:?} / {:?}", r.into_col_array(), c.into_col_array())); }
        let (ra, ca): (A<Sym, N>, A<Sym, N>) = (r.into_row_arrays(), c.into_row_arrays());
        if ra != arr || ca != arr { return bad("array-order-is-not-what-its-name-says", "::into_row_arrays", String::new()); }
        let (ra, ca): (A<Sym, N>, A<Sym, N>) = (r.into_col_arrays(), c.into_col_arrays());
        if ra != transpose(&arr) || ca != transpose(&arr) { return bad("array-order-is-not-what-its-name-says", "::into_col_arrays", String::new()); }
        // OpenGL reads a flat array as column-major unless told to transpose
        let gl = |flat: &[Sym], transpose: bool| -> A<Sym, N> { std::array::from_fn(|i| std::array::from_fn(|j| if transpose { flat[i * N + j] } else { flat[j * N + i] })) };
        if gl(r.as_row_slice(), r.gl_should_transpose()) != arr || rm::$M::<Sym>::GL_SHOULD_TRANSPOSE != r.gl_should_transpose() { return bad("gl-transpose-flag-denotes-another-matrix", "<row>::gl_should_transpose", String::new()); }
        if gl(c.as_col_slice(), c.gl_should_transpose()) != arr || cm::$M::<Sym>::GL_SHOULD_TRANSPOSE != c.gl_should_transpose() { return bad("gl-transpose-flag-denotes-another-matrix", "<col>::gl_should_transpose", String::new()); }
        let diag: Vec<Sym> = (0..N).map(|i| arr[i][i]).collect();
        if r.diagonal().into_array().to_vec() != diag { return bad("wrong-diagonal", "<row>::diagonal", format!("{:?}", r.diagonal())); }
        if c.diagonal().into_array().to_vec() != diag { return bad("wrong-diagonal", "<col>::diagonal", format!("{:?}", c.diagonal())); }
        let (dr, dc, dm) = (format!("{}", r), format!("{}", c), render(abs));
        if dr != dm { return bad("display-depends-on-layout-or-order", "<row>::Display", dr); }
        if dc != dm { return bad("display-depends-on-layout-or-order", "<col>::Display", dc); }
        if r.row_count() != N || r.col_count() != N || c.row_count() != N || c.col_count() != N { return bad("wrong-dimensions", "::row_count/col_count", String::new()); }
        if rm::$M::<Sym>::ROW_COUNT != N || rm::$M::<Sym>::COL_COUNT != N || cm::$M::<Sym>::ROW_COUNT != N || cm::$M::<Sym>::COL_COUNT != N { return bad("wrong-dimensions", "::ROW_COUNT/COL_COUNT", String::new()); }
        if !r.is_packed() || !c.is_packed() { return bad("repr_c-matrix-not-packed", "::is_packed", String::new()); }
        // raw pointers and mutable slice views: same storage, same order as the shared slice views
        {
            let (mut r2, mut c2) = (r.clone(), c.clone());
            if r2.as_row_ptr() != r2.as_row_slice().as_ptr() || c2.as_col_ptr() != c2.as_col_slice().as_ptr() { return bad("pointer-is-not-the-start-of-the-slice", "::as_row_ptr/as_col_ptr", String::new()); }
            if r2.as_mut_row_ptr() as *const Sym != r2.as_row_ptr() || c2.as_mut_col_ptr() as *const Sym != c2.as_col_ptr() { return bad("pointer-is-not-the-start-of-the-slice", "::as_mut_row_ptr/as_mut_col_ptr", String::new()); }
            if r2.as_row_ptr() != &r2 as *const rm::$M<Sym> as *const Sym || c2.as_col_ptr() != &c2 as *const cm::$M<Sym> as *const Sym { return bad("pointer-is-not-the-value's-own-storage", "::as_row_ptr/as_col_ptr", String::new()); }
            if r2.as_mut_row_slice() != &row_flat[..] { return bad("slice-order-is-not-what-its-name-says", "<row>::as_mut_row_slice", format!("{:?}", r2.as_mut_row_slice())); }
            if c2.as_mut_col_slice() != &col_flat[..] { return bad("slice-order-is-not-what-its-name-says", "<col>::as_mut_col_slice", format!("{:?}", c2.as_mut_col_slice())); }
            // a write through the mutable view at flat position k lands in element (k / N, k % N) resp. (k % N, k / N)
            for k in 0..N * N {
                let (mut r3, mut c3) = (r.clone(), c.clone());
                r3.as_mut_row_slice()[k] = Sym(0x7777); c3.as_mut_col_slice()[k] = Sym(0x7777);
                let (mut wr, mut wc) = (arr, arr);
                wr[k / N][k % N] = Sym(0x7777); wc[k % N][k / N] = Sym(0x7777);
                if $dec_r(&r3) != wr { return bad("write-through-mutable-slice-lands-in-another-element", "<row>::as_mut_row_slice", format!("flat index {}", k)); }
                if $dec_c(&c3) != wc { return bad("write-through-mutable-slice-lands-in-another-element", "<col>::as_mut_col_slice", format!("flat index {}", k)); }
                // the same write through m[(i,j)] (IndexMut) must give the same matrix in both layouts
                let (mut r4, mut c4) = (r.clone(), c.clone());
                r4[(k / N, k % N)] = Sym(0x7777); c4[(k / N, k % N)] = Sym(0x7777);
                if $dec_r(&r4) != wr { return bad("index_mut-is-not-row-i-col-j", "<row>::index_mut", format!("write at ({},{})", k / N, k % N)); }
                if $dec_c(&c4) != wr { return bad("index_mut-is-not-row-i-col-j", "<col>::index_mut", format!("write at ({},{})", k / N, k % N)); }
            }
        }
        // ---- one more per-element call from THIS state, each decoded by fields on its own (no second vek call that could cancel a slip) ----
        {
            // as_: a single cast (the AsCast action composes two casts through the same generic function, so an involutive
            // slip - two elements swapped, a transposition - cancels there)
            let au: A<u32, N> = std::array::from_fn(|i| std::array::from_fn(|j| arr[i][j].0 as u32));
            if $dec_r(&r.as_::<u32>()) != au { return bad("single-cast-moves-an-element", "<row>::as_", format!("{:?} want {:?}", $dec_r(&r.as_::<u32>()), au)); }
            if $dec_c(&c.as_::<u32>()) != au { return bad("single-cast-moves-an-element", "<col>::as_", format!("{:?} want {:?}", $dec_c(&c.as_::<u32>()), au)); }
            // map into another element type
            let am: A<u32, N> = std::array::from_fn(|i| std::array::from_fn(|j| arr[i][j].0 as u32 + 1000));
            if $dec_r(&r.map(|s| s.0 as u32 + 1000)) != am { return bad("map-moves-an-element", "<row>::map<u32>", String::new()); }
            if $dec_c(&c.map(|s| s.0 as u32 + 1000)) != am { return bad("map-moves-an-element", "<col>::map<u32>", String::new()); }
            // map2 / apply2 against a partner of ANOTHER type whose N*N entries are pairwise distinct, combined injectively
            // (pairing): any mis-routing of either operand shows, also inside one triangle of the partner
            let tag: A<u8, N> = std::array::from_fn(|i| std::array::from_fn(|j| (i * N + j) as u8 + 1));
            let wp: A<(Sym, u8), N> = std::array::from_fn(|i| std::array::from_fn(|j| (arr[i][j], tag[i][j])));
            let gp = $dec_r(&r.map2($build_r(&tag), |a, t| (a, t)));
            if gp != wp { return bad("pairs-the-wrong-elements", "<row>::map2<distinct partner>", format!("{:?} want {:?}", gp, wp)); }
            let gp = $dec_c(&c.map2($build_c(&tag), |a, t| (a, t)));
            if gp != wp { return bad("pairs-the-wrong-elements", "<col>::map2<distinct partner>", format!("{:?} want {:?}", gp, wp)); }
            let wx: A<Sym, N> = std::array::from_fn(|i| std::array::from_fn(|j| Sym(arr[i][j].0 ^ ((tag[i][j] as u16) << 10))));
            let (mut r5, mut c5) = (r.clone(), c.clone());
            r5.apply2($build_r(&tag), |a, t| Sym(a.0 ^ ((t as u16) << 10))); c5.apply2($build_c(&tag), |a, t| Sym(a.0 ^ ((t as u16) << 10)));
            if $dec_r(&r5) != wx { return bad("pairs-the-wrong-elements", "<row>::apply2<distinct partner>", format!("{:?} want {:?}", $dec_r(&r5), wx)); }
            if $dec_c(&c5) != wx { return bad("pairs-the-wrong-elements", "<col>::apply2<distinct partner>", format!("{:?} want {:?}", $dec_c(&c5), wx)); }
            // numcast and trace of the integer image of this state (image built by struct literal from the fields just verified)
            let img: A<i64, N> = std::array::from_fn(|i| std::array::from_fn(|j| arr[i][j].0 as i64 - 5));
            let w32: A<i32, N> = std::array::from_fn(|i| std::array::from_fn(|j| img[i][j] as i32));
            if $build_r(&img).numcast::<i32>().map(|m| $dec_r(&m)) != Some(w32) { return bad("numcast-moves-an-element-or-fails", "<row>::numcast<i64,i32> after a program", String::new()); }
            if $build_c(&img).numcast::<i32>().map(|m| $dec_c(&m)) != Some(w32) { return bad("numcast-moves-an-element-or-fails", "<col>::numcast<i64,i32> after a program", String::new()); }
            // into u8: Some exactly when every element fits (negative or > 255 anywhere => None as a whole)
            let w8: Option<A<u8, N>> = if img.iter().flatten().all(|v| (0..=255).contains(v)) { Some(std::array::from_fn(|i| std::array::from_fn(|j| img[i][j] as u8))) } else { None };
            if w8.is_some() { U8_FITS.fetch_add(1, Relaxed); } else { U8_REJECTS.fetch_add(1, Relaxed); }
            if $build_r(&img).numcast::<u8>().map(|m| $dec_r(&m)) != w8 { return bad("numcast-partial-or-spurious", "<row>::numcast<i64,u8> after a program", format!("{:?} want {:?}", $build_r(&img).numcast::<u8>(), w8)); }
            if $build_c(&img).numcast::<u8>().map(|m| $dec_c(&m)) != w8 { return bad("numcast-partial-or-spurious", "<col>::numcast<i64,u8> after a program", format!("{:?} want {:?}", $build_c(&img).numcast::<u8>(), w8)); }
            let wt: i64 = (0..N).map(|i| img[i][i]).sum();
            if $build_r(&img).trace() != wt { return bad("trace-is-not-the-diagonal-sum", "<row>::trace after a program", format!("{} want {}", $build_r(&img).trace(), wt)); }
            if $build_c(&img).trace() != wt { return bad("trace-is-not-the-diagonal-sum", "<col>::trace after a program", format!("{} want {}", $build_c(&img).trace(), wt)); }
        }
        None
    }
    fn $step(depth: u8, abs: &Abs, r: &rm::$M<Sym>, c: &cm::$M<Sym>, a: Act) -> Option<St> {
        const N: usize = $n;
        let (r, c) = (*r, *c);
        let pa = partner_abs(N);
        let parr: A<Sym, N> = std::array::from_fn(|i| std::array::from_fn(|j| pa[i][j]));
        let same = |abs: Abs, r: rm::$M<Sym>, c: cm::$M<Sym>| Some(St::$Var { depth: depth + 1, abs, r, c });
        let cell = |abs: &Abs, f: &dyn Fn(usize, usize, Sym) -> Sym| -> Abs { (0..N).map(|i| (0..N).map(|j| f(i, j, abs[i][j])).collect()).collect() };
        match a {
            Act::Transposed => same(tr(abs), r.transposed(), c.transposed()),
            Act::TransposeInPlace => { let (mut r2, mut c2) = (r, c); r2.transpose(); c2.transpose(); same(tr(abs), r2, c2) }
            Act::RowArrayRT => same(abs.clone(), rm::$M::from_row_array(r.into_row_array()), cm::$M::from_row_array(c.into_row_array())),
            Act::ColArrayRT => same(abs.clone(), rm::$M::from_col_array(r.into_col_array()), cm::$M::from_col_array(c.into_col_array())),
            Act::RowArraysRT => same(abs.clone(), rm::$M::from_row_arrays(r.into_row_arrays()), cm::$M::from_row_arrays(c.into_row_arrays())),
            Act::ColArraysRT => same(abs.clone(), rm::$M::from_col_arrays(r.into_col_arrays()), cm::$M::from_col_arrays(c.into_col_arrays())),
            // crossed: reading a row array as a column array transposes
            Act::RowToCol => same(tr(abs), rm::$M::from_col_array(r.into_row_array()), cm::$M::from_col_array(c.into_row_array())),
            Act::ColToRow => same(tr(abs), rm::$M::from_row_array(r.into_col_array()), cm::$M::from_row_array(c.into_col_array())),
            Act::RowsToCols => same(tr(abs), rm::$M::from_col_arrays(r.into_row_arrays()), cm::$M::from_col_arrays(c.into_row_arrays())),
            Act::ColsToRows => same(tr(abs), rm::$M::from_row_arrays(r.into_col_arrays()), cm::$M::from_row_arrays(c.into_col_arrays())),
            Act::SwapLayouts => same(abs.clone(), rm::$M::from(c), cm::$M::from(r)),
            Act::Map => same(cell(abs, &|_, _, s| relabel(s)), r.map(relabel), c.map(relabel)),
            Act::Map2 => same(cell(abs, &|i, j, s| mark(s, pa[i][j])), r.map2(rm::$M::<Sym>::build(&parr), mark), c.map2(cm::$M::<Sym>::build(&parr), mark)),
            Act::Apply => { let (mut r2, mut c2) = (r, c); r2.apply(relabel); c2.apply(relabel); r2.apply2(rm::$M::<Sym>::build(&parr), mark); c2.apply2(cm::$M::<Sym>::build(&parr), mark); same(cell(abs, &|i, j, s| mark(relabel(s), pa[i][j])), r2, c2) }
            Act::AsCast => same(abs.clone(), r.as_::<u32>().as_::<Sym>(), c.as_::<u32>().as_::<Sym>()),
            Act::WithDiagonal => same(cell(abs, &|i, j, s| if i == j { s } else { Sym(0) }), rm::$M::with_diagonal(r.diagonal()), cm::$M::with_diagonal(c.diagonal())),
            Act::BroadcastDiagonal => { let d = abs[N - 1][0]; same(cell(abs, &|i, j, _| if i == j { d } else { Sym(0) }), rm::$M::broadcast_diagonal(r[(N - 1, 0)]), cm::$M::broadcast_diagonal(c[(N - 1, 0)])) }
            Act::WriteTopRight => { let (mut r2, mut c2) = (r, c); r2[(0, N - 1)] = Sym(7); c2[(0, N - 1)] = Sym(7); same(cell(abs, &|i, j, s| if (i, j) == (0, N - 1) { Sym(7) } else { s }), r2, c2) }
            Act::WriteBottomLeft => { let (mut r2, mut c2) = (r, c); r2[(N - 1, 0)] = Sym(8); c2[(N - 1, 0)] = Sym(8); same(cell(abs, &|i, j, s| if (i, j) == (N - 1, 0) { Sym(8) } else { s }), r2, c2) }
            // reverse each row: map_rows on the row-major value; the column-major twin goes through transposition
            Act::ReverseRows => { let rev = |v: $V<Sym>| { let mut a = v.into_array(); a.reverse(); $V::from(a) };
                same((0..N).map(|i| (0..N).map(|j| abs[i][N - 1 - j]).collect()).collect(), r.map_rows(rev), c.transposed().map_cols(rev).transposed()) }
            Act::ReverseCols => { let rev = |v: $V<Sym>| { let mut a = v.into_array(); a.reverse(); $V::from(a) };
                same((0..N).map(|i| (0..N).map(|j| abs[N - 1 - i][j]).collect()).collect(), r.transposed().map_rows(rev).transposed(), c.map_cols(rev)) }
            _ => None,
        }
    }
} }
size_impl!(2, M2, Mat2, Vec2, r2, c2, dr2, dc2, check2, step2);
size_impl!(3, M3, Mat3, Vec3, r3, c3, dr3, dc3, check3, step3);
size_impl!(4, M4, Mat4, Vec4, r4, c4, dr4, dc4, check4, step4);

fn take(abs: &Abs, n: usize) -> Abs { (0..n).map(|i| (0..n).map(|j| abs[i][j]).collect()).collect() }
fn pad(abs: &Abs, n: usize) -> Abs { let m = abs.len(); (0..n).map(|i| (0..n).map(|j| if i < m && j < m { abs[i][j] } else if i == j { Sym(1) } else { Sym(0) }).collect()).collect() }

fn resize(s: &St, a: Act) -> Option<St> {
    match (s, a) {
        (St::M4 { depth, abs, r, c }, Act::Shrink3) => Some(St::M3 { depth: depth + 1, abs: take(abs, 3), r: rm::Mat3::from(*r), c: cm::Mat3::from(*c) }),
        (St::M4 { depth, abs, r, c }, Act::Shrink2) => Some(St::M2 { depth: depth + 1, abs: take(abs, 2), r: rm::Mat2::from(*r), c: cm::Mat2::from(*c) }),
        (St::M3 { depth, abs, r, c }, Act::Shrink2) => Some(St::M2 { depth: depth + 1, abs: take(abs, 2), r: rm::Mat2::from(*r), c: cm::Mat2::from(*c) }),
        (St::M2 { depth, abs, r, c }, Act::Grow3) => Some(St::M3 { depth: depth + 1, abs: pad(abs, 3), r: rm::Mat3::from(*r), c: cm::Mat3::from(*c) }),
        (St::M2 { depth, abs, r, c }, Act::Grow4) => Some(St::M4 { depth: depth + 1, abs: pad(abs, 4), r: rm::Mat4::from(*r), c: cm::Mat4::from(*c) }),
        (St::M3 { depth, abs, r, c }, Act::Grow4) => Some(St::M4 { depth: depth + 1, abs: pad(abs, 4), r: rm::Mat4::from(*r), c: cm::Mat4::from(*c) }),
        _ => None,
    }
}
fn invariant(s: &St) -> Option<(&'static str, String, String)> {
    match s { St::M2 { abs, r, c, .. } => check2(abs, r, c), St::M3 { abs, r, c, .. } => check3(abs, r, c), St::M4 { abs, r, c, .. } => check4(abs, r, c), St::Bad { .. } => None }
}

/// `keep_depth`: the program length stays part of the state, so values are merged only within one length and the bounded run
/// is independent of the order in which the worker threads reach a value (with the length erased, a value first reached over a
/// longer path by a racing thread is recorded at that depth and not expanded at the bound: the run then depends on scheduling)
struct MatModel { transitions: Arc<AtomicU64>, acts: Vec<Act>, keep_depth: bool }
impl Model for MatModel {
    type State = St;
    type Action = Act;
    fn init_states(&self) -> Vec<St> {
        // n^2 pairwise distinct symbols, built with the layout-agnostic new(m00, m01, ...) — the invariant then
        // compares with the struct-literal reading of the fields
        let s = |k: u16| Sym(10 + k);
        let a2: Abs = vec![vec![s(0), s(1)], vec![s(2), s(3)]];
        let a3: Abs = (0..3).map(|i| (0..3).map(|j| s(3 * i + j)).collect()).collect();
        let a4: Abs = (0..4).map(|i| (0..4).map(|j| s(4 * i + j)).collect()).collect();
        vec![
            St::M2 { depth: 0, abs: a2, r: rm::Mat2::new(s(0), s(1), s(2), s(3)), c: cm::Mat2::new(s(0), s(1), s(2), s(3)) },
            St::M3 { depth: 0, abs: a3, r: rm::Mat3::new(s(0), s(1), s(2), s(3), s(4), s(5), s(6), s(7), s(8)), c: cm::Mat3::new(s(0), s(1), s(2), s(3), s(4), s(5), s(6), s(7), s(8)) },
            St::M4 { depth: 0, abs: a4, r: rm::Mat4::new(s(0), s(1), s(2), s(3), s(4), s(5), s(6), s(7), s(8), s(9), s(10), s(11), s(12), s(13), s(14), s(15)),
                     c: cm::Mat4::new(s(0), s(1), s(2), s(3), s(4), s(5), s(6), s(7), s(8), s(9), s(10), s(11), s(12), s(13), s(14), s(15)) },
        ]
    }
    fn actions(&self, s: &St, acts: &mut Vec<Act>) { if !matches!(s, St::Bad { .. }) { acts.extend(self.acts.iter().copied()); } }
    fn next_state(&self, s: &St, a: Act) -> Option<St> {
        let r = catch(|| match s {
            St::M2 { depth, abs, r, c } => step2(*depth, abs, r, c, a).or_else(|| resize(s, a)),
            St::M3 { depth, abs, r, c } => step3(*depth, abs, r, c, a).or_else(|| resize(s, a)),
            St::M4 { depth, abs, r, c } => step4(*depth, abs, r, c, a).or_else(|| resize(s, a)),
            St::Bad { .. } => None,
        });
        let mut next = match r { Ok(n) => n?, Err(e) => return Some(St::Bad { class: "panic", site: format!("{:?}", a), detail: format!("{:?}", e) }) };
        self.transitions.fetch_add(1, Relaxed);
        if let Some((class, site, detail)) = invariant(&next) { return Some(St::Bad { class, site: format!("{} after {:?}", site, a), detail }); }
        if !self.keep_depth { match &mut next { St::M2 { depth, .. } | St::M3 { depth, .. } | St::M4 { depth, .. } => *depth = 0, _ => {} } }
        Some(next)
    }
    fn properties(&self) -> Vec<Property<Self>> {
        vec![Property::always("row-major and column-major values denote the model matrix; index, slices, GL flag, diagonal, Display agree", |_, s| !matches!(s, St::Bad { .. }) && invariant(s).is_none())]
    }
}

fn main() {
    let rep = Report::start("C03", "model_checking");
    let mut lk = json!({});
    rep.section("API-call programs over {transpose, array round trips (straight and crossed), layout swap, size changes, map/map2/apply/as_, diagonal builders, indexed writes, map_rows/map_cols}",
        "stateright BFS from the three initial states (n=2,3,4; n^2 pairwise distinct symbols built with new(m00,..)) over 25 API-call actions applied to the row-major and the column-major value in lock step, a plain nested-Vec model beside them; in EVERY state: fields of both values = model, m[(i,j)] for all i,j, as_row_slice/as_col_slice order (shared and mutable views, raw pointers = start of the value's storage, a write at every flat position and through m[(i,j)] at every index lands in the right element), the slice read with gl_should_transpose, diagonal, Display of both = model rendering, and one more single call decoded by fields on its own: as_::<u32>() (a lone cast, so involutive slips cannot cancel), map::<u32>, map2 and apply2 against a u8 partner with N*N pairwise distinct entries (results paired injectively), numcast::<i32>/<u8> and trace of the integer image of the state (u8: Some iff every element fits, both outcomes must occur); states are merged by value equality of the real matrices (+ model); (a) the 19 permuting/relabelling/resizing actions searched to the fixpoint of the value graph, run twice (counts compared); (b) all 25 actions (adding map2/apply with a partner matrix, diagonal builders, indexed writes) for every program of length <= 5 quick / 8 thorough; non-trivial: all transitions", true, false, |s| {
        // the permutation core: actions that only permute / relabel / resize — its value graph is small, so it is searched to the fixpoint
        let core: Vec<Act> = vec![Act::Transposed, Act::TransposeInPlace, Act::RowArrayRT, Act::ColArrayRT, Act::RowArraysRT, Act::ColArraysRT, Act::RowToCol, Act::ColToRow, Act::RowsToCols, Act::ColsToRows,
            Act::SwapLayouts, Act::Shrink3, Act::Shrink2, Act::Grow3, Act::Grow4, Act::Map, Act::AsCast, Act::ReverseRows, Act::ReverseCols];
        let report_path = |s: &Section, path: stateright::Path<St, Act>| {
            let acts: Vec<String> = path.clone().into_actions().iter().map(|a| format!("{:?}", a)).collect();
            let init = path.clone().into_states().first().map(|s| match s { St::M2 { .. } => 2, St::M3 { .. } => 3, St::M4 { .. } => 4, _ => 0 });
            match path.last_state().clone() {
                St::Bad { class, site, detail } => s.violation_w(site.split(" after ").next().unwrap_or(""), class, json!({"n": init, "program": acts, "what": detail, "failing_step": site}), acts.len() as u64),
                other => { if let Some((class, site, detail)) = invariant(&other) { s.violation_w(&site, class, json!({"n": init, "program": acts, "what": detail}), acts.len() as u64); } }
            }
        };
        let mut tot = (0u64, 0u64, 0usize);
        let mut counts = Vec::new();
        let mut found = false;
        for _run in 0..2 {
            let tr = Arc::new(AtomicU64::new(0));
            let ck = MatModel { transitions: tr.clone(), acts: core.clone(), keep_depth: false }.checker().threads(16).spawn_bfs().join();
            let (us, t, md) = (ck.unique_state_count() as u64, tr.load(Relaxed), ck.max_depth());
            if let Some(path) = ck.discoveries().into_values().next() { report_path(s, path); s.evals(t.max(1), t.max(1)); found = true; tot = (us, t, md); break; }
            counts.push((us, t, md));
        }
        if !found {
            if (counts[0].0, counts[0].1) != (counts[1].0, counts[1].1) { s.rep.machinery_error(format!("state/transition counts differ between two runs: {:?}", counts)); }
            let (us, t, md) = counts[0];
            s.evals(t, t);
            s.meta("core_fixpoint_run", json!({"actions": core.len(), "states": us, "transitions": t, "max_depth": md, "fixpoint_reached": true, "runs_compared": 2}));
            tot = (us, t, md);
            // all 25 actions, every program up to the depth bound (states merged by value)
            let dmax = if s.thorough() { 8 } else { 5 };
            let tr = Arc::new(AtomicU64::new(0));
            let ck = MatModel { transitions: tr.clone(), acts: ALL.to_vec(), keep_depth: true }.checker().threads(16).target_max_depth(dmax + 1).spawn_bfs().join();
            let (us2, t2, md2) = (ck.unique_state_count() as u64, tr.load(Relaxed), ck.max_depth());
            if let Some(path) = ck.discoveries().into_values().next() { report_path(s, path); }
            s.evals(t2, t2);
            s.meta("bounded_run_all_actions", json!({"actions": ALL.len(), "program_length": dmax, "states": us2, "transitions": t2, "max_depth": md2}));
            tot = (tot.0 + us2, tot.1 + t2, tot.2.max(md2));
            let (fits, rejects) = (U8_FITS.load(Relaxed), U8_REJECTS.load(Relaxed));
            s.meta("in_program_numcast_u8", json!({"must_succeed": fits, "must_be_rejected_as_a_whole": rejects}));
            if fits == 0 || rejects == 0 { s.rep.machinery_error(format!("in-program numcast::<u8>() never saw both outcomes: fits {} rejects {}", fits, rejects)); }
            s.sample(json!({"n": 4, "program": ["RowToCol", "SwapLayouts", "Shrink3", "Map2", "ReverseRows"], "invariant": "fields, m[(i,j)], slices, GL flag, diagonal, Display agree with the model in every state"}));
            s.sample(json!({"n": 2, "program": ["Grow4", "TransposeInPlace", "WriteTopRight", "ColArraysRT"]}));
        }
        lk = json!({"states": tot.0.max(1), "transitions": tot.1.max(1), "traces_validated_against_impl": tot.1.max(1), "max_depth": tot.2,
            "explanation": "every transition applies the real vek calls to the real row-major and column-major values (the model is a nested Vec beside them), so every explored trace is validated against the implementation"});
    });

    rep.section("Default is the identity; trace; numcast (concrete integers)", "for the 6 matrix types with pairwise distinct i64 entries: Default/identity/zero by fields, trace = sum of the diagonal, numcast::<i32>() keeps every (i,j), numcast of an out-of-range entry is None as a whole; non-trivial: all", true, false, |s| {
        macro_rules! conc { ($N:expr, $M:ident, $lay:ident, $name:expr) => {{
            const N: usize = $N;
            let a: A<i64, N> = std::array::from_fn(|i| std::array::from_fn(|j| (100 * (i as i64 + 1) + 7 * j as i64) * if (i + j) % 2 == 0 { 1 } else { -1 }));
            let m = $lay::$M::<i64>::build(&a);
            s.evals(5, 5);
            let id: A<i64, N> = std::array::from_fn(|i| std::array::from_fn(|j| (i == j) as i64));
            if <$lay::$M<i64> as Default>::default().decode() != id || $lay::$M::<i64>::identity().decode() != id { s.violation(&format!("Mat{}<{}>::default", N, $name), "not-identity", json!({})); }
            if $lay::$M::<i64>::zero().decode() != [[0i64; N]; N] { s.violation(&format!("Mat{}<{}>::zero", N, $name), "not-zero", json!({})); }
            if m.trace() != (0..N).map(|i| a[i][i]).sum::<i64>() { s.violation(&format!("Mat{}<{}>::trace", N, $name), "not-the-diagonal-sum", json!({"got": m.trace()})); }
            match m.numcast::<i32>() { Some(c) => { let want: A<i32, N> = std::array::from_fn(|i| std::array::from_fn(|j| a[i][j] as i32)); if c.decode() != want { s.violation(&format!("Mat{}<{}>::numcast", N, $name), "element-moved", json!({})); } } None => s.violation(&format!("Mat{}<{}>::numcast", N, $name), "spurious-failure", json!({})) }
            for i in 0..N { for j in 0..N { let mut b = a; b[i][j] = i64::MAX; s.eval(true); if $lay::$M::<i64>::build(&b).numcast::<i32>().is_some() { s.violation(&format!("Mat{}<{}>::numcast", N, $name), "partial-conversion-not-rejected", json!({"position": [i, j]})); } } }
        }} }
        conc!(2, Mat2, rm, "row"); conc!(2, Mat2, cm, "col"); conc!(3, Mat3, rm, "row"); conc!(3, Mat3, cm, "col"); conc!(4, Mat4, rm, "row"); conc!(4, Mat4, cm, "col");
        s.sample(json!({"matrix": "Mat3<col> with a[i][j] = +-(100(i+1)+7j)", "trace": "sum of a[i][i]", "numcast": "every (i,j) preserved; i64::MAX at any single position => None"}));
    });

    rep.section("numcast across element kinds (float->int, signed->unsigned, int->float); Default for further element types",
        "for the 6 matrix types, matrices with pairwise distinct entries of both signs built by struct literal: numcast f64->i32 (every element truncated in place), i64->u16 on the magnitudes, i64->f32; then for EVERY position (i,j) one unconvertible entry there (NaN, +-1e40, +inf for f64->i32; -1 and 65536 for i64->u16) must make the whole result None; Default of Sym / f64 / u8 matrices is the identity by fields, also after conversion to the other layout; non-trivial: all", true, false, |s| {
        s.require_classes(&["converted-as-a-whole", "rejected-as-a-whole", "default"]);
        macro_rules! nc { ($N:expr, $M:ident, $lay:ident, $other:ident, $name:expr) => {{
            const N: usize = $N;
            let a: A<i64, N> = std::array::from_fn(|i| std::array::from_fn(|j| (100 * (i as i64 + 1) + 7 * j as i64) * if (i + j) % 2 == 0 { 1 } else { -1 }));
            let af: A<f64, N> = std::array::from_fn(|i| std::array::from_fn(|j| a[i][j] as f64 + 0.375));
            let wf: A<i32, N> = std::array::from_fn(|i| std::array::from_fn(|j| af[i][j].trunc() as i32));
            let site = format!("Mat{}<{}>::numcast<f64,i32>", N, $name);
            s.eval(true); s.class("converted-as-a-whole");
            if $lay::$M::<f64>::build(&af).numcast::<i32>().map(|m| m.decode()) != Some(wf) { s.violation(&site, "element-moved-or-spurious-failure", json!({"input": format!("{:?}", af), "want": format!("{:?}", wf)})); }
            for i in 0..N { for j in 0..N { for bad in [f64::NAN, 1e40, -1e40, f64::INFINITY] {
                let mut b = af; b[i][j] = bad; s.eval(true); s.class("rejected-as-a-whole");
                if $lay::$M::<f64>::build(&b).numcast::<i32>().is_some() { s.violation_w(&site, "partial-conversion-not-rejected", json!({"position": [i, j], "entry": format!("{}", bad)}), (i * N + j) as u64); }
            } } }
            let au: A<i64, N> = std::array::from_fn(|i| std::array::from_fn(|j| a[i][j].abs()));
            let wu: A<u16, N> = std::array::from_fn(|i| std::array::from_fn(|j| au[i][j] as u16));
            let site = format!("Mat{}<{}>::numcast<i64,u16>", N, $name);
            s.eval(true); s.class("converted-as-a-whole");
            if $lay::$M::<i64>::build(&au).numcast::<u16>().map(|m| m.decode()) != Some(wu) { s.violation(&site, "element-moved-or-spurious-failure", json!({"input": format!("{:?}", au)})); }
            s.eval(true); s.class("rejected-as-a-whole");
            if $lay::$M::<i64>::build(&a).numcast::<u16>().is_some() { s.violation(&site, "partial-conversion-not-rejected", json!({"input": format!("{:?}", a), "what": "every second entry is negative"})); }
            for i in 0..N { for j in 0..N { for bad in [-1i64, 65536] {
                let mut b = au; b[i][j] = bad; s.eval(true); s.class("rejected-as-a-whole");
                if $lay::$M::<i64>::build(&b).numcast::<u16>().is_some() { s.violation_w(&site, "partial-conversion-not-rejected", json!({"position": [i, j], "entry": bad}), (i * N + j) as u64); }
            } } }
            let w32: A<f32, N> = std::array::from_fn(|i| std::array::from_fn(|j| a[i][j] as f32));
            s.eval(true); s.class("converted-as-a-whole");
            if $lay::$M::<i64>::build(&a).numcast::<f32>().map(|m| m.decode()) != Some(w32) { s.violation(&format!("Mat{}<{}>::numcast<i64,f32>", N, $name), "element-moved-or-spurious-failure", json!({})); }
            // Default for further element types, by fields, and seen through the other layout
            let ids: A<Sym, N> = std::array::from_fn(|i| std::array::from_fn(|j| Sym((i == j) as u16)));
            let idf: A<f64, N> = std::array::from_fn(|i| std::array::from_fn(|j| (i == j) as u8 as f64));
            let idb: A<u8, N> = std::array::from_fn(|i| std::array::from_fn(|j| (i == j) as u8));
            s.evals(4, 4); s.class_n("default", 4);
            if <$lay::$M<Sym> as Default>::default().decode() != ids { s.violation(&format!("Mat{}<{}>::default<Sym>", N, $name), "not-identity", json!({})); }
            if <$lay::$M<f64> as Default>::default().decode() != idf { s.violation(&format!("Mat{}<{}>::default<f64>", N, $name), "not-identity", json!({})); }
            if <$lay::$M<u8> as Default>::default().decode() != idb { s.violation(&format!("Mat{}<{}>::default<u8>", N, $name), "not-identity", json!({})); }
            if $other::$M::<Sym>::from(<$lay::$M<Sym> as Default>::default()).decode() != ids { s.violation(&format!("Mat{}<{}>::default<Sym>", N, $name), "not-identity-in-the-other-layout", json!({})); }
        }} }
        nc!(2, Mat2, rm, cm, "row"); nc!(2, Mat2, cm, rm, "col"); nc!(3, Mat3, rm, cm, "row"); nc!(3, Mat3, cm, rm, "col"); nc!(4, Mat4, rm, cm, "row"); nc!(4, Mat4, cm, rm, "col");
        s.sample(json!({"call": "column_major::Mat3<f64>::numcast::<i32>()", "input": "a[i][j] = +-(100(i+1)+7j) + 0.375, entry (2,1) replaced by NaN", "want": "None"}));
    });

    rep.section("Display under format specifications does not depend on the layout",
        "for n=2,3,4, element kinds i64 / f64 / &str (their Display honours width, fill, alignment, sign, zero padding and precision; Sym's does not), 3 matrices each (pairwise distinct entries of both signs and different printed lengths; its transpose; rows reversed), built by struct literal in both layouts: the output of the row-major and of the column-major value must be the same string under each of 10 format specifications, and under \"{}\" equal to the plain model rendering; counted: specifications that change the output at all (must occur, else the element type would ignore them); non-trivial: all", true, false, |s| {
        s.require_classes(&["spec-changes-the-output", "plain"]);
        const SPECS: [&str; 10] = ["{}", "{:7}", "{:<7}", "{:^8}", "{:*>9}", "{:+}", "{:07}", "{:.2}", "{:+010.3}", "{:>+9.1}"];
        const SPECS_STR: [&str; 6] = ["{}", "{:7}", "{:<7}", "{:^8}", "{:*>9}", "{:.2}"];
        macro_rules! fm { ($m:expr) => { vec![format!("{}", $m), format!("{:7}", $m), format!("{:<7}", $m), format!("{:^8}", $m), format!("{:*>9}", $m), format!("{:+}", $m), format!("{:07}", $m), format!("{:.2}", $m), format!("{:+010.3}", $m), format!("{:>+9.1}", $m)] } }
        macro_rules! fs { ($m:expr) => { vec![format!("{}", $m), format!("{:7}", $m), format!("{:<7}", $m), format!("{:^8}", $m), format!("{:*>9}", $m), format!("{:.2}", $m)] } }
        fn plain<T: std::fmt::Display + Copy, const N: usize>(a: &A<T, N>) -> String {
            let mut o = String::from("(");
            for i in 0..N { if i > 0 { o.push_str("\n "); } for j in 0..N { o.push(' '); o.push_str(&format!("{}", a[i][j])); } }
            o.push_str(" )"); o
        }
        const WORDS: [&str; 16] = ["a", "bc", "def", "ghij", "klmno", "p", "qr", "stu", "vwxy", "zABCD", "E", "FG", "HIJ", "KLMN", "OPQRS", "T"];
        macro_rules! disp { ($N:expr, $M:ident) => {{
            const N: usize = $N;
            let ai: A<i64, N> = std::array::from_fn(|i| std::array::from_fn(|j| { let k = (i * N + j) as i64; (k * k * k * 3 + 7 * k + 1) * if (i + 2 * j) % 3 == 1 { -1 } else { 1 } }));
            let af: A<f64, N> = std::array::from_fn(|i| std::array::from_fn(|j| ai[i][j] as f64 / 8.0 + 0.0625));
            let aw: A<&'static str, N> = std::array::from_fn(|i| std::array::from_fn(|j| WORDS[i * N + j]));
            macro_rules! three { ($a:expr, $fmts:ident, $specs:expr, $kind:expr) => {{
                let base = $a;
                let rev = { let mut x = base; x.reverse(); x };
                for (which, a) in [("generic", base), ("transposed", transpose(&base)), ("rows reversed", rev)] {
                    let (r, c) = (rm::$M::build(&a), cm::$M::build(&a));
                    let (fr, fc) = ($fmts!(r), $fmts!(c));
                    for k in 0..fr.len() {
                        s.eval(true);
                        if k == 0 { s.class("plain"); } else if fr[k] != fr[0] { s.class("spec-changes-the-output"); } else { s.class("spec-without-effect-on-this-kind"); }
                        if fr[k] != fc[k] { s.violation_w(&format!("Mat{}<{}>::Display with \"{}\"", N, $kind, $specs[k]), "row-major-and-column-major-output-differ", json!({"matrix": which, "row_major": fr[k], "column_major": fc[k]}), k as u64); }
                    }
                    let want = plain(&a);
                    if fr[0] != want { s.violation(&format!("Mat{}<row>::Display<{}>", N, $kind), "display-is-not-the-rows-in-order", json!({"matrix": which, "got": fr[0], "want": want})); }
                    if fc[0] != want { s.violation(&format!("Mat{}<col>::Display<{}>", N, $kind), "display-is-not-the-rows-in-order", json!({"matrix": which, "got": fc[0], "want": want})); }
                    if s.wants_sample() { s.sample(json!({"n": N, "kind": $kind, "matrix": which, "spec": $specs[fr.len() - 1], "both_layouts_print": fr[fr.len() - 1]})); }
                }
            }} }
            three!(ai, fm, SPECS, "i64"); three!(af, fm, SPECS, "f64"); three!(aw, fs, SPECS_STR, "&str");
        }} }
        disp!(2, Mat2); disp!(3, Mat3); disp!(4, Mat4);
    });

    rep.section("trace sums exactly the diagonal (free terms)",
        "for the 6 matrix types and every one of the n! row arrangements of the n^2 free variables (so that every cell lies on the diagonal of some input): trace() of the value built by struct literal, of its transposed() copy, after transpose() in place and after conversion to the other layout, is an addition tree whose leaves are exactly the n diagonal variables (as a multiset; the association is left open); non-trivial: arrangements other than the identity", true, false, |s| {
        use vx::term::Term;
        s.require_classes(&["identity-arrangement", "permuted-arrangement"]);
        macro_rules! trc { ($N:expr, $M:ident, $lay:ident, $other:ident, $name:expr) => {{
            const N: usize = $N;
            for (p, _) in vx::lattice::signed_permutations(N) {
                let a: A<Term, N> = std::array::from_fn(|i| std::array::from_fn(|j| Term::var((p[i] * N + j) as u32)));
                let mut want: Vec<Term> = (0..N).map(|i| a[i][i]).collect(); want.sort();
                let ident = (0..N).all(|i| p[i] == i);
                s.class(if ident { "identity-arrangement" } else { "permuted-arrangement" });
                let m = $lay::$M::<Term>::build(&a);
                let mut inplace = m; inplace.transpose();
                if N == 3 && !ident && s.wants_sample() { s.sample(json!({"type": format!("Mat3<{}><Term>", $name), "rows_arranged": p, "trace": format!("{:?}", m.trace()), "diagonal_variables": format!("{:?}", want)})); }
                for (how, t) in [("trace", m.trace()), ("transposed().trace", m.transposed().trace()), ("transpose(); trace", inplace.trace()), ("other layout ::from(m).trace", $other::$M::<Term>::from(m).trace())] {
                    s.eval(!ident);
                    let got = t.ac_leaves("add");
                    if got != want { s.violation_w(&format!("Mat{}<{}>::{}", N, $name, how), "sums-other-elements-than-the-diagonal", json!({"rows_arranged": p, "summed": format!("{:?}", got), "diagonal": format!("{:?}", want), "tree": format!("{:?}", t)}), p.iter().enumerate().filter(|(i, &x)| *i != x).count() as u64); }
                }
            }
        }} }
        trc!(2, Mat2, rm, cm, "row"); trc!(2, Mat2, cm, rm, "col"); trc!(3, Mat3, rm, cm, "row"); trc!(3, Mat3, cm, rm, "col"); trc!(4, Mat4, rm, cm, "row"); trc!(4, Mat4, cm, rm, "col");
    });
    std::process::exit(rep.finish_with(lk));
}
