//! C03 — element (i,j) means row i, column j in every matrix API, whatever the layout.
//! Explicit-state search (stateright BFS) over short programs of matrix API calls; the row-major and
//! the column-major value run side by side and must denote the same abstract matrix in every state.
//! Beside the search: concrete-value sections for what the opaque 2-byte symbol cannot show (numcast/as_ semantics and
//! thresholds, trace on free terms, Display under every formatter setting, memory views for other element widths,
//! trait forms of zero/identity, closure call multiplicity) - see out/AUDIT1.md and out/AUDIT2.md.
use stateright::{Checker, Model, Property};
use std::sync::atomic::{AtomicU64, Ordering::Relaxed};
use std::sync::Arc;
use vx::matx::*;
use vx::term::Sym;
use vx::*;

type Abs = Vec<Vec<Sym>>;
/// how often the in-program numcast::<u8>() had to succeed / had to be rejected as a whole (both must occur)
static U8_FITS: AtomicU64 = AtomicU64::new(0);
static U8_REJECTS: AtomicU64 = AtomicU64::new(0);

#[derive(Clone, Debug, PartialEq, Eq, Hash)]
enum St {
    M2 { depth: u8, abs: Abs, r: rm::Mat2<Sym>, c: cm::Mat2<Sym> },
    M3 { depth: u8, abs: Abs, r: rm::Mat3<Sym>, c: cm::Mat3<Sym> },
    M4 { depth: u8, abs: Abs, r: rm::Mat4<Sym>, c: cm::Mat4<Sym> },
    Bad { class: &'static str, site: String, detail: String },
}
#[derive(Clone, Copy, Debug, PartialEq, Eq, Hash)]
enum Act {
    Transposed, TransposeInPlace,
    RowArrayRT, ColArrayRT, RowArraysRT, ColArraysRT,
    RowToCol, ColToRow, RowsToCols, ColsToRows,
    SwapLayouts,
    Shrink3, Shrink2, Grow3, Grow4,
    Map, Map2, AsCast, Apply,
    WithDiagonal, BroadcastDiagonal,
    WriteTopRight, WriteBottomLeft,
    ReverseRows, ReverseCols,
}
const ALL: [Act; 25] = [Act::Transposed, Act::TransposeInPlace, Act::RowArrayRT, Act::ColArrayRT, Act::RowArraysRT, Act::ColArraysRT, Act::RowToCol, Act::ColToRow, Act::RowsToCols, Act::ColsToRows,
    Act::SwapLayouts, Act::Shrink3, Act::Shrink2, Act::Grow3, Act::Grow4, Act::Map, Act::Map2, Act::AsCast, Act::Apply, Act::WithDiagonal, Act::BroadcastDiagonal, Act::WriteTopRight, Act::WriteBottomLeft, Act::ReverseRows, Act::ReverseCols];

fn tr(a: &Abs) -> Abs { let n = a.len(); (0..n).map(|i| (0..n).map(|j| a[j][i]).collect()).collect() }
fn relabel(s: Sym) -> Sym { if s.0 < 2 { s } else { Sym(s.0 ^ 0x100) } }
fn mark(s: Sym, p: Sym) -> Sym { Sym(s.0 ^ (p.0 & 0x200)) }
fn partner_abs(n: usize) -> Abs { (0..n).map(|i| (0..n).map(|j| Sym(if j > i { 0x200 } else { 0x40 })).collect()).collect() }
fn render(a: &Abs) -> String {
    let mut s = String::from("(");
    for (i, row) in a.iter().enumerate() { if i > 0 { s.push_str("\n "); } for e in row { s.push(' '); s.push_str(&format!("{}", e)); } }
    s.push_str(" )"); s
}

macro_rules! size_impl { ($n:expr, $Var:ident, $M:ident, $V:ident, $build_r:ident, $build_c:ident, $dec_r:ident, $dec_c:ident, $check:ident, $step:ident) => {
    fn $check(abs: &Abs, r: &rm::$M<Sym>, c: &cm::$M<Sym>) -> Option<(&'static str, String, String)> {
        const N: usize = $n;
        let arr: A<Sym, N> = std::array::from_fn(|i| std::array::from_fn(|j| abs[i][j]));
        let bad = |class: &'static str, site: &str, d: String| Some((class, format!("Mat{}{}", N, site), d));
        if $dec_r(r) != arr { return bad("row-major-value-denotes-another-matrix", "<row> (public fields)", format!("fields {:?} model {:?}", $dec_r(r), arr)); }
        if $dec_c(c) != arr { return bad("col-major-value-denotes-another-matrix", "<col> (public fields)", format!("fields {:?} model {:?}", $dec_c(c), arr)); }
        for i in 0..N { for j in 0..N {
            if r[(i, j)] != arr[i][j] { return bad("index-is-not-row-i-col-j", "<row>::index", format!("m[({},{})] = {:?}, model {:?}", i, j, r[(i, j)], arr[i][j])); }
            if c[(i, j)] != arr[i][j] { return bad("index-is-not-row-i-col-j", "<col>::index", format!("m[({},{})] = {:?}, model {:?}", i, j, c[(i, j)], arr[i][j])); }
        } }
        let row_flat: Vec<Sym> = (0..N).flat_map(|i| (0..N).map(move |j| (i, j))).map(|(i, j)| arr[i][j]).collect();
        let col_flat: Vec<Sym> = (0..N).flat_map(|j| (0..N).map(move |i| (i, j))).map(|(i, j)| arr[i][j]).collect();
        if r.as_row_slice() != &row_flat[..] { return bad("slice-order-is-not-what-its-name-says", "<row>::as_row_slice", format!("{:?}", r.as_row_slice())); }
        if c.as_col_slice() != &col_flat[..] { return bad("slice-order-is-not-what-its-name-says", "<col>::as_col_slice", format!("{:?}", c.as_col_slice())); }
        if r.into_row_array().to_vec() != row_flat || c.into_row_array().to_vec() != row_flat { return bad("array-order-is-not-what-its-name-says", "::into_row_array", format!("{:?} / {:?}", r.into_row_array(), c.into_row_array())); }
        if r.into_col_array().to_vec() != col_flat || c.into_col_array().to_vec() != col_flat { return bad("array-order-is-not-what-its-name-says", "::into_col_array", format!("{:?} / {:?}", r.into_col_array(), c.into_col_array())); }
        let (ra, ca): (A<Sym, N>, A<Sym, N>) = (r.into_row_arrays(), c.into_row_arrays());
        if ra != arr || ca != arr { return bad("array-order-is-not-what-its-name-says", "::into_row_arrays", String::new()); }
        let (ra, ca): (A<Sym, N>, A<Sym, N>) = (r.into_col_arrays(), c.into_col_arrays());
        if ra != transpose(&arr) || ca != transpose(&arr) { return bad("array-order-is-not-what-its-name-says", "::into_col_arrays", String::new()); }
        // OpenGL reads a flat array as column-major unless told to transpose
        let gl = |flat: &[Sym], transpose: bool| -> A<Sym, N> { std::array::from_fn(|i| std::array::from_fn(|j| if transpose { flat[i * N + j] } else { flat[j * N + i] })) };
        if gl(r.as_row_slice(), r.gl_should_transpose()) != arr || rm::$M::<Sym>::GL_SHOULD_TRANSPOSE != r.gl_should_transpose() { return bad("gl-transpose-flag-denotes-another-matrix", "<row>::gl_should_transpose", String::new()); }
        if gl(c.as_col_slice(), c.gl_should_transpose()) != arr || cm::$M::<Sym>::GL_SHOULD_TRANSPOSE != c.gl_should_transpose() { return bad("gl-transpose-flag-denotes-another-matrix", "<col>::gl_should_transpose", String::new()); }
        let diag: Vec<Sym> = (0..N).map(|i| arr[i][i]).collect();
        if r.diagonal().into_array().to_vec() != diag { return bad("wrong-diagonal", "<row>::diagonal", format!("{:?}", r.diagonal())); }
        if c.diagonal().into_array().to_vec() != diag { return bad("wrong-diagonal", "<col>::diagonal", format!("{:?}", c.diagonal())); }
        let (dr, dc, dm) = (format!("{}", r), format!("{}", c), render(abs));
        if dr != dm { return bad("display-depends-on-layout-or-order", "<row>::Display", dr); }
        if dc != dm { return bad("display-depends-on-layout-or-order", "<col>::Display", dc); }
        if r.row_count() != N || r.col_count() != N || c.row_count() != N || c.col_count() != N { return bad("wrong-dimensions", "::row_count/col_count", String::new()); }
        if rm::$M::<Sym>::ROW_COUNT != N || rm::$M::<Sym>::COL_COUNT != N || cm::$M::<Sym>::ROW_COUNT != N || cm::$M::<Sym>::COL_COUNT != N { return bad("wrong-dimensions", "::ROW_COUNT/COL_COUNT", String::new()); }
        if !r.is_packed() || !c.is_packed() { return bad("repr_c-matrix-not-packed", "::is_packed", String::new()); }
        // raw pointers and mutable slice views: same storage, same order as the shared slice views
        {
            let (mut r2, mut c2) = (r.clone(), c.clone());
            if r2.as_row_ptr() != r2.as_row_slice().as_ptr() || c2.as_col_ptr() != c2.as_col_slice().as_ptr() { return bad("pointer-is-not-the-start-of-the-slice", "::as_row_ptr/as_col_ptr", String::new()); }
            if r2.as_mut_row_ptr() as *const Sym != r2.as_row_ptr() || c2.as_mut_col_ptr() as *const Sym != c2.as_col_ptr() { return bad("pointer-is-not-the-start-of-the-slice", "::as_mut_row_ptr/as_mut_col_ptr", String::new()); }
            if r2.as_row_ptr() != &r2 as *const rm::$M<Sym> as *const Sym || c2.as_col_ptr() != &c2 as *const cm::$M<Sym> as *const Sym { return bad("pointer-is-not-the-value's-own-storage", "::as_row_ptr/as_col_ptr", String::new()); }
            if r2.as_mut_row_slice() != &row_flat[..] { return bad("slice-order-is-not-what-its-name-says", "<row>::as_mut_row_slice", format!("{:?}", r2.as_mut_row_slice())); }
            if c2.as_mut_col_slice() != &col_flat[..] { return bad("slice-order-is-not-what-its-name-says", "<col>::as_mut_col_slice", format!("{:?}", c2.as_mut_col_slice())); }
            // a write through the mutable view at flat position k lands in element (k / N, k % N) resp. (k % N, k / N)
            for k in 0..N * N {
                let (mut r3, mut c3) = (r.clone(), c.clone());
                r3.as_mut_row_slice()[k] = Sym(0x7777); c3.as_mut_col_slice()[k] = Sym(0x7777);
                let (mut wr, mut wc) = (arr, arr);
                wr[k / N][k % N] = Sym(0x7777); wc[k % N][k / N] = Sym(0x7777);
                if $dec_r(&r3) != wr { return bad("write-through-mutable-slice-lands-in-another-element", "<row>::as_mut_row_slice", format!("flat index {}", k)); }
                if $dec_c(&c3) != wc { return bad("write-through-mutable-slice-lands-in-another-element", "<col>::as_mut_col_slice", format!("flat index {}", k)); }
                // the same write through m[(i,j)] (IndexMut) must give the same matrix in both layouts
                let (mut r4, mut c4) = (r.clone(), c.clone());
                r4[(k / N, k % N)] = Sym(0x7777); c4[(k / N, k % N)] = Sym(0x7777);
                if $dec_r(&r4) != wr { return bad("index_mut-is-not-row-i-col-j", "<row>::index_mut", format!("write at ({},{})", k / N, k % N)); }
                if $dec_c(&c4) != wr { return bad("index_mut-is-not-row-i-col-j", "<col>::index_mut", format!("write at ({},{})", k / N, k % N)); }
            }
        }
        // ---- one more per-element call from THIS state, each decoded by fields on its own (no second vek call that could cancel a slip) ----
        {
            // as_: a single cast (the AsCast action composes two casts through the same generic function, so an involutive
            // slip - two elements swapped, a transposition - cancels there)
            let au: A<u32, N> = std::array::from_fn(|i| std::array::from_fn(|j| arr[i][j].0 as u32));
            if $dec_r(&r.as_::<u32>()) != au { return bad("single-cast-moves-an-element", "<row>::as_", format!("{:?} want {:?}", $dec_r(&r.as_::<u32>()), au)); }
            if $dec_c(&c.as_::<u32>()) != au { return bad("single-cast-moves-an-element", "<col>::as_", format!("{:?} want {:?}", $dec_c(&c.as_::<u32>()), au)); }
            // map into another element type
            let am: A<u32, N> = std::array::from_fn(|i| std::array::from_fn(|j| arr[i][j].0 as u32 + 1000));
            if $dec_r(&r.map(|s| s.0 as u32 + 1000)) != am { return bad("map-moves-an-element", "<row>::map<u32>", String::new()); }
            if $dec_c(&c.map(|s| s.0 as u32 + 1000)) != am { return bad("map-moves-an-element", "<col>::map<u32>", String::new()); }
            // map2 / apply2 against a partner of ANOTHER type whose N*N entries are pairwise distinct, combined injectively
            // (pairing): any mis-routing of either operand shows, also inside one triangle of the partner
            let tag: A<u8, N> = std::array::from_fn(|i| std::array::from_fn(|j| (i * N + j) as u8 + 1));
            let wp: A<(Sym, u8), N> = std::array::from_fn(|i| std::array::from_fn(|j| (arr[i][j], tag[i][j])));
            let gp = $dec_r(&r.map2($build_r(&tag), |a, t| (a, t)));
            if gp != wp { return bad("pairs-the-wrong-elements", "<row>::map2<distinct partner>", format!("{:?} want {:?}", gp, wp)); }
            let gp = $dec_c(&c.map2($build_c(&tag), |a, t| (a, t)));
            if gp != wp { return bad("pairs-the-wrong-elements", "<col>::map2<distinct partner>", format!("{:?} want {:?}", gp, wp)); }
            let wx: A<Sym, N> = std::array::from_fn(|i| std::array::from_fn(|j| Sym(arr[i][j].0 ^ ((tag[i][j] as u16) << 10))));
            let (mut r5, mut c5) = (r.clone(), c.clone());
            r5.apply2($build_r(&tag), |a, t| Sym(a.0 ^ ((t as u16) << 10))); c5.apply2($build_c(&tag), |a, t| Sym(a.0 ^ ((t as u16) << 10)));
            if $dec_r(&r5) != wx { return bad("pairs-the-wrong-elements", "<row>::apply2<distinct partner>", format!("{:?} want {:?}", $dec_r(&r5), wx)); }
            if $dec_c(&c5) != wx { return bad("pairs-the-wrong-elements", "<col>::apply2<distinct partner>", format!("{:?} want {:?}", $dec_c(&c5), wx)); }
            // numcast and trace of the integer image of this state (image built by struct literal from the fields just verified)
            let img: A<i64, N> = std::array::from_fn(|i| std::array::from_fn(|j| arr[i][j].0 as i64 - 5));
            let w32: A<i32, N> = std::array::from_fn(|i| std::array::from_fn(|j| img[i][j] as i32));
            if $build_r(&img).numcast::<i32>().map(|m| $dec_r(&m)) != Some(w32) { return bad("numcast-moves-an-element-or-fails", "<row>::numcast<i64,i32> after a program", String::new()); }
            if $build_c(&img).numcast::<i32>().map(|m| $dec_c(&m)) != Some(w32) { return bad("numcast-moves-an-element-or-fails", "<col>::numcast<i64,i32> after a program", String::new()); }
            // into u8: Some exactly when every element fits (negative or > 255 anywhere => None as a whole)
            let w8: Option<A<u8, N>> = if img.iter().flatten().all(|v| (0..=255).contains(v)) { Some(std::array::from_fn(|i| std::array::from_fn(|j| img[i][j] as u8))) } else { None };
            if w8.is_some() { U8_FITS.fetch_add(1, Relaxed); } else { U8_REJECTS.fetch_add(1, Relaxed); }
            if $build_r(&img).numcast::<u8>().map(|m| $dec_r(&m)) != w8 { return bad("numcast-partial-or-spurious", "<row>::numcast<i64,u8> after a program", format!("{:?} want {:?}", $build_r(&img).numcast::<u8>(), w8)); }
            if $build_c(&img).numcast::<u8>().map(|m| $dec_c(&m)) != w8 { return bad("numcast-partial-or-spurious", "<col>::numcast<i64,u8> after a program", format!("{:?} want {:?}", $build_c(&img).numcast::<u8>(), w8)); }
            let wt: i64 = (0..N).map(|i| img[i][i]).sum();
            if $build_r(&img).trace() != wt { return bad("trace-is-not-the-diagonal-sum", "<row>::trace after a program", format!("{} want {}", $build_r(&img).trace(), wt)); }
            if $build_c(&img).trace() != wt { return bad("trace-is-not-the-diagonal-sum", "<col>::trace after a program", format!("{} want {}", $build_c(&img).trace(), wt)); }
        }
        None
    }
    fn $step(depth: u8, abs: &Abs, r: &rm::$M<Sym>, c: &cm::$M<Sym>, a: Act) -> Option<St> {
        const N: usize = $n;
        let (r, c) = (*r, *c);
        let pa = partner_abs(N);
        let parr: A<Sym, N> = std::array::from_fn(|i| std::array::from_fn(|j| pa[i][j]));
        let same = |abs: Abs, r: rm::$M<Sym>, c: cm::$M<Sym>| Some(St::$Var { depth: depth + 1, abs, r, c });
        let cell = |abs: &Abs, f: &dyn Fn(usize, usize, Sym) -> Sym| -> Abs { (0..N).map(|i| (0..N).map(|j| f(i, j, abs[i][j])).collect()).collect() };
        match a {
            Act::Transposed => same(tr(abs), r.transposed(), c.transposed()),
            Act::TransposeInPlace => { let (mut r2, mut c2) = (r, c); r2.transpose(); c2.transpose(); same(tr(abs), r2, c2) }
            Act::RowArrayRT => same(abs.clone(), rm::$M::from_row_array(r.into_row_array()), cm::$M::from_row_array(c.into_row_array())),
            Act::ColArrayRT => same(abs.clone(), rm::$M::from_col_array(r.into_col_array()), cm::$M::from_col_array(c.into_col_array())),
            Act::RowArraysRT => same(abs.clone(), rm::$M::from_row_arrays(r.into_row_arrays()), cm::$M::from_row_arrays(c.into_row_arrays())),
            Act::ColArraysRT => same(abs.clone(), rm::$M::from_col_arrays(r.into_col_arrays()), cm::$M::from_col_arrays(c.into_col_arrays())),
            // crossed: reading a row array as a column array transposes
            Act::RowToCol => same(tr(abs), rm::$M::from_col_array(r.into_row_array()), cm::$M::from_col_array(c.into_row_array())),
            Act::ColToRow => same(tr(abs), rm::$M::from_row_array(r.into_col_array()), cm::$M::from_row_array(c.into_col_array())),
            Act::RowsToCols => same(tr(abs), rm::$M::from_col_arrays(r.into_row_arrays()), cm::$M::from_col_arrays(c.into_row_arrays())),
            Act::ColsToRows => same(tr(abs), rm::$M::from_row_arrays(r.into_col_arrays()), cm::$M::from_row_arrays(c.into_col_arrays())),
            Act::SwapLayouts => same(abs.clone(), rm::$M::from(c), cm::$M::from(r)),
            Act::Map => same(cell(abs, &|_, _, s| relabel(s)), r.map(relabel), c.map(relabel)),
            Act::Map2 => same(cell(abs, &|i, j, s| mark(s, pa[i][j])), r.map2(rm::$M::<Sym>::build(&parr), mark), c.map2(cm::$M::<Sym>::build(&parr), mark)),
            Act::Apply => { let (mut r2, mut c2) = (r, c); r2.apply(relabel); c2.apply(relabel); r2.apply2(rm::$M::<Sym>::build(&parr), mark); c2.apply2(cm::$M::<Sym>::build(&parr), mark); same(cell(abs, &|i, j, s| mark(relabel(s), pa[i][j])), r2, c2) }
            Act::AsCast => same(abs.clone(), r.as_::<u32>().as_::<Sym>(), c.as_::<u32>().as_::<Sym>()),
            Act::WithDiagonal => same(cell(abs, &|i, j, s| if i == j { s } else { Sym(0) }), rm::$M::with_diagonal(r.diagonal()), cm::$M::with_diagonal(c.diagonal())),
            Act::BroadcastDiagonal => { let d = abs[N - 1][0]; same(cell(abs, &|i, j, _| if i == j { d } else { Sym(0) }), rm::$M::broadcast_diagonal(r[(N - 1, 0)]), cm::$M::broadcast_diagonal(c[(N - 1, 0)])) }
            Act::WriteTopRight => { let (mut r2, mut c2) = (r, c); r2[(0, N - 1)] = Sym(7); c2[(0, N - 1)] = Sym(7); same(cell(abs, &|i, j, s| if (i, j) == (0, N - 1) { Sym(7) } else { s }), r2, c2) }
            Act::WriteBottomLeft => { let (mut r2, mut c2) = (r, c); r2[(N - 1, 0)] = Sym(8); c2[(N - 1, 0)] = Sym(8); same(cell(abs, &|i, j, s| if (i, j) == (N - 1, 0) { Sym(8) } else { s }), r2, c2) }
            // reverse each row: map_rows on the row-major value; the column-major twin goes through transposition
            Act::ReverseRows => { let rev = |v: $V<Sym>| { let mut a = v.into_array(); a.reverse(); $V::from(a) };
                same((0..N).map(|i| (0..N).map(|j| abs[i][N - 1 - j]).collect()).collect(), r.map_rows(rev), c.transposed().map_cols(rev).transposed()) }
            Act::ReverseCols => { let rev = |v: $V<Sym>| { let mut a = v.into_array(); a.reverse(); $V::from(a) };
                same((0..N).map(|i| (0..N).map(|j| abs[N - 1 - i][j]).collect()).collect(), r.transposed().map_rows(rev).transposed(), c.map_cols(rev)) }
            _ => None,
        }
    }
} }
size_impl!(2, M2, Mat2, Vec2, r2, c2, dr2, dc2, check2, step2);
size_impl!(3, M3, Mat3, Vec3, r3, c3, dr3, dc3, check3, step3);
size_impl!(4, M4, Mat4, Vec4, r4, c4, dr4, dc4, check4, step4);

fn take(abs: &Abs, n: usize) -> Abs { (0..n).map(|i| (0..n).map(|j| abs[i][j]).collect()).collect() }
fn pad(abs: &Abs, n: usize) -> Abs { let m = abs.len(); (0..n).map(|i| (0..n).map(|j| if i < m && j < m { abs[i][j] } else if i == j { Sym(1) } else { Sym(0) }).collect()).collect() }

fn resize(s: &St, a: Act) -> Option<St> {
    match (s, a) {
        (St::M4 { depth, abs, r, c }, Act::Shrink3) => Some(St::M3 { depth: depth + 1, abs: take(abs, 3), r: rm::Mat3::from(*r), c: cm::Mat3::from(*c) }),
        (St::M4 { depth, abs, r, c }, Act::Shrink2) => Some(St::M2 { depth: depth + 1, abs: take(abs, 2), r: rm::Mat2::from(*r), c: cm::Mat2::from(*c) }),
        (St::M3 { depth, abs, r, c }, Act::Shrink2) => Some(St::M2 { depth: depth + 1, abs: take(abs, 2), r: rm::Mat2::from(*r), c: cm::Mat2::from(*c) }),
        (St::M2 { depth, abs, r, c }, Act::Grow3) => Some(St::M3 { depth: depth + 1, abs: pad(abs, 3), r: rm::Mat3::from(*r), c: cm::Mat3::from(*c) }),
        (St::M2 { depth, abs, r, c }, Act::Grow4) => Some(St::M4 { depth: depth + 1, abs: pad(abs, 4), r: rm::Mat4::from(*r), c: cm::Mat4::from(*c) }),
        (St::M3 { depth, abs, r, c }, Act::Grow4) => Some(St::M4 { depth: depth + 1, abs: pad(abs, 4), r: rm::Mat4::from(*r), c: cm::Mat4::from(*c) }),
        _ => None,
    }
}
fn invariant(s: &St) -> Option<(&'static str, String, String)> {
    match s { St::M2 { abs, r, c, .. } => check2(abs, r, c), St::M3 { abs, r, c, .. } => check3(abs, r, c), St::M4 { abs, r, c, .. } => check4(abs, r, c), St::Bad { .. } => None }
}

/// `keep_depth`: the program length stays part of the state, so values are merged only within one length and the bounded run
/// is independent of the order in which the worker threads reach a value (with the length erased, a value first reached over a
/// longer path by a racing thread is recorded at that depth and not expanded at the bound: the run then depends on scheduling)
struct MatModel { transitions: Arc<AtomicU64>, acts: Vec<Act>, keep_depth: bool }
impl Model for MatModel {
    type State = St;
    type Action = Act;
    fn init_states(&self) -> Vec<St> {
        // n^2 pairwise distinct symbols, built with the layout-agnostic new(m00, m01, ...) — the invariant then
        // compares with the struct-literal reading of the fields
        let s = |k: u16| Sym(10 + k);
        let a2: Abs = vec![vec![s(0), s(1)], vec![s(2), s(3)]];
        let a3: Abs = (0..3).map(|i| (0..3).map(|j| s(3 * i + j)).collect()).collect();
        let a4: Abs = (0..4).map(|i| (0..4).map(|j| s(4 * i + j)).collect()).collect();
        vec![
            St::M2 { depth: 0, abs: a2, r: rm::Mat2::new(s(0), s(1), s(2), s(3)), c: cm::Mat2::new(s(0), s(1), s(2), s(3)) },
            St::M3 { depth: 0, abs: a3, r: rm::Mat3::new(s(0), s(1), s(2), s(3), s(4), s(5), s(6), s(7), s(8)), c: cm::Mat3::new(s(0), s(1), s(2), s(3), s(4), s(5), s(6), s(7), s(8)) },
            St::M4 { depth: 0, abs: a4, r: rm::Mat4::new(s(0), s(1), s(2), s(3), s(4), s(5), s(6), s(7), s(8), s(9), s(10), s(11), s(12), s(13), s(14), s(15)),
                     c: cm::Mat4::new(s(0), s(1), s(2), s(3), s(4), s(5), s(6), s(7), s(8), s(9), s(10), s(11), s(12), s(13), s(14), s(15)) },
        ]
    }
    fn actions(&self, s: &St, acts: &mut Vec<Act>) { if !matches!(s, St::Bad { .. }) { acts.extend(self.acts.iter().copied()); } }
    fn next_state(&self, s: &St, a: Act) -> Option<St> {
        let r = catch(|| match s {
            St::M2 { depth, abs, r, c } => step2(*depth, abs, r, c, a).or_else(|| resize(s, a)),
            St::M3 { depth, abs, r, c } => step3(*depth, abs, r, c, a).or_else(|| resize(s, a)),
            St::M4 { depth, abs, r, c } => step4(*depth, abs, r, c, a).or_else(|| resize(s, a)),
            St::Bad { .. } => None,
        });
        let mut next = match r { Ok(n) => n?, Err(e) => return Some(St::Bad { class: "panic", site: format!("{:?}", a), detail: format!("{:?}", e) }) };
        self.transitions.fetch_add(1, Relaxed);
        if let Some((class, site, detail)) = invariant(&next) { return Some(St::Bad { class, site: format!("{} after {:?}", site, a), detail }); }
        if !self.keep_depth { match &mut next { St::M2 { depth, .. } | St::M3 { depth, .. } | St::M4 { depth, .. } => *depth = 0, _ => {} } }
        Some(next)
    }
    fn properties(&self) -> Vec<Property<Self>> {
        vec![Property::always("row-major and column-major values denote the model matrix; index, slices, GL flag, diagonal, Display agree", |_, s| !matches!(s, St::Bad { .. }) && invariant(s).is_none())]
    }
}

/// spy element for the Display sections: prints every formatter setting it is handed
#[derive(Clone, Copy, PartialEq, Debug)]
struct Spy(u8);
impl std::fmt::Display for Spy {
    fn fmt(&self, f: &mut std::fmt::Formatter) -> std::fmt::Result {
        let al = match f.align() { Some(std::fmt::Alignment::Left) => "<", Some(std::fmt::Alignment::Right) => ">", Some(std::fmt::Alignment::Center) => "^", None => "." };
        let (w, p, fill, plus, minus, alt, zero) = (f.width(), f.precision(), f.fill(), f.sign_plus(), f.sign_minus(), f.alternate(), f.sign_aware_zero_pad());
        write!(f, "[{}:w{:?},p{:?},f{:?},a{},{}{}{}{}]", self.0, w, p, fill, al, if plus { "+" } else { "" }, if minus { "-" } else { "" }, if alt { "#" } else { "" }, if zero { "0" } else { "" })
    }
}

fn main() {
    let rep = Report::start("C03", "model_checking");
    let mut lk = json!({});
    rep.section("API-call programs over {transpose, array round trips (straight and crossed), layout swap, size changes, map/map2/apply/as_, diagonal builders, indexed writes, map_rows/map_cols}",
        "stateright BFS from the three initial states (n=2,3,4; n^2 pairwise distinct symbols built with new(m00,..)) over 25 API-call actions applied to the row-major and the column-major value in lock step, a plain nested-Vec model beside them; in EVERY state: fields of both values = model, m[(i,j)] for all i,j, as_row_slice/as_col_slice order (shared and mutable views, raw pointers = start of the value's storage, a write at every flat position and through m[(i,j)] at every index lands in the right element), the slice read with gl_should_transpose, diagonal, Display of both = model rendering, and one more single call decoded by fields on its own: as_::<u32>() (a lone cast, so involutive slips cannot cancel), map::<u32>, map2 and apply2 against a u8 partner with N*N pairwise distinct entries (results paired injectively), numcast::<i32>/<u8> and trace of the integer image of the state (u8: Some iff every element fits, both outcomes must occur); states are merged by value equality of the real matrices (+ model); (a) the 19 permuting/relabelling/resizing actions searched to the fixpoint of the value graph, run twice (counts compared); (b) all 25 actions (adding map2/apply with a partner matrix, diagonal builders, indexed writes) for every program of length <= 5 quick / 8 thorough; non-trivial: all transitions", true, false, |s| {
        // the permutation core: actions that only permute / relabel / resize — its value graph is small, so it is searched to the fixpoint
        let core: Vec<Act> = vec![Act::Transposed, Act::TransposeInPlace, Act::RowArrayRT, Act::ColArrayRT, Act::RowArraysRT, Act::ColArraysRT, Act::RowToCol, Act::ColToRow, Act::RowsToCols, Act::ColsToRows,
            Act::SwapLayouts, Act::Shrink3, Act::Shrink2, Act::Grow3, Act::Grow4, Act::Map, Act::AsCast, Act::ReverseRows, Act::ReverseCols];
        let report_path = |s: &Section, path: stateright::Path<St, Act>| {
            let acts: Vec<String> = path.clone().into_actions().iter().map(|a| format!("{:?}", a)).collect();
            let init = path.clone().into_states().first().map(|s| match s { St::M2 { .. } => 2, St::M3 { .. } => 3, St::M4 { .. } => 4, _ => 0 });
            match path.last_state().clone() {
                St::Bad { class, site, detail } => s.violation_w(site.split(" after ").next().unwrap_or(""), class, json!({"n": init, "program": acts, "what": detail, "failing_step": site}), acts.len() as u64),
                other => { if let Some((class, site, detail)) = invariant(&other) { s.violation_w(&site, class, json!({"n": init, "program": acts, "what": detail}), acts.len() as u64); } }
            }
        };
        let mut tot = (0u64, 0u64, 0usize);
        let mut counts = Vec::new();
        let mut found = false;
        for _run in 0..2 {
            let tr = Arc::new(AtomicU64::new(0));
            let ck = MatModel { transitions: tr.clone(), acts: core.clone(), keep_depth: false }.checker().threads(16).spawn_bfs().join();
            let (us, t, md) = (ck.unique_state_count() as u64, tr.load(Relaxed), ck.max_depth());
            if let Some(path) = ck.discoveries().into_values().next() { report_path(s, path); s.evals(t.max(1), t.max(1)); found = true; tot = (us, t, md); break; }
            counts.push((us, t, md));
        }
        if !found {
            if (counts[0].0, counts[0].1) != (counts[1].0, counts[1].1) { s.rep.machinery_error(format!("state/transition counts differ between two runs: {:?}", counts)); }
            let (us, t, md) = counts[0];
            s.evals(t, t);
            s.meta("core_fixpoint_run", json!({"actions": core.len(), "states": us, "transitions": t, "max_depth": md, "fixpoint_reached": true, "runs_compared": 2}));
            tot = (us, t, md);
            // all 25 actions, every program up to the depth bound (states merged by value)
            let dmax = if s.thorough() { 8 } else { 5 };
            let tr = Arc::new(AtomicU64::new(0));
            let ck = MatModel { transitions: tr.clone(), acts: ALL.to_vec(), keep_depth: true }.checker().threads(16).target_max_depth(dmax + 1).spawn_bfs().join();
            let (us2, t2, md2) = (ck.unique_state_count() as u64, tr.load(Relaxed), ck.max_depth());
            if let Some(path) = ck.discoveries().into_values().next() { report_path(s, path); }
            s.evals(t2, t2);
            s.meta("bounded_run_all_actions", json!({"actions": ALL.len(), "program_length": dmax, "states": us2, "transitions": t2, "max_depth": md2}));
            tot = (tot.0 + us2, tot.1 + t2, tot.2.max(md2));
            let (fits, rejects) = (U8_FITS.load(Relaxed), U8_REJECTS.load(Relaxed));
            s.meta("in_program_numcast_u8", json!({"must_succeed": fits, "must_be_rejected_as_a_whole": rejects}));
            if fits == 0 || rejects == 0 { s.rep.machinery_error(format!("in-program numcast::<u8>() never saw both outcomes: fits {} rejects {}", fits, rejects)); }
            s.sample(json!({"n": 4, "program": ["RowToCol", "SwapLayouts", "Shrink3", "Map2", "ReverseRows"], "invariant": "fields, m[(i,j)], slices, GL flag, diagonal, Display agree with the model in every state"}));
            s.sample(json!({"n": 2, "program": ["Grow4", "TransposeInPlace", "WriteTopRight", "ColArraysRT"]}));
        }
        lk = json!({"states": tot.0.max(1), "transitions": tot.1.max(1), "traces_validated_against_impl": tot.1.max(1), "max_depth": tot.2,
            "explanation": "every transition applies the real vek calls to the real row-major and column-major values (the model is a nested Vec beside them), so every explored trace is validated against the implementation"});
    });

    rep.section("Default is the identity; trace; numcast (concrete integers)", "for the 6 matrix types with pairwise distinct i64 entries: Default/identity/zero by fields, trace = sum of the diagonal, numcast::<i32>() keeps every (i,j), numcast of an out-of-range entry is None as a whole; non-trivial: all", true, false, |s| {
        macro_rules! conc { ($N:expr, $M:ident, $lay:ident, $name:expr) => {{
            const N: usize = $N;
            let a: A<i64, N> = std::array::from_fn(|i| std::array::from_fn(|j| (100 * (i as i64 + 1) + 7 * j as i64) * if (i + j) % 2 == 0 { 1 } else { -1 }));
            let m = $lay::$M::<i64>::build(&a);
            s.evals(5, 5);
            let id: A<i64, N> = std::array::from_fn(|i| std::array::from_fn(|j| (i == j) as i64));
            if <$lay::$M<i64> as Default>::default().decode() != id || $lay::$M::<i64>::identity().decode() != id { s.violation(&format!("Mat{}<{}>::default", N, $name), "not-identity", json!({})); }
            if $lay::$M::<i64>::zero().decode() != [[0i64; N]; N] { s.violation(&format!("Mat{}<{}>::zero", N, $name), "not-zero", json!({})); }
            if m.trace() != (0..N).map(|i| a[i][i]).sum::<i64>() { s.violation(&format!("Mat{}<{}>::trace", N, $name), "not-the-diagonal-sum", json!({"got": m.trace()})); }
            match m.numcast::<i32>() { Some(c) => { let want: A<i32, N> = std::array::from_fn(|i| std::array::from_fn(|j| a[i][j] as i32)); if c.decode() != want { s.violation(&format!("Mat{}<{}>::numcast", N, $name), "element-moved", json!({})); } } None => s.violation(&format!("Mat{}<{}>::numcast", N, $name), "spurious-failure", json!({})) }
            for i in 0..N { for j in 0..N { let mut b = a; b[i][j] = i64::MAX; s.eval(true); if $lay::$M::<i64>::build(&b).numcast::<i32>().is_some() { s.violation(&format!("Mat{}<{}>::numcast", N, $name), "partial-conversion-not-rejected", json!({"position": [i, j]})); } } }
        }} }
        conc!(2, Mat2, rm, "row"); conc!(2, Mat2, cm, "col"); conc!(3, Mat3, rm, "row"); conc!(3, Mat3, cm, "col"); conc!(4, Mat4, rm, "row"); conc!(4, Mat4, cm, "col");
        s.sample(json!({"matrix": "Mat3<col> with a[i][j] = +-(100(i+1)+7j)", "trace": "sum of a[i][i]", "numcast": "every (i,j) preserved; i64::MAX at any single position => None"}));
    });

    rep.section("numcast across element kinds (float->int, signed->unsigned, int->float); Default for further element types",
        "for the 6 matrix types, matrices with pairwise distinct entries of both signs built by struct literal: numcast f64->i32 (every element truncated in place), i64->u16 on the magnitudes, i64->f32; then for EVERY position (i,j) one unconvertible entry there (NaN, +-1e40, +inf for f64->i32; -1 and 65536 for i64->u16) must make the whole result None; Default of Sym / f64 / u8 matrices is the identity by fields, also after conversion to the other layout; non-trivial: all", true, false, |s| {
        s.require_classes(&["converted-as-a-whole", "rejected-as-a-whole", "default"]);
        macro_rules! nc { ($N:expr, $M:ident, $lay:ident, $other:ident, $name:expr) => {{
            const N: usize = $N;
            let a: A<i64, N> = std::array::from_fn(|i| std::array::from_fn(|j| (100 * (i as i64 + 1) + 7 * j as i64) * if (i + j) % 2 == 0 { 1 } else { -1 }));
            let af: A<f64, N> = std::array::from_fn(|i| std::array::from_fn(|j| a[i][j] as f64 + 0.375));
            let wf: A<i32, N> = std::array::from_fn(|i| std::array::from_fn(|j| af[i][j].trunc() as i32));
            let site = format!("Mat{}<{}>::numcast<f64,i32>", N, $name);
            s.eval(true); s.class("converted-as-a-whole");
            if $lay::$M::<f64>::build(&af).numcast::<i32>().map(|m| m.decode()) != Some(wf) { s.violation(&site, "element-moved-or-spurious-failure", json!({"input": format!("{:?}", af), "want": format!("{:?}", wf)})); }
            for i in 0..N { for j in 0..N { for bad in [f64::NAN, 1e40, -1e40, f64::INFINITY] {
                let mut b = af; b[i][j] = bad; s.eval(true); s.class("rejected-as-a-whole");
                if $lay::$M::<f64>::build(&b).numcast::<i32>().is_some() { s.violation_w(&site, "partial-conversion-not-rejected", json!({"position": [i, j], "entry": format!("{}", bad)}), (i * N + j) as u64); }
            } } }
            let au: A<i64, N> = std::array::from_fn(|i| std::array::from_fn(|j| a[i][j].abs()));
            let wu: A<u16, N> = std::array::from_fn(|i| std::array::from_fn(|j| au[i][j] as u16));
            let site = format!("Mat{}<{}>::numcast<i64,u16>", N, $name);
            s.eval(true); s.class("converted-as-a-whole");
            if $lay::$M::<i64>::build(&au).numcast::<u16>().map(|m| m.decode()) != Some(wu) { s.violation(&site, "element-moved-or-spurious-failure", json!({"input": format!("{:?}", au)})); }
            s.eval(true); s.class("rejected-as-a-whole");
            if $lay::$M::<i64>::build(&a).numcast::<u16>().is_some() { s.violation(&site, "partial-conversion-not-rejected", json!({"input": format!("{:?}", a), "what": "every second entry is negative"})); }
            for i in 0..N { for j in 0..N { for bad in [-1i64, 65536] {
                let mut b = au; b[i][j] = bad; s.eval(true); s.class("rejected-as-a-whole");
                if $lay::$M::<i64>::build(&b).numcast::<u16>().is_some() { s.violation_w(&site, "partial-conversion-not-rejected", json!({"position": [i, j], "entry": bad}), (i * N + j) as u64); }
            } } }
            let w32: A<f32, N> = std::array::from_fn(|i| std::array::from_fn(|j| a[i][j] as f32));
            s.eval(true); s.class("converted-as-a-whole");
            if $lay::$M::<i64>::build(&a).numcast::<f32>().map(|m| m.decode()) != Some(w32) { s.violation(&format!("Mat{}<{}>::numcast<i64,f32>", N, $name), "element-moved-or-spurious-failure", json!({})); }
            // Default for further element types, by fields, and seen through the other layout
            let ids: A<Sym, N> = std::array::from_fn(|i| std::array::from_fn(|j| Sym((i == j) as u16)));
            let idf: A<f64, N> = std::array::from_fn(|i| std::array::from_fn(|j| (i == j) as u8 as f64));
            let idb: A<u8, N> = std::array::from_fn(|i| std::array::from_fn(|j| (i == j) as u8));
            s.evals(4, 4); s.class_n("default", 4);
            if <$lay::$M<Sym> as Default>::default().decode() != ids { s.violation(&format!("Mat{}<{}>::default<Sym>", N, $name), "not-identity", json!({})); }
            if <$lay::$M<f64> as Default>::default().decode() != idf { s.violation(&format!("Mat{}<{}>::default<f64>", N, $name), "not-identity", json!({})); }
            if <$lay::$M<u8> as Default>::default().decode() != idb { s.violation(&format!("Mat{}<{}>::default<u8>", N, $name), "not-identity", json!({})); }
            if $other::$M::<Sym>::from(<$lay::$M<Sym> as Default>::default()).decode() != ids { s.violation(&format!("Mat{}<{}>::default<Sym>", N, $name), "not-identity-in-the-other-layout", json!({})); }
        }} }
        nc!(2, Mat2, rm, cm, "row"); nc!(2, Mat2, cm, rm, "col"); nc!(3, Mat3, rm, cm, "row"); nc!(3, Mat3, cm, rm, "col"); nc!(4, Mat4, rm, cm, "row"); nc!(4, Mat4, cm, rm, "col");
        s.sample(json!({"call": "column_major::Mat3<f64>::numcast::<i32>()", "input": "a[i][j] = +-(100(i+1)+7j) + 0.375, entry (2,1) replaced by NaN", "want": "None"}));
    });

    rep.section("Display under format specifications does not depend on the layout",
        "for n=2,3,4, element kinds i64 / f64 / &str (their Display honours width, fill, alignment, sign, zero padding and precision; Sym's does not), 3 matrices each (pairwise distinct entries of both signs and different printed lengths; its transpose; rows reversed), built by struct literal in both layouts: the output of the row-major and of the column-major value must be the same string under each of 10 format specifications, and under \"{}\" equal to the plain model rendering; counted: specifications that change the output at all (must occur, else the element type would ignore them); non-trivial: all", true, false, |s| {
        s.require_classes(&["spec-changes-the-output", "plain"]);
        const SPECS: [&str; 10] = ["{}", "{:7}", "{:<7}", "{:^8}", "{:*>9}", "{:+}", "{:07}", "{:.2}", "{:+010.3}", "{:>+9.1}"];
        const SPECS_STR: [&str; 6] = ["{}", "{:7}", "{:<7}", "{:^8}", "{:*>9}", "{:.2}"];
        macro_rules! fm { ($m:expr) => { vec![format!("{}", $m), format!("{:7}", $m), format!("{:<7}", $m), format!("{:^8}", $m), format!("{:*>9}", $m), format!("{:+}", $m), format!("{:07}", $m), format!("{:.2}", $m), format!("{:+010.3}", $m), format!("{:>+9.1}", $m)] } }
        macro_rules! fs { ($m:expr) => { vec![format!("{}", $m), format!("{:7}", $m), format!("{:<7}", $m), format!("{:^8}", $m), format!("{:*>9}", $m), format!("{:.2}", $m)] } }
        fn plain<T: std::fmt::Display + Copy, const N: usize>(a: &A<T, N>) -> String {
            let mut o = String::from("(");
            for i in 0..N { if i > 0 { o.push_str("\n "); } for j in 0..N { o.push(' '); o.push_str(&format!("{}", a[i][j])); } }
            o.push_str(" )"); o
        }
        const WORDS: [&str; 16] = ["a", "bc", "def", "ghij", "klmno", "p", "qr", "stu", "vwxy", "zABCD", "E", "FG", "HIJ", "KLMN", "OPQRS", "T"];
        macro_rules! disp { ($N:expr, $M:ident) => {{
            const N: usize = $N;
            let ai: A<i64, N> = std::array::from_fn(|i| std::array::from_fn(|j| { let k = (i * N + j) as i64; (k * k * k * 3 + 7 * k + 1) * if (i + 2 * j) % 3 == 1 { -1 } else { 1 } }));
            let af: A<f64, N> = std::array::from_fn(|i| std::array::from_fn(|j| ai[i][j] as f64 / 8.0 + 0.0625));
            let aw: A<&'static str, N> = std::array::from_fn(|i| std::array::from_fn(|j| WORDS[i * N + j]));
            macro_rules! three { ($a:expr, $fmts:ident, $specs:expr, $kind:expr) => {{
                let base = $a;
                let rev = { let mut x = base; x.reverse(); x };
                for (which, a) in [("generic", base), ("transposed", transpose(&base)), ("rows reversed", rev)] {
                    let (r, c) = (rm::$M::build(&a), cm::$M::build(&a));
                    let (fr, fc) = ($fmts!(r), $fmts!(c));
                    for k in 0..fr.len() {
                        s.eval(true);
                        if k == 0 { s.class("plain"); } else if fr[k] != fr[0] { s.class("spec-changes-the-output"); } else { s.class("spec-without-effect-on-this-kind"); }
                        if fr[k] != fc[k] { s.violation_w(&format!("Mat{}<{}>::Display with \"{}\"", N, $kind, $specs[k]), "row-major-and-column-major-output-differ", json!({"matrix": which, "row_major": fr[k], "column_major": fc[k]}), k as u64); }
                    }
                    let want = plain(&a);
                    if fr[0] != want { s.violation(&format!("Mat{}<row>::Display<{}>", N, $kind), "display-is-not-the-rows-in-order", json!({"matrix": which, "got": fr[0], "want": want})); }
                    if fc[0] != want { s.violation(&format!("Mat{}<col>::Display<{}>", N, $kind), "display-is-not-the-rows-in-order", json!({"matrix": which, "got": fc[0], "want": want})); }
                    if s.wants_sample() { s.sample(json!({"n": N, "kind": $kind, "matrix": which, "spec": $specs[fr.len() - 1], "both_layouts_print": fr[fr.len() - 1]})); }
                }
            }} }
            three!(ai, fm, SPECS, "i64"); three!(af, fm, SPECS, "f64"); three!(aw, fs, SPECS_STR, "&str");
        }} }
        disp!(2, Mat2); disp!(3, Mat3); disp!(4, Mat4);
    });

    rep.section("trace sums exactly the diagonal (free terms)",
        "for the 6 matrix types and every one of the n! row arrangements of the n^2 free variables (so that every cell lies on the diagonal of some input): trace() of the value built by struct literal, of its transposed() copy, after transpose() in place and after conversion to the other layout, is an addition tree whose leaves are exactly the n diagonal variables (as a multiset; the association is left open); non-trivial: arrangements other than the identity", true, false, |s| {
        use vx::term::Term;
        s.require_classes(&["identity-arrangement", "permuted-arrangement"]);
        macro_rules! trc { ($N:expr, $M:ident, $lay:ident, $other:ident, $name:expr) => {{
            const N: usize = $N;
            for (p, _) in vx::lattice::signed_permutations(N) {
                let a: A<Term, N> = std::array::from_fn(|i| std::array::from_fn(|j| Term::var((p[i] * N + j) as u32)));
                let mut want: Vec<Term> = (0..N).map(|i| a[i][i]).collect(); want.sort();
                let ident = (0..N).all(|i| p[i] == i);
                s.class(if ident { "identity-arrangement" } else { "permuted-arrangement" });
                let m = $lay::$M::<Term>::build(&a);
                let mut inplace = m; inplace.transpose();
                if N == 3 && !ident && s.wants_sample() { s.sample(json!({"type": format!("Mat3<{}><Term>", $name), "rows_arranged": p, "trace": format!("{:?}", m.trace()), "diagonal_variables": format!("{:?}", want)})); }
                for (how, t) in [("trace", m.trace()), ("transposed().trace", m.transposed().trace()), ("transpose(); trace", inplace.trace()), ("other layout ::from(m).trace", $other::$M::<Term>::from(m).trace())] {
                    s.eval(!ident);
                    let got = t.ac_leaves("add");
                    if got != want { s.violation_w(&format!("Mat{}<{}>::{}", N, $name, how), "sums-other-elements-than-the-diagonal", json!({"rows_arranged": p, "summed": format!("{:?}", got), "diagonal": format!("{:?}", want), "tree": format!("{:?}", t)}), p.iter().enumerate().filter(|(i, &x)| *i != x).count() as u64); }
                }
            }
        }} }
        trc!(2, Mat2, rm, cm, "row"); trc!(2, Mat2, cm, rm, "col"); trc!(3, Mat3, rm, cm, "row"); trc!(3, Mat3, cm, rm, "col"); trc!(4, Mat4, rm, cm, "row"); trc!(4, Mat4, cm, rm, "col");
    });

    // ================================================================================================================
    // second audit pass (out/AUDIT2.md): element-type families, thresholds of the per-element conversions, every
    // formatter flag, trait forms, call multiplicity
    // ================================================================================================================

    rep.section("memory views and array conversions across element widths and alignments",
        "the stateright run uses one element type (Sym, 2 bytes, size = alignment); here the 6 matrix types are instantiated for 10 element types - u8, i32, u128, [u8;3] (size 3, align 1), Option<u8> (2/1), (u8,u32) (8/4), [u64;5] (40/8), &str (fat pointer), and the zero-sized () and [u16;0] - with N*N pairwise distinct entries (zero-sized: all equal, so only lengths and panics are decided) built by struct literal; per type and layout: is_packed, as_row_slice/as_col_slice (order AND length), const and mut pointer = the value's own storage, as_mut_*_slice (order, and a write at every flat position lands in the right field), into_{row,col}_array(s) of both layouts, from_{row,col}_array(s) of both layouts fed with arrays written by the model (not with into_* output), m[(i,j)] for all (i,j), transposed / transpose in place, conversion to the other layout, diagonal, map into a wider pair type; the calls of one (type, size) run under one catch_unwind with a progress marker (a panic is a violation at the call that was running; the calls after it are then skipped); non-trivial: all", true, false, |s| {
        use std::cell::Cell;
        use std::mem::{align_of, size_of};
        s.require_classes(&["size-equals-alignment", "size-differs-from-alignment", "zero-sized"]);
        fn neq<T: PartialEq + std::fmt::Debug>(got: &T, want: &T) -> Option<String> { if got == want { None } else { Some(format!("got {:?} want {:?}", got, want)) } }
        const PACK: &str = "not-packed-for-this-element-type";
        const SLICE: &str = "slice-order-or-length-wrong-for-this-element-type";
        const PTR: &str = "pointer-is-not-the-value's-own-storage-for-this-element-type";
        const WRITE: &str = "write-through-mutable-slice-lands-in-another-element-for-this-element-type";
        const INTO: &str = "array-order-wrong-for-this-element-type";
        const FROM: &str = "array-read-into-the-wrong-elements-for-this-element-type";
        const ELEM: &str = "element-moved-for-this-element-type";
        macro_rules! views { ($N:expr, $M:ident, $T:ty, $tn:expr, $gen:expr) => {{
            const N: usize = $N;
            let g = $gen;
            let arr: A<$T, N> = std::array::from_fn(|i| std::array::from_fn(|j| g(i * N + j)));
            let tarr = transpose(&arr);
            let row_flat: [$T; $N * $N] = std::array::from_fn(|k| arr[k / N][k % N]);
            let col_flat: [$T; $N * $N] = std::array::from_fn(|k| arr[k % N][k / N]);
            let diag: [$T; $N] = std::array::from_fn(|i| arr[i][i]);
            let fresh: $T = g(N * N + 3);
            let (r, c) = (<rm::$M<$T> as MatIO<$T, N>>::build(&arr), <cm::$M<$T> as MatIO<$T, N>>::build(&arr));
            let (sz, al) = (size_of::<$T>(), align_of::<$T>());
            s.class(if sz == 0 { "zero-sized" } else if sz == al { "size-equals-alignment" } else { "size-differs-from-alignment" });
            let cur: Cell<(&'static str, &'static str)> = Cell::new(("", ""));
            let mut fails: Vec<(&'static str, &'static str, &'static str, String)> = Vec::new();
            let mut n = 0u64;
            let mut shown: Option<String> = None;
            let res = catch(|| {
                macro_rules! k { ($lay:expr, $f:expr, $class:expr, $e:expr) => {{ cur.set(($lay, $f)); n += 1; if let Some(d) = $e { fails.push(($lay, $f, $class, d)); } }} }
                k!("row", "is_packed", PACK, if r.is_packed() { None } else { Some("false".to_string()) });
                k!("col", "is_packed", PACK, if c.is_packed() { None } else { Some("false".to_string()) });
                k!("row", "as_row_slice", SLICE, neq(&r.as_row_slice(), &&row_flat[..]));
                k!("col", "as_col_slice", SLICE, neq(&c.as_col_slice(), &&col_flat[..]));
                k!("row", "as_row_ptr/as_mut_row_ptr", PTR, { let mut r2 = r; let p0 = &r2 as *const rm::$M<$T> as *const $T; if r2.as_row_ptr() == p0 && r2.as_mut_row_ptr() as *const $T == p0 { None } else { Some("another address".to_string()) } });
                k!("col", "as_col_ptr/as_mut_col_ptr", PTR, { let mut c2 = c; let p0 = &c2 as *const cm::$M<$T> as *const $T; if c2.as_col_ptr() == p0 && c2.as_mut_col_ptr() as *const $T == p0 { None } else { Some("another address".to_string()) } });
                k!("row", "as_mut_row_slice", SLICE, { let mut r2 = r; neq(&&*r2.as_mut_row_slice(), &&row_flat[..]) });
                k!("col", "as_mut_col_slice", SLICE, { let mut c2 = c; neq(&&*c2.as_mut_col_slice(), &&col_flat[..]) });
                k!("row", "as_mut_row_slice", WRITE, { let mut out = None; for k in 0..N * N { let mut r3 = r; r3.as_mut_row_slice()[k] = fresh; let mut wa = arr; wa[k / N][k % N] = fresh; if r3.decode() != wa { out = Some(format!("flat index {}", k)); break; } } out });
                k!("col", "as_mut_col_slice", WRITE, { let mut out = None; for k in 0..N * N { let mut c3 = c; c3.as_mut_col_slice()[k] = fresh; let mut wa = arr; wa[k % N][k / N] = fresh; if c3.decode() != wa { out = Some(format!("flat index {}", k)); break; } } out });
                k!("row", "into_row_array", INTO, neq(&r.into_row_array(), &row_flat));
                k!("col", "into_row_array", INTO, neq(&c.into_row_array(), &row_flat));
                k!("row", "into_col_array", INTO, neq(&r.into_col_array(), &col_flat));
                k!("col", "into_col_array", INTO, neq(&c.into_col_array(), &col_flat));
                k!("row", "into_row_arrays", INTO, neq(&r.into_row_arrays(), &arr));
                k!("col", "into_row_arrays", INTO, neq(&c.into_row_arrays(), &arr));
                k!("row", "into_col_arrays", INTO, neq(&r.into_col_arrays(), &tarr));
                k!("col", "into_col_arrays", INTO, neq(&c.into_col_arrays(), &tarr));
                // from_*: fed with arrays written by the model
                k!("row", "from_row_array", FROM, neq(&rm::$M::<$T>::from_row_array(row_flat).decode(), &arr));
                k!("col", "from_row_array", FROM, neq(&cm::$M::<$T>::from_row_array(row_flat).decode(), &arr));
                k!("row", "from_col_array", FROM, neq(&rm::$M::<$T>::from_col_array(col_flat).decode(), &arr));
                k!("col", "from_col_array", FROM, neq(&cm::$M::<$T>::from_col_array(col_flat).decode(), &arr));
                k!("row", "from_row_arrays", FROM, neq(&rm::$M::<$T>::from_row_arrays(arr).decode(), &arr));
                k!("col", "from_row_arrays", FROM, neq(&cm::$M::<$T>::from_row_arrays(arr).decode(), &arr));
                k!("row", "from_col_arrays", FROM, neq(&rm::$M::<$T>::from_col_arrays(tarr).decode(), &arr));
                k!("col", "from_col_arrays", FROM, neq(&cm::$M::<$T>::from_col_arrays(tarr).decode(), &arr));
                k!("row", "index", ELEM, { let mut out = None; for i in 0..N { for j in 0..N { if r[(i, j)] != arr[i][j] { out = Some(format!("m[({},{})] = {:?}", i, j, r[(i, j)])); } } } out });
                k!("col", "index", ELEM, { let mut out = None; for i in 0..N { for j in 0..N { if c[(i, j)] != arr[i][j] { out = Some(format!("m[({},{})] = {:?}", i, j, c[(i, j)])); } } } out });
                k!("row", "transposed", ELEM, neq(&r.transposed().decode(), &tarr));
                k!("col", "transposed", ELEM, neq(&c.transposed().decode(), &tarr));
                k!("row", "transpose", ELEM, { let mut r2 = r; r2.transpose(); neq(&r2.decode(), &tarr) });
                k!("col", "transpose", ELEM, { let mut c2 = c; c2.transpose(); neq(&c2.decode(), &tarr) });
                k!("row", "into<col>", ELEM, neq(&cm::$M::<$T>::from(r).decode(), &arr));
                k!("col", "into<row>", ELEM, neq(&rm::$M::<$T>::from(c).decode(), &arr));
                k!("row", "diagonal", ELEM, neq(&r.diagonal().into_array(), &diag));
                k!("col", "diagonal", ELEM, neq(&c.diagonal().into_array(), &diag));
                k!("row", "map<(T,u8)>", ELEM, { let wide: A<($T, u8), N> = std::array::from_fn(|i| std::array::from_fn(|j| (arr[i][j], 7u8))); neq(&r.map(|x| (x, 7u8)).decode(), &wide) });
                k!("col", "map<(T,u8)>", ELEM, { let wide: A<($T, u8), N> = std::array::from_fn(|i| std::array::from_fn(|j| (arr[i][j], 7u8))); neq(&c.map(|x| (x, 7u8)).decode(), &wide) });
                shown = Some(format!("{:?}", c.as_col_slice()));
            });
            s.evals(n, n);
            let ctx = json!({"element_type": $tn, "size": sz, "align": al, "n": N});
            let site = |lay: &str, f: &str| format!("Mat{}<{}><{}>::{}", N, lay, $tn, f);
            match res {
                Ok(()) => {}
                Err(Caught::Unmodelled(w)) => s.unmodelled(w),
                Err(Caught::Panic(m)) => { let (lay, f) = cur.get(); s.violation_w(&site(lay, f), "panic", json!({"type": ctx.clone(), "panic": m}), sz as u64); }
            }
            for (lay, f, class, d) in fails { s.violation_w(&site(lay, f), class, json!({"type": ctx.clone(), "what": d}), sz as u64); }
            if let Some(v) = shown { if N == 3 && s.wants_sample() { s.sample(json!({"type": format!("Mat3<{}>", $tn), "size": sz, "align": al, "as_col_slice(column-major)": v, "model": format!("{:?}", arr)})); } }
        }} }
        macro_rules! views3 { ($T:ty, $tn:expr, $gen:expr) => { views!(2, Mat2, $T, $tn, $gen); views!(3, Mat3, $T, $tn, $gen); views!(4, Mat4, $T, $tn, $gen); } }
        const W20: [&str; 20] = ["a", "bc", "def", "ghij", "klmno", "p", "qr", "stu", "vwxy", "zABCD", "E", "FG", "HIJ", "KLMN", "OPQRS", "T", "UV", "WXY", "Z012", "34567"];
        views3!([u8; 3], "[u8;3]", |k: usize| [k as u8 + 1, 100 + k as u8, 200 - k as u8]);
        views3!(u8, "u8", |k: usize| k as u8 + 1);
        views3!(i32, "i32", |k: usize| (1000 * (k as i32 + 1) + 7) * if k % 2 == 0 { 1 } else { -1 });
        views3!(u128, "u128", |k: usize| ((k as u128 + 1) << 100) | (k as u128 * 3 + 1));
        views3!(Option<u8>, "Option<u8>", |k: usize| if k == 5 { None } else { Some(k as u8) });
        views3!((u8, u32), "(u8,u32)", |k: usize| (k as u8 + 1, 0xDEAD_0000u32 + k as u32));
        views3!([u64; 5], "[u64;5]", |k: usize| [k as u64, 1, 2, 3, u64::MAX - k as u64]);
        views3!(&'static str, "&str", |k: usize| W20[k]);
        views3!((), "()", |_k: usize| ());
        views3!([u16; 0], "[u16;0]", |_k: usize| -> [u16; 0] { [] });
    });

    rep.section("numcast and as_ at the conversion thresholds of further element kinds (elementwise oracle)",
        "numcast: for the 6 matrix types and 15 (source,target) element pairs - f64->i32, f64->u16, f64->f32, f32->f64, i64->i64, i64->u64, u64->i64, u64->u64, i64->f64, u64->f32, i64->i8, i128->i64, i64->i128, isize->usize, Wrapping<i64>->Wrapping<u8> - a base matrix of pairwise distinct convertible entries and, for EVERY position (i,j), each special value of the pair's alphabet there (just below / at / just above the target's bounds, 2^53+1 and the 64-bit extremes that a detour through f64 or i64 cannot carry, fractions, -0.0, subnormals, NaN, +-inf); oracle: the result is Some(matrix of <D as NumCast>::from(element)) when every element converts and None as a whole otherwise - num_traits applied per element by the check, nothing of vek; as_: 7 pairs (f64->i32, f64->u8, i32->u8, i64->f32, u64->i64, f32->f64, f64->f32) against Rust's `as` per element (saturation, NaN -> 0, wrap-around); results are compared through their Debug rendering (NaN = NaN, -0.0 != 0.0); non-trivial: all", true, false, |s| {
        use std::num::Wrapping;
        s.require_classes(&["converted-as-a-whole", "rejected-as-a-whole", "as_"]);
        fn run_cases<S: Copy + std::fmt::Debug, const N: usize>(s: &Section, site: &str, class: &str, is_as: bool, base: &A<S, N>, specials: &[S], real: &dyn Fn(&A<S, N>) -> Option<String>, oracle: &dyn Fn(&A<S, N>) -> Option<String>) {
            let mut cases: Vec<(A<S, N>, String, u64)> = vec![(*base, "base matrix".into(), 0)];
            for (q, &sp) in specials.iter().enumerate() { for i in 0..N { for j in 0..N { let mut b = *base; b[i][j] = sp; cases.push((b, format!("{:?} at ({},{})", sp, i, j), (1 + q * N * N + i * N + j) as u64)); } } }
            for (a, what, wt) in cases {
                let want = oracle(&a);
                s.eval(true); s.class(if is_as { "as_" } else if want.is_some() { "converted-as-a-whole" } else { "rejected-as-a-whole" });
                if let Some(got) = s.call(site, || json!({"input": format!("{:?}", a)}), || real(&a)) {
                    if got != want { s.violation_w(site, class, json!({"changed": what, "input": format!("{:?}", a), "got": got, "want": want}), wt); }
                    else if N == 3 && want.is_none() && s.wants_sample() { s.sample(json!({"call": site, "changed": what, "result": "None"})); }
                }
            }
        }
        macro_rules! ncp { ($N:expr, $M:ident, $S:ty, $D:ty, $pn:expr, $base:expr, $sp:expr) => {{
            const N: usize = $N;
            let bf = $base;
            let base: A<$S, N> = std::array::from_fn(|i| std::array::from_fn(|j| bf(i * N + j)));
            let specials: Vec<$S> = $sp;
            let oracle = |a: &A<$S, N>| -> Option<String> { let mut o = [[<$D>::default(); N]; N]; for i in 0..N { for j in 0..N { o[i][j] = <$D as vek::num_traits::NumCast>::from(a[i][j])?; } } Some(format!("{:?}", o)) };
            run_cases::<$S, N>(s, &format!("Mat{}<row>::numcast<{}>", N, $pn), "differs-from-the-elementwise-NumCast", false, &base, &specials, &|a| <rm::$M<$S> as MatIO<$S, N>>::build(a).numcast::<$D>().map(|m| format!("{:?}", m.decode())), &oracle);
            run_cases::<$S, N>(s, &format!("Mat{}<col>::numcast<{}>", N, $pn), "differs-from-the-elementwise-NumCast", false, &base, &specials, &|a| <cm::$M<$S> as MatIO<$S, N>>::build(a).numcast::<$D>().map(|m| format!("{:?}", m.decode())), &oracle);
        }} }
        macro_rules! asp { ($N:expr, $M:ident, $S:ty, $D:ty, $pn:expr, $base:expr, $sp:expr) => {{
            const N: usize = $N;
            let bf = $base;
            let base: A<$S, N> = std::array::from_fn(|i| std::array::from_fn(|j| bf(i * N + j)));
            let specials: Vec<$S> = $sp;
            let oracle = |a: &A<$S, N>| -> Option<String> { let o: A<$D, N> = std::array::from_fn(|i| std::array::from_fn(|j| a[i][j] as $D)); Some(format!("{:?}", o)) };
            run_cases::<$S, N>(s, &format!("Mat{}<row>::as_<{}>", N, $pn), "differs-from-the-elementwise-as-cast", true, &base, &specials, &|a| Some(format!("{:?}", <rm::$M<$S> as MatIO<$S, N>>::build(a).as_::<$D>().decode())), &oracle);
            run_cases::<$S, N>(s, &format!("Mat{}<col>::as_<{}>", N, $pn), "differs-from-the-elementwise-as-cast", true, &base, &specials, &|a| Some(format!("{:?}", <cm::$M<$S> as MatIO<$S, N>>::build(a).as_::<$D>().decode())), &oracle);
        }} }
        macro_rules! three { ($mac:ident, $S:ty, $D:ty, $pn:expr, $base:expr, $sp:expr) => { $mac!(2, Mat2, $S, $D, $pn, $base, $sp); $mac!(3, Mat3, $S, $D, $pn, $base, $sp); $mac!(4, Mat4, $S, $D, $pn, $base, $sp); } }
        let sgn = |k: usize| if k % 2 == 0 { 1i64 } else { -1 };
        const P53: i64 = (1i64 << 53) + 1;
        three!(ncp, f64, i32, "f64,i32 thresholds", |k: usize| (100 * (k as i64 + 1)) as f64 * sgn(k) as f64 + 0.375, vec![2147483647.0, 2147483647.9, 2147483648.0, -2147483648.0, -2147483648.9, -2147483649.0, f64::NAN, f64::INFINITY, f64::NEG_INFINITY, -0.0, 5e-324, -0.9, 0.9, 1e40]);
        three!(ncp, f64, u16, "f64,u16 thresholds", |k: usize| (100 * (k as i64 + 1)) as f64 + 0.625, vec![-0.9, -1.0, 65535.0, 65535.9, 65536.0, -0.0, f64::NAN]);
        three!(ncp, f64, f32, "f64,f32", |k: usize| (k as f64 + 1.0) * 0.1 * sgn(k) as f64, vec![1e40, -1e40, 1e-50, 16777217.0, f64::NAN, f64::INFINITY, f64::MAX, f64::MIN_POSITIVE]);
        three!(ncp, f32, f64, "f32,f64", |k: usize| (k as f32 + 1.0) * 0.1 * sgn(k) as f32, vec![f32::MAX, f32::MIN_POSITIVE, 1e-45, f32::NAN, f32::NEG_INFINITY, 16777216.0]);
        three!(ncp, i64, i64, "i64,i64", |k: usize| (k as i64 + 1) * 1001 * sgn(k), vec![P53, -P53, i64::MAX, i64::MIN, i64::MAX - 1, i64::MIN + 1]);
        three!(ncp, i64, u64, "i64,u64", |k: usize| (k as i64 + 1) * 1001, vec![-1, 0, i64::MAX, i64::MIN, P53]);
        three!(ncp, u64, i64, "u64,i64", |k: usize| (k as u64 + 1) * 1001, vec![u64::MAX, 1u64 << 63, (1u64 << 63) - 1, P53 as u64]);
        three!(ncp, u64, u64, "u64,u64", |k: usize| (k as u64 + 1) * 1001, vec![u64::MAX, u64::MAX - 1, (1u64 << 63) + 1, P53 as u64]);
        three!(ncp, i64, f64, "i64,f64", |k: usize| (k as i64 + 1) * 1001 * sgn(k), vec![P53, i64::MAX, i64::MIN, -P53]);
        three!(ncp, u64, f32, "u64,f32", |k: usize| (k as u64 + 1) * 1001, vec![16777217, u64::MAX, (1u64 << 53) + 1]);
        three!(ncp, i64, i8, "i64,i8 thresholds", |k: usize| (k as i64 + 1) * sgn(k), vec![127, 128, -128, -129]);
        three!(ncp, i128, i64, "i128,i64 thresholds", |k: usize| ((k as i64 + 1) * 1001 * sgn(k)) as i128, vec![i64::MAX as i128, i64::MAX as i128 + 1, i64::MIN as i128, i64::MIN as i128 - 1, i128::MAX, i128::MIN]);
        three!(ncp, i64, i128, "i64,i128", |k: usize| (k as i64 + 1) * 1001 * sgn(k), vec![i64::MAX, i64::MIN, P53]);
        three!(ncp, isize, usize, "isize,usize thresholds", |k: usize| (k as isize + 1) * 1001, vec![-1, 0, isize::MAX, isize::MIN]);
        three!(ncp, Wrapping<i64>, Wrapping<u8>, "Wrapping<i64>,Wrapping<u8> thresholds", |k: usize| Wrapping(k as i64 + 1), vec![Wrapping(255), Wrapping(256), Wrapping(-1), Wrapping(0)]);
        three!(asp, f64, i32, "f64,i32", |k: usize| (100 * (k as i64 + 1)) as f64 * sgn(k) as f64 + 0.375, vec![f64::NAN, f64::INFINITY, f64::NEG_INFINITY, 2147483648.0, -2147483649.0, -0.9, 1e40, 300.7]);
        three!(asp, f64, u8, "f64,u8", |k: usize| k as f64 * 3.0 + 0.75, vec![-1.5, 255.9, 256.0, f64::NAN, 300.7, -0.0]);
        three!(asp, i32, u8, "i32,u8", |k: usize| k as i32 + 1, vec![256, -1, 255, i32::MIN, 300]);
        three!(asp, i64, f32, "i64,f32", |k: usize| (k as i64 + 1) * 1001 * sgn(k), vec![16777217, i64::MAX, P53]);
        three!(asp, u64, i64, "u64,i64", |k: usize| (k as u64 + 1) * 1001, vec![u64::MAX, 1u64 << 63]);
        three!(asp, f32, f64, "f32,f64", |k: usize| (k as f32 + 1.0) * 0.1, vec![f32::MAX, 1e-45, f32::NAN]);
        three!(asp, f64, f32, "f64,f32", |k: usize| (k as f64 + 1.0) * 0.1, vec![1e40, 16777217.0, 1e-50, f64::NAN]);
    });

    rep.section("Display: every formatter setting reaches every element identically in both layouts (spy element, special renderings)",
        "for n=2,3,4 and 4 element kinds - a spy whose Display prints every formatter setting it is handed (width, precision, fill, alignment, the +, -, # and 0 flags), f64 with special renderings (NaN, +-inf, -0.0, subnormal, 1e300, fractions), &str with special contents (empty, blanks, embedded newline, parentheses, non-ASCII), char - 3 matrices each (generic, transposed, rows reversed) built by struct literal in both layouts: the output of the row-major and of the column-major value must be the same string under each of 16 format specifications, among them the flags the first Display section does not use (#, -, a bare 0, widths 0/1, precision 0, run-time width / precision arguments, a non-ASCII fill), and under \"{}\" equal to the plain model rendering; counted: specifications under which the spy's output differs from its \"{}\" output (must occur); non-trivial: all", true, false, |s| {
        s.require_classes(&["plain", "spy-sees-the-setting"]);
        macro_rules! fmt_all { ($m:expr) => { vec![
            ("{}", format!("{}", $m)), ("{:#}", format!("{:#}", $m)), ("{:-}", format!("{:-}", $m)), ("{:+}", format!("{:+}", $m)), ("{:0}", format!("{:0}", $m)),
            ("{:1}", format!("{:1}", $m)), ("{:.0}", format!("{:.0}", $m)), ("{:#07.2}", format!("{:#07.2}", $m)), ("{:_<+5}", format!("{:_<+5}", $m)), ("{:^#9.3}", format!("{:^#9.3}", $m)),
            ("{:>-012}", format!("{:>-012}", $m)), ("{:+#}", format!("{:+#}", $m)), ("{:w$.p$} with w=6 p=1", format!("{:w$.p$}", $m, w = 6, p = 1)), ("{:*^1$} with 11", format!("{:*^1$}", $m, 11)),
            ("{:.*} with 3", format!("{:.*}", 3, $m)), ("{:\u{e9}>4}", format!("{:\u{e9}>4}", $m)),
        ] } }
        fn plain2<T: std::fmt::Display + Copy, const N: usize>(a: &A<T, N>) -> String {
            let mut o = String::from("(");
            for i in 0..N { if i > 0 { o.push_str("\n "); } for j in 0..N { o.push(' '); o.push_str(&format!("{}", a[i][j])); } }
            o.push_str(" )"); o
        }
        const F16: [f64; 16] = [f64::NAN, f64::INFINITY, -0.0, 1e300, 5e-324, 1.5, -2.25, 1e-7, 123456789.125, f64::NEG_INFINITY, f64::MAX, f64::MIN_POSITIVE, 0.1, -0.1, 3.0, 0.0];
        const S16: [&str; 16] = ["", " ", "a b", "x\ny", "\u{e9}\u{4e2d}", "\t", "( )", ")", "(", "ab", "\n ", "c", " d", "e ", "\n", "fgh"];
        macro_rules! disp2 { ($N:expr, $M:ident) => {{
            const N: usize = $N;
            let asp: A<Spy, N> = std::array::from_fn(|i| std::array::from_fn(|j| Spy((i * N + j) as u8)));
            let af: A<f64, N> = std::array::from_fn(|i| std::array::from_fn(|j| F16[i * N + j]));
            let aw: A<&'static str, N> = std::array::from_fn(|i| std::array::from_fn(|j| S16[i * N + j]));
            let ac: A<char, N> = std::array::from_fn(|i| std::array::from_fn(|j| (b'a' + (i * N + j) as u8) as char));
            macro_rules! three2 { ($a:expr, $kind:expr, $spy:expr) => {{
                let base = $a;
                let rev = { let mut x = base; x.reverse(); x };
                for (which, a) in [("generic", base), ("transposed", transpose(&base)), ("rows reversed", rev)] {
                    let (r, c) = (rm::$M::build(&a), cm::$M::build(&a));
                    let site = format!("Mat{}::Display<{}> under further flags", N, $kind);
                    if let Some((fr, fc)) = s.call(&site, || json!({"matrix": which}), || (fmt_all!(r), fmt_all!(c))) {
                        for k in 0..fr.len() {
                            s.eval(true);
                            if k == 0 { s.class("plain"); } else if $spy && fr[k].1 != fr[0].1 { s.class("spy-sees-the-setting"); }
                            if fr[k].1 != fc[k].1 { s.violation_w(&format!("Mat{}<{}>::Display with \"{}\" (further flags)", N, $kind, fr[k].0), "row-major-and-column-major-output-differ", json!({"matrix": which, "row_major": fr[k].1, "column_major": fc[k].1}), k as u64); }
                        }
                        let want = plain2(&a);
                        if fr[0].1 != want { s.violation(&format!("Mat{}<row>::Display<{}> (special renderings)", N, $kind), "display-is-not-the-rows-in-order", json!({"matrix": which, "got": fr[0].1, "want": want})); }
                        if fc[0].1 != want { s.violation(&format!("Mat{}<col>::Display<{}> (special renderings)", N, $kind), "display-is-not-the-rows-in-order", json!({"matrix": which, "got": fc[0].1, "want": want})); }
                        if $spy && N == 2 && s.wants_sample() { s.sample(json!({"n": N, "kind": $kind, "matrix": which, "spec": fr[9].0, "both_layouts_print": fr[9].1})); }
                    }
                }
            }} }
            three2!(asp, "Spy", true); three2!(af, "f64 specials", false); three2!(aw, "&str specials", false); three2!(ac, "char", false);
        }} }
        disp2!(2, Mat2); disp2!(3, Mat3); disp2!(4, Mat4);
    });

    rep.section("trait forms of zero / identity; map, map2, apply, apply2 call the closure once per element",
        "for the 6 matrix types: <M as num_traits::One>::one() and <M as num_traits::Zero>::zero() (implemented apart from the inherent identity()/zero()/Default) decoded by fields for i64 and f64, also seen through the other layout; map / map2 / apply / apply2 with a recording closure on N*N pairwise distinct symbols (partner: N*N distinct u8 tags): the closure must be called exactly N*N times and the multiset of its arguments must be the multiset of the elements (map2/apply2: of the (element, partner element at the same (i,j)) pairs) - the ORDER of the calls is deliberately left open (row-major walks rows, column-major walks columns); non-trivial: all", true, false, |s| {
        s.require_classes(&["trait-form", "call-multiplicity"]);
        use vek::num_traits::{One as NOne, Zero as NZero};
        macro_rules! tf { ($N:expr, $M:ident, $lay:ident, $other:ident, $ln:expr) => {{
            const N: usize = $N;
            let idi: A<i64, N> = std::array::from_fn(|i| std::array::from_fn(|j| (i == j) as i64));
            let idf: A<f64, N> = std::array::from_fn(|i| std::array::from_fn(|j| (i == j) as u8 as f64));
            s.evals(6, 6); s.class_n("trait-form", 6);
            if let Some(m) = s.call(&format!("<Mat{}<{}> as One>::one<i64>", N, $ln), || json!({}), || <$lay::$M<i64> as NOne>::one()) {
                if m.decode() != idi { s.violation(&format!("<Mat{}<{}> as One>::one<i64>", N, $ln), "not-identity", json!({"got": format!("{:?}", m.decode())})); }
                if $other::$M::<i64>::from(m).decode() != idi { s.violation(&format!("<Mat{}<{}> as One>::one<i64>", N, $ln), "not-identity-in-the-other-layout", json!({})); }
            }
            if let Some(m) = s.call(&format!("<Mat{}<{}> as One>::one<f64>", N, $ln), || json!({}), || <$lay::$M<f64> as NOne>::one()) {
                if m.decode() != idf { s.violation(&format!("<Mat{}<{}> as One>::one<f64>", N, $ln), "not-identity", json!({"got": format!("{:?}", m.decode())})); }
            }
            if let Some(m) = s.call(&format!("<Mat{}<{}> as Zero>::zero<i64>", N, $ln), || json!({}), || <$lay::$M<i64> as NZero>::zero()) {
                if m.decode() != [[0i64; N]; N] { s.violation(&format!("<Mat{}<{}> as Zero>::zero<i64>", N, $ln), "not-zero", json!({"got": format!("{:?}", m.decode())})); }
            }
            if let Some(m) = s.call(&format!("<Mat{}<{}> as Zero>::zero<f64>", N, $ln), || json!({}), || <$lay::$M<f64> as NZero>::zero()) {
                if m.decode() != [[0f64; N]; N] { s.violation(&format!("<Mat{}<{}> as Zero>::zero<f64>", N, $ln), "not-zero", json!({"got": format!("{:?}", m.decode())})); }
            }
            // call multiplicity
            let arr: A<Sym, N> = std::array::from_fn(|i| std::array::from_fn(|j| Sym(10 + (i * N + j) as u16)));
            let tag: A<u8, N> = std::array::from_fn(|i| std::array::from_fn(|j| (i * N + j) as u8 + 1));
            let mut want1: Vec<u16> = arr.iter().flatten().map(|x| x.0).collect(); want1.sort();
            let mut want2: Vec<(u16, u8)> = (0..N).flat_map(|i| (0..N).map(move |j| (i, j))).map(|(i, j)| (arr[i][j].0, tag[i][j])).collect(); want2.sort();
            let m = <$lay::$M<Sym> as MatIO<Sym, N>>::build(&arr);
            let p = <$lay::$M<u8> as MatIO<u8, N>>::build(&tag);
            s.evals(4, 4); s.class_n("call-multiplicity", 4);
            let site = |f: &str| format!("Mat{}<{}>::{} (recording closure)", N, $ln, f);
            let mut seen: Vec<u16> = Vec::new();
            if s.call(&site("map"), || json!({}), || { let _ = m.map(|x: Sym| { seen.push(x.0); x.0 as u32 }); }).is_some() {
                seen.sort(); if seen != want1 { s.violation(&site("map"), "closure-not-called-once-per-element", json!({"arguments_sorted": seen, "elements_sorted": want1})); }
            }
            let mut seen: Vec<u16> = Vec::new();
            if s.call(&site("apply"), || json!({}), || { let mut m2 = m; m2.apply(|x: Sym| { seen.push(x.0); x }); }).is_some() {
                seen.sort(); if seen != want1 { s.violation(&site("apply"), "closure-not-called-once-per-element", json!({"arguments_sorted": seen, "elements_sorted": want1})); }
            }
            let mut seen2: Vec<(u16, u8)> = Vec::new();
            if s.call(&site("map2"), || json!({}), || { let _ = m.map2(p, |x: Sym, t: u8| { seen2.push((x.0, t)); t }); }).is_some() {
                seen2.sort(); if seen2 != want2 { s.violation(&site("map2"), "closure-not-called-once-per-element-pair", json!({"arguments_sorted": format!("{:?}", seen2), "pairs_sorted": format!("{:?}", want2)})); }
            }
            let mut seen2: Vec<(u16, u8)> = Vec::new();
            if s.call(&site("apply2"), || json!({}), || { let mut m2 = m; m2.apply2(p, |x: Sym, t: u8| { seen2.push((x.0, t)); x }); }).is_some() {
                seen2.sort(); if seen2 != want2 { s.violation(&site("apply2"), "closure-not-called-once-per-element-pair", json!({"arguments_sorted": format!("{:?}", seen2), "pairs_sorted": format!("{:?}", want2)})); }
            }
        }} }
        tf!(2, Mat2, rm, cm, "row"); tf!(2, Mat2, cm, rm, "col"); tf!(3, Mat3, rm, cm, "row"); tf!(3, Mat3, cm, rm, "col"); tf!(4, Mat4, rm, cm, "row"); tf!(4, Mat4, cm, rm, "col");
        s.sample(json!({"call": "<column_major::Mat3<i64> as num_traits::One>::one()", "want": "identity by fields"}));
    });
    rep.section("array conversions and conversion programs on elements with drop glue (ownership-tracked, neither Copy nor Clone)",
        "the search above runs on a Copy symbol, for which a conversion that reads the source and then lets it drop is invisible. Here the 6 matrix types hold ownership-tracked tokens (token i*N+j at (i,j), built by struct literal): every program of length 1..2 (thorough: 1..3) over the 8 steps from_{row,col}_{array,arrays}(m.into_{row,col}_{array,arrays}()) - same name: identity, crossed: transpose - must end with token (i,j) (resp. (j,i) after an odd number of crossings) at (i,j), read back through the public fields, with no token dropped while the result is alive and every token dropped exactly once afterwards; plus each into_* conversion alone (order of the array, tokens alive). non-trivial: all",
        true, false, |s| {
        use vx::tok::{self, Tok};
        use vx::vecs::VecN;
        let thorough = s.thorough();
        let maxlen = if thorough { 3 } else { 2 };
        s.require_classes(&["Mat2<row>", "Mat2<col>", "Mat3<row>", "Mat3<col>", "Mat4<row>", "Mat4<col>", "program with an odd number of crossings", "program with an even number of crossings"]);
        macro_rules! dg { ($M:ident, $n:expr, $lay:ident, $layname:expr, $lines:ident, $V:ident) => {{
            const N: usize = $n; const NN: usize = N * N;
            let name = format!("Mat{}<{}>", N, $layname);
            type MT = $lay::$M<Tok>;
            let build = || -> MT {
                tok::reset();
                let mut t: Vec<Option<Tok>> = (0..NN).map(|_| Some(Tok::new())).collect();
                let lines: Vec<$V<Tok>> = (0..N).map(|k| <$V<Tok> as VecN<Tok>>::from_elems((0..N).map(|l| { let (i, j) = if $layname == "row" { (k, l) } else { (l, k) }; t[i * N + j].take().unwrap() }).collect())).collect();
                $lay::$M { $lines: <$V<$V<Tok>> as VecN<$V<Tok>>>::from_elems(lines) }
            };
            let decode = |m: MT| -> (Vec<Vec<u32>>, Vec<Vec<Tok>>) {
                let lines: Vec<Vec<Tok>> = m.$lines.into_elems().into_iter().map(|l| l.into_elems()).collect();
                let mut out = vec![vec![0u32; N]; N];
                for (k, l) in lines.iter().enumerate() { for (x, t) in l.iter().enumerate() { let (i, j) = if $layname == "row" { (k, x) } else { (x, k) }; out[i][j] = t.id; } }
                (out, lines)
            };
            let steps: [(&str, bool, fn(MT) -> MT); 8] = [
                ("from_row_array(into_row_array)", false, |m| <MT>::from_row_array(m.into_row_array())),
                ("from_col_array(into_col_array)", false, |m| <MT>::from_col_array(m.into_col_array())),
                ("from_row_arrays(into_row_arrays)", false, |m| <MT>::from_row_arrays(m.into_row_arrays())),
                ("from_col_arrays(into_col_arrays)", false, |m| <MT>::from_col_arrays(m.into_col_arrays())),
                ("from_col_array(into_row_array)", true, |m| <MT>::from_col_array(m.into_row_array())),
                ("from_row_array(into_col_array)", true, |m| <MT>::from_row_array(m.into_col_array())),
                ("from_col_arrays(into_row_arrays)", true, |m| <MT>::from_col_arrays(m.into_row_arrays())),
                ("from_row_arrays(into_col_arrays)", true, |m| <MT>::from_row_arrays(m.into_col_arrays())),
            ];
            let mut progs: Vec<Vec<usize>> = vec![vec![]];
            let mut all: Vec<Vec<usize>> = vec![];
            for _ in 0..maxlen { let mut nx = vec![]; for p in &progs { for k in 0..8 { let mut q = p.clone(); q.push(k); nx.push(q); } } all.extend(nx.iter().cloned()); progs = nx; }
            for prog in &all {
                let label: Vec<&str> = prog.iter().map(|&k| steps[k].0).collect();
                let site = format!("{}::{}", name, steps[*prog.last().unwrap()].0);
                let odd = prog.iter().filter(|&&k| steps[k].1).count() % 2 == 1;
                s.eval(true); s.class(&name); s.class(if odd { "program with an odd number of crossings" } else { "program with an even number of crossings" });
                let r = catch(|| {
                    let mut m = build();
                    for &k in prog { m = (steps[k].2)(m); }
                    let early = tok::dropped_ids(); let f1 = tok::faults();
                    let (got, keep) = decode(m);
                    let alive = tok::dropped_ids().is_empty();
                    drop(keep);
                    (early, f1, got, alive, tok::dropped_ids().len(), tok::count(), tok::faults())
                });
                match r {
                    Err(c) => s.violation(&site, "panic", json!({"program": label, "what": format!("{:?}", c)})),
                    Ok((early, f1, got, alive, dropped, created, f2)) => {
                        let want: Vec<Vec<u32>> = (0..N).map(|i| (0..N).map(|j| if odd { (j * N + i) as u32 } else { (i * N + j) as u32 }).collect()).collect();
                        if !early.is_empty() || !alive { s.violation_w(&site, "element-dropped-during-conversion", json!({"program": label, "dropped_while_the_result_was_alive": early}), prog.len() as u64); }
                        if got != want { s.violation_w(&site, "wrong-element-after-conversion-program", json!({"program": label, "got": got, "want": want}), prog.len() as u64); }
                        if let Some(f) = f1.into_iter().chain(f2).next() { s.violation_w(&site, "ledger-fault", json!({"program": label, "what": f}), prog.len() as u64); }
                        if dropped != created || created != NN { s.violation_w(&site, "drop-count-mismatch", json!({"program": label, "dropped": dropped, "created": created, "expected": NN}), prog.len() as u64); }
                    }
                }
            }
            // each into_* alone: order of the array and tokens alive while it is held
            let want_rows: Vec<u32> = (0..NN as u32).collect();
            let want_cols: Vec<u32> = (0..N).flat_map(|j| (0..N).map(move |i| (i * N + j) as u32)).collect();
            macro_rules! one { ($f:ident, $want:expr, $flat:expr) => {{
                let site = format!("{}::{}", name, stringify!($f)); s.eval(true);
                match catch(|| { let a = build().$f(); let early = tok::dropped_ids(); let g: Vec<u32> = $flat(&a); drop(a); (early, g, tok::dropped_ids().len(), tok::faults()) }) {
                    Err(c) => s.violation(&site, "panic", json!({"what": format!("{:?}", c)})),
                    Ok((early, g, dropped, f)) => {
                        if !early.is_empty() { s.violation(&site, "element-dropped-during-conversion", json!({"dropped_while_the_array_was_alive": early})); }
                        if g != $want { s.violation(&site, "wrong-element-after-conversion-program", json!({"got": g, "want": $want})); }
                        if dropped != NN { s.violation(&site, "drop-count-mismatch", json!({"dropped": dropped, "expected": NN})); }
                        if let Some(f) = f.into_iter().next() { s.violation(&site, "ledger-fault", json!({"what": f})); }
                    }
                }
            }} }
            one!(into_row_array, want_rows, |a: &[Tok; NN]| a.iter().map(|t| t.id).collect());
            one!(into_col_array, want_cols, |a: &[Tok; NN]| a.iter().map(|t| t.id).collect());
            one!(into_row_arrays, want_rows, |a: &[[Tok; N]; N]| a.iter().flatten().map(|t| t.id).collect());
            one!(into_col_arrays, want_cols, |a: &[[Tok; N]; N]| a.iter().flatten().map(|t| t.id).collect());
            if N == 3 && $layname == "row" { s.sample(json!({"type": name, "programs": all.len(), "example": [steps[6].0, steps[3].0], "expect": "token (j,i) at (i,j), nothing dropped before the result is"})); }
        }} }
        dg!(Mat2, 2, rm, "row", rows, Vec2); dg!(Mat2, 2, cm, "col", cols, Vec2);
        dg!(Mat3, 3, rm, "row", rows, Vec3); dg!(Mat3, 3, cm, "col", cols, Vec3);
        dg!(Mat4, 4, rm, "row", rows, Vec4); dg!(Mat4, 4, cm, "col", cols, Vec4);
        s.meta("programs_per_type", json!(if thorough { 8 + 64 + 512 } else { 8 + 64 }));
    });
    std::process::exit(rep.finish_with(lk));
}
