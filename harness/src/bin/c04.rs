//! C04 — rotation builders yield proper right-handed rotations, consistent across types.
//!
//! Exact tier: angles are tokens k*arg(z) of rational points z of the unit circle (sin/cos exact
//! rationals), axes have rational norm (so `normalized()` is exact).  The oracle is Rodrigues'
//! formula from the definition (`vx::matx::rodrigues`) applied to the basis; the real matrices are
//! decoded through their public fields.  Float tier: f64/f32 against Rodrigues computed in f64.
use vek::Quaternion;
use vx::matx::*;
use vx::q::angle_base_t;
use vx::*;

// ---- angle alphabet --------------------------------------------------------------------------------
/// theta = k * arg(z), z = ((1-t^2)/(1+t^2), 2t/(1+t^2)), t = tn/td
#[derive(Clone, Copy, PartialEq, Debug)]
struct Ang { tn: i128, td: i128, k: i128 }
const fn ang(tn: i128, td: i128, k: i128) -> Ang { Ang { tn, td, k } }
impl Ang {
    fn tok(self) -> X { X::tok(angle_base_t(self.tn, self.td), self.k) }
    /// exact (cos, sin)
    fn cs(self) -> (X, X) { let (s, c) = self.tok().sin_cos_q(); (X::R(c), X::R(s)) }
    /// exact (cos, sin) of half the angle (k must be even)
    fn half_cs(self) -> (X, X) { assert!(self.k % 2 == 0); ang(self.tn, self.td, self.k / 2).cs() }
    fn real(self) -> f64 { self.tok().shadow() }
    fn trivial(self) -> bool { self.cs() == (qi(1), qi(0)) }
    fn weight(self) -> u64 { (self.k.abs() + self.tn.abs() + self.td) as u64 }
    fn plus(self, o: Ang) -> Ang { assert!((self.tn, self.td) == (o.tn, o.td)); ang(self.tn, self.td, self.k + o.k) }
    fn json(self) -> Value {
        let (c, s) = self.cs();
        json!({"theta": format!("{}*arg(z), z = rational circle point with parameter t={}/{}", self.k, self.tn, self.td), "cos": jx(c), "sin": jx(s), "radians~": self.real()})
    }
    fn classes(self) -> Vec<&'static str> {
        let (c, s) = self.cs();
        let mut v = vec![match (c.rat().n.signum(), s.rat().n.signum()) {
            (1, 1) => "theta-in-Q1", (-1, 1) => "theta-in-Q2", (-1, -1) => "theta-in-Q3", (1, -1) => "theta-in-Q4",
            (1, 0) => "theta=0-mod-2pi", (-1, 0) => "half-turn", _ => "quarter-turn",
        }];
        let r = self.real();
        if r < 0.0 { v.push("negative-angle"); }
        if r > std::f64::consts::PI + 1e-9 { v.push("angle-beyond-pi"); }
        v
    }
}
const ANGLE_CLASSES: [&str; 7] = ["theta-in-Q1", "theta-in-Q2", "theta-in-Q3", "theta-in-Q4", "half-turn", "negative-angle", "angle-beyond-pi"];

/// even multiples (theta/2 is again an integer multiple: usable with the half-angle quaternion code)
fn even_angles(th: bool) -> Vec<Ang> {
    let mut v = vec![
        // k = 2: theta = 2 phi.  (cos theta, sin theta):
        ang(0, 1, 2),  // (1, 0)
        ang(1, 7, 2),  // (527/625, 336/625)      Q1
        ang(1, 5, 2),  // (119/169, 120/169)      Q1
        ang(1, 3, 2),  // (7/25, 24/25)           Q1
        ang(1, 2, 2),  // (-7/25, 24/25)          Q2
        ang(2, 3, 2),  // (-119/169, 120/169)     Q2
        ang(1, 1, 2),  // (-1, 0)                 pi
        ang(3, 2, 2),  // (-119/169, -120/169)    Q3, theta ~ 225 deg > pi
        ang(2, 1, 2),  // (-7/25, -24/25)         Q3, theta ~ 254 deg > pi
        ang(3, 1, 2),  // (7/25, -24/25)          Q4, theta ~ 286 deg > pi
        ang(5, 1, 2),  // (119/169, -120/169)     Q4, theta ~ 315 deg > pi
        // negative angles
        ang(1, 3, -2), ang(1, 2, -2), ang(1, 1, -2), ang(2, 1, -2), ang(5, 1, -2), ang(-1, 3, 2), ang(-2, 1, 2),
        // larger multiples: 4 phi, 6 phi
        ang(1, 3, 4),  // (-527/625, 336/625)     Q2 ~147 deg
        ang(1, 2, 4),  // (-527/625, -336/625)    Q3 ~213 deg
        ang(1, 5, 4),  // (-239/28561, 28560/28561) Q2 ~90.5 deg
        ang(1, 3, 6),  // ~221 deg
        ang(1, 2, 6),  // ~319 deg
        ang(1, 2, -4), // ~-213 deg
        ang(2, 1, 4),  // ~507 deg: beyond a full turn
    ];
    if th {
        for (tn, td) in [(1, 4), (3, 4), (4, 1), (2, 5), (5, 2), (1, 8), (7, 1), (4, 3), (3, 5), (-1, 2), (-3, 1)] { for k in [2, -2, 4] { v.push(ang(tn, td, k)); } }
        for (tn, td) in [(1, 3), (1, 2), (2, 1)] { for k in [-6, 8, -8] { v.push(ang(tn, td, k)); } }
    }
    v
}
/// odd multiples (matrix-only code paths): includes exact quarter turns (z = i)
fn odd_angles(th: bool) -> Vec<Ang> {
    let mut v = vec![ang(1, 1, 1), ang(1, 1, 3), ang(1, 1, -1), ang(1, 3, 1), ang(2, 1, 1), ang(1, 2, 3), ang(1, 3, -3), ang(3, 1, 1), ang(-1, 2, 1)];
    if th { for (tn, td) in [(1, 4), (3, 4), (4, 1), (2, 5), (5, 2), (1, 5), (5, 1)] { for k in [1, -1, 3, 5] { v.push(ang(tn, td, k)); } } }
    v
}
fn distinct_points(a: &[Ang]) -> usize { let mut p: Vec<(X, X)> = Vec::new(); for x in a { let c = x.cs(); if !p.contains(&c) { p.push(c); } } p.len() }
fn distinct_half_points(a: &[Ang]) -> usize { let mut p: Vec<(X, X)> = Vec::new(); for x in a { let c = x.half_cs(); if !p.contains(&c) { p.push(c); } } p.len() }

// ---- axis family -----------------------------------------------------------------------------------
/// axis handed to vek = lam * unit, lam > 0 rational, |unit| = 1 rational: the oracle never takes a square root
#[derive(Clone, Copy)]
struct Axis { unit: [X; 3], lam: X }
impl Axis {
    fn given(&self) -> [X; 3] { [self.unit[0] * self.lam, self.unit[1] * self.lam, self.unit[2] * self.lam] }
    fn scaled(&self, f: X) -> Axis { Axis { unit: self.unit, lam: self.lam * f } }
    fn coordinate(&self) -> bool { self.unit.iter().filter(|v| **v != qi(0)).count() == 1 }
    fn class(&self) -> &'static str {
        match (self.coordinate(), self.lam == qi(1)) {
            (true, true) => if self.unit.iter().any(|v| *v < qi(0)) { "axis:-e_i" } else { "axis:+e_i" },
            (true, false) => "axis:non-unit-multiple-of-+-e_i",
            (false, true) => "axis:rational-unit-vector",
            (false, false) => "axis:non-unit-with-rational-norm",
        }
    }
    fn weight(&self) -> u64 { self.given().iter().map(|v| { let r = v.rat(); (r.n.abs() + r.d - 1) as u64 }).sum() }
    fn json(&self) -> Value { json!({"axis": jxs(&self.given()), "norm": jx(self.lam)}) }
}
const AXIS_CLASSES: [&str; 5] = ["axis:+e_i", "axis:-e_i", "axis:non-unit-multiple-of-+-e_i", "axis:rational-unit-vector", "axis:non-unit-with-rational-norm"];
fn axis_family(th: bool, stride: usize) -> Vec<Axis> {
    let ua = unit_axes();
    let mut v: Vec<Axis> = Vec::new();
    for (i, u) in ua.iter().enumerate() { let a = Axis { unit: *u, lam: qi(1) }; if th || a.coordinate() || i % stride == 0 { v.push(a); } }
    for u in ua.iter() { let a = Axis { unit: *u, lam: qi(1) }; if a.coordinate() || th { v.push(a.scaled(qi(2))); v.push(a.scaled(q(1, 3))); } }
    // integer (and one fractional) multiples of Pythagorean quadruples: (1,2,2), (4,6,12), (0,3,4), (-1,4,8), (4/3,-4/3,7/3), (2/21,-6/21,3/21), (-14/3,-7/3,-14/3)
    for (p, n, lam) in [([1, 2, 2], 3, qi(3)), ([2, 3, 6], 7, qi(14)), ([0, 3, 4], 5, qi(5)), ([-1, 4, 8], 9, qi(9)), ([4, -4, 7], 9, qi(3)), ([2, -6, 3], 7, q(1, 3)), ([-2, -1, -2], 3, qi(7))] {
        v.push(Axis { unit: [q(p[0], n), q(p[1], n), q(p[2], n)], lam });
    }
    v
}
fn thin(v: &[Axis], keep_every: usize) -> Vec<Axis> {
    // keeps every coordinate axis and every `keep_every`-th of the rest, per class
    let mut out = Vec::new(); let mut seen = std::collections::BTreeMap::new();
    for a in v { let n = seen.entry(a.class()).or_insert(0usize); if a.coordinate() && a.lam == qi(1) || *n % keep_every == 0 { out.push(*a); } *n += 1; }
    out
}

fn e3(i: usize) -> [X; 3] { let mut v = [qi(0); 3]; v[i] = qi(1); v }
fn pad<const N: usize>(a: &[X]) -> [X; N] { let mut v = [qi(0); N]; for i in 0..a.len().min(N) { v[i] = a[i]; } v }
const XYZ: [&str; 3] = ["x", "y", "z"];

// ---- uniform access to the real API ----------------------------------------------------------------
trait RotM<T: Copy, const N: usize>: MatIO<T, N> + Copy {
    const NAME: &'static str;
    fn t_rot(i: usize, a: T) -> Self;
    fn t_rot3d(a: T, ax: [T; 3]) -> Self;
    fn t_rotated(self, i: usize, a: T) -> Self;
    fn t_rotated3d(self, a: T, ax: [T; 3]) -> Self;
    fn t_rotate(&mut self, i: usize, a: T);
    fn t_rotate3d(&mut self, a: T, ax: [T; 3]);
    fn t_from_quat(q: Quaternion<T>) -> Self;
    fn t_mul_vec(self, v: [T; N]) -> [T; N];
}
macro_rules! rotm { ($md:ident :: $M:ident, $N:expr, $V:ident, $name:expr; $($T:ty),*) => { $(
    impl RotM<$T, $N> for $md::$M<$T> {
        const NAME: &'static str = $name;
        fn t_rot(i: usize, a: $T) -> Self { match i { 0 => Self::rotation_x(a), 1 => Self::rotation_y(a), _ => Self::rotation_z(a) } }
        fn t_rot3d(a: $T, ax: [$T; 3]) -> Self { Self::rotation_3d(a, v3(&ax)) }
        fn t_rotated(self, i: usize, a: $T) -> Self { match i { 0 => self.rotated_x(a), 1 => self.rotated_y(a), _ => self.rotated_z(a) } }
        fn t_rotated3d(self, a: $T, ax: [$T; 3]) -> Self { self.rotated_3d(a, v3(&ax)) }
        fn t_rotate(&mut self, i: usize, a: $T) { match i { 0 => self.rotate_x(a), 1 => self.rotate_y(a), _ => self.rotate_z(a) } }
        fn t_rotate3d(&mut self, a: $T, ax: [$T; 3]) { self.rotate_3d(a, v3(&ax)) }
        fn t_from_quat(q: Quaternion<$T>) -> Self { Self::from(q) }
        fn t_mul_vec(self, v: [$T; $N]) -> [$T; $N] { (self * <$V<$T> as VecIO<$T, $N>>::build(&v)).decode() }
    } )* } }
rotm!(rm::Mat3, 3, Vec3, "Mat3<row>"; X, f64, f32);
rotm!(cm::Mat3, 3, Vec3, "Mat3<col>"; X, f64, f32);
rotm!(rm::Mat4, 4, Vec4, "Mat4<row>"; X, f64, f32);
rotm!(cm::Mat4, 4, Vec4, "Mat4<col>"; X, f64, f32);

trait RotM2<T: Copy>: MatIO<T, 2> + Copy {
    const NAME: &'static str;
    fn t_rot_z(a: T) -> Self;
    fn t_rotated_z(self, a: T) -> Self;
    fn t_rotate_z(&mut self, a: T);
    fn t_mul_vec(self, v: [T; 2]) -> [T; 2];
}
macro_rules! rotm2 { ($md:ident, $name:expr; $($T:ty),*) => { $(
    impl RotM2<$T> for $md::Mat2<$T> {
        const NAME: &'static str = $name;
        fn t_rot_z(a: $T) -> Self { Self::rotation_z(a) }
        fn t_rotated_z(self, a: $T) -> Self { self.rotated_z(a) }
        fn t_rotate_z(&mut self, a: $T) { self.rotate_z(a) }
        fn t_mul_vec(self, v: [$T; 2]) -> [$T; 2] { dv2(&(self * v2(&v))) }
    } )* } }
rotm2!(rm, "Mat2<row>"; X, f64, f32);
rotm2!(cm, "Mat2<col>"; X, f64, f32);

fn dq<T: Copy>(q: Quaternion<T>) -> [T; 4] { [q.x, q.y, q.z, q.w] }
fn mkq<T: Copy>(a: &[T; 4]) -> Quaternion<T> { Quaternion { x: a[0], y: a[1], z: a[2], w: a[3] } }
fn negq(a: &[X; 4]) -> [X; 4] { [-a[0], -a[1], -a[2], -a[3]] }

// ---- reference models (plain arrays) ---------------------------------------------------------------
/// textbook rotation matrix of a unit quaternion (x,y,z,w): v -> q v q*
fn ref_q2m<T: Ring>(q: &[T; 4]) -> A<T, 3> {
    let [x, y, z, w] = *q; let one = T::one(); let two = one + one;
    [[one - two * (y * y + z * z), two * (x * y - z * w), two * (x * z + y * w)],
     [two * (x * y + z * w), one - two * (x * x + z * z), two * (y * z - x * w)],
     [two * (x * z - y * w), two * (y * z + x * w), one - two * (x * x + y * y)]]
}
/// the unit quaternion of (angle, unit axis) from the definition: (axis sin(theta/2), cos(theta/2))
fn ref_quat(unit: &[X; 3], a: Ang) -> [X; 4] { let (ch, sh) = a.half_cs(); [unit[0] * sh, unit[1] * sh, unit[2] * sh, ch] }
/// Hamilton product p*q (apply q first, then p)
fn ham(p: &[X; 4], q: &[X; 4]) -> [X; 4] {
    let (pv, qv) = ([p[0], p[1], p[2]], [q[0], q[1], q[2]]);
    let c = cross3(&pv, &qv);
    [p[3] * q[0] + q[3] * p[0] + c[0], p[3] * q[1] + q[3] * p[1] + c[1], p[3] * q[2] + q[3] * p[2] + c[2], p[3] * q[3] - dotn(&pv, &qv)]
}
fn rodrigues_f(k: &[f64; 3], c: f64, s: f64) -> A<f64, 3> {
    let mut m = [[0.0; 3]; 3];
    for j in 0..3 { let mut e = [0.0; 3]; e[j] = 1.0; let kxe = cross3(k, &e); let kd = k[j]; for i in 0..3 { m[i][j] = e[i] * c + kxe[i] * s + k[i] * kd * (1.0 - c); } }
    m
}

// ---- generic section bodies ------------------------------------------------------------------------
fn mark(s: &Section, a: Ang) { for c in a.classes() { s.class(c); } }

/// orthogonality, det = +1, axis fixed — on a decoded real output
fn laws<const N: usize>(s: &Section, site: &str, g: &A<X, N>, axis: Option<&[X; 3]>, inp: &dyn Fn() -> Value, w: u64) {
    let r = s.call(site, || inp(), || {
        let t = transpose(g);
        let fixed = axis.map(|ax| { let v = pad::<N>(ax); mvec(g, &v) == v });
        (mmul(g, &t), mmul(&t, g), det(g), fixed)
    });
    if let Some((ggt, gtg, d, fixed)) = r {
        let id = ident::<X, N>();
        if ggt != id || gtg != id { s.violation_w(site, "not-orthogonal", json!({"input": inp(), "R": jmat(g), "R*Rt": jmat(&ggt)}), w); }
        if d != qi(1) { s.violation_w(site, "determinant-not-plus-one", json!({"input": inp(), "R": jmat(g), "det": jx(d)}), w); }
        if fixed == Some(false) { s.violation_w(site, "axis-not-fixed", json!({"input": inp(), "R": jmat(g)}), w); }
    }
}

/// rotation_x/y/z of a 3x3 / 4x4 type
fn sec_xyz<const N: usize, M: RotM<X, N>>(s: &Section, angs: &[Ang]) {
    for &a in angs {
        let (c, sn) = a.cs(); let th = a.tok();
        for i in 0..3 {
            let site = format!("{}::rotation_{}", M::NAME, XYZ[i]);
            let want: A<X, N> = embed::<X, 3, N>(&rodrigues(&e3(i), c, sn));
            let inp = || json!({"angle": a.json()});
            let w = a.weight();
            s.eval(!a.trivial()); mark(s, a);
            let Some((g, img_real, via3d)) = s.call(&site, inp, || { let m = M::t_rot(i, th); (m.decode(), m.t_mul_vec(pad::<N>(&e3((i + 1) % 3))), M::t_rot3d(th, e3(i)).decode()) }) else { continue };
            if g != want { s.violation_w(&site, "not-rodrigues", json!({"input": inp(), "got": jmat(&g), "want": jmat(&want)}), w); }
            // right-handed, counter-clockwise: e_{i+1} -> cos e_{i+1} + sin e_{i+2} (z: e_x -> (c,s,0); x: e_y -> (0,c,s); y: e_z -> (s,0,c))
            let mut img_want = [qi(0); N]; img_want[(i + 1) % 3] = c; img_want[(i + 2) % 3] = sn;
            let img = mvec(&g, &pad::<N>(&e3((i + 1) % 3)));
            if img != img_want || img_real != img_want { s.violation_w(&site, "wrong-handedness", json!({"input": inp(), "unit_vector": XYZ[(i + 1) % 3], "image_by_fields": jxs(&img), "image_by_real_mul": jxs(&img_real), "want": jxs(&img_want)}), w); }
            if via3d != g { s.violation_w(&site, "differs-from-rotation_3d-about-the-unit-axis", json!({"input": inp(), "got": jmat(&g), "rotation_3d": jmat(&via3d)}), w); }
            laws(s, &site, &g, Some(&e3(i)), &inp, w);
            if i == 2 && !a.trivial() && s.wants_sample() { s.sample(json!({"call": site, "input": inp(), "real_output": jmat(&g), "e_x ->": jxs(&img)})); }
        }
    }
}
fn sec_z2<M: RotM2<X>>(s: &Section, angs: &[Ang]) {
    for &a in angs {
        let (c, sn) = a.cs(); let th = a.tok();
        let site = format!("{}::rotation_z", M::NAME);
        let r3 = rodrigues(&e3(2), c, sn);
        let want: A<X, 2> = [[r3[0][0], r3[0][1]], [r3[1][0], r3[1][1]]];
        let inp = || json!({"angle": a.json()});
        let w = a.weight();
        s.eval(!a.trivial()); mark(s, a);
        let Some((g, img_real)) = s.call(&site, inp, || { let m = M::t_rot_z(th); (m.decode(), m.t_mul_vec([qi(1), qi(0)])) }) else { continue };
        if g != want { s.violation_w(&site, "not-rodrigues", json!({"input": inp(), "got": jmat(&g), "want": jmat(&want)}), w); }
        let img = mvec(&g, &[qi(1), qi(0)]);
        if img != [c, sn] || img_real != [c, sn] { s.violation_w(&site, "wrong-handedness", json!({"input": inp(), "image_of_e_x": jxs(&img), "by_real_mul": jxs(&img_real), "want": jxs(&[c, sn])}), w); }
        laws(s, &site, &g, None, &inp, w);
    }
}

/// rotation_3d against Rodrigues + the laws
fn sec_rot3d<const N: usize, M: RotM<X, N>>(s: &Section, axes: &[Axis], angs: &[Ang]) {
    let site = format!("{}::rotation_3d", M::NAME);
    for ax in axes {
        let given = ax.given();
        for &a in angs {
            let (c, sn) = a.cs(); let th = a.tok();
            let want: A<X, N> = embed::<X, 3, N>(&rodrigues(&ax.unit, c, sn));
            let inp = || json!({"angle": a.json(), "axis": ax.json()});
            let w = a.weight() + ax.weight();
            s.eval(!a.trivial()); s.class(ax.class()); mark(s, a);
            let Some(g) = s.call(&site, inp, || M::t_rot3d(th, given).decode()) else { continue };
            if g != want { s.violation_w(&site, "not-rodrigues", json!({"input": inp(), "got": jmat(&g), "want": jmat(&want)}), w); }
            laws(s, &site, &g, Some(&given), &inp, w);
            if N == 4 && !a.trivial() && !ax.coordinate() && ax.lam != qi(1) && s.wants_sample() { s.sample(json!({"call": site, "input": inp(), "real_output": jmat(&g)})); }
        }
    }
}
/// the 3x3 result is the upper-left block of the 4x4 one, identity border
fn sec_block<M3: RotM<X, 3>, M4: RotM<X, 4>>(s: &Section, axes: &[Axis], angs: &[Ang]) {
    for &a in angs {
        let th = a.tok();
        let one = |site: String, inp: &dyn Fn() -> Value, r: Option<(A<X, 3>, A<X, 4>)>, w: u64| {
            s.eval(!a.trivial());
            if let Some((g3, g4)) = r { if g4 != embed::<X, 3, 4>(&g3) { s.violation_w(&site, "mat3-is-not-the-upper-left-block-of-mat4", json!({"input": inp(), "mat3": jmat(&g3), "mat4": jmat(&g4)}), w); } }
        };
        for i in 0..3 {
            let inp = || json!({"angle": a.json()});
            one(format!("{} vs {} rotation_{}", M3::NAME, M4::NAME, XYZ[i]), &inp, s.call("block", inp, || (M3::t_rot(i, th).decode(), M4::t_rot(i, th).decode())), a.weight());
        }
        for ax in axes {
            let given = ax.given();
            let inp = || json!({"angle": a.json(), "axis": ax.json()});
            one(format!("{} vs {} rotation_3d", M3::NAME, M4::NAME), &inp, s.call("block", inp, || (M3::t_rot3d(th, given).decode(), M4::t_rot3d(th, given).decode())), a.weight() + ax.weight());
        }
    }
}

/// R(theta, lambda*axis) = R(theta, axis)
fn sec_scale<const N: usize, M: RotM<X, N>>(s: &Section, axes: &[Axis], angs: &[Ang], lams: &[X]) {
    let site = format!("{}::rotation_3d", M::NAME);
    for ax in axes { for &lam in lams { for &a in angs {
        let (g0, g1) = (ax.given(), ax.scaled(lam).given());
        let th = a.tok();
        let inp = || json!({"angle": a.json(), "axis": ax.json(), "lambda": jx(lam)});
        s.eval(!a.trivial()); s.class(ax.class());
        if let Some((r0, r1)) = s.call(&site, inp, || (M::t_rot3d(th, g0).decode(), M::t_rot3d(th, g1).decode())) {
            if r0 != r1 { s.violation_w(&site, "depends-on-axis-length", json!({"input": inp(), "R(axis)": jmat(&r0), "R(lambda*axis)": jmat(&r1)}), a.weight() + ax.weight()); }
            if !a.trivial() && lam == qi(7) && s.wants_sample() { s.sample(json!({"call": site, "input": inp(), "both_equal": jmat(&r0)})); }
        }
    } } }
}

/// R(a) R(b) = R(a+b), all ordered pairs of multiples of one base
fn sec_add<const N: usize, M: RotM<X, N>>(s: &Section, axes: &[Axis], bases: &[(i128, i128)], ks: &[i128]) {
    for &(tn, td) in bases { for &ka in ks { for &kb in ks {
        let (a, b) = (ang(tn, td, ka), ang(tn, td, kb));
        let sum = a.tok() + b.tok();
        let (cs, ss) = a.plus(b).cs();
        let nontriv = !a.trivial() && !b.trivial();
        let w = a.weight() + b.weight();
        for i in 0..3 {
            let site = format!("{}::rotation_{}", M::NAME, XYZ[i]);
            let inp = || json!({"a": a.json(), "b": b.json()});
            s.eval(nontriv); s.class(if ka == kb { "a=b" } else if ka + kb == 0 { "a=-b" } else { "a!=b" });
            if let Some((ra, rb, rs, chained)) = s.call(&site, inp, || (M::t_rot(i, a.tok()).decode(), M::t_rot(i, b.tok()).decode(), M::t_rot(i, sum).decode(), M::t_rot(i, b.tok()).t_rotated(i, a.tok()).decode())) {
                let prod = mmul(&ra, &rb);
                let want: A<X, N> = embed::<X, 3, N>(&rodrigues(&e3(i), cs, ss));
                if prod != rs || rs != want { s.violation_w(&site, "not-additive", json!({"input": inp(), "R(a)R(b)": jmat(&prod), "R(a+b)": jmat(&rs), "rodrigues(a+b)": jmat(&want)}), w); }
                if chained != rs { s.violation_w(&format!("{}::rotated_{}", M::NAME, XYZ[i]), "chained-rotation-not-additive", json!({"input": inp(), "rotation(b).rotated(a)": jmat(&chained), "R(a+b)": jmat(&rs)}), w); }
            }
        }
        let site = format!("{}::rotation_3d", M::NAME);
        for ax in axes {
            let given = ax.given();
            let inp = || json!({"a": a.json(), "b": b.json(), "axis": ax.json()});
            s.eval(nontriv); s.class(ax.class());
            if let Some((ra, rb, rs)) = s.call(&site, inp, || (M::t_rot3d(a.tok(), given).decode(), M::t_rot3d(b.tok(), given).decode(), M::t_rot3d(sum, given).decode())) {
                let prod = mmul(&ra, &rb);
                let want: A<X, N> = embed::<X, 3, N>(&rodrigues(&ax.unit, cs, ss));
                if prod != rs || rs != want { s.violation_w(&site, "not-additive", json!({"input": inp(), "R(a)R(b)": jmat(&prod), "R(a+b)": jmat(&rs), "rodrigues(a+b)": jmat(&want)}), w + ax.weight()); }
                if N == 3 && nontriv && ka != kb && !ax.coordinate() && s.wants_sample() { s.sample(json!({"call": site, "input": inp(), "R(a)R(b) = R(a+b) =": jmat(&rs)})); }
            }
        }
    } } }
}

/// Mat::from(Quaternion) and Mat::from(Quaternion::rotation_3d(..)) against rotation_3d / Rodrigues
fn sec_fromq<const N: usize, M: RotM<X, N>>(s: &Section, axes: &[Axis], angs: &[Ang]) {
    for ax in axes {
        let given = ax.given();
        for &a in angs {
            let (c, sn) = a.cs(); let th = a.tok();
            let want: A<X, N> = embed::<X, 3, N>(&rodrigues(&ax.unit, c, sn));
            let inp = || json!({"angle": a.json(), "axis": ax.json()});
            let w = a.weight() + ax.weight();
            // (1) the conversion alone, on the reference unit quaternion built by struct literal
            let site = format!("{}::from(Quaternion)", M::NAME);
            let rq = ref_quat(&ax.unit, a);
            s.eval(!a.trivial()); s.class(ax.class()); mark(s, a);
            if let Some(g) = s.call(&site, || json!({"quaternion_xyzw": jxs(&rq)}), || M::t_from_quat(mkq(&rq)).decode()) {
                if g != want { s.violation_w(&site, "not-the-rotation-of-the-unit-quaternion", json!({"quaternion_xyzw": jxs(&rq), "it_is": inp(), "got": jmat(&g), "want": jmat(&want)}), w); }
            }
            // (2) the composite named by the property
            let site = format!("{}::from(Quaternion::rotation_3d)", M::NAME);
            s.eval(!a.trivial());
            if let Some((g, direct)) = s.call(&site, inp, || (M::t_from_quat(Quaternion::rotation_3d(th, v3(&given))).decode(), M::t_rot3d(th, given).decode())) {
                if g != direct { s.violation_w(&site, "differs-from-rotation_3d", json!({"input": inp(), "from_quaternion": jmat(&g), "rotation_3d": jmat(&direct)}), w); }
                if g != want { s.violation_w(&site, "not-rodrigues", json!({"input": inp(), "got": jmat(&g), "want": jmat(&want)}), w); }
                if N == 3 && !a.trivial() && !ax.coordinate() && s.wants_sample() { s.sample(json!({"call": site, "input": inp(), "real_output": jmat(&g)})); }
            }
        }
    }
}

/// m.rotated_*(theta) = rotation_*(theta) * m (pre-multiplication), rotate_* = rotated_*
fn sec_chain<const N: usize, M: RotM<X, N>>(s: &Section, ms: &[A<X, N>], axes: &[Axis], angs: &[Ang]) {
    for m in ms {
        let real_m = M::build(m);
        for &a in angs {
            let (c, sn) = a.cs(); let th = a.tok();
            let one = |name: String, inp: &dyn Fn() -> Value, rot: A<X, N>, r: Option<(A<X, N>, A<X, N>)>, w: u64| {
                let (pre, post) = (mmul(&rot, m), mmul(m, &rot));
                s.eval(pre != post); s.class(if pre != post { "order-matters" } else { "commuting" });
                if let Some((ret, inplace)) = r {
                    if ret != pre { s.violation_w(&format!("{}::rotated_{}", M::NAME, name), if ret == post { "post-multiplies-instead-of-pre-multiplying" } else { "not-rotation-times-self" }, json!({"input": inp(), "got": jmat(&ret), "want": jmat(&pre)}), w); }
                    if inplace != ret { s.violation_w(&format!("{}::rotate_{}", M::NAME, name), "in-place-form-differs", json!({"input": inp(), "rotate": jmat(&inplace), "rotated": jmat(&ret)}), w); }
                    if pre != post && s.wants_sample() { s.sample(json!({"call": format!("{}::rotated_{}", M::NAME, name), "input": inp(), "real_output": jmat(&ret)})); }
                }
            };
            for i in 0..3 {
                let inp = || json!({"self": jmat(m), "angle": a.json()});
                let r = s.call(&format!("{}::rotated_{}", M::NAME, XYZ[i]), inp, || { let mut ip = real_m; ip.t_rotate(i, th); (real_m.t_rotated(i, th).decode(), ip.decode()) });
                one(XYZ[i].to_string(), &inp, embed::<X, 3, N>(&rodrigues(&e3(i), c, sn)), r, a.weight());
            }
            for ax in axes {
                let given = ax.given();
                let inp = || json!({"self": jmat(m), "angle": a.json(), "axis": ax.json()});
                let r = s.call(&format!("{}::rotated_3d", M::NAME), inp, || { let mut ip = real_m; ip.t_rotate3d(th, given); (real_m.t_rotated3d(th, given).decode(), ip.decode()) });
                one("3d".to_string(), &inp, embed::<X, 3, N>(&rodrigues(&ax.unit, c, sn)), r, a.weight() + ax.weight());
            }
        }
    }
}
fn sec_chain2<M: RotM2<X>>(s: &Section, ms: &[A<X, 2>], angs: &[Ang]) {
    for m in ms { let real_m = M::build(m); for &a in angs {
        let (c, sn) = a.cs(); let th = a.tok();
        let rot: A<X, 2> = [[c, -sn], [sn, c]];
        let (pre, post) = (mmul(&rot, m), mmul(m, &rot));
        let inp = || json!({"self": jmat(m), "angle": a.json()});
        s.eval(pre != post); s.class(if pre != post { "order-matters" } else { "commuting" });
        if let Some((ret, inplace)) = s.call(&format!("{}::rotated_z", M::NAME), inp, || { let mut ip = real_m; ip.t_rotate_z(th); (real_m.t_rotated_z(th).decode(), ip.decode()) }) {
            if ret != pre { s.violation_w(&format!("{}::rotated_z", M::NAME), if ret == post { "post-multiplies-instead-of-pre-multiplying" } else { "not-rotation-times-self" }, json!({"input": inp(), "got": jmat(&ret), "want": jmat(&pre)}), a.weight()); }
            if inplace != ret { s.violation_w(&format!("{}::rotate_z", M::NAME), "in-place-form-differs", json!({"input": inp(), "rotate": jmat(&inplace), "rotated": jmat(&ret)}), a.weight()); }
        }
    } }
}

// ---- float tier ------------------------------------------------------------------------------------
trait Fl: Copy + 'static { const NAME: &'static str; fn f(v: f64) -> Self; fn d(self) -> f64; fn close(self, want: f64, scale: f64) -> bool; }
impl Fl for f64 { const NAME: &'static str = "f64"; fn f(v: f64) -> f64 { v } fn d(self) -> f64 { self } fn close(self, want: f64, scale: f64) -> bool { vx::fl::close64(self, want, scale) } }
impl Fl for f32 { const NAME: &'static str = "f32"; fn f(v: f64) -> f32 { v as f32 } fn d(self) -> f64 { self as f64 } fn close(self, want: f64, scale: f64) -> bool { vx::fl::close32(self, want, scale) } }

fn fcmp<T: Fl, const N: usize>(s: &Section, site: &str, class: &str, got: &A<T, N>, want3: &A<f64, 3>, inp: &dyn Fn() -> Value) {
    s.eval(true);
    let want: A<f64, N> = embed::<f64, 3, N>(want3);
    let mut worst = 0.0f64; let mut ok = true;
    // scale 2: the largest intermediate of the formula is 1 - cos <= 2; entries are <= 1
    for i in 0..N { for j in 0..N { if !got[i][j].close(want[i][j], 2.0) { ok = false; } worst = worst.max((got[i][j].d() - want[i][j]).abs()); } }
    if !ok { s.violation(&format!("{}<{}>", site, T::NAME), class, json!({"input": inp(), "worst_entry_error": worst, "got": got.iter().map(|r| r.iter().map(|v| v.d()).collect::<Vec<_>>()).collect::<Vec<_>>(), "want": want.iter().map(|r| r.to_vec()).collect::<Vec<_>>()})); }
}
fn float_3d<T: Fl, const N: usize, M: RotM<T, N>>(s: &Section, af: T, c: f64, sn: f64, axis: [i32; 3], ang64: f64) where Quaternion<T>: FQ<T> {
    let n = ((axis[0] * axis[0] + axis[1] * axis[1] + axis[2] * axis[2]) as f64).sqrt();
    let k = [axis[0] as f64 / n, axis[1] as f64 / n, axis[2] as f64 / n];
    let want = rodrigues_f(&k, c, sn);
    let axf = [T::f(axis[0] as f64), T::f(axis[1] as f64), T::f(axis[2] as f64)];
    let inp = || json!({"angle": ang64, "axis": axis});
    fcmp::<T, N>(s, &format!("{}::rotation_3d", M::NAME), "not-rodrigues-within-error-bound", &M::t_rot3d(af, axf).decode(), &want, &inp);
    fcmp::<T, N>(s, &format!("{}::from(Quaternion::rotation_3d)", M::NAME), "not-rodrigues-within-error-bound", &M::t_from_quat(<Quaternion<T> as FQ<T>>::rot3d(af, axf)).decode(), &want, &inp);
}
fn float_xyz<T: Fl, const N: usize, M: RotM<T, N>>(s: &Section, af: T, c: f64, sn: f64, ang64: f64) {
    for i in 0..3 {
        let mut k = [0.0; 3]; k[i] = 1.0;
        let inp = || json!({"angle": ang64});
        fcmp::<T, N>(s, &format!("{}::rotation_{}", M::NAME, XYZ[i]), "not-rodrigues-within-error-bound", &M::t_rot(i, af).decode(), &rodrigues_f(&k, c, sn), &inp);
    }
}
trait FQ<T> { fn rot3d(a: T, ax: [T; 3]) -> Self; }
impl FQ<f64> for Quaternion<f64> { fn rot3d(a: f64, ax: [f64; 3]) -> Self { Quaternion::rotation_3d(a, v3(&ax)) } }
impl FQ<f32> for Quaternion<f32> { fn rot3d(a: f32, ax: [f32; 3]) -> Self { Quaternion::rotation_3d(a, v3(&ax)) } }

macro_rules! float_tier { ($s:expr, $T:ty) => {{
    let s: &Section = $s;
    s.require_classes(&["angle<0", "angle>pi", "angle in (0,pi)", "axis-unit-length", "axis-non-unit"]);
    let n_ang = if s.thorough() { 1024 } else { 64 };
    s.meta("angles", json!(n_ang));
    for ai in 0..n_ang {
        let ang64_nominal = if s.thorough() { -6.28 + ai as f64 * (12.56 / 1024.0) } else { -6.2 + ai as f64 * 0.1937 };
        let af: $T = <$T as Fl>::f(ang64_nominal);
        let ang64 = af.d(); // the angle the real code sees, exactly
        let (c, sn) = (ang64.cos(), ang64.sin());
        s.class(if ang64 < 0.0 { "angle<0" } else if ang64 > std::f64::consts::PI { "angle>pi" } else { "angle in (0,pi)" });
        for x in -2i32..=2 { for y in -2i32..=2 { for z in -2i32..=2 { if (x, y, z) == (0, 0, 0) { continue; }
            s.class(if x * x + y * y + z * z == 1 { "axis-unit-length" } else { "axis-non-unit" });
            float_3d::<$T, 3, rm::Mat3<$T>>(s, af, c, sn, [x, y, z], ang64);
            float_3d::<$T, 3, cm::Mat3<$T>>(s, af, c, sn, [x, y, z], ang64);
            float_3d::<$T, 4, rm::Mat4<$T>>(s, af, c, sn, [x, y, z], ang64);
            float_3d::<$T, 4, cm::Mat4<$T>>(s, af, c, sn, [x, y, z], ang64);
        } } }
        float_xyz::<$T, 3, rm::Mat3<$T>>(s, af, c, sn, ang64);
        float_xyz::<$T, 3, cm::Mat3<$T>>(s, af, c, sn, ang64);
        float_xyz::<$T, 4, rm::Mat4<$T>>(s, af, c, sn, ang64);
        float_xyz::<$T, 4, cm::Mat4<$T>>(s, af, c, sn, ang64);
        // Mat2 and Vec2
        let m2 = [[c, -sn], [sn, c]];
        for (name, g) in [("Mat2<row>::rotation_z", rm::Mat2::<$T>::rotation_z(af).decode()), ("Mat2<col>::rotation_z", cm::Mat2::<$T>::rotation_z(af).decode())] {
            s.eval(true);
            for i in 0..2 { for j in 0..2 { if !g[i][j].close(m2[i][j], 1.0) { s.violation(&format!("{}<{}>", name, <$T as Fl>::NAME), "not-rodrigues-within-error-bound", json!({"angle": ang64, "entry": [i, j], "got": g[i][j].d(), "want": m2[i][j]})); } } }
        }
        for v in [[1.0f64, 0.0], [0.0, 1.0], [3.0, -4.0], [-0.5, 100.0], [-7.25, -1.0]] {
            s.eval(true);
            let r = Vec2 { x: <$T as Fl>::f(v[0]), y: <$T as Fl>::f(v[1]) }.rotated_z(af);
            let want = [c * v[0] - sn * v[1], sn * v[0] + c * v[1]];
            let scale = v[0].abs() + v[1].abs();
            if !r.x.close(want[0], scale) || !r.y.close(want[1], scale) { s.violation(&format!("Vec2::rotated_z<{}>", <$T as Fl>::NAME), "not-ccw-rotation-within-error-bound", json!({"angle": ang64, "v": v, "got": [r.x.d(), r.y.d()], "want": want})); }
            if s.wants_sample() && ai == 40 { s.sample(json!({"call": "Vec2::rotated_z", "angle": ang64, "v": v, "real_output": [r.x.d(), r.y.d()], "oracle": want})); }
        }
    }
}} }

fn main() {
    let rep = Report::start("C04", "exploration");
    let th = rep.thorough();
    let even = even_angles(th);
    let odd = odd_angles(th);
    let all: Vec<Ang> = even.iter().chain(odd.iter()).copied().collect();
    let axes = axis_family(th, 4);
    let few_axes = thin(&axes, if th { 3 } else { 5 });
    let bezout = "for a fixed axis every entry of both sides is a polynomial of degree <= 2 in (cos, sin) of each angle variable (half-angle for the quaternion path), so by Bezout 2*2+1 = 5 distinct angles per angle variable decide the identity for all angles; the alphabet has more (see meta); over axes the exploration is bounded (finite alphabet), hence complete=false";
    let alphabet_meta = |s: &Section, a: &[Ang], ax: usize| {
        s.meta("angles", json!(a.len())); s.meta("distinct_circle_points", json!(distinct_points(a))); s.meta("axes", json!(ax));
        if distinct_points(a) < 5 { s.rep.machinery_error(format!("section '{}': fewer than 5 distinct angles", s.name)); }
    };

    // ---- 0. the oracles ------------------------------------------------------------------------------
    rep.section("oracle self-check (not vek)", "the reference Rodrigues matrix (from v cos + (k x v) sin + k (k.v)(1-cos)) is orthogonal, has det +1, fixes k, maps a vector orthogonal to k counter-clockwise about k (k . (v x Rv) = sin * |v|^2 |k|), and equals the textbook matrix of the unit quaternion (k sin(theta/2), cos(theta/2)); every axis x every even-multiple angle; a failure is a machinery error; non-trivial: R != I", true, false, |s| {
        for ax in &axes { for &a in &even {
            let (c, sn) = a.cs();
            let r = rodrigues(&ax.unit, c, sn);
            s.eval(!a.trivial());
            let id = ident::<X, 3>();
            let mut ok = mmul(&r, &transpose(&r)) == id && det(&r) == qi(1) && mvec(&r, &ax.unit) == ax.unit && ref_q2m(&ref_quat(&ax.unit, a)) == r;
            // counter-clockwise about k: for v = k x e (e a basis vector not parallel to k): k . (v x Rv) = sin * |v|^2
            for j in 0..3 { let v = cross3(&ax.unit, &e3(j)); let rv = mvec(&r, &v); if dotn(&ax.unit, &cross3(&v, &rv)) != sn * dotn(&v, &v) || dotn(&v, &rv) != c * dotn(&v, &v) { ok = false; } }
            if !ok { s.rep.machinery_error(format!("reference rotation wrong for axis {:?} angle {:?}", ax.unit, a)); }
        } }
        s.sample(json!({"axis": jxs(&axes[7].unit), "angle": even[3].json(), "rodrigues": jmat(&rodrigues(&axes[7].unit, even[3].cs().0, even[3].cs().1))}));
    });

    // ---- 1. rotation_x / y / z -----------------------------------------------------------------------
    rep.section("rotation_x/y/z: Rodrigues about the coordinate axes, handedness, orthogonality",
        &format!("every angle of the alphabet (even and odd multiples k*arg(z) of {} rational circle points z; the (cos, sin) pairs are listed in meta.cos_sin_covered: all four quadrants, quarter and half turns, negative, beyond pi and beyond 2pi) x rotation_x/y/z of Mat3, Mat4 (both layouts) and rotation_z of Mat2 (both layouts): decoded fields == Rodrigues(e_i) embedded with identity border; e_(i+1) -> cos e_(i+1) + sin e_(i+2) both by reference product on the decoded fields and by the real M*v (z: e_x -> (cos, sin, 0); x: e_y -> (0, cos, sin); y: e_z -> (sin, 0, cos)); == rotation_3d(theta, e_i); R Rt = Rt R = I, det = +1, R e_i = e_i; one evaluation per real builder call; non-trivial: R != I.  {}", { let mut b: Vec<(i128, i128)> = all.iter().map(|a| (a.tn, a.td)).collect(); b.sort(); b.dedup(); b.len() }, bezout), true, false, |s| {
        s.require_classes(&ANGLE_CLASSES); s.require_classes(&["quarter-turn"]);
        sec_xyz::<3, rm::Mat3<X>>(s, &all); sec_xyz::<3, cm::Mat3<X>>(s, &all);
        sec_xyz::<4, rm::Mat4<X>>(s, &all); sec_xyz::<4, cm::Mat4<X>>(s, &all);
        sec_z2::<rm::Mat2<X>>(s, &all); sec_z2::<cm::Mat2<X>>(s, &all);
        alphabet_meta(s, &all, 3);
        s.meta("cos_sin_covered", Value::Array(all.iter().map(|a| { let (c, sn) = a.cs(); json!([jx(c), jx(sn), a.real()]) }).collect()));
    });

    // ---- 2. rotation_3d ------------------------------------------------------------------------------
    rep.section("rotation_3d = Rodrigues; orthogonal, det +1, fixes its axis; Mat3 is the upper-left block of Mat4",
        &format!("axes: +-e_i, 2x and 1/3x multiples of them, rational unit vectors (sign/permutation closure of (1,2,2)/3, (2,3,6)/7, (0,3,4)/5, (1,4,8)/9, (4,4,7)/9: quick every 4th of 103, thorough all, thorough also their 2x and 1/3x multiples), (1,2,2), (4,6,12), (0,3,4), (-1,4,8), (4,-4,7)/3, (2,-6,3)/21, (-14,-7,-14)/3 (rational norm, so normalized() is exact and the oracle's unit axis is known without a square root) x every angle of the alphabet x Mat3, Mat4 x both layouts: decoded fields == Rodrigues(unit axis, cos, sin) (identity border for Mat4); R Rt = Rt R = I; det R = +1 (Leibniz on the decoded array); R axis = axis; and decoded Mat4 == embed(decoded Mat3) for rotation_x/y/z/3d in both layouts; one evaluation per real builder call / per block comparison; non-trivial: R != I.  {}", bezout), true, false, |s| {
        s.require_classes(&ANGLE_CLASSES); s.require_classes(&AXIS_CLASSES);
        sec_rot3d::<3, rm::Mat3<X>>(s, &axes, &all); sec_rot3d::<3, cm::Mat3<X>>(s, &axes, &all);
        sec_rot3d::<4, rm::Mat4<X>>(s, &axes, &all); sec_rot3d::<4, cm::Mat4<X>>(s, &axes, &all);
        sec_block::<rm::Mat3<X>, rm::Mat4<X>>(s, &axes, &all); sec_block::<cm::Mat3<X>, cm::Mat4<X>>(s, &axes, &all);
        alphabet_meta(s, &all, axes.len());
    });

    // ---- 3. axis length is irrelevant ----------------------------------------------------------------
    rep.section("the axis need not be normalized: R(theta, lambda*axis) = R(theta, axis)",
        &format!("every axis of the family (unit and non-unit) x lambda in {{2, 1/3, 7}} (lambda > 0: a negative factor reverses the axis and is not claimed) x every even-multiple angle: rotation_3d of Mat3/Mat4 (both layouts) and Quaternion::rotation_3d give identical fields for axis and lambda*axis (real output vs real output; the absolute value is pinned by the sections against Rodrigues); non-trivial: R != I.  {}", bezout), true, false, |s| {
        s.require_classes(&AXIS_CLASSES);
        let lams = [qi(2), q(1, 3), qi(7)];
        sec_scale::<3, rm::Mat3<X>>(s, &axes, &even, &lams); sec_scale::<3, cm::Mat3<X>>(s, &axes, &even, &lams);
        sec_scale::<4, rm::Mat4<X>>(s, &axes, &even, &lams); sec_scale::<4, cm::Mat4<X>>(s, &axes, &even, &lams);
        for ax in &axes { for &lam in &lams { for &a in &even {
            let (g0, g1) = (ax.given(), ax.scaled(lam).given()); let t = a.tok();
            let inp = || json!({"angle": a.json(), "axis": ax.json(), "lambda": jx(lam)});
            s.eval(!a.trivial());
            if let Some((q0, q1)) = s.call("Quaternion::rotation_3d", inp, || (dq(Quaternion::rotation_3d(t, v3(&g0))), dq(Quaternion::rotation_3d(t, v3(&g1))))) {
                if q0 != q1 { s.violation_w("Quaternion::rotation_3d", "depends-on-axis-length", json!({"input": inp(), "q(axis)": jxs(&q0), "q(lambda*axis)": jxs(&q1)}), a.weight() + ax.weight()); }
            }
        } } }
        alphabet_meta(s, &even, axes.len());
    });

    // ---- 4. additivity -------------------------------------------------------------------------------
    let add_bases: Vec<(i128, i128)> = if th { vec![(1, 3), (1, 2), (2, 1), (1, 5), (3, 1), (2, 3), (-1, 2)] } else { vec![(1, 3), (1, 2), (2, 1)] };
    let add_ks: Vec<i128> = vec![-4, -2, 0, 2, 4, 6];
    rep.section("composition is additive for a common axis: R(a) R(b) = R(a+b)",
        &format!("for each base circle point z (t in {:?}) all ordered pairs (a, b) = (ka, kb)*arg(z), ka, kb in {:?} (six distinct angles per variable; the sum a+b is formed by token addition and handed to the real builder): reference product of the decoded R(a), R(b) == decoded R(a+b) == Rodrigues(a+b), for rotation_x/y/z and rotation_3d over a thinned axis family (all +-e_i, every {}th of each other class) of Mat3/Mat4 x both layouts, Mat2 rotation_z; chained form rotation(b).rotated(a) == R(a+b); quaternions: Hamilton product (reference, on fields) of rotation_3d(a), rotation_3d(b) == +-rotation_3d(a+b) (q and -q are the same rotation); non-trivial: neither angle is 0.  {}: two independent angle variables of degree 2 each, six values each, all ordered pairs", add_bases, add_ks, if th { 3 } else { 5 }, bezout), true, false, |s| {
        s.require_classes(&AXIS_CLASSES); s.require_classes(&["a=b", "a=-b", "a!=b"]);
        sec_add::<3, rm::Mat3<X>>(s, &few_axes, &add_bases, &add_ks); sec_add::<3, cm::Mat3<X>>(s, &few_axes, &add_bases, &add_ks);
        sec_add::<4, rm::Mat4<X>>(s, &few_axes, &add_bases, &add_ks); sec_add::<4, cm::Mat4<X>>(s, &few_axes, &add_bases, &add_ks);
        for &(tn, td) in &add_bases { for &ka in &add_ks { for &kb in &add_ks {
            let (a, b) = (ang(tn, td, ka), ang(tn, td, kb));
            let sum = a.tok() + b.tok();
            let (cs, ss) = a.plus(b).cs();
            let nontriv = !a.trivial() && !b.trivial();
            let inp = || json!({"a": a.json(), "b": b.json()});
            // Mat2
            for lay in 0..2 {
                let site = if lay == 0 { "Mat2<row>::rotation_z" } else { "Mat2<col>::rotation_z" };
                s.eval(nontriv);
                let r = if lay == 0 { s.call(site, inp, || (rm::Mat2::<X>::rotation_z(a.tok()).decode(), rm::Mat2::<X>::rotation_z(b.tok()).decode(), rm::Mat2::<X>::rotation_z(sum).decode())) }
                        else { s.call(site, inp, || (cm::Mat2::<X>::rotation_z(a.tok()).decode(), cm::Mat2::<X>::rotation_z(b.tok()).decode(), cm::Mat2::<X>::rotation_z(sum).decode())) };
                if let Some((ra, rb, rs)) = r { let prod = mmul(&ra, &rb); if prod != rs || rs != [[cs, -ss], [ss, cs]] { s.violation_w(site, "not-additive", json!({"input": inp(), "R(a)R(b)": jmat(&prod), "R(a+b)": jmat(&rs)}), a.weight() + b.weight()); } }
            }
            // quaternions
            for ax in &few_axes {
                let given = ax.given();
                let inp = || json!({"a": a.json(), "b": b.json(), "axis": ax.json()});
                s.eval(nontriv);
                if let Some((qa, qb, qs)) = s.call("Quaternion::rotation_3d", inp, || (dq(Quaternion::rotation_3d(a.tok(), v3(&given))), dq(Quaternion::rotation_3d(b.tok(), v3(&given))), dq(Quaternion::rotation_3d(sum, v3(&given))))) {
                    let prod = ham(&qa, &qb);
                    if prod != qs && prod != negq(&qs) { s.violation_w("Quaternion::rotation_3d", "not-additive", json!({"input": inp(), "q(a)q(b)": jxs(&prod), "q(a+b)": jxs(&qs)}), a.weight() + b.weight() + ax.weight()); }
                }
            }
        } } }
        s.meta("bases", json!(add_bases)); s.meta("multiples", json!(add_ks)); s.meta("axes", json!(few_axes.len()));
        let pts = distinct_points(&add_ks.iter().map(|&k| ang(add_bases[0].0, add_bases[0].1, k)).collect::<Vec<_>>());
        s.meta("distinct_angles_per_variable", json!(pts));
        if pts < 5 { s.rep.machinery_error("additivity: fewer than 5 distinct angles per variable".to_string()); }
    });

    // ---- 5. quaternions ------------------------------------------------------------------------------
    rep.section("quaternion builders and quaternion -> matrix agree with rotation_3d and Rodrigues",
        &format!("every axis of the family x every even-multiple angle theta (theta/2 is again an exact token): Quaternion::rotation_3d(theta, axis) has fields +-(unit axis * sin(theta/2), cos(theta/2)) and the textbook matrix of those fields (reference, on arrays) == Rodrigues; Quaternion::rotation_x/y/z(theta) == rotation_3d(theta, e_i); Mat3/Mat4::from (both layouts) of the reference unit quaternion built by struct literal == Rodrigues (the conversion alone); Mat3/Mat4::from(Quaternion::rotation_3d(theta, axis)) == Mat::rotation_3d(theta, axis) == Rodrigues (the composite the property names); one evaluation per real call chain; non-trivial: R != I.  {} (degree 2 in the half-angle point; distinct half-angle points in meta)", bezout), true, false, |s| {
        s.require_classes(&ANGLE_CLASSES); s.require_classes(&AXIS_CLASSES);
        for ax in &axes { let given = ax.given(); for &a in &even {
            let (c, sn) = a.cs(); let t = a.tok();
            let want_q = ref_quat(&ax.unit, a);
            let want_m = rodrigues(&ax.unit, c, sn);
            let inp = || json!({"angle": a.json(), "axis": ax.json()});
            let w = a.weight() + ax.weight();
            s.eval(!a.trivial());
            if let Some(g) = s.call("Quaternion::rotation_3d", inp, || dq(Quaternion::rotation_3d(t, v3(&given)))) {
                if g != want_q && g != negq(&want_q) { s.violation_w("Quaternion::rotation_3d", "not-half-angle-axis-form", json!({"input": inp(), "got_xyzw": jxs(&g), "want_xyzw": jxs(&want_q)}), w); }
                if let Some(m) = s.call("Quaternion::rotation_3d", inp, || ref_q2m(&g)) { if m != want_m { s.violation_w("Quaternion::rotation_3d", "not-rodrigues-as-a-rotation", json!({"input": inp(), "got_xyzw": jxs(&g), "its_matrix": jmat(&m), "want": jmat(&want_m)}), w); } }
                if !a.trivial() && !ax.coordinate() && s.wants_sample() { s.sample(json!({"call": "Quaternion::rotation_3d", "input": inp(), "real_output_xyzw": jxs(&g)})); }
            }
            if ax.coordinate() && ax.lam == qi(1) && ax.class() == "axis:+e_i" {
                let i = ax.unit.iter().position(|v| *v == qi(1)).unwrap();
                let site = format!("Quaternion::rotation_{}", XYZ[i]);
                s.eval(!a.trivial());
                if let Some((g, via3d)) = s.call(&site, inp, || (dq(match i { 0 => Quaternion::rotation_x(t), 1 => Quaternion::rotation_y(t), _ => Quaternion::rotation_z(t) }), dq(Quaternion::rotation_3d(t, v3(&given))))) {
                    if g != want_q && g != negq(&want_q) { s.violation_w(&site, "not-half-angle-axis-form", json!({"input": inp(), "got_xyzw": jxs(&g), "want_xyzw": jxs(&want_q)}), w); }
                    if g != via3d { s.violation_w(&site, "differs-from-rotation_3d-about-the-unit-axis", json!({"input": inp(), "got_xyzw": jxs(&g), "rotation_3d": jxs(&via3d)}), w); }
                }
            }
        } }
        sec_fromq::<3, rm::Mat3<X>>(s, &axes, &even); sec_fromq::<3, cm::Mat3<X>>(s, &axes, &even);
        sec_fromq::<4, rm::Mat4<X>>(s, &axes, &even); sec_fromq::<4, cm::Mat4<X>>(s, &axes, &even);
        alphabet_meta(s, &even, axes.len());
        s.meta("distinct_half_angle_points", json!(distinct_half_points(&even)));
    });

    // ---- 6. Vec2 -------------------------------------------------------------------------------------
    rep.section("Vec2::rotated_z = Mat2::rotation_z * v = (c x - s y, s x + c y); rotate_z in place",
        "every angle of the alphabet x v in {-2..2}^2 and (1/2,-3/7), (5,12): Vec2{x,y}.rotated_z(theta) decoded == (cos x - sin y, sin x + cos y); == reference product of the decoded Mat2::rotation_z(theta) (both layouts) with v; == the real Mat2 * Vec2; rotate_z (in place) == rotated_z; non-trivial: v != 0 and R != I.  Linear in v (3 independent v decide) and degree 1 in (cos, sin) (3 angles decide): complete for all angles and vectors given branch-free ring code, which is read off the source, not measured, hence complete=false", true, false, |s| {
        s.require_classes(&ANGLE_CLASSES); s.require_classes(&["quarter-turn", "v=e_x", "v-general"]);
        let mut vs: Vec<[X; 2]> = Vec::new(); for x in -2..=2 { for y in -2..=2 { vs.push([qi(x), qi(y)]); } } vs.push([q(1, 2), q(-3, 7)]); vs.push([qi(5), qi(12)]);
        for &a in &all { let (c, sn) = a.cs(); let t = a.tok(); mark(s, a); for v in &vs {
            let want = [c * v[0] - sn * v[1], sn * v[0] + c * v[1]];
            let inp = || json!({"v": jxs(v), "angle": a.json()});
            let w = a.weight() + v.iter().map(|e| (e.rat().n.abs() + e.rat().d - 1) as u64).sum::<u64>();
            s.eval(!a.trivial() && *v != [qi(0), qi(0)]); s.class(if *v == [qi(1), qi(0)] { "v=e_x" } else { "v-general" });
            if let Some((g, ip, mr, mc, pr, pc)) = s.call("Vec2::rotated_z", inp, || {
                let vv = Vec2 { x: v[0], y: v[1] }; let mut ip = vv; ip.rotate_z(t);
                let (mr, mc) = (rm::Mat2::<X>::rotation_z(t), cm::Mat2::<X>::rotation_z(t));
                (dv2(&vv.rotated_z(t)), dv2(&ip), mvec(&mr.decode(), v), mvec(&mc.decode(), v), dv2(&(mr * vv)), dv2(&(mc * vv)))
            }) {
                if g != want { s.violation_w("Vec2::rotated_z", "not-ccw-rotation", json!({"input": inp(), "got": jxs(&g), "want": jxs(&want)}), w); }
                if ip != g { s.violation_w("Vec2::rotate_z", "in-place-form-differs", json!({"input": inp(), "rotate_z": jxs(&ip), "rotated_z": jxs(&g)}), w); }
                if mr != g || mc != g || pr != g || pc != g { s.violation_w("Vec2::rotated_z", "differs-from-Mat2::rotation_z-times-v", json!({"input": inp(), "rotated_z": jxs(&g), "Mat2<row> fields x v": jxs(&mr), "Mat2<col> fields x v": jxs(&mc), "Mat2<row>*v": jxs(&pr), "Mat2<col>*v": jxs(&pc)}), w); }
                if !a.trivial() && v[0] != qi(0) && v[1] != qi(0) && s.wants_sample() { s.sample(json!({"call": "Vec2::rotated_z", "input": inp(), "real_output": jxs(&g)})); }
            }
        } }
        alphabet_meta(s, &all, 1);
    });

    // ---- 7. chained / in-place forms -----------------------------------------------------------------
    rep.section("chained and in-place forms: rotated_* = rotation_* * self (pre-multiplication), rotate_* = rotated_*",
        &format!("self: non-symmetric matrices built from arrays (Mat4: translation(1,-2,3)*Rodrigues((2,3,6)/7; 3/5,4/5) and a full integer matrix; Mat3: a Rodrigues matrix with a scaled column and an integer matrix; Mat2: two integer matrices) and the identity x every even-multiple angle x (x, y, z, and 3d over the thinned axis family): decoded m.rotated_*(theta) == reference product Rodrigues * m (and is reported as post-multiplication when it equals m * Rodrigues); m.rotate_*(theta) in place == rotated_*; Quaternion (self: identity and three unit quaternions with rational fields): the textbook matrix of q.rotated_*(theta) == Rodrigues * matrix(q), fields == +-Hamilton(reference rotation quaternion, q), rotate_* == rotated_*; non-trivial: the rotation and self do not commute (order observable).  {}", bezout), true, false, |s| {
        s.require_classes(&["order-matters", "commuting", "quaternion-order-matters"]);
        let r4 = affine4(&rodrigues(&[q(2, 7), q(3, 7), q(6, 7)], q(3, 5), q(4, 5)), &[qi(1), qi(-2), qi(3)]);
        let i4: A<X, 4> = [[qi(1), qi(2), qi(3), qi(4)], [qi(5), qi(6), qi(7), qi(8)], [qi(9), qi(10), qi(12), qi(11)], [qi(13), qi(15), qi(14), qi(16)]];
        let mut r3 = rodrigues(&[q(1, 3), q(2, 3), q(2, 3)], q(-4, 5), q(3, 5)); for i in 0..3 { r3[i][1] = r3[i][1] * qi(2); }
        let i3: A<X, 3> = [[qi(1), qi(2), qi(3)], [qi(4), qi(5), qi(6)], [qi(7), qi(8), qi(10)]];
        let m4 = [r4, i4, ident::<X, 4>()]; let m3 = [r3, i3, ident::<X, 3>()];
        let m2: [A<X, 2>; 3] = [[[qi(1), qi(2)], [qi(3), qi(5)]], [[qi(0), qi(-1)], [qi(2), qi(7)]], ident::<X, 2>()];
        let angs: Vec<Ang> = if th { even.clone() } else { even.iter().copied().filter(|a| a.k.abs() <= 4).collect() };
        sec_chain::<3, rm::Mat3<X>>(s, &m3, &few_axes, &angs); sec_chain::<3, cm::Mat3<X>>(s, &m3, &few_axes, &angs);
        sec_chain::<4, rm::Mat4<X>>(s, &m4, &few_axes, &angs); sec_chain::<4, cm::Mat4<X>>(s, &m4, &few_axes, &angs);
        sec_chain2::<rm::Mat2<X>>(s, &m2, &angs); sec_chain2::<cm::Mat2<X>>(s, &m2, &angs);
        // quaternions
        let q0s: [[X; 4]; 4] = [[qi(0), qi(0), qi(0), qi(1)], [q(6, 35), q(9, 35), q(18, 35), q(4, 5)], [q(-5, 39), q(-10, 39), q(-10, 39), q(12, 13)], [q(3, 5), qi(0), qi(0), q(-4, 5)]];
        for q0 in &q0s { let m0 = ref_q2m(q0); let real_q = mkq(q0); for &a in &angs {
            let (c, sn) = a.cs(); let t = a.tok();
            let one = |name: String, inp: &dyn Fn() -> Value, unit: &[X; 3], r: Option<([X; 4], [X; 4])>, w: u64| {
                let rot = rodrigues(unit, c, sn);
                let (pre, post) = (mmul(&rot, &m0), mmul(&m0, &rot));
                s.eval(pre != post); if pre != post { s.class("quaternion-order-matters"); }
                if let Some((ret, inplace)) = r {
                    let site = format!("Quaternion::rotated_{}", name);
                    let hw = ham(&ref_quat(unit, a), q0);
                    match s.call(&site, || inp(), || ref_q2m(&ret)) {
                        Some(m) => { if m != pre { s.violation_w(&site, if m == post { "post-multiplies-instead-of-pre-multiplying" } else { "not-rotation-times-self" }, json!({"input": inp(), "got_xyzw": jxs(&ret), "its_matrix": jmat(&m), "want_matrix": jmat(&pre)}), w); }
                                     else if ret != hw && ret != negq(&hw) { s.violation_w(&site, "not-the-hamilton-product-rotation*self", json!({"input": inp(), "got_xyzw": jxs(&ret), "want_xyzw": jxs(&hw)}), w); } }
                        None => {}
                    }
                    if inplace != ret { s.violation_w(&format!("Quaternion::rotate_{}", name), "in-place-form-differs", json!({"input": inp(), "rotate": jxs(&inplace), "rotated": jxs(&ret)}), w); }
                    if pre != post && s.wants_sample() { s.sample(json!({"call": site, "input": inp(), "real_output_xyzw": jxs(&ret)})); }
                }
            };
            for i in 0..3 {
                let inp = || json!({"self_xyzw": jxs(q0), "angle": a.json()});
                let r = s.call(&format!("Quaternion::rotated_{}", XYZ[i]), inp, || { let mut ip = real_q; match i { 0 => ip.rotate_x(t), 1 => ip.rotate_y(t), _ => ip.rotate_z(t) }; (dq(match i { 0 => real_q.rotated_x(t), 1 => real_q.rotated_y(t), _ => real_q.rotated_z(t) }), dq(ip)) });
                one(XYZ[i].to_string(), &inp, &e3(i), r, a.weight());
            }
            for ax in &few_axes {
                let given = ax.given();
                let inp = || json!({"self_xyzw": jxs(q0), "angle": a.json(), "axis": ax.json()});
                let r = s.call("Quaternion::rotated_3d", inp, || { let mut ip = real_q; ip.rotate_3d(t, v3(&given)); (dq(real_q.rotated_3d(t, v3(&given))), dq(ip)) });
                one("3d".to_string(), &inp, &ax.unit, r, a.weight() + ax.weight());
            }
        } }
        alphabet_meta(s, &angs, few_axes.len());
    });

    // ---- 8./9. float tier ----------------------------------------------------------------------------
    let rule_f = "64 angles -6.2 + 0.1937 i (thorough: 1024 angles -6.28 + 12.56 i/1024; all in (-2pi, 2pi)) x all 124 integer axes of {-2..2}^3 minus 0: rotation_3d of Mat3/Mat4 (both layouts) and Mat3/Mat4::from(Quaternion::rotation_3d) vs Rodrigues computed in f64 from f64::sin/cos of the very angle the code received (the f32 angle converted exactly) and the axis normalised in f64; per angle also rotation_x/y/z, Mat2::rotation_z and Vec2::rotated_z on 5 vectors; tolerance 256 * eps(type) * scale with scale = 2 for matrices (largest intermediate 1 - cos <= 2; each entry is a sum of <= 2 products of <= 4 correctly rounded factors plus the normalisation and the libm sin/cos, < 40 eps relative forward error on either side) and |x|+|y| for Vec2: a derived bound, not tuned; non-trivial: all";
    rep.section("float tier f64", rule_f, true, false, |s| float_tier!(s, f64));
    rep.section("float tier f32", rule_f, true, false, |s| float_tier!(s, f32));

    std::process::exit(rep.finish());
}
