//! C04 — rotation builders yield proper right-handed rotations, consistent across types.
//!
//! Exact tier: angles are tokens k*arg(z) of rational points z of the unit circle (sin/cos exact
//! rationals), axes have rational norm (so `normalized()` is exact).  The oracle is Rodrigues'
//! formula from the definition (`vx::matx::rodrigues`) applied to the basis; the real matrices are
//! decoded through their public fields.  Float tier: f64/f32 against Rodrigues computed in f64.
//!
//! Audit round (sections 10-14): every `Into<Vec3>` operand form of the 3D builders; call sequences
//! (in-place and by-value chains, additivity of Vec2 / Mat2 / quaternion chains, odd multiples);
//! extreme axis lengths in the exact tier (lambda = 2^+-27 .. 2^+-40) and in the float tier (axis
//! scaled by 2^+-40 f32 / 2^+-400 f64, where the exact tier goes blind as soon as a rewrite leaves
//! the modelled operations); special, tiny and large float angles; float chained / in-place forms
//! and quaternion x/y/z builders; Vec2 at extreme magnitudes.
//!
//! Second audit round (sections 15-19), aimed at value-dependent shortcuts and at rewrites that only
//! lose accuracy next to special values: exact angles next to 0 / a quarter turn / a half turn
//! (2^-30 .. 2^-19 away); nearly-unit axes (|axis| = 1 +- 2^-55 .. 2^-12) and nearly-coordinate axes
//! (one component about 2^-26) in the exact tier; further self states of the chained / in-place forms
//! (m33 = 1 without an affine bottom row, last column e_w, sheared affine, diagonal, singular, zero;
//! non-unit quaternions, w = 0, w = 1) with a twin-vs-value differential on every state; float tier
//! with an ENTRYWISE forward bound derived from the formula (the sine entries are compared relative
//! to |sin|, quaternion fields relative to themselves) over angle ladders c0 +- 2^-j next to every
//! multiple of pi/2 up to 2 pi, angles below epsilon, nearly-unit / nearly-coordinate axes and axes
//! whose squared length is just inside the normal range.
use vek::Quaternion;
use vx::matx::*;
use vx::q::angle_base_t;
use vx::*;

// ---- angle alphabet --------------------------------------------------------------------------------
/// theta = k * arg(z), z = ((1-t^2)/(1+t^2), 2t/(1+t^2)), t = tn/td
#[derive(Clone, Copy, PartialEq, Debug)]
struct Ang { tn: i128, td: i128, k: i128 }
const fn ang(tn: i128, td: i128, k: i128) -> Ang { Ang { tn, td, k } }
impl Ang {
    fn tok(self) -> X { X::tok(angle_base_t(self.tn, self.td), self.k) }
    /// exact (cos, sin)
    fn cs(self) -> (X, X) { let (s, c) = self.tok().sin_cos_q(); (X::R(c), X::R(s)) }
    /// exact (cos, sin) of half the angle (k must be even)
    fn half_cs(self) -> (X, X) { assert!(self.k % 2 == 0); ang(self.tn, self.td, self.k / 2).cs() }
    fn real(self) -> f64 { self.tok().shadow() }
    fn trivial(self) -> bool { self.cs() == (qi(1), qi(0)) }
    fn weight(self) -> u64 { (self.k.abs() + self.tn.abs() + self.td) as u64 }
    fn plus(self, o: Ang) -> Ang { assert!((self.tn, self.td) == (o.tn, o.td)); ang(self.tn, self.td, self.k + o.k) }
    fn json(self) -> Value {
        let (c, s) = self.cs();
        json!({"theta": format!("{}*arg(z), z = rational circle point with parameter t={}/{}", self.k, self.tn, self.td), "cos": jx(c), "sin": jx(s), "radians~": self.real()})
    }
    fn classes(self) -> Vec<&'static str> {
        let (c, s) = self.cs();
        let mut v = vec![match (c.rat().n.signum(), s.rat().n.signum()) {
            (1, 1) => "theta-in-Q1", (-1, 1) => "theta-in-Q2", (-1, -1) => "theta-in-Q3", (1, -1) => "theta-in-Q4",
            (1, 0) => "theta=0-mod-2pi", (-1, 0) => "half-turn", _ => "quarter-turn",
        }];
        let r = self.real();
        if r < 0.0 { v.push("negative-angle"); }
        if r > std::f64::consts::PI + 1e-9 { v.push("angle-beyond-pi"); }
        v
    }
}
const ANGLE_CLASSES: [&str; 7] = ["theta-in-Q1", "theta-in-Q2", "theta-in-Q3", "theta-in-Q4", "half-turn", "negative-angle", "angle-beyond-pi"];

/// even multiples (theta/2 is again an integer multiple: usable with the half-angle quaternion code)
fn even_angles(th: bool) -> Vec<Ang> {
    let mut v = vec![
        // k = 2: theta = 2 phi.  (cos theta, sin theta):
        ang(0, 1, 2),  // (1, 0)
        ang(1, 7, 2),  // (527/625, 336/625)      Q1
        ang(1, 5, 2),  // (119/169, 120/169)      Q1
        ang(1, 3, 2),  // (7/25, 24/25)           Q1
        ang(1, 2, 2),  // (-7/25, 24/25)          Q2
        ang(2, 3, 2),  // (-119/169, 120/169)     Q2
        ang(1, 1, 2),  // (-1, 0)                 pi
        ang(3, 2, 2),  // (-119/169, -120/169)    Q3, theta ~ 225 deg > pi
        ang(2, 1, 2),  // (-7/25, -24/25)         Q3, theta ~ 254 deg > pi
        ang(3, 1, 2),  // (7/25, -24/25)          Q4, theta ~ 286 deg > pi
        ang(5, 1, 2),  // (119/169, -120/169)     Q4, theta ~ 315 deg > pi
        // negative angles
        ang(1, 3, -2), ang(1, 2, -2), ang(1, 1, -2), ang(2, 1, -2), ang(5, 1, -2), ang(-1, 3, 2), ang(-2, 1, 2),
        // larger multiples: 4 phi, 6 phi
        ang(1, 3, 4),  // (-527/625, 336/625)     Q2 ~147 deg
        ang(1, 2, 4),  // (-527/625, -336/625)    Q3 ~213 deg
        ang(1, 5, 4),  // (-239/28561, 28560/28561) Q2 ~90.5 deg
        ang(1, 3, 6),  // ~221 deg
        ang(1, 2, 6),  // ~319 deg
        ang(1, 2, -4), // ~-213 deg
        ang(2, 1, 4),  // ~507 deg: beyond a full turn
    ];
    if th {
        for (tn, td) in [(1, 4), (3, 4), (4, 1), (2, 5), (5, 2), (1, 8), (7, 1), (4, 3), (3, 5), (-1, 2), (-3, 1)] { for k in [2, -2, 4] { v.push(ang(tn, td, k)); } }
        for (tn, td) in [(1, 3), (1, 2), (2, 1)] { for k in [-6, 8, -8] { v.push(ang(tn, td, k)); } }
    }
    v
}
/// odd multiples (matrix-only code paths): includes exact quarter turns (z = i)
fn odd_angles(th: bool) -> Vec<Ang> {
    let mut v = vec![ang(1, 1, 1), ang(1, 1, 3), ang(1, 1, -1), ang(1, 3, 1), ang(2, 1, 1), ang(1, 2, 3), ang(1, 3, -3), ang(3, 1, 1), ang(-1, 2, 1)];
    if th { for (tn, td) in [(1, 4), (3, 4), (4, 1), (2, 5), (5, 2), (1, 5), (5, 1)] { for k in [1, -1, 3, 5] { v.push(ang(tn, td, k)); } } }
    v
}
fn distinct_points(a: &[Ang]) -> usize { let mut p: Vec<(X, X)> = Vec::new(); for x in a { let c = x.cs(); if !p.contains(&c) { p.push(c); } } p.len() }
fn distinct_half_points(a: &[Ang]) -> usize { let mut p: Vec<(X, X)> = Vec::new(); for x in a { let c = x.half_cs(); if !p.contains(&c) { p.push(c); } } p.len() }

// ---- axis family -----------------------------------------------------------------------------------
/// axis handed to vek = lam * unit, lam > 0 rational, |unit| = 1 rational: the oracle never takes a square root
#[derive(Clone, Copy)]
struct Axis { unit: [X; 3], lam: X }
impl Axis {
    fn given(&self) -> [X; 3] { [self.unit[0] * self.lam, self.unit[1] * self.lam, self.unit[2] * self.lam] }
    fn scaled(&self, f: X) -> Axis { Axis { unit: self.unit, lam: self.lam * f } }
    fn coordinate(&self) -> bool { self.unit.iter().filter(|v| **v != qi(0)).count() == 1 }
    fn class(&self) -> &'static str {
        match (self.coordinate(), self.lam == qi(1)) {
            (true, true) => if self.unit.iter().any(|v| *v < qi(0)) { "axis:-e_i" } else { "axis:+e_i" },
            (true, false) => "axis:non-unit-multiple-of-+-e_i",
            (false, true) => "axis:rational-unit-vector",
            (false, false) => "axis:non-unit-with-rational-norm",
        }
    }
    fn weight(&self) -> u64 { self.given().iter().map(|v| { let r = v.rat(); (r.n.abs() + r.d - 1) as u64 }).sum() }
    fn json(&self) -> Value { json!({"axis": jxs(&self.given()), "norm": jx(self.lam)}) }
}
const AXIS_CLASSES: [&str; 5] = ["axis:+e_i", "axis:-e_i", "axis:non-unit-multiple-of-+-e_i", "axis:rational-unit-vector", "axis:non-unit-with-rational-norm"];
fn axis_family(th: bool, stride: usize) -> Vec<Axis> {
    let ua = unit_axes();
    let mut v: Vec<Axis> = Vec::new();
    for (i, u) in ua.iter().enumerate() { let a = Axis { unit: *u, lam: qi(1) }; if th || a.coordinate() || i % stride == 0 { v.push(a); } }
    for u in ua.iter() { let a = Axis { unit: *u, lam: qi(1) }; if a.coordinate() || th { v.push(a.scaled(qi(2))); v.push(a.scaled(q(1, 3))); } }
    // integer (and one fractional) multiples of Pythagorean quadruples: (1,2,2), (4,6,12), (0,3,4), (-1,4,8), (4/3,-4/3,7/3), (2/21,-6/21,3/21), (-14/3,-7/3,-14/3)
    for (p, n, lam) in [([1, 2, 2], 3, qi(3)), ([2, 3, 6], 7, qi(14)), ([0, 3, 4], 5, qi(5)), ([-1, 4, 8], 9, qi(9)), ([4, -4, 7], 9, qi(3)), ([2, -6, 3], 7, q(1, 3)), ([-2, -1, -2], 3, qi(7))] {
        v.push(Axis { unit: [q(p[0], n), q(p[1], n), q(p[2], n)], lam });
    }
    v
}
fn thin(v: &[Axis], keep_every: usize) -> Vec<Axis> {
    // keeps every coordinate axis and every `keep_every`-th of the rest, per class
    let mut out = Vec::new(); let mut seen = std::collections::BTreeMap::new();
    for a in v { let n = seen.entry(a.class()).or_insert(0usize); if a.coordinate() && a.lam == qi(1) || *n % keep_every == 0 { out.push(*a); } *n += 1; }
    out
}

fn e3(i: usize) -> [X; 3] { let mut v = [qi(0); 3]; v[i] = qi(1); v }
fn pad<const N: usize>(a: &[X]) -> [X; N] { let mut v = [qi(0); N]; for i in 0..a.len().min(N) { v[i] = a[i]; } v }
const XYZ: [&str; 3] = ["x", "y", "z"];

// ---- uniform access to the real API ----------------------------------------------------------------
trait RotM<T: Copy, const N: usize>: MatIO<T, N> + Copy {
    const NAME: &'static str;
    fn t_rot(i: usize, a: T) -> Self;
    fn t_rot3d(a: T, ax: [T; 3]) -> Self;
    fn t_rotated(self, i: usize, a: T) -> Self;
    fn t_rotated3d(self, a: T, ax: [T; 3]) -> Self;
    fn t_rotate(&mut self, i: usize, a: T);
    fn t_rotate3d(&mut self, a: T, ax: [T; 3]);
    fn t_from_quat(q: Quaternion<T>) -> Self;
    fn t_mul_vec(self, v: [T; N]) -> [T; N];
}
macro_rules! rotm { ($md:ident :: $M:ident, $N:expr, $V:ident, $name:expr; $($T:ty),*) => { $(
    impl RotM<$T, $N> for $md::$M<$T> {
        const NAME: &'static str = $name;
        fn t_rot(i: usize, a: $T) -> Self { match i { 0 => Self::rotation_x(a), 1 => Self::rotation_y(a), _ => Self::rotation_z(a) } }
        fn t_rot3d(a: $T, ax: [$T; 3]) -> Self { Self::rotation_3d(a, v3(&ax)) }
        fn t_rotated(self, i: usize, a: $T) -> Self { match i { 0 => self.rotated_x(a), 1 => self.rotated_y(a), _ => self.rotated_z(a) } }
        fn t_rotated3d(self, a: $T, ax: [$T; 3]) -> Self { self.rotated_3d(a, v3(&ax)) }
        fn t_rotate(&mut self, i: usize, a: $T) { match i { 0 => self.rotate_x(a), 1 => self.rotate_y(a), _ => self.rotate_z(a) } }
        fn t_rotate3d(&mut self, a: $T, ax: [$T; 3]) { self.rotate_3d(a, v3(&ax)) }
        fn t_from_quat(q: Quaternion<$T>) -> Self { Self::from(q) }
        fn t_mul_vec(self, v: [$T; $N]) -> [$T; $N] { (self * <$V<$T> as VecIO<$T, $N>>::build(&v)).decode() }
    } )* } }
rotm!(rm::Mat3, 3, Vec3, "Mat3<row>"; X, f64, f32);
rotm!(cm::Mat3, 3, Vec3, "Mat3<col>"; X, f64, f32);
rotm!(rm::Mat4, 4, Vec4, "Mat4<row>"; X, f64, f32);
rotm!(cm::Mat4, 4, Vec4, "Mat4<col>"; X, f64, f32);

trait RotM2<T: Copy>: MatIO<T, 2> + Copy {
    const NAME: &'static str;
    fn t_rot_z(a: T) -> Self;
    fn t_rotated_z(self, a: T) -> Self;
    fn t_rotate_z(&mut self, a: T);
    fn t_mul_vec(self, v: [T; 2]) -> [T; 2];
}
macro_rules! rotm2 { ($md:ident, $name:expr; $($T:ty),*) => { $(
    impl RotM2<$T> for $md::Mat2<$T> {
        const NAME: &'static str = $name;
        fn t_rot_z(a: $T) -> Self { Self::rotation_z(a) }
        fn t_rotated_z(self, a: $T) -> Self { self.rotated_z(a) }
        fn t_rotate_z(&mut self, a: $T) { self.rotate_z(a) }
        fn t_mul_vec(self, v: [$T; 2]) -> [$T; 2] { dv2(&(self * v2(&v))) }
    } )* } }
rotm2!(rm, "Mat2<row>"; X, f64, f32);
rotm2!(cm, "Mat2<col>"; X, f64, f32);

fn dq<T: Copy>(q: Quaternion<T>) -> [T; 4] { [q.x, q.y, q.z, q.w] }
fn mkq<T: Copy>(a: &[T; 4]) -> Quaternion<T> { Quaternion { x: a[0], y: a[1], z: a[2], w: a[3] } }
fn negq(a: &[X; 4]) -> [X; 4] { [-a[0], -a[1], -a[2], -a[3]] }

// ---- reference models (plain arrays) ---------------------------------------------------------------
/// textbook rotation matrix of a unit quaternion (x,y,z,w): v -> q v q*
fn ref_q2m<T: Ring>(q: &[T; 4]) -> A<T, 3> {
    let [x, y, z, w] = *q; let one = T::one(); let two = one + one;
    [[one - two * (y * y + z * z), two * (x * y - z * w), two * (x * z + y * w)],
     [two * (x * y + z * w), one - two * (x * x + z * z), two * (y * z - x * w)],
     [two * (x * z - y * w), two * (y * z + x * w), one - two * (x * x + y * y)]]
}
/// the unit quaternion of (angle, unit axis) from the definition: (axis sin(theta/2), cos(theta/2))
fn ref_quat(unit: &[X; 3], a: Ang) -> [X; 4] { let (ch, sh) = a.half_cs(); [unit[0] * sh, unit[1] * sh, unit[2] * sh, ch] }
/// Hamilton product p*q (apply q first, then p)
fn ham(p: &[X; 4], q: &[X; 4]) -> [X; 4] {
    let (pv, qv) = ([p[0], p[1], p[2]], [q[0], q[1], q[2]]);
    let c = cross3(&pv, &qv);
    [p[3] * q[0] + q[3] * p[0] + c[0], p[3] * q[1] + q[3] * p[1] + c[1], p[3] * q[2] + q[3] * p[2] + c[2], p[3] * q[3] - dotn(&pv, &qv)]
}
fn rodrigues_f(k: &[f64; 3], c: f64, s: f64) -> A<f64, 3> {
    let mut m = [[0.0; 3]; 3];
    for j in 0..3 { let mut e = [0.0; 3]; e[j] = 1.0; let kxe = cross3(k, &e); let kd = k[j]; for i in 0..3 { m[i][j] = e[i] * c + kxe[i] * s + k[i] * kd * (1.0 - c); } }
    m
}

// ---- generic section bodies ------------------------------------------------------------------------
fn mark(s: &Section, a: Ang) { for c in a.classes() { s.class(c); } }

/// orthogonality, det = +1, axis fixed — on a decoded real output
fn laws<const N: usize>(s: &Section, site: &str, g: &A<X, N>, axis: Option<&[X; 3]>, inp: &dyn Fn() -> Value, w: u64) {
    let r = s.call(site, || inp(), || {
        let t = transpose(g);
        let fixed = axis.map(|ax| { let v = pad::<N>(ax); mvec(g, &v) == v });
        (mmul(g, &t), mmul(&t, g), det(g), fixed)
    });
    if let Some((ggt, gtg, d, fixed)) = r {
        let id = ident::<X, N>();
        if ggt != id || gtg != id { s.violation_w(site, "not-orthogonal", json!({"input": inp(), "R": jmat(g), "R*Rt": jmat(&ggt)}), w); }
        if d != qi(1) { s.violation_w(site, "determinant-not-plus-one", json!({"input": inp(), "R": jmat(g), "det": jx(d)}), w); }
        if fixed == Some(false) { s.violation_w(site, "axis-not-fixed", json!({"input": inp(), "R": jmat(g)}), w); }
    }
}

/// rotation_x/y/z of a 3x3 / 4x4 type
fn sec_xyz<const N: usize, M: RotM<X, N>>(s: &Section, angs: &[Ang]) {
    for &a in angs {
        let (c, sn) = a.cs(); let th = a.tok();
        for i in 0..3 {
            let site = format!("{}::rotation_{}", M::NAME, XYZ[i]);
            let want: A<X, N> = embed::<X, 3, N>(&rodrigues(&e3(i), c, sn));
            let inp = || json!({"angle": a.json()});
            let w = a.weight();
            s.eval(!a.trivial()); mark(s, a);
            let Some((g, img_real, via3d)) = s.call(&site, inp, || { let m = M::t_rot(i, th); (m.decode(), m.t_mul_vec(pad::<N>(&e3((i + 1) % 3))), M::t_rot3d(th, e3(i)).decode()) }) else { continue };
            if g != want { s.violation_w(&site, "not-rodrigues", json!({"input": inp(), "got": jmat(&g), "want": jmat(&want)}), w); }
            // right-handed, counter-clockwise: e_{i+1} -> cos e_{i+1} + sin e_{i+2} (z: e_x -> (c,s,0); x: e_y -> (0,c,s); y: e_z -> (s,0,c))
            let mut img_want = [qi(0); N]; img_want[(i + 1) % 3] = c; img_want[(i + 2) % 3] = sn;
            let img = mvec(&g, &pad::<N>(&e3((i + 1) % 3)));
            if img != img_want || img_real != img_want { s.violation_w(&site, "wrong-handedness", json!({"input": inp(), "unit_vector": XYZ[(i + 1) % 3], "image_by_fields": jxs(&img), "image_by_real_mul": jxs(&img_real), "want": jxs(&img_want)}), w); }
            if via3d != g { s.violation_w(&site, "differs-from-rotation_3d-about-the-unit-axis", json!({"input": inp(), "got": jmat(&g), "rotation_3d": jmat(&via3d)}), w); }
            laws(s, &site, &g, Some(&e3(i)), &inp, w);
            if i == 2 && !a.trivial() && s.wants_sample() { s.sample(json!({"call": site, "input": inp(), "real_output": jmat(&g), "e_x ->": jxs(&img)})); }
        }
    }
}
fn sec_z2<M: RotM2<X>>(s: &Section, angs: &[Ang]) {
    for &a in angs {
        let (c, sn) = a.cs(); let th = a.tok();
        let site = format!("{}::rotation_z", M::NAME);
        let r3 = rodrigues(&e3(2), c, sn);
        let want: A<X, 2> = [[r3[0][0], r3[0][1]], [r3[1][0], r3[1][1]]];
        let inp = || json!({"angle": a.json()});
        let w = a.weight();
        s.eval(!a.trivial()); mark(s, a);
        let Some((g, img_real)) = s.call(&site, inp, || { let m = M::t_rot_z(th); (m.decode(), m.t_mul_vec([qi(1), qi(0)])) }) else { continue };
        if g != want { s.violation_w(&site, "not-rodrigues", json!({"input": inp(), "got": jmat(&g), "want": jmat(&want)}), w); }
        let img = mvec(&g, &[qi(1), qi(0)]);
        if img != [c, sn] || img_real != [c, sn] { s.violation_w(&site, "wrong-handedness", json!({"input": inp(), "image_of_e_x": jxs(&img), "by_real_mul": jxs(&img_real), "want": jxs(&[c, sn])}), w); }
        laws(s, &site, &g, None, &inp, w);
    }
}

/// rotation_3d against Rodrigues + the laws
fn sec_rot3d<const N: usize, M: RotM<X, N>>(s: &Section, axes: &[Axis], angs: &[Ang]) {
    let site = format!("{}::rotation_3d", M::NAME);
    for ax in axes {
        let given = ax.given();
        for &a in angs {
            let (c, sn) = a.cs(); let th = a.tok();
            let want: A<X, N> = embed::<X, 3, N>(&rodrigues(&ax.unit, c, sn));
            let inp = || json!({"angle": a.json(), "axis": ax.json()});
            let w = a.weight() + ax.weight();
            s.eval(!a.trivial()); s.class(ax.class()); mark(s, a);
            let Some(g) = s.call(&site, inp, || M::t_rot3d(th, given).decode()) else { continue };
            if g != want { s.violation_w(&site, "not-rodrigues", json!({"input": inp(), "got": jmat(&g), "want": jmat(&want)}), w); }
            laws(s, &site, &g, Some(&given), &inp, w);
            if N == 4 && !a.trivial() && !ax.coordinate() && ax.lam != qi(1) && s.wants_sample() { s.sample(json!({"call": site, "input": inp(), "real_output": jmat(&g)})); }
        }
    }
}
/// the 3x3 result is the upper-left block of the 4x4 one, identity border
fn sec_block<M3: RotM<X, 3>, M4: RotM<X, 4>>(s: &Section, axes: &[Axis], angs: &[Ang]) {
    for &a in angs {
        let th = a.tok();
        let one = |site: String, inp: &dyn Fn() -> Value, r: Option<(A<X, 3>, A<X, 4>)>, w: u64| {
            s.eval(!a.trivial());
            if let Some((g3, g4)) = r { if g4 != embed::<X, 3, 4>(&g3) { s.violation_w(&site, "mat3-is-not-the-upper-left-block-of-mat4", json!({"input": inp(), "mat3": jmat(&g3), "mat4": jmat(&g4)}), w); } }
        };
        for i in 0..3 {
            let inp = || json!({"angle": a.json()});
            one(format!("{} vs {} rotation_{}", M3::NAME, M4::NAME, XYZ[i]), &inp, s.call("block", inp, || (M3::t_rot(i, th).decode(), M4::t_rot(i, th).decode())), a.weight());
        }
        for ax in axes {
            let given = ax.given();
            let inp = || json!({"angle": a.json(), "axis": ax.json()});
            one(format!("{} vs {} rotation_3d", M3::NAME, M4::NAME), &inp, s.call("block", inp, || (M3::t_rot3d(th, given).decode(), M4::t_rot3d(th, given).decode())), a.weight() + ax.weight());
        }
    }
}

/// R(theta, lambda*axis) = R(theta, axis)
fn sec_scale<const N: usize, M: RotM<X, N>>(s: &Section, axes: &[Axis], angs: &[Ang], lams: &[X]) {
    let site = format!("{}::rotation_3d", M::NAME);
    for ax in axes { for &lam in lams { for &a in angs {
        let (g0, g1) = (ax.given(), ax.scaled(lam).given());
        let th = a.tok();
        let inp = || json!({"angle": a.json(), "axis": ax.json(), "lambda": jx(lam)});
        s.eval(!a.trivial()); s.class(ax.class());
        if let Some((r0, r1)) = s.call(&site, inp, || (M::t_rot3d(th, g0).decode(), M::t_rot3d(th, g1).decode())) {
            if r0 != r1 { s.violation_w(&site, "depends-on-axis-length", json!({"input": inp(), "R(axis)": jmat(&r0), "R(lambda*axis)": jmat(&r1)}), a.weight() + ax.weight()); }
            if !a.trivial() && lam == qi(7) && s.wants_sample() { s.sample(json!({"call": site, "input": inp(), "both_equal": jmat(&r0)})); }
        }
    } } }
}

/// R(a) R(b) = R(a+b), all ordered pairs of multiples of one base
fn sec_add<const N: usize, M: RotM<X, N>>(s: &Section, axes: &[Axis], bases: &[(i128, i128)], ks: &[i128]) {
    for &(tn, td) in bases { for &ka in ks { for &kb in ks {
        let (a, b) = (ang(tn, td, ka), ang(tn, td, kb));
        let sum = a.tok() + b.tok();
        let (cs, ss) = a.plus(b).cs();
        let nontriv = !a.trivial() && !b.trivial();
        let w = a.weight() + b.weight();
        for i in 0..3 {
            let site = format!("{}::rotation_{}", M::NAME, XYZ[i]);
            let inp = || json!({"a": a.json(), "b": b.json()});
            s.eval(nontriv); s.class(if ka == kb { "a=b" } else if ka + kb == 0 { "a=-b" } else { "a!=b" });
            if let Some((ra, rb, rs, chained)) = s.call(&site, inp, || (M::t_rot(i, a.tok()).decode(), M::t_rot(i, b.tok()).decode(), M::t_rot(i, sum).decode(), M::t_rot(i, b.tok()).t_rotated(i, a.tok()).decode())) {
                let prod = mmul(&ra, &rb);
                let want: A<X, N> = embed::<X, 3, N>(&rodrigues(&e3(i), cs, ss));
                if prod != rs || rs != want { s.violation_w(&site, "not-additive", json!({"input": inp(), "R(a)R(b)": jmat(&prod), "R(a+b)": jmat(&rs), "rodrigues(a+b)": jmat(&want)}), w); }
                if chained != rs { s.violation_w(&format!("{}::rotated_{}", M::NAME, XYZ[i]), "chained-rotation-not-additive", json!({"input": inp(), "rotation(b).rotated(a)": jmat(&chained), "R(a+b)": jmat(&rs)}), w); }
            }
        }
        let site = format!("{}::rotation_3d", M::NAME);
        for ax in axes {
            let given = ax.given();
            let inp = || json!({"a": a.json(), "b": b.json(), "axis": ax.json()});
            s.eval(nontriv); s.class(ax.class());
            if let Some((ra, rb, rs)) = s.call(&site, inp, || (M::t_rot3d(a.tok(), given).decode(), M::t_rot3d(b.tok(), given).decode(), M::t_rot3d(sum, given).decode())) {
                let prod = mmul(&ra, &rb);
                let want: A<X, N> = embed::<X, 3, N>(&rodrigues(&ax.unit, cs, ss));
                if prod != rs || rs != want { s.violation_w(&site, "not-additive", json!({"input": inp(), "R(a)R(b)": jmat(&prod), "R(a+b)": jmat(&rs), "rodrigues(a+b)": jmat(&want)}), w + ax.weight()); }
                if N == 3 && nontriv && ka != kb && !ax.coordinate() && s.wants_sample() { s.sample(json!({"call": site, "input": inp(), "R(a)R(b) = R(a+b) =": jmat(&rs)})); }
            }
        }
    } } }
}

/// Mat::from(Quaternion) and Mat::from(Quaternion::rotation_3d(..)) against rotation_3d / Rodrigues
fn sec_fromq<const N: usize, M: RotM<X, N>>(s: &Section, axes: &[Axis], angs: &[Ang]) {
    for ax in axes {
        let given = ax.given();
        for &a in angs {
            let (c, sn) = a.cs(); let th = a.tok();
            let want: A<X, N> = embed::<X, 3, N>(&rodrigues(&ax.unit, c, sn));
            let inp = || json!({"angle": a.json(), "axis": ax.json()});
            let w = a.weight() + ax.weight();
            // (1) the conversion alone, on the reference unit quaternion built by struct literal
            let site = format!("{}::from(Quaternion)", M::NAME);
            let rq = ref_quat(&ax.unit, a);
            s.eval(!a.trivial()); s.class(ax.class()); mark(s, a);
            if let Some(g) = s.call(&site, || json!({"quaternion_xyzw": jxs(&rq)}), || M::t_from_quat(mkq(&rq)).decode()) {
                if g != want { s.violation_w(&site, "not-the-rotation-of-the-unit-quaternion", json!({"quaternion_xyzw": jxs(&rq), "it_is": inp(), "got": jmat(&g), "want": jmat(&want)}), w); }
            }
            // (2) the composite named by the property
            let site = format!("{}::from(Quaternion::rotation_3d)", M::NAME);
            s.eval(!a.trivial());
            if let Some((g, direct)) = s.call(&site, inp, || (M::t_from_quat(Quaternion::rotation_3d(th, v3(&given))).decode(), M::t_rot3d(th, given).decode())) {
                if g != direct { s.violation_w(&site, "differs-from-rotation_3d", json!({"input": inp(), "from_quaternion": jmat(&g), "rotation_3d": jmat(&direct)}), w); }
                if g != want { s.violation_w(&site, "not-rodrigues", json!({"input": inp(), "got": jmat(&g), "want": jmat(&want)}), w); }
                if N == 3 && !a.trivial() && !ax.coordinate() && s.wants_sample() { s.sample(json!({"call": site, "input": inp(), "real_output": jmat(&g)})); }
            }
        }
    }
}

/// m.rotated_*(theta) = rotation_*(theta) * m (pre-multiplication), rotate_* = rotated_*
fn sec_chain<const N: usize, M: RotM<X, N>>(s: &Section, ms: &[A<X, N>], axes: &[Axis], angs: &[Ang]) {
    for m in ms {
        let real_m = M::build(m);
        for &a in angs {
            let (c, sn) = a.cs(); let th = a.tok();
            let one = |name: String, inp: &dyn Fn() -> Value, rot: A<X, N>, r: Option<(A<X, N>, A<X, N>)>, w: u64| {
                let (pre, post) = (mmul(&rot, m), mmul(m, &rot));
                s.eval(pre != post); s.class(if pre != post { "order-matters" } else { "commuting" });
                if let Some((ret, inplace)) = r {
                    if ret != pre { s.violation_w(&format!("{}::rotated_{}", M::NAME, name), if ret == post { "post-multiplies-instead-of-pre-multiplying" } else { "not-rotation-times-self" }, json!({"input": inp(), "got": jmat(&ret), "want": jmat(&pre)}), w); }
                    if inplace != ret { s.violation_w(&format!("{}::rotate_{}", M::NAME, name), "in-place-form-differs", json!({"input": inp(), "rotate": jmat(&inplace), "rotated": jmat(&ret)}), w); }
                    if pre != post && s.wants_sample() { s.sample(json!({"call": format!("{}::rotated_{}", M::NAME, name), "input": inp(), "real_output": jmat(&ret)})); }
                }
            };
            for i in 0..3 {
                let inp = || json!({"self": jmat(m), "angle": a.json()});
                let r = s.call(&format!("{}::rotated_{}", M::NAME, XYZ[i]), inp, || { let mut ip = real_m; ip.t_rotate(i, th); (real_m.t_rotated(i, th).decode(), ip.decode()) });
                one(XYZ[i].to_string(), &inp, embed::<X, 3, N>(&rodrigues(&e3(i), c, sn)), r, a.weight());
            }
            for ax in axes {
                let given = ax.given();
                let inp = || json!({"self": jmat(m), "angle": a.json(), "axis": ax.json()});
                let r = s.call(&format!("{}::rotated_3d", M::NAME), inp, || { let mut ip = real_m; ip.t_rotate3d(th, given); (real_m.t_rotated3d(th, given).decode(), ip.decode()) });
                one("3d".to_string(), &inp, embed::<X, 3, N>(&rodrigues(&ax.unit, c, sn)), r, a.weight() + ax.weight());
            }
        }
    }
}
fn sec_chain2<M: RotM2<X>>(s: &Section, ms: &[A<X, 2>], angs: &[Ang]) {
    for m in ms { let real_m = M::build(m); for &a in angs {
        let (c, sn) = a.cs(); let th = a.tok();
        let rot: A<X, 2> = [[c, -sn], [sn, c]];
        let (pre, post) = (mmul(&rot, m), mmul(m, &rot));
        let inp = || json!({"self": jmat(m), "angle": a.json()});
        s.eval(pre != post); s.class(if pre != post { "order-matters" } else { "commuting" });
        if let Some((ret, inplace)) = s.call(&format!("{}::rotated_z", M::NAME), inp, || { let mut ip = real_m; ip.t_rotate_z(th); (real_m.t_rotated_z(th).decode(), ip.decode()) }) {
            if ret != pre { s.violation_w(&format!("{}::rotated_z", M::NAME), if ret == post { "post-multiplies-instead-of-pre-multiplying" } else { "not-rotation-times-self" }, json!({"input": inp(), "got": jmat(&ret), "want": jmat(&pre)}), a.weight()); }
            if inplace != ret { s.violation_w(&format!("{}::rotate_z", M::NAME), "in-place-form-differs", json!({"input": inp(), "rotate": jmat(&inplace), "rotated": jmat(&ret)}), a.weight()); }
        }
    } }
}

// ---- float tier ------------------------------------------------------------------------------------
trait Fl: Copy + 'static { const NAME: &'static str; fn f(v: f64) -> Self; fn d(self) -> f64; fn close(self, want: f64, scale: f64) -> bool; }
impl Fl for f64 { const NAME: &'static str = "f64"; fn f(v: f64) -> f64 { v } fn d(self) -> f64 { self } fn close(self, want: f64, scale: f64) -> bool { vx::fl::close64(self, want, scale) } }
impl Fl for f32 { const NAME: &'static str = "f32"; fn f(v: f64) -> f32 { v as f32 } fn d(self) -> f64 { self as f64 } fn close(self, want: f64, scale: f64) -> bool { vx::fl::close32(self, want, scale) } }

fn fcmp<T: Fl, const N: usize>(s: &Section, site: &str, class: &str, got: &A<T, N>, want3: &A<f64, 3>, inp: &dyn Fn() -> Value) {
    s.eval(true);
    let want: A<f64, N> = embed::<f64, 3, N>(want3);
    let mut worst = 0.0f64; let mut ok = true;
    // scale 2: the largest intermediate of the formula is 1 - cos <= 2; entries are <= 1
    for i in 0..N { for j in 0..N { if !got[i][j].close(want[i][j], 2.0) { ok = false; } worst = worst.max((got[i][j].d() - want[i][j]).abs()); } }
    if !ok { s.violation(&format!("{}<{}>", site, T::NAME), class, json!({"input": inp(), "worst_entry_error": worst, "got": got.iter().map(|r| r.iter().map(|v| v.d()).collect::<Vec<_>>()).collect::<Vec<_>>(), "want": want.iter().map(|r| r.to_vec()).collect::<Vec<_>>()})); }
}
fn float_3d<T: Fl, const N: usize, M: RotM<T, N>>(s: &Section, af: T, c: f64, sn: f64, axis: [i32; 3], ang64: f64) where Quaternion<T>: FQ<T> {
    let n = ((axis[0] * axis[0] + axis[1] * axis[1] + axis[2] * axis[2]) as f64).sqrt();
    let k = [axis[0] as f64 / n, axis[1] as f64 / n, axis[2] as f64 / n];
    let want = rodrigues_f(&k, c, sn);
    let axf = [T::f(axis[0] as f64), T::f(axis[1] as f64), T::f(axis[2] as f64)];
    let inp = || json!({"angle": ang64, "axis": axis});
    fcmp::<T, N>(s, &format!("{}::rotation_3d", M::NAME), "not-rodrigues-within-error-bound", &M::t_rot3d(af, axf).decode(), &want, &inp);
    fcmp::<T, N>(s, &format!("{}::from(Quaternion::rotation_3d)", M::NAME), "not-rodrigues-within-error-bound", &M::t_from_quat(<Quaternion<T> as FQ<T>>::rot3d(af, axf)).decode(), &want, &inp);
}
fn float_xyz<T: Fl, const N: usize, M: RotM<T, N>>(s: &Section, af: T, c: f64, sn: f64, ang64: f64) {
    for i in 0..3 {
        let mut k = [0.0; 3]; k[i] = 1.0;
        let inp = || json!({"angle": ang64});
        fcmp::<T, N>(s, &format!("{}::rotation_{}", M::NAME, XYZ[i]), "not-rodrigues-within-error-bound", &M::t_rot(i, af).decode(), &rodrigues_f(&k, c, sn), &inp);
    }
}
trait FQ<T> { fn rot3d(a: T, ax: [T; 3]) -> Self; }
impl FQ<f64> for Quaternion<f64> { fn rot3d(a: f64, ax: [f64; 3]) -> Self { Quaternion::rotation_3d(a, v3(&ax)) } }
impl FQ<f32> for Quaternion<f32> { fn rot3d(a: f32, ax: [f32; 3]) -> Self { Quaternion::rotation_3d(a, v3(&ax)) } }

macro_rules! float_tier { ($s:expr, $T:ty) => {{
    let s: &Section = $s;
    s.require_classes(&["angle<0", "angle>pi", "angle in (0,pi)", "axis-unit-length", "axis-non-unit"]);
    let n_ang = if s.thorough() { 1024 } else { 64 };
    s.meta("angles", json!(n_ang));
    for ai in 0..n_ang {
        let ang64_nominal = if s.thorough() { -6.28 + ai as f64 * (12.56 / 1024.0) } else { -6.2 + ai as f64 * 0.1937 };
        let af: $T = <$T as Fl>::f(ang64_nominal);
        let ang64 = af.d(); // the angle the real code sees, exactly
        let (c, sn) = (ang64.cos(), ang64.sin());
        s.class(if ang64 < 0.0 { "angle<0" } else if ang64 > std::f64::consts::PI { "angle>pi" } else { "angle in (0,pi)" });
        for x in -2i32..=2 { for y in -2i32..=2 { for z in -2i32..=2 { if (x, y, z) == (0, 0, 0) { continue; }
            s.class(if x * x + y * y + z * z == 1 { "axis-unit-length" } else { "axis-non-unit" });
            float_3d::<$T, 3, rm::Mat3<$T>>(s, af, c, sn, [x, y, z], ang64);
            float_3d::<$T, 3, cm::Mat3<$T>>(s, af, c, sn, [x, y, z], ang64);
            float_3d::<$T, 4, rm::Mat4<$T>>(s, af, c, sn, [x, y, z], ang64);
            float_3d::<$T, 4, cm::Mat4<$T>>(s, af, c, sn, [x, y, z], ang64);
        } } }
        float_xyz::<$T, 3, rm::Mat3<$T>>(s, af, c, sn, ang64);
        float_xyz::<$T, 3, cm::Mat3<$T>>(s, af, c, sn, ang64);
        float_xyz::<$T, 4, rm::Mat4<$T>>(s, af, c, sn, ang64);
        float_xyz::<$T, 4, cm::Mat4<$T>>(s, af, c, sn, ang64);
        // Mat2 and Vec2
        let m2 = [[c, -sn], [sn, c]];
        for (name, g) in [("Mat2<row>::rotation_z", rm::Mat2::<$T>::rotation_z(af).decode()), ("Mat2<col>::rotation_z", cm::Mat2::<$T>::rotation_z(af).decode())] {
            s.eval(true);
            for i in 0..2 { for j in 0..2 { if !g[i][j].close(m2[i][j], 1.0) { s.violation(&format!("{}<{}>", name, <$T as Fl>::NAME), "not-rodrigues-within-error-bound", json!({"angle": ang64, "entry": [i, j], "got": g[i][j].d(), "want": m2[i][j]})); } } }
        }
        for v in [[1.0f64, 0.0], [0.0, 1.0], [3.0, -4.0], [-0.5, 100.0], [-7.25, -1.0]] {
            s.eval(true);
            let r = Vec2 { x: <$T as Fl>::f(v[0]), y: <$T as Fl>::f(v[1]) }.rotated_z(af);
            let want = [c * v[0] - sn * v[1], sn * v[0] + c * v[1]];
            let scale = v[0].abs() + v[1].abs();
            if !r.x.close(want[0], scale) || !r.y.close(want[1], scale) { s.violation(&format!("Vec2::rotated_z<{}>", <$T as Fl>::NAME), "not-ccw-rotation-within-error-bound", json!({"angle": ang64, "v": v, "got": [r.x.d(), r.y.d()], "want": want})); }
            if s.wants_sample() && ai == 40 { s.sample(json!({"call": "Vec2::rotated_z", "angle": ang64, "v": v, "real_output": [r.x.d(), r.y.d()], "oracle": want})); }
        }
    }
}} }

// ==== additions of the audit round ==================================================================
use vek::vec::repr_c::{Extent3, Rgb, Uvw};

// ---- A. every `Into<Vec3<T>>` operand form the builders accept ------------------------------------
trait RotV<const N: usize>: MatIO<X, N> + Copy {
    const VNAME: &'static str;
    fn v_rot<V: Into<Vec3<X>>>(a: X, v: V) -> Self;
    fn v_rotated<V: Into<Vec3<X>>>(self, a: X, v: V) -> Self;
    fn v_rotate<V: Into<Vec3<X>>>(&mut self, a: X, v: V);
}
macro_rules! rotv { ($M:ty, $N:expr, $name:expr) => {
    impl RotV<$N> for $M {
        const VNAME: &'static str = $name;
        fn v_rot<V: Into<Vec3<X>>>(a: X, v: V) -> Self { Self::rotation_3d(a, v) }
        fn v_rotated<V: Into<Vec3<X>>>(self, a: X, v: V) -> Self { self.rotated_3d(a, v) }
        fn v_rotate<V: Into<Vec3<X>>>(&mut self, a: X, v: V) { self.rotate_3d(a, v) }
    } } }
rotv!(rm::Mat3<X>, 3, "Mat3<row>");
rotv!(cm::Mat3<X>, 3, "Mat3<col>");
rotv!(rm::Mat4<X>, 4, "Mat4<row>");
rotv!(cm::Mat4<X>, 4, "Mat4<col>");

const FORM_CLASSES: [&str; 10] = ["[T;3]", "(T,T,T)", "Vec4(w=5 ignored)", "Vec4(w=0)", "(Vec2,T)", "mint::Vector3", "Extent3", "Rgb", "Uvw", "Vec2(z=0)"];

/// one operand form x one matrix type: rotation_3d, rotated_3d, rotate_3d against Rodrigues (* self)
fn form_case<const N: usize, M: RotV<N>, V: Into<Vec3<X>> + Copy>(s: &Section, form: &str, v: V, a: Ang, unit: &[X; 3], m: &A<X, N>, desc: &dyn Fn() -> Value, w: u64) {
    let (c, sn) = a.cs(); let th = a.tok();
    let rot: A<X, N> = embed::<X, 3, N>(&rodrigues(unit, c, sn));
    let pre = mmul(&rot, m);
    let site = format!("{}::rotation_3d(axis: {})", M::VNAME, form);
    let inp = || json!({"axis_passed_as": form, "axis": desc(), "angle": a.json(), "self": jmat(m)});
    s.eval(!a.trivial()); s.class(form);
    if let Some((g, ret, ip)) = s.call(&site, inp, || { let real_m = M::build(m); let mut ip = real_m; ip.v_rotate(th, v); (M::v_rot(th, v).decode(), real_m.v_rotated(th, v).decode(), ip.decode()) }) {
        if g != rot { s.violation_w(&site, "not-rodrigues-of-the-xyz-part-of-the-operand", json!({"input": inp(), "got": jmat(&g), "want": jmat(&rot)}), w); }
        if ret != pre { s.violation_w(&format!("{}::rotated_3d(axis: {})", M::VNAME, form), "not-rotation-times-self", json!({"input": inp(), "got": jmat(&ret), "want": jmat(&pre)}), w); }
        if ip != pre { s.violation_w(&format!("{}::rotate_3d(axis: {})", M::VNAME, form), "in-place-form-differs", json!({"input": inp(), "rotate": jmat(&ip), "want": jmat(&pre)}), w); }
        if !a.trivial() && form.starts_with("Vec4(w=5") && s.wants_sample() { s.sample(json!({"call": site, "input": inp(), "real_output": jmat(&g)})); }
    }
}
fn qform_case<V: Into<Vec3<X>> + Copy>(s: &Section, form: &str, v: V, a: Ang, unit: &[X; 3], q0: &[X; 4], desc: &dyn Fn() -> Value, w: u64) {
    let th = a.tok();
    let rq = ref_quat(unit, a);
    let pre = ham(&rq, q0);
    let site = format!("Quaternion::rotation_3d(axis: {})", form);
    let inp = || json!({"axis_passed_as": form, "axis": desc(), "angle": a.json(), "self_xyzw": jxs(q0)});
    s.eval(!a.trivial()); s.class(form);
    if let Some((g, ret, ip)) = s.call(&site, inp, || { let real_q = mkq(q0); let mut ip = real_q; ip.rotate_3d(th, v); (dq(Quaternion::rotation_3d(th, v)), dq(real_q.rotated_3d(th, v)), dq(ip)) }) {
        if g != rq && g != negq(&rq) { s.violation_w(&site, "not-half-angle-axis-form-of-the-xyz-part-of-the-operand", json!({"input": inp(), "got_xyzw": jxs(&g), "want_xyzw": jxs(&rq)}), w); }
        if ret != pre && ret != negq(&pre) { s.violation_w(&format!("Quaternion::rotated_3d(axis: {})", form), "not-the-hamilton-product-rotation*self", json!({"input": inp(), "got_xyzw": jxs(&ret), "want_xyzw": jxs(&pre)}), w); }
        if ip != ret { s.violation_w(&format!("Quaternion::rotate_3d(axis: {})", form), "in-place-form-differs", json!({"input": inp(), "rotate": jxs(&ip), "rotated": jxs(&ret)}), w); }
    }
}
macro_rules! all_forms { ($case:ident [$($gen:tt)*], $s:expr, $axes:expr, $planar:expr, $angs:expr, $m:expr) => {{
    for ax in $axes { let g = ax.given(); let d = || ax.json(); for &a in $angs { let w = a.weight() + ax.weight();
        $case::<$($gen)* _>($s, "[T;3]", [g[0], g[1], g[2]], a, &ax.unit, $m, &d, w);
        $case::<$($gen)* _>($s, "(T,T,T)", (g[0], g[1], g[2]), a, &ax.unit, $m, &d, w);
        $case::<$($gen)* _>($s, "Vec4(w=5 ignored)", Vec4 { x: g[0], y: g[1], z: g[2], w: qi(5) }, a, &ax.unit, $m, &d, w);
        $case::<$($gen)* _>($s, "Vec4(w=0)", Vec4 { x: g[0], y: g[1], z: g[2], w: qi(0) }, a, &ax.unit, $m, &d, w);
        $case::<$($gen)* _>($s, "(Vec2,T)", (Vec2 { x: g[0], y: g[1] }, g[2]), a, &ax.unit, $m, &d, w);
        $case::<$($gen)* _>($s, "mint::Vector3", mint::Vector3 { x: g[0], y: g[1], z: g[2] }, a, &ax.unit, $m, &d, w);
        $case::<$($gen)* _>($s, "Extent3", Extent3 { w: g[0], h: g[1], d: g[2] }, a, &ax.unit, $m, &d, w);
        $case::<$($gen)* _>($s, "Rgb", Rgb { r: g[0], g: g[1], b: g[2] }, a, &ax.unit, $m, &d, w);
        $case::<$($gen)* _>($s, "Uvw", Uvw { u: g[0], v: g[1], w: g[2] }, a, &ax.unit, $m, &d, w);
    } }
    for ax in $planar { let g = ax.given(); let d = || ax.json(); for &a in $angs { let w = a.weight() + ax.weight();
        $case::<$($gen)* _>($s, "Vec2(z=0)", Vec2 { x: g[0], y: g[1] }, a, &ax.unit, $m, &d, w);
    } }
}} }

// ---- B. call sequences ------------------------------------------------------------------------------
/// kind 0..2 = about x/y/z, 3 = about the section's arbitrary axis
#[derive(Clone, Copy, Debug)]
struct Step { kind: usize, a: Ang }
fn step_unit(st: &Step, ax: &Axis) -> [X; 3] { if st.kind < 3 { e3(st.kind) } else { ax.unit } }
fn step_json(seq: &[Step], ax: &Axis) -> Value { Value::Array(seq.iter().map(|st| json!({"about": if st.kind < 3 { json!(XYZ[st.kind]) } else { ax.json() }, "angle": st.a.json()})).collect()) }
/// every word of length 1..=3 over {x, y, z, 3d} and the 24 orders of all four; angles assigned by position from `pool` rotated by `off`
fn sequences(pool: &[Ang], offs: &[usize]) -> Vec<Vec<Step>> {
    let mut words: Vec<Vec<usize>> = Vec::new();
    for a in 0..4 { words.push(vec![a]); for b in 0..4 { words.push(vec![a, b]); for c in 0..4 { words.push(vec![a, b, c]); } } }
    for a in 0..4 { for b in 0..4 { for c in 0..4 { for d in 0..4 { let w = [a, b, c, d]; let mut seen = [false; 4]; for k in w { seen[k] = true; } if seen.iter().all(|x| *x) { words.push(w.to_vec()); } } } } }
    let mut out = Vec::new();
    for &off in offs { for w in &words { out.push(w.iter().enumerate().map(|(i, &kind)| Step { kind, a: pool[(i + off + kind) % pool.len()] }).collect()); } }
    out
}
fn sec_seq<const N: usize, M: RotM<X, N>>(s: &Section, ms: &[A<X, N>], axes: &[Axis], seqs: &[Vec<Step>]) {
    let (site_ip, site_val) = (format!("{}::rotate_* sequence", M::NAME), format!("{}::rotated_* chain", M::NAME));
    for m in ms { for ax in axes { let given = ax.given(); for seq in seqs {
        let inp = || json!({"self": jmat(m), "steps_in_call_order": step_json(seq, ax)});
        let w: u64 = seq.iter().map(|st| st.a.weight()).sum::<u64>() + ax.weight();
        // reference: each call pre-multiplies
        let mut want = *m; let mut prefixes = Vec::new();
        for st in seq { let (c, sn) = st.a.cs(); want = mmul(&embed::<X, 3, N>(&rodrigues(&step_unit(st, ax), c, sn)), &want); prefixes.push(want); }
        let rev = { let mut r = *m; for st in seq.iter().rev() { let (c, sn) = st.a.cs(); r = mmul(&embed::<X, 3, N>(&rodrigues(&step_unit(st, ax), c, sn)), &r); } r };
        s.eval(want != rev); s.class(if want != rev { "sequence-order-matters" } else { "sequence-order-irrelevant" }); s.class(match seq.len() { 1 => "length-1", 2 => "length-2", 3 => "length-3", _ => "length-4" });
        let r = s.call(&site_ip, inp, || {
            let mut ip = M::build(m); let mut val = M::build(m); let mut pre = Vec::new();
            for st in seq {
                if st.kind < 3 { ip.t_rotate(st.kind, st.a.tok()); val = val.t_rotated(st.kind, st.a.tok()); } else { ip.t_rotate3d(st.a.tok(), given); val = val.t_rotated3d(st.a.tok(), given); }
                pre.push(ip.decode());
            }
            (pre, val.decode())
        });
        if let Some((pre, val)) = r {
            if let Some(k) = (0..seq.len()).find(|&k| pre[k] != prefixes[k]) { s.violation_w(&site_ip, "state-after-in-place-call-sequence-is-not-the-reference-product", json!({"input": inp(), "first_wrong_after_step": k + 1, "got": jmat(&pre[k]), "want": jmat(&prefixes[k])}), w); }
            if val != want { s.violation_w(&site_val, "chained-by-value-sequence-is-not-the-reference-product", json!({"input": inp(), "got": jmat(&val), "want": jmat(&want)}), w); }
            if want != rev && seq.len() == 4 && s.wants_sample() { s.sample(json!({"call": site_ip, "input": inp(), "real_final_state": jmat(pre.last().unwrap())})); }
        }
    } } }
}

// ---- C. exact tier: extreme axis lengths -----------------------------------------------------------
fn sec_extreme_exact<const N: usize, M: RotM<X, N>>(s: &Section, axes: &[Axis], lams: &[(X, &'static str)], angs: &[Ang]) {
    let site = format!("{}::rotation_3d", M::NAME);
    for ax0 in axes { for &(lam, cls) in lams { let ax = Axis { unit: ax0.unit, lam }; let given = ax.given(); for &a in angs {
        let (c, sn) = a.cs(); let th = a.tok();
        let want: A<X, N> = embed::<X, 3, N>(&rodrigues(&ax.unit, c, sn));
        let inp = || json!({"angle": a.json(), "axis": ax.json()});
        s.eval(!a.trivial()); s.class(cls);
        if let Some(g) = s.call(&site, inp, || M::t_rot3d(th, given).decode()) {
            if g != want { s.violation_w(&site, "not-rodrigues-at-extreme-axis-length", json!({"input": inp(), "got": jmat(&g), "want": jmat(&want)}), a.weight() + ax0.weight()); }
        }
    } } }
}

// ---- D. float tier extensions ----------------------------------------------------------------------
trait FQ2<T: Copy>: Sized + Copy {
    fn q_axis(i: usize, a: T) -> Self;
    fn q_rotated(self, i: usize, a: T) -> Self;
    fn q_rotate(&mut self, i: usize, a: T);
    fn q_rotated3d(self, a: T, ax: [T; 3]) -> Self;
    fn q_rotate3d(&mut self, a: T, ax: [T; 3]);
}
macro_rules! fq2 { ($($T:ty),*) => { $( impl FQ2<$T> for Quaternion<$T> {
    fn q_axis(i: usize, a: $T) -> Self { match i { 0 => Quaternion::rotation_x(a), 1 => Quaternion::rotation_y(a), _ => Quaternion::rotation_z(a) } }
    fn q_rotated(self, i: usize, a: $T) -> Self { match i { 0 => self.rotated_x(a), 1 => self.rotated_y(a), _ => self.rotated_z(a) } }
    fn q_rotate(&mut self, i: usize, a: $T) { match i { 0 => self.rotate_x(a), 1 => self.rotate_y(a), _ => self.rotate_z(a) } }
    fn q_rotated3d(self, a: $T, ax: [$T; 3]) -> Self { self.rotated_3d(a, v3(&ax)) }
    fn q_rotate3d(&mut self, a: $T, ax: [$T; 3]) { self.rotate_3d(a, v3(&ax)) }
} )* } }
fq2!(f64, f32);

fn unitf(a: &[f64; 3]) -> [f64; 3] { let n = (a[0] * a[0] + a[1] * a[1] + a[2] * a[2]).sqrt(); [a[0] / n, a[1] / n, a[2] / n] }
fn q2m_f(q: &[f64; 4]) -> A<f64, 3> { ref_q2m::<f64>(q) }
fn dmat<T: Fl, const N: usize>(g: &A<T, N>) -> Vec<Vec<f64>> { g.iter().map(|r| r.iter().map(|v| v.d()).collect()).collect() }
/// entrywise |got - want| <= 256 eps * scale[j]  (scale per column: sum of |self| down the column, the largest partial sum of the product)
fn fcmpn<T: Fl, const N: usize>(s: &Section, site: &str, class: &str, got: &A<T, N>, want: &A<f64, N>, scale: &[f64; N], inp: &dyn Fn() -> Value) {
    s.eval(true);
    let mut ok = true; let mut worst = 0.0f64;
    for i in 0..N { for j in 0..N { if !got[i][j].close(want[i][j], scale[j]) { ok = false; } worst = worst.max((got[i][j].d() - want[i][j]).abs()); } }
    if !ok { s.violation(&format!("{}<{}>", site, T::NAME), class, json!({"input": inp(), "worst_entry_error": worst, "got": dmat(got), "want": want.iter().map(|r| r.to_vec()).collect::<Vec<_>>()})); }
}
/// rotation_3d, from(Quaternion::rotation_3d) and the quaternion's own fields for an axis handed over in T, against the f64 unit axis `k`
fn fext_3d<T: Fl, const N: usize, M: RotM<T, N>>(s: &Section, class: &str, af: T, c: f64, sn: f64, axf: [T; 3], k: &[f64; 3], inp: &dyn Fn() -> Value) where Quaternion<T>: FQ<T> {
    let want = rodrigues_f(k, c, sn);
    fcmp::<T, N>(s, &format!("{}::rotation_3d", M::NAME), class, &M::t_rot3d(af, axf).decode(), &want, inp);
    fcmp::<T, N>(s, &format!("{}::from(Quaternion::rotation_3d)", M::NAME), class, &M::t_from_quat(<Quaternion<T> as FQ<T>>::rot3d(af, axf)).decode(), &want, inp);
}
fn fext_quat_fields<T: Fl>(s: &Section, site: &str, class: &str, g: [T; 4], half: f64, k: &[f64; 3], inp: &dyn Fn() -> Value) {
    s.eval(true);
    let (sh, ch) = (half.sin(), half.cos());
    let want = [k[0] * sh, k[1] * sh, k[2] * sh, ch];
    let dot: f64 = (0..4).map(|i| g[i].d() * want[i]).sum();
    let sg = if dot < 0.0 { -1.0 } else { 1.0 };
    if !(0..4).all(|i| g[i].close(sg * want[i], 1.0)) { s.violation(&format!("{}<{}>", site, T::NAME), class, json!({"input": inp(), "got_xyzw": g.iter().map(|v| v.d()).collect::<Vec<_>>(), "want_xyzw_up_to_sign": want})); }
}
/// m.rotated_*(a) and m.rotate_*(a) on floats against the f64 product Rodrigues * m
fn fext_chain<T: Fl, const N: usize, M: RotM<T, N>>(s: &Section, m: &A<f64, N>, af: T, c: f64, sn: f64, axf: [T; 3], k: &[f64; 3], ang64: f64) {
    let mt: A<T, N> = { let mut o = [[T::f(0.0); N]; N]; for i in 0..N { for j in 0..N { o[i][j] = T::f(m[i][j]); } } o };
    let real_m = M::build(&mt);
    let mut scale = [1.0f64; N]; for j in 0..N { scale[j] = (0..N).map(|i| m[i][j].abs()).sum::<f64>().max(1.0); }
    let inp = || json!({"angle": ang64, "self": m.iter().map(|r| r.to_vec()).collect::<Vec<_>>()});
    for i in 0..3 {
        let mut e = [0.0; 3]; e[i] = 1.0;
        let want = mmul(&embed::<f64, 3, N>(&rodrigues_f(&e, c, sn)), m);
        let mut ip = real_m; ip.t_rotate(i, af);
        fcmpn::<T, N>(s, &format!("{}::rotated_{}", M::NAME, XYZ[i]), "not-rotation-times-self-within-error-bound", &real_m.t_rotated(i, af).decode(), &want, &scale, &inp);
        fcmpn::<T, N>(s, &format!("{}::rotate_{}", M::NAME, XYZ[i]), "not-rotation-times-self-within-error-bound", &ip.decode(), &want, &scale, &inp);
    }
    let want = mmul(&embed::<f64, 3, N>(&rodrigues_f(k, c, sn)), m);
    let inp = || json!({"angle": ang64, "axis": axf.iter().map(|v| v.d()).collect::<Vec<_>>(), "self": m.iter().map(|r| r.to_vec()).collect::<Vec<_>>()});
    let mut ip = real_m; ip.t_rotate3d(af, axf);
    fcmpn::<T, N>(s, &format!("{}::rotated_3d", M::NAME), "not-rotation-times-self-within-error-bound", &real_m.t_rotated3d(af, axf).decode(), &want, &scale, &inp);
    fcmpn::<T, N>(s, &format!("{}::rotate_3d", M::NAME), "not-rotation-times-self-within-error-bound", &ip.decode(), &want, &scale, &inp);
}

macro_rules! float_ext { ($s:expr, $T:ty, $big:expr, $mid:expr, $huge:expr, $vbig:expr) => {{
    let s: &Section = $s;
    let th = s.thorough();
    type T = $T;
    let f = |v: f64| <T as Fl>::f(v);
    s.require_classes(&["axis*2^+big", "axis*2^-big", "axis*2^+odd", "axis*2^-odd", "angle=+-0", "angle=+-pi", "angle=+-pi/2", "angle-tiny", "angle-large", "axis-irregular", "scalar-broadcast-axis", "vec2*2^+big", "vec2*2^-big"]);
    // ---- (a) extreme axis magnitudes: the result does not depend on the axis length --------------------
    let mut exps: Vec<(i32, &str)> = vec![($big, "axis*2^+big"), (-$big, "axis*2^-big"), ($mid, "axis*2^+odd"), (-(2 * $mid + 5), "axis*2^-odd")];
    if th { exps.push(($huge, "axis*2^+big")); exps.push((-$huge, "axis*2^-big")); exps.push((1, "axis*2^+odd")); exps.push((-1, "axis*2^-odd")); }
    let r = if th { 3i32 } else { 2 };
    let mut axes: Vec<[f64; 3]> = Vec::new();
    for x in -r..=r { for y in -r..=r { for z in -r..=r { if (x, y, z) != (0, 0, 0) { axes.push([x as f64, y as f64, z as f64]); } } } }
    let n_grid = axes.len();
    // irregular axes: components of very different size, non-dyadic components (rounded to T before use: the oracle sees the rounded value)
    for a in [[1.0, 0.0009765625, -0.5], [0.3, -0.7, 0.2], [0.001, 1.0, -0.001], [-1e-4, 3e-5, 1.0], [1.23, -4.56, 7.89], [1.0, 1.0, 1e-6]] { axes.push(a); }
    let pi = f(std::f64::consts::PI).d();
    let angs_a: Vec<f64> = if th { (0..96).map(|i| -9.4 + i as f64 * 0.19791).chain([0.0, pi, -pi, pi / 2.0, 1e-9, 1000.0]).collect() } else { vec![0.0, 0.5, -0.5, 1.0, 2.0, 3.0, -3.0, pi, -pi, pi / 2.0, -pi / 2.0, 4.0, 6.0, -6.2, 9.313225746154785e-10, 100.0] };
    s.meta("axis_scale_exponents", json!(exps.iter().map(|e| e.0).collect::<Vec<_>>())); s.meta("axes", json!(axes.len())); s.meta("angles_for_extreme_axes", json!(angs_a.len()));
    for &(e, cls) in &exps { let sc = 2f64.powi(e); for (ai, ax) in axes.iter().enumerate() {
        let axt = [f(ax[0]), f(ax[1]), f(ax[2])];
        let k = unitf(&[axt[0].d(), axt[1].d(), axt[2].d()]);
        let axf = [f(axt[0].d() * sc), f(axt[1].d() * sc), f(axt[2].d() * sc)];
        for &an in &angs_a {
            let af = f(an); let ang64 = af.d(); let (c, sn) = (ang64.cos(), ang64.sin());
            s.class(cls); if ai >= n_grid { s.class("axis-irregular"); }
            let inp = || json!({"angle": ang64, "axis_unscaled": ax, "axis_scale": format!("2^{}", e), "axis_given": axf.iter().map(|v| v.d()).collect::<Vec<_>>()});
            let c1 = "not-rodrigues-within-error-bound-at-extreme-axis-length";
            fext_3d::<T, 3, rm::Mat3<T>>(s, c1, af, c, sn, axf, &k, &inp); fext_3d::<T, 3, cm::Mat3<T>>(s, c1, af, c, sn, axf, &k, &inp);
            fext_3d::<T, 4, rm::Mat4<T>>(s, c1, af, c, sn, axf, &k, &inp); fext_3d::<T, 4, cm::Mat4<T>>(s, c1, af, c, sn, axf, &k, &inp);
            fext_quat_fields::<T>(s, "Quaternion::rotation_3d", "not-half-angle-axis-form-within-error-bound-at-extreme-axis-length", dq(Quaternion::<T>::rotation_3d(af, v3(&axf))), ang64 / 2.0, &k, &inp);
            if s.wants_sample() && e == -$big && ai == 77 && an == 2.0 { s.sample(json!({"call": "Mat3<row>::rotation_3d", "input": inp(), "real_output": dmat(&rm::Mat3::<T>::rotation_3d(af, v3(&axf)).decode())})); }
        }
    } }
    // ---- (b) special and large angles (axis length ordinary) --------------------------------------------
    let tiny = 9.313225746154785e-10; // 2^-30
    let mut angs_b: Vec<(f64, &str)> = vec![(0.0, "angle=+-0"), (-0.0, "angle=+-0"), (pi, "angle=+-pi"), (-pi, "angle=+-pi"), (pi / 2.0, "angle=+-pi/2"), (-pi / 2.0, "angle=+-pi/2"), (2.0 * pi, "angle=+-pi"), (tiny, "angle-tiny"), (-tiny, "angle-tiny"), (tiny * tiny, "angle-tiny"),
        (1000.0, "angle-large"), (-1000.0, "angle-large"), (12345.678, "angle-large"), (-54321.0, "angle-large"), (1e6, "angle-large"), (-1e6, "angle-large"), (1048576.5, "angle-large"), (1e8, "angle-large")];
    if th { for i in 0..400 { angs_b.push((7.0 + (i as f64) * (i as f64) * 61.803, "angle-large")); angs_b.push((-(7.0 + (i as f64) * (i as f64) * 61.803), "angle-large")); } for i in 1..60 { angs_b.push((2f64.powi(-i), "angle-tiny")); } }
    s.meta("special_and_large_angles", json!(angs_b.len()));
    let m3f: A<f64, 3> = [[1.0, 2.0, -3.0], [0.5, -4.0, 6.0], [7.0, 8.0, 10.25]];
    let m4f: A<f64, 4> = [[1.0, 2.0, -3.0, 4.0], [0.5, -4.0, 6.0, 8.0], [7.0, 8.0, 10.25, -11.0], [13.0, -0.25, 14.0, 16.0]];
    let m2f: A<f64, 2> = [[1.0, -2.0], [3.5, 5.0]];
    let thin_axes: Vec<[f64; 3]> = axes.iter().enumerate().filter(|(i, _)| i % 7 == 0 || *i >= n_grid).map(|(_, a)| *a).collect();
    let q0f: [f64; 4] = [0.5, -0.5, 0.5, 0.5];
    let chain_angles = |v: &mut Vec<(f64, &'static str)>| { for i in 0..(if th { 256 } else { 24 }) { v.push((-6.2 + (i as f64) * (if th { 12.4 / 256.0 } else { 0.53 }), "angle-ordinary")); } };
    chain_angles(&mut angs_b);
    for &(an, cls) in &angs_b {
        let af = f(an); let ang64 = af.d(); let (c, sn) = (ang64.cos(), ang64.sin());
        s.class(cls);
        float_xyz::<T, 3, rm::Mat3<T>>(s, af, c, sn, ang64); float_xyz::<T, 3, cm::Mat3<T>>(s, af, c, sn, ang64);
        float_xyz::<T, 4, rm::Mat4<T>>(s, af, c, sn, ang64); float_xyz::<T, 4, cm::Mat4<T>>(s, af, c, sn, ang64);
        // Mat2, Vec2
        let m2 = [[c, -sn], [sn, c]];
        for (name, g) in [("Mat2<row>::rotation_z", rm::Mat2::<T>::rotation_z(af).decode()), ("Mat2<col>::rotation_z", cm::Mat2::<T>::rotation_z(af).decode())] {
            s.eval(true);
            for i in 0..2 { for j in 0..2 { if !g[i][j].close(m2[i][j], 1.0) { s.violation(&format!("{}<{}>", name, <T as Fl>::NAME), "not-rodrigues-within-error-bound", json!({"angle": ang64, "entry": [i, j], "got": g[i][j].d(), "want": m2[i][j]})); } } }
        }
        let want2 = mmul(&m2, &m2f); let sc2 = [4.5, 7.0];
        for lay in 0..2 {
            let (nm, ret, ip) = if lay == 0 { let m = rm::Mat2::<T>::build(&[[f(1.0), f(-2.0)], [f(3.5), f(5.0)]]); let mut ip = m; ip.rotate_z(af); ("Mat2<row>", m.rotated_z(af).decode(), ip.decode()) }
                                else { let m = cm::Mat2::<T>::build(&[[f(1.0), f(-2.0)], [f(3.5), f(5.0)]]); let mut ip = m; ip.rotate_z(af); ("Mat2<col>", m.rotated_z(af).decode(), ip.decode()) };
            let inp = || json!({"angle": ang64, "self": [[1.0, -2.0], [3.5, 5.0]]});
            fcmpn::<T, 2>(s, &format!("{}::rotated_z", nm), "not-rotation-times-self-within-error-bound", &ret, &want2, &sc2, &inp);
            fcmpn::<T, 2>(s, &format!("{}::rotate_z", nm), "not-rotation-times-self-within-error-bound", &ip, &want2, &sc2, &inp);
        }
        for v in [[1.0f64, 0.0], [0.0, 1.0], [3.0, -4.0], [-0.5, 100.0], [-7.25, -1.0], [0.0, 0.0]] {
            s.eval(true);
            let vv = Vec2 { x: f(v[0]), y: f(v[1]) }; let r = vv.rotated_z(af); let mut ip = vv; ip.rotate_z(af);
            let want = [c * v[0] - sn * v[1], sn * v[0] + c * v[1]];
            let scale = v[0].abs() + v[1].abs();
            if !r.x.close(want[0], scale) || !r.y.close(want[1], scale) { s.violation(&format!("Vec2::rotated_z<{}>", <T as Fl>::NAME), "not-ccw-rotation-within-error-bound", json!({"angle": ang64, "v": v, "got": [r.x.d(), r.y.d()], "want": want})); }
            if !ip.x.close(want[0], scale) || !ip.y.close(want[1], scale) { s.violation(&format!("Vec2::rotate_z<{}>", <T as Fl>::NAME), "not-ccw-rotation-within-error-bound", json!({"angle": ang64, "v": v, "got": [ip.x.d(), ip.y.d()], "want": want})); }
        }
        // quaternion x/y/z builders: fields, their matrix through the real conversion, chained and in-place forms
        let m0 = q2m_f(&q0f);
        for i in 0..3 {
            let mut e = [0.0; 3]; e[i] = 1.0;
            let inp = || json!({"angle": ang64});
            let qx = <Quaternion<T> as FQ2<T>>::q_axis(i, af);
            fext_quat_fields::<T>(s, &format!("Quaternion::rotation_{}", XYZ[i]), "not-half-angle-axis-form-within-error-bound", dq(qx), ang64 / 2.0, &e, &inp);
            let want = rodrigues_f(&e, c, sn);
            fcmp::<T, 3>(s, &format!("Mat3<row>::from(Quaternion::rotation_{})", XYZ[i]), "not-rodrigues-within-error-bound", &rm::Mat3::<T>::from(qx).decode(), &want, &inp);
            fcmp::<T, 3>(s, &format!("Mat3<col>::from(Quaternion::rotation_{})", XYZ[i]), "not-rodrigues-within-error-bound", &cm::Mat3::<T>::from(qx).decode(), &want, &inp);
            fcmp::<T, 4>(s, &format!("Mat4<row>::from(Quaternion::rotation_{})", XYZ[i]), "not-rodrigues-within-error-bound", &rm::Mat4::<T>::from(qx).decode(), &want, &inp);
            fcmp::<T, 4>(s, &format!("Mat4<col>::from(Quaternion::rotation_{})", XYZ[i]), "not-rodrigues-within-error-bound", &cm::Mat4::<T>::from(qx).decode(), &want, &inp);
            // q0.rotated_i(a): the textbook matrix of the resulting fields (f64) == Rodrigues * matrix(q0)
            let q0t: Quaternion<T> = Quaternion { x: f(q0f[0]), y: f(q0f[1]), z: f(q0f[2]), w: f(q0f[3]) };
            let mut ip = q0t; <Quaternion<T> as FQ2<T>>::q_rotate(&mut ip, i, af);
            let wantm = mmul(&want, &m0);
            let inp = || json!({"angle": ang64, "self_xyzw": q0f});
            for (nm, g) in [("rotated", dq(<Quaternion<T> as FQ2<T>>::q_rotated(q0t, i, af))), ("rotate", dq(ip))] {
                let gm = q2m_f(&[g[0].d(), g[1].d(), g[2].d(), g[3].d()]);
                s.eval(true);
                // entries of the textbook matrix are 1 - 2(..) with |fields| <= 1: largest intermediate 2, error of the fields <= 16 eps each enters at most 4 products doubled
                if !(0..3).all(|r| (0..3).all(|cc| <T as Fl>::f(gm[r][cc]).close(wantm[r][cc], 2.0))) { s.violation(&format!("Quaternion::{}_{}<{}>", nm, XYZ[i], <T as Fl>::NAME), "not-rotation-times-self-within-error-bound", json!({"input": inp(), "got_xyzw": g.iter().map(|v| v.d()).collect::<Vec<_>>(), "its_matrix": gm.iter().map(|r| r.to_vec()).collect::<Vec<_>>(), "want_matrix": wantm.iter().map(|r| r.to_vec()).collect::<Vec<_>>()})); }
            }
        }
        // arbitrary axes: builders at the special angles, chained / in-place forms
        for ax in &thin_axes {
            let axt = [f(ax[0]), f(ax[1]), f(ax[2])];
            let k = unitf(&[axt[0].d(), axt[1].d(), axt[2].d()]);
            let inp = || json!({"angle": ang64, "axis": ax});
            let c1 = "not-rodrigues-within-error-bound";
            if cls != "angle-ordinary" {
                fext_3d::<T, 3, rm::Mat3<T>>(s, c1, af, c, sn, axt, &k, &inp); fext_3d::<T, 3, cm::Mat3<T>>(s, c1, af, c, sn, axt, &k, &inp);
                fext_3d::<T, 4, rm::Mat4<T>>(s, c1, af, c, sn, axt, &k, &inp); fext_3d::<T, 4, cm::Mat4<T>>(s, c1, af, c, sn, axt, &k, &inp);
                fext_quat_fields::<T>(s, "Quaternion::rotation_3d", "not-half-angle-axis-form-within-error-bound", dq(Quaternion::<T>::rotation_3d(af, v3(&axt))), ang64 / 2.0, &k, &inp);
            }
            fext_chain::<T, 3, rm::Mat3<T>>(s, &m3f, af, c, sn, axt, &k, ang64); fext_chain::<T, 3, cm::Mat3<T>>(s, &m3f, af, c, sn, axt, &k, ang64);
            fext_chain::<T, 4, rm::Mat4<T>>(s, &m4f, af, c, sn, axt, &k, ang64); fext_chain::<T, 4, cm::Mat4<T>>(s, &m4f, af, c, sn, axt, &k, ang64);
            let q0t: Quaternion<T> = Quaternion { x: f(q0f[0]), y: f(q0f[1]), z: f(q0f[2]), w: f(q0f[3]) };
            let mut ip = q0t; <Quaternion<T> as FQ2<T>>::q_rotate3d(&mut ip, af, axt);
            let wantm = mmul(&rodrigues_f(&k, c, sn), &m0);
            for (nm, g) in [("rotated_3d", dq(<Quaternion<T> as FQ2<T>>::q_rotated3d(q0t, af, axt))), ("rotate_3d", dq(ip))] {
                let gm = q2m_f(&[g[0].d(), g[1].d(), g[2].d(), g[3].d()]);
                s.eval(true);
                if !(0..3).all(|r| (0..3).all(|cc| <T as Fl>::f(gm[r][cc]).close(wantm[r][cc], 2.0))) { s.violation(&format!("Quaternion::{}<{}>", nm, <T as Fl>::NAME), "not-rotation-times-self-within-error-bound", json!({"input": inp(), "self_xyzw": q0f, "got_xyzw": g.iter().map(|v| v.d()).collect::<Vec<_>>(), "want_matrix": wantm.iter().map(|r| r.to_vec()).collect::<Vec<_>>()})); }
            }
        }
        // a scalar broadcasts to the axis (t, t, t)
        if cls != "angle-ordinary" {
            s.class("scalar-broadcast-axis");
            let k = unitf(&[1.0, 1.0, 1.0]);
            let inp = || json!({"angle": ang64, "axis": "the scalar 2.5, i.e. (2.5, 2.5, 2.5)"});
            fcmp::<T, 3>(s, "Mat3<row>::rotation_3d(axis: T)", "not-rodrigues-within-error-bound", &rm::Mat3::<T>::rotation_3d(af, f(2.5)).decode(), &rodrigues_f(&k, c, sn), &inp);
            fcmp::<T, 4>(s, "Mat4<col>::rotation_3d(axis: T)", "not-rodrigues-within-error-bound", &cm::Mat4::<T>::rotation_3d(af, f(2.5)).decode(), &rodrigues_f(&k, c, sn), &inp);
            fext_quat_fields::<T>(s, "Quaternion::rotation_3d(axis: T)", "not-half-angle-axis-form-within-error-bound", dq(Quaternion::<T>::rotation_3d(af, f(2.5))), ang64 / 2.0, &k, &inp);
        }
    }
    // ---- (c) Vec2 at extreme magnitudes: the rotation is linear, so it scales exactly with 2^e ------------
    let vexps: Vec<(i32, &str)> = vec![($big, "vec2*2^+big"), (-$big, "vec2*2^-big"), ($vbig, "vec2*2^+big"), (-$vbig, "vec2*2^-big")];
    s.meta("vec2_scale_exponents", json!(vexps.iter().map(|e| e.0).collect::<Vec<_>>()));
    for &(e, cls) in &vexps { let sc = 2f64.powi(e);
        for &an in &angs_a { let af = f(an); let ang64 = af.d(); let (c, sn) = (ang64.cos(), ang64.sin());
            for v in [[1.0f64, 0.0], [0.0, 1.0], [3.0, -4.0], [-0.5, 100.0], [-7.25, -1.0], [1.0, 1.0]] {
                s.eval(true); s.class(cls);
                let vv = Vec2 { x: f(v[0] * sc), y: f(v[1] * sc) }; let r = vv.rotated_z(af); let mut ip = vv; ip.rotate_z(af);
                let want = [(c * v[0] - sn * v[1]) * sc, (sn * v[0] + c * v[1]) * sc];
                let scale = (v[0].abs() + v[1].abs()) * sc;
                // close() clamps the scale below at MIN_POSITIVE: compare the quotients instead
                let okv = |g: T, w: f64| { let gd = g.d(); !gd.is_nan() && (gd / sc - w / sc).abs() <= 256.0 * (<T>::EPSILON as f64) * (scale / sc) };
                if !okv(r.x, want[0]) || !okv(r.y, want[1]) { s.violation(&format!("Vec2::rotated_z<{}>", <T as Fl>::NAME), "not-ccw-rotation-within-error-bound-at-extreme-magnitude", json!({"angle": ang64, "v_unscaled": v, "scale": format!("2^{}", e), "got/scale": [r.x.d() / sc, r.y.d() / sc], "want/scale": [want[0] / sc, want[1] / sc]})); }
                if !okv(ip.x, want[0]) || !okv(ip.y, want[1]) { s.violation(&format!("Vec2::rotate_z<{}>", <T as Fl>::NAME), "not-ccw-rotation-within-error-bound-at-extreme-magnitude", json!({"angle": ang64, "v_unscaled": v, "scale": format!("2^{}", e), "got/scale": [ip.x.d() / sc, ip.y.d() / sc], "want/scale": [want[0] / sc, want[1] / sc]})); }
            }
        }
    }
}} }

// ==== additions of the second audit round (sections 15-19) ==========================================
// Slip categories closed here: value-dependent shortcuts (guards on tiny angles, on angles next to a
// quarter/half/full turn, on nearly-unit axes, on a homogeneous entry m33 = 1, on a quaternion with
// w = 1 or w = 0), numerically different rewrites that only lose accuracy next to such values
// (half angle through sin/(1+cos), cos through sqrt(1-sin^2)), in-place twins on states where a
// separate implementation shows (non-unit quaternions, projective / singular / diagonal matrices).

fn near_json(a: Ang) -> Value { json!({"theta": format!("{}*arg(z), z = rational circle point with parameter t={}/{}", a.k, a.tn, a.td), "radians~": a.real()}) }

/// builders, chained and in-place forms at angles next to 0, a quarter turn and a half turn (exact)
fn sec_near<const N: usize, M: RotM<X, N>>(s: &Section, angs: &[(Ang, &'static str)], axes: &[Axis], m: &A<X, N>) {
    let real_m = M::build(m);
    for &(a, cls) in angs {
        let (c, sn) = a.cs(); let th = a.tok();
        for kind in 0..(3 + axes.len()) {
            let (unit, given, name) = if kind < 3 { (e3(kind), e3(kind), XYZ[kind].to_string()) } else { (axes[kind - 3].unit, axes[kind - 3].given(), "3d".to_string()) };
            let inp = || json!({"angle": near_json(a), "axis": jxs(&given), "self": jmat(m)});
            s.eval(true); s.class(cls);
            let Some((rot, pre)) = s.call("reference product", inp, || { let r: A<X, N> = embed::<X, 3, N>(&rodrigues(&unit, c, sn)); (r, mmul(&r, m)) }) else { continue };
            let site = format!("{}::rotation_{}", M::NAME, name);
            let r = s.call(&site, inp, || {
                let mut ip = real_m;
                if kind < 3 { ip.t_rotate(kind, th); (M::t_rot(kind, th).decode(), real_m.t_rotated(kind, th).decode(), ip.decode()) }
                else { ip.t_rotate3d(th, given); (M::t_rot3d(th, given).decode(), real_m.t_rotated3d(th, given).decode(), ip.decode()) }
            });
            if let Some((g, ret, ip)) = r {
                if g != rot { s.violation_w(&site, "not-rodrigues-next-to-a-special-angle", json!({"input": inp(), "got": jmat(&g), "want": jmat(&rot)}), 1); }
                if ret != pre { s.violation_w(&format!("{}::rotated_{}", M::NAME, name), "not-rotation-times-self-next-to-a-special-angle", json!({"input": inp(), "got": jmat(&ret), "want": jmat(&pre)}), 1); }
                if ip != ret { s.violation_w(&format!("{}::rotate_{}", M::NAME, name), "in-place-form-differs-next-to-a-special-angle", json!({"input": inp(), "rotate": jmat(&ip), "rotated": jmat(&ret)}), 1); }
                if kind == 3 && N == 3 && s.wants_sample() { s.sample(json!({"call": site, "input": inp(), "real_output": jmat(&g)})); }
            }
        }
    }
}
fn sec_near2<M: RotM2<X>>(s: &Section, angs: &[(Ang, &'static str)], m: &A<X, 2>) {
    let real_m = M::build(m);
    for &(a, cls) in angs {
        let (c, sn) = a.cs(); let th = a.tok();
        let rot: A<X, 2> = [[c, -sn], [sn, c]]; let pre = mmul(&rot, m);
        let inp = || json!({"angle": near_json(a), "self": jmat(m)});
        s.eval(true); s.class(cls);
        let site = format!("{}::rotation_z", M::NAME);
        if let Some((g, ret, ip)) = s.call(&site, inp, || { let mut ip = real_m; ip.t_rotate_z(th); (M::t_rot_z(th).decode(), real_m.t_rotated_z(th).decode(), ip.decode()) }) {
            if g != rot { s.violation_w(&site, "not-rodrigues-next-to-a-special-angle", json!({"input": inp(), "got": jmat(&g), "want": jmat(&rot)}), 1); }
            if ret != pre { s.violation_w(&format!("{}::rotated_z", M::NAME), "not-rotation-times-self-next-to-a-special-angle", json!({"input": inp(), "got": jmat(&ret), "want": jmat(&pre)}), 1); }
            if ip != ret { s.violation_w(&format!("{}::rotate_z", M::NAME), "in-place-form-differs-next-to-a-special-angle", json!({"input": inp(), "rotate": jmat(&ip), "rotated": jmat(&ret)}), 1); }
        }
    }
}

/// rotation_3d, rotated_3d, rotate_3d, Mat::from(Quaternion::rotation_3d) for axes of length 1 +- 2^-j (exact)
fn sec_nearly_unit<const N: usize, M: RotM<X, N>>(s: &Section, units: &[Axis], lams: &[(X, &'static str)], angs: &[Ang], m: &A<X, N>) {
    let real_m = M::build(m);
    let site = format!("{}::rotation_3d", M::NAME);
    for ax0 in units { for &(lam, cls) in lams { let ax = Axis { unit: ax0.unit, lam }; let given = ax.given(); for &a in angs {
        let (c, sn) = a.cs(); let th = a.tok();
        let inp = || json!({"angle": a.json(), "axis": ax.json(), "self": jmat(m)});
        let w = a.weight() + ax0.weight();
        s.eval(!a.trivial()); s.class(cls);
        let Some((rot, pre)) = s.call("reference product", inp, || { let r: A<X, N> = embed::<X, 3, N>(&rodrigues(&ax.unit, c, sn)); (r, mmul(&r, m)) }) else { continue };
        let r = s.call(&site, inp, || { let mut ip = real_m; ip.t_rotate3d(th, given); (M::t_rot3d(th, given).decode(), real_m.t_rotated3d(th, given).decode(), ip.decode(), M::t_from_quat(Quaternion::rotation_3d(th, v3(&given))).decode()) });
        if let Some((g, ret, ip, viaq)) = r {
            if g != rot { s.violation_w(&site, "not-rodrigues-at-nearly-unit-axis-length", json!({"input": inp(), "got": jmat(&g), "want": jmat(&rot)}), w); }
            if ret != pre { s.violation_w(&format!("{}::rotated_3d", M::NAME), "not-rotation-times-self-at-nearly-unit-axis-length", json!({"input": inp(), "got": jmat(&ret), "want": jmat(&pre)}), w); }
            if ip != ret { s.violation_w(&format!("{}::rotate_3d", M::NAME), "in-place-form-differs-at-nearly-unit-axis-length", json!({"input": inp(), "rotate": jmat(&ip), "rotated": jmat(&ret)}), w); }
            if viaq != rot { s.violation_w(&format!("{}::from(Quaternion::rotation_3d)", M::NAME), "not-rodrigues-at-nearly-unit-axis-length", json!({"input": inp(), "got": jmat(&viaq), "want": jmat(&rot)}), w); }
            if N == 4 && !a.trivial() && !ax.coordinate() && s.wants_sample() { s.sample(json!({"call": site, "input": inp(), "real_output": jmat(&g)})); }
        }
    } } }
}

/// a and b are the same point of projective space (b != 0): a = mu * b for some scalar mu != 0
fn proportional(a: &[X; 4], b: &[X; 4]) -> bool {
    if a.iter().all(|v| *v == qi(0)) { return false; }
    for i in 0..4 { for j in (i + 1)..4 { if a[i] * b[j] != a[j] * b[i] { return false; } } }
    true
}
fn ham_f(p: &[f64; 4], q: &[f64; 4]) -> [f64; 4] {
    let (pv, qv) = ([p[0], p[1], p[2]], [q[0], q[1], q[2]]);
    let c = cross3(&pv, &qv);
    [p[3] * q[0] + q[3] * p[0] + c[0], p[3] * q[1] + q[3] * p[1] + c[1], p[3] * q[2] + q[3] * p[2] + c[2], p[3] * q[3] - dotn(&pv, &qv)]
}

// ---- float tier: entrywise forward bounds derived from the formula ---------------------------------
trait FlEps: Fl { const EPS: f64; }
impl FlEps for f64 { const EPS: f64 = f64::EPSILON; }
impl FlEps for f32 { const EPS: f64 = f32::EPSILON as f64; }
/// Entry (i,j), i != j, of a rotation about the unit axis k is k_i k_j (1-cos) -+ k_m sin.  With u = eps/2: every component of the
/// normalised axis carries <= 3.5u relative error (three products and two additions under a square root, one division), sin/cos <= 2u,
/// 1-cos an absolute error <= 3u; so the first term carries <= 21u |k_i k_j| and the second <= 7.5u |k_m sin|, the final addition <= u of
/// their sum: |error| <= 11 eps |k_i k_j| + 4 eps |k_m sin| (the quaternion path 2xy -+ 2zw stays below the same bound).  The f64 oracle has
/// the same bound, hence KS = 32 >= 2 * 11.  Diagonal entries: <= 8 eps each side, scale 1.  Entries that are structurally 0 or 1 (the
/// border of a Mat4; k_i k_j = 0 and k_m sin = 0) are exact by construction (0*t = 0, 0 +- 0 = 0) and are compared with ==.
const KS: f64 = 32.0;
/// quaternion fields (k sin(theta/2), cos(theta/2)): 3.5u (axis component) + 2u (sin) + u (product) = 3.25 eps relative per field and side
const KQ: f64 = 16.0;
/// Vec2: c x - s y with c, s within 2u and three roundings: <= 2 eps (|c x| + |s y|) per side
const KV: f64 = 8.0;
const C_STRUCT: &str = "outside-the-entrywise-forward-error-bound";
fn fstruct<T: FlEps, const N: usize>(s: &Section, site: &str, got: &A<T, N>, k: &[f64; 3], c: f64, sn: f64, colscale: &[f64; N], inp: &dyn Fn() -> Value) {
    s.eval(true);
    let want3 = rodrigues_f(k, c, sn);
    let nb = if N == 2 { 2 } else { 3 };
    let mut bad: Option<(usize, usize, f64, f64, f64)> = None;
    for i in 0..N { for j in 0..N {
        let g = got[i][j].d();
        let (w, tol) = if i < nb && j < nb {
            if i == j { (want3[i][j] * colscale[j], KS * T::EPS * colscale[j].abs()) } else { let m = 3 - i - j; (want3[i][j] * colscale[j], KS * T::EPS * ((k[i] * k[j]).abs() + (k[m] * sn).abs()) * colscale[j].abs()) }
        } else { (if i == j { colscale[j] } else { 0.0 }, 0.0) };
        if !((g - w).abs() <= tol) && bad.is_none() { bad = Some((i, j, g, w, tol)); }
    } }
    if let Some((i, j, g, w, tol)) = bad { s.violation(&format!("{}<{}>", site, T::NAME), C_STRUCT, json!({"input": inp(), "entry": [i, j], "got": g, "want": w, "allowed_error": tol, "got_matrix": dmat(got)})); }
}
fn fquat_rel<T: FlEps>(s: &Section, site: &str, g: [T; 4], half: f64, k: &[f64; 3], inp: &dyn Fn() -> Value) {
    s.eval(true);
    let (sh, ch) = (half.sin(), half.cos());
    let want = [k[0] * sh, k[1] * sh, k[2] * sh, ch];
    let im = (0..4).fold(0, |b, i| if want[i].abs() > want[b].abs() { i } else { b });
    let sg = if (g[im].d() < 0.0) != (want[im] < 0.0) { -1.0 } else { 1.0 };
    if !(0..4).all(|i| (g[i].d() - sg * want[i]).abs() <= KQ * T::EPS * want[i].abs()) { s.violation(&format!("{}<{}>", site, T::NAME), "fields-outside-the-relative-forward-error-bound", json!({"input": inp(), "got_xyzw": g.iter().map(|v| v.d()).collect::<Vec<_>>(), "want_xyzw_up_to_sign": want, "allowed_relative_error": KQ * T::EPS})); }
}
fn fvec2<T: FlEps>(s: &Section, site: &str, got: [T; 2], v: &[f64; 2], c: f64, sn: f64, inp: &dyn Fn() -> Value) {
    s.eval(true);
    let want = [c * v[0] - sn * v[1], sn * v[0] + c * v[1]];
    let tol = [KV * T::EPS * ((c * v[0]).abs() + (sn * v[1]).abs()), KV * T::EPS * ((sn * v[0]).abs() + (c * v[1]).abs())];
    if !((got[0].d() - want[0]).abs() <= tol[0]) || !((got[1].d() - want[1]).abs() <= tol[1]) { s.violation(&format!("{}<{}>", site, T::NAME), "outside-the-componentwise-forward-error-bound", json!({"input": inp(), "got": [got[0].d(), got[1].d()], "want": want, "allowed_error": tol})); }
}
/// builders of one matrix type: rotation_3d and from(Quaternion::rotation_3d) against the structured bound
fn fs_3d<T: FlEps, const N: usize, M: RotM<T, N>>(s: &Section, af: T, c: f64, sn: f64, axf: [T; 3], k: &[f64; 3], inp: &dyn Fn() -> Value) where Quaternion<T>: FQ<T> {
    let one = [1.0f64; N];
    fstruct::<T, N>(s, &format!("{}::rotation_3d", M::NAME), &M::t_rot3d(af, axf).decode(), k, c, sn, &one, inp);
    fstruct::<T, N>(s, &format!("{}::from(Quaternion::rotation_3d)", M::NAME), &M::t_from_quat(<Quaternion<T> as FQ<T>>::rot3d(af, axf)).decode(), k, c, sn, &one, inp);
}
/// rotation_x/y/z, from(Quaternion::rotation_x/y/z), and the chained / in-place forms on a diagonal self (each entry of the product is a
/// single product R_ij d_j, so the structured bound carries over, scaled by |d_j|)
fn fs_xyz<T: FlEps, const N: usize, M: RotM<T, N>>(s: &Section, af: T, c: f64, sn: f64, axf: [T; 3], kax: &[f64; 3], diag: &[f64; N], inp: &dyn Fn() -> Value) where Quaternion<T>: FQ2<T> {
    let one = [1.0f64; N];
    let mut d: A<T, N> = [[T::f(0.0); N]; N]; for i in 0..N { d[i][i] = T::f(diag[i]); }
    let real_d = M::build(&d);
    for i in 0..3 {
        let mut e = [0.0; 3]; e[i] = 1.0;
        fstruct::<T, N>(s, &format!("{}::rotation_{}", M::NAME, XYZ[i]), &M::t_rot(i, af).decode(), &e, c, sn, &one, inp);
        fstruct::<T, N>(s, &format!("{}::from(Quaternion::rotation_{})", M::NAME, XYZ[i]), &M::t_from_quat(<Quaternion<T> as FQ2<T>>::q_axis(i, af)).decode(), &e, c, sn, &one, inp);
        let mut ip = real_d; ip.t_rotate(i, af);
        fstruct::<T, N>(s, &format!("{}::rotated_{}(self: diagonal)", M::NAME, XYZ[i]), &real_d.t_rotated(i, af).decode(), &e, c, sn, diag, inp);
        fstruct::<T, N>(s, &format!("{}::rotate_{}(self: diagonal)", M::NAME, XYZ[i]), &ip.decode(), &e, c, sn, diag, inp);
    }
    let mut ip = real_d; ip.t_rotate3d(af, axf);
    fstruct::<T, N>(s, &format!("{}::rotated_3d(self: diagonal)", M::NAME), &real_d.t_rotated3d(af, axf).decode(), kax, c, sn, diag, inp);
    fstruct::<T, N>(s, &format!("{}::rotate_3d(self: diagonal)", M::NAME), &ip.decode(), kax, c, sn, diag, inp);
}

macro_rules! float_ext2 { ($s:expr, $T:ty, $jmax:expr, $tiny:expr, $lim:expr) => {{
    let s: &Section = $s;
    let th = s.thorough();
    type T = $T;
    let f = |v: f64| <T as Fl>::f(v);
    s.require_classes(&["angle-next-to-0", "angle-next-to-quarter-turn", "angle-next-to-half-turn", "angle-next-to-three-quarter-turn", "angle-next-to-full-turn", "angle-below-epsilon", "axis-nearly-unit", "axis-nearly-coordinate", "axis-at-range-limit", "self-m33=1-not-affine", "quaternion-self-non-unit", "quaternion-self-w=0", "quaternion-self-w=1-non-unit"]);
    let pi = std::f64::consts::PI;
    // ---- (e) angle ladders next to the special angles --------------------------------------------------
    let js: Vec<i32> = if th { (1..=$jmax).collect() } else { [2, 5, 9, 14, 18, 22, 26, 30, 35, 40, 45, 49, 51].iter().copied().filter(|j| *j <= $jmax).collect() };
    let mut angs: Vec<(f64, &'static str)> = Vec::new();
    for (ctr, cls) in [(0.0, "angle-next-to-0"), (pi / 2.0, "angle-next-to-quarter-turn"), (pi, "angle-next-to-half-turn"), (1.5 * pi, "angle-next-to-three-quarter-turn"), (2.0 * pi, "angle-next-to-full-turn")] {
        for sg in [1.0, -1.0] {
            let c0 = f(sg * ctr).d();
            if ctr != 0.0 { angs.push((c0, cls)); angs.push((c0 * (1.0 + <T>::EPSILON as f64), cls)); angs.push((c0 * (1.0 - <T>::EPSILON as f64), cls)); }
            for &j in &js { for d in [1.0, -1.0] { angs.push((c0 + d * 2f64.powi(-j), cls)); } }
        }
    }
    for j in $tiny { angs.push((2f64.powi(-j), "angle-below-epsilon")); angs.push((-(2f64.powi(-j)), "angle-below-epsilon")); }
    { let mut seen = std::collections::BTreeSet::new(); angs.retain(|(a, _)| seen.insert(f(*a).d().to_bits())); }
    let ax2: Vec<[f64; 3]> = vec![[1.0, 0.0, 0.0], [0.0, -1.0, 0.0], [0.0, 0.0, 2.0], [0.0, 3.0, 4.0], [-4.0, 0.0, 3.0], [1.0, 2.0, 2.0], [2.0, -3.0, 6.0], [1.0, 1.0, 1.0], [-1e-4, 3e-5, 1.0], [0.3, -0.7, 0.2]];
    let vs2: [[f64; 2]; 6] = [[1.0, 0.0], [0.0, 1.0], [3.0, -4.0], [-0.5, 100.0], [-7.25, -1.0], [0.0, 0.0]];
    s.meta("ladder_angles", json!(angs.len())); s.meta("ladder_axes", json!(ax2.len()));
    let (d2, d3, d4) = ([2.0f64, -3.0], [2.0f64, -3.0, 0.5], [2.0f64, -3.0, 0.5, 1.0]);
    for &(an, cls) in &angs {
        let af = f(an); let ang64 = af.d(); let (c, sn) = (ang64.cos(), ang64.sin());
        s.class(cls);
        for (xi, ax) in ax2.iter().enumerate() {
            let axt = [f(ax[0]), f(ax[1]), f(ax[2])];
            let k = unitf(&[axt[0].d(), axt[1].d(), axt[2].d()]);
            let inp = || json!({"angle": ang64, "axis": ax});
            fs_3d::<T, 3, rm::Mat3<T>>(s, af, c, sn, axt, &k, &inp); fs_3d::<T, 3, cm::Mat3<T>>(s, af, c, sn, axt, &k, &inp);
            fs_3d::<T, 4, rm::Mat4<T>>(s, af, c, sn, axt, &k, &inp); fs_3d::<T, 4, cm::Mat4<T>>(s, af, c, sn, axt, &k, &inp);
            fquat_rel::<T>(s, "Quaternion::rotation_3d", dq(Quaternion::<T>::rotation_3d(af, v3(&axt))), ang64 / 2.0, &k, &inp);
            // chained / in-place on the identity quaternion (struct literal): the product with (0,0,0,1) is exact
            let idq: Quaternion<T> = Quaternion { x: f(0.0), y: f(0.0), z: f(0.0), w: f(1.0) };
            let mut ip = idq; <Quaternion<T> as FQ2<T>>::q_rotate3d(&mut ip, af, axt);
            fquat_rel::<T>(s, "Quaternion::rotated_3d(self: identity)", dq(<Quaternion<T> as FQ2<T>>::q_rotated3d(idq, af, axt)), ang64 / 2.0, &k, &inp);
            fquat_rel::<T>(s, "Quaternion::rotate_3d(self: identity)", dq(ip), ang64 / 2.0, &k, &inp);
            if xi % 3 == 1 {
                fs_xyz::<T, 3, rm::Mat3<T>>(s, af, c, sn, axt, &k, &d3, &inp); fs_xyz::<T, 3, cm::Mat3<T>>(s, af, c, sn, axt, &k, &d3, &inp);
                fs_xyz::<T, 4, rm::Mat4<T>>(s, af, c, sn, axt, &k, &d4, &inp); fs_xyz::<T, 4, cm::Mat4<T>>(s, af, c, sn, axt, &k, &d4, &inp);
            }
        }
        let inp = || json!({"angle": ang64});
        for i in 0..3 {
            let mut e = [0.0; 3]; e[i] = 1.0;
            fquat_rel::<T>(s, &format!("Quaternion::rotation_{}", XYZ[i]), dq(<Quaternion<T> as FQ2<T>>::q_axis(i, af)), ang64 / 2.0, &e, &inp);
            let idq: Quaternion<T> = Quaternion { x: f(0.0), y: f(0.0), z: f(0.0), w: f(1.0) };
            let mut ip = idq; <Quaternion<T> as FQ2<T>>::q_rotate(&mut ip, i, af);
            fquat_rel::<T>(s, &format!("Quaternion::rotated_{}(self: identity)", XYZ[i]), dq(<Quaternion<T> as FQ2<T>>::q_rotated(idq, i, af)), ang64 / 2.0, &e, &inp);
            fquat_rel::<T>(s, &format!("Quaternion::rotate_{}(self: identity)", XYZ[i]), dq(ip), ang64 / 2.0, &e, &inp);
        }
        // Mat2: builder, chained and in-place on a diagonal self
        let ez = [0.0, 0.0, 1.0];
        for lay in 0..2 {
            let dm: A<T, 2> = [[f(d2[0]), f(0.0)], [f(0.0), f(d2[1])]];
            let (nm, g, ret, ip) = if lay == 0 { let m = rm::Mat2::<T>::build(&dm); let mut ip = m; ip.rotate_z(af); ("Mat2<row>", rm::Mat2::<T>::rotation_z(af).decode(), m.rotated_z(af).decode(), ip.decode()) }
                                   else { let m = cm::Mat2::<T>::build(&dm); let mut ip = m; ip.rotate_z(af); ("Mat2<col>", cm::Mat2::<T>::rotation_z(af).decode(), m.rotated_z(af).decode(), ip.decode()) };
            fstruct::<T, 2>(s, &format!("{}::rotation_z", nm), &g, &ez, c, sn, &[1.0, 1.0], &inp);
            fstruct::<T, 2>(s, &format!("{}::rotated_z(self: diagonal)", nm), &ret, &ez, c, sn, &d2, &inp);
            fstruct::<T, 2>(s, &format!("{}::rotate_z(self: diagonal)", nm), &ip, &ez, c, sn, &d2, &inp);
        }
        for v in &vs2 {
            let vv = Vec2 { x: f(v[0]), y: f(v[1]) }; let r = vv.rotated_z(af); let mut ip = vv; ip.rotate_z(af);
            let inp = || json!({"angle": ang64, "v": v});
            fvec2::<T>(s, "Vec2::rotated_z", [r.x, r.y], v, c, sn, &inp);
            fvec2::<T>(s, "Vec2::rotate_z", [ip.x, ip.y], v, c, sn, &inp);
        }
    }
    // ---- (f) nearly-unit axes: |axis| = 1 +- 2^-j ------------------------------------------------------
    let units: Vec<[f64; 3]> = vec![[1.0, 0.0, 0.0], [0.0, 0.0, -1.0], [0.6, 0.8, 0.0], [1.0 / 3.0, 2.0 / 3.0, 2.0 / 3.0], [2.0 / 7.0, -3.0 / 7.0, 6.0 / 7.0], [-4.0 / 9.0, 4.0 / 9.0, 7.0 / 9.0]];
    let djs: Vec<i32> = if th { (2..=$jmax).collect() } else { [3, 8, 12, 16, 20, 22, 24, 28, 32, 36, 40, 44, 48, 51].iter().copied().filter(|j| *j <= $jmax).collect() };
    let angs_f: Vec<f64> = if th { vec![0.5, -2.0, 3.0, pi / 2.0, -pi, 9.313225746154785e-10, 4.0, -0.01] } else { vec![0.5, -2.0, 3.0, pi / 2.0, 9.313225746154785e-10] };
    s.meta("nearly_unit_exponents", json!(djs)); s.meta("nearly_unit_directions", json!(units.len()));
    for u in &units { for &j in &djs { for sg in [1.0, -1.0] {
        let fac = 1.0 + sg * 2f64.powi(-j);
        let axf = [f(u[0] * fac), f(u[1] * fac), f(u[2] * fac)];
        let k = unitf(&[axf[0].d(), axf[1].d(), axf[2].d()]);
        for &an in &angs_f {
            let af = f(an); let ang64 = af.d(); let (c, sn) = (ang64.cos(), ang64.sin());
            s.class("axis-nearly-unit");
            let inp = || json!({"angle": ang64, "direction": u, "length": format!("1 {} 2^-{}", if sg > 0.0 { "+" } else { "-" }, j), "axis_given": axf.iter().map(|v| v.d()).collect::<Vec<_>>()});
            fs_3d::<T, 3, rm::Mat3<T>>(s, af, c, sn, axf, &k, &inp); fs_3d::<T, 3, cm::Mat3<T>>(s, af, c, sn, axf, &k, &inp);
            fs_3d::<T, 4, rm::Mat4<T>>(s, af, c, sn, axf, &k, &inp); fs_3d::<T, 4, cm::Mat4<T>>(s, af, c, sn, axf, &k, &inp);
            fquat_rel::<T>(s, "Quaternion::rotation_3d", dq(Quaternion::<T>::rotation_3d(af, v3(&axf))), ang64 / 2.0, &k, &inp);
        }
    } } }
    // nearly coordinate axes: one or two components 2^-j times the dominant one
    let ncj: Vec<i32> = if th { (4..=$jmax + 8).step_by(2).collect() } else { [10, 20, 27, 30, 40, 53, 58].iter().copied().filter(|j| *j <= $jmax + 8).collect() };
    for &j in &ncj { let t = 2f64.powi(-j); for ax in [[1.0, t, 0.0], [t, -1.0, t], [0.0, -t, 2.0], [-3.0 * t, 0.0, -1.0]] {
        let axf = [f(ax[0]), f(ax[1]), f(ax[2])];
        let k = unitf(&[axf[0].d(), axf[1].d(), axf[2].d()]);
        for &an in &angs_f {
            let af = f(an); let ang64 = af.d(); let (c, sn) = (ang64.cos(), ang64.sin());
            s.class("axis-nearly-coordinate");
            let inp = || json!({"angle": ang64, "axis": ax});
            fs_3d::<T, 3, rm::Mat3<T>>(s, af, c, sn, axf, &k, &inp); fs_3d::<T, 3, cm::Mat3<T>>(s, af, c, sn, axf, &k, &inp);
            fs_3d::<T, 4, rm::Mat4<T>>(s, af, c, sn, axf, &k, &inp); fs_3d::<T, 4, cm::Mat4<T>>(s, af, c, sn, axf, &k, &inp);
            fquat_rel::<T>(s, "Quaternion::rotation_3d", dq(Quaternion::<T>::rotation_3d(af, v3(&axf))), ang64 / 2.0, &k, &inp);
        }
    } }
    // ---- (a') axes whose squared length is just inside the normal range ---------------------------------
    s.meta("range_limit_exponents", json!([$lim, -$lim]));
    for e in [$lim, -$lim] { let sc = 2f64.powi(e);
        for x in -2i32..=2 { for y in -2i32..=2 { for z in -2i32..=2 { let n2 = x * x + y * y + z * z; if n2 == 0 || n2 > 9 { continue; }
            let ax = [x as f64, y as f64, z as f64];
            let k = unitf(&ax);
            let axf = [f(ax[0] * sc), f(ax[1] * sc), f(ax[2] * sc)];
            for an in [0.5, -2.0, 3.0, pi] {
                let af = f(an); let ang64 = af.d(); let (c, sn) = (ang64.cos(), ang64.sin());
                s.class("axis-at-range-limit");
                let inp = || json!({"angle": ang64, "axis_unscaled": ax, "axis_scale": format!("2^{}", e)});
                fs_3d::<T, 3, rm::Mat3<T>>(s, af, c, sn, axf, &k, &inp); fs_3d::<T, 3, cm::Mat3<T>>(s, af, c, sn, axf, &k, &inp);
                fs_3d::<T, 4, rm::Mat4<T>>(s, af, c, sn, axf, &k, &inp); fs_3d::<T, 4, cm::Mat4<T>>(s, af, c, sn, axf, &k, &inp);
                fquat_rel::<T>(s, "Quaternion::rotation_3d", dq(Quaternion::<T>::rotation_3d(af, v3(&axf))), ang64 / 2.0, &k, &inp);
            }
        } } }
    }
    // ---- (g) chained / in-place forms on further self states --------------------------------------------
    let m4s: [(A<f64, 4>, &str); 3] = [
        ([[1.0, 2.0, -3.0, 4.0], [0.5, -4.0, 6.0, 8.0], [7.0, 8.0, 10.25, -11.0], [2.0, 3.0, 5.0, 1.0]], "self-m33=1-not-affine"),
        ([[1.0, 2.0, -3.0, 4.0], [0.5, -4.0, 6.0, 8.0], [7.0, 8.0, 10.25, -11.0], [0.0, 0.0, 0.0, 1.0]], "self-affine-sheared"),
        ([[1.0, 2.0, -3.0, 0.0], [0.5, -4.0, 6.0, 0.0], [7.0, 8.0, 10.25, 0.0], [4.0, 8.0, -11.0, 1.0]], "self-last-column-e_w")];
    let m3s: [(A<f64, 3>, &str); 2] = [([[1.0, 2.0, -3.0], [0.5, -4.0, 6.0], [7.0, 8.0, 1.0]], "self-m22=1"), ([[1.0, 2.0, -3.0], [0.5, -4.0, 6.0], [0.0, 0.0, 1.0]], "self-2d-affine")];
    let ch_axes: [[f64; 3]; 3] = [[0.0, 0.0, 1.0], [1.0, 2.0, 2.0], [0.3, -0.7, 0.2]];
    for an in [0.5, -2.0, 3.0, pi, 9.313225746154785e-10] {
        let af = f(an); let ang64 = af.d(); let (c, sn) = (ang64.cos(), ang64.sin());
        for ax in &ch_axes {
            let axt = [f(ax[0]), f(ax[1]), f(ax[2])];
            let k = unitf(&[axt[0].d(), axt[1].d(), axt[2].d()]);
            for (m, cls) in &m4s { s.class(cls); fext_chain::<T, 4, rm::Mat4<T>>(s, m, af, c, sn, axt, &k, ang64); fext_chain::<T, 4, cm::Mat4<T>>(s, m, af, c, sn, axt, &k, ang64); }
            for (m, cls) in &m3s { s.class(cls); fext_chain::<T, 3, rm::Mat3<T>>(s, m, af, c, sn, axt, &k, ang64); fext_chain::<T, 3, cm::Mat3<T>>(s, m, af, c, sn, axt, &k, ang64); }
        }
    }
    // quaternion self states: in-place == by-value (within the rounding of one Hamilton product) and the result is the
    // Hamilton product rotation * self as a point of projective space (both normalised in f64, common sign)
    let q0s: [([f64; 4], &str); 7] = [([1.0, -1.0, 1.0, 1.0], "quaternion-self-w=1-non-unit"), ([2.0, 4.0, 4.0, 1.0], "quaternion-self-w=1-non-unit"), ([0.6, 0.0, 0.8, 0.0], "quaternion-self-w=0"), ([1.0, 0.0, 0.0, 0.0], "quaternion-self-w=0"),
        ([0.0, 0.0, 0.0, 2.0], "quaternion-self-non-unit"), ([-0.5, 0.5, 0.5, -0.5], "quaternion-self-unit"), ([0.0, 0.0, 0.0, -1.0], "quaternion-self-unit")];
    for (q0, cls) in &q0s {
        let q0t: Quaternion<T> = Quaternion { x: f(q0[0]), y: f(q0[1]), z: f(q0[2]), w: f(q0[3]) };
        let sum1: f64 = q0.iter().map(|v| v.abs()).sum();
        for an in [0.5, -2.0, 3.0, pi, 4.0] {
            let af = f(an); let ang64 = af.d(); let (sh, ch) = ((ang64 / 2.0).sin(), (ang64 / 2.0).cos());
            for kind in 0..(3 + ch_axes.len()) {
                let (axd, name) = if kind < 3 { let mut e = [0.0; 3]; e[kind] = 1.0; (e, XYZ[kind].to_string()) } else { (ch_axes[kind - 3], "3d".to_string()) };
                let axt = [f(axd[0]), f(axd[1]), f(axd[2])];
                let k = unitf(&[axt[0].d(), axt[1].d(), axt[2].d()]);
                let mut ip = q0t;
                let ret = if kind < 3 { <Quaternion<T> as FQ2<T>>::q_rotate(&mut ip, kind, af); <Quaternion<T> as FQ2<T>>::q_rotated(q0t, kind, af) } else { <Quaternion<T> as FQ2<T>>::q_rotate3d(&mut ip, af, axt); <Quaternion<T> as FQ2<T>>::q_rotated3d(q0t, af, axt) };
                let (ret, ip) = (dq(ret), dq(ip));
                let inp = || json!({"angle": ang64, "axis": axd, "self_xyzw": q0});
                s.eval(true); s.class(cls);
                // each field is a sum of four products of a rotation field (<= 1) with a field of self: both forms within 4 eps sum|self| of the exact value
                if !(0..4).all(|i| (ip[i].d() - ret[i].d()).abs() <= 16.0 * (<T>::EPSILON as f64) * sum1) { s.violation(&format!("Quaternion::rotate_{}<{}>", name, <T as Fl>::NAME), "in-place-form-differs-from-by-value-form", json!({"input": inp(), "rotate": ip.iter().map(|v| v.d()).collect::<Vec<_>>(), "rotated": ret.iter().map(|v| v.d()).collect::<Vec<_>>()})); }
                let hw = ham_f(&[k[0] * sh, k[1] * sh, k[2] * sh, ch], q0);
                let nrm = |a: &[f64; 4]| { let n = a.iter().map(|v| v * v).sum::<f64>().sqrt(); [a[0] / n, a[1] / n, a[2] / n, a[3] / n] };
                let (gn, hn) = (nrm(&[ret[0].d(), ret[1].d(), ret[2].d(), ret[3].d()]), nrm(&hw));
                let im = (0..4).fold(0, |b, i| if hn[i].abs() > hn[b].abs() { i } else { b });
                let sg = if (gn[im] < 0.0) != (hn[im] < 0.0) { -1.0 } else { 1.0 };
                // fields of rotation * self: <= 3.25 eps (rotation field) + 2 eps (products, sums) relative to sum|self| <= 2 |self|; normalisation in f64 and the oracle's own rounding below that
                if !(0..4).all(|i| (gn[i] - sg * hn[i]).abs() <= 64.0 * (<T>::EPSILON as f64)) { s.violation(&format!("Quaternion::rotated_{}<{}>", name, <T as Fl>::NAME), "not-the-hamilton-product-rotation*self-up-to-scale", json!({"input": inp(), "got_xyzw": ret.iter().map(|v| v.d()).collect::<Vec<_>>(), "want_xyzw_up_to_scale": hw})); }
            }
        }
    }
}} }

fn main() {
    let rep = Report::start("C04", "exploration");
    let th = rep.thorough();
    let even = even_angles(th);
    let odd = odd_angles(th);
    let all: Vec<Ang> = even.iter().chain(odd.iter()).copied().collect();
    let axes = axis_family(th, 4);
    let few_axes = thin(&axes, if th { 3 } else { 5 });
    let bezout = "for a fixed axis every entry of both sides is a polynomial of degree <= 2 in (cos, sin) of each angle variable (half-angle for the quaternion path), so by Bezout 2*2+1 = 5 distinct angles per angle variable decide the identity for all angles; the alphabet has more (see meta); over axes the exploration is bounded (finite alphabet), hence complete=false";
    let alphabet_meta = |s: &Section, a: &[Ang], ax: usize| {
        s.meta("angles", json!(a.len())); s.meta("distinct_circle_points", json!(distinct_points(a))); s.meta("axes", json!(ax));
        if distinct_points(a) < 5 { s.rep.machinery_error(format!("section '{}': fewer than 5 distinct angles", s.name)); }
    };

    // ---- 0. the oracles ------------------------------------------------------------------------------
    rep.section("oracle self-check (not vek)", "the reference Rodrigues matrix (from v cos + (k x v) sin + k (k.v)(1-cos)) is orthogonal, has det +1, fixes k, maps a vector orthogonal to k counter-clockwise about k (k . (v x Rv) = sin * |v|^2 |k|), and equals the textbook matrix of the unit quaternion (k sin(theta/2), cos(theta/2)); every axis x every even-multiple angle; a failure is a machinery error; non-trivial: R != I", true, false, |s| {
        for ax in &axes { for &a in &even {
            let (c, sn) = a.cs();
            let r = rodrigues(&ax.unit, c, sn);
            s.eval(!a.trivial());
            let id = ident::<X, 3>();
            let mut ok = mmul(&r, &transpose(&r)) == id && det(&r) == qi(1) && mvec(&r, &ax.unit) == ax.unit && ref_q2m(&ref_quat(&ax.unit, a)) == r;
            // counter-clockwise about k: for v = k x e (e a basis vector not parallel to k): k . (v x Rv) = sin * |v|^2
            for j in 0..3 { let v = cross3(&ax.unit, &e3(j)); let rv = mvec(&r, &v); if dotn(&ax.unit, &cross3(&v, &rv)) != sn * dotn(&v, &v) || dotn(&v, &rv) != c * dotn(&v, &v) { ok = false; } }
            if !ok { s.rep.machinery_error(format!("reference rotation wrong for axis {:?} angle {:?}", ax.unit, a)); }
        } }
        s.sample(json!({"axis": jxs(&axes[7].unit), "angle": even[3].json(), "rodrigues": jmat(&rodrigues(&axes[7].unit, even[3].cs().0, even[3].cs().1))}));
    });

    // ---- 1. rotation_x / y / z -----------------------------------------------------------------------
    rep.section("rotation_x/y/z: Rodrigues about the coordinate axes, handedness, orthogonality",
        &format!("every angle of the alphabet (even and odd multiples k*arg(z) of {} rational circle points z; the (cos, sin) pairs are listed in meta.cos_sin_covered: all four quadrants, quarter and half turns, negative, beyond pi and beyond 2pi) x rotation_x/y/z of Mat3, Mat4 (both layouts) and rotation_z of Mat2 (both layouts): decoded fields == Rodrigues(e_i) embedded with identity border; e_(i+1) -> cos e_(i+1) + sin e_(i+2) both by reference product on the decoded fields and by the real M*v (z: e_x -> (cos, sin, 0); x: e_y -> (0, cos, sin); y: e_z -> (sin, 0, cos)); == rotation_3d(theta, e_i); R Rt = Rt R = I, det = +1, R e_i = e_i; one evaluation per real builder call; non-trivial: R != I.  {}", { let mut b: Vec<(i128, i128)> = all.iter().map(|a| (a.tn, a.td)).collect(); b.sort(); b.dedup(); b.len() }, bezout), true, false, |s| {
        s.require_classes(&ANGLE_CLASSES); s.require_classes(&["quarter-turn"]);
        sec_xyz::<3, rm::Mat3<X>>(s, &all); sec_xyz::<3, cm::Mat3<X>>(s, &all);
        sec_xyz::<4, rm::Mat4<X>>(s, &all); sec_xyz::<4, cm::Mat4<X>>(s, &all);
        sec_z2::<rm::Mat2<X>>(s, &all); sec_z2::<cm::Mat2<X>>(s, &all);
        alphabet_meta(s, &all, 3);
        s.meta("cos_sin_covered", Value::Array(all.iter().map(|a| { let (c, sn) = a.cs(); json!([jx(c), jx(sn), a.real()]) }).collect()));
    });

    // ---- 2. rotation_3d ------------------------------------------------------------------------------
    rep.section("rotation_3d = Rodrigues; orthogonal, det +1, fixes its axis; Mat3 is the upper-left block of Mat4",
        &format!("axes: +-e_i, 2x and 1/3x multiples of them, rational unit vectors (sign/permutation closure of (1,2,2)/3, (2,3,6)/7, (0,3,4)/5, (1,4,8)/9, (4,4,7)/9: quick every 4th of 103, thorough all, thorough also their 2x and 1/3x multiples), (1,2,2), (4,6,12), (0,3,4), (-1,4,8), (4,-4,7)/3, (2,-6,3)/21, (-14,-7,-14)/3 (rational norm, so normalized() is exact and the oracle's unit axis is known without a square root) x every angle of the alphabet x Mat3, Mat4 x both layouts: decoded fields == Rodrigues(unit axis, cos, sin) (identity border for Mat4); R Rt = Rt R = I; det R = +1 (Leibniz on the decoded array); R axis = axis; and decoded Mat4 == embed(decoded Mat3) for rotation_x/y/z/3d in both layouts; one evaluation per real builder call / per block comparison; non-trivial: R != I.  {}", bezout), true, false, |s| {
        s.require_classes(&ANGLE_CLASSES); s.require_classes(&AXIS_CLASSES);
        sec_rot3d::<3, rm::Mat3<X>>(s, &axes, &all); sec_rot3d::<3, cm::Mat3<X>>(s, &axes, &all);
        sec_rot3d::<4, rm::Mat4<X>>(s, &axes, &all); sec_rot3d::<4, cm::Mat4<X>>(s, &axes, &all);
        sec_block::<rm::Mat3<X>, rm::Mat4<X>>(s, &axes, &all); sec_block::<cm::Mat3<X>, cm::Mat4<X>>(s, &axes, &all);
        alphabet_meta(s, &all, axes.len());
    });

    // ---- 3. axis length is irrelevant ----------------------------------------------------------------
    rep.section("the axis need not be normalized: R(theta, lambda*axis) = R(theta, axis)",
        &format!("every axis of the family (unit and non-unit) x lambda in {{2, 1/3, 7}} (lambda > 0: a negative factor reverses the axis and is not claimed) x every even-multiple angle: rotation_3d of Mat3/Mat4 (both layouts) and Quaternion::rotation_3d give identical fields for axis and lambda*axis (real output vs real output; the absolute value is pinned by the sections against Rodrigues); non-trivial: R != I.  {}", bezout), true, false, |s| {
        s.require_classes(&AXIS_CLASSES);
        let lams = [qi(2), q(1, 3), qi(7)];
        sec_scale::<3, rm::Mat3<X>>(s, &axes, &even, &lams); sec_scale::<3, cm::Mat3<X>>(s, &axes, &even, &lams);
        sec_scale::<4, rm::Mat4<X>>(s, &axes, &even, &lams); sec_scale::<4, cm::Mat4<X>>(s, &axes, &even, &lams);
        for ax in &axes { for &lam in &lams { for &a in &even {
            let (g0, g1) = (ax.given(), ax.scaled(lam).given()); let t = a.tok();
            let inp = || json!({"angle": a.json(), "axis": ax.json(), "lambda": jx(lam)});
            s.eval(!a.trivial());
            if let Some((q0, q1)) = s.call("Quaternion::rotation_3d", inp, || (dq(Quaternion::rotation_3d(t, v3(&g0))), dq(Quaternion::rotation_3d(t, v3(&g1))))) {
                if q0 != q1 { s.violation_w("Quaternion::rotation_3d", "depends-on-axis-length", json!({"input": inp(), "q(axis)": jxs(&q0), "q(lambda*axis)": jxs(&q1)}), a.weight() + ax.weight()); }
            }
        } } }
        alphabet_meta(s, &even, axes.len());
    });

    // ---- 4. additivity -------------------------------------------------------------------------------
    let add_bases: Vec<(i128, i128)> = if th { vec![(1, 3), (1, 2), (2, 1), (1, 5), (3, 1), (2, 3), (-1, 2)] } else { vec![(1, 3), (1, 2), (2, 1)] };
    let add_ks: Vec<i128> = vec![-4, -2, 0, 2, 4, 6];
    rep.section("composition is additive for a common axis: R(a) R(b) = R(a+b)",
        &format!("for each base circle point z (t in {:?}) all ordered pairs (a, b) = (ka, kb)*arg(z), ka, kb in {:?} (six distinct angles per variable; the sum a+b is formed by token addition and handed to the real builder): reference product of the decoded R(a), R(b) == decoded R(a+b) == Rodrigues(a+b), for rotation_x/y/z and rotation_3d over a thinned axis family (all +-e_i, every {}th of each other class) of Mat3/Mat4 x both layouts, Mat2 rotation_z; chained form rotation(b).rotated(a) == R(a+b); quaternions: Hamilton product (reference, on fields) of rotation_3d(a), rotation_3d(b) == +-rotation_3d(a+b) (q and -q are the same rotation); non-trivial: neither angle is 0.  {}: two independent angle variables of degree 2 each, six values each, all ordered pairs", add_bases, add_ks, if th { 3 } else { 5 }, bezout), true, false, |s| {
        s.require_classes(&AXIS_CLASSES); s.require_classes(&["a=b", "a=-b", "a!=b"]);
        sec_add::<3, rm::Mat3<X>>(s, &few_axes, &add_bases, &add_ks); sec_add::<3, cm::Mat3<X>>(s, &few_axes, &add_bases, &add_ks);
        sec_add::<4, rm::Mat4<X>>(s, &few_axes, &add_bases, &add_ks); sec_add::<4, cm::Mat4<X>>(s, &few_axes, &add_bases, &add_ks);
        for &(tn, td) in &add_bases { for &ka in &add_ks { for &kb in &add_ks {
            let (a, b) = (ang(tn, td, ka), ang(tn, td, kb));
            let sum = a.tok() + b.tok();
            let (cs, ss) = a.plus(b).cs();
            let nontriv = !a.trivial() && !b.trivial();
            let inp = || json!({"a": a.json(), "b": b.json()});
            // Mat2
            for lay in 0..2 {
                let site = if lay == 0 { "Mat2<row>::rotation_z" } else { "Mat2<col>::rotation_z" };
                s.eval(nontriv);
                let r = if lay == 0 { s.call(site, inp, || (rm::Mat2::<X>::rotation_z(a.tok()).decode(), rm::Mat2::<X>::rotation_z(b.tok()).decode(), rm::Mat2::<X>::rotation_z(sum).decode())) }
                        else { s.call(site, inp, || (cm::Mat2::<X>::rotation_z(a.tok()).decode(), cm::Mat2::<X>::rotation_z(b.tok()).decode(), cm::Mat2::<X>::rotation_z(sum).decode())) };
                if let Some((ra, rb, rs)) = r { let prod = mmul(&ra, &rb); if prod != rs || rs != [[cs, -ss], [ss, cs]] { s.violation_w(site, "not-additive", json!({"input": inp(), "R(a)R(b)": jmat(&prod), "R(a+b)": jmat(&rs)}), a.weight() + b.weight()); } }
            }
            // quaternions
            for ax in &few_axes {
                let given = ax.given();
                let inp = || json!({"a": a.json(), "b": b.json(), "axis": ax.json()});
                s.eval(nontriv);
                if let Some((qa, qb, qs)) = s.call("Quaternion::rotation_3d", inp, || (dq(Quaternion::rotation_3d(a.tok(), v3(&given))), dq(Quaternion::rotation_3d(b.tok(), v3(&given))), dq(Quaternion::rotation_3d(sum, v3(&given))))) {
                    let prod = ham(&qa, &qb);
                    if prod != qs && prod != negq(&qs) { s.violation_w("Quaternion::rotation_3d", "not-additive", json!({"input": inp(), "q(a)q(b)": jxs(&prod), "q(a+b)": jxs(&qs)}), a.weight() + b.weight() + ax.weight()); }
                }
            }
        } } }
        s.meta("bases", json!(add_bases)); s.meta("multiples", json!(add_ks)); s.meta("axes", json!(few_axes.len()));
        let pts = distinct_points(&add_ks.iter().map(|&k| ang(add_bases[0].0, add_bases[0].1, k)).collect::<Vec<_>>());
        s.meta("distinct_angles_per_variable", json!(pts));
        if pts < 5 { s.rep.machinery_error("additivity: fewer than 5 distinct angles per variable".to_string()); }
    });

    // ---- 5. quaternions ------------------------------------------------------------------------------
    rep.section("quaternion builders and quaternion -> matrix agree with rotation_3d and Rodrigues",
        &format!("every axis of the family x every even-multiple angle theta (theta/2 is again an exact token): Quaternion::rotation_3d(theta, axis) has fields +-(unit axis * sin(theta/2), cos(theta/2)) and the textbook matrix of those fields (reference, on arrays) == Rodrigues; Quaternion::rotation_x/y/z(theta) == rotation_3d(theta, e_i); Mat3/Mat4::from (both layouts) of the reference unit quaternion built by struct literal == Rodrigues (the conversion alone); Mat3/Mat4::from(Quaternion::rotation_3d(theta, axis)) == Mat::rotation_3d(theta, axis) == Rodrigues (the composite the property names); one evaluation per real call chain; non-trivial: R != I.  {} (degree 2 in the half-angle point; distinct half-angle points in meta)", bezout), true, false, |s| {
        s.require_classes(&ANGLE_CLASSES); s.require_classes(&AXIS_CLASSES);
        for ax in &axes { let given = ax.given(); for &a in &even {
            let (c, sn) = a.cs(); let t = a.tok();
            let want_q = ref_quat(&ax.unit, a);
            let want_m = rodrigues(&ax.unit, c, sn);
            let inp = || json!({"angle": a.json(), "axis": ax.json()});
            let w = a.weight() + ax.weight();
            s.eval(!a.trivial());
            if let Some(g) = s.call("Quaternion::rotation_3d", inp, || dq(Quaternion::rotation_3d(t, v3(&given)))) {
                if g != want_q && g != negq(&want_q) { s.violation_w("Quaternion::rotation_3d", "not-half-angle-axis-form", json!({"input": inp(), "got_xyzw": jxs(&g), "want_xyzw": jxs(&want_q)}), w); }
                if let Some(m) = s.call("Quaternion::rotation_3d", inp, || ref_q2m(&g)) { if m != want_m { s.violation_w("Quaternion::rotation_3d", "not-rodrigues-as-a-rotation", json!({"input": inp(), "got_xyzw": jxs(&g), "its_matrix": jmat(&m), "want": jmat(&want_m)}), w); } }
                if !a.trivial() && !ax.coordinate() && s.wants_sample() { s.sample(json!({"call": "Quaternion::rotation_3d", "input": inp(), "real_output_xyzw": jxs(&g)})); }
            }
            if ax.coordinate() && ax.lam == qi(1) && ax.class() == "axis:+e_i" {
                let i = ax.unit.iter().position(|v| *v == qi(1)).unwrap();
                let site = format!("Quaternion::rotation_{}", XYZ[i]);
                s.eval(!a.trivial());
                if let Some((g, via3d)) = s.call(&site, inp, || (dq(match i { 0 => Quaternion::rotation_x(t), 1 => Quaternion::rotation_y(t), _ => Quaternion::rotation_z(t) }), dq(Quaternion::rotation_3d(t, v3(&given))))) {
                    if g != want_q && g != negq(&want_q) { s.violation_w(&site, "not-half-angle-axis-form", json!({"input": inp(), "got_xyzw": jxs(&g), "want_xyzw": jxs(&want_q)}), w); }
                    if g != via3d { s.violation_w(&site, "differs-from-rotation_3d-about-the-unit-axis", json!({"input": inp(), "got_xyzw": jxs(&g), "rotation_3d": jxs(&via3d)}), w); }
                }
            }
        } }
        sec_fromq::<3, rm::Mat3<X>>(s, &axes, &even); sec_fromq::<3, cm::Mat3<X>>(s, &axes, &even);
        sec_fromq::<4, rm::Mat4<X>>(s, &axes, &even); sec_fromq::<4, cm::Mat4<X>>(s, &axes, &even);
        alphabet_meta(s, &even, axes.len());
        s.meta("distinct_half_angle_points", json!(distinct_half_points(&even)));
    });

    // ---- 6. Vec2 -------------------------------------------------------------------------------------
    rep.section("Vec2::rotated_z = Mat2::rotation_z * v = (c x - s y, s x + c y); rotate_z in place",
        "every angle of the alphabet x v in {-2..2}^2 and (1/2,-3/7), (5,12): Vec2{x,y}.rotated_z(theta) decoded == (cos x - sin y, sin x + cos y); == reference product of the decoded Mat2::rotation_z(theta) (both layouts) with v; == the real Mat2 * Vec2; rotate_z (in place) == rotated_z; non-trivial: v != 0 and R != I.  Linear in v (3 independent v decide) and degree 1 in (cos, sin) (3 angles decide): complete for all angles and vectors given branch-free ring code, which is read off the source, not measured, hence complete=false", true, false, |s| {
        s.require_classes(&ANGLE_CLASSES); s.require_classes(&["quarter-turn", "v=e_x", "v-general"]);
        let mut vs: Vec<[X; 2]> = Vec::new(); for x in -2..=2 { for y in -2..=2 { vs.push([qi(x), qi(y)]); } } vs.push([q(1, 2), q(-3, 7)]); vs.push([qi(5), qi(12)]);
        for &a in &all { let (c, sn) = a.cs(); let t = a.tok(); mark(s, a); for v in &vs {
            let want = [c * v[0] - sn * v[1], sn * v[0] + c * v[1]];
            let inp = || json!({"v": jxs(v), "angle": a.json()});
            let w = a.weight() + v.iter().map(|e| (e.rat().n.abs() + e.rat().d - 1) as u64).sum::<u64>();
            s.eval(!a.trivial() && *v != [qi(0), qi(0)]); s.class(if *v == [qi(1), qi(0)] { "v=e_x" } else { "v-general" });
            if let Some((g, ip, mr, mc, pr, pc)) = s.call("Vec2::rotated_z", inp, || {
                let vv = Vec2 { x: v[0], y: v[1] }; let mut ip = vv; ip.rotate_z(t);
                let (mr, mc) = (rm::Mat2::<X>::rotation_z(t), cm::Mat2::<X>::rotation_z(t));
                (dv2(&vv.rotated_z(t)), dv2(&ip), mvec(&mr.decode(), v), mvec(&mc.decode(), v), dv2(&(mr * vv)), dv2(&(mc * vv)))
            }) {
                if g != want { s.violation_w("Vec2::rotated_z", "not-ccw-rotation", json!({"input": inp(), "got": jxs(&g), "want": jxs(&want)}), w); }
                if ip != g { s.violation_w("Vec2::rotate_z", "in-place-form-differs", json!({"input": inp(), "rotate_z": jxs(&ip), "rotated_z": jxs(&g)}), w); }
                if mr != g || mc != g || pr != g || pc != g { s.violation_w("Vec2::rotated_z", "differs-from-Mat2::rotation_z-times-v", json!({"input": inp(), "rotated_z": jxs(&g), "Mat2<row> fields x v": jxs(&mr), "Mat2<col> fields x v": jxs(&mc), "Mat2<row>*v": jxs(&pr), "Mat2<col>*v": jxs(&pc)}), w); }
                if !a.trivial() && v[0] != qi(0) && v[1] != qi(0) && s.wants_sample() { s.sample(json!({"call": "Vec2::rotated_z", "input": inp(), "real_output": jxs(&g)})); }
            }
        } }
        alphabet_meta(s, &all, 1);
    });

    // ---- 7. chained / in-place forms -----------------------------------------------------------------
    rep.section("chained and in-place forms: rotated_* = rotation_* * self (pre-multiplication), rotate_* = rotated_*",
        &format!("self: non-symmetric matrices built from arrays (Mat4: translation(1,-2,3)*Rodrigues((2,3,6)/7; 3/5,4/5) and a full integer matrix; Mat3: a Rodrigues matrix with a scaled column and an integer matrix; Mat2: two integer matrices) and the identity x every even-multiple angle x (x, y, z, and 3d over the thinned axis family): decoded m.rotated_*(theta) == reference product Rodrigues * m (and is reported as post-multiplication when it equals m * Rodrigues); m.rotate_*(theta) in place == rotated_*; Quaternion (self: identity and three unit quaternions with rational fields): the textbook matrix of q.rotated_*(theta) == Rodrigues * matrix(q), fields == +-Hamilton(reference rotation quaternion, q), rotate_* == rotated_*; non-trivial: the rotation and self do not commute (order observable).  {}", bezout), true, false, |s| {
        s.require_classes(&["order-matters", "commuting", "quaternion-order-matters"]);
        let r4 = affine4(&rodrigues(&[q(2, 7), q(3, 7), q(6, 7)], q(3, 5), q(4, 5)), &[qi(1), qi(-2), qi(3)]);
        let i4: A<X, 4> = [[qi(1), qi(2), qi(3), qi(4)], [qi(5), qi(6), qi(7), qi(8)], [qi(9), qi(10), qi(12), qi(11)], [qi(13), qi(15), qi(14), qi(16)]];
        let mut r3 = rodrigues(&[q(1, 3), q(2, 3), q(2, 3)], q(-4, 5), q(3, 5)); for i in 0..3 { r3[i][1] = r3[i][1] * qi(2); }
        let i3: A<X, 3> = [[qi(1), qi(2), qi(3)], [qi(4), qi(5), qi(6)], [qi(7), qi(8), qi(10)]];
        let m4 = [r4, i4, ident::<X, 4>()]; let m3 = [r3, i3, ident::<X, 3>()];
        let m2: [A<X, 2>; 3] = [[[qi(1), qi(2)], [qi(3), qi(5)]], [[qi(0), qi(-1)], [qi(2), qi(7)]], ident::<X, 2>()];
        let angs: Vec<Ang> = if th { even.clone() } else { even.iter().copied().filter(|a| a.k.abs() <= 4).collect() };
        sec_chain::<3, rm::Mat3<X>>(s, &m3, &few_axes, &angs); sec_chain::<3, cm::Mat3<X>>(s, &m3, &few_axes, &angs);
        sec_chain::<4, rm::Mat4<X>>(s, &m4, &few_axes, &angs); sec_chain::<4, cm::Mat4<X>>(s, &m4, &few_axes, &angs);
        sec_chain2::<rm::Mat2<X>>(s, &m2, &angs); sec_chain2::<cm::Mat2<X>>(s, &m2, &angs);
        // quaternions
        let q0s: [[X; 4]; 4] = [[qi(0), qi(0), qi(0), qi(1)], [q(6, 35), q(9, 35), q(18, 35), q(4, 5)], [q(-5, 39), q(-10, 39), q(-10, 39), q(12, 13)], [q(3, 5), qi(0), qi(0), q(-4, 5)]];
        for q0 in &q0s { let m0 = ref_q2m(q0); let real_q = mkq(q0); for &a in &angs {
            let (c, sn) = a.cs(); let t = a.tok();
            let one = |name: String, inp: &dyn Fn() -> Value, unit: &[X; 3], r: Option<([X; 4], [X; 4])>, w: u64| {
                let rot = rodrigues(unit, c, sn);
                let (pre, post) = (mmul(&rot, &m0), mmul(&m0, &rot));
                s.eval(pre != post); if pre != post { s.class("quaternion-order-matters"); }
                if let Some((ret, inplace)) = r {
                    let site = format!("Quaternion::rotated_{}", name);
                    let hw = ham(&ref_quat(unit, a), q0);
                    match s.call(&site, || inp(), || ref_q2m(&ret)) {
                        Some(m) => { if m != pre { s.violation_w(&site, if m == post { "post-multiplies-instead-of-pre-multiplying" } else { "not-rotation-times-self" }, json!({"input": inp(), "got_xyzw": jxs(&ret), "its_matrix": jmat(&m), "want_matrix": jmat(&pre)}), w); }
                                     else if ret != hw && ret != negq(&hw) { s.violation_w(&site, "not-the-hamilton-product-rotation*self", json!({"input": inp(), "got_xyzw": jxs(&ret), "want_xyzw": jxs(&hw)}), w); } }
                        None => {}
                    }
                    if inplace != ret { s.violation_w(&format!("Quaternion::rotate_{}", name), "in-place-form-differs", json!({"input": inp(), "rotate": jxs(&inplace), "rotated": jxs(&ret)}), w); }
                    if pre != post && s.wants_sample() { s.sample(json!({"call": site, "input": inp(), "real_output_xyzw": jxs(&ret)})); }
                }
            };
            for i in 0..3 {
                let inp = || json!({"self_xyzw": jxs(q0), "angle": a.json()});
                let r = s.call(&format!("Quaternion::rotated_{}", XYZ[i]), inp, || { let mut ip = real_q; match i { 0 => ip.rotate_x(t), 1 => ip.rotate_y(t), _ => ip.rotate_z(t) }; (dq(match i { 0 => real_q.rotated_x(t), 1 => real_q.rotated_y(t), _ => real_q.rotated_z(t) }), dq(ip)) });
                one(XYZ[i].to_string(), &inp, &e3(i), r, a.weight());
            }
            for ax in &few_axes {
                let given = ax.given();
                let inp = || json!({"self_xyzw": jxs(q0), "angle": a.json(), "axis": ax.json()});
                let r = s.call("Quaternion::rotated_3d", inp, || { let mut ip = real_q; ip.rotate_3d(t, v3(&given)); (dq(real_q.rotated_3d(t, v3(&given))), dq(ip)) });
                one("3d".to_string(), &inp, &ax.unit, r, a.weight() + ax.weight());
            }
        } }
        alphabet_meta(s, &angs, few_axes.len());
    });

    // ---- 8./9. float tier ----------------------------------------------------------------------------
    let rule_f = "64 angles -6.2 + 0.1937 i (thorough: 1024 angles -6.28 + 12.56 i/1024; all in (-2pi, 2pi)) x all 124 integer axes of {-2..2}^3 minus 0: rotation_3d of Mat3/Mat4 (both layouts) and Mat3/Mat4::from(Quaternion::rotation_3d) vs Rodrigues computed in f64 from f64::sin/cos of the very angle the code received (the f32 angle converted exactly) and the axis normalised in f64; per angle also rotation_x/y/z, Mat2::rotation_z and Vec2::rotated_z on 5 vectors; tolerance 256 * eps(type) * scale with scale = 2 for matrices (largest intermediate 1 - cos <= 2; each entry is a sum of <= 2 products of <= 4 correctly rounded factors plus the normalisation and the libm sin/cos, < 40 eps relative forward error on either side) and |x|+|y| for Vec2: a derived bound, not tuned; non-trivial: all";
    rep.section("float tier f64", rule_f, true, false, |s| float_tier!(s, f64));
    rep.section("float tier f32", rule_f, true, false, |s| float_tier!(s, f32));

    // ==== additions of the audit round ================================================================
    let r4 = affine4(&rodrigues(&[q(2, 7), q(3, 7), q(6, 7)], q(3, 5), q(4, 5)), &[qi(1), qi(-2), qi(3)]);
    let i4: A<X, 4> = [[qi(1), qi(2), qi(3), qi(4)], [qi(5), qi(6), qi(7), qi(8)], [qi(9), qi(10), qi(12), qi(11)], [qi(13), qi(15), qi(14), qi(16)]];
    let i3: A<X, 3> = [[qi(1), qi(2), qi(3)], [qi(4), qi(5), qi(6)], [qi(7), qi(8), qi(10)]];
    let r3s = { let mut r3 = rodrigues(&[q(1, 3), q(2, 3), q(2, 3)], q(-4, 5), q(3, 5)); for i in 0..3 { r3[i][1] = r3[i][1] * qi(2); } r3 };
    let q0s: [[X; 4]; 3] = [[q(6, 35), q(9, 35), q(18, 35), q(4, 5)], [q(-5, 39), q(-10, 39), q(-10, 39), q(12, 13)], [q(3, 5), qi(0), qi(0), q(-4, 5)]];

    // ---- 10. operand forms ----------------------------------------------------------------------------
    rep.section("axis operand forms: every Into<Vec3> the 3D builders accept",
        "rotation_3d / rotated_3d / rotate_3d are generic over V: Into<Vec3<T>>; the axis is handed over as [T;3], (T,T,T), Vec4 with w = 5 (w must be ignored) and w = 0, (Vec2, T), mint::Vector3, Extent3, Rgb, Uvw (all struct literals), and as Vec2 (z := 0, axes in the XY plane) x thinned axis family (unit and non-unit) x five angles in different quadrants (thorough: every angle +-2*arg(z) of the even alphabet) x Mat3, Mat4 (both layouts; self = a full non-symmetric integer matrix) and Quaternion (self = a non-trivial unit quaternion): decoded rotation_3d == Rodrigues(unit axis of the (x,y,z) part), rotated_3d / rotate_3d == reference product Rodrigues * self; quaternion fields == +-(axis sin(theta/2), cos(theta/2)) and +-Hamilton(reference, self); non-trivial: R != I", true, false, |s| {
        s.require_classes(&FORM_CLASSES);
        let angs: Vec<Ang> = if th { even.iter().copied().filter(|a| a.k.abs() <= 2).collect() } else { vec![ang(1, 3, 2), ang(1, 2, -2), ang(2, 1, 2), ang(1, 1, 2), ang(1, 5, 4)] };
        let planar: Vec<Axis> = vec![Axis { unit: [q(3, 5), q(4, 5), qi(0)], lam: qi(1) }, Axis { unit: [q(-4, 5), q(3, 5), qi(0)], lam: qi(2) }, Axis { unit: [qi(0), qi(-1), qi(0)], lam: q(1, 3) }, Axis { unit: [q(5, 13), q(-12, 13), qi(0)], lam: qi(13) }, Axis { unit: [qi(1), qi(0), qi(0)], lam: qi(1) }];
        all_forms!(form_case [3, rm::Mat3<X>,], s, &few_axes, &planar, &angs, &i3);
        all_forms!(form_case [3, cm::Mat3<X>,], s, &few_axes, &planar, &angs, &i3);
        all_forms!(form_case [4, rm::Mat4<X>,], s, &few_axes, &planar, &angs, &i4);
        all_forms!(form_case [4, cm::Mat4<X>,], s, &few_axes, &planar, &angs, &i4);
        all_forms!(qform_case [], s, &few_axes, &planar, &angs, &q0s[0]);
        s.meta("axes", json!(few_axes.len())); s.meta("planar_axes", json!(planar.len())); s.meta("angles", json!(angs.len()));
    });

    // ---- 11. call sequences ---------------------------------------------------------------------------
    rep.section("call sequences: in-place rotate_* calls accumulate as successive pre-multiplications; additivity of the chained forms",
        "one object, a sequence of in-place calls m.rotate_k1(a1); m.rotate_k2(a2); ... and the same chain by value m.rotated_k1(a1).rotated_k2(a2)...: every word of length 1..3 over {x, y, z, 3d} (84) and all 24 orders of the four kinds, angles taken by position from a pool of four (quick: two assignments, thorough: four), the 3d axis from three (thorough six) non-coordinate axes, self = a non-symmetric matrix with translation / a full integer matrix, Mat3 and Mat4 in both layouts: the decoded state after EVERY prefix of the in-place sequence == reference product R_k ... R_1 * self (Rodrigues on arrays), final by-value chain likewise; matrix additivity R(a)R(b) = R(a+b) = Rodrigues(a+b) and rotation(b).rotated(a) once more over ODD multiples {-3,-1,1,3,5} of two (thorough five) bases, all ordered pairs, x/y/z and the 3d axes; Mat2: rotate_z(a); rotate_z(b) and rotated_z(a).rotated_z(b) == Rot(a+b) * self for all ordered pairs of six multiples of three bases; Vec2: v.rotated_z(a).rotated_z(b) and two in-place rotate_z == Rot(a+b) v; Quaternion: rotation_3d(b, axis).rotated_3d(a, axis) == +-rotation_3d(a+b, axis) fields, rotation_k(b).rotated_k(a) likewise, and in-place sequences over the same words: textbook matrix of the final fields == reference product, fields == +-Hamilton chain; non-trivial: reversing the call order changes the reference result", true, false, |s| {
        s.require_classes(&["sequence-order-matters", "length-1", "length-2", "length-3", "length-4", "quaternion-sequence-order-matters", "vec2-additive", "mat2-additive", "quaternion-chained-additive"]);
        let pool = [ang(1, 3, 2), ang(1, 2, -2), ang(2, 1, 4), ang(1, 5, 2)];
        let seqs = sequences(&pool, if th { &[0, 1, 2, 3] } else { &[0, 2] });
        let gen_axes: Vec<Axis> = axes.iter().filter(|a| !a.coordinate()).step_by(axes.len() / (if th { 6 } else { 3 })).take(if th { 6 } else { 3 }).copied().collect();
        s.meta("sequences", json!(seqs.len())); s.meta("axes", Value::Array(gen_axes.iter().map(|a| a.json()).collect()));
        sec_seq::<3, rm::Mat3<X>>(s, &[r3s, i3], &gen_axes, &seqs); sec_seq::<3, cm::Mat3<X>>(s, &[r3s, i3], &gen_axes, &seqs);
        sec_seq::<4, rm::Mat4<X>>(s, &[r4, i4], &gen_axes, &seqs); sec_seq::<4, cm::Mat4<X>>(s, &[r4, i4], &gen_axes, &seqs);
        // quaternion sequences
        for q0 in &q0s { let m0 = ref_q2m(q0); for ax in &gen_axes { let given = ax.given(); for seq in &seqs {
            let inp = || json!({"self_xyzw": jxs(q0), "steps_in_call_order": step_json(seq, ax)});
            let w: u64 = seq.iter().map(|st| st.a.weight()).sum::<u64>() + ax.weight();
            let (mut wantm, mut wantq, mut revm) = (m0, *q0, m0);
            for st in seq { let (c, sn) = st.a.cs(); let u = step_unit(st, ax); wantm = mmul(&rodrigues(&u, c, sn), &wantm); wantq = ham(&ref_quat(&u, st.a), &wantq); }
            for st in seq.iter().rev() { let (c, sn) = st.a.cs(); revm = mmul(&rodrigues(&step_unit(st, ax), c, sn), &revm); }
            s.eval(wantm != revm); if wantm != revm { s.class("quaternion-sequence-order-matters"); }
            let r = s.call("Quaternion::rotate_* sequence", inp, || {
                let mut ip = mkq(q0); let mut val = mkq(q0);
                for st in seq { let t = st.a.tok(); match st.kind { 0 => { ip.rotate_x(t); val = val.rotated_x(t); } 1 => { ip.rotate_y(t); val = val.rotated_y(t); } 2 => { ip.rotate_z(t); val = val.rotated_z(t); } _ => { ip.rotate_3d(t, v3(&given)); val = val.rotated_3d(t, v3(&given)); } } }
                (dq(ip), dq(val), ref_q2m(&dq(ip)))
            });
            if let Some((ip, val, m)) = r {
                if m != wantm { s.violation_w("Quaternion::rotate_* sequence", "state-after-in-place-call-sequence-is-not-the-reference-product", json!({"input": inp(), "got_xyzw": jxs(&ip), "its_matrix": jmat(&m), "want_matrix": jmat(&wantm)}), w); }
                else if ip != wantq && ip != negq(&wantq) { s.violation_w("Quaternion::rotate_* sequence", "not-the-hamilton-chain", json!({"input": inp(), "got_xyzw": jxs(&ip), "want_xyzw": jxs(&wantq)}), w); }
                if val != ip { s.violation_w("Quaternion::rotated_* chain", "chained-by-value-sequence-differs-from-in-place-sequence", json!({"input": inp(), "chain": jxs(&val), "in_place": jxs(&ip)}), w); }
            }
        } } }
        // additivity over ODD multiples (matrix-only code paths; the additivity section uses even multiples because of the half-angle quaternions)
        let odd_bases: Vec<(i128, i128)> = if th { vec![(1, 3), (2, 1), (1, 2), (1, 5), (-1, 2)] } else { vec![(1, 3), (2, 1)] };
        let odd_ks: Vec<i128> = vec![-3, -1, 1, 3, 5];
        sec_add::<3, rm::Mat3<X>>(s, &gen_axes, &odd_bases, &odd_ks); sec_add::<3, cm::Mat3<X>>(s, &gen_axes, &odd_bases, &odd_ks);
        sec_add::<4, rm::Mat4<X>>(s, &gen_axes, &odd_bases, &odd_ks); sec_add::<4, cm::Mat4<X>>(s, &gen_axes, &odd_bases, &odd_ks);
        // additivity of the chained forms: quaternion, Mat2, Vec2
        let m2s: [A<X, 2>; 2] = [[[qi(1), qi(2)], [qi(3), qi(5)]], [[qi(0), qi(-1)], [qi(2), qi(7)]]];
        let mut vs: Vec<[X; 2]> = Vec::new(); for x in -2..=2 { for y in -2..=2 { vs.push([qi(x), qi(y)]); } } vs.push([q(1, 2), q(-3, 7)]); vs.push([qi(5), qi(12)]);
        for &(tn, td) in &add_bases { for &ka in &add_ks { for &kb in &add_ks {
            let (a, b) = (ang(tn, td, ka), ang(tn, td, kb));
            let (cs, ss) = a.plus(b).cs();
            let nontriv = !a.trivial() && !b.trivial();
            let w = a.weight() + b.weight();
            let inp = || json!({"a": a.json(), "b": b.json()});
            for ax in &few_axes {
                let given = ax.given(); let inp = || json!({"a": a.json(), "b": b.json(), "axis": ax.json()});
                s.eval(nontriv); s.class("quaternion-chained-additive");
                if let Some((ch, sum)) = s.call("Quaternion::rotated_3d", inp, || (dq(Quaternion::rotation_3d(b.tok(), v3(&given)).rotated_3d(a.tok(), v3(&given))), dq(Quaternion::rotation_3d(a.tok() + b.tok(), v3(&given))))) {
                    if ch != sum && ch != negq(&sum) { s.violation_w("Quaternion::rotated_3d", "chained-rotation-not-additive", json!({"input": inp(), "rotation(b).rotated(a)": jxs(&ch), "rotation(a+b)": jxs(&sum)}), w + ax.weight()); }
                }
            }
            for i in 0..3 {
                s.eval(nontriv); s.class("quaternion-chained-additive");
                let site = format!("Quaternion::rotated_{}", XYZ[i]);
                if let Some((ch, sum)) = s.call(&site, inp, || { let (ta, tb, tsum) = (a.tok(), b.tok(), a.tok() + b.tok()); match i {
                    0 => (dq(Quaternion::rotation_x(tb).rotated_x(ta)), dq(Quaternion::rotation_x(tsum))), 1 => (dq(Quaternion::rotation_y(tb).rotated_y(ta)), dq(Quaternion::rotation_y(tsum))), _ => (dq(Quaternion::rotation_z(tb).rotated_z(ta)), dq(Quaternion::rotation_z(tsum))) } }) {
                    if ch != sum && ch != negq(&sum) { s.violation_w(&site, "chained-rotation-not-additive", json!({"input": inp(), "rotation(b).rotated(a)": jxs(&ch), "rotation(a+b)": jxs(&sum)}), w); }
                }
            }
            let rot: A<X, 2> = [[cs, -ss], [ss, cs]];
            for m in &m2s { let want = mmul(&rot, m);
                let inp = || json!({"self": jmat(m), "a": a.json(), "b": b.json()});
                s.eval(nontriv); s.class("mat2-additive");
                if let Some((r1, r2, c1, c2)) = s.call("Mat2::rotate_z sequence", inp, || {
                    let (mut ir, mut ic) = (rm::Mat2::<X>::build(m), cm::Mat2::<X>::build(m)); ir.rotate_z(a.tok()); ir.rotate_z(b.tok()); ic.rotate_z(a.tok()); ic.rotate_z(b.tok());
                    (ir.decode(), rm::Mat2::<X>::build(m).rotated_z(a.tok()).rotated_z(b.tok()).decode(), ic.decode(), cm::Mat2::<X>::build(m).rotated_z(a.tok()).rotated_z(b.tok()).decode())
                }) {
                    if r1 != want || r2 != want { s.violation_w("Mat2<row>::rotate_z sequence", "two-successive-rotations-are-not-the-rotation-by-the-sum", json!({"input": inp(), "in_place": jmat(&r1), "by_value": jmat(&r2), "want": jmat(&want)}), w); }
                    if c1 != want || c2 != want { s.violation_w("Mat2<col>::rotate_z sequence", "two-successive-rotations-are-not-the-rotation-by-the-sum", json!({"input": inp(), "in_place": jmat(&c1), "by_value": jmat(&c2), "want": jmat(&want)}), w); }
                }
            }
            for v in &vs { let want = mvec(&rot, v);
                let inp = || json!({"v": jxs(v), "a": a.json(), "b": b.json()});
                s.eval(nontriv && *v != [qi(0), qi(0)]); s.class("vec2-additive");
                if let Some((g, ip)) = s.call("Vec2::rotated_z", inp, || { let vv = Vec2 { x: v[0], y: v[1] }; let mut ip = vv; ip.rotate_z(a.tok()); ip.rotate_z(b.tok()); (dv2(&vv.rotated_z(a.tok()).rotated_z(b.tok())), dv2(&ip)) }) {
                    if g != want { s.violation_w("Vec2::rotated_z", "two-successive-rotations-are-not-the-rotation-by-the-sum", json!({"input": inp(), "got": jxs(&g), "want": jxs(&want)}), w); }
                    if ip != want { s.violation_w("Vec2::rotate_z", "two-successive-rotations-are-not-the-rotation-by-the-sum", json!({"input": inp(), "got": jxs(&ip), "want": jxs(&want)}), w); }
                }
            }
        } } }
    });

    // ---- 12. exact tier: extreme axis lengths -----------------------------------------------------------
    rep.section("extreme axis lengths (exact): rotation_3d(theta, lambda*unit) = Rodrigues(unit) for lambda = 2^+-27, 2^+-40, 3*2^-33, 5*2^35",
        &format!("every unit axis of the thinned family (coordinate and rational unit vectors) x lambda in {{2^-40, 2^-27, 3*2^-33, 2^27, 5*2^35, 2^40}} (squared lengths from 2^-80 to 2^80: far below the element type's epsilon 2^-52 and far above its reciprocal, so a small-length guard or an epsilon comparison inside the builder would misfire) x every even-multiple angle: decoded rotation_3d of Mat3/Mat4 (both layouts) == Rodrigues(unit axis) and Quaternion::rotation_3d fields == +-(unit sin(theta/2), cos(theta/2)), independent oracle; non-trivial: R != I.  {}", bezout), true, false, |s| {
        s.require_classes(&["lambda-tiny", "lambda-huge"]);
        let p2 = |k: u32| qi(1i128 << k);
        let lams: Vec<(X, &'static str)> = vec![(qi(1) / p2(40), "lambda-tiny"), (qi(1) / p2(27), "lambda-tiny"), (qi(3) / p2(33), "lambda-tiny"), (p2(27), "lambda-huge"), (qi(5) * p2(35), "lambda-huge"), (p2(40), "lambda-huge")];
        let units: Vec<Axis> = few_axes.iter().filter(|a| a.lam == qi(1)).copied().collect();
        sec_extreme_exact::<3, rm::Mat3<X>>(s, &units, &lams, &even); sec_extreme_exact::<3, cm::Mat3<X>>(s, &units, &lams, &even);
        sec_extreme_exact::<4, rm::Mat4<X>>(s, &units, &lams, &even); sec_extreme_exact::<4, cm::Mat4<X>>(s, &units, &lams, &even);
        for ax0 in &units { for &(lam, cls) in &lams { let ax = Axis { unit: ax0.unit, lam }; let given = ax.given(); for &a in &even {
            let want_q = ref_quat(&ax.unit, a);
            let inp = || json!({"angle": a.json(), "axis": ax.json()});
            s.eval(!a.trivial()); s.class(cls);
            if let Some(g) = s.call("Quaternion::rotation_3d", inp, || dq(Quaternion::rotation_3d(a.tok(), v3(&given)))) {
                if g != want_q && g != negq(&want_q) { s.violation_w("Quaternion::rotation_3d", "not-half-angle-axis-form-at-extreme-axis-length", json!({"input": inp(), "got_xyzw": jxs(&g), "want_xyzw": jxs(&want_q)}), a.weight() + ax0.weight()); }
            }
        } } }
        alphabet_meta(s, &even, units.len());
    });

    // ---- 13./14. float tier extensions ------------------------------------------------------------------
    let rule_fx = "(a) extreme axis lengths: integer axes of {-2..2}^3 minus 0 (thorough {-3..3}^3) and six irregular axes (components of very different size, non-dyadic components; the oracle normalises the T-rounded components in f64) scaled by 2^e, e in {+-40, 13, -31} for f32 and {+-400, 133, -271} for f64 (thorough also +-60 / +-500 and +-1), x 16 angles (thorough 102): rotation_3d of Mat3/Mat4 (both layouts), Mat::from(Quaternion::rotation_3d) and the fields of Quaternion::rotation_3d (up to a common sign) vs Rodrigues / (k sin(theta/2), cos(theta/2)) of the UNSCALED axis computed in f64 (a power-of-two factor is exact in every operation of the normalisation, and the squared length stays inside the normal range, so the result must not depend on it; a guard against short axes or a product of squared lengths breaks here); (b) special and large angles: +-0, +-pi, +-pi/2, 2pi, +-2^-30, 2^-60, +-1e3, 12345.678, -54321, +-1e6, 2^20+0.5, 1e8 (thorough: 800 more up to 1e7 and 2^-1..2^-59) plus 24 (thorough 256) ordinary angles: rotation_x/y/z, Mat2::rotation_z, Vec2 rotated_z/rotate_z (incl. v = 0), Quaternion::rotation_x/y/z fields and Mat3/Mat4::from of them, the chained and in-place forms rotated_*/rotate_* of Mat2/Mat3/Mat4 (both layouts; self = full non-symmetric matrix) and Quaternion (self = (1,-1,1,1)/2) over every 7th grid axis and the irregular ones vs the f64 reference product (bound per column: 256 eps * sum |self| of the column), and the scalar-broadcast axis form rotation_3d(theta, 2.5) = axis (1,1,1); (c) Vec2 scaled by 2^+-40 and 2^+-90 (f32) / 2^+-400 and 2^+-900 (f64): rotation is linear, result/scale must match within 256 eps (|x|+|y|); the oracle uses f64 sin/cos of exactly the angle the code received; non-trivial: all";
    rep.section("float tier f64: extreme axis lengths, special and large angles, chained/in-place and quaternion x/y/z forms, Vec2 at extreme magnitudes", rule_fx, true, false, |s| float_ext!(s, f64, 400, 133, 500, 900));
    rep.section("float tier f32: extreme axis lengths, special and large angles, chained/in-place and quaternion x/y/z forms, Vec2 at extreme magnitudes", rule_fx, true, false, |s| float_ext!(s, f32, 40, 13, 60, 90));

    // ==== additions of the second audit round ===========================================================
    // ---- 15. exact tier: angles next to 0, a quarter turn, a half turn ---------------------------------
    rep.section("angles next to the special ones (exact): theta = +-2^-30, +-2^-27, +-2^-22, pi/2 +- 2^-30, pi +- 2^-30, pi +- 2^-19",
        "angle tokens of rational circle points with parameter t = 2^-31, 2^-28 (theta = 4 atan t/2: about 2^-30 and 2^-27: below the square root of the element type's epsilon 2^-52, so a guard of the kind `angle^2 < eps`, `1 - cos < eps`, `|sin| < sqrt eps` misfires), t = 2^31 (pi - 2^-30), t = 1 +- 2^-30 (pi/2 +- 2^-30), both signs, and the even multiples 2*arg(z) for t = 2^-24 (theta about 2^-22) and t = 1 +- 2^-20 (theta = pi +- 2^-19) which the half-angle quaternion code accepts: rotation_x/y/z/3d of Mat3/Mat4 (both layouts) == Rodrigues, rotated_* on a full integer self == reference product, rotate_* == rotated_*, Mat2 likewise, Vec2 rotated_z / rotate_z == (c x - s y, s x + c y); for the even multiples also Quaternion::rotation_x/y/z/3d fields == +-(axis sin(theta/2), cos(theta/2)), rotated_*/rotate_* on a unit quaternion == +-Hamilton product, Mat3/Mat4::from(Quaternion::rotation_3d) == Rodrigues; axes: e_i and three rational unit vectors (one of them scaled by 3); non-trivial: all (no angle is a multiple of 2 pi)", true, false, |s| {
        s.require_classes(&["theta-tiny", "theta-next-to-quarter-turn", "theta-next-to-half-turn", "quaternion-theta-tiny", "quaternion-theta-next-to-half-turn"]);
        let p = |k: u32| 1i128 << k;
        let odd_near: Vec<(Ang, &'static str)> = vec![
            (ang(1, p(31), 1), "theta-tiny"), (ang(1, p(31), -1), "theta-tiny"), (ang(1, p(28), 1), "theta-tiny"), (ang(-1, p(28), 1), "theta-tiny"),
            (ang(p(31), 1, 1), "theta-next-to-half-turn"), (ang(p(31), 1, -1), "theta-next-to-half-turn"), (ang(p(28), 1, 1), "theta-next-to-half-turn"),
            (ang(p(30) + 1, p(30), 1), "theta-next-to-quarter-turn"), (ang(p(30) - 1, p(30), 1), "theta-next-to-quarter-turn"), (ang(p(30) + 1, p(30), -1), "theta-next-to-quarter-turn"), (ang(p(30) - 1, p(30), -1), "theta-next-to-quarter-turn")];
        let even_near: Vec<(Ang, &'static str)> = vec![(ang(1, p(24), 2), "theta-tiny"), (ang(1, p(24), -2), "theta-tiny"), (ang(p(20) + 1, p(20), 2), "theta-next-to-half-turn"), (ang(p(20) - 1, p(20), 2), "theta-next-to-half-turn"), (ang(p(20) - 1, p(20), -2), "theta-next-to-half-turn")];
        let near_axes: Vec<Axis> = vec![Axis { unit: [q(2, 7), q(3, 7), q(6, 7)], lam: qi(1) }, Axis { unit: [q(1, 3), q(-2, 3), q(2, 3)], lam: qi(3) }, Axis { unit: [qi(0), q(-3, 5), q(4, 5)], lam: qi(1) }, Axis { unit: [qi(0), qi(-1), qi(0)], lam: qi(1) }];
        // coordinate axes only for the largest numbers (t = 2^+-31 leaves no room for the denominators of a general axis)
        let small_axes: Vec<Axis> = vec![Axis { unit: [qi(0), qi(-1), qi(0)], lam: qi(2) }];
        let (big, rest): (Vec<(Ang, &'static str)>, Vec<(Ang, &'static str)>) = odd_near.iter().copied().partition(|(a, _)| a.tn.max(a.td) >= p(30));
        let i2: A<X, 2> = [[qi(1), qi(2)], [qi(3), qi(5)]];
        for (angs, axs) in [(&big, &small_axes), (&rest, &near_axes), (&even_near, &near_axes)] {
            sec_near::<3, rm::Mat3<X>>(s, angs, axs, &i3); sec_near::<3, cm::Mat3<X>>(s, angs, axs, &i3);
            sec_near::<4, rm::Mat4<X>>(s, angs, axs, &i4); sec_near::<4, cm::Mat4<X>>(s, angs, axs, &i4);
            sec_near2::<rm::Mat2<X>>(s, angs, &i2); sec_near2::<cm::Mat2<X>>(s, angs, &i2);
            for &(a, cls) in angs.iter() { let (c, sn) = a.cs(); let t = a.tok(); for v in [[qi(1), qi(0)], [qi(0), qi(1)], [qi(3), qi(-4)], [q(1, 2), qi(7)]] {
                let want = [c * v[0] - sn * v[1], sn * v[0] + c * v[1]];
                let inp = || json!({"v": jxs(&v), "angle": near_json(a)});
                s.eval(true); s.class(cls);
                if let Some((g, ip)) = s.call("Vec2::rotated_z", inp, || { let vv = Vec2 { x: v[0], y: v[1] }; let mut ip = vv; ip.rotate_z(t); (dv2(&vv.rotated_z(t)), dv2(&ip)) }) {
                    if g != want { s.violation_w("Vec2::rotated_z", "not-ccw-rotation-next-to-a-special-angle", json!({"input": inp(), "got": jxs(&g), "want": jxs(&want)}), 1); }
                    if ip != g { s.violation_w("Vec2::rotate_z", "in-place-form-differs-next-to-a-special-angle", json!({"input": inp(), "rotate_z": jxs(&ip), "rotated_z": jxs(&g)}), 1); }
                }
            } }
        }
        // quaternions (even multiples)
        for &(a, cls) in &even_near { let (c, sn) = a.cs(); let t = a.tok(); for kind in 0..(3 + near_axes.len()) {
            let (unit, given, name) = if kind < 3 { (e3(kind), e3(kind), XYZ[kind].to_string()) } else { (near_axes[kind - 3].unit, near_axes[kind - 3].given(), "3d".to_string()) };
            let rq = ref_quat(&unit, a);
            let q0 = &q0s[kind % 3];
            let hw = ham(&rq, q0);
            let want_m = rodrigues(&unit, c, sn);
            let inp = || json!({"angle": near_json(a), "axis": jxs(&given), "self_xyzw": jxs(q0)});
            s.eval(true); s.class(if cls == "theta-tiny" { "quaternion-theta-tiny" } else { "quaternion-theta-next-to-half-turn" });
            let site = format!("Quaternion::rotation_{}", name);
            let r = s.call(&site, inp, || { let real_q = mkq(q0); let mut ip = real_q; match kind { 0 => { ip.rotate_x(t); (dq(Quaternion::rotation_x(t)), dq(real_q.rotated_x(t)), dq(ip)) } 1 => { ip.rotate_y(t); (dq(Quaternion::rotation_y(t)), dq(real_q.rotated_y(t)), dq(ip)) } 2 => { ip.rotate_z(t); (dq(Quaternion::rotation_z(t)), dq(real_q.rotated_z(t)), dq(ip)) } _ => { ip.rotate_3d(t, v3(&given)); (dq(Quaternion::rotation_3d(t, v3(&given))), dq(real_q.rotated_3d(t, v3(&given))), dq(ip)) } } });
            if let Some((g, ret, ip)) = r {
                if g != rq && g != negq(&rq) { s.violation_w(&site, "not-half-angle-axis-form-next-to-a-special-angle", json!({"input": inp(), "got_xyzw": jxs(&g), "want_xyzw": jxs(&rq)}), 1); }
                if ret != hw && ret != negq(&hw) { s.violation_w(&format!("Quaternion::rotated_{}", name), "not-the-hamilton-product-rotation*self-next-to-a-special-angle", json!({"input": inp(), "got_xyzw": jxs(&ret), "want_xyzw": jxs(&hw)}), 1); }
                if ip != ret { s.violation_w(&format!("Quaternion::rotate_{}", name), "in-place-form-differs-next-to-a-special-angle", json!({"input": inp(), "rotate": jxs(&ip), "rotated": jxs(&ret)}), 1); }
            }
            if let Some((m3r, m3c, m4r, m4c)) = s.call("Mat::from(Quaternion::rotation_3d)", inp, || { let qq = Quaternion::rotation_3d(t, v3(&given)); (rm::Mat3::<X>::from(qq).decode(), cm::Mat3::<X>::from(qq).decode(), rm::Mat4::<X>::from(qq).decode(), cm::Mat4::<X>::from(qq).decode()) }) {
                let w4 = embed::<X, 3, 4>(&want_m);
                if m3r != want_m || m3c != want_m || m4r != w4 || m4c != w4 { s.violation_w("Mat::from(Quaternion::rotation_3d)", "not-rodrigues-next-to-a-special-angle", json!({"input": inp(), "Mat3<row>": jmat(&m3r), "Mat3<col>": jmat(&m3c), "Mat4<row>": jmat(&m4r), "Mat4<col>": jmat(&m4c), "want": jmat(&want_m)}), 1); }
            }
        } }
        s.meta("odd_multiples", json!(odd_near.len())); s.meta("even_multiples", json!(even_near.len()));
    });

    // ---- 16. exact tier: nearly-unit axes ---------------------------------------------------------------
    rep.section("nearly-unit and nearly-coordinate axes (exact): |axis| = 1 +- 2^-55, 1 +- 2^-30, 1 +- 2^-12; one component about 2^-26",
        &format!("unit axes +-e_i and four rational unit vectors scaled by lambda in {{1 + 2^-55, 1 - 2^-55, 1 + 2^-30, 1 - 2^-30, 1 + 2^-12, 1 - 2^-12}} (|axis|^2 - 1 about 2^-54: below the element type's epsilon 2^-52, so an `already normalised` shortcut keyed on epsilon, on is_normalized() or on a fixed small threshold skips the normalisation and the result stops being a rotation) x eight even-multiple angles: decoded rotation_3d of Mat3/Mat4 (both layouts) == Rodrigues(unit axis), rotated_3d on a full integer self == reference product, rotate_3d == rotated_3d, Mat::from(Quaternion::rotation_3d) == Rodrigues, Quaternion::rotation_3d fields == +-(unit sin(theta/2), cos(theta/2)); nearly coordinate axes: the rational unit vectors (2m, m^2-1, 0)/(m^2+1), m = 2^27 and 2^12, in three placements with signs, unit and scaled by 3 (one component about 2^-26 resp. 2^-11: a `single non-zero lane` shortcut with a threshold, or a guard comparing a component with sqrt(epsilon), takes the wrong axis) x five angles, same calls; non-trivial: R != I.  {}", bezout), true, false, |s| {
        s.require_classes(&["lambda-1+-2^-55", "lambda-1+-2^-30", "lambda-1+-2^-12", "axis-nearly-coordinate"]);
        let p2 = |k: u32| qi(1i128 << k);
        let lams: Vec<(X, &'static str)> = vec![(qi(1) + qi(1) / p2(55), "lambda-1+-2^-55"), (qi(1) - qi(1) / p2(55), "lambda-1+-2^-55"), (qi(1) + qi(1) / p2(30), "lambda-1+-2^-30"), (qi(1) - qi(1) / p2(30), "lambda-1+-2^-30"), (qi(1) + qi(1) / p2(12), "lambda-1+-2^-12"), (qi(1) - qi(1) / p2(12), "lambda-1+-2^-12")];
        let mut units: Vec<Axis> = axes.iter().filter(|a| a.coordinate() && a.lam == qi(1)).copied().collect();
        for u in [[q(2, 7), q(3, 7), q(6, 7)], [q(1, 3), q(-2, 3), q(2, 3)], [qi(0), q(-3, 5), q(4, 5)], [q(-4, 9), q(-4, 9), q(7, 9)]] { units.push(Axis { unit: u, lam: qi(1) }); }
        let angs: Vec<Ang> = vec![ang(1, 3, 2), ang(1, 2, 2), ang(1, 1, 2), ang(2, 1, 2), ang(5, 1, 2), ang(1, 2, -2), ang(1, 5, 4), ang(0, 1, 2)];
        sec_nearly_unit::<3, rm::Mat3<X>>(s, &units, &lams, &angs, &i3); sec_nearly_unit::<3, cm::Mat3<X>>(s, &units, &lams, &angs, &i3);
        sec_nearly_unit::<4, rm::Mat4<X>>(s, &units, &lams, &angs, &i4); sec_nearly_unit::<4, cm::Mat4<X>>(s, &units, &lams, &angs, &i4);
        for ax0 in &units { for &(lam, cls) in &lams { let ax = Axis { unit: ax0.unit, lam }; let given = ax.given(); for &a in &angs {
            let want_q = ref_quat(&ax.unit, a);
            let inp = || json!({"angle": a.json(), "axis": ax.json()});
            s.eval(!a.trivial()); s.class(cls);
            if let Some(g) = s.call("Quaternion::rotation_3d", inp, || dq(Quaternion::rotation_3d(a.tok(), v3(&given)))) {
                if g != want_q && g != negq(&want_q) { s.violation_w("Quaternion::rotation_3d", "not-half-angle-axis-form-at-nearly-unit-axis-length", json!({"input": inp(), "got_xyzw": jxs(&g), "want_xyzw": jxs(&want_q)}), a.weight() + ax0.weight()); }
            }
        } } }
        // nearly coordinate axes: Pythagorean (2mn, m^2-n^2, 0)/(m^2+n^2) with m = 2^27 (one component about 2^-26, just below sqrt(epsilon)) and m = 2^12
        let mut nc: Vec<Axis> = Vec::new();
        for mm in [1i128 << 27, 1i128 << 12] { let (a, b, c) = (2 * mm, mm * mm - 1, mm * mm + 1);
            nc.push(Axis { unit: [q(a, c), q(b, c), qi(0)], lam: qi(1) }); nc.push(Axis { unit: [qi(0), q(-a, c), q(-b, c)], lam: qi(1) }); nc.push(Axis { unit: [q(-b, c), qi(0), q(a, c)], lam: qi(1) }); }
        let nc_lams = [(qi(1), "axis-nearly-coordinate"), (qi(3), "axis-nearly-coordinate")];
        let nc_angs: Vec<Ang> = vec![ang(1, 3, 2), ang(1, 2, 2), ang(1, 1, 2), ang(2, 1, 2), ang(1, 2, -2)];
        sec_nearly_unit::<3, rm::Mat3<X>>(s, &nc, &nc_lams, &nc_angs, &i3); sec_nearly_unit::<3, cm::Mat3<X>>(s, &nc, &nc_lams, &nc_angs, &i3);
        sec_nearly_unit::<4, rm::Mat4<X>>(s, &nc, &nc_lams, &nc_angs, &i4); sec_nearly_unit::<4, cm::Mat4<X>>(s, &nc, &nc_lams, &nc_angs, &i4);
        alphabet_meta(s, &angs, units.len());
    });

    // ---- 17. exact tier: further self states of the chained / in-place forms ----------------------------
    rep.section("chained and in-place forms on further self states: projective, transposed-affine, sheared-affine, diagonal, singular, zero matrices; non-unit, w = 0, w = 1 quaternions",
        &format!("self: Mat4 with m33 = 1 but a bottom row (2,3,5,1) (a fast path keyed on the homogeneous entry alone goes wrong), with the last COLUMN (0,0,0,1) and a full bottom row, affine with a sheared (non-orthogonal) linear part, bottom row (0,0,0,2), diag(2,3,5,1), a rank-1 matrix, the zero matrix, -identity; Mat3 and Mat2 analogues x six even-multiple angles x (x, y, z, 3d over five axes): decoded m.rotated_*(theta) == reference product Rodrigues * m, m.rotate_*(theta) == rotated_* (same oracle and classes as the chained section); Quaternion self: unit with w = 0, the pure quaternions e_x, -identity, w < 0; NON-unit: 2 x a unit quaternion, (1,-1,1,1) and (2,4,4,1) (w = 1 without being the identity), (0,0,0,2), (0,3,4,0): q.rotate_*(theta) == q.rotated_*(theta) field by field (twin differential on every state) and q.rotated_*(theta) is the Hamilton product rotation * q as a point of projective space (proportional with a non-zero factor: a quaternion and its multiples are the same rotation; for unit self the fields are also == +-Hamilton product); non-trivial: the reference result differs from self.  {}", bezout), true, false, |s| {
        s.require_classes(&["order-matters", "commuting", "quaternion-self-unit", "quaternion-self-non-unit"]);
        let z = qi(0);
        let p4: A<X, 4> = [[qi(1), qi(2), qi(3), qi(4)], [qi(5), qi(6), qi(7), qi(8)], [qi(9), qi(10), qi(12), qi(11)], [qi(2), qi(3), qi(5), qi(1)]];
        let t4: A<X, 4> = transpose(&affine4(&i3, &[qi(1), qi(-2), qi(3)]));
        let a4: A<X, 4> = affine4(&i3, &[qi(4), qi(-8), qi(11)]);
        let b4: A<X, 4> = { let mut m = a4; m[3][3] = qi(2); m };
        let d4: A<X, 4> = [[qi(2), z, z, z], [z, qi(3), z, z], [z, z, qi(5), z], [z, z, z, qi(1)]];
        let k4: A<X, 4> = { let (u, v) = ([qi(1), qi(-2), qi(3), qi(1)], [qi(2), qi(1), qi(-1), qi(3)]); let mut m = zeros::<X, 4>(); for i in 0..4 { for j in 0..4 { m[i][j] = u[i] * v[j]; } } m };
        let n4: A<X, 4> = { let mut m = zeros::<X, 4>(); for i in 0..4 { m[i][i] = qi(-1); } m };
        let m4x = [p4, t4, a4, b4, d4, k4, zeros::<X, 4>(), n4];
        let p3: A<X, 3> = [[qi(1), qi(2), qi(3)], [qi(4), qi(5), qi(6)], [qi(2), qi(3), qi(1)]];
        let a3: A<X, 3> = [[qi(1), qi(2), qi(3)], [qi(4), qi(5), qi(6)], [z, z, qi(1)]];
        let t3: A<X, 3> = transpose(&a3);
        let d3: A<X, 3> = [[qi(2), z, z], [z, qi(3), z], [z, z, qi(1)]];
        let k3: A<X, 3> = { let (u, v) = ([qi(1), qi(-2), qi(3)], [qi(2), qi(1), qi(-1)]); let mut m = zeros::<X, 3>(); for i in 0..3 { for j in 0..3 { m[i][j] = u[i] * v[j]; } } m };
        let m3x = [p3, a3, t3, d3, k3, zeros::<X, 3>()];
        let m2x: [A<X, 2>; 5] = [[[qi(2), qi(3)], [qi(5), qi(1)]], [[qi(2), z], [z, qi(3)]], [[qi(1), qi(2)], [qi(2), qi(4)]], [[z, qi(1)], [qi(1), z]], zeros::<X, 2>()];
        let angs: Vec<Ang> = vec![ang(1, 3, 2), ang(1, 2, 2), ang(1, 1, 2), ang(2, 1, 2), ang(1, 2, -2), ang(1, 5, 4)];
        let ch_axes: Vec<Axis> = few_axes.iter().filter(|a| !a.coordinate()).step_by((few_axes.len() / 5).max(1)).take(5).copied().collect();
        sec_chain::<3, rm::Mat3<X>>(s, &m3x, &ch_axes, &angs); sec_chain::<3, cm::Mat3<X>>(s, &m3x, &ch_axes, &angs);
        sec_chain::<4, rm::Mat4<X>>(s, &m4x, &ch_axes, &angs); sec_chain::<4, cm::Mat4<X>>(s, &m4x, &ch_axes, &angs);
        sec_chain2::<rm::Mat2<X>>(s, &m2x, &angs); sec_chain2::<cm::Mat2<X>>(s, &m2x, &angs);
        // quaternion self states
        let uq = [q(6, 35), q(9, 35), q(18, 35), q(4, 5)];
        let qstates: Vec<([X; 4], bool)> = vec![([q(2, 7), q(3, 7), q(6, 7), z], true), ([qi(1), z, z, z], true), ([z, z, z, qi(-1)], true), ([q(-6, 35), q(9, 35), q(-18, 35), q(-4, 5)], true), ([z, q(3, 5), q(4, 5), z], true),
            ([uq[0] * qi(2), uq[1] * qi(2), uq[2] * qi(2), uq[3] * qi(2)], false), ([qi(1), qi(-1), qi(1), qi(1)], false), ([qi(2), qi(4), qi(4), qi(1)], false), ([z, z, z, qi(2)], false), ([z, qi(3), qi(4), z], false), ([q(1, 2), z, z, qi(1)], false)];
        for (q0, unit_self) in &qstates { let real_q = mkq(q0); for &a in &angs { let t = a.tok(); for kind in 0..(3 + ch_axes.len()) {
            let (unit, given, name) = if kind < 3 { (e3(kind), e3(kind), XYZ[kind].to_string()) } else { (ch_axes[kind - 3].unit, ch_axes[kind - 3].given(), "3d".to_string()) };
            let hw = ham(&ref_quat(&unit, a), q0);
            let inp = || json!({"self_xyzw": jxs(q0), "angle": a.json(), "axis": jxs(&given)});
            let w = a.weight();
            s.eval(hw != *q0); s.class(if *unit_self { "quaternion-self-unit" } else { "quaternion-self-non-unit" });
            let site = format!("Quaternion::rotated_{}", name);
            let r = s.call(&site, inp, || { let mut ip = real_q; match kind { 0 => { ip.rotate_x(t); (dq(real_q.rotated_x(t)), dq(ip)) } 1 => { ip.rotate_y(t); (dq(real_q.rotated_y(t)), dq(ip)) } 2 => { ip.rotate_z(t); (dq(real_q.rotated_z(t)), dq(ip)) } _ => { ip.rotate_3d(t, v3(&given)); (dq(real_q.rotated_3d(t, v3(&given))), dq(ip)) } } });
            if let Some((ret, ip)) = r {
                if *unit_self { if ret != hw && ret != negq(&hw) { s.violation_w(&site, "not-the-hamilton-product-rotation*self", json!({"input": inp(), "got_xyzw": jxs(&ret), "want_xyzw": jxs(&hw)}), w); } }
                else if !proportional(&ret, &hw) { s.violation_w(&site, "not-the-hamilton-product-rotation*self-up-to-scale", json!({"input": inp(), "got_xyzw": jxs(&ret), "want_xyzw_up_to_scale": jxs(&hw)}), w); }
                if ip != ret { s.violation_w(&format!("Quaternion::rotate_{}", name), "in-place-form-differs", json!({"input": inp(), "rotate": jxs(&ip), "rotated": jxs(&ret)}), w); }
                if !*unit_self && kind == 3 && s.wants_sample() { s.sample(json!({"call": site, "input": inp(), "real_output_xyzw": jxs(&ret)})); }
            }
        } } }
        s.meta("mat4_states", json!(m4x.len())); s.meta("mat3_states", json!(m3x.len())); s.meta("mat2_states", json!(m2x.len())); s.meta("quaternion_states", json!(qstates.len())); s.meta("axes", json!(ch_axes.len()));
        alphabet_meta(s, &angs, ch_axes.len());
    });

    // ---- 18./19. float tier: forward bounds entry by entry -----------------------------------------------
    let rule_f2 = "(e) angle ladders c0 +- 2^-j next to c0 in {0, +-pi/2, +-pi, +-3pi/2, +-2pi} (c0 rounded to the type; j in {2,5,9,14,18,22,26,30,35,40,45,49,51} for f64, j <= 22 for f32; thorough every j), c0 itself and its two neighbours, and angles below epsilon (2^-53, 2^-60, 2^-80, 2^-100 for f64; 2^-24, 2^-30, 2^-40 for f32) x ten axes (coordinate, integer, components of very different size): every entry of rotation_3d, rotation_x/y/z, Mat2::rotation_z and of Mat3/Mat4::from(Quaternion::rotation_*) (both layouts) within 32 eps (|k_i k_j| + |k_m sin theta|) of the Rodrigues entry (diagonal: 32 eps; structurally zero / one entries exactly), the bound being derived from the formula (see KS); so the sine entries are checked RELATIVE to |sin theta| (a tiny-angle shortcut returning the identity is off by 100% there although far inside any absolute tolerance); the chained and in-place forms on a diagonal self diag(2,-3,.5,1) (every entry of the product is one product, the bound scales with |d_j|); Quaternion::rotation_3d/x/y/z fields and identity.rotated_*/rotate_* within 16 eps relative per field (cos(theta/2) is computed directly, so w is relative-accurate next to a half turn: a half angle through sin/(1+cos) is not); Vec2 rotated_z/rotate_z within 8 eps (|c x| + |s y|) per component; (f) nearly-unit axes: six directions scaled by 1 +- 2^-j, j in {3,8,...,48,51} (f32: j <= 22; thorough every j) x five angles: same bounds against the f64-normalised axis (an `already normalised` shortcut with any threshold above a few hundred eps shows); nearly coordinate axes (1, t, 0), (t, -1, t), (0, -t, 2), (-3t, 0, -1) with t = 2^-j, j in {10, 20, 27, 30, 40, 53, 58} (f32: j <= 30): same bounds (the small entries k_i k_j (1-cos) and k_m sin are checked relative to themselves, so dropping a small component shows); (a') axes of {-2..2}^3 with squared length <= 9 scaled by 2^+-510 (f64) / 2^+-62 (f32): the squared length is still a normal number, the result must not change; (g) chained / in-place forms on a Mat4 with m33 = 1 and bottom row (2,3,5,1), a sheared affine Mat4, a Mat4 with last column e_w, Mat3 analogues (bound per column as in the chained float section); Quaternion self states (non-unit with w = 1, w = 0, (0,0,0,2), unit with w < 0, -identity): rotate_* within 16 eps sum|self| of rotated_*, and rotated_* normalised == Hamilton product normalised (f64) within 64 eps; non-trivial: all";
    rep.section("float tier f64: entrywise forward bounds next to special angles, below epsilon, nearly-unit axes, range-limit axes, further self states", rule_f2, true, false, |s| float_ext2!(s, f64, 51, [53, 60, 80, 100], 510));
    rep.section("float tier f32: entrywise forward bounds next to special angles, below epsilon, nearly-unit axes, range-limit axes, further self states", rule_f2, true, false, |s| float_ext2!(s, f32, 22, [24, 30, 40], 62));

    std::process::exit(rep.finish());
}
