//! C05 — quaternions form the Hamilton algebra and rotate vectors like their matrix.
//!
//! Complete tier: every ring law is a polynomial (or rational) identity in the quaternion / vector
//! components; the real code is run on exact rationals at every point of a simplex lattice whose order
//! is at least the total degree measured by a `Deg` run of the very same code (which also proves the
//! code path branch-free).  Unit quaternions are reached through the stereographic rational
//! parametrisation, which turns "for all unit quaternions" into a polynomial identity as well.
//! Bounded tier: rotation_from_to_3d (square roots, a branch), into_angle_axis (acos), magnitude /
//! normalized (sqrt) on explicit finite families in exact rationals, plus f64/f32 grids.
//! Reference model: the i,j,k multiplication table extended bilinearly, over plain arrays.
use rayon::prelude::*;
use std::collections::BTreeMap;
use std::sync::atomic::{AtomicU64, Ordering::Relaxed};
use vek::Quaternion;
use vx::fr::{Deg, Fr};
use vx::lattice::*;
use vx::matx::*;
use vx::q::{angle_base_t, clear_inverse, register_inverse};
use vx::term::Term;
use vx::*;

type Q4<T> = [T; 4];
const Z: X = X::R(Q::ZERO);
const ONE: X = X::R(Q::ONE);
fn mkq<T: Copy>(a: &Q4<T>) -> Quaternion<T> { Quaternion { x: a[0], y: a[1], z: a[2], w: a[3] } }
fn dq<T: Copy>(q: Quaternion<T>) -> Q4<T> { [q.x, q.y, q.z, q.w] }
fn xs<const N: usize>(a: &[i64]) -> [X; N] { let mut v = [Z; N]; for i in 0..N { v[i] = qi(a[i] as i128); } v }
fn wsum(a: &[i64]) -> u64 { a.iter().map(|v| v.unsigned_abs()).sum() }
fn wx(a: &[X]) -> u64 { a.iter().map(|v| { let r = v.rat(); (r.n.unsigned_abs() + r.d.unsigned_abs() - 1) as u64 }).sum() }
fn pad<T: Copy, const N: usize>(a: &[T; 3], w: T) -> [T; N] { let mut v = [w; N]; for i in 0..3.min(N) { v[i] = a[i]; } v }
fn e3(i: usize) -> [X; 3] { let mut v = [Z; 3]; v[i] = ONE; v }
struct Cnt(AtomicU64);
impl Cnt { fn new() -> Cnt { Cnt(AtomicU64::new(0)) } fn inc(&self) { self.0.fetch_add(1, Relaxed); } fn get(&self) -> u64 { self.0.load(Relaxed) } }

// ---- reference model: the Hamilton algebra from its multiplication table ---------------------------
/// basis order [i, j, k, 1] (= the public fields x, y, z, w).  TABLE[a][b] = (sign, index) of e_a e_b,
/// written down from  i^2 = j^2 = k^2 = ijk = -1  (ij = k, jk = i, ki = j, and the reversed products negated).
const TABLE: [[(i8, usize); 4]; 4] = [
    [(-1, 3), (1, 2), (-1, 1), (1, 0)],  // i*i = -1, i*j =  k, i*k = -j, i*1 = i
    [(-1, 2), (-1, 3), (1, 0), (1, 1)],  // j*i = -k, j*j = -1, j*k =  i, j*1 = j
    [(1, 1), (-1, 0), (-1, 3), (1, 2)],  // k*i =  j, k*j = -i, k*k = -1, k*1 = k
    [(1, 0), (1, 1), (1, 2), (1, 3)],    // 1*e = e
];
fn ham<T: Ring>(p: &Q4<T>, q: &Q4<T>) -> Q4<T> {
    let mut o = [T::zero(); 4];
    for a in 0..4 { for b in 0..4 { let (sg, k) = TABLE[a][b]; let t = p[a] * q[b]; o[k] = if sg > 0 { o[k] + t } else { o[k] - t }; } }
    o
}
fn conj<T: Ring>(q: &Q4<T>) -> Q4<T> { [-q[0], -q[1], -q[2], q[3]] }
fn norm2<T: Ring>(q: &Q4<T>) -> T { q[0] * q[0] + q[1] * q[1] + q[2] * q[2] + q[3] * q[3] }
/// q (v,0) q*  — for a unit q this is the definition of "rotating v by q"; the scalar part is 0 for every q
fn sandwich<T: Ring>(q: &Q4<T>, v: &[T; 3]) -> Q4<T> { ham(&ham(q, &[v[0], v[1], v[2], T::zero()]), &conj(q)) }
fn rot<T: Ring>(q: &Q4<T>, v: &[T; 3]) -> [T; 3] { let s = sandwich(q, v); [s[0], s[1], s[2]] }
/// matrix of v -> q v q* (columns = images of the basis)
fn ref_q2m<T: Ring>(q: &Q4<T>) -> A<T, 3> {
    let mut m = [[T::zero(); 3]; 3];
    for j in 0..3 { let mut e = [T::zero(); 3]; e[j] = T::one(); let c = rot(q, &e); for i in 0..3 { m[i][j] = c[i]; } }
    m
}
fn rodrigues_f(k: &[f64; 3], c: f64, s: f64) -> A<f64, 3> {
    let mut m = [[0.0; 3]; 3];
    for j in 0..3 { let mut e = [0.0; 3]; e[j] = 1.0; let kxe = cross3(k, &e); let kd = k[j]; for i in 0..3 { m[i][j] = e[i] * c + kxe[i] * s + k[i] * kd * (1.0 - c); } }
    m
}

// ---- uniform access to the matrix API --------------------------------------------------------------
trait QM<T: Copy, const N: usize>: MatIO<T, N> + Copy {
    const NAME: &'static str;
    fn t_from_q(q: Quaternion<T>) -> Self;
    fn t_mulv(self, v: [T; N]) -> [T; N];
}
trait QR<T: Copy, const N: usize>: QM<T, N> {
    fn t_from_to(f: [T; 3], t: [T; 3]) -> Self;
    fn t_rot3d(a: T, ax: [T; 3]) -> Self;
}
macro_rules! qm { ($md:ident :: $M:ident, $N:expr, $V:ident, $name:expr; $($T:ty),*) => { $(
    impl QM<$T, $N> for $md::$M<$T> {
        const NAME: &'static str = $name;
        fn t_from_q(q: Quaternion<$T>) -> Self { Self::from(q) }
        fn t_mulv(self, v: [$T; $N]) -> [$T; $N] { (self * <$V<$T> as VecIO<$T, $N>>::build(&v)).decode() }
    } )* } }
macro_rules! qr { ($md:ident :: $M:ident, $N:expr; $($T:ty),*) => { $(
    impl QR<$T, $N> for $md::$M<$T> {
        fn t_from_to(f: [$T; 3], t: [$T; 3]) -> Self { Self::rotation_from_to_3d(v3(&f), v3(&t)) }
        fn t_rot3d(a: $T, ax: [$T; 3]) -> Self { Self::rotation_3d(a, v3(&ax)) }
    } )* } }
qm!(rm::Mat3, 3, Vec3, "Mat3<row>"; X, f64, f32, Deg);
qm!(cm::Mat3, 3, Vec3, "Mat3<col>"; X, f64, f32, Deg);
qm!(rm::Mat4, 4, Vec4, "Mat4<row>"; X, f64, f32, Deg);
qm!(cm::Mat4, 4, Vec4, "Mat4<col>"; X, f64, f32, Deg);
qr!(rm::Mat3, 3; X, f64, f32);
qr!(cm::Mat3, 3; X, f64, f32);
qr!(rm::Mat4, 4; X, f64, f32);
qr!(cm::Mat4, 4; X, f64, f32);

trait Fl: Copy + 'static { const NAME: &'static str; const EPS: f64; fn f(v: f64) -> Self; fn d(self) -> f64; }
impl Fl for f64 { const NAME: &'static str = "f64"; const EPS: f64 = f64::EPSILON; fn f(v: f64) -> f64 { v } fn d(self) -> f64 { self } }
impl Fl for f32 { const NAME: &'static str = "f32"; const EPS: f64 = f32::EPSILON as f64; fn f(v: f64) -> f32 { v as f32 } fn d(self) -> f64 { self as f64 } }

static VSEEN: std::sync::Mutex<BTreeMap<String, (u64, u64)>> = std::sync::Mutex::new(BTreeMap::new());
/// record a violation; after 200 of one kind in one section only those with a new smallest weight are itemised
/// (keeps failing runs fast; the number of un-itemised ones is reported in the evidence)
fn viol(s: &Section, site: &str, class: &str, detail: impl FnOnce() -> Value, weight: u64) {
    let key = format!("{} :: {}|{}", s.name, site, class);
    let emit = { let mut m = VSEEN.lock().unwrap(); let e = m.entry(key).or_insert((0, u64::MAX)); e.0 += 1; let em = e.0 <= 200 || weight < e.1; if weight < e.1 { e.1 = weight; } em };
    if emit { s.violation_w(site, class, detail(), weight); }
}
/// run verdict code that computes on real outputs: an overflow of the exact type there is unmodelled, never an abort
fn guarded(s: &Section, f: impl FnOnce()) { if let Err(e) = catch(f) { match e { Caught::Unmodelled(w) => s.unmodelled(w), Caught::Panic(m) => s.rep.machinery_error(format!("oracle panicked in '{}': {}", s.name, m)) } } }

// ---- premise bookkeeping ---------------------------------------------------------------------------
type Prem = std::cell::RefCell<BTreeMap<&'static str, Result<u32, String>>>;
/// measured degree (or the textbook fallback with the section degraded to bounded)
fn deg_of(prem: &Prem, s: &Section, name: &'static str, fallback: u32) -> u32 {
    match prem.borrow().get(name) {
        Some(Ok(d)) => { s.meta(&format!("measured_degree[{}]", name), json!(d)); *d }
        Some(Err(e)) => { s.degrade(&format!("premise '{}' failed: {}", name, e)); fallback }
        None => { s.degrade(&format!("premise '{}' was not measured", name)); fallback }
    }
}
fn lat_meta(s: &Section, key: &str, n: usize, d: u32) { s.meta(key, json!({"variables": n, "order": d, "points": lattice_count(n, d).to_string()})); }

fn main() {
    let rep = Report::start("C05", "exploration");
    let th = rep.thorough();
    let extra: u32 = if th { 6 } else { 3 };
    let prem: Prem = Default::default();

    // ---- 0a. the oracle itself --------------------------------------------------------------------
    rep.section("oracle self-check (not vek)", "the reference table satisfies i^2 = j^2 = k^2 = ijk = -1 and 1 is neutral; the reference product is associative and its sandwich q (v,0) q* has scalar part 0 on L(7,4); for unit quaternions p/|p| (p in {-2..2}^4 with perfect-square norm) the sandwich matrix is orthogonal with determinant +1 and equals the textbook matrix; a failure is a machinery error; non-trivial: all", true, false, |s| {
        let b = |i: usize| { let mut v = [Z; 4]; v[i] = ONE; v };
        let m1 = [Z, Z, Z, -ONE];
        let mut ok = true;
        for i in 0..3 { s.eval(true); ok &= ham(&b(i), &b(i)) == m1 && ham(&b(3), &b(i)) == b(i) && ham(&b(i), &b(3)) == b(i); }
        s.eval(true); ok &= ham(&ham(&b(0), &b(1)), &b(2)) == m1 && ham(&b(3), &b(3)) == b(3);
        lattice(7, 4, |a| { s.eval(true); let q: Q4<X> = xs(&a[..4]); let v: [X; 3] = xs(&a[4..]); if sandwich(&q, &v)[3] != Z { ok = false; } });
        lattice(12, 3, |a| { s.eval(true); let (p, q, r): (Q4<X>, Q4<X>, Q4<X>) = (xs(&a[..4]), xs(&a[4..8]), xs(&a[8..])); if ham(&ham(&p, &q), &r) != ham(&p, &ham(&q, &r)) { ok = false; } });
        tuples(&[-2i64, -1, 0, 1, 2], 4, |p| {
            let n2: i64 = p.iter().map(|v| v * v).sum();
            let Some(n) = Q::isqrt(n2 as i128) else { return }; if n == 0 { return; }
            s.eval(true);
            let q: Q4<X> = [q(p[0] as i128, n), q(p[1] as i128, n), q(p[2] as i128, n), q(p[3] as i128, n)];
            let m = ref_q2m(&q); let [x, y, z, w] = q; let two = qi(2);
            let tb: A<X, 3> = [[ONE - two * (y * y + z * z), two * (x * y - z * w), two * (x * z + y * w)], [two * (x * y + z * w), ONE - two * (x * x + z * z), two * (y * z - x * w)], [two * (x * z - y * w), two * (y * z + x * w), ONE - two * (x * x + y * y)]];
            if m != tb || mmul(&m, &transpose(&m)) != ident::<X, 3>() || det(&m) != ONE { ok = false; }
        });
        if !ok { s.rep.machinery_error("reference Hamilton algebra is wrong".to_string()); }
        s.sample(json!({"table": "i*j = k, j*k = i, k*i = j, i*i = j*j = k*k = -1", "fields": "x = i, y = j, z = k, w = 1"}));
    });

    // ---- 0b. premise ------------------------------------------------------------------------------
    rep.section("premise: the algebraic operations are branch-free ring code of the measured total degree",
        "one run of each operation on tropical degree values (inputs degree 1 or, for the partial degrees, degree 0; any comparison, cast, sqrt, abs or epsilon() aborts the run); the measured degrees fix the lattice orders of the complete sections below; non-trivial: all", true, true, |s| {
        let (v, c) = (Deg::VAR, Deg::CONST);
        let (qv, qc) = (mkq(&[v; 4]), mkq(&[c; 4]));
        let (v3v, v3c) = (Vec3 { x: v, y: v, z: v }, Vec3 { x: c, y: c, z: c });
        let (v4v, v4c) = (Vec4 { x: v, y: v, z: v, w: v }, Vec4 { x: c, y: c, z: c, w: c });
        let mut all: BTreeMap<&'static str, Value> = BTreeMap::new();
        let mut m = |name: &'static str, r: Result<Vec<Deg>, Caught>, allow_div: bool| {
            s.eval(true);
            let out = match r {
                Ok(ds) => { let n = ds.iter().map(|d| d.n).max().unwrap_or(0); let d = ds.iter().map(|d| d.d).max().unwrap_or(0);
                            if d != 0 && !allow_div { Err("a division is present".to_string()) } else { Ok(n.max(d)) } }
                Err(e) => Err(format!("{:?}", e)),
            };
            all.insert(name, match &out { Ok(d) => json!(d), Err(e) => json!(e) });
            if let Err(e) = &out { s.degrade(&format!("{}: {}", name, e)); }
            prem.borrow_mut().insert(name, out);
        };
        let f3 = |m: A<Deg, 3>| m.iter().flatten().copied().collect::<Vec<_>>();
        let f4 = |m: A<Deg, 4>| m.iter().flatten().copied().collect::<Vec<_>>();
        m("mul", catch(|| dq(qv * qv).to_vec()), false);
        m("(p*q)*r", catch(|| dq((qv * qv) * qv).to_vec()), false);
        m("p*(q*r)", catch(|| dq(qv * (qv * qv)).to_vec()), false);
        m("magnitude_squared", catch(|| vec![qv.magnitude_squared()]), false);
        m("|p*q|^2", catch(|| vec![(qv * qv).magnitude_squared()]), false);
        m("|p|^2*|q|^2", catch(|| vec![qv.magnitude_squared() * qv.magnitude_squared()]), false);
        m("dot", catch(|| vec![qv.dot(qv)]), false);
        m("conjugate", catch(|| dq(qv.conjugate()).to_vec()), false);
        m("conj(p*q)", catch(|| dq((qv * qv).conjugate()).to_vec()), false);
        m("conj(q)*conj(p)", catch(|| dq(qv.conjugate() * qv.conjugate()).to_vec()), false);
        m("q*conj(q)", catch(|| dq(qv * qv.conjugate()).to_vec()), false);
        m("q*Vec3", catch(|| dv3(&(qv * v3v)).to_vec()), false);
        m("q*Vec3 (in q)", catch(|| dv3(&(qv * v3c)).to_vec()), false);
        m("q*Vec3 (in v)", catch(|| dv3(&(qc * v3v)).to_vec()), false);
        m("q*Vec4", catch(|| dv4(&(qv * v4v)).to_vec()), false);
        m("q*Vec4 (in q)", catch(|| dv4(&(qv * v4c)).to_vec()), false);
        m("q*Vec4 (in v)", catch(|| dv4(&(qc * v4v)).to_vec()), false);
        m("(p*q)*Vec3", catch(|| dv3(&((qv * qv) * v3v)).to_vec()), false);
        m("p*(q*Vec3)", catch(|| dv3(&(qv * (qv * v3v))).to_vec()), false);
        m("(p*q)*Vec4", catch(|| dv4(&((qv * qv) * v4v)).to_vec()), false);
        m("p*(q*Vec4)", catch(|| dv4(&(qv * (qv * v4v))).to_vec()), false);
        m("Mat3<row>::from(q)", catch(|| f3(rm::Mat3::<Deg>::t_from_q(qv).decode())), false);
        m("Mat3<col>::from(q)", catch(|| f3(cm::Mat3::<Deg>::t_from_q(qv).decode())), false);
        m("Mat4<row>::from(q)", catch(|| f4(rm::Mat4::<Deg>::t_from_q(qv).decode())), false);
        m("Mat4<col>::from(q)", catch(|| f4(cm::Mat4::<Deg>::t_from_q(qv).decode())), false);
        m("Mat3<row>::from(q)*v (in q)", catch(|| rm::Mat3::<Deg>::t_from_q(qv).t_mulv([c; 3]).to_vec()), false);
        m("Mat3<col>::from(q)*v (in q)", catch(|| cm::Mat3::<Deg>::t_from_q(qv).t_mulv([c; 3]).to_vec()), false);
        m("Mat4<row>::from(q)*v (in q)", catch(|| rm::Mat4::<Deg>::t_from_q(qv).t_mulv([c; 4]).to_vec()), false);
        m("Mat4<col>::from(q)*v (in q)", catch(|| cm::Mat4::<Deg>::t_from_q(qv).t_mulv([c; 4]).to_vec()), false);
        m("Mat3<row>::from(q)*v (in v)", catch(|| rm::Mat3::<Deg>::t_from_q(qc).t_mulv([v; 3]).to_vec()), false);
        m("Mat3<col>::from(q)*v (in v)", catch(|| cm::Mat3::<Deg>::t_from_q(qc).t_mulv([v; 3]).to_vec()), false);
        m("Mat4<row>::from(q)*v (in v)", catch(|| rm::Mat4::<Deg>::t_from_q(qc).t_mulv([v; 4]).to_vec()), false);
        m("Mat4<col>::from(q)*v (in v)", catch(|| cm::Mat4::<Deg>::t_from_q(qc).t_mulv([v; 4]).to_vec()), false);
        m("inverse", catch(|| dq(qv.inverse()).to_vec()), true);
        m("q*inverse(q)", catch(|| dq(qv * qv.inverse()).to_vec()), true);
        m("inverse(q)*q", catch(|| dq(qv.inverse() * qv).to_vec()), true);
        s.meta("measured_degrees", json!(all));
        s.sample(json!({"operation": "(p*q)*Vec3", "inputs": "all 11 components = degree-1 variable", "measured_total_degree": all.get("(p*q)*Vec3")}));
    });
    let pd = |s: &Section, names: &[&'static str], fallback: u32| -> u32 { names.iter().map(|n| deg_of(&prem, s, n, fallback)).max().unwrap() };

    // ---- 1. Hamilton product ----------------------------------------------------------------------
    rep.section("Hamilton product: p*q is the bilinear extension of the i,j,k table",
        "all points of L(8, D), D = measured degree 2 + 2 (quick) / + 4 (thorough): components of p and q are non-negative integers with sum <= D (includes all 16 products of basis elements); the real p*q decoded by fields vs the reference table product; a polynomial identity of total degree <= D vanishing on L(n, D) vanishes identically, so this decides the law for all components; non-trivial: p != 0 and q != 0", true, true, |s| {
        s.require_classes(&["basis-pair", "order-matters", "commuting"]);
        let d = pd(s, &["mul"], 2) + extra;
        let (nb, nord, ncom) = (Cnt::new(), Cnt::new(), Cnt::new());
        par_lattice(8, d, |a| {
            let (p, q): (Q4<X>, Q4<X>) = (xs(&a[..4]), xs(&a[4..]));
            let (want, rev) = (ham(&p, &q), ham(&q, &p));
            let nz = p != [Z; 4] && q != [Z; 4];
            s.eval(nz);
            if wsum(&a[..4]) == 1 && wsum(&a[4..]) == 1 { nb.inc(); }
            if want != rev { nord.inc(); } else { ncom.inc(); }
            let inp = || json!({"p_xyzw": jxs(&p), "q_xyzw": jxs(&q)});
            if let Some(g) = s.call("Quaternion * Quaternion", inp, || dq(mkq(&p) * mkq(&q))) {
                if g != want { viol(s, "Quaternion * Quaternion", "not-the-hamilton-product", || json!({"input": inp(), "got_xyzw": jxs(&g), "want_xyzw": jxs(&want), "got_equals_q*p": g == rev}), wsum(a)); }
                if want != rev && wsum(a) == 2 && s.wants_sample() { s.sample(json!({"input": inp(), "real_output_xyzw": jxs(&g)})); }
            }
        });
        s.class_n("basis-pair", nb.get()); s.class_n("order-matters", nord.get()); s.class_n("commuting", ncom.get());
        lat_meta(s, "lattice", 8, d);
    });

    // ---- 2. identity ------------------------------------------------------------------------------
    rep.section("identity()/default() is the neutral element (0,0,0,1)",
        "all points of L(4, 1 + extra) (degree 1): identity()*q = q*identity() = q, the same with Default::default(); the fields of identity()/default()/zero() are read directly; non-trivial: q != 0", true, true, |s| {
        let d = 1 + extra;
        if pd(s, &["mul"], 2) > 2 { s.degrade("product degree above 2"); }
        s.eval(true);
        if let Some((i, dflt, z)) = s.call("Quaternion::identity", || json!(null), || (dq(Quaternion::<X>::identity()), dq(<Quaternion<X> as Default>::default()), dq(Quaternion::<X>::zero()))) {
            if i != [Z, Z, Z, ONE] { s.violation("Quaternion::identity", "not-(0,0,0,1)", json!({"got_xyzw": jxs(&i)})); }
            if dflt != [Z, Z, Z, ONE] { s.violation("Quaternion::default", "not-the-identity", json!({"got_xyzw": jxs(&dflt)})); }
            if z != [Z; 4] { s.violation("Quaternion::zero", "not-zero", json!({"got_xyzw": jxs(&z)})); }
        }
        par_lattice(4, d, |a| {
            let q: Q4<X> = xs(a);
            let inp = || json!({"q_xyzw": jxs(&q)});
            let id = Quaternion::<X>::identity(); let df = <Quaternion<X> as Default>::default();
            for (site, got) in [
                ("identity() * q", s.call("identity*q", inp, || dq(id * mkq(&q)))), ("q * identity()", s.call("q*identity", inp, || dq(mkq(&q) * id))),
                ("default() * q", s.call("default*q", inp, || dq(df * mkq(&q)))), ("q * default()", s.call("q*default", inp, || dq(mkq(&q) * df))),
            ] {
                s.eval(q != [Z; 4]);
                if let Some(g) = got { if g != q { viol(s, &format!("Quaternion {}", site), "identity-not-neutral", || json!({"input": inp(), "got_xyzw": jxs(&g)}), wsum(a)); } }
            }
        });
        s.sample(json!({"q_xyzw": [0, 1, 0, 0], "law": "identity()*q == q == q*identity()"}));
        lat_meta(s, "lattice", 4, d);
    });

    // ---- 3. associativity -------------------------------------------------------------------------
    rep.section("multiplication is associative: (p*q)*r = p*(q*r)",
        "all points of L(12, D), D = measured degree 3 + extra: real (p*q)*r == real p*(q*r) == reference triple product; non-trivial: p, q, r all non-zero", true, true, |s| {
        s.require_classes(&["three-distinct-imaginary-units"]);
        let d = pd(s, &["(p*q)*r", "p*(q*r)"], 3) + extra;
        let n3 = Cnt::new();
        par_lattice(12, d, |a| {
            let (p, q, r): (Q4<X>, Q4<X>, Q4<X>) = (xs(&a[..4]), xs(&a[4..8]), xs(&a[8..]));
            s.eval(p != [Z; 4] && q != [Z; 4] && r != [Z; 4]);
            if a[0] > 0 && a[5] > 0 && a[10] > 0 { n3.inc(); }
            let want = ham(&ham(&p, &q), &r);
            let inp = || json!({"p_xyzw": jxs(&p), "q_xyzw": jxs(&q), "r_xyzw": jxs(&r)});
            if let Some((l, rr)) = s.call("Quaternion * Quaternion", inp, || (dq((mkq(&p) * mkq(&q)) * mkq(&r)), dq(mkq(&p) * (mkq(&q) * mkq(&r))))) {
                if l != rr { viol(s, "Quaternion * Quaternion", "not-associative", || json!({"input": inp(), "(p*q)*r": jxs(&l), "p*(q*r)": jxs(&rr)}), wsum(a)); }
                else if l != want { viol(s, "Quaternion * Quaternion", "triple-product-wrong", || json!({"input": inp(), "got": jxs(&l), "want": jxs(&want)}), wsum(a)); }
                if a[0] > 0 && a[5] > 0 && a[10] > 0 && wsum(a) == 3 && s.wants_sample() { s.sample(json!({"input": inp(), "(p*q)*r = p*(q*r) =": jxs(&l)})); }
            }
        });
        s.class_n("three-distinct-imaginary-units", n3.get());
        lat_meta(s, "lattice", 12, d);
    });

    // ---- 4. norm ----------------------------------------------------------------------------------
    rep.section("the norm is multiplicative: |p*q|^2 = |p|^2 |q|^2; magnitude_squared and dot are the sums of products",
        "all points of L(8, D), D = measured degree 4 + extra: real (p*q).magnitude_squared() == real p.magnitude_squared() * q.magnitude_squared() == reference (sum of squares); p.dot(q) == sum p_i q_i and p.dot(p) == magnitude_squared; (magnitude() itself needs a square root: bounded section below); non-trivial: p != 0 and q != 0", true, true, |s| {
        let d = pd(s, &["|p*q|^2", "|p|^2*|q|^2", "dot", "magnitude_squared"], 4) + extra;
        par_lattice(8, d, |a| {
            let (p, q): (Q4<X>, Q4<X>) = (xs(&a[..4]), xs(&a[4..]));
            s.eval(p != [Z; 4] && q != [Z; 4]);
            let (np, nq) = (norm2(&p), norm2(&q));
            let wd = p[0] * q[0] + p[1] * q[1] + p[2] * q[2] + p[3] * q[3];
            let inp = || json!({"p_xyzw": jxs(&p), "q_xyzw": jxs(&q)});
            if let Some((npq, mp, mq, dt, dpp)) = s.call("Quaternion::magnitude_squared", inp, || ((mkq(&p) * mkq(&q)).magnitude_squared(), mkq(&p).magnitude_squared(), mkq(&q).magnitude_squared(), mkq(&p).dot(mkq(&q)), mkq(&p).dot(mkq(&p)))) {
                if mp != np || mq != nq { viol(s, "Quaternion::magnitude_squared", "not-the-sum-of-squares", || json!({"input": inp(), "got": [jx(mp), jx(mq)], "want": [jx(np), jx(nq)]}), wsum(a)); }
                if npq != mp * mq || npq != np * nq { viol(s, "Quaternion * Quaternion", "norm-not-multiplicative", || json!({"input": inp(), "|p*q|^2": jx(npq), "|p|^2|q|^2": jx(np * nq)}), wsum(a)); }
                if dt != wd || dpp != np { viol(s, "Quaternion::dot", "not-the-sum-of-products", || json!({"input": inp(), "p.q": jx(dt), "want": jx(wd), "p.p": jx(dpp)}), wsum(a)); }
                if wsum(a) == d as u64 && a[0] > 0 && a[7] > 0 && s.wants_sample() { s.sample(json!({"input": inp(), "|p*q|^2": jx(npq), "|p|^2": jx(mp), "|q|^2": jx(mq)})); }
            }
        });
        lat_meta(s, "lattice", 8, d);
    });

    // ---- 5. conjugation ---------------------------------------------------------------------------
    rep.section("conjugation negates the vector part and reverses products: (p*q)* = q* p*, q q* = |q|^2",
        "all points of L(8, D), D = measured degree 2 + extra: p.conjugate() fields == (-x,-y,-z,w); real (p*q).conjugate() == real q.conjugate()*p.conjugate() == reference; p*p.conjugate() == (0,0,0,|p|^2); non-trivial: p*q != q*p (the reversal is observable)", true, true, |s| {
        s.require_classes(&["reversal-observable"]);
        let d = pd(s, &["conj(p*q)", "conj(q)*conj(p)", "q*conj(q)", "conjugate"], 2) + extra;
        let nobs = Cnt::new();
        par_lattice(8, d, |a| {
            let (p, q): (Q4<X>, Q4<X>) = (xs(&a[..4]), xs(&a[4..]));
            let want = conj(&ham(&p, &q));
            let unrev = ham(&conj(&p), &conj(&q));
            s.eval(want != unrev); if want != unrev { nobs.inc(); }
            let inp = || json!({"p_xyzw": jxs(&p), "q_xyzw": jxs(&q)});
            if let Some((cp, l, r, pp)) = s.call("Quaternion::conjugate", inp, || (dq(mkq(&p).conjugate()), dq((mkq(&p) * mkq(&q)).conjugate()), dq(mkq(&q).conjugate() * mkq(&p).conjugate()), dq(mkq(&p) * mkq(&p).conjugate()))) {
                if cp != conj(&p) { viol(s, "Quaternion::conjugate", "not-(-x,-y,-z,w)", || json!({"q_xyzw": jxs(&p), "got_xyzw": jxs(&cp)}), wsum(&a[..4])); }
                if l != r || l != want { viol(s, "Quaternion::conjugate", "does-not-reverse-products", || json!({"input": inp(), "(p*q)*": jxs(&l), "q* p*": jxs(&r), "want": jxs(&want)}), wsum(a)); }
                if pp != [Z, Z, Z, norm2(&p)] { viol(s, "Quaternion::conjugate", "q-times-conjugate-not-the-squared-norm", || json!({"q_xyzw": jxs(&p), "q q*": jxs(&pp)}), wsum(&a[..4])); }
                if want != unrev && wsum(a) == 2 && s.wants_sample() { s.sample(json!({"input": inp(), "(p*q).conjugate()": jxs(&l)})); }
            }
        });
        s.class_n("reversal-observable", nobs.get());
        lat_meta(s, "lattice", 8, d);
    });

    // ---- 6. inverse -------------------------------------------------------------------------------
    rep.section("inverse is a two-sided inverse: q q^-1 = q^-1 q = 1 (formal fractions)",
        "the real inverse() run on formal fractions (no quotient is ever formed) at every point of L(4, D), D = measured cross-degree + extra: each component n/d of inverse(q) satisfies n |q|^2 = conj(q) d, and each component of q*inverse(q) and inverse(q)*q cross-multiplies to (0,0,0,1); a rational identity whose cross-multiplied form has degree <= D and vanishes on L(4, D) holds wherever the denominator |q|^2 is non-zero, i.e. for every non-zero quaternion; non-trivial: q != 0", true, true, |s| {
        let d = pd(s, &["inverse", "q*inverse(q)", "inverse(q)*q"], 8) + extra;
        par_lattice(4, d, |a| {
            s.eval(wsum(a) != 0);
            let qf: Q4<Fr> = [Fr::int(a[0] as i128), Fr::int(a[1] as i128), Fr::int(a[2] as i128), Fr::int(a[3] as i128)];
            let n2: i128 = a.iter().map(|v| (*v as i128) * (*v as i128)).sum();
            let cj = [-(a[0] as i128), -(a[1] as i128), -(a[2] as i128), a[3] as i128];
            let inp = || json!({"q_xyzw": a});
            let fs = |f: &Q4<Fr>| json!(f.iter().map(|e| format!("{}/{}", e.n, e.d)).collect::<Vec<_>>());
            if let Some((inv, l, r, ok_inv, ok_l, ok_r)) = s.call("Quaternion::inverse", inp, || {
                let q = mkq(&qf); let i = q.inverse(); let (inv, l, r) = (dq(i), dq(q * i), dq(i * q));
                let one = |p: &Q4<Fr>| p[0].eq_ratio(0, 1) && p[1].eq_ratio(0, 1) && p[2].eq_ratio(0, 1) && p[3].eq_ratio(1, 1);
                let ok_inv = (0..4).all(|k| inv[k].eq_ratio(cj[k], n2));
                (inv, l, r, ok_inv, one(&l), one(&r))
            }) {
                if !ok_inv { viol(s, "Quaternion::inverse", "not-conjugate-over-squared-norm", || json!({"input": inp(), "got": fs(&inv)}), wsum(a)); }
                if !ok_l { viol(s, "Quaternion::inverse", "q*inverse(q)-is-not-1", || json!({"input": inp(), "inverse": fs(&inv), "q*inverse(q)": fs(&l)}), wsum(a)); }
                if !ok_r { viol(s, "Quaternion::inverse", "inverse(q)*q-is-not-1", || json!({"input": inp(), "inverse": fs(&inv), "inverse(q)*q": fs(&r)}), wsum(a)); }
                if wsum(a) == 4 && a.iter().all(|v| *v == 1) && s.wants_sample() { s.sample(json!({"input": inp(), "inverse_as_formal_fractions": fs(&inv)})); }
            }
        });
        lat_meta(s, "lattice", 4, d);
    });
    rep.section("inverse on exact rationals (all signs)",
        "every non-zero q in {-3..3}^4 (thorough {-5..5}^4) and q/7: q*inverse(q) == inverse(q)*q == (0,0,0,1) exactly and inverse(q) == conj(q)/|q|^2; non-trivial: all", true, false, |s| {
        s.require_classes(&["unit-norm", "non-unit-norm", "fractional"]);
        let r: i64 = if th { 5 } else { 3 };
        let alph: Vec<i64> = (-r..=r).collect();
        par_tuples(&alph, 4, |a| {
            if wsum(a) == 0 { return; }
            for den in [1i128, 7] {
                let q: Q4<X> = [q(a[0] as i128, den), q(a[1] as i128, den), q(a[2] as i128, den), q(a[3] as i128, den)];
                s.eval(true);
                let n2 = norm2(&q);
                let inp = || json!({"q_xyzw": jxs(&q)});
                if let Some((inv, l, rr)) = s.call("Quaternion::inverse", inp, || { let i = mkq(&q).inverse(); (dq(i), dq(mkq(&q) * i), dq(i * mkq(&q))) }) {
                    let c = conj(&q); let want = [c[0] / n2, c[1] / n2, c[2] / n2, c[3] / n2];
                    if inv != want { viol(s, "Quaternion::inverse", "not-conjugate-over-squared-norm", || json!({"input": inp(), "got": jxs(&inv), "want": jxs(&want)}), wsum(a)); }
                    if l != [Z, Z, Z, ONE] { viol(s, "Quaternion::inverse", "q*inverse(q)-is-not-1", || json!({"input": inp(), "q*inverse(q)": jxs(&l)}), wsum(a)); }
                    if rr != [Z, Z, Z, ONE] { viol(s, "Quaternion::inverse", "inverse(q)*q-is-not-1", || json!({"input": inp(), "inverse(q)*q": jxs(&rr)}), wsum(a)); }
                    if den == 1 && a == [1, -2, 0, 3] { s.sample(json!({"input": inp(), "real_inverse": jxs(&inv)})); }
                }
            }
        });
        // classes (cheap recount, no lock in the hot loop)
        let (mut u, mut n) = (0u64, 0u64);
        tuples(&alph, 4, |a| { if wsum(a) != 0 { if a.iter().map(|v| v * v).sum::<i64>() == 1 { u += 1; } else { n += 1; } } });
        s.class_n("unit-norm", u); s.class_n("non-unit-norm", n); s.class_n("fractional", u + n);
        s.meta("box", json!({"range": r, "denominators": [1, 7]}));
    });

    // ---- 7. linear structure and conversions (free terms) ------------------------------------------
    rep.section("scalar * and /, + - neg, conversions to/from Vec4, Vec3, (scalar, vector): element routing on free terms",
        "each operation run once on pairwise distinct uninterpreted terms (the most general input; the operators are uninterpreted constructors): every output field must be exactly op(a_field, b_field) / op(a_field, s) / the routed input; non-trivial: all", true, true, |s| {
        let a: Q4<Term> = [Term::var(0), Term::var(1), Term::var(2), Term::var(3)];
        let b: Q4<Term> = [Term::var(10), Term::var(11), Term::var(12), Term::var(13)];
        let sc = Term::var(99);
        let (qa, qb) = (mkq(&a), mkq(&b));
        let expect = |site: &str, got: Result<Vec<Term>, Caught>, want: Vec<Term>| {
            s.eval(true);
            match got {
                Ok(g) => if g != want { s.violation(&format!("Quaternion {}", site), "wrong-element", json!({"got": jd(&g), "want": jd(&want)})); },
                Err(e) => s.violation(&format!("Quaternion {}", site), "panic", json!({"error": jd(&e)})),
            }
        };
        let k = |i: i64| Term::cst(i);
        expect("+ Quaternion", catch(|| dq(qa + qb).to_vec()), (0..4).map(|i| Term::bin("add", a[i], b[i])).collect());
        expect("- Quaternion", catch(|| dq(qa - qb).to_vec()), (0..4).map(|i| Term::bin("sub", a[i], b[i])).collect());
        expect("neg", catch(|| dq(-qa).to_vec()), (0..4).map(|i| Term::un("neg", a[i])).collect());
        expect("* scalar", catch(|| dq(qa * sc).to_vec()), (0..4).map(|i| Term::bin("mul", a[i], sc)).collect());
        expect("/ scalar", catch(|| dq(qa / sc).to_vec()), (0..4).map(|i| Term::bin("div", a[i], sc)).collect());
        expect("conjugate", catch(|| dq(qa.conjugate()).to_vec()), vec![Term::un("neg", a[0]), Term::un("neg", a[1]), Term::un("neg", a[2]), a[3]]);
        expect("from_xyzw", catch(|| dq(Quaternion::from_xyzw(a[0], a[1], a[2], a[3])).to_vec()), a.to_vec());
        expect("from_scalar_and_vec3", catch(|| dq(Quaternion::from_scalar_and_vec3((a[3], Vec3 { x: a[0], y: a[1], z: a[2] }))).to_vec()), a.to_vec());
        expect("into_scalar_and_vec3", catch(|| { let (w, v) = qa.into_scalar_and_vec3(); vec![v.x, v.y, v.z, w] }), a.to_vec());
        expect("into_vec4", catch(|| dv4(&qa.into_vec4()).to_vec()), a.to_vec());
        expect("from_vec4", catch(|| dq(Quaternion::from_vec4(Vec4 { x: a[0], y: a[1], z: a[2], w: a[3] })).to_vec()), a.to_vec());
        expect("into_vec3", catch(|| dv3(&qa.into_vec3()).to_vec()), a[..3].to_vec());
        expect("From<Vec4>", catch(|| dq(Quaternion::from(Vec4 { x: a[0], y: a[1], z: a[2], w: a[3] })).to_vec()), a.to_vec());
        expect("Into<Vec4>", catch(|| dv4(&Vec4::from(qa)).to_vec()), a.to_vec());
        expect("Into<Vec3>", catch(|| dv3(&Vec3::from(qa)).to_vec()), a[..3].to_vec());
        expect("zero()", catch(|| dq(Quaternion::<Term>::zero()).to_vec()), vec![k(0); 4]);
        expect("identity()", catch(|| dq(Quaternion::<Term>::identity()).to_vec()), vec![k(0), k(0), k(0), k(1)]);
        expect("default()", catch(|| dq(<Quaternion<Term> as Default>::default()).to_vec()), vec![k(0), k(0), k(0), k(1)]);
        s.sample(json!({"a": jd(&a), "s": jd(&sc), "(a / s) must be": jd(&(0..4).map(|i| Term::bin("div", a[i], sc)).collect::<Vec<_>>())}));
    });

    sections_apply(&rep, &prem, th, extra);
    sections_from_to(&rep, th);
    sections_angle_axis(&rep, th);
    sections_norm(&rep, th);
    { let m = VSEEN.lock().unwrap(); let over: BTreeMap<String, u64> = m.iter().filter(|(_, v)| v.0 > 200).map(|(k, v)| (k.clone(), v.0)).collect(); if !over.is_empty() { rep.extra("violations_counted_beyond_the_200_itemised_per_kind", json!(over)); } }
    std::process::exit(rep.finish());
}

// ---- application of a quaternion to vectors --------------------------------------------------------
/// one unit quaternion x one vector: q*Vec3, q*Vec4 against the reference sandwich and the four real matrices
fn apply_case(s: &Section, q: &Q4<X>, v: &[X; 3], w4: X, weight: u64) { guarded(s, || apply_case_inner(s, q, v, w4, weight)); }
fn apply_case_inner(s: &Section, q: &Q4<X>, v: &[X; 3], w4: X, weight: u64) {
    let want = rot(q, v);
    let inp = || json!({"q_xyzw": jxs(q), "v": jxs(v), "w_of_vec4": jx(w4)});
    let v4a: [X; 4] = [v[0], v[1], v[2], w4];
    let Some((g3, g4)) = s.call("Quaternion * Vec3", inp, || (dv3(&(mkq(q) * v3(v))), dv4(&(mkq(q) * v4(&v4a))))) else { return };
    if g3 != want { viol(s, "Quaternion * Vec3", "not-the-sandwich-q-v-q*", || json!({"input": inp(), "got": jxs(&g3), "want": jxs(&want)}), weight); }
    if g4[3] != w4 { viol(s, "Quaternion * Vec4", "w-not-preserved", || json!({"input": inp(), "got": jxs(&g4)}), weight); }
    if g4[..3] != want { viol(s, "Quaternion * Vec4", "xyz-not-the-sandwich-q-v-q*", || json!({"input": inp(), "got": jxs(&g4), "want_xyz": jxs(&want)}), weight); }
    fn one<const N: usize, M: QM<X, N>>(s: &Section, q: &Q4<X>, vin: [X; N], gq: &[X], inp: &dyn Fn() -> Value, weight: u64) {
        let site = format!("{}::from(Quaternion) * Vec{}", M::NAME, N);
        if let Some((m, mv)) = s.call(&site, || inp(), || { let m = M::t_from_q(mkq(q)); (m.decode(), m.t_mulv(vin)) }) {
            let by_fields = mvec(&m, &vin);
            if mv[..] != gq[..] { viol(s, &site, "differs-from-quaternion-application", || json!({"input": inp(), "matrix": jmat(&m), "matrix*v": jxs(&mv), "q*v": jxs(gq)}), weight); }
            else if by_fields[..] != gq[..] { viol(s, &site, "decoded-matrix-times-v-differs-from-quaternion-application", || json!({"input": inp(), "matrix": jmat(&m), "fields*v": jxs(&by_fields), "q*v": jxs(gq)}), weight); }
        }
    }
    one::<3, rm::Mat3<X>>(s, q, *v, &g3, &inp, weight); one::<3, cm::Mat3<X>>(s, q, *v, &g3, &inp, weight);
    one::<4, rm::Mat4<X>>(s, q, v4a, &g4, &inp, weight); one::<4, cm::Mat4<X>>(s, q, v4a, &g4, &inp, weight);
    if s.wants_sample() && weight >= 4 && q[0] != Z && q[1] != Z && v[0] != Z { s.sample(json!({"input": inp(), "real q*Vec3": jxs(&g3), "real q*Vec4": jxs(&g4), "matrices_checked": 4})); }
}

fn sections_apply(rep: &Report, prem: &Prem, th: bool, extra: u32) {
    let pd = |s: &Section, names: &[&'static str], fallback: u32| -> u32 { names.iter().map(|n| deg_of(prem, s, n, fallback)).max().unwrap() };

    rep.section("application composes for ALL quaternions: (p*q)*v = p*(q*v), Vec3 and Vec4 (w untouched)",
        "all points of L(11, D) (p, q, Vec3) and L(12, D) (p, q, Vec4), D = measured degree 5 + extra: real (p*q)*v == real p*(q*v) == reference (pq)(v,0)(pq)*; for Vec4 additionally w returned untouched; polynomial identity, so decided for all quaternions (unit or not) and vectors; non-trivial: p, q, v non-zero and p*q != q*p", true, true, |s| {
        s.require_classes(&["order-matters", "vec4-w-nonzero"]);
        let d = pd(s, &["(p*q)*Vec3", "p*(q*Vec3)", "(p*q)*Vec4", "p*(q*Vec4)"], 5) + extra;
        let (nord, nw) = (Cnt::new(), Cnt::new());
        par_lattice(11, d, |a| {
            let (p, q, v): (Q4<X>, Q4<X>, [X; 3]) = (xs(&a[..4]), xs(&a[4..8]), xs(&a[8..]));
            let pq = ham(&p, &q);
            let nt = p != [Z; 4] && q != [Z; 4] && v != [Z; 3] && pq != ham(&q, &p);
            s.eval(nt); if nt { nord.inc(); }
            let want = rot(&pq, &v);
            let inp = || json!({"p_xyzw": jxs(&p), "q_xyzw": jxs(&q), "v": jxs(&v)});
            if let Some((l, r)) = s.call("Quaternion * Vec3", inp, || (dv3(&((mkq(&p) * mkq(&q)) * v3(&v))), dv3(&(mkq(&p) * (mkq(&q) * v3(&v)))))) {
                if l != r { viol(s, "Quaternion * Vec3", "application-does-not-compose", || json!({"input": inp(), "(p*q)*v": jxs(&l), "p*(q*v)": jxs(&r)}), wsum(a)); }
                else if l != want { viol(s, "Quaternion * Vec3", "not-the-sandwich-q-v-q*", || json!({"input": inp(), "got": jxs(&l), "want": jxs(&want)}), wsum(a)); }
                if nt && wsum(a) == 3 && s.wants_sample() { s.sample(json!({"input": inp(), "(p*q)*v = p*(q*v) =": jxs(&l)})); }
            }
        });
        par_lattice(12, d, |a| {
            let (p, q, v): (Q4<X>, Q4<X>, [X; 4]) = (xs(&a[..4]), xs(&a[4..8]), xs(&a[8..]));
            let pq = ham(&p, &q);
            let nt = p != [Z; 4] && q != [Z; 4] && v[..3] != [Z; 3] && pq != ham(&q, &p);
            s.eval(nt); if a[11] != 0 { nw.inc(); }
            let want3 = rot(&pq, &[v[0], v[1], v[2]]);
            let want = [want3[0], want3[1], want3[2], v[3]];
            let inp = || json!({"p_xyzw": jxs(&p), "q_xyzw": jxs(&q), "v_xyzw": jxs(&v)});
            if let Some((l, r)) = s.call("Quaternion * Vec4", inp, || (dv4(&((mkq(&p) * mkq(&q)) * v4(&v))), dv4(&(mkq(&p) * (mkq(&q) * v4(&v)))))) {
                if l != r { viol(s, "Quaternion * Vec4", "application-does-not-compose", || json!({"input": inp(), "(p*q)*v": jxs(&l), "p*(q*v)": jxs(&r)}), wsum(a)); }
                else if l[3] != v[3] { viol(s, "Quaternion * Vec4", "w-not-preserved", || json!({"input": inp(), "got": jxs(&l)}), wsum(a)); }
                else if l != want { viol(s, "Quaternion * Vec4", "xyz-not-the-sandwich-q-v-q*", || json!({"input": inp(), "got": jxs(&l), "want": jxs(&want)}), wsum(a)); }
            }
        });
        s.class_n("order-matters", nord.get()); s.class_n("vec4-w-nonzero", nw.get());
        lat_meta(s, "lattice Vec3", 11, d); lat_meta(s, "lattice Vec4", 12, d);
    });

    rep.section("a unit quaternion rotates like its matrix, for ALL unit quaternions (stereographic rational parametrisation)",
        "unit quaternions q(a,b,c) = (2a, 2b, 2c, 1-s)/(1+s), s = a^2+b^2+c^2 (every unit quaternion except (0,0,0,-1), which is the limit) x vector v (x w for Vec4): all points of L(6, D) / L(7, D) in (a,b,c,v[,w]) with D = 2*deg_q + deg_v + extra, where deg_q = 2 and deg_v = 1 are the measured degrees of q*v and Mat::from(q)*v in q and v: multiplying the claimed equality by (1+s)^deg_q gives a polynomial identity of total degree <= 2*deg_q + deg_v in (a,b,c,v), which vanishes identically iff it vanishes on the lattice; checked: real q*Vec3 == reference sandwich q(v,0)q*; real q*Vec4 == (the same xyz, w untouched); real Mat3/Mat4::from(q) (row- and column-major) * v == real q*v, also with the product formed by the reference mvec on the decoded fields; non-trivial: q != identity and v != 0", true, true, |s| {
        s.require_classes(&["q=identity", "q-general", "vec4-w-nonzero"]);
        let dq_ = pd(s, &["q*Vec3 (in q)", "q*Vec4 (in q)", "Mat3<row>::from(q)*v (in q)", "Mat3<col>::from(q)*v (in q)", "Mat4<row>::from(q)*v (in q)", "Mat4<col>::from(q)*v (in q)"], 2);
        let dv_ = pd(s, &["q*Vec3 (in v)", "q*Vec4 (in v)", "Mat3<row>::from(q)*v (in v)", "Mat3<col>::from(q)*v (in v)", "Mat4<row>::from(q)*v (in v)", "Mat4<col>::from(q)*v (in v)"], 1);
        let d = 2 * dq_ + dv_ + extra;
        let (nid, ngen, nw) = (Cnt::new(), Cnt::new(), Cnt::new());
        par_lattice(7, d, |p| {
            let (a, b, c) = (qi(p[0] as i128), qi(p[1] as i128), qi(p[2] as i128));
            let sq = a * a + b * b + c * c; let den = ONE + sq;
            let q: Q4<X> = [(a + a) / den, (b + b) / den, (c + c) / den, (ONE - sq) / den];
            let v: [X; 3] = xs(&p[3..6]);
            let nt = wsum(&p[..3]) != 0 && wsum(&p[3..6]) != 0;
            s.eval(nt);
            if wsum(&p[..3]) == 0 { nid.inc(); } else { ngen.inc(); } if p[6] != 0 { nw.inc(); }
            apply_case(s, &q, &v, qi(p[6] as i128), wsum(p));
        });
        s.class_n("q=identity", nid.get()); s.class_n("q-general", ngen.get()); s.class_n("vec4-w-nonzero", nw.get());
        lat_meta(s, "lattice", 7, d);
        s.meta("degree_argument", json!({"deg_q": dq_, "deg_v": dv_, "bound": 2 * dq_ + dv_}));
    });

    rep.section("a unit quaternion rotates like its matrix: all sign patterns (bounded box)",
        "every unit quaternion p/|p| with p in {-4..4}^4 (thorough {-6..6}^4) of non-zero perfect-square norm x v in {e_x, e_y, e_z, (1,2,3), (-2,1/2,5)} (Vec4: w = 1, -7): same comparisons as the previous section; non-trivial: q != +-identity", true, false, |s| {
        s.require_classes(&["w<0", "w=0 (half turn)", "w>0", "all-components-nonzero"]);
        let r: i64 = if th { 6 } else { 4 };
        let alph: Vec<i64> = (-r..=r).collect();
        let vs: [[X; 3]; 5] = [e3(0), e3(1), e3(2), [qi(1), qi(2), qi(3)], [qi(-2), q(1, 2), qi(5)]];
        let (nneg, nzero, npos, nall, nq) = (Cnt::new(), Cnt::new(), Cnt::new(), Cnt::new(), Cnt::new());
        par_tuples(&alph, 4, |p| {
            let n2: i64 = p.iter().map(|v| v * v).sum();
            let Some(n) = Q::isqrt(n2 as i128) else { return }; if n == 0 { return; }
            let uq: Q4<X> = [q(p[0] as i128, n), q(p[1] as i128, n), q(p[2] as i128, n), q(p[3] as i128, n)];
            nq.inc();
            if p[3] < 0 { nneg.inc(); } else if p[3] == 0 { nzero.inc(); } else { npos.inc(); }
            if p.iter().all(|v| *v != 0) { nall.inc(); }
            for (i, v) in vs.iter().enumerate() { s.eval(wsum(&p[..3]) != 0); apply_case(s, &uq, v, if i % 2 == 0 { qi(1) } else { qi(-7) }, wsum(p) + i as u64); }
        });
        s.class_n("w<0", nneg.get()); s.class_n("w=0 (half turn)", nzero.get()); s.class_n("w>0", npos.get()); s.class_n("all-components-nonzero", nall.get());
        s.meta("unit_quaternions", json!(nq.get())); s.meta("box_range", json!(r));
    });
}
// ---- rotation_from_to_3d ---------------------------------------------------------------------------
fn int_dirs(r: i64) -> Vec<[i64; 3]> { let mut v = Vec::new(); for x in -r..=r { for y in -r..=r { for z in -r..=r { if (x, y, z) != (0, 0, 0) { v.push([x, y, z]); } } } } v }
#[derive(Clone, Copy, PartialEq, Debug)]
enum Kind { Parallel, AntiXY, AntiZY, Acute, Obtuse, NearAnti, Irrational }
impl Kind {
    fn class(self) -> &'static str { match self {
        Kind::Parallel => "parallel (identity expected)", Kind::AntiXY => "antiparallel, |from.x| > |from.z| (axis (-y,x,0))", Kind::AntiZY => "antiparallel, |from.x| <= |from.z| (axis (0,-z,y))",
        Kind::Acute => "general, angle < 90deg", Kind::Obtuse => "general, angle > 90deg", Kind::NearAnti => "skipped: 1+cos below the code's epsilon threshold (not generated)", Kind::Irrational => "skipped: irrational normalisation (float tier only)" } }
    fn anti(self) -> bool { matches!(self, Kind::AntiXY | Kind::AntiZY) }
    fn exact(self) -> bool { !matches!(self, Kind::NearAnti | Kind::Irrational) }
}
/// which pairs have an all-rational run of the algorithm (classification only, never a verdict)
fn classify(f: &[X; 3], t: &[X; 3]) -> Kind {
    let (ff, tt, d) = (dotn(f, f).rat(), dotn(t, t).rat(), dotn(f, t).rat());
    let Some(nuv) = ff.mul(tt).sqrt_exact() else { return Kind::Irrational };
    let w = nuv.add(d);
    let sq = |a: Q, b: Q| a.mul(a).add(b.mul(b)).sqrt_exact().is_some();
    if w.n == 0 {
        let (x, y, z) = (f[0].rat(), f[1].rat(), f[2].rat());
        if x.abs() > z.abs() { if sq(x, y) { Kind::AntiXY } else { Kind::Irrational } } else if sq(z, y) { Kind::AntiZY } else { Kind::Irrational }
    } else {
        if w < nuv.mul(Q::new(1, 1i128 << 52)) { return Kind::NearAnti; }
        if nuv.mul(w).mul(Q::int(2)).sqrt_exact().is_none() { return Kind::Irrational; }
        if cross3(f, t) == [Z; 3] { Kind::Parallel } else if d.n > 0 { Kind::Acute } else { Kind::Obtuse }
    }
}
fn from_to_case(s: &Section, f: &[X; 3], t: &[X; 3], kind: Kind, weight: u64) { guarded(s, || from_to_case_inner(s, f, t, kind, weight)); }
fn from_to_case_inner(s: &Section, f: &[X; 3], t: &[X; 3], kind: Kind, weight: u64) {
    let ff = dotn(f, f);
    let onto = |r: &[X]| { let r3 = [r[0], r[1], r[2]]; cross3(&r3, t) == [Z; 3] && dotn(&r3, t) > Z && dotn(&r3, &r3) == ff };
    let cls = if kind.anti() { "antiparallel-pair-not-mapped-onto-to" } else { "does-not-map-from-onto-to" };
    let inp = || json!({"from": jxs(f), "to": jxs(t), "pair": kind.class()});
    let nt = kind != Kind::Parallel;
    s.eval(nt);
    let site = "Quaternion::rotation_from_to_3d";
    let (qd, qd4, app) = match catch(|| {
        let q = Quaternion::rotation_from_to_3d(v3(f), v3(t));
        let q4 = Quaternion::rotation_from_to_3d(v4(&[f[0], f[1], f[2], Z]), v4(&[t[0], t[1], t[2], Z]));
        (dq(q), dq(q4), dv3(&(q * v3(f))))
    }) {
        Ok(r) => r,
        // every square root of the intended run is rational for this pair, so a 0/0 means the code normalised a zero quaternion (NaN in floats)
        Err(Caught::Unmodelled("division by zero")) => { viol(s, site, "normalises-a-zero-quaternion (division by zero)", || json!({"input": inp()}), weight); return }
        Err(Caught::Unmodelled(w)) => { s.unmodelled(w); return }
        Err(Caught::Panic(m)) => { viol(s, site, "panic", || json!({"input": inp(), "panic": m}), weight); return }
    };
    if norm2(&qd) != ONE { viol(s, site, "not-a-unit-quaternion", || json!({"input": inp(), "got_xyzw": jxs(&qd), "norm_squared": jx(norm2(&qd))}), weight); }
    let img = rot(&qd, f);
    if !onto(&img) || !onto(&app) { viol(s, site, cls, || json!({"input": inp(), "got_xyzw": jxs(&qd), "q from q* (reference sandwich on the fields)": jxs(&img), "real q*from": jxs(&app), "want": "the positive multiple of `to` of length |from|"}), weight); }
    if qd4 != qd { viol(s, site, "vec4-arguments-differ-from-vec3-arguments", || json!({"input": inp(), "vec3": jxs(&qd), "vec4": jxs(&qd4)}), weight); }
    if kind == Kind::Parallel && qd != [Z, Z, Z, ONE] { viol(s, site, "parallel-pair-not-the-identity", || json!({"input": inp(), "got_xyzw": jxs(&qd)}), weight); }
    fn one<const N: usize, M: QR<X, N>>(s: &Section, f: &[X; 3], t: &[X; 3], qd: &Q4<X>, onto: &dyn Fn(&[X]) -> bool, cls: &str, inp: &dyn Fn() -> Value, nt: bool, weight: u64) {
        let site = format!("{}::rotation_from_to_3d", M::NAME);
        s.eval(nt);
        let Some((m, mv)) = s.call(&site, || inp(), || { let m = M::t_from_to(*f, *t); (m.decode(), m.t_mulv(pad::<X, N>(f, Z))) }) else { return };
        let want: A<X, N> = embed::<X, 3, N>(&ref_q2m(qd));
        let by_fields = mvec(&m, &pad::<X, N>(f, Z));
        if !onto(&by_fields) || !onto(&mv) || (N == 4 && (mv[N - 1] != Z || by_fields[N - 1] != Z)) { viol(s, &site, cls, || json!({"input": inp(), "matrix": jmat(&m), "fields * from": jxs(&by_fields), "real M*from": jxs(&mv)}), weight); }
        if m != want { viol(s, &site, "differs-from-the-matrix-of-Quaternion::rotation_from_to_3d", || json!({"input": inp(), "matrix": jmat(&m), "want": jmat(&want)}), weight); }
    }
    one::<3, rm::Mat3<X>>(s, f, t, &qd, &onto, cls, &inp, nt, weight); one::<3, cm::Mat3<X>>(s, f, t, &qd, &onto, cls, &inp, nt, weight);
    one::<4, rm::Mat4<X>>(s, f, t, &qd, &onto, cls, &inp, nt, weight); one::<4, cm::Mat4<X>>(s, f, t, &qd, &onto, cls, &inp, nt, weight);
    if nt && s.wants_sample() && (kind.anti() && f[0] != Z && f[1] != Z || weight % 7 == 3) { s.sample(json!({"input": inp(), "real_quaternion_xyzw": jxs(&qd), "real q*from": jxs(&app)})); }
}
const FT_CLASSES: [&str; 5] = ["parallel (identity expected)", "antiparallel, |from.x| > |from.z| (axis (-y,x,0))", "antiparallel, |from.x| <= |from.z| (axis (0,-z,y))", "general, angle < 90deg", "general, angle > 90deg"];
fn run_pairs(s: &Section, pairs: &[([X; 3], [X; 3])]) {
    let counts: Vec<(Kind, u64)> = pairs.par_iter().map(|(f, t)| {
        let kind = classify(f, t);
        if kind.exact() { from_to_case(s, f, t, kind, wx(f) + wx(t)); }
        (kind, 1u64)
    }).collect();
    let mut m: BTreeMap<&'static str, u64> = BTreeMap::new();
    for (k, n) in counts { *m.entry(k.class()).or_insert(0) += n; }
    for (k, n) in m { s.class_n(k, n); }
}

/// exact test on float vectors taken as real vectors: (f x t == 0, and then: same sense?)
/// a finite float is m*2^e with m odd (or 0); the product of two such is again in that form, so products compare exactly
fn exact_collinear(f: &[f64; 3], t: &[f64; 3]) -> (bool, bool) {
    fn dec(v: f64) -> (i128, i32) {
        if v == 0.0 { return (0, 0); }
        let bits = v.to_bits(); let sign: i128 = if bits >> 63 == 1 { -1 } else { 1 };
        let exp = ((bits >> 52) & 0x7ff) as i32; let frac = (bits & ((1u64 << 52) - 1)) as i128;
        let (m, e) = if exp == 0 { (frac, -1074) } else { (frac | (1i128 << 52), exp - 1075) };
        let tz = m.trailing_zeros() as i32; (sign * (m >> tz), e + tz)
    }
    let prod = |a: f64, b: f64| { let ((m1, e1), (m2, e2)) = (dec(a), dec(b)); if m1 == 0 || m2 == 0 { (0i128, 0i32) } else { (m1 * m2, e1 + e2) } };
    let col = prod(f[1], t[2]) == prod(f[2], t[1]) && prod(f[2], t[0]) == prod(f[0], t[2]) && prod(f[0], t[1]) == prod(f[1], t[0]);
    let pos = (0..3).find(|&i| f[i] != 0.0 && t[i] != 0.0).map_or(false, |i| (f[i] > 0.0) == (t[i] > 0.0));
    (col, pos)
}

macro_rules! float_from_to { ($s:expr, $T:ty, $big:expr) => {{
    let s: &Section = $s;
    s.require_classes(&["parallel", "opposite (exactly), squares exact", "opposite (exactly), squares inexact", "nearly opposite (not exactly)", "general"]);
    let dirs = int_dirs(2);
    let big: f64 = $big;
    let tf = |v: f64| <$T as Fl>::f(v);
    let mut cases: Vec<([$T; 3], [$T; 3], Value, u64)> = Vec::new();
    // (A) the integer grid with scaled copies
    let scales: Vec<(f64, f64)> = if s.thorough() { vec![(1.0, 1.0), (3.0, 0.5), (0.1, 7.0), (big, 3.0 * big), (big, 1.0), (5.0, big), (0.3, 0.7), (1e-3, 1e3)] } else { vec![(1.0, 1.0), (3.0, 0.5), (0.1, 7.0), (big, 3.0 * big)] };
    for (si, &(la, mu)) in scales.iter().enumerate() { for d1 in &dirs { for d2 in &dirs {
        let (lt, mt) = (tf(la), tf(mu));
        cases.push(([lt * (d1[0] as $T), lt * (d1[1] as $T), lt * (d1[2] as $T)], [mt * (d2[0] as $T), mt * (d2[1] as $T), mt * (d2[2] as $T)], json!({"family": "A", "integer_directions": [d1, d2], "scales": [la, mu]}), wsum(d1) + wsum(d2) + 10 * si as u64));
    } } }
    // (B) exactly opposite integer vectors whose squares are not exactly representable
    let nb: i64 = if s.thorough() { 256 } else { 64 };
    for b in 0..nb { for d in int_dirs(3) { for k in [2.0, 3.0, 5.0, 7.0] {
        let bb = big + b as f64;
        let from = [tf(bb * d[0] as f64), tf(bb * d[1] as f64), tf(bb * d[2] as f64)];
        let kt = tf(k);
        cases.push((from, [-kt * from[0], -kt * from[1], -kt * from[2]], json!({"family": "B", "from = B*d": {"B": bb, "d": d}, "to = -k*from": k}), b as u64 + wsum(&d) + k as u64));
    } } }
    // (C) to = fl(k*from), k < 0, from with full mantissas: opposite up to the rounding of the products
    for b in 1..=(if s.thorough() { 256 } else { 64 }) { for d in int_dirs(3) { for k in [-1.7, -3.0, -0.3] {
        let sc = tf(0.1) * tf(b as f64);
        let from = [sc * tf(d[0] as f64) + tf(0.013), sc * tf(d[1] as f64) - tf(0.007), sc * tf(d[2] as f64) + tf(0.003)];
        let kt = tf(k);
        cases.push((from, [kt * from[0], kt * from[1], kt * from[2]], json!({"family": "C", "from = fl(0.1)*b*d + (0.013,-0.007,0.003)": {"b": b, "d": d}, "to = fl(k*from)": k}), b as u64 + wsum(&d)));
    } } }
    // (D) two literal exactly-opposite integer pairs (smallest hits of a one-off scan of integer vectors in f32; exact and harmless in f64)
    for (v, k) in [([1833.0, 3.0, 3.0], 5.0), ([7920.0, 1771718.0, 1516008.0], 3.0)] {
        let from = [tf(v[0]), tf(v[1]), tf(v[2])]; let kt = tf(k);
        cases.push((from, [-kt * from[0], -kt * from[1], -kt * from[2]], json!({"family": "D", "from": v, "to = -k*from": k}), if v[0] < 2000.0 { 0 } else { 1 }));
    }
    s.meta("cases", json!(cases.len())); s.meta("scale_pairs_family_A", json!(scales));
    let mut cl: BTreeMap<&'static str, u64> = BTreeMap::new();
    for (from, to, tag, weight) in &cases {
        let (from, to, weight) = (*from, *to, *weight);
        let (f, t) = ([from[0].d(), from[1].d(), from[2].d()], [to[0].d(), to[1].d(), to[2].d()]);
        // exact relation of the two float vectors as real vectors
        let (collinear, positive) = exact_collinear(&f, &t);
        let (ff, tt, dt) = (dotn(&f, &f), dotn(&t, &t), dotn(&f, &t));
        let (nf, ntt) = (ff.sqrt(), tt.sqrt());
        let want = [t[0] * nf / ntt, t[1] * nf / ntt, t[2] * nf / ntt];
        let anti = collinear && !positive;
        let one_plus_cos = 1.0 + dt / (nf * ntt);
        let near = !anti && one_plus_cos < 1.0 / 64.0;
        let eps = <$T as Fl>::EPS;
        // absolute tolerance
        let tol = if anti { vx::fl::K * eps * nf } else if near { 8.0 * eps.sqrt() * nf } else { vx::fl::K * eps * nf / (one_plus_cos / 2.0).sqrt() };
        let inexact = { let m = ff.max(tt); m > 1.0 / eps };
        *cl.entry(if anti && inexact { "opposite (exactly), squares inexact" } else if anti { "opposite (exactly), squares exact" } else if near { "nearly opposite (not exactly)" } else if collinear { "parallel" } else { "general" }).or_insert(0) += 1;
        let cls = if anti { "opposite-pair-not-mapped-onto-to-within-error-bound" } else if near { "nearly-opposite-pair-not-mapped-onto-to-within-sqrt-eps" } else { "does-not-map-from-onto-to-within-error-bound" };
        let inp = || json!({"from": f, "to": t, "construction": tag, "exactly_opposite": anti});
        s.eval(!(collinear && positive));
        let site = format!("Quaternion::rotation_from_to_3d<{}>", <$T as Fl>::NAME);
        if let Some((qd, r)) = s.call(&site, inp, || { let q = Quaternion::<$T>::rotation_from_to_3d(v3(&from), v3(&to)); (dq(q), dv3(&(q * v3(&from)))) }) {
            let qf: Q4<f64> = [qd[0].d(), qd[1].d(), qd[2].d(), qd[3].d()];
            if !((norm2(&qf) - 1.0).abs() <= vx::fl::K * eps) { viol(s, &site, "not-a-unit-quaternion-within-error-bound", || json!({"input": inp(), "got_xyzw": qf, "norm_squared": norm2(&qf)}), weight); }
            if !(0..3).all(|i| (r[i].d() - want[i]).abs() <= tol) { viol(s, &site, cls, || json!({"input": inp(), "got_xyzw": qf, "real q*from": [r[0].d(), r[1].d(), r[2].d()], "want": want, "tolerance": tol}), weight); }
            if anti && from[0] != 0.0 && from[1] != 0.0 && s.wants_sample() { s.sample(json!({"input": inp(), "real_quaternion_xyzw": qf, "real q*from": [r[0].d(), r[1].d(), r[2].d()], "oracle": want})); }
        }
        macro_rules! mat { ($M:ty, $N:expr) => {{
            let site = format!("{}::rotation_from_to_3d<{}>", <$M as QM<$T, $N>>::NAME, <$T as Fl>::NAME);
            s.eval(!(collinear && positive));
            if let Some((m, mv)) = s.call(&site, inp, || { let m = <$M as QR<$T, $N>>::t_from_to(from, to); (m.decode(), m.t_mulv(pad::<$T, $N>(&from, 0.0))) }) {
                let mut by_fields = [0.0f64; 3]; for i in 0..3 { for j in 0..3 { by_fields[i] += m[i][j].d() * f[j]; } }
                let ok = (0..3).all(|i| (mv[i].d() - want[i]).abs() <= tol && (by_fields[i] - want[i]).abs() <= tol) && ($N == 3 || mv[$N - 1].d() == 0.0);
                if !ok { viol(s, &site, cls, || json!({"input": inp(), "real M*from": mv.iter().map(|v| v.d()).collect::<Vec<_>>(), "fields*from": by_fields, "want": want, "tolerance": tol}), weight); }
            }
        }} }
        mat!(rm::Mat3<$T>, 3); mat!(cm::Mat3<$T>, 3); mat!(rm::Mat4<$T>, 4); mat!(cm::Mat4<$T>, 4);
    }
    for (k, n) in cl { s.class_n(k, n); }
}} }

fn sections_from_to(rep: &Report, th: bool) {
    rep.section("rotation_from_to_3d maps from onto to: exact rational pairs (all-rational runs), quaternion and Mat3/Mat4 wrappers in both layouts",
        "three families, every pair classified by a reference replay of the radicands and evaluated iff every square root of the run is rational: (F1) all ordered pairs of integer directions in {-2..2}^3 minus 0 (124^2) with scaled copies (from, to) x {(1,1), (2,3), (1/2,5)} (thorough also (7,1/3)); (F2) planar construction from = l*e1, to = m*(cos(theta) e1 + sin(theta) e2), (e1,e2) two columns of a rational rotation matrix Rodrigues(axis, c, s) (axes: every 8th (thorough 2nd) rational unit vector of vx::matx::unit_axes, (c,s) in circle_points), theta the double of a rational half-angle point (so all radicands are squares; includes theta = 0 and pi), (l,m) in {(1,1), (2,1/3), (7/2,5)}, plus half-angle parameters t in {9/10, 99/100, 999/1000, -999/1000, 1001/1000} (theta within 0.2 .. 0.002 rad of pi) in three frames; (F3) exactly opposite pairs from in {-5..5}^3 minus 0, to = -k*from, k in {1, 2, 1/3}, kept when the branch radicand (x^2+y^2 if |x|>|z|, else y^2+z^2) is a square: e.g. (3,4,0)->(-6,-8,0), (0,3,4)->(0,-3,-4), (4,3,-4), (3,-4,2).  Verdict on public fields: |q|^2 = 1; r = q (from,0) q* (reference sandwich) and the real q*from satisfy r x to = 0, r.to > 0, |r|^2 = |from|^2; Vec4 arguments (w = 0) give the same quaternion; each matrix wrapper decoded == reference matrix of that quaternion (identity border for Mat4), fields*from and the real M*from are onto `to`; parallel pairs give the identity.  One evaluation per real builder call; non-trivial: pair not parallel", true, false, |s| {
        s.require_classes(&FT_CLASSES);
        let sc = |v: &[i64; 3], l: X| -> [X; 3] { [qi(v[0] as i128) * l, qi(v[1] as i128) * l, qi(v[2] as i128) * l] };
        // F1
        let dirs = int_dirs(2);
        let mut scales = vec![(qi(1), qi(1)), (qi(2), qi(3)), (q(1, 2), qi(5))]; if th { scales.push((qi(7), q(1, 3))); }
        let mut pairs: Vec<([X; 3], [X; 3])> = Vec::new();
        for &(l, m) in &scales { for d1 in &dirs { for d2 in &dirs { pairs.push((sc(d1, l), sc(d2, m))); } } }
        let n1 = pairs.len();
        // F2
        let axes: Vec<[X; 3]> = unit_axes().into_iter().enumerate().filter(|(i, _)| i % (if th { 2 } else { 8 }) == 0).map(|(_, a)| a).collect();
        let cps = circle_points();
        for ax in &axes { for &(c, sn) in &cps { let m = rodrigues(ax, c, sn);
            let (e1, e2) = ([m[0][0], m[1][0], m[2][0]], [m[0][1], m[1][1], m[2][1]]);
            for &(ch, sh) in &cps { let (ct, st) = (ch * ch - sh * sh, (sh + sh) * ch);
                for (l, mm) in [(qi(1), qi(1)), (qi(2), q(1, 3)), (q(7, 2), qi(5))] {
                    let f = [e1[0] * l, e1[1] * l, e1[2] * l];
                    let t = [(e1[0] * ct + e2[0] * st) * mm, (e1[1] * ct + e2[1] * st) * mm, (e1[2] * ct + e2[2] * st) * mm];
                    pairs.push((f, t));
                } } } }
        // near-180-degree half-angle points (1+cos = 2ch^2 down to 2e-6, far above the code's epsilon), coordinate frame and two tilted frames
        for (ax, c, sn) in [([Z, Z, ONE], ONE, Z), ([q(1, 3), q(2, 3), q(2, 3)], q(3, 5), q(4, 5)), ([q(2, 7), q(-3, 7), q(6, 7)], q(-4, 5), q(3, 5))] {
            let m = rodrigues(&ax, c, sn);
            let (e1, e2) = ([m[0][0], m[1][0], m[2][0]], [m[0][1], m[1][1], m[2][1]]);
            for (tn, td) in [(9, 10), (99, 100), (999, 1000), (-999, 1000), (1001, 1000)] {
                let t = q(tn, td); let den = ONE + t * t; let (ch, sh) = ((ONE - t * t) / den, (t + t) / den);
                let (ct, st) = (ch * ch - sh * sh, (sh + sh) * ch);
                for (l, mm) in [(qi(1), qi(1)), (qi(3), q(1, 2))] {
                    pairs.push(([e1[0] * l, e1[1] * l, e1[2] * l], [(e1[0] * ct + e2[0] * st) * mm, (e1[1] * ct + e2[1] * st) * mm, (e1[2] * ct + e2[2] * st) * mm]));
                } } }
        let n2 = pairs.len() - n1;
        // F3
        for d in int_dirs(5) { for k in [qi(1), qi(2), q(1, 3)] { pairs.push((sc(&d, qi(1)), sc(&d, -k))); } }
        let n3 = pairs.len() - n1 - n2;
        run_pairs(s, &pairs);
        s.meta("pairs_generated", json!({"F1 integer grid": n1, "F2 planar rational": n2, "F3 opposite": n3}));
        s.meta("note", json!("pairs whose run needs an irrational square root are counted in the 'skipped: irrational' class and are covered by the float tier; pairs with 0 < 1+cos < 2^-52 (treated as opposite by the code's epsilon test) are not generated"));
    });
    let rule_f = "three families formed in the float type and enumerated completely: (A) all 124^2 ordered pairs of integer directions in {-2..2}^3 minus 0, from = l*d1, to = m*d2, (l,m) in {(1,1), (3,1/2), (0.1,7), (B,3B)} with B = 4097 (f32) / 94906267 (f64) (thorough also (B,1), (5,B), (0.3,0.7), (1e-3,1e3)); (B) exactly opposite integer vectors whose squared lengths are not exactly representable: from = (B+b)*d, b in 0..64 (thorough 0..256), d in {-3..3}^3 minus 0, to = -k*from, k in {2,3,5,7} (all products exact, so the pair is exactly opposite as real vectors); (C) from = fl(0.1)*b*d + (0.013,-0.007,0.003) (full mantissas), b in 1..=64 (thorough 256), d in {-3..3}^3 minus 0, to = fl(k*from), k in {-1.7,-3,-0.3}: opposite up to one rounding per component; (D) the literal pairs from = (1833,3,3), to = -5*from and from = (7920,1771718,1516008), to = -3*from.  Each pair is classified exactly (rational arithmetic on the float values: collinear? same or opposite sense?); oracle in f64 from the very floats the code received: want = to*|from|/|to|; absolute tolerance: exactly opposite: 256*eps*|from|; general (1+cos >= 1/64): 256*eps*|from|/cos(theta/2) (a relative perturbation of a few eps of (cross, w) is amplified by 1/cos(theta/2) in the half-angle construction and doubled by the sandwich); nearly but not exactly opposite (1+cos < 1/64): 8*sqrt(eps)*|from| (any half-angle construction with an 'opposite' threshold tau <= 16 eps is within sqrt(2 tau) <= 5.7 sqrt(eps) when it takes the 180-degree branch and within 8 eps/cos(theta/2) <= 8 sqrt(eps) otherwise; a derived cap, not a tuned one); checked: |q|^2 = 1 within 256 eps, real q*from, and real M*from and decoded-fields*from for the Mat3/Mat4 wrappers in both layouts; non-trivial: pair not parallel";
    rep.section("rotation_from_to_3d float tier f64", rule_f, true, false, |s| float_from_to!(s, f64, 94906267.0));
    rep.section("rotation_from_to_3d float tier f32", rule_f, true, false, |s| float_from_to!(s, f32, 4097.0));
}
// ---- into_angle_axis -------------------------------------------------------------------------------
macro_rules! float_angle_axis { ($s:expr, $T:ty) => {{
    let s: &Section = $s;
    s.require_classes(&["theta<0", "theta in (0,pi)", "theta in (pi,2pi)", "skipped: |sin(theta/2)| < 1/8 (axis ill-conditioned)"]);
    let n_ang: usize = if s.thorough() { 1024 } else { 96 };
    let eps = <$T as Fl>::EPS;
    let mut cl: BTreeMap<&'static str, u64> = BTreeMap::new();
    for ai in 0..n_ang {
        let theta = -6.28 + (ai as f64 + 0.5) * (12.56 / n_ang as f64);
        for d in int_dirs(2) {
            let n = ((d[0] * d[0] + d[1] * d[1] + d[2] * d[2]) as f64).sqrt();
            let (sh, ch) = ((theta / 2.0).sin(), (theta / 2.0).cos());
            let qt: Q4<$T> = [<$T as Fl>::f(d[0] as f64 / n * sh), <$T as Fl>::f(d[1] as f64 / n * sh), <$T as Fl>::f(d[2] as f64 / n * sh), <$T as Fl>::f(ch)];
            let qf: Q4<f64> = [qt[0].d(), qt[1].d(), qt[2].d(), qt[3].d()];
            let s2 = 1.0 - qf[3] * qf[3];
            if s2 < 1.0 / 64.0 { *cl.entry("skipped: |sin(theta/2)| < 1/8 (axis ill-conditioned)").or_insert(0) += 1; continue; }
            *cl.entry(if theta < 0.0 { "theta<0" } else if theta < std::f64::consts::PI { "theta in (0,pi)" } else { "theta in (pi,2pi)" }).or_insert(0) += 1;
            s.eval(true);
            let site = format!("Quaternion::into_angle_axis<{}>", <$T as Fl>::NAME);
            let inp = || json!({"q_xyzw": qf, "built_from": {"theta": theta, "axis_direction": d}});
            if let Some((ang, ax)) = s.call(&site, inp, || { let (a, v) = mkq(&qt).into_angle_axis(); (a.d(), [v.x.d(), v.y.d(), v.z.d()]) }) {
                let want = ref_q2m(&qf);
                let got = rodrigues_f(&ax, ang.cos(), ang.sin());
                // scale 2/s^2: s = sqrt(1 - w^2) carries a relative error eps/s^2 (cancellation), and so do the axis and, through it, the matrix; the angle 2 acos(w) carries 2 eps/s
                let tol = vx::fl::K * eps * 2.0 / s2;
                let worst = (0..3).flat_map(|i| (0..3).map(move |j| (i, j))).map(|(i, j)| (got[i][j] - want[i][j]).abs()).fold(0.0, f64::max);
                let alen = dotn(&ax, &ax).sqrt();
                if !(worst <= tol) { viol(s, &site, "angle-axis-describe-a-different-rotation-within-error-bound", || json!({"input": inp(), "angle": ang, "axis": ax, "worst_matrix_entry_error": worst, "tolerance": tol}), (ai as u64) + wsum(&d)); }
                if !((alen - 1.0).abs() <= tol) { viol(s, &site, "axis-not-unit-within-error-bound", || json!({"input": inp(), "angle": ang, "axis": ax, "axis_length": alen, "tolerance": tol}), (ai as u64) + wsum(&d)); }
                if s.wants_sample() && d[0] != 0 && d[1] != 0 { s.sample(json!({"input": inp(), "real_angle": ang, "real_axis": ax})); }
            }
        }
    }
    for (k, n) in cl { s.class_n(k, n); }
    s.meta("angles", json!(n_ang)); s.meta("axes", json!(124));
}} }

fn sections_angle_axis(rep: &Report, th: bool) {
    rep.section("into_angle_axis returns an angle and a unit axis describing the same rotation (exact tier)",
        "angles theta = k*arg(z), z a rational point of the unit circle (12 parameters t, even k in {0, +-2, +-4, +-6}; thorough k up to +-12), kept when |theta| < 2 pi, so that cos and sin of theta/2 are exact rationals and acos is resolved exactly in this alphabet (principal value in [0, pi]); axes: rational unit vectors (every 4th of vx::matx::unit_axes, thorough all), handed to rotation_3d also as 3x and 1/2x multiples.  Inputs: (a) the reference unit quaternion (axis sin(theta/2), cos(theta/2)) built by struct literal, (b) the real Quaternion::rotation_3d(theta, l*axis).  Verdict on the returned (angle, axis): |axis|^2 = 1, and Rodrigues(axis, cos angle, sin angle) (vx::matx::rodrigues, exact cos/sin of the returned token) == the reference matrix of the quaternion; additionally the real Mat3/Mat4::rotation_3d(angle, axis) (both layouts) == the real Mat::from(q).  theta = 0 is included (axis arbitrary but must be unit); non-trivial: theta != 0", true, false, |s| {
        s.require_classes(&["theta=0 (axis arbitrary)", "theta in (0,pi)", "theta=pi (w=0)", "theta in (pi,2pi) (w<0)", "theta in (-pi,0)", "theta in (-2pi,-pi) (w<0)"]);
        let bases: [(i128, i128); 12] = [(1, 7), (1, 5), (1, 3), (1, 2), (2, 3), (1, 1), (3, 2), (2, 1), (3, 1), (5, 1), (-1, 3), (-2, 1)];
        let kmax: i128 = if th { 12 } else { 6 };
        let axes: Vec<[X; 3]> = unit_axes().into_iter().enumerate().filter(|(i, _)| th || i % 4 == 0).map(|(_, a)| a).collect();
        let two_pi = 2.0 * std::f64::consts::PI;
        let mut nang = 0usize; let mut halfpts: Vec<(Q, Q)> = Vec::new();
        for (tn, td) in bases { let b = angle_base_t(tn, td); for k2 in -(kmax / 2)..=(kmax / 2) {
            if k2 == 0 && (tn, td) != (1, 7) { continue; } // theta = 0 once
            let theta = X::tok(b, 2 * k2); let half = X::tok(b, k2);
            if theta.shadow().abs() >= two_pi - 1e-9 { continue; }
            nang += 1;
            let (sh, ch) = half.sin_cos_q(); if !halfpts.contains(&(ch, sh)) { halfpts.push((ch, sh)); }
            let (st, ct) = theta.sin_cos_q();
            // the principal-value answer of acos(cos(theta/2)): the token among +-theta/2 with sin >= 0
            clear_inverse(); if k2 != 0 { register_inverse(if sh.n >= 0 { half } else { X::tok(b, -k2) }); }
            let th_f = theta.shadow(); let pi = std::f64::consts::PI;
            let cls = if k2 == 0 { "theta=0 (axis arbitrary)" } else if ch.n == 0 { "theta=pi (w=0)" } else if th_f > pi { "theta in (pi,2pi) (w<0)" } else if th_f > 0.0 { "theta in (0,pi)" } else if th_f > -pi { "theta in (-pi,0)" } else { "theta in (-2pi,-pi) (w<0)" };
            for ax in &axes {
                let qref: Q4<X> = [ax[0] * X::R(sh), ax[1] * X::R(sh), ax[2] * X::R(sh), X::R(ch)];
                let want = rodrigues(ax, X::R(ct), X::R(st));
                if ref_q2m(&qref) != want { s.rep.machinery_error(format!("reference quaternion matrix != Rodrigues for {:?} {:?}", ax, theta)); }
                let mut inputs: Vec<(String, Option<Q4<X>>)> = vec![("struct literal (axis sin(theta/2), cos(theta/2))".to_string(), Some(qref))];
                for l in [qi(1), qi(3), q(1, 2)] {
                    let given = [ax[0] * l, ax[1] * l, ax[2] * l];
                    inputs.push((format!("Quaternion::rotation_3d(theta, {}*axis)", l), s.call("Quaternion::rotation_3d", || json!({"theta": jx(theta), "axis": jxs(&given)}), || dq(Quaternion::rotation_3d(theta, v3(&given))))));
                }
                for (how, qo) in inputs {
                    let Some(qd) = qo else { continue };
                    s.eval(k2 != 0); s.class(cls);
                    let site = "Quaternion::into_angle_axis";
                    let inp = || json!({"q_xyzw": jxs(&qd), "built_by": how, "theta": {"token": jx(theta), "radians~": th_f, "cos": jd(&ct), "sin": jd(&st)}, "unit_axis": jxs(ax)});
                    let w = (k2.unsigned_abs() as u64) + wx(ax);
                    let Some((ang, axis)) = s.call(site, inp, || { let (a, v) = mkq(&qd).into_angle_axis(); (a, dv3(&v)) }) else { continue };
                    let Some((sa, ca)) = s.call(site, inp, || ang.sin_cos_q()) else { continue };
                    guarded(s, || {
                    if dotn(&axis, &axis) != ONE { viol(s, site, "axis-not-unit", || json!({"input": inp(), "angle": jx(ang), "axis": jxs(&axis)}), w); }
                    let got = rodrigues(&axis, X::R(ca), X::R(sa));
                    if got != ref_q2m(&qd) { viol(s, site, "angle-axis-describe-a-different-rotation", || json!({"input": inp(), "angle": jx(ang), "angle_radians~": ang.shadow(), "axis": jxs(&axis), "rotation(angle, axis)": jmat(&got), "rotation of q": jmat(&ref_q2m(&qd))}), w); }
                    // the real round trip named in the design
                    fn rt<const N: usize, M: QR<X, N>>(s: &Section, qd: &Q4<X>, ang: X, axis: [X; 3], inp: &dyn Fn() -> Value, w: u64) {
                        let site = format!("{}::rotation_3d(Quaternion::into_angle_axis)", M::NAME);
                        if let Some((a, b)) = s.call(&site, || inp(), || (M::t_rot3d(ang, axis).decode(), M::t_from_q(mkq(qd)).decode())) {
                            if a != b { viol(s, &site, "differs-from-Mat::from(q)", || json!({"input": inp(), "rotation_3d(angle, axis)": jmat(&a), "from(q)": jmat(&b)}), w); }
                        }
                    }
                    rt::<3, rm::Mat3<X>>(s, &qd, ang, axis, &inp, w); rt::<3, cm::Mat3<X>>(s, &qd, ang, axis, &inp, w);
                    rt::<4, rm::Mat4<X>>(s, &qd, ang, axis, &inp, w); rt::<4, cm::Mat4<X>>(s, &qd, ang, axis, &inp, w);
                    if k2 != 0 && ch.n < 0 && s.wants_sample() { s.sample(json!({"input": inp(), "real_angle": jx(ang), "real_angle_radians~": ang.shadow(), "real_axis": jxs(&axis)})); }
                    });
                }
            }
        } }
        clear_inverse();
        s.meta("angles", json!(nang)); s.meta("distinct_half_angle_points", json!(halfpts.len())); s.meta("axes", json!(axes.len()));
    });
    let rule_f = "96 angles theta = -6.28 + (i+1/2)*12.56/96 (thorough 1024), all in (-2pi, 2pi), x the 124 integer axis directions of {-2..2}^3 minus 0: q = (axis/|axis| sin(theta/2), cos(theta/2)) computed in f64 and rounded to the type; (angle, axis) = q.into_angle_axis(); Rodrigues(axis, cos angle, sin angle) in f64 vs the reference matrix of the very q handed in; |axis| vs 1; tolerance 256*eps(type)*2/(1-w^2) (s = sqrt(1-w^2) suffers cancellation: relative error eps/s^2, inherited by axis = xyz/s; the rounded q is unit only up to 2 eps, same amplification; the angle 2acos(w) has error 2 eps/s); quaternions with 1-w^2 < 1/64 are skipped as ill-conditioned for the axis (covered exactly, incl. theta = 0, by the exact tier); non-trivial: all evaluated";
    rep.section("into_angle_axis float tier f64", rule_f, true, false, |s| float_angle_axis!(s, f64));
    rep.section("into_angle_axis float tier f32", rule_f, true, false, |s| float_angle_axis!(s, f32));
}

// ---- magnitude / normalized (square roots) ---------------------------------------------------------
fn sections_norm(rep: &Report, th: bool) {
    rep.section("magnitude, normalized and the multiplicative norm with square roots (bounded)",
        "every p in {-4..4}^4 (thorough {-6..6}^4) and p/3 whose squared norm is a non-zero perfect square: magnitude() == the root, magnitude_squared() == its square, normalized() == p/|p| with squared norm 1; for every ordered pair of such p, q with |coordinates| <= 2 (thorough 3): (p*q).magnitude() == p.magnitude()*q.magnitude(); non-trivial: |p| != 1", true, false, |s| {
        s.require_classes(&["unit", "non-unit", "fractional"]);
        let r: i64 = if th { 6 } else { 4 };
        let alph: Vec<i64> = (-r..=r).collect();
        let (nu, nn, nf) = (Cnt::new(), Cnt::new(), Cnt::new());
        par_tuples(&alph, 4, |p| {
            let n2: i64 = p.iter().map(|v| v * v).sum();
            let Some(n) = Q::isqrt(n2 as i128) else { return }; if n == 0 { return; }
            for den in [1i128, 3] {
                let pq: Q4<X> = [q(p[0] as i128, den), q(p[1] as i128, den), q(p[2] as i128, den), q(p[3] as i128, den)];
                let norm = q(n, den);
                s.eval(norm != ONE);
                if den != 1 { nf.inc(); } else if n == 1 { nu.inc(); } else { nn.inc(); }
                let inp = || json!({"q_xyzw": jxs(&pq)});
                if let Some((m, m2, nz)) = s.call("Quaternion::magnitude", inp, || (mkq(&pq).magnitude(), mkq(&pq).magnitude_squared(), dq(mkq(&pq).normalized()))) {
                    if m != norm || m2 != norm * norm { viol(s, "Quaternion::magnitude", "not-the-euclidean-norm", || json!({"input": inp(), "magnitude": jx(m), "magnitude_squared": jx(m2), "want": jx(norm)}), wsum(p)); }
                    let want = [pq[0] / norm, pq[1] / norm, pq[2] / norm, pq[3] / norm];
                    if nz != want { viol(s, "Quaternion::normalized", "not-q-over-its-norm", || json!({"input": inp(), "got": jxs(&nz), "want": jxs(&want)}), wsum(p)); }
                    if n == 3 && den == 1 && s.wants_sample() { s.sample(json!({"input": inp(), "real_magnitude": jx(m), "real_normalized": jxs(&nz)})); }
                }
            }
        });
        s.class_n("unit", nu.get()); s.class_n("non-unit", nn.get()); s.class_n("fractional", nf.get());
        let rr: i64 = if th { 3 } else { 2 };
        let mut sq: Vec<[i64; 4]> = Vec::new();
        tuples(&(-rr..=rr).collect::<Vec<_>>(), 4, |p| { let n2: i64 = p.iter().map(|v| v * v).sum(); if n2 != 0 && Q::isqrt(n2 as i128).is_some() { sq.push([p[0], p[1], p[2], p[3]]); } });
        sq.par_iter().for_each(|a| { for b in &sq {
            let (p, qq): (Q4<X>, Q4<X>) = (xs(a), xs(b));
            s.eval(true);
            let inp = || json!({"p_xyzw": jxs(&p), "q_xyzw": jxs(&qq)});
            if let Some((mpq, mp, mq)) = s.call("Quaternion::magnitude", inp, || ((mkq(&p) * mkq(&qq)).magnitude(), mkq(&p).magnitude(), mkq(&qq).magnitude())) {
                if mpq != mp * mq { viol(s, "Quaternion * Quaternion", "magnitude-not-multiplicative", || json!({"input": inp(), "|p*q|": jx(mpq), "|p|": jx(mp), "|q|": jx(mq)}), wsum(a) + wsum(b)); }
            }
        } });
        s.meta("perfect_square_norm_points_for_pairs", json!(sq.len())); s.meta("box_range", json!(r));
    });
}
