//! C05 — quaternions form the Hamilton algebra and rotate vectors like their matrix.
//!
//! Complete tier: every ring law is a polynomial (or rational) identity in the quaternion / vector
//! components; the real code is run on exact rationals at every point of a simplex lattice whose order
//! is at least the total degree measured by a `Deg` run of the very same code (which also proves the
//! code path branch-free).  Unit quaternions are reached through the stereographic rational
//! parametrisation, which turns "for all unit quaternions" into a polynomial identity as well.
//! Bounded tier: rotation_from_to_3d (square roots, a branch), into_angle_axis (acos), magnitude /
//! normalized (sqrt) on explicit finite families in exact rationals, plus f64/f32 grids.
//! Reference model: the i,j,k multiplication table extended bilinearly, over plain arrays.
use rayon::prelude::*;
use std::collections::BTreeMap;
use std::sync::atomic::{AtomicU64, Ordering::Relaxed};
use vek::Quaternion;
use vx::fr::{Deg, Fr};
use vx::lattice::*;
use vx::matx::*;
use vx::q::{angle_base_t, clear_inverse, register_inverse};
use vx::term::Term;
use vx::*;

type Q4<T> = [T; 4];
const Z: X = X::R(Q::ZERO);
const ONE: X = X::R(Q::ONE);
fn mkq<T: Copy>(a: &Q4<T>) -> Quaternion<T> { Quaternion { x: a[0], y: a[1], z: a[2], w: a[3] } }
fn dq<T: Copy>(q: Quaternion<T>) -> Q4<T> { [q.x, q.y, q.z, q.w] }
fn xs<const N: usize>(a: &[i64]) -> [X; N] { let mut v = [Z; N]; for i in 0..N { v[i] = qi(a[i] as i128); } v }
fn wsum(a: &[i64]) -> u64 { a.iter().map(|v| v.unsigned_abs()).sum() }
fn wx(a: &[X]) -> u64 { a.iter().map(|v| { let r = v.rat(); (r.n.unsigned_abs() + r.d.unsigned_abs() - 1) as u64 }).sum() }
fn pad<T: Copy, const N: usize>(a: &[T; 3], w: T) -> [T; N] { let mut v = [w; N]; for i in 0..3.min(N) { v[i] = a[i]; } v }
fn e3(i: usize) -> [X; 3] { let mut v = [Z; 3]; v[i] = ONE; v }
struct Cnt(AtomicU64);
impl Cnt { fn new() -> Cnt { Cnt(AtomicU64::new(0)) } fn inc(&self) { self.0.fetch_add(1, Relaxed); } fn get(&self) -> u64 { self.0.load(Relaxed) } }

// ---- reference model: the Hamilton algebra from its multiplication table ---------------------------
/// basis order [i, j, k, 1] (= the public fields x, y, z, w).  TABLE[a][b] = (sign, index) of e_a e_b,
/// written down from  i^2 = j^2 = k^2 = ijk = -1  (ij = k, jk = i, ki = j, and the reversed products negated).
const TABLE: [[(i8, usize); 4]; 4] = [
    [(-1, 3), (1, 2), (-1, 1), (1, 0)],  // i*i = -1, i*j =  k, i*k = -j, i*1 = i
    [(-1, 2), (-1, 3), (1, 0), (1, 1)],  // j*i = -k, j*j = -1, j*k =  i, j*1 = j
    [(1, 1), (-1, 0), (-1, 3), (1, 2)],  // k*i =  j, k*j = -i, k*k = -1, k*1 = k
    [(1, 0), (1, 1), (1, 2), (1, 3)],    // 1*e = e
];
fn ham<T: Ring>(p: &Q4<T>, q: &Q4<T>) -> Q4<T> {
    let mut o = [T::zero(); 4];
    for a in 0..4 { for b in 0..4 { let (sg, k) = TABLE[a][b]; let t = p[a] * q[b]; o[k] = if sg > 0 { o[k] + t } else { o[k] - t }; } }
    o
}
fn conj<T: Ring>(q: &Q4<T>) -> Q4<T> { [-q[0], -q[1], -q[2], q[3]] }
fn norm2<T: Ring>(q: &Q4<T>) -> T { q[0] * q[0] + q[1] * q[1] + q[2] * q[2] + q[3] * q[3] }
/// q (v,0) q*  — for a unit q this is the definition of "rotating v by q"; the scalar part is 0 for every q
fn sandwich<T: Ring>(q: &Q4<T>, v: &[T; 3]) -> Q4<T> { ham(&ham(q, &[v[0], v[1], v[2], T::zero()]), &conj(q)) }
fn rot<T: Ring>(q: &Q4<T>, v: &[T; 3]) -> [T; 3] { let s = sandwich(q, v); [s[0], s[1], s[2]] }
/// matrix of v -> q v q* (columns = images of the basis)
fn ref_q2m<T: Ring>(q: &Q4<T>) -> A<T, 3> {
    let mut m = [[T::zero(); 3]; 3];
    for j in 0..3 { let mut e = [T::zero(); 3]; e[j] = T::one(); let c = rot(q, &e); for i in 0..3 { m[i][j] = c[i]; } }
    m
}
fn rodrigues_f(k: &[f64; 3], c: f64, s: f64) -> A<f64, 3> {
    let mut m = [[0.0; 3]; 3];
    for j in 0..3 { let mut e = [0.0; 3]; e[j] = 1.0; let kxe = cross3(k, &e); let kd = k[j]; for i in 0..3 { m[i][j] = e[i] * c + kxe[i] * s + k[i] * kd * (1.0 - c); } }
    m
}

// ---- uniform access to the matrix API --------------------------------------------------------------
trait QM<T: Copy, const N: usize>: MatIO<T, N> + Copy {
    const NAME: &'static str;
    fn t_from_q(q: Quaternion<T>) -> Self;
    fn t_mulv(self, v: [T; N]) -> [T; N];
}
trait QR<T: Copy, const N: usize>: QM<T, N> {
    fn t_from_to(f: [T; 3], t: [T; 3]) -> Self;
    fn t_rot3d(a: T, ax: [T; 3]) -> Self;
}
macro_rules! qm { ($md:ident :: $M:ident, $N:expr, $V:ident, $name:expr; $($T:ty),*) => { $(
    impl QM<$T, $N> for $md::$M<$T> {
        const NAME: &'static str = $name;
        fn t_from_q(q: Quaternion<$T>) -> Self { Self::from(q) }
        fn t_mulv(self, v: [$T; $N]) -> [$T; $N] { (self * <$V<$T> as VecIO<$T, $N>>::build(&v)).decode() }
    } )* } }
macro_rules! qr { ($md:ident :: $M:ident, $N:expr; $($T:ty),*) => { $(
    impl QR<$T, $N> for $md::$M<$T> {
        fn t_from_to(f: [$T; 3], t: [$T; 3]) -> Self { Self::rotation_from_to_3d(v3(&f), v3(&t)) }
        fn t_rot3d(a: $T, ax: [$T; 3]) -> Self { Self::rotation_3d(a, v3(&ax)) }
    } )* } }
qm!(rm::Mat3, 3, Vec3, "Mat3<row>"; X, f64, f32, Deg);
qm!(cm::Mat3, 3, Vec3, "Mat3<col>"; X, f64, f32, Deg);
qm!(rm::Mat4, 4, Vec4, "Mat4<row>"; X, f64, f32, Deg);
qm!(cm::Mat4, 4, Vec4, "Mat4<col>"; X, f64, f32, Deg);
qr!(rm::Mat3, 3; X, f64, f32);
qr!(cm::Mat3, 3; X, f64, f32);
qr!(rm::Mat4, 4; X, f64, f32);
qr!(cm::Mat4, 4; X, f64, f32);

trait Fl: Copy + 'static { const NAME: &'static str; const EPS: f64; fn f(v: f64) -> Self; fn d(self) -> f64; }
impl Fl for f64 { const NAME: &'static str = "f64"; const EPS: f64 = f64::EPSILON; fn f(v: f64) -> f64 { v } fn d(self) -> f64 { self } }
impl Fl for f32 { const NAME: &'static str = "f32"; const EPS: f64 = f32::EPSILON as f64; fn f(v: f64) -> f32 { v as f32 } fn d(self) -> f64 { self as f64 } }

static VSEEN: std::sync::Mutex<BTreeMap<String, (u64, u64)>> = std::sync::Mutex::new(BTreeMap::new());
/// record a violation; after 200 of one kind in one section only those with a new smallest weight are itemised
/// (keeps failing runs fast; the number of un-itemised ones is reported in the evidence)
fn viol(s: &Section, site: &str, class: &str, detail: impl FnOnce() -> Value, weight: u64) {
    let key = format!("{} :: {}|{}", s.name, site, class);
    let emit = { let mut m = VSEEN.lock().unwrap(); let e = m.entry(key).or_insert((0, u64::MAX)); e.0 += 1; let em = e.0 <= 200 || weight < e.1; if weight < e.1 { e.1 = weight; } em };
    if emit { s.violation_w(site, class, detail(), weight); }
}
/// run verdict code that computes on real outputs: an overflow of the exact type there is unmodelled, never an abort
fn guarded(s: &Section, f: impl FnOnce()) { if let Err(e) = catch(f) { match e { Caught::Unmodelled(w) => s.unmodelled(w), Caught::Panic(m) => s.rep.machinery_error(format!("oracle panicked in '{}': {}", s.name, m)) } } }

// ---- premise bookkeeping ---------------------------------------------------------------------------
type Prem = std::cell::RefCell<BTreeMap<&'static str, Result<u32, String>>>;
/// measured degree (or the textbook fallback with the section degraded to bounded)
fn deg_of(prem: &Prem, s: &Section, name: &'static str, fallback: u32) -> u32 {
    match prem.borrow().get(name) {
        Some(Ok(d)) => { s.meta(&format!("measured_degree[{}]", name), json!(d)); *d }
        Some(Err(e)) => { s.degrade(&format!("premise '{}' failed: {}", name, e)); fallback }
        None => { s.degrade(&format!("premise '{}' was not measured", name)); fallback }
    }
}
fn lat_meta(s: &Section, key: &str, n: usize, d: u32) { s.meta(key, json!({"variables": n, "order": d, "points": lattice_count(n, d).to_string()})); }

fn main() {
    let rep = Report::start("C05", "exploration");
    let th = rep.thorough();
    let extra: u32 = if th { 6 } else { 3 };
    let prem: Prem = Default::default();

    // ---- 0a. the oracle itself --------------------------------------------------------------------
    rep.section("oracle self-check (not vek)", "the reference table satisfies i^2 = j^2 = k^2 = ijk = -1 and 1 is neutral; the reference product is associative and its sandwich q (v,0) q* has scalar part 0 on L(7,4); for unit quaternions p/|p| (p in {-2..2}^4 with perfect-square norm) the sandwich matrix is orthogonal with determinant +1 and equals the textbook matrix; a failure is a machinery error; non-trivial: all", true, false, |s| {
        let b = |i: usize| { let mut v = [Z; 4]; v[i] = ONE; v };
        let m1 = [Z, Z, Z, -ONE];
        let mut ok = true;
        for i in 0..3 { s.eval(true); ok &= ham(&b(i), &b(i)) == m1 && ham(&b(3), &b(i)) == b(i) && ham(&b(i), &b(3)) == b(i); }
        s.eval(true); ok &= ham(&ham(&b(0), &b(1)), &b(2)) == m1 && ham(&b(3), &b(3)) == b(3);
        lattice(7, 4, |a| { s.eval(true); let q: Q4<X> = xs(&a[..4]); let v: [X; 3] = xs(&a[4..]); if sandwich(&q, &v)[3] != Z { ok = false; } });
        lattice(12, 3, |a| { s.eval(true); let (p, q, r): (Q4<X>, Q4<X>, Q4<X>) = (xs(&a[..4]), xs(&a[4..8]), xs(&a[8..])); if ham(&ham(&p, &q), &r) != ham(&p, &ham(&q, &r)) { ok = false; } });
        tuples(&[-2i64, -1, 0, 1, 2], 4, |p| {
            let n2: i64 = p.iter().map(|v| v * v).sum();
            let Some(n) = Q::isqrt(n2 as i128) else { return }; if n == 0 { return; }
            s.eval(true);
            let q: Q4<X> = [q(p[0] as i128, n), q(p[1] as i128, n), q(p[2] as i128, n), q(p[3] as i128, n)];
            let m = ref_q2m(&q); let [x, y, z, w] = q; let two = qi(2);
            let tb: A<X, 3> = [[ONE - two * (y * y + z * z), two * (x * y - z * w), two * (x * z + y * w)], [two * (x * y + z * w), ONE - two * (x * x + z * z), two * (y * z - x * w)], [two * (x * z - y * w), two * (y * z + x * w), ONE - two * (x * x + y * y)]];
            if m != tb || mmul(&m, &transpose(&m)) != ident::<X, 3>() || det(&m) != ONE { ok = false; }
        });
        if !ok { s.rep.machinery_error("reference Hamilton algebra is wrong".to_string()); }
        s.sample(json!({"table": "i*j = k, j*k = i, k*i = j, i*i = j*j = k*k = -1", "fields": "x = i, y = j, z = k, w = 1"}));
    });

    // ---- 0b. premise ------------------------------------------------------------------------------
    rep.section("premise: the algebraic operations are branch-free ring code of the measured total degree",
        "one run of each operation on tropical degree values (inputs degree 1 or, for the partial degrees, degree 0; any comparison, cast, sqrt, abs or epsilon() aborts the run); the measured degrees fix the lattice orders of the complete sections below; non-trivial: all", true, true, |s| {
        let (v, c) = (Deg::VAR, Deg::CONST);
        let (qv, qc) = (mkq(&[v; 4]), mkq(&[c; 4]));
        let (v3v, v3c) = (Vec3 { x: v, y: v, z: v }, Vec3 { x: c, y: c, z: c });
        let (v4v, v4c) = (Vec4 { x: v, y: v, z: v, w: v }, Vec4 { x: c, y: c, z: c, w: c });
        let mut all: BTreeMap<&'static str, Value> = BTreeMap::new();
        let mut m = |name: &'static str, r: Result<Vec<Deg>, Caught>, allow_div: bool| {
            s.eval(true);
            let out = match r {
                Ok(ds) => { let n = ds.iter().map(|d| d.n).max().unwrap_or(0); let d = ds.iter().map(|d| d.d).max().unwrap_or(0);
                            if d != 0 && !allow_div { Err("a division is present".to_string()) } else { Ok(n.max(d)) } }
                Err(e) => Err(format!("{:?}", e)),
            };
            all.insert(name, match &out { Ok(d) => json!(d), Err(e) => json!(e) });
            if let Err(e) = &out { s.degrade(&format!("{}: {}", name, e)); }
            prem.borrow_mut().insert(name, out);
        };
        let f3 = |m: A<Deg, 3>| m.iter().flatten().copied().collect::<Vec<_>>();
        let f4 = |m: A<Deg, 4>| m.iter().flatten().copied().collect::<Vec<_>>();
        m("mul", catch(|| dq(qv * qv).to_vec()), false);
        m("(p*q)*r", catch(|| dq((qv * qv) * qv).to_vec()), false);
        m("p*(q*r)", catch(|| dq(qv * (qv * qv)).to_vec()), false);
        m("magnitude_squared", catch(|| vec![qv.magnitude_squared()]), false);
        m("|p*q|^2", catch(|| vec![(qv * qv).magnitude_squared()]), false);
        m("|p|^2*|q|^2", catch(|| vec![qv.magnitude_squared() * qv.magnitude_squared()]), false);
        m("dot", catch(|| vec![qv.dot(qv)]), false);
        m("conjugate", catch(|| dq(qv.conjugate()).to_vec()), false);
        m("conj(p*q)", catch(|| dq((qv * qv).conjugate()).to_vec()), false);
        m("conj(q)*conj(p)", catch(|| dq(qv.conjugate() * qv.conjugate()).to_vec()), false);
        m("q*conj(q)", catch(|| dq(qv * qv.conjugate()).to_vec()), false);
        m("q*Vec3", catch(|| dv3(&(qv * v3v)).to_vec()), false);
        m("q*Vec3 (in q)", catch(|| dv3(&(qv * v3c)).to_vec()), false);
        m("q*Vec3 (in v)", catch(|| dv3(&(qc * v3v)).to_vec()), false);
        m("q*Vec4", catch(|| dv4(&(qv * v4v)).to_vec()), false);
        m("q*Vec4 (in q)", catch(|| dv4(&(qv * v4c)).to_vec()), false);
        m("q*Vec4 (in v)", catch(|| dv4(&(qc * v4v)).to_vec()), false);
        m("(p*q)*Vec3", catch(|| dv3(&((qv * qv) * v3v)).to_vec()), false);
        m("p*(q*Vec3)", catch(|| dv3(&(qv * (qv * v3v))).to_vec()), false);
        m("(p*q)*Vec4", catch(|| dv4(&((qv * qv) * v4v)).to_vec()), false);
        m("p*(q*Vec4)", catch(|| dv4(&(qv * (qv * v4v))).to_vec()), false);
        m("Mat3<row>::from(q)", catch(|| f3(rm::Mat3::<Deg>::t_from_q(qv).decode())), false);
        m("Mat3<col>::from(q)", catch(|| f3(cm::Mat3::<Deg>::t_from_q(qv).decode())), false);
        m("Mat4<row>::from(q)", catch(|| f4(rm::Mat4::<Deg>::t_from_q(qv).decode())), false);
        m("Mat4<col>::from(q)", catch(|| f4(cm::Mat4::<Deg>::t_from_q(qv).decode())), false);
        m("Mat3<row>::from(q)*v (in q)", catch(|| rm::Mat3::<Deg>::t_from_q(qv).t_mulv([c; 3]).to_vec()), false);
        m("Mat3<col>::from(q)*v (in q)", catch(|| cm::Mat3::<Deg>::t_from_q(qv).t_mulv([c; 3]).to_vec()), false);
        m("Mat4<row>::from(q)*v (in q)", catch(|| rm::Mat4::<Deg>::t_from_q(qv).t_mulv([c; 4]).to_vec()), false);
        m("Mat4<col>::from(q)*v (in q)", catch(|| cm::Mat4::<Deg>::t_from_q(qv).t_mulv([c; 4]).to_vec()), false);
        m("Mat3<row>::from(q)*v (in v)", catch(|| rm::Mat3::<Deg>::t_from_q(qc).t_mulv([v; 3]).to_vec()), false);
        m("Mat3<col>::from(q)*v (in v)", catch(|| cm::Mat3::<Deg>::t_from_q(qc).t_mulv([v; 3]).to_vec()), false);
        m("Mat4<row>::from(q)*v (in v)", catch(|| rm::Mat4::<Deg>::t_from_q(qc).t_mulv([v; 4]).to_vec()), false);
        m("Mat4<col>::from(q)*v (in v)", catch(|| cm::Mat4::<Deg>::t_from_q(qc).t_mulv([v; 4]).to_vec()), false);
        m("inverse", catch(|| dq(qv.inverse()).to_vec()), true);
        m("q*inverse(q)", catch(|| dq(qv * qv.inverse()).to_vec()), true);
        m("inverse(q)*q", catch(|| dq(qv.inverse() * qv).to_vec()), true);
        s.meta("measured_degrees", json!(all));
        s.sample(json!({"operation": "(p*q)*Vec3", "inputs": "all 11 components = degree-1 variable", "measured_total_degree": all.get("(p*q)*Vec3")}));
    });
    let pd = |s: &Section, names: &[&'static str], fallback: u32| -> u32 { names.iter().map(|n| deg_of(&prem, s, n, fallback)).max().unwrap() };

    // ---- 1. Hamilton product ----------------------------------------------------------------------
    rep.section("Hamilton product: p*q is the bilinear extension of the i,j,k table",
        "all points of L(8, D), D = measured degree 2 + 2 (quick) / + 4 (thorough): components of p and q are non-negative integers with sum <= D (includes all 16 products of basis elements); the real p*q decoded by fields vs the reference table product; a polynomial identity of total degree <= D vanishing on L(n, D) vanishes identically, so this decides the law for all components; non-trivial: p != 0 and q != 0", true, true, |s| {
        s.require_classes(&["basis-pair", "order-matters", "commuting"]);
        let d = pd(s, &["mul"], 2) + extra;
        let (nb, nord, ncom) = (Cnt::new(), Cnt::new(), Cnt::new());
        par_lattice(8, d, |a| {
            let (p, q): (Q4<X>, Q4<X>) = (xs(&a[..4]), xs(&a[4..]));
            let (want, rev) = (ham(&p, &q), ham(&q, &p));
            let nz = p != [Z; 4] && q != [Z; 4];
            s.eval(nz);
            if wsum(&a[..4]) == 1 && wsum(&a[4..]) == 1 { nb.inc(); }
            if want != rev { nord.inc(); } else { ncom.inc(); }
            let inp = || json!({"p_xyzw": jxs(&p), "q_xyzw": jxs(&q)});
            if let Some(g) = s.call("Quaternion * Quaternion", inp, || dq(mkq(&p) * mkq(&q))) {
                if g != want { viol(s, "Quaternion * Quaternion", "not-the-hamilton-product", || json!({"input": inp(), "got_xyzw": jxs(&g), "want_xyzw": jxs(&want), "got_equals_q*p": g == rev}), wsum(a)); }
                if want != rev && wsum(a) == 2 && s.wants_sample() { s.sample(json!({"input": inp(), "real_output_xyzw": jxs(&g)})); }
            }
        });
        s.class_n("basis-pair", nb.get()); s.class_n("order-matters", nord.get()); s.class_n("commuting", ncom.get());
        lat_meta(s, "lattice", 8, d);
    });

    // ---- 2. identity ------------------------------------------------------------------------------
    rep.section("identity()/default() is the neutral element (0,0,0,1)",
        "all points of L(4, 1 + extra) (degree 1): identity()*q = q*identity() = q, the same with Default::default(); the fields of identity()/default()/zero() are read directly; non-trivial: q != 0", true, true, |s| {
        let d = 1 + extra;
        if pd(s, &["mul"], 2) > 2 { s.degrade("product degree above 2"); }
        s.eval(true);
        if let Some((i, dflt, z)) = s.call("Quaternion::identity", || json!(null), || (dq(Quaternion::<X>::identity()), dq(<Quaternion<X> as Default>::default()), dq(Quaternion::<X>::zero()))) {
            if i != [Z, Z, Z, ONE] { s.violation("Quaternion::identity", "not-(0,0,0,1)", json!({"got_xyzw": jxs(&i)})); }
            if dflt != [Z, Z, Z, ONE] { s.violation("Quaternion::default", "not-the-identity", json!({"got_xyzw": jxs(&dflt)})); }
            if z != [Z; 4] { s.violation("Quaternion::zero", "not-zero", json!({"got_xyzw": jxs(&z)})); }
        }
        par_lattice(4, d, |a| {
            let q: Q4<X> = xs(a);
            let inp = || json!({"q_xyzw": jxs(&q)});
            let id = Quaternion::<X>::identity(); let df = <Quaternion<X> as Default>::default();
            for (site, got) in [
                ("identity() * q", s.call("identity*q", inp, || dq(id * mkq(&q)))), ("q * identity()", s.call("q*identity", inp, || dq(mkq(&q) * id))),
                ("default() * q", s.call("default*q", inp, || dq(df * mkq(&q)))), ("q * default()", s.call("q*default", inp, || dq(mkq(&q) * df))),
            ] {
                s.eval(q != [Z; 4]);
                if let Some(g) = got { if g != q { viol(s, &format!("Quaternion {}", site), "identity-not-neutral", || json!({"input": inp(), "got_xyzw": jxs(&g)}), wsum(a)); } }
            }
        });
        s.sample(json!({"q_xyzw": [0, 1, 0, 0], "law": "identity()*q == q == q*identity()"}));
        lat_meta(s, "lattice", 4, d);
    });

    // ---- 3. associativity -------------------------------------------------------------------------
    rep.section("multiplication is associative: (p*q)*r = p*(q*r)",
        "all points of L(12, D), D = measured degree 3 + extra: real (p*q)*r == real p*(q*r) == reference triple product; non-trivial: p, q, r all non-zero", true, true, |s| {
        s.require_classes(&["three-distinct-imaginary-units"]);
        let d = pd(s, &["(p*q)*r", "p*(q*r)"], 3) + extra;
        let n3 = Cnt::new();
        par_lattice(12, d, |a| {
            let (p, q, r): (Q4<X>, Q4<X>, Q4<X>) = (xs(&a[..4]), xs(&a[4..8]), xs(&a[8..]));
            s.eval(p != [Z; 4] && q != [Z; 4] && r != [Z; 4]);
            if a[0] > 0 && a[5] > 0 && a[10] > 0 { n3.inc(); }
            let want = ham(&ham(&p, &q), &r);
            let inp = || json!({"p_xyzw": jxs(&p), "q_xyzw": jxs(&q), "r_xyzw": jxs(&r)});
            if let Some((l, rr)) = s.call("Quaternion * Quaternion", inp, || (dq((mkq(&p) * mkq(&q)) * mkq(&r)), dq(mkq(&p) * (mkq(&q) * mkq(&r))))) {
                if l != rr { viol(s, "Quaternion * Quaternion", "not-associative", || json!({"input": inp(), "(p*q)*r": jxs(&l), "p*(q*r)": jxs(&rr)}), wsum(a)); }
                else if l != want { viol(s, "Quaternion * Quaternion", "triple-product-wrong", || json!({"input": inp(), "got": jxs(&l), "want": jxs(&want)}), wsum(a)); }
                if a[0] > 0 && a[5] > 0 && a[10] > 0 && wsum(a) == 3 && s.wants_sample() { s.sample(json!({"input": inp(), "(p*q)*r = p*(q*r) =": jxs(&l)})); }
            }
        });
        s.class_n("three-distinct-imaginary-units", n3.get());
        lat_meta(s, "lattice", 12, d);
    });

    // ---- 4. norm ----------------------------------------------------------------------------------
    rep.section("the norm is multiplicative: |p*q|^2 = |p|^2 |q|^2; magnitude_squared and dot are the sums of products",
        "all points of L(8, D), D = measured degree 4 + extra: real (p*q).magnitude_squared() == real p.magnitude_squared() * q.magnitude_squared() == reference (sum of squares); p.dot(q) == sum p_i q_i and p.dot(p) == magnitude_squared; (magnitude() itself needs a square root: bounded section below); non-trivial: p != 0 and q != 0", true, true, |s| {
        let d = pd(s, &["|p*q|^2", "|p|^2*|q|^2", "dot", "magnitude_squared"], 4) + extra;
        par_lattice(8, d, |a| {
            let (p, q): (Q4<X>, Q4<X>) = (xs(&a[..4]), xs(&a[4..]));
            s.eval(p != [Z; 4] && q != [Z; 4]);
            let (np, nq) = (norm2(&p), norm2(&q));
            let wd = p[0] * q[0] + p[1] * q[1] + p[2] * q[2] + p[3] * q[3];
            let inp = || json!({"p_xyzw": jxs(&p), "q_xyzw": jxs(&q)});
            if let Some((npq, mp, mq, dt, dpp)) = s.call("Quaternion::magnitude_squared", inp, || ((mkq(&p) * mkq(&q)).magnitude_squared(), mkq(&p).magnitude_squared(), mkq(&q).magnitude_squared(), mkq(&p).dot(mkq(&q)), mkq(&p).dot(mkq(&p)))) {
                if mp != np || mq != nq { viol(s, "Quaternion::magnitude_squared", "not-the-sum-of-squares", || json!({"input": inp(), "got": [jx(mp), jx(mq)], "want": [jx(np), jx(nq)]}), wsum(a)); }
                if npq != mp * mq || npq != np * nq { viol(s, "Quaternion * Quaternion", "norm-not-multiplicative", || json!({"input": inp(), "|p*q|^2": jx(npq), "|p|^2|q|^2": jx(np * nq)}), wsum(a)); }
                if dt != wd || dpp != np { viol(s, "Quaternion::dot", "not-the-sum-of-products", || json!({"input": inp(), "p.q": jx(dt), "want": jx(wd), "p.p": jx(dpp)}), wsum(a)); }
                if wsum(a) == d as u64 && a[0] > 0 && a[7] > 0 && s.wants_sample() { s.sample(json!({"input": inp(), "|p*q|^2": jx(npq), "|p|^2": jx(mp), "|q|^2": jx(mq)})); }
            }
        });
        lat_meta(s, "lattice", 8, d);
    });

    // ---- 5. conjugation ---------------------------------------------------------------------------
    rep.section("conjugation negates the vector part and reverses products: (p*q)* = q* p*, q q* = |q|^2",
        "all points of L(8, D), D = measured degree 2 + extra: p.conjugate() fields == (-x,-y,-z,w); real (p*q).conjugate() == real q.conjugate()*p.conjugate() == reference; p*p.conjugate() == (0,0,0,|p|^2); non-trivial: p*q != q*p (the reversal is observable)", true, true, |s| {
        s.require_classes(&["reversal-observable"]);
        let d = pd(s, &["conj(p*q)", "conj(q)*conj(p)", "q*conj(q)", "conjugate"], 2) + extra;
        let nobs = Cnt::new();
        par_lattice(8, d, |a| {
            let (p, q): (Q4<X>, Q4<X>) = (xs(&a[..4]), xs(&a[4..]));
            let want = conj(&ham(&p, &q));
            let unrev = ham(&conj(&p), &conj(&q));
            s.eval(want != unrev); if want != unrev { nobs.inc(); }
            let inp = || json!({"p_xyzw": jxs(&p), "q_xyzw": jxs(&q)});
            if let Some((cp, l, r, pp)) = s.call("Quaternion::conjugate", inp, || (dq(mkq(&p).conjugate()), dq((mkq(&p) * mkq(&q)).conjugate()), dq(mkq(&q).conjugate() * mkq(&p).conjugate()), dq(mkq(&p) * mkq(&p).conjugate()))) {
                if cp != conj(&p) { viol(s, "Quaternion::conjugate", "not-(-x,-y,-z,w)", || json!({"q_xyzw": jxs(&p), "got_xyzw": jxs(&cp)}), wsum(&a[..4])); }
                if l != r || l != want { viol(s, "Quaternion::conjugate", "does-not-reverse-products", || json!({"input": inp(), "(p*q)*": jxs(&l), "q* p*": jxs(&r), "want": jxs(&want)}), wsum(a)); }
                if pp != [Z, Z, Z, norm2(&p)] { viol(s, "Quaternion::conjugate", "q-times-conjugate-not-the-squared-norm", || json!({"q_xyzw": jxs(&p), "q q*": jxs(&pp)}), wsum(&a[..4])); }
                if want != unrev && wsum(a) == 2 && s.wants_sample() { s.sample(json!({"input": inp(), "(p*q).conjugate()": jxs(&l)})); }
            }
        });
        s.class_n("reversal-observable", nobs.get());
        lat_meta(s, "lattice", 8, d);
    });

    // ---- 6. inverse -------------------------------------------------------------------------------
    rep.section("inverse is a two-sided inverse: q q^-1 = q^-1 q = 1 (formal fractions)",
        "the real inverse() run on formal fractions (no quotient is ever formed) at every point of L(4, D), D = measured cross-degree + extra: each component n/d of inverse(q) satisfies n |q|^2 = conj(q) d, and each component of q*inverse(q) and inverse(q)*q cross-multiplies to (0,0,0,1); a rational identity whose cross-multiplied form has degree <= D and vanishes on L(4, D) holds wherever the denominator |q|^2 is non-zero, i.e. for every non-zero quaternion; non-trivial: q != 0", true, true, |s| {
        let d = pd(s, &["inverse", "q*inverse(q)", "inverse(q)*q"], 8) + extra;
        par_lattice(4, d, |a| {
            s.eval(wsum(a) != 0);
            let qf: Q4<Fr> = [Fr::int(a[0] as i128), Fr::int(a[1] as i128), Fr::int(a[2] as i128), Fr::int(a[3] as i128)];
            let n2: i128 = a.iter().map(|v| (*v as i128) * (*v as i128)).sum();
            let cj = [-(a[0] as i128), -(a[1] as i128), -(a[2] as i128), a[3] as i128];
            let inp = || json!({"q_xyzw": a});
            let fs = |f: &Q4<Fr>| json!(f.iter().map(|e| format!("{}/{}", e.n, e.d)).collect::<Vec<_>>());
            if let Some((inv, l, r, ok_inv, ok_l, ok_r)) = s.call("Quaternion::inverse", inp, || {
                let q = mkq(&qf); let i = q.inverse(); let (inv, l, r) = (dq(i), dq(q * i), dq(i * q));
                let one = |p: &Q4<Fr>| p[0].eq_ratio(0, 1) && p[1].eq_ratio(0, 1) && p[2].eq_ratio(0, 1) && p[3].eq_ratio(1, 1);
                let ok_inv = (0..4).all(|k| inv[k].eq_ratio(cj[k], n2));
                (inv, l, r, ok_inv, one(&l), one(&r))
            }) {
                if !ok_inv { viol(s, "Quaternion::inverse", "not-conjugate-over-squared-norm", || json!({"input": inp(), "got": fs(&inv)}), wsum(a)); }
                if !ok_l { viol(s, "Quaternion::inverse", "q*inverse(q)-is-not-1", || json!({"input": inp(), "inverse": fs(&inv), "q*inverse(q)": fs(&l)}), wsum(a)); }
                if !ok_r { viol(s, "Quaternion::inverse", "inverse(q)*q-is-not-1", || json!({"input": inp(), "inverse": fs(&inv), "inverse(q)*q": fs(&r)}), wsum(a)); }
                if wsum(a) == 4 && a.iter().all(|v| *v == 1) && s.wants_sample() { s.sample(json!({"input": inp(), "inverse_as_formal_fractions": fs(&inv)})); }
            }
        });
        lat_meta(s, "lattice", 4, d);
    });
    rep.section("inverse on exact rationals (all signs)",
        "every non-zero q in {-3..3}^4 (thorough {-5..5}^4) and q/7: q*inverse(q) == inverse(q)*q == (0,0,0,1) exactly and inverse(q) == conj(q)/|q|^2; non-trivial: all", true, false, |s| {
        s.require_classes(&["unit-norm", "non-unit-norm", "fractional"]);
        let r: i64 = if th { 5 } else { 3 };
        let alph: Vec<i64> = (-r..=r).collect();
        par_tuples(&alph, 4, |a| {
            if wsum(a) == 0 { return; }
            for den in [1i128, 7] {
                let q: Q4<X> = [q(a[0] as i128, den), q(a[1] as i128, den), q(a[2] as i128, den), q(a[3] as i128, den)];
                s.eval(true);
                let n2 = norm2(&q);
                let inp = || json!({"q_xyzw": jxs(&q)});
                if let Some((inv, l, rr)) = s.call("Quaternion::inverse", inp, || { let i = mkq(&q).inverse(); (dq(i), dq(mkq(&q) * i), dq(i * mkq(&q))) }) {
                    let c = conj(&q); let want = [c[0] / n2, c[1] / n2, c[2] / n2, c[3] / n2];
                    if inv != want { viol(s, "Quaternion::inverse", "not-conjugate-over-squared-norm", || json!({"input": inp(), "got": jxs(&inv), "want": jxs(&want)}), wsum(a)); }
                    if l != [Z, Z, Z, ONE] { viol(s, "Quaternion::inverse", "q*inverse(q)-is-not-1", || json!({"input": inp(), "q*inverse(q)": jxs(&l)}), wsum(a)); }
                    if rr != [Z, Z, Z, ONE] { viol(s, "Quaternion::inverse", "inverse(q)*q-is-not-1", || json!({"input": inp(), "inverse(q)*q": jxs(&rr)}), wsum(a)); }
                    if den == 1 && a == [1, -2, 0, 3] { s.sample(json!({"input": inp(), "real_inverse": jxs(&inv)})); }
                }
            }
        });
        // classes (cheap recount, no lock in the hot loop)
        let (mut u, mut n) = (0u64, 0u64);
        tuples(&alph, 4, |a| { if wsum(a) != 0 { if a.iter().map(|v| v * v).sum::<i64>() == 1 { u += 1; } else { n += 1; } } });
        s.class_n("unit-norm", u); s.class_n("non-unit-norm", n); s.class_n("fractional", u + n);
        s.meta("box", json!({"range": r, "denominators": [1, 7]}));
    });

    // ---- 7. linear structure and conversions (free terms) ------------------------------------------
    rep.section("scalar * and /, + - neg, conversions to/from Vec4, Vec3, (scalar, vector): element routing on free terms",
        "each operation run once on pairwise distinct uninterpreted terms (the most general input; the operators are uninterpreted constructors): every output field must be exactly op(a_field, b_field) / op(a_field, s) / the routed input; non-trivial: all", true, true, |s| {
        let a: Q4<Term> = [Term::var(0), Term::var(1), Term::var(2), Term::var(3)];
        let b: Q4<Term> = [Term::var(10), Term::var(11), Term::var(12), Term::var(13)];
        let sc = Term::var(99);
        let (qa, qb) = (mkq(&a), mkq(&b));
        let expect = |site: &str, got: Result<Vec<Term>, Caught>, want: Vec<Term>| {
            s.eval(true);
            match got {
                Ok(g) => if g != want { s.violation(&format!("Quaternion {}", site), "wrong-element", json!({"got": jd(&g), "want": jd(&want)})); },
                Err(e) => s.violation(&format!("Quaternion {}", site), "panic", json!({"error": jd(&e)})),
            }
        };
        let k = |i: i64| Term::cst(i);
        expect("+ Quaternion", catch(|| dq(qa + qb).to_vec()), (0..4).map(|i| Term::bin("add", a[i], b[i])).collect());
        expect("- Quaternion", catch(|| dq(qa - qb).to_vec()), (0..4).map(|i| Term::bin("sub", a[i], b[i])).collect());
        expect("neg", catch(|| dq(-qa).to_vec()), (0..4).map(|i| Term::un("neg", a[i])).collect());
        expect("* scalar", catch(|| dq(qa * sc).to_vec()), (0..4).map(|i| Term::bin("mul", a[i], sc)).collect());
        expect("/ scalar", catch(|| dq(qa / sc).to_vec()), (0..4).map(|i| Term::bin("div", a[i], sc)).collect());
        expect("conjugate", catch(|| dq(qa.conjugate()).to_vec()), vec![Term::un("neg", a[0]), Term::un("neg", a[1]), Term::un("neg", a[2]), a[3]]);
        expect("from_xyzw", catch(|| dq(Quaternion::from_xyzw(a[0], a[1], a[2], a[3])).to_vec()), a.to_vec());
        expect("from_scalar_and_vec3", catch(|| dq(Quaternion::from_scalar_and_vec3((a[3], Vec3 { x: a[0], y: a[1], z: a[2] }))).to_vec()), a.to_vec());
        expect("into_scalar_and_vec3", catch(|| { let (w, v) = qa.into_scalar_and_vec3(); vec![v.x, v.y, v.z, w] }), a.to_vec());
        expect("into_vec4", catch(|| dv4(&qa.into_vec4()).to_vec()), a.to_vec());
        expect("from_vec4", catch(|| dq(Quaternion::from_vec4(Vec4 { x: a[0], y: a[1], z: a[2], w: a[3] })).to_vec()), a.to_vec());
        expect("into_vec3", catch(|| dv3(&qa.into_vec3()).to_vec()), a[..3].to_vec());
        expect("From<Vec4>", catch(|| dq(Quaternion::from(Vec4 { x: a[0], y: a[1], z: a[2], w: a[3] })).to_vec()), a.to_vec());
        expect("Into<Vec4>", catch(|| dv4(&Vec4::from(qa)).to_vec()), a.to_vec());
        expect("Into<Vec3>", catch(|| dv3(&Vec3::from(qa)).to_vec()), a[..3].to_vec());
        expect("zero()", catch(|| dq(Quaternion::<Term>::zero()).to_vec()), vec![k(0); 4]);
        expect("identity()", catch(|| dq(Quaternion::<Term>::identity()).to_vec()), vec![k(0), k(0), k(0), k(1)]);
        expect("default()", catch(|| dq(<Quaternion<Term> as Default>::default()).to_vec()), vec![k(0), k(0), k(0), k(1)]);
        s.sample(json!({"a": jd(&a), "s": jd(&sc), "(a / s) must be": jd(&(0..4).map(|i| Term::bin("div", a[i], sc)).collect::<Vec<_>>())}));
    });

    sections_apply(&rep, &prem, th, extra);
    sections_from_to(&rep, th);
    sections_angle_axis(&rep, th);
    sections_norm(&rep, th);
    sections_signed(&rep, th);
    sections_from_to_more(&rep, th);
    sections_float_algebra(&rep);
    sections_from_to_float_scaled(&rep, th);
    sections_angle_axis_more(&rep, th);
    sections_round2(&rep, th);
    { let m = VSEEN.lock().unwrap(); let over: BTreeMap<String, u64> = m.iter().filter(|(_, v)| v.0 > 200).map(|(k, v)| (k.clone(), v.0)).collect(); if !over.is_empty() { rep.extra("violations_counted_beyond_the_200_itemised_per_kind", json!(over)); } }
    std::process::exit(rep.finish());
}

// ---- application of a quaternion to vectors --------------------------------------------------------
/// one unit quaternion x one vector: q*Vec3, q*Vec4 against the reference sandwich and the four real matrices
fn apply_case(s: &Section, q: &Q4<X>, v: &[X; 3], w4: X, weight: u64) { guarded(s, || apply_case_inner(s, q, v, w4, weight)); }
fn apply_case_inner(s: &Section, q: &Q4<X>, v: &[X; 3], w4: X, weight: u64) {
    let want = rot(q, v);
    let inp = || json!({"q_xyzw": jxs(q), "v": jxs(v), "w_of_vec4": jx(w4)});
    let v4a: [X; 4] = [v[0], v[1], v[2], w4];
    let Some((g3, g4)) = s.call("Quaternion * Vec3", inp, || (dv3(&(mkq(q) * v3(v))), dv4(&(mkq(q) * v4(&v4a))))) else { return };
    if g3 != want { viol(s, "Quaternion * Vec3", "not-the-sandwich-q-v-q*", || json!({"input": inp(), "got": jxs(&g3), "want": jxs(&want)}), weight); }
    if g4[3] != w4 { viol(s, "Quaternion * Vec4", "w-not-preserved", || json!({"input": inp(), "got": jxs(&g4)}), weight); }
    if g4[..3] != want { viol(s, "Quaternion * Vec4", "xyz-not-the-sandwich-q-v-q*", || json!({"input": inp(), "got": jxs(&g4), "want_xyz": jxs(&want)}), weight); }
    fn one<const N: usize, M: QM<X, N>>(s: &Section, q: &Q4<X>, vin: [X; N], gq: &[X], inp: &dyn Fn() -> Value, weight: u64) {
        let site = format!("{}::from(Quaternion) * Vec{}", M::NAME, N);
        if let Some((m, mv)) = s.call(&site, || inp(), || { let m = M::t_from_q(mkq(q)); (m.decode(), m.t_mulv(vin)) }) {
            let by_fields = mvec(&m, &vin);
            if mv[..] != gq[..] { viol(s, &site, "differs-from-quaternion-application", || json!({"input": inp(), "matrix": jmat(&m), "matrix*v": jxs(&mv), "q*v": jxs(gq)}), weight); }
            else if by_fields[..] != gq[..] { viol(s, &site, "decoded-matrix-times-v-differs-from-quaternion-application", || json!({"input": inp(), "matrix": jmat(&m), "fields*v": jxs(&by_fields), "q*v": jxs(gq)}), weight); }
        }
    }
    one::<3, rm::Mat3<X>>(s, q, *v, &g3, &inp, weight); one::<3, cm::Mat3<X>>(s, q, *v, &g3, &inp, weight);
    one::<4, rm::Mat4<X>>(s, q, v4a, &g4, &inp, weight); one::<4, cm::Mat4<X>>(s, q, v4a, &g4, &inp, weight);
    if s.wants_sample() && weight >= 4 && q[0] != Z && q[1] != Z && v[0] != Z { s.sample(json!({"input": inp(), "real q*Vec3": jxs(&g3), "real q*Vec4": jxs(&g4), "matrices_checked": 4})); }
}

fn sections_apply(rep: &Report, prem: &Prem, th: bool, extra: u32) {
    let pd = |s: &Section, names: &[&'static str], fallback: u32| -> u32 { names.iter().map(|n| deg_of(prem, s, n, fallback)).max().unwrap() };

    rep.section("application composes for ALL quaternions: (p*q)*v = p*(q*v), Vec3 and Vec4 (w untouched)",
        "all points of L(11, D) (p, q, Vec3) and L(12, D) (p, q, Vec4), D = measured degree 5 + extra: real (p*q)*v == real p*(q*v) == reference (pq)(v,0)(pq)*; for Vec4 additionally w returned untouched; polynomial identity, so decided for all quaternions (unit or not) and vectors; non-trivial: p, q, v non-zero and p*q != q*p", true, true, |s| {
        s.require_classes(&["order-matters", "vec4-w-nonzero"]);
        let d = pd(s, &["(p*q)*Vec3", "p*(q*Vec3)", "(p*q)*Vec4", "p*(q*Vec4)"], 5) + extra;
        let (nord, nw) = (Cnt::new(), Cnt::new());
        par_lattice(11, d, |a| {
            let (p, q, v): (Q4<X>, Q4<X>, [X; 3]) = (xs(&a[..4]), xs(&a[4..8]), xs(&a[8..]));
            let pq = ham(&p, &q);
            let nt = p != [Z; 4] && q != [Z; 4] && v != [Z; 3] && pq != ham(&q, &p);
            s.eval(nt); if nt { nord.inc(); }
            let want = rot(&pq, &v);
            let inp = || json!({"p_xyzw": jxs(&p), "q_xyzw": jxs(&q), "v": jxs(&v)});
            if let Some((l, r)) = s.call("Quaternion * Vec3", inp, || (dv3(&((mkq(&p) * mkq(&q)) * v3(&v))), dv3(&(mkq(&p) * (mkq(&q) * v3(&v)))))) {
                if l != r { viol(s, "Quaternion * Vec3", "application-does-not-compose", || json!({"input": inp(), "(p*q)*v": jxs(&l), "p*(q*v)": jxs(&r)}), wsum(a)); }
                else if l != want { viol(s, "Quaternion * Vec3", "not-the-sandwich-q-v-q*", || json!({"input": inp(), "got": jxs(&l), "want": jxs(&want)}), wsum(a)); }
                if nt && wsum(a) == 3 && s.wants_sample() { s.sample(json!({"input": inp(), "(p*q)*v = p*(q*v) =": jxs(&l)})); }
            }
        });
        par_lattice(12, d, |a| {
            let (p, q, v): (Q4<X>, Q4<X>, [X; 4]) = (xs(&a[..4]), xs(&a[4..8]), xs(&a[8..]));
            let pq = ham(&p, &q);
            let nt = p != [Z; 4] && q != [Z; 4] && v[..3] != [Z; 3] && pq != ham(&q, &p);
            s.eval(nt); if a[11] != 0 { nw.inc(); }
            let want3 = rot(&pq, &[v[0], v[1], v[2]]);
            let want = [want3[0], want3[1], want3[2], v[3]];
            let inp = || json!({"p_xyzw": jxs(&p), "q_xyzw": jxs(&q), "v_xyzw": jxs(&v)});
            if let Some((l, r)) = s.call("Quaternion * Vec4", inp, || (dv4(&((mkq(&p) * mkq(&q)) * v4(&v))), dv4(&(mkq(&p) * (mkq(&q) * v4(&v)))))) {
                if l != r { viol(s, "Quaternion * Vec4", "application-does-not-compose", || json!({"input": inp(), "(p*q)*v": jxs(&l), "p*(q*v)": jxs(&r)}), wsum(a)); }
                else if l[3] != v[3] { viol(s, "Quaternion * Vec4", "w-not-preserved", || json!({"input": inp(), "got": jxs(&l)}), wsum(a)); }
                else if l != want { viol(s, "Quaternion * Vec4", "xyz-not-the-sandwich-q-v-q*", || json!({"input": inp(), "got": jxs(&l), "want": jxs(&want)}), wsum(a)); }
            }
        });
        s.class_n("order-matters", nord.get()); s.class_n("vec4-w-nonzero", nw.get());
        lat_meta(s, "lattice Vec3", 11, d); lat_meta(s, "lattice Vec4", 12, d);
    });

    rep.section("a unit quaternion rotates like its matrix, for ALL unit quaternions (stereographic rational parametrisation)",
        "unit quaternions q(a,b,c) = (2a, 2b, 2c, 1-s)/(1+s), s = a^2+b^2+c^2 (every unit quaternion except (0,0,0,-1), which is the limit) x vector v (x w for Vec4): all points of L(6, D) / L(7, D) in (a,b,c,v[,w]) with D = 2*deg_q + deg_v + extra, where deg_q = 2 and deg_v = 1 are the measured degrees of q*v and Mat::from(q)*v in q and v: multiplying the claimed equality by (1+s)^deg_q gives a polynomial identity of total degree <= 2*deg_q + deg_v in (a,b,c,v), which vanishes identically iff it vanishes on the lattice; checked: real q*Vec3 == reference sandwich q(v,0)q*; real q*Vec4 == (the same xyz, w untouched); real Mat3/Mat4::from(q) (row- and column-major) * v == real q*v, also with the product formed by the reference mvec on the decoded fields; non-trivial: q != identity and v != 0", true, true, |s| {
        s.require_classes(&["q=identity", "q-general", "vec4-w-nonzero"]);
        let dq_ = pd(s, &["q*Vec3 (in q)", "q*Vec4 (in q)", "Mat3<row>::from(q)*v (in q)", "Mat3<col>::from(q)*v (in q)", "Mat4<row>::from(q)*v (in q)", "Mat4<col>::from(q)*v (in q)"], 2);
        let dv_ = pd(s, &["q*Vec3 (in v)", "q*Vec4 (in v)", "Mat3<row>::from(q)*v (in v)", "Mat3<col>::from(q)*v (in v)", "Mat4<row>::from(q)*v (in v)", "Mat4<col>::from(q)*v (in v)"], 1);
        let d = 2 * dq_ + dv_ + extra;
        let (nid, ngen, nw) = (Cnt::new(), Cnt::new(), Cnt::new());
        par_lattice(7, d, |p| {
            let (a, b, c) = (qi(p[0] as i128), qi(p[1] as i128), qi(p[2] as i128));
            let sq = a * a + b * b + c * c; let den = ONE + sq;
            let q: Q4<X> = [(a + a) / den, (b + b) / den, (c + c) / den, (ONE - sq) / den];
            let v: [X; 3] = xs(&p[3..6]);
            let nt = wsum(&p[..3]) != 0 && wsum(&p[3..6]) != 0;
            s.eval(nt);
            if wsum(&p[..3]) == 0 { nid.inc(); } else { ngen.inc(); } if p[6] != 0 { nw.inc(); }
            apply_case(s, &q, &v, qi(p[6] as i128), wsum(p));
        });
        s.class_n("q=identity", nid.get()); s.class_n("q-general", ngen.get()); s.class_n("vec4-w-nonzero", nw.get());
        lat_meta(s, "lattice", 7, d);
        s.meta("degree_argument", json!({"deg_q": dq_, "deg_v": dv_, "bound": 2 * dq_ + dv_}));
    });

    rep.section("a unit quaternion rotates like its matrix: all sign patterns (bounded box)",
        "every unit quaternion p/|p| with p in {-4..4}^4 (thorough {-6..6}^4) of non-zero perfect-square norm x v in {e_x, e_y, e_z, (1,2,3), (-2,1/2,5)} (Vec4: w = 1, -7): same comparisons as the previous section; non-trivial: q != +-identity", true, false, |s| {
        s.require_classes(&["w<0", "w=0 (half turn)", "w>0", "all-components-nonzero"]);
        let r: i64 = if th { 6 } else { 4 };
        let alph: Vec<i64> = (-r..=r).collect();
        let vs: [[X; 3]; 5] = [e3(0), e3(1), e3(2), [qi(1), qi(2), qi(3)], [qi(-2), q(1, 2), qi(5)]];
        let (nneg, nzero, npos, nall, nq) = (Cnt::new(), Cnt::new(), Cnt::new(), Cnt::new(), Cnt::new());
        par_tuples(&alph, 4, |p| {
            let n2: i64 = p.iter().map(|v| v * v).sum();
            let Some(n) = Q::isqrt(n2 as i128) else { return }; if n == 0 { return; }
            let uq: Q4<X> = [q(p[0] as i128, n), q(p[1] as i128, n), q(p[2] as i128, n), q(p[3] as i128, n)];
            nq.inc();
            if p[3] < 0 { nneg.inc(); } else if p[3] == 0 { nzero.inc(); } else { npos.inc(); }
            if p.iter().all(|v| *v != 0) { nall.inc(); }
            for (i, v) in vs.iter().enumerate() { s.eval(wsum(&p[..3]) != 0); apply_case(s, &uq, v, if i % 2 == 0 { qi(1) } else { qi(-7) }, wsum(p) + i as u64); }
        });
        s.class_n("w<0", nneg.get()); s.class_n("w=0 (half turn)", nzero.get()); s.class_n("w>0", npos.get()); s.class_n("all-components-nonzero", nall.get());
        s.meta("unit_quaternions", json!(nq.get())); s.meta("box_range", json!(r));
    });
}
// ---- rotation_from_to_3d ---------------------------------------------------------------------------
fn int_dirs(r: i64) -> Vec<[i64; 3]> { let mut v = Vec::new(); for x in -r..=r { for y in -r..=r { for z in -r..=r { if (x, y, z) != (0, 0, 0) { v.push([x, y, z]); } } } } v }
#[derive(Clone, Copy, PartialEq, Debug)]
enum Kind { Parallel, AntiXY, AntiZY, Acute, Obtuse, NearAnti, Irrational }
impl Kind {
    fn class(self) -> &'static str { match self {
        Kind::Parallel => "parallel (identity expected)", Kind::AntiXY => "antiparallel, |from.x| > |from.z| (axis (-y,x,0))", Kind::AntiZY => "antiparallel, |from.x| <= |from.z| (axis (0,-z,y))",
        Kind::Acute => "general, angle < 90deg", Kind::Obtuse => "general, angle > 90deg", Kind::NearAnti => "skipped: 1+cos below the code's epsilon threshold (not generated)", Kind::Irrational => "skipped: irrational normalisation (float tier only)" } }
    fn anti(self) -> bool { matches!(self, Kind::AntiXY | Kind::AntiZY) }
    fn exact(self) -> bool { !matches!(self, Kind::NearAnti | Kind::Irrational) }
}
/// which pairs have an all-rational run of the algorithm (classification only, never a verdict)
fn classify(f: &[X; 3], t: &[X; 3]) -> Kind {
    let (ff, tt, d) = (dotn(f, f).rat(), dotn(t, t).rat(), dotn(f, t).rat());
    let Some(nuv) = ff.mul(tt).sqrt_exact() else { return Kind::Irrational };
    let w = nuv.add(d);
    let sq = |a: Q, b: Q| a.mul(a).add(b.mul(b)).sqrt_exact().is_some();
    if w.n == 0 {
        let (x, y, z) = (f[0].rat(), f[1].rat(), f[2].rat());
        if x.abs() > z.abs() { if sq(x, y) { Kind::AntiXY } else { Kind::Irrational } } else if sq(z, y) { Kind::AntiZY } else { Kind::Irrational }
    } else {
        if w < nuv.mul(Q::new(1, 1i128 << 52)) { return Kind::NearAnti; }
        if nuv.mul(w).mul(Q::int(2)).sqrt_exact().is_none() { return Kind::Irrational; }
        if cross3(f, t) == [Z; 3] { Kind::Parallel } else if d.n > 0 { Kind::Acute } else { Kind::Obtuse }
    }
}
fn from_to_case(s: &Section, f: &[X; 3], t: &[X; 3], kind: Kind, weight: u64) { guarded(s, || from_to_case_inner(s, f, t, kind, weight)); }
fn from_to_case_inner(s: &Section, f: &[X; 3], t: &[X; 3], kind: Kind, weight: u64) {
    let ff = dotn(f, f);
    let onto = |r: &[X]| { let r3 = [r[0], r[1], r[2]]; cross3(&r3, t) == [Z; 3] && dotn(&r3, t) > Z && dotn(&r3, &r3) == ff };
    let cls = if kind.anti() { "antiparallel-pair-not-mapped-onto-to" } else { "does-not-map-from-onto-to" };
    let inp = || json!({"from": jxs(f), "to": jxs(t), "pair": kind.class()});
    let nt = kind != Kind::Parallel;
    s.eval(nt);
    let site = "Quaternion::rotation_from_to_3d";
    let (qd, qd4, app) = match catch(|| {
        let q = Quaternion::rotation_from_to_3d(v3(f), v3(t));
        let q4 = Quaternion::rotation_from_to_3d(v4(&[f[0], f[1], f[2], Z]), v4(&[t[0], t[1], t[2], Z]));
        (dq(q), dq(q4), dv3(&(q * v3(f))))
    }) {
        Ok(r) => r,
        // every square root of the intended run is rational for this pair, so a 0/0 means the code normalised a zero quaternion (NaN in floats)
        Err(Caught::Unmodelled("division by zero")) => { viol(s, site, "normalises-a-zero-quaternion (division by zero)", || json!({"input": inp()}), weight); return }
        Err(Caught::Unmodelled(w)) => { s.unmodelled(w); return }
        Err(Caught::Panic(m)) => { viol(s, site, "panic", || json!({"input": inp(), "panic": m}), weight); return }
    };
    if norm2(&qd) != ONE { viol(s, site, "not-a-unit-quaternion", || json!({"input": inp(), "got_xyzw": jxs(&qd), "norm_squared": jx(norm2(&qd))}), weight); }
    let img = rot(&qd, f);
    if !onto(&img) || !onto(&app) { viol(s, site, cls, || json!({"input": inp(), "got_xyzw": jxs(&qd), "q from q* (reference sandwich on the fields)": jxs(&img), "real q*from": jxs(&app), "want": "the positive multiple of `to` of length |from|"}), weight); }
    if qd4 != qd { viol(s, site, "vec4-arguments-differ-from-vec3-arguments", || json!({"input": inp(), "vec3": jxs(&qd), "vec4": jxs(&qd4)}), weight); }
    if kind == Kind::Parallel && qd != [Z, Z, Z, ONE] { viol(s, site, "parallel-pair-not-the-identity", || json!({"input": inp(), "got_xyzw": jxs(&qd)}), weight); }
    fn one<const N: usize, M: QR<X, N>>(s: &Section, f: &[X; 3], t: &[X; 3], qd: &Q4<X>, onto: &dyn Fn(&[X]) -> bool, cls: &str, inp: &dyn Fn() -> Value, nt: bool, weight: u64) {
        let site = format!("{}::rotation_from_to_3d", M::NAME);
        s.eval(nt);
        let Some((m, mv)) = s.call(&site, || inp(), || { let m = M::t_from_to(*f, *t); (m.decode(), m.t_mulv(pad::<X, N>(f, Z))) }) else { return };
        let want: A<X, N> = embed::<X, 3, N>(&ref_q2m(qd));
        let by_fields = mvec(&m, &pad::<X, N>(f, Z));
        if !onto(&by_fields) || !onto(&mv) || (N == 4 && (mv[N - 1] != Z || by_fields[N - 1] != Z)) { viol(s, &site, cls, || json!({"input": inp(), "matrix": jmat(&m), "fields * from": jxs(&by_fields), "real M*from": jxs(&mv)}), weight); }
        if m != want { viol(s, &site, "differs-from-the-matrix-of-Quaternion::rotation_from_to_3d", || json!({"input": inp(), "matrix": jmat(&m), "want": jmat(&want)}), weight); }
    }
    one::<3, rm::Mat3<X>>(s, f, t, &qd, &onto, cls, &inp, nt, weight); one::<3, cm::Mat3<X>>(s, f, t, &qd, &onto, cls, &inp, nt, weight);
    one::<4, rm::Mat4<X>>(s, f, t, &qd, &onto, cls, &inp, nt, weight); one::<4, cm::Mat4<X>>(s, f, t, &qd, &onto, cls, &inp, nt, weight);
    if nt && s.wants_sample() && (kind.anti() && f[0] != Z && f[1] != Z || weight % 7 == 3) { s.sample(json!({"input": inp(), "real_quaternion_xyzw": jxs(&qd), "real q*from": jxs(&app)})); }
}
const FT_CLASSES: [&str; 5] = ["parallel (identity expected)", "antiparallel, |from.x| > |from.z| (axis (-y,x,0))", "antiparallel, |from.x| <= |from.z| (axis (0,-z,y))", "general, angle < 90deg", "general, angle > 90deg"];
fn run_pairs(s: &Section, pairs: &[([X; 3], [X; 3])]) {
    let counts: Vec<(Kind, u64)> = pairs.par_iter().map(|(f, t)| {
        let kind = classify(f, t);
        if kind.exact() { from_to_case(s, f, t, kind, wx(f) + wx(t)); }
        (kind, 1u64)
    }).collect();
    let mut m: BTreeMap<&'static str, u64> = BTreeMap::new();
    for (k, n) in counts { *m.entry(k.class()).or_insert(0) += n; }
    for (k, n) in m { s.class_n(k, n); }
}

/// exact test on float vectors taken as real vectors: (f x t == 0, and then: same sense?)
/// a finite float is m*2^e with m odd (or 0); the product of two such is again in that form, so products compare exactly
fn exact_collinear(f: &[f64; 3], t: &[f64; 3]) -> (bool, bool) {
    fn dec(v: f64) -> (i128, i32) {
        if v == 0.0 { return (0, 0); }
        let bits = v.to_bits(); let sign: i128 = if bits >> 63 == 1 { -1 } else { 1 };
        let exp = ((bits >> 52) & 0x7ff) as i32; let frac = (bits & ((1u64 << 52) - 1)) as i128;
        let (m, e) = if exp == 0 { (frac, -1074) } else { (frac | (1i128 << 52), exp - 1075) };
        let tz = m.trailing_zeros() as i32; (sign * (m >> tz), e + tz)
    }
    let prod = |a: f64, b: f64| { let ((m1, e1), (m2, e2)) = (dec(a), dec(b)); if m1 == 0 || m2 == 0 { (0i128, 0i32) } else { (m1 * m2, e1 + e2) } };
    let col = prod(f[1], t[2]) == prod(f[2], t[1]) && prod(f[2], t[0]) == prod(f[0], t[2]) && prod(f[0], t[1]) == prod(f[1], t[0]);
    let pos = (0..3).find(|&i| f[i] != 0.0 && t[i] != 0.0).map_or(false, |i| (f[i] > 0.0) == (t[i] > 0.0));
    (col, pos)
}

macro_rules! float_from_to { ($s:expr, $T:ty, $big:expr) => {{
    let s: &Section = $s;
    s.require_classes(&["parallel", "opposite (exactly), squares exact", "opposite (exactly), squares inexact", "nearly opposite (not exactly)", "general"]);
    let dirs = int_dirs(2);
    let big: f64 = $big;
    let tf = |v: f64| <$T as Fl>::f(v);
    let mut cases: Vec<([$T; 3], [$T; 3], Value, u64)> = Vec::new();
    // (A) the integer grid with scaled copies
    let scales: Vec<(f64, f64)> = if s.thorough() { vec![(1.0, 1.0), (3.0, 0.5), (0.1, 7.0), (big, 3.0 * big), (big, 1.0), (5.0, big), (0.3, 0.7), (1e-3, 1e3)] } else { vec![(1.0, 1.0), (3.0, 0.5), (0.1, 7.0), (big, 3.0 * big)] };
    for (si, &(la, mu)) in scales.iter().enumerate() { for d1 in &dirs { for d2 in &dirs {
        let (lt, mt) = (tf(la), tf(mu));
        cases.push(([lt * (d1[0] as $T), lt * (d1[1] as $T), lt * (d1[2] as $T)], [mt * (d2[0] as $T), mt * (d2[1] as $T), mt * (d2[2] as $T)], json!({"family": "A", "integer_directions": [d1, d2], "scales": [la, mu]}), wsum(d1) + wsum(d2) + 10 * si as u64));
    } } }
    // (B) exactly opposite integer vectors whose squares are not exactly representable
    let nb: i64 = if s.thorough() { 256 } else { 64 };
    for b in 0..nb { for d in int_dirs(3) { for k in [2.0, 3.0, 5.0, 7.0] {
        let bb = big + b as f64;
        let from = [tf(bb * d[0] as f64), tf(bb * d[1] as f64), tf(bb * d[2] as f64)];
        let kt = tf(k);
        cases.push((from, [-kt * from[0], -kt * from[1], -kt * from[2]], json!({"family": "B", "from = B*d": {"B": bb, "d": d}, "to = -k*from": k}), b as u64 + wsum(&d) + k as u64));
    } } }
    // (C) to = fl(k*from), k < 0, from with full mantissas: opposite up to the rounding of the products
    for b in 1..=(if s.thorough() { 256 } else { 64 }) { for d in int_dirs(3) { for k in [-1.7, -3.0, -0.3] {
        let sc = tf(0.1) * tf(b as f64);
        let from = [sc * tf(d[0] as f64) + tf(0.013), sc * tf(d[1] as f64) - tf(0.007), sc * tf(d[2] as f64) + tf(0.003)];
        let kt = tf(k);
        cases.push((from, [kt * from[0], kt * from[1], kt * from[2]], json!({"family": "C", "from = fl(0.1)*b*d + (0.013,-0.007,0.003)": {"b": b, "d": d}, "to = fl(k*from)": k}), b as u64 + wsum(&d)));
    } } }
    // (D) two literal exactly-opposite integer pairs (smallest hits of a one-off scan of integer vectors in f32; exact and harmless in f64)
    for (v, k) in [([1833.0, 3.0, 3.0], 5.0), ([7920.0, 1771718.0, 1516008.0], 3.0)] {
        let from = [tf(v[0]), tf(v[1]), tf(v[2])]; let kt = tf(k);
        cases.push((from, [-kt * from[0], -kt * from[1], -kt * from[2]], json!({"family": "D", "from": v, "to = -k*from": k}), if v[0] < 2000.0 { 0 } else { 1 }));
    }
    s.meta("cases", json!(cases.len())); s.meta("scale_pairs_family_A", json!(scales));
    let mut cl: BTreeMap<&'static str, u64> = BTreeMap::new();
    for (from, to, tag, weight) in &cases {
        let (from, to, weight) = (*from, *to, *weight);
        let (f, t) = ([from[0].d(), from[1].d(), from[2].d()], [to[0].d(), to[1].d(), to[2].d()]);
        // exact relation of the two float vectors as real vectors
        let (collinear, positive) = exact_collinear(&f, &t);
        let (ff, tt, dt) = (dotn(&f, &f), dotn(&t, &t), dotn(&f, &t));
        let (nf, ntt) = (ff.sqrt(), tt.sqrt());
        let want = [t[0] * nf / ntt, t[1] * nf / ntt, t[2] * nf / ntt];
        let anti = collinear && !positive;
        let one_plus_cos = 1.0 + dt / (nf * ntt);
        let near = !anti && one_plus_cos < 1.0 / 64.0;
        let eps = <$T as Fl>::EPS;
        // absolute tolerance
        let tol = if anti { vx::fl::K * eps * nf } else if near { 8.0 * eps.sqrt() * nf } else { vx::fl::K * eps * nf / (one_plus_cos / 2.0).sqrt() };
        let inexact = { let m = ff.max(tt); m > 1.0 / eps };
        *cl.entry(if anti && inexact { "opposite (exactly), squares inexact" } else if anti { "opposite (exactly), squares exact" } else if near { "nearly opposite (not exactly)" } else if collinear { "parallel" } else { "general" }).or_insert(0) += 1;
        let cls = if anti { "opposite-pair-not-mapped-onto-to-within-error-bound" } else if near { "nearly-opposite-pair-not-mapped-onto-to-within-sqrt-eps" } else { "does-not-map-from-onto-to-within-error-bound" };
        let inp = || json!({"from": f, "to": t, "construction": tag, "exactly_opposite": anti});
        s.eval(!(collinear && positive));
        let site = format!("Quaternion::rotation_from_to_3d<{}>", <$T as Fl>::NAME);
        if let Some((qd, r)) = s.call(&site, inp, || { let q = Quaternion::<$T>::rotation_from_to_3d(v3(&from), v3(&to)); (dq(q), dv3(&(q * v3(&from)))) }) {
            let qf: Q4<f64> = [qd[0].d(), qd[1].d(), qd[2].d(), qd[3].d()];
            if !((norm2(&qf) - 1.0).abs() <= vx::fl::K * eps) { viol(s, &site, "not-a-unit-quaternion-within-error-bound", || json!({"input": inp(), "got_xyzw": qf, "norm_squared": norm2(&qf)}), weight); }
            if !(0..3).all(|i| (r[i].d() - want[i]).abs() <= tol) { viol(s, &site, cls, || json!({"input": inp(), "got_xyzw": qf, "real q*from": [r[0].d(), r[1].d(), r[2].d()], "want": want, "tolerance": tol}), weight); }
            if anti && from[0] != 0.0 && from[1] != 0.0 && s.wants_sample() { s.sample(json!({"input": inp(), "real_quaternion_xyzw": qf, "real q*from": [r[0].d(), r[1].d(), r[2].d()], "oracle": want})); }
        }
        macro_rules! mat { ($M:ty, $N:expr) => {{
            let site = format!("{}::rotation_from_to_3d<{}>", <$M as QM<$T, $N>>::NAME, <$T as Fl>::NAME);
            s.eval(!(collinear && positive));
            if let Some((m, mv)) = s.call(&site, inp, || { let m = <$M as QR<$T, $N>>::t_from_to(from, to); (m.decode(), m.t_mulv(pad::<$T, $N>(&from, 0.0))) }) {
                let mut by_fields = [0.0f64; 3]; for i in 0..3 { for j in 0..3 { by_fields[i] += m[i][j].d() * f[j]; } }
                let ok = (0..3).all(|i| (mv[i].d() - want[i]).abs() <= tol && (by_fields[i] - want[i]).abs() <= tol) && ($N == 3 || mv[$N - 1].d() == 0.0);
                if !ok { viol(s, &site, cls, || json!({"input": inp(), "real M*from": mv.iter().map(|v| v.d()).collect::<Vec<_>>(), "fields*from": by_fields, "want": want, "tolerance": tol}), weight); }
            }
        }} }
        mat!(rm::Mat3<$T>, 3); mat!(cm::Mat3<$T>, 3); mat!(rm::Mat4<$T>, 4); mat!(cm::Mat4<$T>, 4);
    }
    for (k, n) in cl { s.class_n(k, n); }
}} }

fn sections_from_to(rep: &Report, th: bool) {
    rep.section("rotation_from_to_3d maps from onto to: exact rational pairs (all-rational runs), quaternion and Mat3/Mat4 wrappers in both layouts",
        "three families, every pair classified by a reference replay of the radicands and evaluated iff every square root of the run is rational: (F1) all ordered pairs of integer directions in {-2..2}^3 minus 0 (124^2) with scaled copies (from, to) x {(1,1), (2,3), (1/2,5)} (thorough also (7,1/3)); (F2) planar construction from = l*e1, to = m*(cos(theta) e1 + sin(theta) e2), (e1,e2) two columns of a rational rotation matrix Rodrigues(axis, c, s) (axes: every 8th (thorough 2nd) rational unit vector of vx::matx::unit_axes, (c,s) in circle_points), theta the double of a rational half-angle point (so all radicands are squares; includes theta = 0 and pi), (l,m) in {(1,1), (2,1/3), (7/2,5)}, plus half-angle parameters t in {9/10, 99/100, 999/1000, -999/1000, 1001/1000} (theta within 0.2 .. 0.002 rad of pi) in three frames; (F3) exactly opposite pairs from in {-5..5}^3 minus 0, to = -k*from, k in {1, 2, 1/3}, kept when the branch radicand (x^2+y^2 if |x|>|z|, else y^2+z^2) is a square: e.g. (3,4,0)->(-6,-8,0), (0,3,4)->(0,-3,-4), (4,3,-4), (3,-4,2).  Verdict on public fields: |q|^2 = 1; r = q (from,0) q* (reference sandwich) and the real q*from satisfy r x to = 0, r.to > 0, |r|^2 = |from|^2; Vec4 arguments (w = 0) give the same quaternion; each matrix wrapper decoded == reference matrix of that quaternion (identity border for Mat4), fields*from and the real M*from are onto `to`; parallel pairs give the identity.  One evaluation per real builder call; non-trivial: pair not parallel", true, false, |s| {
        s.require_classes(&FT_CLASSES);
        let sc = |v: &[i64; 3], l: X| -> [X; 3] { [qi(v[0] as i128) * l, qi(v[1] as i128) * l, qi(v[2] as i128) * l] };
        // F1
        let dirs = int_dirs(2);
        let mut scales = vec![(qi(1), qi(1)), (qi(2), qi(3)), (q(1, 2), qi(5))]; if th { scales.push((qi(7), q(1, 3))); }
        let mut pairs: Vec<([X; 3], [X; 3])> = Vec::new();
        for &(l, m) in &scales { for d1 in &dirs { for d2 in &dirs { pairs.push((sc(d1, l), sc(d2, m))); } } }
        let n1 = pairs.len();
        // F2
        let axes: Vec<[X; 3]> = unit_axes().into_iter().enumerate().filter(|(i, _)| i % (if th { 2 } else { 8 }) == 0).map(|(_, a)| a).collect();
        let cps = circle_points();
        for ax in &axes { for &(c, sn) in &cps { let m = rodrigues(ax, c, sn);
            let (e1, e2) = ([m[0][0], m[1][0], m[2][0]], [m[0][1], m[1][1], m[2][1]]);
            for &(ch, sh) in &cps { let (ct, st) = (ch * ch - sh * sh, (sh + sh) * ch);
                for (l, mm) in [(qi(1), qi(1)), (qi(2), q(1, 3)), (q(7, 2), qi(5))] {
                    let f = [e1[0] * l, e1[1] * l, e1[2] * l];
                    let t = [(e1[0] * ct + e2[0] * st) * mm, (e1[1] * ct + e2[1] * st) * mm, (e1[2] * ct + e2[2] * st) * mm];
                    pairs.push((f, t));
                } } } }
        // near-180-degree half-angle points (1+cos = 2ch^2 down to 2e-6, far above the code's epsilon), coordinate frame and two tilted frames
        for (ax, c, sn) in [([Z, Z, ONE], ONE, Z), ([q(1, 3), q(2, 3), q(2, 3)], q(3, 5), q(4, 5)), ([q(2, 7), q(-3, 7), q(6, 7)], q(-4, 5), q(3, 5))] {
            let m = rodrigues(&ax, c, sn);
            let (e1, e2) = ([m[0][0], m[1][0], m[2][0]], [m[0][1], m[1][1], m[2][1]]);
            for (tn, td) in [(9, 10), (99, 100), (999, 1000), (-999, 1000), (1001, 1000)] {
                let t = q(tn, td); let den = ONE + t * t; let (ch, sh) = ((ONE - t * t) / den, (t + t) / den);
                let (ct, st) = (ch * ch - sh * sh, (sh + sh) * ch);
                for (l, mm) in [(qi(1), qi(1)), (qi(3), q(1, 2))] {
                    pairs.push(([e1[0] * l, e1[1] * l, e1[2] * l], [(e1[0] * ct + e2[0] * st) * mm, (e1[1] * ct + e2[1] * st) * mm, (e1[2] * ct + e2[2] * st) * mm]));
                } } }
        let n2 = pairs.len() - n1;
        // F3
        for d in int_dirs(5) { for k in [qi(1), qi(2), q(1, 3)] { pairs.push((sc(&d, qi(1)), sc(&d, -k))); } }
        let n3 = pairs.len() - n1 - n2;
        run_pairs(s, &pairs);
        s.meta("pairs_generated", json!({"F1 integer grid": n1, "F2 planar rational": n2, "F3 opposite": n3}));
        s.meta("note", json!("pairs whose run needs an irrational square root are counted in the 'skipped: irrational' class and are covered by the float tier; pairs with 0 < 1+cos < 2^-52 (treated as opposite by the code's epsilon test) are not generated"));
    });
    let rule_f = "three families formed in the float type and enumerated completely: (A) all 124^2 ordered pairs of integer directions in {-2..2}^3 minus 0, from = l*d1, to = m*d2, (l,m) in {(1,1), (3,1/2), (0.1,7), (B,3B)} with B = 4097 (f32) / 94906267 (f64) (thorough also (B,1), (5,B), (0.3,0.7), (1e-3,1e3)); (B) exactly opposite integer vectors whose squared lengths are not exactly representable: from = (B+b)*d, b in 0..64 (thorough 0..256), d in {-3..3}^3 minus 0, to = -k*from, k in {2,3,5,7} (all products exact, so the pair is exactly opposite as real vectors); (C) from = fl(0.1)*b*d + (0.013,-0.007,0.003) (full mantissas), b in 1..=64 (thorough 256), d in {-3..3}^3 minus 0, to = fl(k*from), k in {-1.7,-3,-0.3}: opposite up to one rounding per component; (D) the literal pairs from = (1833,3,3), to = -5*from and from = (7920,1771718,1516008), to = -3*from.  Each pair is classified exactly (rational arithmetic on the float values: collinear? same or opposite sense?); oracle in f64 from the very floats the code received: want = to*|from|/|to|; absolute tolerance: exactly opposite: 256*eps*|from|; general (1+cos >= 1/64): 256*eps*|from|/cos(theta/2) (a relative perturbation of a few eps of (cross, w) is amplified by 1/cos(theta/2) in the half-angle construction and doubled by the sandwich); nearly but not exactly opposite (1+cos < 1/64): 8*sqrt(eps)*|from| (any half-angle construction with an 'opposite' threshold tau <= 16 eps is within sqrt(2 tau) <= 5.7 sqrt(eps) when it takes the 180-degree branch and within 8 eps/cos(theta/2) <= 8 sqrt(eps) otherwise; a derived cap, not a tuned one); checked: |q|^2 = 1 within 256 eps, real q*from, and real M*from and decoded-fields*from for the Mat3/Mat4 wrappers in both layouts; non-trivial: pair not parallel";
    rep.section("rotation_from_to_3d float tier f64", rule_f, true, false, |s| float_from_to!(s, f64, 94906267.0));
    rep.section("rotation_from_to_3d float tier f32", rule_f, true, false, |s| float_from_to!(s, f32, 4097.0));
}
// ---- into_angle_axis -------------------------------------------------------------------------------
macro_rules! float_angle_axis { ($s:expr, $T:ty) => {{
    let s: &Section = $s;
    s.require_classes(&["theta<0", "theta in (0,pi)", "theta in (pi,2pi)", "skipped: |sin(theta/2)| < 1/8 (axis ill-conditioned)"]);
    let n_ang: usize = if s.thorough() { 1024 } else { 96 };
    let eps = <$T as Fl>::EPS;
    let mut cl: BTreeMap<&'static str, u64> = BTreeMap::new();
    for ai in 0..n_ang {
        let theta = -6.28 + (ai as f64 + 0.5) * (12.56 / n_ang as f64);
        for d in int_dirs(2) {
            let n = ((d[0] * d[0] + d[1] * d[1] + d[2] * d[2]) as f64).sqrt();
            let (sh, ch) = ((theta / 2.0).sin(), (theta / 2.0).cos());
            let qt: Q4<$T> = [<$T as Fl>::f(d[0] as f64 / n * sh), <$T as Fl>::f(d[1] as f64 / n * sh), <$T as Fl>::f(d[2] as f64 / n * sh), <$T as Fl>::f(ch)];
            let qf: Q4<f64> = [qt[0].d(), qt[1].d(), qt[2].d(), qt[3].d()];
            let s2 = 1.0 - qf[3] * qf[3];
            if s2 < 1.0 / 64.0 { *cl.entry("skipped: |sin(theta/2)| < 1/8 (axis ill-conditioned)").or_insert(0) += 1; continue; }
            *cl.entry(if theta < 0.0 { "theta<0" } else if theta < std::f64::consts::PI { "theta in (0,pi)" } else { "theta in (pi,2pi)" }).or_insert(0) += 1;
            s.eval(true);
            let site = format!("Quaternion::into_angle_axis<{}>", <$T as Fl>::NAME);
            let inp = || json!({"q_xyzw": qf, "built_from": {"theta": theta, "axis_direction": d}});
            if let Some((ang, ax)) = s.call(&site, inp, || { let (a, v) = mkq(&qt).into_angle_axis(); (a.d(), [v.x.d(), v.y.d(), v.z.d()]) }) {
                let want = ref_q2m(&qf);
                let got = rodrigues_f(&ax, ang.cos(), ang.sin());
                // scale 2/s^2: s = sqrt(1 - w^2) carries a relative error eps/s^2 (cancellation), and so do the axis and, through it, the matrix; the angle 2 acos(w) carries 2 eps/s
                let tol = vx::fl::K * eps * 2.0 / s2;
                let worst = (0..3).flat_map(|i| (0..3).map(move |j| (i, j))).map(|(i, j)| (got[i][j] - want[i][j]).abs()).fold(0.0, f64::max);
                let alen = dotn(&ax, &ax).sqrt();
                if !(worst <= tol) { viol(s, &site, "angle-axis-describe-a-different-rotation-within-error-bound", || json!({"input": inp(), "angle": ang, "axis": ax, "worst_matrix_entry_error": worst, "tolerance": tol}), (ai as u64) + wsum(&d)); }
                if !((alen - 1.0).abs() <= tol) { viol(s, &site, "axis-not-unit-within-error-bound", || json!({"input": inp(), "angle": ang, "axis": ax, "axis_length": alen, "tolerance": tol}), (ai as u64) + wsum(&d)); }
                if s.wants_sample() && d[0] != 0 && d[1] != 0 { s.sample(json!({"input": inp(), "real_angle": ang, "real_axis": ax})); }
            }
        }
    }
    for (k, n) in cl { s.class_n(k, n); }
    s.meta("angles", json!(n_ang)); s.meta("axes", json!(124));
}} }

fn sections_angle_axis(rep: &Report, th: bool) {
    rep.section("into_angle_axis returns an angle and a unit axis describing the same rotation (exact tier)",
        "angles theta = k*arg(z), z a rational point of the unit circle (12 parameters t, even k in {0, +-2, +-4, +-6}; thorough k up to +-12), kept when |theta| < 2 pi, so that cos and sin of theta/2 are exact rationals and acos is resolved exactly in this alphabet (principal value in [0, pi]); axes: rational unit vectors (every 4th of vx::matx::unit_axes, thorough all), handed to rotation_3d also as 3x and 1/2x multiples.  Inputs: (a) the reference unit quaternion (axis sin(theta/2), cos(theta/2)) built by struct literal, (b) the real Quaternion::rotation_3d(theta, l*axis).  Verdict on the returned (angle, axis): |axis|^2 = 1, and Rodrigues(axis, cos angle, sin angle) (vx::matx::rodrigues, exact cos/sin of the returned token) == the reference matrix of the quaternion; additionally the real Mat3/Mat4::rotation_3d(angle, axis) (both layouts) == the real Mat::from(q).  theta = 0 is included (axis arbitrary but must be unit); non-trivial: theta != 0", true, false, |s| {
        s.require_classes(&["theta=0 (axis arbitrary)", "theta in (0,pi)", "theta=pi (w=0)", "theta in (pi,2pi) (w<0)", "theta in (-pi,0)", "theta in (-2pi,-pi) (w<0)"]);
        let bases: [(i128, i128); 12] = [(1, 7), (1, 5), (1, 3), (1, 2), (2, 3), (1, 1), (3, 2), (2, 1), (3, 1), (5, 1), (-1, 3), (-2, 1)];
        let kmax: i128 = if th { 12 } else { 6 };
        let axes: Vec<[X; 3]> = unit_axes().into_iter().enumerate().filter(|(i, _)| th || i % 4 == 0).map(|(_, a)| a).collect();
        let two_pi = 2.0 * std::f64::consts::PI;
        let mut nang = 0usize; let mut halfpts: Vec<(Q, Q)> = Vec::new();
        for (tn, td) in bases { let b = angle_base_t(tn, td); for k2 in -(kmax / 2)..=(kmax / 2) {
            if k2 == 0 && (tn, td) != (1, 7) { continue; } // theta = 0 once
            let theta = X::tok(b, 2 * k2); let half = X::tok(b, k2);
            if theta.shadow().abs() >= two_pi - 1e-9 { continue; }
            nang += 1;
            let (sh, ch) = half.sin_cos_q(); if !halfpts.contains(&(ch, sh)) { halfpts.push((ch, sh)); }
            let (st, ct) = theta.sin_cos_q();
            // the principal-value answer of acos(cos(theta/2)): the token among +-theta/2 with sin >= 0
            clear_inverse(); if k2 != 0 { register_inverse(if sh.n >= 0 { half } else { X::tok(b, -k2) }); }
            let th_f = theta.shadow(); let pi = std::f64::consts::PI;
            let cls = if k2 == 0 { "theta=0 (axis arbitrary)" } else if ch.n == 0 { "theta=pi (w=0)" } else if th_f > pi { "theta in (pi,2pi) (w<0)" } else if th_f > 0.0 { "theta in (0,pi)" } else if th_f > -pi { "theta in (-pi,0)" } else { "theta in (-2pi,-pi) (w<0)" };
            for ax in &axes {
                let qref: Q4<X> = [ax[0] * X::R(sh), ax[1] * X::R(sh), ax[2] * X::R(sh), X::R(ch)];
                let want = rodrigues(ax, X::R(ct), X::R(st));
                if ref_q2m(&qref) != want { s.rep.machinery_error(format!("reference quaternion matrix != Rodrigues for {:?} {:?}", ax, theta)); }
                let mut inputs: Vec<(String, Option<Q4<X>>)> = vec![("struct literal (axis sin(theta/2), cos(theta/2))".to_string(), Some(qref))];
                for l in [qi(1), qi(3), q(1, 2)] {
                    let given = [ax[0] * l, ax[1] * l, ax[2] * l];
                    inputs.push((format!("Quaternion::rotation_3d(theta, {}*axis)", l), s.call("Quaternion::rotation_3d", || json!({"theta": jx(theta), "axis": jxs(&given)}), || dq(Quaternion::rotation_3d(theta, v3(&given))))));
                }
                for (how, qo) in inputs {
                    let Some(qd) = qo else { continue };
                    s.eval(k2 != 0); s.class(cls);
                    let site = "Quaternion::into_angle_axis";
                    let inp = || json!({"q_xyzw": jxs(&qd), "built_by": how, "theta": {"token": jx(theta), "radians~": th_f, "cos": jd(&ct), "sin": jd(&st)}, "unit_axis": jxs(ax)});
                    let w = (k2.unsigned_abs() as u64) + wx(ax);
                    let Some((ang, axis)) = s.call(site, inp, || { let (a, v) = mkq(&qd).into_angle_axis(); (a, dv3(&v)) }) else { continue };
                    let Some((sa, ca)) = s.call(site, inp, || ang.sin_cos_q()) else { continue };
                    guarded(s, || {
                    if dotn(&axis, &axis) != ONE { viol(s, site, "axis-not-unit", || json!({"input": inp(), "angle": jx(ang), "axis": jxs(&axis)}), w); }
                    let got = rodrigues(&axis, X::R(ca), X::R(sa));
                    if got != ref_q2m(&qd) { viol(s, site, "angle-axis-describe-a-different-rotation", || json!({"input": inp(), "angle": jx(ang), "angle_radians~": ang.shadow(), "axis": jxs(&axis), "rotation(angle, axis)": jmat(&got), "rotation of q": jmat(&ref_q2m(&qd))}), w); }
                    // the real round trip named in the design
                    fn rt<const N: usize, M: QR<X, N>>(s: &Section, qd: &Q4<X>, ang: X, axis: [X; 3], inp: &dyn Fn() -> Value, w: u64) {
                        let site = format!("{}::rotation_3d(Quaternion::into_angle_axis)", M::NAME);
                        if let Some((a, b)) = s.call(&site, || inp(), || (M::t_rot3d(ang, axis).decode(), M::t_from_q(mkq(qd)).decode())) {
                            if a != b { viol(s, &site, "differs-from-Mat::from(q)", || json!({"input": inp(), "rotation_3d(angle, axis)": jmat(&a), "from(q)": jmat(&b)}), w); }
                        }
                    }
                    rt::<3, rm::Mat3<X>>(s, &qd, ang, axis, &inp, w); rt::<3, cm::Mat3<X>>(s, &qd, ang, axis, &inp, w);
                    rt::<4, rm::Mat4<X>>(s, &qd, ang, axis, &inp, w); rt::<4, cm::Mat4<X>>(s, &qd, ang, axis, &inp, w);
                    if k2 != 0 && ch.n < 0 && s.wants_sample() { s.sample(json!({"input": inp(), "real_angle": jx(ang), "real_angle_radians~": ang.shadow(), "real_axis": jxs(&axis)})); }
                    });
                }
            }
        } }
        clear_inverse();
        s.meta("angles", json!(nang)); s.meta("distinct_half_angle_points", json!(halfpts.len())); s.meta("axes", json!(axes.len()));
    });
    let rule_f = "96 angles theta = -6.28 + (i+1/2)*12.56/96 (thorough 1024), all in (-2pi, 2pi), x the 124 integer axis directions of {-2..2}^3 minus 0: q = (axis/|axis| sin(theta/2), cos(theta/2)) computed in f64 and rounded to the type; (angle, axis) = q.into_angle_axis(); Rodrigues(axis, cos angle, sin angle) in f64 vs the reference matrix of the very q handed in; |axis| vs 1; tolerance 256*eps(type)*2/(1-w^2) (s = sqrt(1-w^2) suffers cancellation: relative error eps/s^2, inherited by axis = xyz/s; the rounded q is unit only up to 2 eps, same amplification; the angle 2acos(w) has error 2 eps/s); quaternions with 1-w^2 < 1/64 are skipped as ill-conditioned for the axis (covered exactly, incl. theta = 0, by the exact tier); non-trivial: all evaluated";
    rep.section("into_angle_axis float tier f64", rule_f, true, false, |s| float_angle_axis!(s, f64));
    rep.section("into_angle_axis float tier f32", rule_f, true, false, |s| float_angle_axis!(s, f32));
}

// ---- magnitude / normalized (square roots) ---------------------------------------------------------
fn sections_norm(rep: &Report, th: bool) {
    rep.section("magnitude, normalized and the multiplicative norm with square roots (bounded)",
        "every p in {-4..4}^4 (thorough {-6..6}^4) and p/3 whose squared norm is a non-zero perfect square: magnitude() == the root, magnitude_squared() == its square, normalized() == p/|p| with squared norm 1; for every ordered pair of such p, q with |coordinates| <= 2 (thorough 3): (p*q).magnitude() == p.magnitude()*q.magnitude(); non-trivial: |p| != 1", true, false, |s| {
        s.require_classes(&["unit", "non-unit", "fractional"]);
        let r: i64 = if th { 6 } else { 4 };
        let alph: Vec<i64> = (-r..=r).collect();
        let (nu, nn, nf) = (Cnt::new(), Cnt::new(), Cnt::new());
        par_tuples(&alph, 4, |p| {
            let n2: i64 = p.iter().map(|v| v * v).sum();
            let Some(n) = Q::isqrt(n2 as i128) else { return }; if n == 0 { return; }
            for den in [1i128, 3] {
                let pq: Q4<X> = [q(p[0] as i128, den), q(p[1] as i128, den), q(p[2] as i128, den), q(p[3] as i128, den)];
                let norm = q(n, den);
                s.eval(norm != ONE);
                if den != 1 { nf.inc(); } else if n == 1 { nu.inc(); } else { nn.inc(); }
                let inp = || json!({"q_xyzw": jxs(&pq)});
                if let Some((m, m2, nz)) = s.call("Quaternion::magnitude", inp, || (mkq(&pq).magnitude(), mkq(&pq).magnitude_squared(), dq(mkq(&pq).normalized()))) {
                    if m != norm || m2 != norm * norm { viol(s, "Quaternion::magnitude", "not-the-euclidean-norm", || json!({"input": inp(), "magnitude": jx(m), "magnitude_squared": jx(m2), "want": jx(norm)}), wsum(p)); }
                    let want = [pq[0] / norm, pq[1] / norm, pq[2] / norm, pq[3] / norm];
                    if nz != want { viol(s, "Quaternion::normalized", "not-q-over-its-norm", || json!({"input": inp(), "got": jxs(&nz), "want": jxs(&want)}), wsum(p)); }
                    if n == 3 && den == 1 && s.wants_sample() { s.sample(json!({"input": inp(), "real_magnitude": jx(m), "real_normalized": jxs(&nz)})); }
                }
            }
        });
        s.class_n("unit", nu.get()); s.class_n("non-unit", nn.get()); s.class_n("fractional", nf.get());
        let rr: i64 = if th { 3 } else { 2 };
        let mut sq: Vec<[i64; 4]> = Vec::new();
        tuples(&(-rr..=rr).collect::<Vec<_>>(), 4, |p| { let n2: i64 = p.iter().map(|v| v * v).sum(); if n2 != 0 && Q::isqrt(n2 as i128).is_some() { sq.push([p[0], p[1], p[2], p[3]]); } });
        sq.par_iter().for_each(|a| { for b in &sq {
            let (p, qq): (Q4<X>, Q4<X>) = (xs(a), xs(b));
            s.eval(true);
            let inp = || json!({"p_xyzw": jxs(&p), "q_xyzw": jxs(&qq)});
            if let Some((mpq, mp, mq)) = s.call("Quaternion::magnitude", inp, || ((mkq(&p) * mkq(&qq)).magnitude(), mkq(&p).magnitude(), mkq(&qq).magnitude())) {
                if mpq != mp * mq { viol(s, "Quaternion * Quaternion", "magnitude-not-multiplicative", || json!({"input": inp(), "|p*q|": jx(mpq), "|p|": jx(mp), "|q|": jx(mq)}), wsum(a) + wsum(b)); }
            }
        } });
        s.meta("perfect_square_norm_points_for_pairs", json!(sq.len())); s.meta("box_range", json!(r));
    });
}

// ====================================================================================================
// Strengthening round (out/AUDIT.md): all sign patterns, extreme magnitudes, float tiers of the algebra and of
// the application, operand forms, small rotation angles.  Nothing above this line was changed.
// ====================================================================================================
fn cadd(c: &Cnt, n: u64) { c.0.fetch_add(n, Relaxed); }
fn p2x(k: i32) -> X { if k >= 0 { qi(1i128 << k) } else { q(1, 1i128 << (-k)) } }
/// 2^k as an f64 (exact for |k| <= 1022)
fn p2(k: i32) -> f64 { 2.0f64.powi(k) }
fn scl4(a: &Q4<X>, l: X) -> Q4<X> { [a[0] * l, a[1] * l, a[2] * l, a[3] * l] }
fn scl3(a: &[X; 3], l: X) -> [X; 3] { [a[0] * l, a[1] * l, a[2] * l] }
fn box4(r: i64) -> Vec<[i64; 4]> { let al: Vec<i64> = (-r..=r).collect(); let mut v = Vec::new(); tuples(&al, 4, |a| v.push([a[0], a[1], a[2], a[3]])); v }
fn box3(al: &[i64]) -> Vec<[i64; 3]> { let mut v = Vec::new(); tuples(al, 3, |a| v.push([a[0], a[1], a[2]])); v }
fn mixed(a: &[i64], b: &[i64]) -> bool { a.iter().chain(b.iter()).any(|v| *v < 0) && a.iter().chain(b.iter()).any(|v| *v > 0) }
trait FlX: Fl { const MINPOS: f64; }
impl FlX for f64 { const MINPOS: f64 = f64::MIN_POSITIVE; }
impl FlX for f32 { const MINPOS: f64 = f32::MIN_POSITIVE as f64; }
fn asum(a: &[f64]) -> f64 { a.iter().map(|v| v.abs()).sum() }
fn amax(a: &[f64]) -> f64 { a.iter().fold(0.0, |m, v| m.max(v.abs())) }
/// all |got_i - want_i| <= tol, NaN never passes
fn within(got: &[f64], want: &[f64], tol: f64) -> bool { got.iter().zip(want).all(|(g, w)| (g - w).abs() <= tol) }

// ---- exact: signed boxes ----------------------------------------------------------------------------
fn sections_signed(rep: &Report, th: bool) {
    rep.section("signed box: Hamilton product, conjugate reversal, multiplicative norm, dot, inverse of a product and cancellation sequences on all sign patterns",
        "every ordered pair p, q in {-2..2}^4 (thorough {-3..3}^4), zero included, exact rationals: real p*q == reference table product; (p*q).conjugate() == q.conjugate()*p.conjugate() == reference; |p*q|^2 == |p|^2 |q|^2 == reference; p.dot(q) == sum of products; for p, q both non-zero (quick: q restricted to {-1,0,1}^4 for this part) additionally the call sequences (p*q).inverse() == q.inverse()*p.inverse() == conj(pq)/(|p|^2 |q|^2), (p*q)*q.inverse() == p, p.inverse()*(p*q) == q, p.inverse().inverse() == p (consequences of the two-sided inverse and of associativity); the lattice sections above decide the polynomial laws through the degree argument on non-negative points only, this section runs the real code on every sign pattern so that the verdict does not rest on the branch-freedom premise alone; non-trivial: p*q != q*p", true, false, |s| {
        s.require_classes(&["mixed-signs", "order-matters", "p-or-q-zero", "both-non-zero"]);
        let pts = box4(if th { 3 } else { 2 });
        let (nmix, nord, nzero, nboth) = (Cnt::new(), Cnt::new(), Cnt::new(), Cnt::new());
        pts.par_iter().for_each(|a| {
            let (mut e, mut nt, mut mix, mut zero, mut both) = (0u64, 0u64, 0u64, 0u64, 0u64);
            for b in &pts {
                let (p, qq): (Q4<X>, Q4<X>) = (xs(a), xs(b));
                let (want, rev) = (ham(&p, &qq), ham(&qq, &p));
                let (np, nq) = (norm2(&p), norm2(&qq));
                let nz = np != Z && nq != Z;
                e += 1; if want != rev { nt += 1; }
                if nz { both += 1; } else { zero += 1; }
                if mixed(a, b) { mix += 1; }
                let w = wsum(a) + wsum(b);
                let inp = || json!({"p_xyzw": jxs(&p), "q_xyzw": jxs(&qq)});
                if let Some((g, cl, cr, n_pq, n_p_n_q, dt)) = s.call("Quaternion * Quaternion", inp, || { let (pp, qv) = (mkq(&p), mkq(&qq)); (dq(pp * qv), dq((pp * qv).conjugate()), dq(qv.conjugate() * pp.conjugate()), (pp * qv).magnitude_squared(), pp.magnitude_squared() * qv.magnitude_squared(), pp.dot(qv)) }) {
                    if g != want { viol(s, "Quaternion * Quaternion", "not-the-hamilton-product", || json!({"input": inp(), "got_xyzw": jxs(&g), "want_xyzw": jxs(&want), "got_equals_q*p": g == rev}), w); }
                    if cl != cr || cl != conj(&want) { viol(s, "Quaternion::conjugate", "does-not-reverse-products", || json!({"input": inp(), "(p*q)*": jxs(&cl), "q* p*": jxs(&cr), "want": jxs(&conj(&want))}), w); }
                    if n_pq != n_p_n_q || n_pq != np * nq { viol(s, "Quaternion * Quaternion", "norm-not-multiplicative", || json!({"input": inp(), "|p*q|^2": jx(n_pq), "|p|^2|q|^2": jx(np * nq)}), w); }
                    if dt != dotn(&p, &qq) { viol(s, "Quaternion::dot", "not-the-sum-of-products", || json!({"input": inp(), "p.q": jx(dt), "want": jx(dotn(&p, &qq))}), w); }
                    if s.wants_sample() && want != rev && a.iter().all(|v| *v < 0) && b.iter().any(|v| *v > 0) { s.sample(json!({"input": inp(), "real p*q": jxs(&g)})); }
                }
                if nz && (th || b.iter().all(|v| v.abs() <= 1)) {
                    if let Some((ipq, iqip, c1, c2, ii)) = s.call("Quaternion::inverse", inp, || { let (pp, qv) = (mkq(&p), mkq(&qq)); (dq((pp * qv).inverse()), dq(qv.inverse() * pp.inverse()), dq((pp * qv) * qv.inverse()), dq(pp.inverse() * (pp * qv)), dq(pp.inverse().inverse())) }) {
                        let n = np * nq; let cw = conj(&want); let winv = [cw[0] / n, cw[1] / n, cw[2] / n, cw[3] / n];
                        if ipq != iqip || ipq != winv { viol(s, "Quaternion::inverse", "inverse-of-a-product-is-not-the-reversed-product-of-inverses", || json!({"input": inp(), "(p*q)^-1": jxs(&ipq), "q^-1 p^-1": jxs(&iqip), "want": jxs(&winv)}), w); }
                        if c1 != p { viol(s, "Quaternion::inverse", "(p*q)*inverse(q)-is-not-p", || json!({"input": inp(), "got": jxs(&c1)}), w); }
                        if c2 != qq { viol(s, "Quaternion::inverse", "inverse(p)*(p*q)-is-not-q", || json!({"input": inp(), "got": jxs(&c2)}), w); }
                        if ii != p { viol(s, "Quaternion::inverse", "inverse(inverse(p))-is-not-p", || json!({"input": inp(), "got": jxs(&ii)}), w); }
                    }
                }
            }
            s.evals(e, nt);
            cadd(&nmix, mix); cadd(&nord, nt); cadd(&nzero, zero); cadd(&nboth, both);
        });
        s.class_n("mixed-signs", nmix.get()); s.class_n("order-matters", nord.get()); s.class_n("p-or-q-zero", nzero.get()); s.class_n("both-non-zero", nboth.get());
        s.meta("box_range", json!(if th { 3 } else { 2 }));
    });

    rep.section("signed box: associativity on all sign patterns",
        "quick: every (p, q, r) in ({-1,0,1}^4)^3 (531441 triples); thorough: p, q in {-2..2}^4, r in {-1,0,1}^4 (31.6 million): real (p*q)*r == real p*(q*r) == reference triple product; non-trivial: p, q, r all non-zero", true, false, |s| {
        s.require_classes(&["negative-component-present"]);
        let (ps, rs) = (box4(if th { 2 } else { 1 }), box4(1));
        let nneg = Cnt::new();
        ps.par_iter().for_each(|a| {
            let (mut e, mut nt, mut ng) = (0u64, 0u64, 0u64);
            let p: Q4<X> = xs(a);
            for b in &ps { let qq: Q4<X> = xs(b); let pq = ham(&p, &qq); for c in &rs {
                let r: Q4<X> = xs(c);
                e += 1; if wsum(a) != 0 && wsum(b) != 0 && wsum(c) != 0 { nt += 1; }
                if a.iter().chain(b.iter()).chain(c.iter()).any(|v| *v < 0) { ng += 1; }
                let want = ham(&pq, &r);
                let inp = || json!({"p_xyzw": jxs(&p), "q_xyzw": jxs(&qq), "r_xyzw": jxs(&r)});
                if let Some((l, rr)) = s.call("Quaternion * Quaternion", inp, || (dq((mkq(&p) * mkq(&qq)) * mkq(&r)), dq(mkq(&p) * (mkq(&qq) * mkq(&r))))) {
                    let w = wsum(a) + wsum(b) + wsum(c);
                    if l != rr { viol(s, "Quaternion * Quaternion", "not-associative", || json!({"input": inp(), "(p*q)*r": jxs(&l), "p*(q*r)": jxs(&rr)}), w); }
                    else if l != want { viol(s, "Quaternion * Quaternion", "triple-product-wrong", || json!({"input": inp(), "got": jxs(&l), "want": jxs(&want)}), w); }
                    if s.wants_sample() && a[0] < 0 && b[1] > 0 && c[2] < 0 && a[3] != 0 { s.sample(json!({"input": inp(), "(p*q)*r = p*(q*r) =": jxs(&l)})); }
                }
            } }
            s.evals(e, nt); cadd(&nneg, ng);
        });
        s.class_n("negative-component-present", nneg.get());
    });

    rep.section("signed box: application composes on all sign patterns, with tiny and huge vectors (exact)",
        "p, q in {-1,0,1}^4 non-zero (thorough: p in {-2..2}^4), v in {-1,0,2}^3 (thorough {-2,-1,0,1,3}^3) non-zero, taken as is and scaled by 2^-60 and by 2^60 (quick: as is and at one of the two scales, alternating over the vectors) (exact rationals; the application is linear in v, so the result must scale exactly: an early-out or an epsilon guard on short vectors misfires at 2^-60, which is far below the 2^-52 epsilon of the exact type); Vec4 with w in {5, -7, 2^-60, 2^60} (rotating by case): real (p*q)*v == real p*(q*v) == reference sandwich (pq)(v,0)(pq)*, w returned untouched; non-trivial: p*q != q*p", true, false, |s| {
        s.require_classes(&["mixed-signs", "vector scaled by 2^-60", "vector scaled by 2^60", "unscaled"]);
        let (ps, qs) = (box4(if th { 2 } else { 1 }), box4(1));
        let vs = box3(if th { &[-2, -1, 0, 1, 3] } else { &[-1, 0, 2] });
        let ws = [qi(5), qi(-7), p2x(-60), p2x(60)];
        let (nmix, n_dn, n_up, n_1) = (Cnt::new(), Cnt::new(), Cnt::new(), Cnt::new());
        ps.par_iter().for_each(|a| {
            if wsum(a) == 0 { return; }
            let p: Q4<X> = xs(a);
            let (mut e, mut nt, mut mix) = (0u64, 0u64, 0u64);
            for b in &qs { if wsum(b) == 0 { continue; } let qq: Q4<X> = xs(b); let pq = ham(&p, &qq); let ord = pq != ham(&qq, &p);
                for (vi, c) in vs.iter().enumerate() { if wsum(c) == 0 { continue; } for (ki, k) in [0i32, -60, 60].iter().enumerate() {
                    if !th && ki != 0 && (ki == 1) != (vi % 2 == 0) { continue; }   // quick: each vector unscaled and at one of the two extreme scales (alternating)
                    let v: [X; 3] = scl3(&xs(c), p2x(*k));
                    let w4 = ws[(vi + ki) % 4];
                    let v4a = [v[0], v[1], v[2], w4];
                    e += 1; if ord { nt += 1; } if mixed(a, b) { mix += 1; }
                    match ki { 0 => n_1.inc(), 1 => n_dn.inc(), _ => n_up.inc() }
                    let want = rot(&pq, &v);
                    let inp = || json!({"p_xyzw": jxs(&p), "q_xyzw": jxs(&qq), "v": jxs(&v), "vector = integer vector * 2^": k, "w_of_vec4": jx(w4)});
                    let wt = wsum(a) + wsum(b) + wsum(c) + ki as u64;
                    if let Some((l, r, l4, r4)) = s.call("Quaternion * Vec3", inp, || { let (pp, qv) = (mkq(&p), mkq(&qq)); (dv3(&((pp * qv) * v3(&v))), dv3(&(pp * (qv * v3(&v)))), dv4(&((pp * qv) * v4(&v4a))), dv4(&(pp * (qv * v4(&v4a))))) }) {
                        if l != r { viol(s, "Quaternion * Vec3", "application-does-not-compose", || json!({"input": inp(), "(p*q)*v": jxs(&l), "p*(q*v)": jxs(&r)}), wt); }
                        else if l != want { viol(s, "Quaternion * Vec3", "not-the-sandwich-q-v-q*", || json!({"input": inp(), "got": jxs(&l), "want": jxs(&want)}), wt); }
                        if l4 != r4 { viol(s, "Quaternion * Vec4", "application-does-not-compose", || json!({"input": inp(), "(p*q)*v": jxs(&l4), "p*(q*v)": jxs(&r4)}), wt); }
                        else if l4[3] != w4 { viol(s, "Quaternion * Vec4", "w-not-preserved", || json!({"input": inp(), "got": jxs(&l4)}), wt); }
                        else if l4[..3] != want { viol(s, "Quaternion * Vec4", "xyz-not-the-sandwich-q-v-q*", || json!({"input": inp(), "got": jxs(&l4), "want_xyz": jxs(&want)}), wt); }
                        if s.wants_sample() && ord && *k == -60 && a[0] < 0 && b[1] > 0 { s.sample(json!({"input": inp(), "real (p*q)*Vec3": jxs(&l), "real (p*q)*Vec4": jxs(&l4)})); }
                    }
                } }
            }
            s.evals(e, nt); cadd(&nmix, mix);
        });
        s.class_n("mixed-signs", nmix.get()); s.class_n("vector scaled by 2^-60", n_dn.get()); s.class_n("vector scaled by 2^60", n_up.get()); s.class_n("unscaled", n_1.get());
    });

    rep.section("extreme rational magnitudes (exact): inverse, normalized, magnitude and q*v on quaternions scaled by 2^+-30",
        "every non-zero q in {-2..2}^4 (thorough {-3..3}^4) scaled by l in {2^-30, 2^30, 3*2^-30}: inverse(l q) == conj(q)/(l |q|^2), (l q)*inverse(l q) == inverse(l q)*(l q) == (0,0,0,1); if |q|^2 is a perfect square also magnitude(l q) == l |q|, magnitude_squared == its square, normalized(l q) == q/|q|, and the unit quaternion normalized(l q) applied to (1,2,3) equals the reference sandwich of q/|q|; the squared norm 2^-60 |q|^2 lies below 2^-52 (epsilon of the exact type), so a guard of the form `norm < epsilon` misfires here while the unguarded formula is exact; non-trivial: all", true, false, |s| {
        s.require_classes(&["scaled down (|q|^2 < epsilon)", "scaled up", "perfect-square norm (sqrt exact)"]);
        let pts = box4(if th { 3 } else { 2 });
        let (ndn, nup, nsq) = (Cnt::new(), Cnt::new(), Cnt::new());
        pts.par_iter().for_each(|a| {
            if wsum(a) == 0 { return; }
            let q0: Q4<X> = xs(a);
            let n2i: i64 = a.iter().map(|v| v * v).sum();
            let root = Q::isqrt(n2i as i128);
            for (li, l) in [p2x(-30), p2x(30), qi(3) * p2x(-30)].into_iter().enumerate() {
                let ql = scl4(&q0, l);
                s.eval(true); if li == 1 { nup.inc(); } else { ndn.inc(); }
                let inp = || json!({"q_xyzw": jxs(&ql), "q = integer quaternion * ": jx(l)});
                let w = wsum(a) + li as u64;
                if let Some((inv, lft, rgt)) = s.call("Quaternion::inverse", inp, || { let i = mkq(&ql).inverse(); (dq(i), dq(mkq(&ql) * i), dq(i * mkq(&ql))) }) {
                    let n2 = norm2(&ql); let c = conj(&ql); let want = [c[0] / n2, c[1] / n2, c[2] / n2, c[3] / n2];
                    if inv != want { viol(s, "Quaternion::inverse", "not-conjugate-over-squared-norm", || json!({"input": inp(), "got": jxs(&inv), "want": jxs(&want)}), w); }
                    if lft != [Z, Z, Z, ONE] { viol(s, "Quaternion::inverse", "q*inverse(q)-is-not-1", || json!({"input": inp(), "q*inverse(q)": jxs(&lft)}), w); }
                    if rgt != [Z, Z, Z, ONE] { viol(s, "Quaternion::inverse", "inverse(q)*q-is-not-1", || json!({"input": inp(), "inverse(q)*q": jxs(&rgt)}), w); }
                }
                if let Some(n) = root {
                    nsq.inc(); s.eval(true);
                    let norm = qi(n) * l;
                    let unit = [q0[0] / qi(n), q0[1] / qi(n), q0[2] / qi(n), q0[3] / qi(n)];
                    let v = [qi(1), qi(2), qi(3)];
                    if let Some((m, m2, nz, app)) = s.call("Quaternion::magnitude", inp, || { let qq = mkq(&ql); (qq.magnitude(), qq.magnitude_squared(), dq(qq.normalized()), dv3(&(qq.normalized() * v3(&v)))) }) {
                        if m != norm || m2 != norm * norm { viol(s, "Quaternion::magnitude", "not-the-euclidean-norm", || json!({"input": inp(), "magnitude": jx(m), "magnitude_squared": jx(m2), "want": jx(norm)}), w); }
                        if nz != unit { viol(s, "Quaternion::normalized", "not-q-over-its-norm", || json!({"input": inp(), "got": jxs(&nz), "want": jxs(&unit)}), w); }
                        else if app != rot(&unit, &v) { viol(s, "Quaternion * Vec3", "not-the-sandwich-q-v-q*", || json!({"input": inp(), "got": jxs(&app), "want": jxs(&rot(&unit, &v))}), w); }
                        if s.wants_sample() && li == 0 && n == 3 { s.sample(json!({"input": inp(), "real_magnitude": jx(m), "real_normalized": jxs(&nz)})); }
                    }
                }
            }
        });
        s.class_n("scaled down (|q|^2 < epsilon)", ndn.get()); s.class_n("scaled up", nup.get()); s.class_n("perfect-square norm (sqrt exact)", nsq.get());
    });

    rep.section("conversions: remaining operand forms of from_scalar_and_vec3 and the mint round trip (free terms)",
        "from_scalar_and_vec3 with the vector handed over as [T;3], (T,T,T), Vec4 (its w dropped) and mint::Vector3; Quaternion::from(mint::Quaternion) and Into<mint::Quaternion>: run once on pairwise distinct uninterpreted terms, every output field must be the routed input; non-trivial: all", true, true, |s| {
        let a: Q4<Term> = [Term::var(0), Term::var(1), Term::var(2), Term::var(3)];
        let other = Term::var(77);
        let expect = |site: &str, got: Result<Vec<Term>, Caught>, want: Vec<Term>| {
            s.eval(true);
            match got {
                Ok(g) => if g != want { s.violation(&format!("Quaternion {}", site), "wrong-element", json!({"got": jd(&g), "want": jd(&want)})); },
                Err(e) => s.violation(&format!("Quaternion {}", site), "panic", json!({"error": jd(&e)})),
            }
        };
        expect("from_scalar_and_vec3<[T;3]>", catch(|| dq(Quaternion::from_scalar_and_vec3((a[3], [a[0], a[1], a[2]]))).to_vec()), a.to_vec());
        expect("from_scalar_and_vec3<(T,T,T)>", catch(|| dq(Quaternion::from_scalar_and_vec3((a[3], (a[0], a[1], a[2])))).to_vec()), a.to_vec());
        expect("from_scalar_and_vec3<Vec4>", catch(|| dq(Quaternion::from_scalar_and_vec3((a[3], Vec4 { x: a[0], y: a[1], z: a[2], w: other }))).to_vec()), a.to_vec());
        expect("from_scalar_and_vec3<mint::Vector3>", catch(|| dq(Quaternion::from_scalar_and_vec3((a[3], mint::Vector3 { x: a[0], y: a[1], z: a[2] }))).to_vec()), a.to_vec());
        expect("From<mint::Quaternion>", catch(|| dq(Quaternion::from(mint::Quaternion { s: a[3], v: mint::Vector3 { x: a[0], y: a[1], z: a[2] } })).to_vec()), a.to_vec());
        expect("Into<mint::Quaternion>", catch(|| { let m: mint::Quaternion<Term> = mkq(&a).into(); vec![m.v.x, m.v.y, m.v.z, m.s] }), a.to_vec());
        s.sample(json!({"a": jd(&a), "from_scalar_and_vec3((a3, Vec4(a0,a1,a2,other)))": "must be (a0,a1,a2,a3)"}));
    });
}

// ---- exact: rotation_from_to_3d at very different / tiny / huge lengths, operand forms ---------------
/// planar rational pairs (unit e1, cos(theta) e1 + sin(theta) e2) in rotated frames: every radicand of the run is a square
fn planar_unit_pairs(axis_step: usize) -> Vec<([X; 3], [X; 3])> {
    let axes: Vec<[X; 3]> = unit_axes().into_iter().enumerate().filter(|(i, _)| i % axis_step == 0).map(|(_, a)| a).collect();
    let cps = circle_points();
    let mut out = Vec::new();
    for ax in &axes { for &(c, sn) in &cps { let m = rodrigues(ax, c, sn);
        let (e1, e2) = ([m[0][0], m[1][0], m[2][0]], [m[0][1], m[1][1], m[2][1]]);
        for &(ch, sh) in &cps { let (ct, st) = (ch * ch - sh * sh, (sh + sh) * ch);
            out.push((e1, [e1[0] * ct + e2[0] * st, e1[1] * ct + e2[1] * st, e1[2] * ct + e2[2] * st]));
        } } }
    out
}
fn sections_from_to_more(rep: &Report, th: bool) {
    // one section per pair of length exponents, so that the share of unmodelled runs (rational overflow in the exact type) is visible per scale
    for (a, b) in [(12, 12), (-28, -28), (20, -28), (-28, 20)] {
        rep.section(&format!("rotation_from_to_3d exact: tiny, huge and very different lengths (all-rational runs), |from| x 2^{}, |to| x 2^{}", a, b),
            "(G1) the planar rational unit pairs of family F2 (every 16th axis, thorough every 4th; all circle points, includes theta = 0 and pi) with from scaled by 2^a and to by 2^b, one section for each (a,b) in {(12,12), (-28,-28), (20,-28), (-28,20)}; (G2) exactly opposite integer pairs from = 2^a d, to = -k 2^b d, d in {-5..5}^3 minus 0, k in {1, 3}, kept when the branch radicand is a square.  The result must not depend on the lengths: at (-28,-28) the quantity w = |from||to| + from.to is of order 2^-56, below the 2^-52 epsilon of the exact type, so an absolute threshold (one that forgets the factor |from||to|) sends every pair into the 180-degree branch, and a normalisation guarded by `norm < epsilon` returns the identity; verdicts as in the exact section above (unit quaternion, from mapped onto the positive multiple of to, Vec4 arguments, four matrix wrappers); non-trivial: pair not parallel", true, false, |s| {
            s.require_classes(&FT_CLASSES);
            let base = planar_unit_pairs(if th { 4 } else { 16 });
            let mut pairs: Vec<([X; 3], [X; 3])> = Vec::new();
            for (f, t) in &base { pairs.push((scl3(f, p2x(a)), scl3(t, p2x(b)))); }
            let n1 = pairs.len();
            for d in int_dirs(5) { let dx: [X; 3] = xs(&d); for k in [1, 3] { pairs.push((scl3(&dx, p2x(a)), scl3(&dx, qi(-k) * p2x(b)))); } }
            run_pairs(s, &pairs);
            s.meta("pairs_generated", json!({"G1 planar rational, scaled": n1, "G2 opposite, scaled": pairs.len() - n1}));
            s.meta("scale_exponents", json!([a, b]));
        });
    }

    rep.section("rotation_from_to_3d operand forms: [T;3], (T,T,T) and Vec4 with w != 0, Quaternion and the four matrix wrappers (exact)",
        "the all-rational pairs of (F2, every 8th axis, lengths (2, 1/3)) and of (F3, k = 2): the builder called with both arguments as [T;3], as (T,T,T), and as Vec4 with w = 5 (from) and w = -7 (to) must return exactly the quaternion / matrix returned for Vec3 arguments (the w of a Vec4 direction is not part of the direction); the Vec3 result itself is judged in the sections above; non-trivial: pair not parallel", true, false, |s| {
        s.require_classes(&["general", "antiparallel"]);
        let mut pairs: Vec<([X; 3], [X; 3])> = planar_unit_pairs(8).into_iter().map(|(f, t)| (scl3(&f, qi(2)), scl3(&t, q(1, 3)))).collect();
        for d in int_dirs(5) { let dx: [X; 3] = xs(&d); pairs.push((dx, scl3(&dx, qi(-2)))); }
        let (ngen, nanti) = (Cnt::new(), Cnt::new());
        pairs.par_iter().for_each(|(f, t)| {
            let kind = classify(f, t);
            if !kind.exact() { return; }
            s.eval(kind != Kind::Parallel);
            if kind.anti() { nanti.inc(); } else { ngen.inc(); }
            let inp = || json!({"from": jxs(f), "to": jxs(t), "pair": kind.class()});
            let w = wx(f) + wx(t);
            let (f4, t4) = (Vec4 { x: f[0], y: f[1], z: f[2], w: qi(5) }, Vec4 { x: t[0], y: t[1], z: t[2], w: qi(-7) });
            if let Some((b, ar, tu, v4w)) = s.call("Quaternion::rotation_from_to_3d", inp, || (
                dq(Quaternion::rotation_from_to_3d(v3(f), v3(t))), dq(Quaternion::rotation_from_to_3d([f[0], f[1], f[2]], [t[0], t[1], t[2]])),
                dq(Quaternion::rotation_from_to_3d((f[0], f[1], f[2]), (t[0], t[1], t[2]))), dq(Quaternion::rotation_from_to_3d(f4, t4)))) {
                for (form, g) in [("[T;3]", ar), ("(T,T,T)", tu), ("Vec4 (w != 0)", v4w)] {
                    if g != b { viol(s, &format!("Quaternion::rotation_from_to_3d<{}>", form), "operand-form-differs-from-vec3-form", || json!({"input": inp(), "vec3": jxs(&b), "this form": jxs(&g)}), w); }
                }
            }
            macro_rules! forms { ($M:ty, $N:expr) => {{
                let name = <$M as QM<X, $N>>::NAME;
                if let Some((b, ar, tu, v4w)) = s.call(&format!("{}::rotation_from_to_3d", name), inp, || (
                    <$M>::rotation_from_to_3d(v3(f), v3(t)).decode(), <$M>::rotation_from_to_3d([f[0], f[1], f[2]], [t[0], t[1], t[2]]).decode(),
                    <$M>::rotation_from_to_3d((f[0], f[1], f[2]), (t[0], t[1], t[2])).decode(), <$M>::rotation_from_to_3d(f4, t4).decode())) {
                    for (form, g) in [("[T;3]", ar), ("(T,T,T)", tu), ("Vec4 (w != 0)", v4w)] {
                        if g != b { viol(s, &format!("{}::rotation_from_to_3d<{}>", name, form), "operand-form-differs-from-vec3-form", || json!({"input": inp(), "vec3": jmat(&b), "this form": jmat(&g)}), w); }
                    }
                }
            }} }
            forms!(rm::Mat3<X>, 3); forms!(cm::Mat3<X>, 3); forms!(rm::Mat4<X>, 4); forms!(cm::Mat4<X>, 4);
        });
        s.class_n("general", ngen.get()); s.class_n("antiparallel", nanti.get());
        s.sample(json!({"from": "Vec4(3,4,0,5)", "to": "Vec4(-6,-8,0,-7)", "must equal": "rotation_from_to_3d(Vec3(3,4,0), Vec3(-6,-8,0))"}));
    });
}

// ---- float tiers of the algebra and of the application ----------------------------------------------
/// f64 oracle values of everything the algebra clauses speak about, from the very floats handed to the code
struct AlgWant { prod: Q4<f64>, conj: Q4<f64>, inv: Q4<f64>, mag: f64, mag2: f64, nrm: Q4<f64>, dot: f64, magpq: f64, sp: f64, sq: f64 }
fn alg_want(p: &Q4<f64>, q: &Q4<f64>) -> AlgWant {
    let (np, nq) = (norm2(p), norm2(q));
    let c = conj(p);
    AlgWant { prod: ham(p, q), conj: c, inv: [c[0] / np, c[1] / np, c[2] / np, c[3] / np], mag: np.sqrt(), mag2: np, nrm: [p[0] / np.sqrt(), p[1] / np.sqrt(), p[2] / np.sqrt(), p[3] / np.sqrt()],
              dot: p[0] * q[0] + p[1] * q[1] + p[2] * q[2] + p[3] * q[3], magpq: (np * nq).sqrt(), sp: asum(p), sq: asum(q) }
}
macro_rules! float_algebra { ($s:expr, $T:ty, $K:expr) => {{
    let s: &Section = $s;
    s.require_classes(&["integer-valued operands (every product exact)", "full-mantissa operands", "unscaled", "both scaled up (2^K, 2^K)", "both scaled down (2^-K, 2^-K)", "opposite scales (2^K, 2^-K)"]);
    let (eps, kk): (f64, i32) = (<$T as Fl>::EPS, $K);
    let tf = |v: f64| <$T as Fl>::f(v);
    let name = <$T as Fl>::NAME;
    let kf = vx::fl::K;
    let mut ps: Vec<(Q4<$T>, bool, u64)> = Vec::new();
    for a in box4(if s.thorough() { 3 } else { 2 }) { if wsum(&a) == 0 { continue; }
        ps.push(([tf(a[0] as f64), tf(a[1] as f64), tf(a[2] as f64), tf(a[3] as f64)], true, wsum(&a)));
        ps.push(([tf(0.1) * tf(a[0] as f64) + tf(0.013), tf(0.1) * tf(a[1] as f64) - tf(0.007), tf(0.1) * tf(a[2] as f64) + tf(0.003), tf(0.1) * tf(a[3] as f64) - tf(0.011)], false, wsum(&a) + 50));
    }
    let mut qs: Vec<(Q4<$T>, bool)> = [[1.0, 2.0, 3.0, 4.0], [-1.0, 2.0, -3.0, 1.0], [0.0, 0.0, 1.0, 0.0], [3.0, -1.0, 0.0, 2.0], [-2.0, -2.0, 1.0, -1.0], [0.0, 0.0, 0.0, 1.0]].iter().map(|a: &[f64; 4]| ([tf(a[0]), tf(a[1]), tf(a[2]), tf(a[3])], true)).collect();
    for a in [[0.3, -0.7, 0.2, 0.6], [-0.11, 0.23, 0.37, -0.53], [1.7, 0.0, -2.9, 0.013]] { qs.push(([tf(a[0]), tf(a[1]), tf(a[2]), tf(a[3])], false)); }
    let scales: [(i32, i32, &str); 5] = [(0, 0, "unscaled"), (kk, kk, "both scaled up (2^K, 2^K)"), (-kk, -kk, "both scaled down (2^-K, 2^-K)"), (kk, -kk, "opposite scales (2^K, 2^-K)"), (1, -3, "unscaled")];
    s.meta("K", json!(kk)); s.meta("left_operands", json!(ps.len())); s.meta("right_operands", json!(qs.len()));
    let cl: std::sync::Mutex<BTreeMap<&'static str, u64>> = std::sync::Mutex::new(BTreeMap::new());
    ps.par_iter().for_each(|(p0, pint, pw)| {
        let mut lc: BTreeMap<&'static str, u64> = BTreeMap::new();
        for (q0, qint) in &qs {
            let (pf, qf): (Q4<f64>, Q4<f64>) = ([p0[0].d(), p0[1].d(), p0[2].d(), p0[3].d()], [q0[0].d(), q0[1].d(), q0[2].d(), q0[3].d()]);
            let want = alg_want(&pf, &qf);
            let exact = *pint && *qint;
            for (k1, k2, scls) in scales {
                let (s1, s2) = (tf(p2(k1)), tf(p2(k2)));
                let (p, q): (Q4<$T>, Q4<$T>) = ([p0[0] * s1, p0[1] * s1, p0[2] * s1, p0[3] * s1], [q0[0] * s2, q0[1] * s2, q0[2] * s2, q0[3] * s2]);
                s.eval(true);
                *lc.entry(scls).or_insert(0) += 1; *lc.entry(if exact { "integer-valued operands (every product exact)" } else { "full-mantissa operands" }).or_insert(0) += 1;
                let inp = || json!({"p_xyzw": [p[0].d(), p[1].d(), p[2].d(), p[3].d()], "q_xyzw": [q[0].d(), q[1].d(), q[2].d(), q[3].d()], "p = p0 * 2^": k1, "q = q0 * 2^": k2, "p0": pf, "q0": qf});
                let wt = *pw + (k1.unsigned_abs() + k2.unsigned_abs()) as u64;
                let do_magpq = (k1 + k2).abs() <= kk;   // |p*q|^2 must stay inside the float range for the magnitude of the product
                let Some((prod, cj, inv, li, ri, mag, mag2, nrm, dt, magpq, mpmq)) = s.call(&format!("Quaternion algebra<{}>", name), inp, || {
                    let (pp, qq) = (mkq(&p), mkq(&q)); let i = pp.inverse();
                    (dq(pp * qq), dq(pp.conjugate()), dq(i), dq(pp * i), dq(i * pp), pp.magnitude(), pp.magnitude_squared(), dq(pp.normalized()), pp.dot(qq),
                     if do_magpq { (pp * qq).magnitude() } else { tf(0.0) }, pp.magnitude() * qq.magnitude())
                }) else { continue };
                // undo the power-of-two scaling exactly in f64 (for f64 itself the unscaled values are those of the unscaled operands)
                let un4 = |a: &Q4<$T>, k: i32| -> Q4<f64> { [a[0].d() * p2(-k), a[1].d() * p2(-k), a[2].d() * p2(-k), a[3].d() * p2(-k)] };
                let d4 = |a: &Q4<$T>| -> Q4<f64> { [a[0].d(), a[1].d(), a[2].d(), a[3].d()] };
                let g = un4(&prod, k1 + k2);
                let tol = kf * eps * want.sp * want.sq;
                if exact { if g != want.prod { viol(s, &format!("Quaternion * Quaternion<{}>", name), "integer-valued-product-not-exactly-the-hamilton-product", || json!({"input": inp(), "got / 2^(k1+k2)": g, "want": want.prod}), wt); } }
                else if !within(&g, &want.prod, tol) { viol(s, &format!("Quaternion * Quaternion<{}>", name), "not-the-hamilton-product-within-error-bound", || json!({"input": inp(), "got / 2^(k1+k2)": g, "want": want.prod, "tolerance": tol}), wt); }
                let g = un4(&cj, k1);
                if g != want.conj { viol(s, &format!("Quaternion::conjugate<{}>", name), "not-(-x,-y,-z,w)", || json!({"input": inp(), "got / 2^k1": g}), wt); }
                let g = un4(&inv, -k1); let tol = kf * eps * amax(&want.inv);
                if !within(&g, &want.inv, tol) { viol(s, &format!("Quaternion::inverse<{}>", name), "not-conjugate-over-squared-norm-within-error-bound", || json!({"input": inp(), "got * 2^k1": g, "want": want.inv, "tolerance": tol}), wt); }
                let one = [0.0, 0.0, 0.0, 1.0];
                if !within(&d4(&li), &one, kf * eps) { viol(s, &format!("Quaternion::inverse<{}>", name), "q*inverse(q)-is-not-1-within-error-bound", || json!({"input": inp(), "q*inverse(q)": d4(&li)}), wt); }
                if !within(&d4(&ri), &one, kf * eps) { viol(s, &format!("Quaternion::inverse<{}>", name), "inverse(q)*q-is-not-1-within-error-bound", || json!({"input": inp(), "inverse(q)*q": d4(&ri)}), wt); }
                let (gm, gm2) = (mag.d() * p2(-k1), mag2.d() * p2(-k1) * p2(-k1));
                if !within(&[gm], &[want.mag], kf * eps * want.mag) || !within(&[gm2], &[want.mag2], kf * eps * want.mag2) { viol(s, &format!("Quaternion::magnitude<{}>", name), "not-the-euclidean-norm-within-error-bound", || json!({"input": inp(), "magnitude / 2^k1": gm, "magnitude_squared / 4^k1": gm2, "want": [want.mag, want.mag2]}), wt); }
                if !within(&d4(&nrm), &want.nrm, kf * eps) { viol(s, &format!("Quaternion::normalized<{}>", name), "not-q-over-its-norm-within-error-bound", || json!({"input": inp(), "got": d4(&nrm), "want": want.nrm}), wt); }
                let gd = dt.d() * p2(-(k1 + k2));
                if !within(&[gd], &[want.dot], kf * eps * want.sp * want.sq) { viol(s, &format!("Quaternion::dot<{}>", name), "not-the-sum-of-products-within-error-bound", || json!({"input": inp(), "got / 2^(k1+k2)": gd, "want": want.dot}), wt); }
                let gpq = mpmq.d() * p2(-(k1 + k2));
                if do_magpq { let gm = magpq.d() * p2(-(k1 + k2));
                    if !within(&[gm], &[want.magpq], kf * eps * want.magpq) || !within(&[gm], &[gpq], kf * eps * want.magpq) { viol(s, &format!("Quaternion * Quaternion<{}>", name), "magnitude-not-multiplicative-within-error-bound", || json!({"input": inp(), "|p*q| / 2^(k1+k2)": gm, "|p|*|q| / 2^(k1+k2)": gpq, "want": want.magpq}), wt); } }
                if s.wants_sample() && !exact && k1 == kk && k2 == kk && p0[0] < tf(0.0) { s.sample(json!({"input": inp(), "real p*q": d4(&prod), "real inverse(p)": d4(&inv), "real normalized(p)": d4(&nrm)})); }
            }
        }
        let mut g = cl.lock().unwrap(); for (k, n) in lc { *g.entry(k).or_insert(0) += n; }
    });
    for (k, n) in cl.into_inner().unwrap() { s.class_n(k, n); }
    // identity / default / zero in the float type
    s.eval(true);
    let (i, dflt, z) = (dq(Quaternion::<$T>::identity()), dq(<Quaternion<$T> as Default>::default()), dq(Quaternion::<$T>::zero()));
    let one: Q4<$T> = [tf(0.0), tf(0.0), tf(0.0), tf(1.0)];
    if i != one { s.violation(&format!("Quaternion::identity<{}>", name), "not-(0,0,0,1)", json!({"got": [i[0].d(), i[1].d(), i[2].d(), i[3].d()]})); }
    if dflt != one { s.violation(&format!("Quaternion::default<{}>", name), "not-the-identity", json!({"got": [dflt[0].d(), dflt[1].d(), dflt[2].d(), dflt[3].d()]})); }
    if z != [tf(0.0); 4] { s.violation(&format!("Quaternion::zero<{}>", name), "not-zero", json!({"got": [z[0].d(), z[1].d(), z[2].d(), z[3].d()]})); }
    // the zero quaternion (after seed S05i): the norm is multiplicative for ALL components, so |0| = 0, |0*q| = |q*0| = |q - q| = 0 exactly
    // (every product and sum involved is exact), also with negative zeros in the lanes; magnitude_squared likewise
    for (q0, _) in qs.iter().take(9) {
        let q = mkq(q0);
        let zero = Quaternion::<$T>::zero();
        let nz = mkq(&[tf(-0.0), tf(0.0), tf(-0.0), tf(-0.0)]);
        let cases: [(&str, Quaternion<$T>); 6] = [("zero()", zero), ("(-0,+0,-0,-0)", nz), ("zero() * q", zero * q), ("q * zero()", q * zero), ("q - q", q - q), ("q * 0", q * tf(0.0))];
        for (what, v) in cases {
            s.eval(true);
            let inp = || json!({"q_xyzw": [q0[0].d(), q0[1].d(), q0[2].d(), q0[3].d()], "value": what});
            if let Some((m, m2)) = s.call(&format!("Quaternion::magnitude<{}>", name), inp, || (v.magnitude(), v.magnitude_squared())) {
                if m.d() != 0.0 || m2.d() != 0.0 { viol(s, &format!("Quaternion::magnitude<{}>", name), "norm-of-the-zero-quaternion-is-not-0", || json!({"input": inp(), "magnitude": format!("{:?}", m.d()), "magnitude_squared": format!("{:?}", m2.d())}), 0); }
            }
        }
    }
}} }

macro_rules! float_apply { ($s:expr, $T:ty, $K:expr) => {{
    let s: &Section = $s;
    s.require_classes(&["w<0", "w>=0", "vector unscaled", "vector scaled by 2^K", "vector scaled by 2^-K"]);
    let (eps, kk): (f64, i32) = (<$T as Fl>::EPS, $K);
    let tf = |v: f64| <$T as Fl>::f(v);
    let name = <$T as Fl>::NAME;
    let kf = vx::fl::K;
    // unit quaternions p/|p| computed in f64 and rounded to the type (struct literal, never vek's normalized)
    let unit = |a: &[i64; 4]| -> Q4<$T> { let n = (a.iter().map(|v| v * v).sum::<i64>() as f64).sqrt(); [tf(a[0] as f64 / n), tf(a[1] as f64 / n), tf(a[2] as f64 / n), tf(a[3] as f64 / n)] };
    let us: Vec<[i64; 4]> = box4(if s.thorough() { 3 } else { 2 }).into_iter().filter(|a| wsum(a) != 0).collect();
    let seconds: Vec<[i64; 4]> = vec![[1, 2, 3, 4], [-1, 1, 0, -1], [2, -1, 2, 0]];
    let vs: [[f64; 3]; 10] = [[1.0, 0.0, 0.0], [0.0, 1.0, 0.0], [0.0, 0.0, 1.0], [1.0, 2.0, 3.0], [-2.0, 0.5, 5.0], [0.1, -0.7, 0.3], [-1.0, -1.0, -1.0], [3.0, -4.0, 0.0], [0.0, -2.0, 7.0], [1e-3, 2.0, -5e2]];
    s.meta("K", json!(kk)); s.meta("unit_quaternions", json!(us.len())); s.meta("vectors", json!(vs.len()));
    let cl: std::sync::Mutex<BTreeMap<&'static str, u64>> = std::sync::Mutex::new(BTreeMap::new());
    us.par_iter().for_each(|a| {
        let mut lc: BTreeMap<&'static str, u64> = BTreeMap::new();
        let u = unit(a);
        let uf: Q4<f64> = [u[0].d(), u[1].d(), u[2].d(), u[3].d()];
        let nu = norm2(&uf);
        for (vi, v0) in vs.iter().enumerate() { for (ki, k) in [0, kk, -kk].into_iter().enumerate() {
            let sc = tf(p2(k));
            let v: [$T; 3] = [tf(v0[0]) * sc, tf(v0[1]) * sc, tf(v0[2]) * sc];
            let vf = [v[0].d(), v[1].d(), v[2].d()];
            let w4: $T = [tf(1.0), tf(-7.0), tf(3.0) * tf(p2(kk)), -tf(p2(-kk))][(vi + ki) % 4];
            let v4a: [$T; 4] = [v[0], v[1], v[2], w4];
            s.eval(wsum(&a[..3]) != 0);
            *lc.entry(if a[3] < 0 { "w<0" } else { "w>=0" }).or_insert(0) += 1;
            *lc.entry(["vector unscaled", "vector scaled by 2^K", "vector scaled by 2^-K"][ki]).or_insert(0) += 1;
            // the rotation of the very floats handed in: q (v,0) q* / |q|^2 (the rounded q is unit only up to 2 eps)
            let r = rot(&uf, &vf); let want = [r[0] / nu, r[1] / nu, r[2] / nu];
            let tol = kf * eps * asum(&vf);
            let inp = || json!({"q_xyzw": uf, "q = fl(p/|p|), p": a, "v": vf, "v = v0 * 2^": k, "w_of_vec4": w4.d()});
            let wt = wsum(a) + vi as u64 + 10 * ki as u64;
            let Some((g3, g4)) = s.call(&format!("Quaternion * Vec3<{}>", name), inp, || (dv3(&(mkq(&u) * v3(&v))), dv4(&(mkq(&u) * v4(&v4a))))) else { continue };
            let g3f = [g3[0].d(), g3[1].d(), g3[2].d()]; let g4f = [g4[0].d(), g4[1].d(), g4[2].d(), g4[3].d()];
            if !within(&g3f, &want, tol) { viol(s, &format!("Quaternion * Vec3<{}>", name), "not-the-rotation-of-v-within-error-bound", || json!({"input": inp(), "got": g3f, "want": want, "tolerance": tol}), wt); }
            if !(g4[3] == w4) { viol(s, &format!("Quaternion * Vec4<{}>", name), "w-not-preserved", || json!({"input": inp(), "got": g4f}), wt); }
            if !within(&g4f[..3], &want, tol) { viol(s, &format!("Quaternion * Vec4<{}>", name), "xyz-not-the-rotation-of-v-within-error-bound", || json!({"input": inp(), "got": g4f, "want_xyz": want, "tolerance": tol}), wt); }
            macro_rules! mat { ($M:ty, $N:expr) => {{
                let site = format!("{}::from(Quaternion) * Vec{}<{}>", <$M as QM<$T, $N>>::NAME, $N, name);
                let vin: [$T; $N] = { let mut t = [w4; $N]; for i in 0..3 { t[i] = v[i]; } t };
                if let Some((m, mv)) = s.call(&site, inp, || { let m = <$M as QM<$T, $N>>::t_from_q(mkq(&u)); (m.decode(), m.t_mulv(vin)) }) {
                    let mvf: Vec<f64> = mv.iter().map(|x| x.d()).collect();
                    let mut by_fields = [0.0f64; 3]; for i in 0..3 { for j in 0..3 { by_fields[i] += m[i][j].d() * vf[j]; } }
                    let gq: &[f64] = if $N == 3 { &g3f[..] } else { &g4f[..3] };
                    // the matrix route and the sandwich route each carry their own rounding: both within tol of the true rotation, hence within 2 tol of each other
                    // (when the real q*v is itself off, that is reported under the q*v site above and the cross comparison would only repeat it)
                    let ok = within(&mvf[..3], &want, tol) && within(&by_fields, &want, tol) && (!within(gq, &want, tol) || within(&mvf[..3], gq, 2.0 * tol)) && ($N == 3 || (mvf[3] - w4.d()).abs() <= kf * eps * (asum(&vf) + w4.d().abs()));
                    if !ok { viol(s, &site, "differs-from-quaternion-application-beyond-error-bound", || json!({"input": inp(), "real M*v": mvf, "decoded fields * v": by_fields, "real q*v": gq, "true rotation": want, "tolerance": tol}), wt); }
                }
            }} }
            mat!(rm::Mat3<$T>, 3); mat!(cm::Mat3<$T>, 3); mat!(rm::Mat4<$T>, 4); mat!(cm::Mat4<$T>, 4);
            // composition with a second unit quaternion
            let b = &seconds[(vi + ki) % 3]; let u2 = unit(b);
            let u2f: Q4<f64> = [u2[0].d(), u2[1].d(), u2[2].d(), u2[3].d()];
            let pq = ham(&uf, &u2f); let npq = norm2(&pq); let rc = rot(&pq, &vf); let wantc = [rc[0] / npq, rc[1] / npq, rc[2] / npq];
            s.eval(true);
            if let Some((l, r, l4, r4)) = s.call(&format!("Quaternion * Vec3<{}>", name), inp, || { let (pp, qq) = (mkq(&u), mkq(&u2)); (dv3(&((pp * qq) * v3(&v))), dv3(&(pp * (qq * v3(&v)))), dv4(&((pp * qq) * v4(&v4a))), dv4(&(pp * (qq * v4(&v4a))))) }) {
                let (lf, rf) = ([l[0].d(), l[1].d(), l[2].d()], [r[0].d(), r[1].d(), r[2].d()]);
                let (l4f, r4f) = ([l4[0].d(), l4[1].d(), l4[2].d(), l4[3].d()], [r4[0].d(), r4[1].d(), r4[2].d(), r4[3].d()]);
                if !within(&lf, &wantc, 2.0 * tol) || !within(&rf, &wantc, 2.0 * tol) { viol(s, &format!("Quaternion * Vec3<{}>", name), "application-does-not-compose-within-error-bound", || json!({"input": inp(), "second quaternion": u2f, "(p*q)*v": lf, "p*(q*v)": rf, "want": wantc, "tolerance": 2.0 * tol}), wt); }
                if !within(&l4f[..3], &wantc, 2.0 * tol) || !within(&r4f[..3], &wantc, 2.0 * tol) || !(l4[3] == w4) || !(r4[3] == w4) { viol(s, &format!("Quaternion * Vec4<{}>", name), "application-does-not-compose-within-error-bound", || json!({"input": inp(), "second quaternion": u2f, "(p*q)*v": l4f, "p*(q*v)": r4f, "want_xyz": wantc, "tolerance": 2.0 * tol}), wt); }
            }
            if s.wants_sample() && ki == 2 && a[3] < 0 && a[0] != 0 && vi == 3 { s.sample(json!({"input": inp(), "real q*Vec3": g3f, "real q*Vec4": g4f, "oracle": want})); }
        } }
        let mut g = cl.lock().unwrap(); for (k, n) in lc { *g.entry(k).or_insert(0) += n; }
    });
    for (k, n) in cl.into_inner().unwrap() { s.class_n(k, n); }
}} }

fn sections_float_algebra(rep: &Report) {
    let rule_a = "left operands p0: every non-zero point of {-2..2}^4 (thorough {-3..3}^4) as integer-valued floats, and fl(0.1)*a + (0.013,-0.007,0.003,-0.011) formed in the type (full mantissas); right operands q0: six integer-valued and three full-mantissa quaternions; scales p = p0 2^k1, q = q0 2^k2 with (k1,k2) in {(0,0), (K,K), (-K,-K), (K,-K), (1,-3)}, K = 40 (f32) / 400 (f64): squared norms 2^+-2K stay inside the float range, so every clause scales exactly and a formulation that multiplies two squared norms, or guards a division by an epsilon test, breaks at +-K.  Oracle in f64 from the very floats handed in (reference table product, conj/|p|^2, sqrt of the sum of squares), results unscaled exactly by the power of two; tolerance 256 eps x (sum|p_i|)(sum|q_i|) for product and dot (integer-valued operands: equality), 256 eps relative for inverse, magnitude, normalized, 256 eps for q*inverse(q) = inverse(q)*q = 1; |p*q| = |p||q| is evaluated where |k1+k2| <= K (the squared norm of the product must itself be representable); identity()/default()/zero() fields in the float type; non-trivial: all";
    rep.section("float tier of the algebra f64: product, conjugate, inverse (two-sided), magnitude, normalized, dot at scales 2^+-400", rule_a, true, false, |s| float_algebra!(s, f64, 400));
    rep.section("float tier of the algebra f32: product, conjugate, inverse (two-sided), magnitude, normalized, dot at scales 2^+-40", rule_a, true, false, |s| float_algebra!(s, f32, 40));
    let rule_b = "unit quaternions q = fl(p/|p|) for every non-zero p in {-2..2}^4 (thorough {-3..3}^4) (built by struct literal) x 10 vectors (axes, integer, fractional, one of mixed magnitude) x vector scale 2^k, k in {0, K, -K}, K = 40 (f32) / 400 (f64); Vec4 w in {1, -7, 3*2^K, -2^-K}.  Oracle in f64: the rotation of the very floats, q (v,0) q* / |q|^2, tolerance 256 eps sum|v_i| (absolute, scales with v).  Checked: real q*Vec3; real q*Vec4 (xyz the same, w returned equal to the input w); real Mat3/Mat4::from(q) (both layouts) times v, and the decoded matrix fields times v, within the bound of the rotation and within twice the bound of the real q*v, Mat4 keeps w; (q*q2)*v and q*(q2*v) for a second unit quaternion within twice the bound of the rotation by the reference product; non-trivial: q != +-identity";
    rep.section("float tier of the application f64: q*v, matrix from q, composition, vectors scaled by 2^+-400", rule_b, true, false, |s| float_apply!(s, f64, 400));
    rep.section("float tier of the application f32: q*v, matrix from q, composition, vectors scaled by 2^+-40", rule_b, true, false, |s| float_apply!(s, f32, 40));
}

// ---- float: rotation_from_to_3d at tiny / huge / very different lengths ------------------------------
/// `$scales`: exponent pairs (a, b): from = 2^a d1, to = 2^b d2 over all ordered pairs of integer directions of radius `$r`,
/// plus exactly opposite pairs to = -3 * 2^(b-a) * from.  Same oracle, classification and tolerances as the float tier above.
macro_rules! float_from_to_scaled { ($s:expr, $T:ty, $scales:expr, $r:expr) => {{
    let s: &Section = $s;
    let tf = |v: f64| <$T as Fl>::f(v);
    let eps = <$T as Fl>::EPS;
    let name = <$T as Fl>::NAME;
    let dirs = int_dirs($r);
    let scales: Vec<(i32, i32)> = $scales;
    s.meta("scale_exponents (from, to)", json!(scales)); s.meta("directions", json!(dirs.len()));
    let mut cases: Vec<([$T; 3], [$T; 3], Value, u64)> = Vec::new();
    for (si, &(a, b)) in scales.iter().enumerate() { for d1 in &dirs { for d2 in &dirs {
        let (la, lb) = (tf(p2(a)), tf(p2(b)));
        cases.push(([la * (d1[0] as $T), la * (d1[1] as $T), la * (d1[2] as $T)], [lb * (d2[0] as $T), lb * (d2[1] as $T), lb * (d2[2] as $T)], json!({"from = 2^a * d1, to = 2^b * d2": {"a": a, "b": b, "d1": d1, "d2": d2}}), wsum(d1) + wsum(d2) + 10 * si as u64));
    } } }
    let mut cl: BTreeMap<&'static str, u64> = BTreeMap::new();
    for (from, to, tag, weight) in &cases {
        let (from, to, weight) = (*from, *to, *weight);
        let (f, t) = ([from[0].d(), from[1].d(), from[2].d()], [to[0].d(), to[1].d(), to[2].d()]);
        let (collinear, positive) = exact_collinear(&f, &t);
        let (ff, tt, dt) = (dotn(&f, &f), dotn(&t, &t), dotn(&f, &t));
        let (nf, ntt) = (ff.sqrt(), tt.sqrt());
        let want = [t[0] / ntt * nf, t[1] / ntt * nf, t[2] / ntt * nf];
        let anti = collinear && !positive;
        let one_plus_cos = 1.0 + dt / nf / ntt;
        let near = !anti && one_plus_cos < 1.0 / 64.0;
        let tol = if anti { vx::fl::K * eps * nf } else if near { 8.0 * eps.sqrt() * nf } else { vx::fl::K * eps * nf / (one_plus_cos / 2.0).sqrt() };
        // does the product of the two squared lengths leave the range of the float type? (formed in the type, like any implementation that forms it would)
        let pr = tf(ff) * tf(tt);
        let range = if pr.d().is_infinite() { "|from|^2 |to|^2 overflows" } else if pr.d() < <$T as FlX>::MINPOS { "|from|^2 |to|^2 underflows" } else { "|from|^2 |to|^2 representable" };
        *cl.entry(range).or_insert(0) += 1;
        *cl.entry(if anti { "opposite (exactly)" } else if near { "nearly opposite" } else if collinear { "parallel" } else { "general" }).or_insert(0) += 1;
        let cls = match (range, anti) {
            ("|from|^2 |to|^2 overflows", _) => "pair-whose-squared-lengths-product-overflows-not-mapped-onto-to",
            ("|from|^2 |to|^2 underflows", _) => "pair-whose-squared-lengths-product-underflows-not-mapped-onto-to",
            (_, true) => "opposite-pair-not-mapped-onto-to-within-error-bound",
            _ => if near { "nearly-opposite-pair-not-mapped-onto-to-within-sqrt-eps" } else { "does-not-map-from-onto-to-within-error-bound" } };
        let inp = || json!({"from": f, "to": t, "construction": tag, "exactly_opposite": anti, "|from|^2*|to|^2 in the type": pr.d()});
        s.eval(!(collinear && positive));
        let site = format!("Quaternion::rotation_from_to_3d<{}>", name);
        if let Some((qd, r)) = s.call(&site, inp, || { let q = Quaternion::<$T>::rotation_from_to_3d(v3(&from), v3(&to)); (dq(q), dv3(&(q * v3(&from)))) }) {
            let qf: Q4<f64> = [qd[0].d(), qd[1].d(), qd[2].d(), qd[3].d()];
            let rf = [r[0].d(), r[1].d(), r[2].d()];
            let unit = (norm2(&qf) - 1.0).abs() <= vx::fl::K * eps;
            if !unit && range == "|from|^2 |to|^2 representable" { viol(s, &site, "not-a-unit-quaternion-within-error-bound", || json!({"input": inp(), "got_xyzw": qf.map(|v| format!("{:e}", v)), "norm_squared": format!("{:e}", norm2(&qf))}), weight); }
            if !within(&rf, &want, tol) || (!unit && range != "|from|^2 |to|^2 representable") { viol(s, &site, cls, || json!({"input": inp(), "got_xyzw": qf.map(|v| format!("{:e}", v)), "real q*from": rf.map(|v| format!("{:e}", v)), "want": want, "tolerance": tol}), weight); }
            if s.wants_sample() && !collinear && from[0] != tf(0.0) && from[1] != tf(0.0) { s.sample(json!({"input": inp(), "real_quaternion_xyzw": qf.map(|v| format!("{:e}", v)), "real q*from": rf.map(|v| format!("{:e}", v)), "oracle": want})); }
        }
        macro_rules! mat { ($M:ty, $N:expr) => {{
            let site = format!("{}::rotation_from_to_3d<{}>", <$M as QM<$T, $N>>::NAME, name);
            s.eval(!(collinear && positive));
            if let Some((m, mv)) = s.call(&site, inp, || { let m = <$M as QR<$T, $N>>::t_from_to(from, to); (m.decode(), m.t_mulv(pad::<$T, $N>(&from, tf(0.0)))) }) {
                let mut by_fields = [0.0f64; 3]; for i in 0..3 { for j in 0..3 { by_fields[i] += m[i][j].d() * f[j]; } }
                let mvf: Vec<f64> = mv.iter().map(|v| v.d()).collect();
                let ok = within(&mvf[..3], &want, tol) && within(&by_fields, &want, tol) && ($N == 3 || mvf[$N - 1] == 0.0);
                if !ok { viol(s, &site, cls, || json!({"input": inp(), "real M*from": mvf.iter().map(|v| format!("{:e}", v)).collect::<Vec<_>>(), "fields*from": by_fields.map(|v| format!("{:e}", v)), "want": want, "tolerance": tol}), weight); }
            }
        }} }
        mat!(rm::Mat3<$T>, 3); mat!(cm::Mat3<$T>, 3); mat!(rm::Mat4<$T>, 4); mat!(cm::Mat4<$T>, 4);
    }
    for (k, n) in cl { s.class_n(k, n); }
}} }

fn sections_from_to_float_scaled(rep: &Report, th: bool) {
    let r = if th { 2 } else { 1 };
    let rule_m = "all ordered pairs (d1, d2) of integer directions of {-1,0,1}^3 minus 0 (thorough {-2..2}^3: 124^2) - they include parallel and exactly opposite pairs - with from = 2^a d1, to = 2^b d2, (a,b) in {(M,M), (-M,-M), (M,-M), (-M,M), (K,-K), (-K,K)}, M = 12 (f32) / 100 (f64), K = 40 (f32) / 400 (f64): the product |from|^2 |to|^2 stays representable in all of them, the rotation does not depend on the two lengths, and q*from must have the length of from.  At (-M,-M) the quantity w = |from||to| + from.to is far below epsilon in absolute terms (2^-24 in f32, 2^-200 in f64): a 180-degree test with an absolute threshold sends every pair into the antiparallel branch.  Oracle, exact classification of the pair and tolerances exactly as in the float tier above; checked: the quaternion (unit, q*from), Mat3/Mat4 wrappers in both layouts (real M*from and decoded fields*from); non-trivial: pair not parallel";
    rep.section("rotation_from_to_3d float tier f64: lengths 2^+-100 and mixed 2^+-400 (squared-length product representable)", rule_m, true, false, |s| {
        s.require_classes(&["|from|^2 |to|^2 representable", "opposite (exactly)", "parallel", "general"]);
        float_from_to_scaled!(s, f64, vec![(100, 100), (-100, -100), (100, -100), (-100, 100), (400, -400), (-400, 400)], r) });
    rep.section("rotation_from_to_3d float tier f32: lengths 2^+-12 and mixed 2^+-40 (squared-length product representable)", rule_m, true, false, |s| {
        s.require_classes(&["|from|^2 |to|^2 representable", "opposite (exactly)", "parallel", "general"]);
        float_from_to_scaled!(s, f32, vec![(12, 12), (-12, -12), (12, -12), (-12, 12), (40, -40), (-40, 40)], r) });
    let rule_x = "all ordered pairs of integer directions of {-1,0,1}^3 minus 0 (26^2 = 676, incl. parallel and exactly opposite) with both vectors scaled by 2^K and both by 2^-K, K = 40 (f32) / 400 (f64), and at the edge 2^+-33 (f32) / 2^+-260 (f64): every component and both squared lengths are ordinary finite floats, but the product |from|^2 |to|^2 is outside the range of the type (2^+-160 in f32, 2^+-1600 in f64).  The statement quantifies over every non-degenerate pair and the rotation does not depend on the lengths, so the oracle is unchanged: q must be unit and q*from = to |from|/|to| within the bounds of the float tier above; a violation here is reported under a class of its own (pair-whose-squared-lengths-product-overflows/underflows-not-mapped-onto-to); non-trivial: pair not parallel";
    rep.section("rotation_from_to_3d float tier f64: both lengths 2^+-400 (the product of the squared lengths leaves the f64 range)", rule_x, true, false, |s| {
        s.require_classes(&["|from|^2 |to|^2 overflows", "|from|^2 |to|^2 underflows"]);
        float_from_to_scaled!(s, f64, vec![(400, 400), (-400, -400), (260, 260), (-260, -260)], 1) });
    rep.section("rotation_from_to_3d float tier f32: both lengths 2^+-40 (the product of the squared lengths leaves the f32 range)", rule_x, true, false, |s| {
        s.require_classes(&["|from|^2 |to|^2 overflows", "|from|^2 |to|^2 underflows"]);
        float_from_to_scaled!(s, f32, vec![(40, 40), (-40, -40), (33, 33), (-33, -33)], 1) });
}

// ---- into_angle_axis: small angles, angles next to +-2pi, negated quaternions, +-identity ------------
macro_rules! float_angle_axis_more { ($s:expr, $T:ty, $minexp:expr) => {{
    let s: &Section = $s;
    s.require_classes(&["small angle (1-w^2 < 1/64)", "angle next to +-2pi (w near -1, 1-w^2 < 1/64)", "negated quaternion -q", "+-identity or vector part below epsilon (axis arbitrary)"]);
    let eps = <$T as Fl>::EPS; let tf = |v: f64| <$T as Fl>::f(v);
    let name = <$T as Fl>::NAME;
    let site = format!("Quaternion::into_angle_axis<{}>", name);
    let smin = p2(-$minexp);
    let dirs = int_dirs(if s.thorough() { 2 } else { 1 });
    let two_pi = 2.0 * std::f64::consts::PI;
    let mut cl: BTreeMap<&'static str, u64> = BTreeMap::new();
    let mut cases: Vec<(Q4<$T>, &'static str, Value, u64)> = Vec::new();
    for j in 1..=($minexp / 2 + 2) { for sg in [1.0, -1.0] { for far in [false, true] { for m in [1.0, 1.5] {
        let theta = sg * if far { two_pi - m * p2(-j) } else { m * p2(-j) };
        for d in &dirs {
            let n = ((d[0] * d[0] + d[1] * d[1] + d[2] * d[2]) as f64).sqrt();
            let (sh, ch) = ((theta / 2.0).sin(), (theta / 2.0).cos());
            let qt: Q4<$T> = [tf(d[0] as f64 / n * sh), tf(d[1] as f64 / n * sh), tf(d[2] as f64 / n * sh), tf(ch)];
            let s2 = 1.0 - qt[3].d() * qt[3].d();
            if s2 >= 1.0 / 64.0 || s2 < smin { continue; }
            cases.push((qt, if far { "angle next to +-2pi (w near -1, 1-w^2 < 1/64)" } else { "small angle (1-w^2 < 1/64)" }, json!({"theta": theta, "axis_direction": d}), j as u64 + wsum(d)));
        }
    } } } }
    // negated quaternions over a coarse grid of ordinary angles: -q describes the same rotation as q
    for ai in 0..(if s.thorough() { 64 } else { 16 }) { let theta = -3.1 + (ai as f64 + 0.5) * 6.2 / (if s.thorough() { 64.0 } else { 16.0 });
        for d in &dirs {
            let n = ((d[0] * d[0] + d[1] * d[1] + d[2] * d[2]) as f64).sqrt();
            let (sh, ch) = ((theta / 2.0).sin(), (theta / 2.0).cos());
            let qt: Q4<$T> = [-tf(d[0] as f64 / n * sh), -tf(d[1] as f64 / n * sh), -tf(d[2] as f64 / n * sh), -tf(ch)];
            let s2 = 1.0 - qt[3].d() * qt[3].d();
            if s2 < 1.0 / 64.0 { continue; }
            cases.push((qt, "negated quaternion -q", json!({"theta of q": theta, "axis_direction": d, "input": "-q"}), 100 + ai as u64 + wsum(d)));
        } }
    for qt in [[0.0, 0.0, 0.0, 1.0], [0.0, 0.0, 0.0, -1.0], [eps / 4.0, 0.0, 0.0, 1.0], [0.0, -eps / 4.0, eps / 8.0, -1.0]] {
        cases.push(([tf(qt[0]), tf(qt[1]), tf(qt[2]), tf(qt[3])], "+-identity or vector part below epsilon (axis arbitrary)", json!({"literal": qt}), 0));
    }
    s.meta("cases", json!(cases.len())); s.meta("smallest 1-w^2 evaluated", json!(smin));
    for (qt, class, tag, weight) in &cases {
        let qf: Q4<f64> = [qt[0].d(), qt[1].d(), qt[2].d(), qt[3].d()];
        let s2 = 1.0 - qf[3] * qf[3];
        *cl.entry(class).or_insert(0) += 1;
        s.eval(true);
        let inp = || json!({"q_xyzw": qf, "built_from": tag});
        if let Some((ang, ax)) = s.call(&site, inp, || { let (a, v) = mkq(qt).into_angle_axis(); (a.d(), [v.x.d(), v.y.d(), v.z.d()]) }) {
            let want = ref_q2m(&qf);
            let got = rodrigues_f(&ax, ang.cos(), ang.sin());
            // same derived bound as the tier above (cancellation in s = sqrt(1 - w^2)); for the +-identity family the rotation is the identity up to 2 eps and the axis is arbitrary but unit
            let tol = if *class == "+-identity or vector part below epsilon (axis arbitrary)" { vx::fl::K * eps } else { vx::fl::K * eps * 2.0 / s2 };
            let worst = (0..3).flat_map(|i| (0..3).map(move |j| (i, j))).map(|(i, j)| (got[i][j] - want[i][j]).abs()).fold(0.0, f64::max);
            let alen = dotn(&ax, &ax).sqrt();
            if !(worst <= tol) { viol(s, &site, "angle-axis-describe-a-different-rotation-within-error-bound", || json!({"input": inp(), "angle": ang, "axis": ax, "worst_matrix_entry_error": worst, "tolerance": tol}), *weight); }
            if !((alen - 1.0).abs() <= tol) { viol(s, &site, "axis-not-unit-within-error-bound", || json!({"input": inp(), "angle": ang, "axis": ax, "axis_length": alen, "tolerance": tol}), *weight); }
            if s.wants_sample() && *class == "small angle (1-w^2 < 1/64)" && s2 < 1e-3 && qf[0] != 0.0 && qf[1] != 0.0 { s.sample(json!({"input": inp(), "real_angle": ang, "real_axis": ax, "tolerance": tol})); }
        }
    }
    for (k, n) in cl { s.class_n(k, n); }
}} }

fn sections_angle_axis_more(rep: &Report, th: bool) {
    rep.section("into_angle_axis exact: small rotation angles and the quaternion -1",
        "angles theta = 2 k arg(z) with z the rational circle point of parameter t in {1/50, 1/1000} (k in {1,-1}; for t = 1/50 also k in {2,-2}): sin(theta/2) down to 0.002, i.e. 1000 times closer to the identity than the exact section above, but still 2^40 times the code's epsilon test on s = sqrt(1 - w^2), so the real axis must be returned (a widened guard answers unit_x); axes: every 8th rational unit vector (thorough every 2nd); inputs: the reference quaternion by struct literal and the real rotation_3d(theta, 3*axis); plus the literal quaternion (0,0,0,-1) (angle 2 pi, axis arbitrary but unit).  Verdict as above: |axis|^2 = 1 and Rodrigues(axis, cos angle, sin angle) == the reference matrix of the quaternion; non-trivial: all", true, false, |s| {
        s.require_classes(&["sin(theta/2) < 1/20", "sin(theta/2) < 1/400", "q = (0,0,0,-1)"]);
        let axes: Vec<[X; 3]> = unit_axes().into_iter().enumerate().filter(|(i, _)| i % (if th { 2 } else { 8 }) == 0).map(|(_, a)| a).collect();
        let site = "Quaternion::into_angle_axis";
        let verdict = |qd: Q4<X>, how: String, cls: &'static str, w: u64| {
            s.eval(true); s.class(cls);
            let inp = || json!({"q_xyzw": jxs(&qd), "built_by": how});
            let Some((ang, axis)) = s.call(site, inp, || { let (a, v) = mkq(&qd).into_angle_axis(); (a, dv3(&v)) }) else { return };
            let Some((sa, ca)) = s.call(site, inp, || ang.sin_cos_q()) else { return };
            guarded(s, || {
                if dotn(&axis, &axis) != ONE { viol(s, site, "axis-not-unit", || json!({"input": inp(), "angle": jx(ang), "axis": jxs(&axis)}), w); }
                let got = rodrigues(&axis, X::R(ca), X::R(sa));
                if got != ref_q2m(&qd) { viol(s, site, "angle-axis-describe-a-different-rotation", || json!({"input": inp(), "angle": jx(ang), "angle_radians~": ang.shadow(), "axis": jxs(&axis), "rotation(angle, axis)": jmat(&got), "rotation of q": jmat(&ref_q2m(&qd))}), w); }
                if s.wants_sample() && cls == "sin(theta/2) < 1/400" && axis[0] != Z && axis[1] != Z { s.sample(json!({"input": inp(), "real_angle": jx(ang), "real_angle_radians~": ang.shadow(), "real_axis": jxs(&axis)})); }
            });
        };
        for (tn, td, ks) in [(1i128, 50i128, vec![1i128, -1, 2, -2]), (1, 1000, vec![1, -1])] {
            let b = angle_base_t(tn, td);
            for k2 in ks {
                let (theta, half) = (X::tok(b, 2 * k2), X::tok(b, k2));
                let (sh, ch) = half.sin_cos_q();
                clear_inverse(); register_inverse(if sh.n >= 0 { half } else { X::tok(b, -k2) });
                let cls = if td == 1000 { "sin(theta/2) < 1/400" } else { "sin(theta/2) < 1/20" };
                for ax in &axes {
                    let qref: Q4<X> = [ax[0] * X::R(sh), ax[1] * X::R(sh), ax[2] * X::R(sh), X::R(ch)];
                    verdict(qref, format!("struct literal (axis sin(theta/2), cos(theta/2)), t = {}/{}, k = {}", tn, td, k2), cls, k2.unsigned_abs() as u64 + wx(ax));
                    let given = scl3(ax, qi(3));
                    if let Some(qd) = s.call("Quaternion::rotation_3d", || json!({"theta": jx(theta), "axis": jxs(&given)}), || dq(Quaternion::rotation_3d(theta, v3(&given)))) {
                        verdict(qd, format!("Quaternion::rotation_3d(theta, 3*axis), t = {}/{}, k = {}", tn, td, k2), cls, k2.unsigned_abs() as u64 + wx(ax) + 1);
                    }
                }
            }
        }
        clear_inverse(); register_inverse(X::pi());
        verdict([Z, Z, Z, -ONE], "literal (0,0,0,-1)".to_string(), "q = (0,0,0,-1)", 0);
        clear_inverse();
        s.meta("axes", json!(axes.len()));
    });
    let rule = "quaternions q = (axis/|axis| sin(theta/2), cos(theta/2)) computed in f64 and rounded to the type, axes the integer directions of {-1,0,1}^3 (thorough {-2..2}^3): (a) theta = +-m 2^-j and +-(2 pi - m 2^-j), m in {1, 1.5}, kept when 2^-E <= 1 - w^2 < 1/64 with E = 24 (f64) / 8 (f32) - the range the tier above skips; the bound 256 eps 2/(1-w^2) derived there is still far below the effect of a wrong axis (2 sin(theta/2)) in this range, so a widened `s < epsilon` guard is visible; (b) the negation -q of ordinary rotation quaternions (16, thorough 64 angles in (-3.1, 3.1)): -q is the same rotation, so angle and axis must describe the rotation of q (w < 0 inputs that do not come from a large angle); (c) (0,0,0,1), (0,0,0,-1) and quaternions whose vector part is below epsilon: the axis is arbitrary but must be unit, the rotation the identity within 256 eps; non-trivial: all";
    rep.section("into_angle_axis float tier f64: small angles, angles next to 2 pi, negated quaternions, +-identity", rule, true, false, |s| float_angle_axis_more!(s, f64, 24));
    rep.section("into_angle_axis float tier f32: small angles, angles next to 2 pi, negated quaternions, +-identity", rule, true, false, |s| float_angle_axis_more!(s, f32, 8));
}

// ====================================================================================================
// Second strengthening round (out/AUDIT2.md): alphabets around the special values of every function in scope -
// pairs next to parallel and next to opposite (just above the 180-degree threshold), nearly unit lengths and nearly
// unit quaternions, quaternions next to the identity (vector part below epsilon), single-lane quaternions (w/w = 1),
// squared norms in the subnormal range, rotation angles down to the guard of into_angle_axis.  Nothing above changed.
// ====================================================================================================
/// the reference product on absolute values with every table sign taken as +: sum of |terms| of each output component
fn ham_abs(p: &Q4<f64>, q: &Q4<f64>) -> Q4<f64> { let mut o = [0.0; 4]; for a in 0..4 { for b in 0..4 { let (_, k) = TABLE[a][b]; o[k] += p[a].abs() * q[b].abs(); } } o }
/// majorant of q (v,0) q*: the sum of the absolute values of all monomials q_a q_b v_c that enter each component along the sandwich
fn rot_majorant(q: &Q4<f64>, v: &[f64; 3]) -> [f64; 3] { let s = ham_abs(&ham_abs(q, &[v[0], v[1], v[2], 0.0]), q); [s[0], s[1], s[2]] }
/// entrywise majorant of the textbook matrix of a quaternion (1 - 2y^2 - 2z^2, 2xy -+ 2zw, ...): sum of the absolute values of its terms
fn q2m_majorant(q: &Q4<f64>) -> A<f64, 3> {
    let [x, y, z, w] = [q[0].abs(), q[1].abs(), q[2].abs(), q[3].abs()];
    [[1.0 + 2.0 * (y * y + z * z), 2.0 * (x * y + z * w), 2.0 * (x * z + y * w)], [2.0 * (x * y + z * w), 1.0 + 2.0 * (x * x + z * z), 2.0 * (y * z + x * w)], [2.0 * (x * z + y * w), 2.0 * (y * z + x * w), 1.0 + 2.0 * (x * x + y * y)]]
}
/// componentwise |got_i - want_i| <= tol_i, NaN never passes
fn within_c(got: &[f64], want: &[f64], tol: &[f64]) -> bool { got.iter().zip(want).zip(tol).all(|((g, w), t)| (g - w).abs() <= *t) }
fn d3<T: Fl>(a: &[T; 3]) -> [f64; 3] { [a[0].d(), a[1].d(), a[2].d()] }
fn d4<T: Fl>(a: &[T; 4]) -> [f64; 4] { [a[0].d(), a[1].d(), a[2].d(), a[3].d()] }

// ---- float: rotation_from_to_3d next to parallel, next to opposite, nearly unit lengths ----------------
macro_rules! float_from_to_narrow { ($s:expr, $T:ty, $jmax:expr, $ua:expr, $ub:expr) => {{
    let s: &Section = $s;
    s.require_classes(&["nearly parallel (not exactly)", "nearly opposite, 1+cos >= 64 eps (general branch required)", "nearly opposite, 1+cos < 64 eps (either branch)", "perturbation rounded away: exactly parallel", "perturbation rounded away: exactly opposite", "nearly unit lengths"]);
    let tf = |v: f64| <$T as Fl>::f(v);
    let eps = <$T as Fl>::EPS;
    let name = <$T as Fl>::NAME;
    let frames: [([i64; 3], [i64; 3]); 8] = [([1, 0, 0], [0, 1, 0]), ([0, 1, 0], [0, 0, -1]), ([0, 0, -1], [1, 0, 0]), ([1, 2, 2], [2, 1, -2]), ([-3, 4, 0], [0, 0, 5]), ([1, 1, 1], [1, -1, 0]), ([0, -2, 1], [3, 0, 0]), ([2, -1, 2], [1, 2, 0])];
    let lens: [(f64, f64); 3] = [(1.0, 1.0), (3.0, 0.5), (p2(-20), p2(10))];
    // (family, from, to, tag, weight)
    let mut cases: Vec<(u8, [$T; 3], [$T; 3], Value, u64)> = Vec::new();
    for (fi, (d, e)) in frames.iter().enumerate() { for j in 1..=($jmax as i32) { for m in [1.0, -1.5] { for anti in [false, true] { for (li, &(la, mu)) in lens.iter().enumerate() {
        let sg: $T = if anti { tf(-1.0) } else { tf(1.0) };
        let pert = |i: usize| tf(d[i] as f64) + tf(m * p2(-j)) * tf(e[i] as f64);
        let from = [tf(la) * tf(d[0] as f64), tf(la) * tf(d[1] as f64), tf(la) * tf(d[2] as f64)];
        let to = [tf(mu) * (sg * pert(0)), tf(mu) * (sg * pert(1)), tf(mu) * (sg * pert(2))];
        cases.push((if anti { 1 } else { 0 }, from, to, json!({"from = l*d, to = (+-)mu*(d + m 2^-j e), d.e = 0": {"d": d, "e": e, "m": m, "j": j, "sign": if anti { -1 } else { 1 }, "l": la, "mu": mu}}), j as u64 + 100 * fi as u64 + li as u64));
    } } } } }
    let n_sweep = cases.len();
    let (ua, ub): (f64, f64) = (1.0 + p2(-$ua), 1.0 - p2(-$ub));
    let dirs = int_dirs(1);
    for d1 in &dirs { for d2 in &dirs {
        let (n1, n2) = ((wsum(d1) as f64).sqrt(), (wsum(d2) as f64).sqrt());   // components are 0, +-1: sum of |.| = squared length
        let from = [tf(d1[0] as f64 / n1) * tf(ua), tf(d1[1] as f64 / n1) * tf(ua), tf(d1[2] as f64 / n1) * tf(ua)];
        let to = [tf(d2[0] as f64 / n2) * tf(ub), tf(d2[1] as f64 / n2) * tf(ub), tf(d2[2] as f64 / n2) * tf(ub)];
        cases.push((2, from, to, json!({"from = fl(d1/|d1|)*(1+2^-a), to = fl(d2/|d2|)*(1-2^-b)": {"d1": d1, "d2": d2, "a": $ua, "b": $ub}}), 1000 + wsum(d1) + wsum(d2)));
    } }
    s.meta("cases", json!({"sweep": n_sweep, "nearly unit lengths": cases.len() - n_sweep})); s.meta("j_max", json!($jmax));
    let mut cl: BTreeMap<&'static str, u64> = BTreeMap::new();
    for (fam, from, to, tag, weight) in &cases {
        let (fam, from, to, weight) = (*fam, *from, *to, *weight);
        let (f, t) = (d3(&from), d3(&to));
        let (collinear, positive) = exact_collinear(&f, &t);
        let (nf, ntt) = (dotn(&f, &f).sqrt(), dotn(&t, &t).sqrt());
        let want = [t[0] / ntt * nf, t[1] / ntt * nf, t[2] / ntt * nf];
        // 1 + cos = |f/|f| + t/|t||^2 / 2: no cancellation beyond the one inside the sum of the two unit vectors (absolute error 2 eps64 there)
        let sm = [f[0] / nf + t[0] / ntt, f[1] / nf + t[1] / ntt, f[2] / nf + t[2] / ntt];
        let c = dotn(&sm, &sm) / 2.0;
        let anti = collinear && !positive;
        // exactly opposite: 256 eps |from|; otherwise the half-angle bound 256 eps |from| / cos(theta/2), capped by the derived cap of the
        // float tier above (8 sqrt(eps) |from|: whichever branch an implementation with a 180-degree threshold <= 16 eps takes)
        let tol = if anti { vx::fl::K * eps * nf } else { nf * (vx::fl::K * eps / (c / 2.0).sqrt()).min(8.0 * eps.sqrt()) };
        let class = if fam == 2 { "nearly unit lengths" } else if collinear && positive { "perturbation rounded away: exactly parallel" } else if anti { "perturbation rounded away: exactly opposite" }
            else if fam == 0 { "nearly parallel (not exactly)" } else if c >= 64.0 * eps { "nearly opposite, 1+cos >= 64 eps (general branch required)" } else { "nearly opposite, 1+cos < 64 eps (either branch)" };
        *cl.entry(class).or_insert(0) += 1;
        let cls = if fam == 2 { "nearly-unit-length-pair-not-mapped-onto-to-within-error-bound" } else if anti { "opposite-pair-not-mapped-onto-to-within-error-bound" } else if fam == 0 { "narrow-angle-pair-not-mapped-onto-to-within-error-bound" }
            else if c >= 64.0 * eps { "nearly-opposite-pair-above-the-180-degree-threshold-not-mapped-onto-to-within-error-bound" } else { "nearly-opposite-pair-not-mapped-onto-to-within-sqrt-eps" };
        let inp = || json!({"from": f, "to": t, "construction": tag, "exactly_collinear": collinear, "1+cos": c});
        s.eval(!(collinear && positive));
        let site = format!("Quaternion::rotation_from_to_3d<{}>", name);
        if let Some((qd, r)) = s.call(&site, inp, || { let q = Quaternion::<$T>::rotation_from_to_3d(v3(&from), v3(&to)); (dq(q), dv3(&(q * v3(&from)))) }) {
            let (qf, rf) = (d4(&qd), d3(&r));
            if !((norm2(&qf) - 1.0).abs() <= vx::fl::K * eps) { viol(s, &site, "not-a-unit-quaternion-within-error-bound", || json!({"input": inp(), "got_xyzw": qf, "norm_squared": norm2(&qf)}), weight); }
            if !within(&rf, &want, tol) { viol(s, &site, cls, || json!({"input": inp(), "got_xyzw": qf.map(|v| format!("{:e}", v)), "real q*from": rf.map(|v| format!("{:e}", v)), "want": want, "tolerance": tol}), weight); }
            if s.wants_sample() && fam == 1 && !collinear && c < 1e-4 && c >= 64.0 * eps && from[1] != tf(0.0) { s.sample(json!({"input": inp(), "real_quaternion_xyzw": qf, "real q*from": rf, "oracle": want, "tolerance": tol})); }
        }
        macro_rules! mat { ($M:ty, $N:expr) => {{
            let site = format!("{}::rotation_from_to_3d<{}>", <$M as QM<$T, $N>>::NAME, name);
            s.eval(!(collinear && positive));
            if let Some((m, mv)) = s.call(&site, inp, || { let m = <$M as QR<$T, $N>>::t_from_to(from, to); (m.decode(), m.t_mulv(pad::<$T, $N>(&from, tf(0.0)))) }) {
                let mut by_fields = [0.0f64; 3]; for i in 0..3 { for j in 0..3 { by_fields[i] += m[i][j].d() * f[j]; } }
                let mvf: Vec<f64> = mv.iter().map(|v| v.d()).collect();
                let ok = within(&mvf[..3], &want, tol) && within(&by_fields, &want, tol) && ($N == 3 || mvf[$N - 1] == 0.0);
                if !ok { viol(s, &site, cls, || json!({"input": inp(), "real M*from": mvf.iter().map(|v| format!("{:e}", v)).collect::<Vec<_>>(), "fields*from": by_fields.map(|v| format!("{:e}", v)), "want": want, "tolerance": tol}), weight); }
            }
        }} }
        mat!(rm::Mat3<$T>, 3); mat!(cm::Mat3<$T>, 3); mat!(rm::Mat4<$T>, 4); mat!(cm::Mat4<$T>, 4);
    }
    for (k, n) in cl { s.class_n(k, n); }
}} }

// ---- float: quaternions next to the identity applied to vectors, componentwise ---------------------------
macro_rules! float_apply_tiny { ($s:expr, $T:ty, $ks:expr) => {{
    let s: &Section = $s;
    s.require_classes(&["w=+1", "w=-1", "single-lane vector part", "multi-lane vector part", "axis-aligned vector", "general vector", "Vec4 w=0"]);
    let tf = |v: f64| <$T as Fl>::f(v);
    let eps = <$T as Fl>::EPS;
    let name = <$T as Fl>::NAME;
    let kf = vx::fl::K;
    let floor = kf * <$T as FlX>::MINPOS * eps;   // one unit of the subnormal grid per operation (underflow of a product inside a sum)
    let lanes: [[f64; 3]; 7] = [[1.0, 0.0, 0.0], [0.0, 1.0, 0.0], [0.0, 0.0, 1.0], [-1.0, 0.0, 0.0], [1.0, -2.0, 0.0], [0.0, 3.0, -1.0], [2.0, 1.0, -3.0]];
    let vs: [[f64; 3]; 8] = [[1.0, 0.0, 0.0], [0.0, 1.0, 0.0], [0.0, 0.0, 1.0], [-1.0, 0.0, 0.0], [0.0, -1.0, 0.0], [0.0, 0.0, -1.0], [1.0, 2.0, 3.0], [-2.0, 0.5, 5.0]];
    let ks: Vec<i32> = $ks;
    s.meta("vector part = lane * 2^-k, k in", json!(ks)); s.meta("lanes", json!(lanes)); s.meta("vectors", json!(vs));
    let mut cl: BTreeMap<&'static str, u64> = BTreeMap::new();
    let mut idx = 0usize;
    for &k in &ks { for (li, lane) in lanes.iter().enumerate() { for w0 in [1.0, -1.0] { for (vi, v0) in vs.iter().enumerate() { for vk in [0, -20] {
        idx += 1;
        let x = tf(p2(-k));
        let qt: Q4<$T> = [tf(lane[0]) * x, tf(lane[1]) * x, tf(lane[2]) * x, tf(w0)];
        let v: [$T; 3] = [tf(v0[0]) * tf(p2(vk)), tf(v0[1]) * tf(p2(vk)), tf(v0[2]) * tf(p2(vk))];
        let w4: $T = [tf(0.0), tf(1.0), tf(-7.0)][idx % 3];
        let v4a: [$T; 4] = [v[0], v[1], v[2], w4];
        let (qf, vf) = (d4(&qt), d3(&v));
        let nu = norm2(&qf);
        let r = rot(&qf, &vf); let want = [r[0] / nu, r[1] / nu, r[2] / nu];
        let maj = rot_majorant(&qf, &vf);
        let tol = [kf * eps * maj[0] + floor, kf * eps * maj[1] + floor, kf * eps * maj[2] + floor];
        let mm = q2m_majorant(&qf);
        let tolm: Vec<f64> = (0..3).map(|i| kf * eps * (0..3).map(|j| mm[i][j] * vf[j].abs()).sum::<f64>() + floor).collect();
        s.eval(true);
        *cl.entry(if w0 > 0.0 { "w=+1" } else { "w=-1" }).or_insert(0) += 1;
        *cl.entry(if li < 4 { "single-lane vector part" } else { "multi-lane vector part" }).or_insert(0) += 1;
        *cl.entry(if vi < 6 { "axis-aligned vector" } else { "general vector" }).or_insert(0) += 1;
        if w4 == tf(0.0) { *cl.entry("Vec4 w=0").or_insert(0) += 1; }
        let inp = || json!({"q_xyzw": qf.map(|v| format!("{:e}", v)), "q = (lane * 2^-k, w)": {"lane": lane, "k": k, "w": w0}, "v": vf, "w_of_vec4": w4.d()});
        let wt = k.unsigned_abs() as u64 + li as u64 + vi as u64;
        let Some((g3, g4)) = s.call(&format!("Quaternion * Vec3<{}>", name), inp, || (dv3(&(mkq(&qt) * v3(&v))), dv4(&(mkq(&qt) * v4(&v4a))))) else { continue };
        let (g3f, g4f) = (d3(&g3), d4(&g4));
        if !within_c(&g3f, &want, &tol) { viol(s, &format!("Quaternion * Vec3<{}>", name), "quaternion-next-to-the-identity: component-outside-the-componentwise-error-bound", || json!({"input": inp(), "got": g3f.map(|v| format!("{:e}", v)), "want": want.map(|v| format!("{:e}", v)), "tolerance": tol}), wt); }
        if !(g4[3] == w4) { viol(s, &format!("Quaternion * Vec4<{}>", name), "w-not-preserved", || json!({"input": inp(), "got": g4f}), wt); }
        if !within_c(&g4f[..3], &want, &tol) { viol(s, &format!("Quaternion * Vec4<{}>", name), "quaternion-next-to-the-identity: component-outside-the-componentwise-error-bound", || json!({"input": inp(), "got": g4f.map(|v| format!("{:e}", v)), "want_xyz": want.map(|v| format!("{:e}", v)), "tolerance": tol}), wt); }
        macro_rules! mat { ($M:ty, $N:expr) => {{
            let site = format!("{}::from(Quaternion) * Vec{}<{}>", <$M as QM<$T, $N>>::NAME, $N, name);
            let vin: [$T; $N] = { let mut t = [w4; $N]; for i in 0..3 { t[i] = v[i]; } t };
            if let Some((m, mv)) = s.call(&site, inp, || { let m = <$M as QM<$T, $N>>::t_from_q(mkq(&qt)); (m.decode(), m.t_mulv(vin)) }) {
                let mvf: Vec<f64> = mv.iter().map(|x| x.d()).collect();
                let mut by_fields = [0.0f64; 3]; for i in 0..3 { for j in 0..3 { by_fields[i] += m[i][j].d() * vf[j]; } }
                let ok = within_c(&mvf[..3], &want, &tolm) && within_c(&by_fields, &want, &tolm) && ($N == 3 || mv[$N - 1] == w4);
                if !ok { viol(s, &site, "quaternion-next-to-the-identity: component-outside-the-componentwise-error-bound", || json!({"input": inp(), "real M*v": mvf.iter().map(|v| format!("{:e}", v)).collect::<Vec<_>>(), "decoded fields * v": by_fields.map(|v| format!("{:e}", v)), "true rotation": want.map(|v| format!("{:e}", v)), "tolerance": tolm}), wt); }
            }
        }} }
        mat!(rm::Mat3<$T>, 3); mat!(cm::Mat3<$T>, 3); mat!(rm::Mat4<$T>, 4); mat!(cm::Mat4<$T>, 4);
        if s.wants_sample() && li == 4 && vi == 1 && vk == 0 { s.sample(json!({"input": inp(), "real q*Vec3": g3f.map(|v| format!("{:e}", v)), "oracle": want.map(|v| format!("{:e}", v)), "componentwise tolerance": tol})); }
    } } } } }
    for (k, n) in cl { s.class_n(k, n); }
}} }

// ---- float: nearly unit quaternions, single-lane quaternions, squared norms in the subnormal range ----------
macro_rules! float_algebra_special { ($s:expr, $T:ty, $jmax:expr, $ksub:expr) => {{
    let s: &Section = $s;
    s.require_classes(&["nearly unit", "single lane", "squared norm subnormal"]);
    let tf = |v: f64| <$T as Fl>::f(v);
    let eps = <$T as Fl>::EPS;
    let name = <$T as Fl>::NAME;
    let kf = vx::fl::K;
    let one = [0.0, 0.0, 0.0, 1.0];
    // (a) nearly unit
    let q0s: [[f64; 4]; 5] = [[0.0, 0.0, 0.0, 1.0], [0.0, -1.0, 0.0, 0.0], [0.6, 0.8, 0.0, 0.0], [0.2, 0.4, 0.4, 0.8], [-2.0 / 7.0, 3.0 / 7.0, 0.0, 6.0 / 7.0]];
    for (qi_, q0) in q0s.iter().enumerate() { for j in 2..=($jmax as i32) { for sg in [1.0, -1.0] {
        let l = tf(1.0 + sg * p2(-j));
        let p: Q4<$T> = [tf(q0[0]) * l, tf(q0[1]) * l, tf(q0[2]) * l, tf(q0[3]) * l];
        let pf = d4(&p);
        let want = alg_want(&pf, &pf);
        s.eval(true); s.class("nearly unit");
        let inp = || json!({"q_xyzw": pf, "q = fl(q0) * (1 +- 2^-j)": {"q0": q0, "j": j, "sign": sg}, "|q|^2 - 1": want.mag2 - 1.0});
        let wt = j as u64 + qi_ as u64;
        let Some((inv, li, ri, mag, nrm)) = s.call(&format!("Quaternion algebra<{}>", name), inp, || { let pp = mkq(&p); let i = pp.inverse(); (dq(i), dq(pp * i), dq(i * pp), pp.magnitude(), dq(pp.normalized())) }) else { continue };
        if !within(&d4(&inv), &want.inv, kf * eps * amax(&want.inv)) { viol(s, &format!("Quaternion::inverse<{}>", name), "nearly-unit: not-conjugate-over-squared-norm-within-error-bound", || json!({"input": inp(), "got": d4(&inv), "want": want.inv}), wt); }
        if !within(&d4(&li), &one, kf * eps) || !within(&d4(&ri), &one, kf * eps) { viol(s, &format!("Quaternion::inverse<{}>", name), "nearly-unit: q*inverse(q)-or-inverse(q)*q-is-not-1-within-error-bound", || json!({"input": inp(), "q*inverse(q)": d4(&li), "inverse(q)*q": d4(&ri)}), wt); }
        if !within(&[mag.d()], &[want.mag], kf * eps * want.mag) { viol(s, &format!("Quaternion::magnitude<{}>", name), "nearly-unit: not-the-euclidean-norm-within-error-bound", || json!({"input": inp(), "got": mag.d(), "want": want.mag}), wt); }
        let nf = d4(&nrm);
        if !within(&nf, &want.nrm, kf * eps) || !((norm2(&nf) - 1.0).abs() <= kf * eps) { viol(s, &format!("Quaternion::normalized<{}>", name), "nearly-unit: not-q-over-its-norm-within-error-bound", || json!({"input": inp(), "got": nf, "want": want.nrm, "|got|^2 - 1": norm2(&nf) - 1.0}), wt); }
        if s.wants_sample() && qi_ == 3 && j == 20 { s.sample(json!({"input": inp(), "real normalized": nf, "real inverse": d4(&inv)})); }
    } } }
    // (b) single lane: sqrt(fl(v*v)) = |v| in binary floating point (no overflow/underflow), hence magnitude = |v| and v/|v| = +-1 exactly
    let mut vals: Vec<f64> = (0..50).map(|i| (2 * i + 1) as f64).collect();
    vals.extend_from_slice(&[0.1, 1e-3, 1.0 / 3.0, 0.7, 1.0 + p2(-20), 1.0 - p2(-21), 123456.789]);
    for lane in 0..4 { for v0 in &vals { for sg in [1.0, -1.0] { for k in [0, -30, 30] {
        let v = tf(sg * v0) * tf(p2(k));
        let mut p: Q4<$T> = [tf(0.0); 4]; p[lane] = v;
        let mut want = [0.0; 4]; want[lane] = sg;
        s.eval(true); s.class("single lane");
        let inp = || json!({"q_xyzw": d4(&p), "lane": lane});
        let Some((mag, nrm)) = s.call(&format!("Quaternion::normalized<{}>", name), inp, || { let pp = mkq(&p); (pp.magnitude(), dq(pp.normalized())) }) else { continue };
        if !(mag.d() == v.d().abs()) { viol(s, &format!("Quaternion::magnitude<{}>", name), "single-lane: magnitude-is-not-exactly-the-absolute-value", || json!({"input": inp(), "got": mag.d()}), *v0 as u64); }
        if d4(&nrm) != want { viol(s, &format!("Quaternion::normalized<{}>", name), "single-lane: v/|v|-is-not-exactly-+-1", || json!({"input": inp(), "got": d4(&nrm).map(|v| format!("{:e}", v)), "want": want}), *v0 as u64); }
    } } } }
    // (c) squared norm in the subnormal range (exactly representable there), inverse and normalized representable
    let ksub: i32 = $ksub;
    for a in box4(1) { if wsum(&a) == 0 { continue; }
        let sc = tf(p2(-ksub));
        let p: Q4<$T> = [tf(a[0] as f64) * sc, tf(a[1] as f64) * sc, tf(a[2] as f64) * sc, tf(a[3] as f64) * sc];
        let af: Q4<f64> = [a[0] as f64, a[1] as f64, a[2] as f64, a[3] as f64];
        let n2 = norm2(&af); let c = conj(&af);
        let want_inv = [c[0] / n2, c[1] / n2, c[2] / n2, c[3] / n2];
        let want_nrm = [af[0] / n2.sqrt(), af[1] / n2.sqrt(), af[2] / n2.sqrt(), af[3] / n2.sqrt()];
        s.eval(true); s.class("squared norm subnormal");
        let inp = || json!({"q_xyzw": d4(&p).map(|v| format!("{:e}", v)), "q = a * 2^-k": {"a": a, "k": ksub}, "|q|^2 in the type": format!("{:e}", (mkq(&p).magnitude_squared()).d())});
        let Some((m2, inv, li, ri, nrm)) = s.call(&format!("Quaternion algebra<{}>", name), inp, || { let pp = mkq(&p); let i = pp.inverse(); (pp.magnitude_squared(), dq(i), dq(pp * i), dq(i * pp), dq(pp.normalized())) }) else { continue };
        // the premise of the policy: the squared length itself is representable (here: exactly)
        if !(m2.d() == n2 * p2(-ksub) * p2(-ksub)) { s.rep.machinery_error(format!("squared norm not exactly representable for {:?} * 2^-{} in {}", a, ksub, name)); continue; }
        let g: Q4<f64> = { let i = d4(&inv); [i[0] * p2(-ksub), i[1] * p2(-ksub), i[2] * p2(-ksub), i[3] * p2(-ksub)] };
        if !within(&g, &want_inv, kf * eps * amax(&want_inv)) { viol(s, &format!("Quaternion::inverse<{}>", name), "subnormal-squared-norm: not-conjugate-over-squared-norm-within-error-bound", || json!({"input": inp(), "got * 2^-k": g, "want": want_inv}), wsum(&a)); }
        if !within(&d4(&li), &one, kf * eps) || !within(&d4(&ri), &one, kf * eps) { viol(s, &format!("Quaternion::inverse<{}>", name), "subnormal-squared-norm: q*inverse(q)-or-inverse(q)*q-is-not-1-within-error-bound", || json!({"input": inp(), "q*inverse(q)": d4(&li), "inverse(q)*q": d4(&ri)}), wsum(&a)); }
        if !within(&d4(&nrm), &want_nrm, kf * eps) { viol(s, &format!("Quaternion::normalized<{}>", name), "subnormal-squared-norm: not-q-over-its-norm-within-error-bound", || json!({"input": inp(), "got": d4(&nrm), "want": want_nrm}), wsum(&a)); }
        if s.wants_sample() && a == [1, -1, 0, 1] { s.sample(json!({"input": inp(), "real inverse": d4(&inv).map(|v| format!("{:e}", v)), "real normalized": d4(&nrm)})); }
    }
    s.meta("single_lane_values", json!(vals.len())); s.meta("subnormal_scale_exponent", json!(-ksub));
}} }

// ---- float: into_angle_axis from 1/64 down to the code's own guard -------------------------------------------
macro_rules! float_angle_axis_small { ($s:expr, $T:ty, $jmax:expr) => {{
    let s: &Section = $s;
    s.require_classes(&["small angle, eps <= 1-w^2 < 1/64", "angle next to +-2pi, eps <= 1-w^2 < 1/64", "not asserted: 1-w^2 < eps (the code's own guard region: w*w may round to 1)"]);
    let eps = <$T as Fl>::EPS; let tf = |v: f64| <$T as Fl>::f(v);
    let name = <$T as Fl>::NAME;
    let site = format!("Quaternion::into_angle_axis<{}>", name);
    let dirs = int_dirs(1);
    let pi = std::f64::consts::PI;
    let mut cl: BTreeMap<&'static str, u64> = BTreeMap::new();
    let mut smin = f64::INFINITY;
    for j in 3..=($jmax as i32) { for sg in [1.0, -1.0] { for far in [false, true] { for m in [1.0, 1.5] { for d in &dirs {
        let h = sg * if far { pi - m * p2(-j) } else { m * p2(-j) };   // half angle
        let n = ((d[0] * d[0] + d[1] * d[1] + d[2] * d[2]) as f64).sqrt();
        let qt: Q4<$T> = [tf(d[0] as f64 / n * h.sin()), tf(d[1] as f64 / n * h.sin()), tf(d[2] as f64 / n * h.sin()), tf(h.cos())];
        let qf = d4(&qt);
        let aw = qf[3].abs();
        let s2 = (1.0 - aw) * (1.0 + aw);   // 1 - w^2 without cancellation (1 - |w| is exact)
        if s2 >= 1.0 / 64.0 { continue; }
        if s2 < eps { *cl.entry("not asserted: 1-w^2 < eps (the code's own guard region: w*w may round to 1)").or_insert(0) += 1; continue; }
        let sn = s2.sqrt(); smin = smin.min(sn);
        *cl.entry(if far { "angle next to +-2pi, eps <= 1-w^2 < 1/64" } else { "small angle, eps <= 1-w^2 < 1/64" }).or_insert(0) += 1;
        s.eval(true);
        let inp = || json!({"q_xyzw": qf.map(|v| format!("{:e}", v)), "built_from": {"half angle": h, "axis_direction": d}, "sqrt(1-w^2)": sn});
        let wt = j as u64 + wsum(d);
        let Some((ang, ax)) = s.call(&site, inp, || { let (a, v) = mkq(&qt).into_angle_axis(); (a.d(), [v.x.d(), v.y.d(), v.z.d()]) }) else { continue };
        let xyz = [qf[0], qf[1], qf[2]];
        // axis = xyz / s with one and the same s: each component carries one rounding, so axis x xyz vanishes up to eps |axis| |xyz|, independent of the cancellation in s
        let cr = cross3(&ax, &xyz);
        let (la, lx) = (dotn(&ax, &ax).sqrt(), dotn(&xyz, &xyz).sqrt());
        let sense = dotn(&ax, &xyz) * (ang / 2.0).sin();
        if !(amax(&cr) <= 8.0 * eps * la * lx) || !(sense > 0.0) { viol(s, &site, "axis-not-parallel-to-the-vector-part-within-rounding", || json!({"input": inp(), "angle": ang, "axis": ax, "axis x xyz": cr.map(|v| format!("{:e}", v)), "bound": 8.0 * eps * la * lx, "(axis.xyz) sin(angle/2)": sense}), wt); }
        // rotation: the angle 2 acos(w) differs from the angle of the (not exactly unit) quaternion by (|q|^2-1)/s <= 4 eps / s; a non-unit axis (relative error eps/s^2) enters the matrix times sin(angle) ~ 2 s
        let want = ref_q2m(&qf);
        let got = rodrigues_f(&ax, ang.cos(), ang.sin());
        let tol = vx::fl::K * eps * (1.0 + 1.0 / sn);
        let worst = (0..3).flat_map(|i| (0..3).map(move |j| (i, j))).map(|(i, j)| (got[i][j] - want[i][j]).abs()).fold(0.0, f64::max);
        if !(worst <= tol) { viol(s, &site, "small-angle: angle-axis-describe-a-different-rotation-beyond-256-eps-(1+1/s)", || json!({"input": inp(), "angle": ang, "axis": ax, "worst_matrix_entry_error": worst, "tolerance": tol}), wt); }
        if !((la - 1.0).abs() <= vx::fl::K * eps * 2.0 / s2) { viol(s, &site, "axis-not-unit-within-error-bound", || json!({"input": inp(), "angle": ang, "axis": ax, "axis_length": la, "tolerance": vx::fl::K * eps * 2.0 / s2}), wt); }
        if s.wants_sample() && !far && sn < 1e-3 && d[0] != 0 && d[1] != 0 { s.sample(json!({"input": inp(), "real_angle": ang, "real_axis": ax, "rotation tolerance": tol})); }
    } } } } }
    for (k, n) in cl { s.class_n(k, n); }
    s.meta("smallest sqrt(1-w^2) asserted", json!(smin));
}} }

fn sections_round2(rep: &Report, th: bool) {
    // ---- exact: quaternions next to the identity applied to vectors (sandwich; the law q (v,0) q* holds for every quaternion) ----
    rep.section("round 2: quaternions whose vector part lies below epsilon, applied to Vec3 / Vec4 (exact sandwich)",
        "q = (a x, b x, c x, w) with (a,b,c) in {-1,0,1,2}^3 minus 0 (thorough {-2..2}^3), x in {2^-60, 2^-53, 3*2^-56}, w in {1, -1, 1+2^-60, 2}: every |component of the vector part| is far below the 2^-52 epsilon of the exact type and w is next to (or at) +-1, i.e. the quaternion is 'approximately the identity' for any epsilon test, yet q*v differs from v by the exactly representable amount 2 w (u x v) + ...; vectors e_x, e_y, e_z, (1,2,3), (-2,1/2,5); Vec4 w in {0, 1, -7}: real q*Vec3 == reference sandwich q (v,0) q* (the polynomial law the complete sections above establish for all quaternions), q*Vec4 the same xyz with w untouched; non-trivial: all", true, false, |s| {
        s.require_classes(&["w = 1 exactly", "w = -1", "w next to 1", "w = 2"]);
        let lanes = box3(if th { &[-2, -1, 0, 1, 2] } else { &[-1, 0, 1, 2] });
        let xsc = [p2x(-60), p2x(-53), qi(3) * p2x(-56)];
        let ws: [(X, &str); 4] = [(ONE, "w = 1 exactly"), (-ONE, "w = -1"), (ONE + p2x(-60), "w next to 1"), (qi(2), "w = 2")];
        let vs: [[X; 3]; 5] = [e3(0), e3(1), e3(2), [qi(1), qi(2), qi(3)], [qi(-2), q(1, 2), qi(5)]];
        lanes.par_iter().for_each(|l| { if wsum(l) == 0 { return; }
            for (xi, x) in xsc.iter().enumerate() { for (wi, (w, wc)) in ws.iter().enumerate() { for (vi, v) in vs.iter().enumerate() {
                let qd: Q4<X> = [qi(l[0] as i128) * *x, qi(l[1] as i128) * *x, qi(l[2] as i128) * *x, *w];
                let w4 = [Z, ONE, qi(-7)][(xi + wi + vi) % 3];
                let v4a = [v[0], v[1], v[2], w4];
                s.eval(true); s.class(wc);
                let inp = || json!({"q_xyzw": jxs(&qd), "v": jxs(v), "w_of_vec4": jx(w4)});
                let wt = wsum(l) + xi as u64 + wi as u64 + vi as u64;
                guarded(s, || {
                    let want = rot(&qd, v);
                    let Some((g3, g4)) = s.call("Quaternion * Vec3", inp, || (dv3(&(mkq(&qd) * v3(v))), dv4(&(mkq(&qd) * v4(&v4a))))) else { return };
                    if g3 != want { viol(s, "Quaternion * Vec3", "not-the-sandwich-q-v-q*", || json!({"input": inp(), "got": jxs(&g3), "want": jxs(&want), "got_equals_v": g3 == *v}), wt); }
                    if g4[3] != w4 { viol(s, "Quaternion * Vec4", "w-not-preserved", || json!({"input": inp(), "got": jxs(&g4)}), wt); }
                    if g4[..3] != want { viol(s, "Quaternion * Vec4", "xyz-not-the-sandwich-q-v-q*", || json!({"input": inp(), "got": jxs(&g4), "want_xyz": jxs(&want)}), wt); }
                    if s.wants_sample() && wi == 0 && xi == 0 && vi == 1 && l[0] != 0 { s.sample(json!({"input": inp(), "real q*Vec3": jxs(&g3)})); }
                });
            } } }
        });
    });

    // ---- exact: nearly unit quaternions ----
    rep.section("round 2: nearly unit quaternions (exact): magnitude, normalized, inverse on l*q0 with l = 1 +- 2^-54 and 1 + 2^-20",
        "q0 = p/|p| for every p in {-2..2}^4 (thorough {-3..3}^4) of non-zero perfect-square norm, q = l q0 with l in {1 + 2^-54, 1 - 2^-54, 1 + 2^-20}: the squared norm differs from 1 by less than (first two) / more than (third) the 2^-52 epsilon of the exact type, so a shortcut 'already normalized' / 'already unit, the conjugate is the inverse' keyed on an epsilon comparison takes the wrong exit; checked: magnitude(q) == l, magnitude_squared == l^2, normalized(q) == q0 exactly (then applied to (1,2,3): the reference sandwich of q0), inverse(q) == conj(q0)/l, q*inverse(q) == inverse(q)*q == (0,0,0,1); non-trivial: all", true, false, |s| {
        s.require_classes(&["| |q|^2 - 1 | < epsilon", "| |q|^2 - 1 | > epsilon"]);
        let pts = box4(if th { 3 } else { 2 });
        let ls = [ONE + p2x(-54), ONE - p2x(-54), ONE + p2x(-20)];
        pts.par_iter().for_each(|a| {
            let n2: i64 = a.iter().map(|v| v * v).sum();
            let Some(n) = Q::isqrt(n2 as i128) else { return }; if n == 0 { return; }
            let q0: Q4<X> = [q(a[0] as i128, n), q(a[1] as i128, n), q(a[2] as i128, n), q(a[3] as i128, n)];
            for (li, l) in ls.iter().enumerate() {
                let ql = scl4(&q0, *l);
                s.eval(true); s.class(if li < 2 { "| |q|^2 - 1 | < epsilon" } else { "| |q|^2 - 1 | > epsilon" });
                let inp = || json!({"q_xyzw": jxs(&ql), "q = l * q0": {"l": jx(*l), "q0": jxs(&q0)}});
                let w = wsum(a) + li as u64;
                let v = [qi(1), qi(2), qi(3)];
                guarded(s, || {
                    if let Some((m, m2, nz, app)) = s.call("Quaternion::magnitude", inp, || { let qq = mkq(&ql); (qq.magnitude(), qq.magnitude_squared(), dq(qq.normalized()), dv3(&(qq.normalized() * v3(&v)))) }) {
                        if m != *l || m2 != *l * *l { viol(s, "Quaternion::magnitude", "not-the-euclidean-norm", || json!({"input": inp(), "magnitude": jx(m), "magnitude_squared": jx(m2), "want": jx(*l)}), w); }
                        if nz != q0 { viol(s, "Quaternion::normalized", "nearly-unit-quaternion-not-normalized", || json!({"input": inp(), "got": jxs(&nz), "want": jxs(&q0), "returned_unchanged": nz == ql}), w); }
                        else if app != rot(&q0, &v) { viol(s, "Quaternion * Vec3", "not-the-sandwich-q-v-q*", || json!({"input": inp(), "got": jxs(&app), "want": jxs(&rot(&q0, &v))}), w); }
                    }
                    if let Some((inv, lft, rgt)) = s.call("Quaternion::inverse", inp, || { let i = mkq(&ql).inverse(); (dq(i), dq(mkq(&ql) * i), dq(i * mkq(&ql))) }) {
                        let c = conj(&q0); let want = [c[0] / *l, c[1] / *l, c[2] / *l, c[3] / *l];
                        if inv != want { viol(s, "Quaternion::inverse", "nearly-unit: not-conjugate-over-squared-norm", || json!({"input": inp(), "got": jxs(&inv), "want": jxs(&want), "got_is_the_conjugate": inv == conj(&ql)}), w); }
                        if lft != [Z, Z, Z, ONE] || rgt != [Z, Z, Z, ONE] { viol(s, "Quaternion::inverse", "nearly-unit: q*inverse(q)-or-inverse(q)*q-is-not-1", || json!({"input": inp(), "q*inverse(q)": jxs(&lft), "inverse(q)*q": jxs(&rgt)}), w); }
                        if s.wants_sample() && li == 0 && n == 3 { s.sample(json!({"input": inp(), "real inverse": jxs(&inv)})); }
                    }
                });
            }
        });
    });

    // ---- exact: rotation_from_to_3d next to parallel / opposite, nearly unit lengths ----
    rep.section("round 2: rotation_from_to_3d exact: pairs next to parallel and next to opposite, nearly unit lengths (all-rational runs)",
        "planar pairs from = l1 e1, to = l2 (cos(theta) e1 + sin(theta) e2), theta the double of the rational half-angle point of parameter t, in the frames (e_x,e_y), (e_y,e_z), (e_z,-e_x), ((3/5,4/5,0),(-4/5,3/5,0)): (N) t in {+-2^-8, +-2^-12, 2^-14} (theta ~ 4t: next to parallel, sin^2(theta) down to 2^-24) and t = +-(1 - 2^-k), k in {8, 12, 14} (theta next to pi, 1 + cos(theta) down to 2^-27: far above the 180-degree threshold of a few 2^-52, far below the nearest pair of the sections above (2e-6)), lengths (1,1) and (3,1/2); (U) ordinary half-angle points (4/5,3/5), (3/5,4/5), (-3/5,4/5), (12/13,5/13), (1,0) parallel, (0,1) exactly opposite, with l1 = 1 + 2^-54, l2 = 1 - 2^-54 and with (1 + 2^-20, 1): lengths whose squares are within / outside epsilon of 1.  Verdicts as in the exact section above (unit quaternion, from mapped onto the positive multiple of to with |from| kept, Vec4 arguments, four matrix wrappers); non-trivial: pair not parallel", true, false, |s| {
        s.require_classes(&["next to parallel", "next to opposite", "nearly unit lengths", "nearly unit lengths, exactly opposite", "nearly unit lengths, parallel"]);
        let frames: [([X; 3], [X; 3]); 4] = [(e3(0), e3(1)), (e3(1), e3(2)), (e3(2), [-ONE, Z, Z]), ([q(3, 5), q(4, 5), Z], [q(-4, 5), q(3, 5), Z])];
        let half = |t: X| { let den = ONE + t * t; ((ONE - t * t) / den, (t + t) / den) };
        let mut cases: Vec<([X; 3], [X; 3], Kind, &'static str)> = Vec::new();
        let mk = |e1: &[X; 3], e2: &[X; 3], ch: X, sh: X, l1: X, l2: X| -> ([X; 3], [X; 3]) {
            let (ct, st) = (ch * ch - sh * sh, (sh + sh) * ch);
            (scl3(e1, l1), [(e1[0] * ct + e2[0] * st) * l2, (e1[1] * ct + e2[1] * st) * l2, (e1[2] * ct + e2[2] * st) * l2])
        };
        for (e1, e2) in &frames {
            for (l1, l2) in [(ONE, ONE), (qi(3), q(1, 2))] {
                for t in [p2x(-8), -p2x(-8), p2x(-12), -p2x(-12), p2x(-14)] { let (ch, sh) = half(t); let (f, to) = mk(e1, e2, ch, sh, l1, l2); cases.push((f, to, Kind::Acute, "next to parallel")); }
                for k in [8, 12, 14] { for sg in [ONE, -ONE] { let (ch, sh) = half(sg * (ONE - p2x(-k))); let (f, to) = mk(e1, e2, ch, sh, l1, l2); cases.push((f, to, Kind::Obtuse, "next to opposite")); } }
            }
            for (l1, l2) in [(ONE + p2x(-54), ONE - p2x(-54)), (ONE + p2x(-20), ONE)] {
                for (ch, sh) in [(q(4, 5), q(3, 5)), (q(3, 5), q(4, 5)), (q(-3, 5), q(4, 5)), (q(12, 13), q(5, 13)), (ONE, Z), (Z, ONE)] {
                    let (f, to) = mk(e1, e2, ch, sh, l1, l2);
                    let (kind, cls) = if sh == Z { (Kind::Parallel, "nearly unit lengths, parallel") } else if ch == Z { (if e1[0].rat().abs() > e1[2].rat().abs() { Kind::AntiXY } else { Kind::AntiZY }, "nearly unit lengths, exactly opposite") }
                        else { (if ch * ch - sh * sh > Z { Kind::Acute } else { Kind::Obtuse }, "nearly unit lengths") };
                    cases.push((f, to, kind, cls));
                }
            }
        }
        cases.par_iter().enumerate().for_each(|(i, (f, t, kind, cls))| { s.class(cls); from_to_case(s, f, t, *kind, 10 + i as u64); });
        s.meta("pairs", json!(cases.len()));
    });

    // ---- exact: into_angle_axis at sin(theta/2) ~ 2^-11 (full verdict) and ~ 2^-24 (axis and angle verdict) ----
    rep.section("round 2: into_angle_axis exact: sin(theta/2) = 2^-11 and 2^-24 (between the code's epsilon and the smallest angle of the sections above)",
        "theta = 2 k arg(z), z the rational circle point of parameter t = 2^-12 (k in {1,-1}) and t = 2^-25 (k = 1): sin(theta/2) ~ 2^-11 / 2^-24, both at least 2^28 times the 2^-52 guard on s = sqrt(1 - w^2), so the real axis must come back; axes: every 8th rational unit vector (thorough every 2nd); input: the reference quaternion by struct literal.  t = 2^-12: |axis|^2 = 1 and Rodrigues(axis, cos angle, sin angle) == reference matrix of q.  t = 2^-25 (the 3x3 products leave the exact type): axis == +-(the axis handed in), |axis|^2 = 1, and (cos, sin) of the returned angle == (cos theta, +-sin theta) with the same sign - which is the same statement for a rotation about a known line; non-trivial: all", true, false, |s| {
        s.require_classes(&["sin(theta/2) ~ 2^-11", "sin(theta/2) ~ 2^-24"]);
        let axes: Vec<[X; 3]> = unit_axes().into_iter().enumerate().filter(|(i, _)| i % (if th { 2 } else { 8 }) == 0).map(|(_, a)| a).collect();
        let site = "Quaternion::into_angle_axis";
        for (td, ks, full) in [(1i128 << 12, vec![1i128, -1], true), (1i128 << 25, vec![1], false)] {
            let b = angle_base_t(1, td);
            for k2 in ks {
                let (theta, half) = (X::tok(b, 2 * k2), X::tok(b, k2));
                let (sh, ch) = half.sin_cos_q();
                let (st, ct) = theta.sin_cos_q();
                clear_inverse(); register_inverse(if sh.n >= 0 { half } else { X::tok(b, -k2) });
                let cls = if full { "sin(theta/2) ~ 2^-11" } else { "sin(theta/2) ~ 2^-24" };
                for ax in &axes {
                    let qd: Q4<X> = [ax[0] * X::R(sh), ax[1] * X::R(sh), ax[2] * X::R(sh), X::R(ch)];
                    s.eval(true); s.class(cls);
                    let inp = || json!({"q_xyzw": jxs(&qd), "built_by": format!("struct literal (axis sin(theta/2), cos(theta/2)), t = 1/{}, k = {}", td, k2), "unit_axis": jxs(ax)});
                    let w = k2.unsigned_abs() as u64 + wx(ax);
                    let Some((ang, axis)) = s.call(site, inp, || { let (a, v) = mkq(&qd).into_angle_axis(); (a, dv3(&v)) }) else { continue };
                    let Some((sa, ca)) = s.call(site, inp, || ang.sin_cos_q()) else { continue };
                    guarded(s, || {
                        if dotn(&axis, &axis) != ONE { viol(s, site, "axis-not-unit", || json!({"input": inp(), "angle": jx(ang), "axis": jxs(&axis)}), w); }
                        if full {
                            let got = rodrigues(&axis, X::R(ca), X::R(sa));
                            if got != ref_q2m(&qd) { viol(s, site, "angle-axis-describe-a-different-rotation", || json!({"input": inp(), "angle": jx(ang), "angle_radians~": ang.shadow(), "axis": jxs(&axis), "rotation(angle, axis)": jmat(&got), "rotation of q": jmat(&ref_q2m(&qd))}), w); }
                        } else {
                            let sgn = dotn(&axis, ax);
                            let same_line = (sgn == ONE || sgn == -ONE) && axis == scl3(ax, sgn);
                            if !same_line || ca != ct || X::R(sa) * sgn != X::R(st) { viol(s, site, "angle-axis-describe-a-different-rotation", || json!({"input": inp(), "angle": jx(ang), "angle_radians~": ang.shadow(), "axis": jxs(&axis), "(cos, sin) of the angle": [jd(&ca), jd(&sa)], "want (cos, sin) theta": [jd(&ct), jd(&st)]}), w); }
                        }
                        if s.wants_sample() && !full && axis[0] != Z && axis[1] != Z { s.sample(json!({"input": inp(), "real_angle": jx(ang), "real_angle_radians~": ang.shadow(), "real_axis": jxs(&axis)})); }
                    });
                }
            }
        }
        clear_inverse();
        s.meta("axes", json!(axes.len()));
    });

    // ---- float tiers ----
    let rule_n = "(S) sweep: eight orthogonal integer frames (d, e) (three coordinate frames, where the perturbation survives at every size, and five with full-length components), from = l d, to = +-mu (d + m 2^-j e) formed in the type, m in {1, -1.5}, j = 1..J (J = 60 for f64, 30 for f32), (l, mu) in {(1,1), (3,1/2), (2^-20, 2^10)}: the + family runs through angles 2^-j next to parallel (a guard on the cross product, a half-angle obtained through acos or sin/(1-cos), lose exactly these), the - family through pairs next to opposite with 1 + cos ~ 4^-j/2 from 1/2 down through the 180-degree threshold (a few eps) to exactly opposite; (U) all 26^2 ordered pairs of directions of {-1,0,1}^3 normalised in f64, rounded to the type and scaled by 1 + 2^-a (from) and 1 - 2^-b (to), (a,b) = (20,18) for f64, (10,9) for f32: lengths next to 1.  Every pair is classified exactly (collinear? sense?) on the floats; oracle in f64 from the very floats: want = to |from|/|to|; tolerance: exactly opposite 256 eps |from|; otherwise |from| min(256 eps / cos(theta/2), 8 sqrt(eps)) with cos^2(theta/2) = (1 + cos)/2 computed as |f/|f| + t/|t||^2/4 - the half-angle bound of the float tier above, capped by its derived cap for implementations with a 180-degree threshold <= 16 eps (next to parallel this is 256 eps |from|); checked: |q|^2 = 1 within 256 eps, real q*from, real M*from and decoded-fields*from of the four matrix wrappers; non-trivial: pair not parallel";
    rep.section("round 2: rotation_from_to_3d float tier f64: next to parallel, next to opposite down through the threshold, nearly unit lengths", rule_n, true, false, |s| float_from_to_narrow!(s, f64, 60, 20, 18));
    rep.section("round 2: rotation_from_to_3d float tier f32: next to parallel, next to opposite down through the threshold, nearly unit lengths", rule_n, true, false, |s| float_from_to_narrow!(s, f32, 30, 10, 9));
    let rule_t = "q = (lane 2^-k, w) by struct literal, lane in {e_x, e_y, e_z, -e_x, (1,-2,0), (0,3,-1), (2,1,-3)}, w in {1, -1}, k in {30, 45, 60, 200, 400} (f64) / {15, 20, 40, 60} (f32): |vector part|^2 < eps/4, so q is a unit quaternion to working precision whose vector part is far below epsilon ('approximately the identity' for any epsilon test); vectors +-e_i, (1,2,3), (-2,1/2,5), as is and scaled by 2^-20; Vec4 w in {0, 1, -7}.  The rotation moves v by 2 w (u x v), a quantity that is exactly representable next to zero components of v (e.g. (x,0,0,1) * e_y = (0, 1 - x^2, 2x)); oracle in f64: q (v,0) q* / |q|^2 from the very floats; COMPONENTWISE forward bound: every output component is a sum of products q_a q_b v_c, so its error is at most 256 eps x (sum of the absolute values of those products, evaluated along the sandwich) (+ 256 eps x the smallest normal number for underflowing products); for the matrix route the same with the absolute values of the terms of the textbook matrix entries; checked: real q*Vec3, q*Vec4 (w returned equal), real Mat3/Mat4::from(q) (both layouts) times v and decoded fields times v (Mat4: w returned equal); non-trivial: all";
    rep.section("round 2: float tier f64: quaternions next to the identity (vector part 2^-30 .. 2^-400) applied to vectors, componentwise bound", rule_t, true, false, |s| float_apply_tiny!(s, f64, vec![30, 45, 60, 200, 400]));
    rep.section("round 2: float tier f32: quaternions next to the identity (vector part 2^-15 .. 2^-60) applied to vectors, componentwise bound", rule_t, true, false, |s| float_apply_tiny!(s, f32, vec![15, 20, 40, 60]));
    let rule_s = "(a) nearly unit: q = fl(q0) (1 +- 2^-j) formed in the type, q0 in {1, -j, (0.6,0.8,0,0), (1,2,2,4)/5, (-2,3,0,6)/7}, j = 2..J (J = 50 for f64, 22 for f32): inverse, q*inverse(q), inverse(q)*q, magnitude, normalized (also |normalized|^2 = 1) against the f64 oracle of the float tier above, 256 eps; a shortcut for 'already unit' inputs with any threshold above a few eps shows here; (b) single lane: q with one non-zero component v, v = +-(2i+1) for i < 50 and +-{0.1, 1e-3, 1/3, 0.7, 1+2^-20, 1-2^-21, 123456.789}, each also times 2^-30 and 2^30, in each of the four lanes: in binary floating point sqrt(fl(v v)) = |v| exactly when nothing overflows or underflows, so magnitude(q) == |v| and normalized(q) == +-(unit lane) EXACTLY (w/w = 1; a reciprocal-multiply v * (1/|v|) is off by an ulp for most of these v); (c) q = a 2^-k, a in {-1,0,1}^4 minus 0, k = 520 (f64) / 70 (f32): |q|^2 = |a|^2 4^-k lies in the subnormal range but is exactly representable there (verified on the real magnitude_squared, machinery error otherwise), inverse(q) = conj(a)/|a|^2 2^k and normalized(q) = a/|a| are ordinary numbers: inverse within 256 eps relative, both products with q equal to 1 within 256 eps, normalized within 256 eps (1/|q|^2 alone is not representable: 2^1040 / 2^140); non-trivial: all";
    rep.section("round 2: float tier f64: nearly unit quaternions, single-lane quaternions (exact), squared norm in the subnormal range", rule_s, true, false, |s| float_algebra_special!(s, f64, 50, 520));
    rep.section("round 2: float tier f32: nearly unit quaternions, single-lane quaternions (exact), squared norm in the subnormal range", rule_s, true, false, |s| float_algebra_special!(s, f32, 22, 70));
    let rule_a = "q = (axis/|axis| sin(h), cos(h)) computed in f64 and rounded to the type, half angle h = +-m 2^-j and +-(pi - m 2^-j), m in {1, 1.5}, j = 3..J (J = 27 for f64, 13 for f32), axes the 26 directions of {-1,0,1}^3; kept when eps <= 1 - w^2 < 1/64 (above: the tiers above; below: the code's own guard region, where w*w may round to 1 - counted, not asserted).  In the kept range w^2 <= 1 - eps, the largest float below 1 is 1 - eps/2 and rounding is monotone, so 1 - fl(w w) >= eps/2 > eps^2: the guard `s < epsilon` cannot fire and axis = xyz / s: (1) axis x xyz = 0 within 8 eps |axis| |xyz| and (axis . xyz) sin(angle/2) > 0 - every component of xyz is divided by one and the same s, a bound that does not suffer from the cancellation in s; (2) Rodrigues(axis, cos angle, sin angle) vs the reference matrix of the very q within 256 eps (1 + 1/s), s = sqrt(1 - w^2) (the angle 2 acos(w) is off by (|q|^2 - 1)/s <= 4 eps/s for a q that is unit only up to rounding; the length error eps/s^2 of the axis enters times sin(angle) ~ 2s); (3) |axis| = 1 within 256 eps 2/s^2 as above; non-trivial: all";
    rep.section("round 2: into_angle_axis float tier f64: angles from 1-w^2 = 1/64 down to eps, axis parallel to the vector part", rule_a, true, false, |s| float_angle_axis_small!(s, f64, 27));
    rep.section("round 2: into_angle_axis float tier f32: angles from 1-w^2 = 1/64 down to eps, axis parallel to the vector part", rule_a, true, false, |s| float_angle_axis_small!(s, f32, 13));
}
