//! C06 — determinants are correct and the inverse functions really invert.
use vx::fr::{Deg, Fr};
use vx::lattice::*;
use vx::matx::*;
use vx::*;

fn arrx<const N: usize>(a: &[i64], base: &[i64]) -> A<X, N> { let mut m = [[qi(0); N]; N]; for i in 0..N { for j in 0..N { m[i][j] = qi((a[i * N + j] + base[(i * N + j) % base.len()]) as i128); } } m }
fn arrf(a: &[i64]) -> A<Fr, 4> { let mut m = [[Fr::int(0); 4]; 4]; for i in 0..4 { for j in 0..4 { m[i][j] = Fr::int(a[i * 4 + j] as i128); } } m }
fn arri(a: &[i64]) -> A<i128, 4> { let mut m = [[0i128; 4]; 4]; for i in 0..4 { for j in 0..4 { m[i][j] = a[i * 4 + j] as i128; } } m }

macro_rules! det_section { ($s:expr, $N:expr, $R:ident, $C:ident, $d:expr) => {{
    let s: &Section = $s; const N: usize = $N;
    // premise
    let dv = [[Deg::VAR; N]; N];
    match catch(|| (rm::$R::<Deg>::build(&dv).determinant(), cm::$C::<Deg>::build(&dv).determinant())) {
        Ok((a, b)) => { s.meta("measured_degree", json!([a.n + a.d, b.n + b.d])); if a.n.max(b.n) > $d || a.d + b.d != 0 { s.degrade("degree above lattice order"); } }
        Err(e) => s.degrade(&format!("{:?}", e)),
    }
    par_lattice(N * N, $d, |p| {
        let a = arrx::<N>(p, &[0]);
        let want = det(&a);
        let w: u64 = p.iter().sum::<i64>() as u64;
        let inp = || jmat(&a);
        let nz = want != qi(0);
        let (r, c) = (rm::$R::<X>::build(&a), cm::$C::<X>::build(&a));
        for (site, got) in [
            ("row determinant", s.call("det", inp, || r.determinant())),
            ("col determinant", s.call("det", inp, || c.determinant())),
            ("row transposed().determinant", s.call("det", inp, || r.transposed().determinant())),
            ("col transposed().determinant", s.call("det", inp, || c.transposed().determinant())),
            ("Cols::from(rows).determinant", s.call("det", inp, || cm::$C::<X>::from(r).determinant())),
            ("Rows::from(cols).determinant", s.call("det", inp, || rm::$R::<X>::from(c).determinant())),
            ("row transpose() in place, then determinant", s.call("det", inp, || { let mut m = r; m.transpose(); m.determinant() })),
            ("col transpose() in place, then determinant", s.call("det", inp, || { let mut m = c; m.transpose(); m.determinant() })),
        ] {
            s.eval(nz);
            if let Some(g) = got { if g != want { s.violation_w(&format!("Mat{} {}", N, site), "not-the-leibniz-expansion", json!({"M": inp(), "got": jx(g), "want": jx(want)}), w); } }
        }
        if nz && w == $d as u64 && s.wants_sample() { s.sample(json!({"M": inp(), "det": jx(want)})); }
    });
    s.meta("lattice", json!({"n": N * N, "order": $d, "points": lattice_count(N * N, $d).to_string()}));
}} }

macro_rules! detmul_section { ($s:expr, $N:expr, $R:ident, $C:ident, $d:expr) => {{
    let s: &Section = $s; const N: usize = $N;
    par_lattice(2 * N * N, $d, |p| {
        let (a, b) = (arrx::<N>(&p[..N * N], &[1, 0, 0, 2, 0]), arrx::<N>(&p[N * N..], &[0, 1, 3, 0]));
        let want = det(&a) * det(&b);
        let inp = || json!({"A": jmat(&a), "B": jmat(&b)});
        for (site, got) in [("row", s.call("detmul", inp, || (rm::$R::<X>::build(&a) * rm::$R::<X>::build(&b)).determinant())), ("col", s.call("detmul", inp, || (cm::$C::<X>::build(&a) * cm::$C::<X>::build(&b)).determinant()))] {
            s.eval(want != qi(0));
            if let Some(g) = got { if g != want { s.violation_w(&format!("Mat{}<{}> determinant of a product", N, site), "not-multiplicative", json!({"input": inp(), "got": jx(g), "want": jx(want)}), p.iter().sum::<i64>() as u64); } }
        }
    });
    s.meta(&format!("lattice N={}", N), json!({"n": 2 * N * N, "order": $d, "points": lattice_count(2 * N * N, $d).to_string()}));
}} }

// ---------------------------------------------------------------------------------------------------------------------------------
// round-b additions (audit): machine element types, signed alphabets, operator forms, float inverses against the exact adjugate,
// fast inverses against a reference built from the parameters (no vek call in the oracle), scales near the "negligible" threshold.

/// Signed affine image of a lattice point: e_k = s_k * p_k + b_k, s_k = +-1 in a checkerboard, b_k a fixed small offset.
/// (An injective affine change of variables per coordinate keeps the simplex lattice unisolvent.)
fn signed_entries<const N: usize>(p: &[i64], shift: usize) -> A<i64, N> {
    const B: [i64; 7] = [0, 1, -2, 0, 3, -1, 2];
    let mut m = [[0i64; N]; N];
    for i in 0..N { for j in 0..N { let k = i * N + j; let sg = if (i + j + shift) % 2 == 0 { 1 } else { -1 }; m[i][j] = sg * p[k] + B[(k + 3 * shift) % 7]; } }
    m
}
fn flat_entries<const N: usize>(p: &[i64]) -> A<i64, N> { let mut m = [[0i64; N]; N]; for i in 0..N { for j in 0..N { m[i][j] = p[i * N + j]; } } m }
/// Leibniz expansion in i128 with the permutation table passed in (hot loops)
fn det_perm<const N: usize>(a: &A<i64, N>, perms: &[(Vec<usize>, i64)]) -> i128 {
    let mut s = 0i128;
    for (p, sg) in perms { let mut t = *sg as i128; for i in 0..N { t *= a[i][p[i]] as i128; } s += t; }
    s
}
/// all tuples of `n` letters, parallel over the first min(n,4) coordinates; `f` returns (evaluations, non-trivial) which are flushed per prefix
fn par_cube(s: &Section, alph: &[i64], n: usize, f: impl Fn(&[i64]) -> (u64, u64) + Sync) {
    use rayon::prelude::*;
    let split = n.min(4);
    let mut prefixes: Vec<Vec<i64>> = Vec::new();
    tuples(alph, split, |p| prefixes.push(p.to_vec()));
    prefixes.par_iter().for_each(|pre| {
        let (mut ev, mut nt) = (0u64, 0u64);
        let mut cur = vec![0i64; n]; cur[..split].copy_from_slice(pre);
        if n == split { let (a, b) = f(&cur); ev += a; nt += b; }
        else { let mut rest_buf = vec![0i64; n]; rest_buf[..split].copy_from_slice(pre);
               tuples(alph, n - split, |rest| { rest_buf[split..].copy_from_slice(rest); let (a, b) = f(&rest_buf); ev += a; nt += b; }); }
        s.evals(ev, nt);
    });
}

/// determinant() of one machine element type on one integer matrix (both layouts; with `full`: transposed, in-place transpose, layout change)
macro_rules! det_ty { ($s:expr, $N:expr, $R:ident, $C:ident, $T:ty, $e:expr, $want:expr, $w:expr, $full:expr) => {{
    let s: &Section = $s; let e: &A<i64, $N> = $e; let f: bool = $full;
    let a: A<$T, $N> = std::array::from_fn(|i| std::array::from_fn(|j| e[i][j] as $T));
    let want = $want as $T;
    let (r, c) = (rm::$R::<$T>::build(&a), cm::$C::<$T>::build(&a));
    let inp = || json!(e);
    let sites: [(&str, Option<$T>); 8] = [
        ("row determinant", s.call("det", inp, || r.determinant())),
        ("col determinant", s.call("det", inp, || c.determinant())),
        ("row transposed().determinant", if f { s.call("det", inp, || r.transposed().determinant()) } else { None }),
        ("col transposed().determinant", if f { s.call("det", inp, || c.transposed().determinant()) } else { None }),
        ("row transpose() in place, then determinant", if f { s.call("det", inp, || { let mut m = r; m.transpose(); m.determinant() }) } else { None }),
        ("col transpose() in place, then determinant", if f { s.call("det", inp, || { let mut m = c; m.transpose(); m.determinant() }) } else { None }),
        ("Cols::from(rows).determinant", if f { s.call("det", inp, || cm::$C::<$T>::from(r).determinant()) } else { None }),
        ("Rows::from(cols).determinant", if f { s.call("det", inp, || rm::$R::<$T>::from(c).determinant()) } else { None }),
    ];
    let mut n = 0u64;
    for (site, got) in sites { if let Some(g) = got { n += 1; if g != want {
        s.violation_w(&format!("Mat{}<{}> {}", $N, stringify!($T), site), "not-the-leibniz-expansion", json!({"M": inp(), "got": format!("{:?}", g), "want": format!("{:?}", want)}), $w); } } }
    n
}} }
macro_rules! det_types_case { ($s:expr, $N:expr, $R:ident, $C:ident, $e:expr, $perms:expr, $all:expr) => {{
    let e: A<i64, $N> = $e;
    let want: i128 = det_perm::<$N>(&e, $perms);
    let w: u64 = e.iter().flatten().map(|v| v.unsigned_abs()).sum();
    let mut n = det_ty!($s, $N, $R, $C, i64, &e, want, w, $all);
    n += det_ty!($s, $N, $R, $C, f64, &e, want, w, $all);
    if $all { n += det_ty!($s, $N, $R, $C, i32, &e, want, w, true); n += det_ty!($s, $N, $R, $C, f32, &e, want, w, true); }
    (n, if want != 0 { n } else { 0 })
}} }

macro_rules! detmul_forms { ($s:expr, $N:expr, $R:ident, $C:ident, $d:expr) => {{
    let s: &Section = $s; const N: usize = $N;
    par_lattice(2 * N * N, $d, |p| {
        let (ea, eb) = (signed_entries::<N>(&p[..N * N], 0), signed_entries::<N>(&p[N * N..], 1));
        let a: A<X, N> = std::array::from_fn(|i| std::array::from_fn(|j| qi(ea[i][j] as i128)));
        let b: A<X, N> = std::array::from_fn(|i| std::array::from_fn(|j| qi(eb[i][j] as i128)));
        let want = det(&a) * det(&b);
        let inp = || json!({"A": jmat(&a), "B": jmat(&b)});
        for (site, got) in [
            ("row*col", s.call("detmul", inp, || (rm::$R::<X>::build(&a) * cm::$C::<X>::build(&b)).determinant())),
            ("col*row", s.call("detmul", inp, || (cm::$C::<X>::build(&a) * rm::$R::<X>::build(&b)).determinant())),
            ("row*=row", s.call("detmul", inp, || { let mut m = rm::$R::<X>::build(&a); m *= rm::$R::<X>::build(&b); m.determinant() })),
            ("col*=col", s.call("detmul", inp, || { let mut m = cm::$C::<X>::build(&a); m *= cm::$C::<X>::build(&b); m.determinant() })),
            ("row*row(signed)", s.call("detmul", inp, || (rm::$R::<X>::build(&a) * rm::$R::<X>::build(&b)).determinant())),
            ("col*col(signed)", s.call("detmul", inp, || (cm::$C::<X>::build(&a) * cm::$C::<X>::build(&b)).determinant())),
        ] {
            s.eval(want != qi(0));
            if let Some(g) = got { if g != want { s.violation_w(&format!("Mat{}<{}> determinant of a product", N, site), "not-multiplicative", json!({"input": inp(), "got": jx(g), "want": jx(want)}), p.iter().sum::<i64>() as u64); } }
        }
    });
    s.meta(&format!("lattice N={}", N), json!({"n": 2 * N * N, "order": $d, "points": lattice_count(2 * N * N, $d).to_string()}));
}} }

/// inverted()/invert() of one float type on M = E * 2^-k (E small integers, exact) against adj(E)/det(E) * 2^k; the cofactors and the
/// determinant are exact in the float type (integers below 2^24 times a power of two), so the result carries exactly two roundings
/// (the reciprocal of the determinant and the final product): |got - want| <= ((1+u)^2 - 1)|want| < 2 EPSILON |want|.
macro_rules! inv_float { ($s:expr, $T:ty, $e:expr, $aref:expr, $dref:expr, $ks:expr, $w:expr) => {{
    let s: &Section = $s; let e: &A<i64, 4> = $e;
    let tn = stringify!($T);
    let two_eps = vx::Q::new(1, 1i128 << (if tn == "f64" { 51 } else { 22 }));
    for &k in $ks {
        let k: i32 = k;
        let sc: $T = (2.0 as $T).powi(-k);
        let m: A<$T, 4> = std::array::from_fn(|i| std::array::from_fn(|j| e[i][j] as $T * sc));
        let inp = || json!({"E": e, "M": "E * 2^-k", "k": k});
        for (site, got) in [
            ("row inverted", s.call("inv", inp, || rm::Mat4::<$T>::build(&m).inverted().decode())),
            ("col inverted", s.call("inv", inp, || cm::Mat4::<$T>::build(&m).inverted().decode())),
            ("row invert", s.call("inv", inp, || { let mut x = rm::Mat4::<$T>::build(&m); x.invert(); x.decode() })),
            ("col invert", s.call("inv", inp, || { let mut x = cm::Mat4::<$T>::build(&m); x.invert(); x.decode() })),
        ] {
            s.eval(true); s.class(tn); s.class(if k == 0 { "unscaled" } else if k > 0 { "scaled-down (tiny determinant)" } else { "scaled-up (huge determinant)" });
            let Some(g) = got else { continue };
            let mut bad: Option<(usize, usize)> = None;
            for i in 0..4 { for j in 0..4 {
                let gn = (g[i][j] * sc) as f64; // exact: power-of-two rescaling back to the magnitude of adj/det
                let ok = catch(|| match vx::Q::from_f64(gn) { None => false, Some(gq) => { let want = vx::Q::new($aref[i][j], $dref); gq.sub(want).abs() <= two_eps.mul(want.abs()) } });
                match ok { Ok(true) => {}, Ok(false) => { if bad.is_none() { bad = Some((i, j)); } }, Err(_) => s.unmodelled("overflow in the exact float comparison") }
            } }
            if let Some((i, j)) = bad { s.violation_w(&format!("Mat4<{}> {}", tn, site), "float-inverse-not-within-two-roundings-of-adjugate-over-determinant",
                json!({"E": e, "M = E * 2^-k, k": k, "entry": [i, j], "got": format!("{:e}", g[i][j]), "want": format!("{}/{} * 2^{}", $aref[i][j], $dref, k)}), $w + k.unsigned_abs() as u64); }
        }
    }
}} }

/// fast inverses of one float type: residuals of M*inv and inv*M against bounds derived from the construction of M = T*R*S
/// (see the section rule); value and in-place forms must agree bit for bit.
macro_rules! fast_float { ($s:expr, $T:ty, $nang:expr, $scales:expr) => {{
    let s: &Section = $s; let tn = stringify!($T);
    let eps = <$T>::EPSILON as f64; let cc = 64.0 * eps;
    let nang: usize = $nang;
    for ai in 0..nang { let ang = -6.2 + 0.0137 + ai as f64 * (12.4 / nang as f64);
        for ax in -1i32..=1 { for ay in -1i32..=1 { for az in -1i32..=1 { if (ax, ay, az) == (0, 0, 0) { continue; }
            let n = ((ax * ax + ay * ay + az * az) as f64).sqrt();
            let k = [ax as f64 / n, ay as f64 / n, az as f64 / n];
            let (c, sn) = (ang.cos(), ang.sin());
            let mut r = [[0.0f64; 3]; 3];
            for j in 0..3 { let mut e = [0.0; 3]; e[j] = 1.0; let kxe = [k[1] * e[2] - k[2] * e[1], k[2] * e[0] - k[0] * e[2], k[0] * e[1] - k[1] * e[0]]; let kd = k[j]; for i in 0..3 { r[i][j] = e[i] * c + kxe[i] * sn + k[i] * kd * (1.0 - c); } }
            for t in [[0.0f64, 0.0, 0.0], [1.5, -2.0, 3.0], [-1000.0, 7.0, 0.25]] { for sc in $scales {
                let sc: [f64; 3] = sc;
                let mut m = [[0.0 as $T; 4]; 4]; for i in 0..3 { for j in 0..3 { m[i][j] = (r[i][j] as $T) * (sc[j] as $T); } m[i][3] = t[i] as $T; } m[3][3] = 1.0;
                let unit = sc == [1.0, 1.0, 1.0];
                let t1: f64 = 1.0 + t.iter().map(|v| v.abs()).sum::<f64>();
                let chk = |name: &str, inv: A<$T, 4>, inplace: A<$T, 4>| {
                    s.eval(true); s.class(tn); s.class(if unit { "rigid" } else if sc.iter().any(|v| v.abs() < 0.01) { "trs-small-scale-above-threshold" } else { "trs" });
                    let detail = || json!({"angle": ang, "axis": [ax, ay, az], "t": t, "scale": sc});
                    if (0..4).any(|i| (0..4).any(|j| inv[i][j].to_bits() != inplace[i][j].to_bits())) { s.violation(&format!("Mat4<{}>::{}", tn, name), "in-place-form-differs", detail()); }
                    let mut worst: Option<(usize, usize, &str, f64, f64)> = None;
                    for i in 0..4 { for j in 0..4 {
                        let (mut l, mut rr) = (0.0f64, 0.0f64);
                        for kk in 0..4 { l += m[i][kk] as f64 * inv[kk][j] as f64; rr += inv[i][kk] as f64 * m[kk][j] as f64; }
                        let w = if i == j { 1.0 } else { 0.0 };
                        let (bl, br) = if i == 3 { (cc, cc) } else if j == 3 { (cc * t1, cc * t1 / sc[i].abs()) } else { (cc, cc * sc[j].abs() / sc[i].abs()) };
                        if !((l - w).abs() <= bl) && worst.is_none() { worst = Some((i, j, "M*inv", (l - w).abs(), bl)); }
                        if !((rr - w).abs() <= br) && worst.is_none() { worst = Some((i, j, "inv*M", (rr - w).abs(), br)); }
                    } }
                    if let Some((i, j, side, res, bound)) = worst { s.violation(&format!("Mat4<{}>::{}", tn, name), "not-an-inverse-within-derived-error-bound", json!({"input": detail(), "entry": [i, j], "side": side, "residual": res, "bound": bound})); }
                };
                chk("inverted_affine_transform(col)", cm::Mat4::<$T>::build(&m).inverted_affine_transform().decode(), { let mut x = cm::Mat4::<$T>::build(&m); x.invert_affine_transform(); x.decode() });
                chk("inverted_affine_transform(row)", rm::Mat4::<$T>::build(&m).inverted_affine_transform().decode(), { let mut x = rm::Mat4::<$T>::build(&m); x.invert_affine_transform(); x.decode() });
                if unit {
                    chk("inverted(col)", cm::Mat4::<$T>::build(&m).inverted().decode(), { let mut x = cm::Mat4::<$T>::build(&m); x.invert(); x.decode() });
                    chk("inverted(row)", rm::Mat4::<$T>::build(&m).inverted().decode(), { let mut x = rm::Mat4::<$T>::build(&m); x.invert(); x.decode() });
                    chk("inverted_affine_transform_no_scale(col)", cm::Mat4::<$T>::build(&m).inverted_affine_transform_no_scale().decode(), { let mut x = cm::Mat4::<$T>::build(&m); x.invert_affine_transform_no_scale(); x.decode() });
                    chk("inverted_affine_transform_no_scale(row)", rm::Mat4::<$T>::build(&m).inverted_affine_transform_no_scale().decode(), { let mut x = rm::Mat4::<$T>::build(&m); x.invert_affine_transform_no_scale(); x.decode() });
                }
            } }
        } } }
    }
}} }

// ---------------------------------------------------------------------------------------------------------------------------------
// round-c additions (second, adversarial audit): alphabets around the special values of every branch / guard a "fast path" could be
// keyed on (the code's own negligible-scale threshold from just above, nearly-unit scales, tiny translations, narrow angles,
// axis-aligned rotations, extreme but representable magnitudes), with oracles that are exact by construction or carry a derived
// rounding count.

/// the 24 rotation matrices with entries in {-1,0,1} (signed permutation matrices of determinant +1)
fn rot24() -> Vec<[[i32; 3]; 3]> {
    let mut o = Vec::new();
    for (p, par) in signed_permutations(3) { for sg in 0..8u32 {
        let sgn = [if sg & 1 == 0 { 1 } else { -1 }, if sg & 2 == 0 { 1 } else { -1 }, if sg & 4 == 0 { 1 } else { -1 }];
        if par as i32 * sgn[0] * sgn[1] * sgn[2] != 1 { continue; }
        let mut m = [[0i32; 3]; 3]; for i in 0..3 { m[i][p[i]] = sgn[i]; }
        o.push(m);
    } }
    o
}

/// scale letter: value, short (a power of two times 1, 3 or 5: all products the general inverse forms are exact), tag (0 plain,
/// 1 just above the code's negligible threshold, 2 nearly unit, 3 huge)
type SLetter = (f64, bool, u8);
/// translation: value, moderate (the general inverse may be asserted), tag (0 plain, 1 tiny, 2 huge, 3 zero)
type TLetter = ([f64; 3], bool, u8);

/// M = T * P * S in one float type, P one of the 24 axis-aligned rotations, every entry of M exactly representable.
/// Exact inverse: linear part P^T[i][j] / s_i (one non-zero per row), translation -P[j*][i] t[j*] / s_i (one term).
/// What the code may round: s_i^2 (one lane term, the others are exact zeros), the division, the product with t, hence at most 3
/// roundings (general inverse on short letters: cofactors and determinant exact, 2 roundings). Oracle without any quotient:
/// |got_ij * s_i - P_ji| <= 4 EPS |P_ji|  and  |got_i3 * s_i - tau_i| <= 6 EPS |tau_i|, tau_i = -sum_j P_ji t_j (exact, one term),
/// evaluated exactly (f32: in f64, 48-bit product; f64: one fused multiply-add, a correctly rounded residual). A zero target
/// demands an exact zero (0 * t = 0), the bottom row must be exactly (0,0,0,1).
macro_rules! perm_float { ($s:expr, $T:ty, $letters:expr, $trans:expr, $smod:expr, $tiny_e:expr) => {{
    let s: &Section = $s; let tn = stringify!($T); let is32 = tn == "f32";
    let eps = <$T>::EPSILON as f64;
    let letters: &[SLetter] = $letters; let trans: &[TLetter] = $trans; let smod: f64 = $smod;
    let resid = move |g: f64, sc: f64, target: f64| -> f64 { if is32 { g * sc - target } else { g.mul_add(sc, -target) } };
    let rots = rot24();
    use rayon::prelude::*;
    rots.par_iter().for_each(|p| {
        let mut cnt = [0u64; 10]; // evals, just-above, nearly-unit, huge-scale, tiny-t, huge-t, rigid, general, axis-aligned(non-identity), identity-rotation
        let is_id = (0..3).all(|i| p[i][i] == 1);
        for &(s0, h0, g0) in letters { for &(s1, h1, g1) in letters { for &(s2, h2, g2) in letters {
            let sc = [s0, s1, s2]; let tags = [g0, g1, g2];
            let unit = sc == [1.0, 1.0, 1.0];
            let short = h0 && h1 && h2;
            let moderate_s = sc.iter().all(|v| v.abs() <= smod && v.abs() >= 1.0 / smod);
            for &(t, tmod, ttag) in trans {
                let mut m = [[0.0 as $T; 4]; 4];
                for i in 0..3 { for j in 0..3 { m[i][j] = (p[i][j] as f64 * sc[j]) as $T; } m[i][3] = t[i] as $T; } m[3][3] = 1.0;
                let mut chk = |name: &str, kind: usize, g: A<$T, 4>, gi: A<$T, 4>| {
                    cnt[0] += 1; if kind != 0 { cnt[kind] += 1; }
                    if tags.contains(&1) { cnt[1] += 1; } if tags.contains(&2) { cnt[2] += 1; } if tags.contains(&3) { cnt[3] += 1; }
                    if ttag == 1 { cnt[4] += 1; } if ttag == 2 { cnt[5] += 1; }
                    if is_id { cnt[9] += 1; } else { cnt[8] += 1; }
                    let detail = || json!({"type": tn, "P": p, "scale": sc.iter().map(|v| format!("{:e}", v)).collect::<Vec<_>>(), "t": t.iter().map(|v| format!("{:e}", v)).collect::<Vec<_>>()});
                    if (0..4).any(|i| (0..4).any(|j| g[i][j].to_bits() != gi[i][j].to_bits())) { s.violation(&format!("Mat4<{}>::{}", tn, name), "in-place-form-differs", detail()); }
                    let mut bad: Option<(usize, usize, f64, f64)> = None;
                    for i in 0..3 {
                        for j in 0..3 { let target = p[j][i] as f64; let r = resid(g[i][j] as f64, sc[i], target); let b = 4.0 * eps * target.abs(); if !(r.abs() <= b) && bad.is_none() { bad = Some((i, j, r, b)); } }
                        let mut tau = 0.0f64; for j in 0..3 { if p[j][i] != 0 { tau = -(p[j][i] as f64) * t[j]; } }
                        let r = resid(g[i][3] as f64, sc[i], tau); let b = 6.0 * eps * tau.abs(); if !(r.abs() <= b) && bad.is_none() { bad = Some((i, 3, r, b)); }
                    }
                    for j in 0..4 { let w = if j == 3 { 1.0 } else { 0.0 }; if !(g[3][j] as f64 == w) && bad.is_none() { bad = Some((3, j, g[3][j] as f64 - w, 0.0)); } }
                    if let Some((i, j, r, b)) = bad { s.violation_w(&format!("Mat4<{}>::{}", tn, name), "axis-aligned-transform-not-inverted-within-derived-rounding-bound",
                        json!({"input": detail(), "entry": [i, j], "got": format!("{:e}", g[i][j]), "residual got*s_i - target": r, "bound": b}), tags.iter().filter(|&&x| x != 0).count() as u64 + (ttag != 3) as u64 + (!is_id) as u64); }
                };
                chk("inverted_affine_transform(col)", 0, cm::Mat4::<$T>::build(&m).inverted_affine_transform().decode(), { let mut x = cm::Mat4::<$T>::build(&m); x.invert_affine_transform(); x.decode() });
                chk("inverted_affine_transform(row)", 0, rm::Mat4::<$T>::build(&m).inverted_affine_transform().decode(), { let mut x = rm::Mat4::<$T>::build(&m); x.invert_affine_transform(); x.decode() });
                if unit {
                    chk("inverted_affine_transform_no_scale(col)", 6, cm::Mat4::<$T>::build(&m).inverted_affine_transform_no_scale().decode(), { let mut x = cm::Mat4::<$T>::build(&m); x.invert_affine_transform_no_scale(); x.decode() });
                    chk("inverted_affine_transform_no_scale(row)", 6, rm::Mat4::<$T>::build(&m).inverted_affine_transform_no_scale().decode(), { let mut x = rm::Mat4::<$T>::build(&m); x.invert_affine_transform_no_scale(); x.decode() });
                }
                if short && moderate_s && tmod {
                    chk("inverted(col)", 7, cm::Mat4::<$T>::build(&m).inverted().decode(), { let mut x = cm::Mat4::<$T>::build(&m); x.invert(); x.decode() });
                    chk("inverted(row)", 7, rm::Mat4::<$T>::build(&m).inverted().decode(), { let mut x = rm::Mat4::<$T>::build(&m); x.invert(); x.decode() });
                }
            }
        } } }
        s.evals(cnt[0], cnt[0]); s.class_n(tn, cnt[0]);
        for (k, name) in [(1, "scale-just-above-negligible-threshold"), (2, "nearly-unit-scale"), (3, "huge-scale"), (4, "tiny-translation"), (5, "huge-translation"), (6, "rigid"), (7, "general-inverse-exact-case"), (8, "axis-aligned-rotation"), (9, "identity-rotation")] { if cnt[k] > 0 { s.class_n(name, cnt[k]); } }
    });
    // narrow angles: L = I + e*skew(v), v in {+-x, +-y, +-z, (1,-1,1)}, e so small that e^2 is below half an ulp of 1: L is orthogonal
    // within rounding (for a single axis it is the correctly rounded rotation by the angle e). Both fast inverses must return the
    // transposed linear part exactly (|column|^2 rounds to 1) and -L^T t within the forward bound gamma_4 * sum|L_ji t_j| <= 4 EPS * sum of three
    // rounded products and their subtractions, compared in exact rationals.
    let tiny_e: &[f64] = $tiny_e;
    let g4 = 4.0 * eps; // gamma_4 = 4u/(1-4u) <= 8u = 4 EPS (u = EPS/2), a power of two
    for &e in tiny_e { for v in [[1.0f64, 0.0, 0.0], [-1.0, 0.0, 0.0], [0.0, 1.0, 0.0], [0.0, -1.0, 0.0], [0.0, 0.0, 1.0], [0.0, 0.0, -1.0], [1.0, -1.0, 1.0]] {
        let (ex, ey, ez) = (e * v[0], e * v[1], e * v[2]);
        let l = [[1.0, -ez, ey], [ez, 1.0, -ex], [-ey, ex, 1.0]];
        for t in [[1.5f64, -2.0, 3.0], [0.0, 0.0, 5.0], [1.0, 1048576.0, -3.0]] {
            let mut m = [[0.0 as $T; 4]; 4];
            for i in 0..3 { for j in 0..3 { m[i][j] = l[i][j] as $T; } m[i][3] = t[i] as $T; } m[3][3] = 1.0;
            let chk = |name: &str, g: A<$T, 4>, gi: A<$T, 4>| {
                s.eval(true); s.class("narrow-angle"); s.class(tn);
                let detail = || json!({"type": tn, "L = I + e*skew(v)": {"e": format!("{:e}", e), "v": v}, "t": t});
                if (0..4).any(|i| (0..4).any(|j| g[i][j].to_bits() != gi[i][j].to_bits())) { s.violation(&format!("Mat4<{}>::{}", tn, name), "in-place-form-differs", detail()); }
                let mut bad: Option<(usize, usize)> = None;
                for i in 0..3 { for j in 0..3 { if !(g[i][j] as f64 == l[j][i]) && bad.is_none() { bad = Some((i, j)); } } }
                for j in 0..4 { let w = if j == 3 { 1.0 } else { 0.0 }; if !(g[3][j] as f64 == w) && bad.is_none() { bad = Some((3, j)); } }
                for i in 0..3 {
                    let (mut wf, mut mf) = (0.0f64, 0.0f64); for j in 0..3 { wf -= l[j][i] * t[j]; mf += (l[j][i] * t[j]).abs(); }
                    let gf = g[i][3] as f64;
                    if !((gf - wf).abs() <= mf / 1048576.0) { if bad.is_none() { bad = Some((i, 3)); } continue; } // grossly wrong, NaN or infinite: no exact arithmetic needed
                    let ok = catch(|| {
                        let q = |x: f64| vx::Q::from_f64(x);
                        let Some(gq) = q(gf) else { return false };
                        let (mut want, mut mag) = (vx::Q::ZERO, vx::Q::ZERO);
                        for j in 0..3 { let term = q(l[j][i]).unwrap().mul(q(t[j]).unwrap()); want = want.sub(term); mag = mag.add(term.abs()); }
                        gq.sub(want).abs().mul(q(1.0 / g4).unwrap()) <= mag // g4 is a power of two: |got - want| / g4 <= sum|terms| without large cross products
                    });
                    match ok { Ok(true) => {}, Ok(false) => { if bad.is_none() { bad = Some((i, 3)); } }, Err(_) => s.unmodelled("overflow in the exact float comparison") }
                }
                if let Some((i, j)) = bad { s.violation(&format!("Mat4<{}>::{}", tn, name), "narrow-angle-rotation-not-inverted", json!({"input": detail(), "entry": [i, j], "got": format!("{:e}", g[i][j])})); }
            };
            chk("inverted_affine_transform_no_scale(col)", cm::Mat4::<$T>::build(&m).inverted_affine_transform_no_scale().decode(), { let mut x = cm::Mat4::<$T>::build(&m); x.invert_affine_transform_no_scale(); x.decode() });
            chk("inverted_affine_transform_no_scale(row)", rm::Mat4::<$T>::build(&m).inverted_affine_transform_no_scale().decode(), { let mut x = rm::Mat4::<$T>::build(&m); x.invert_affine_transform_no_scale(); x.decode() });
            chk("inverted_affine_transform(col)", cm::Mat4::<$T>::build(&m).inverted_affine_transform().decode(), { let mut x = cm::Mat4::<$T>::build(&m); x.invert_affine_transform(); x.decode() });
            chk("inverted_affine_transform(row)", rm::Mat4::<$T>::build(&m).inverted_affine_transform().decode(), { let mut x = rm::Mat4::<$T>::build(&m); x.invert_affine_transform(); x.decode() });
        }
    } }
}} }

/// inverted()/invert() of one float type on M = D1 * E * D2, D1 = diag(2^a_i) (rows), D2 = diag(2^b_j) (columns), E small integers:
/// every product the block method forms is homogeneous in the row / column scalings, so all cofactors and the determinant stay exact
/// and inv(M)_ij = 2^-b_i * (adj(E)_ij / det(E)) * 2^-a_j carries the same two roundings as in `inv_float`.
macro_rules! inv_float_aniso { ($s:expr, $T:ty, $e:expr, $aref:expr, $dref:expr, $pats:expr, $w:expr) => {{
    let s: &Section = $s; let e: &A<i64, 4> = $e;
    let tn = stringify!($T);
    let two_eps = vx::Q::new(1, 1i128 << (if tn == "f64" { 51 } else { 22 }));
    let pats: &[([i32; 4], [i32; 4], &str)] = $pats;
    for &(a, b, cls) in pats {
        let m: A<$T, 4> = std::array::from_fn(|i| std::array::from_fn(|j| e[i][j] as $T * (2.0 as $T).powi(a[i] + b[j])));
        let inp = || json!({"E": e, "M": "diag(2^a) * E * diag(2^b)", "a": a, "b": b});
        for (site, got) in [
            ("row inverted", s.call("inv", inp, || rm::Mat4::<$T>::build(&m).inverted().decode())),
            ("col inverted", s.call("inv", inp, || cm::Mat4::<$T>::build(&m).inverted().decode())),
            ("row invert", s.call("inv", inp, || { let mut x = rm::Mat4::<$T>::build(&m); x.invert(); x.decode() })),
            ("col invert", s.call("inv", inp, || { let mut x = cm::Mat4::<$T>::build(&m); x.invert(); x.decode() })),
        ] {
            s.eval(true); s.class(tn); s.class(cls);
            let Some(g) = got else { continue };
            let mut bad: Option<(usize, usize)> = None;
            for i in 0..4 { for j in 0..4 {
                let gn = (g[i][j] * (2.0 as $T).powi(b[i] + a[j])) as f64; // exact: power-of-two rescaling back to the magnitude of adj/det
                let ok = catch(|| match vx::Q::from_f64(gn) { None => false, Some(gq) => { let want = vx::Q::new($aref[i][j], $dref); gq.sub(want).abs() <= two_eps.mul(want.abs()) } });
                match ok { Ok(true) => {}, Ok(false) => { if bad.is_none() { bad = Some((i, j)); } }, Err(_) => s.unmodelled("overflow in the exact float comparison") }
            } }
            if let Some((i, j)) = bad { s.violation_w(&format!("Mat4<{}> {} (row/column power-of-two scaling)", tn, site), "float-inverse-not-within-two-roundings-of-adjugate-over-determinant",
                json!({"E": e, "M = diag(2^a) * E * diag(2^b)": {"a": a, "b": b}, "entry": [i, j], "got": format!("{:e}", g[i][j]), "want": format!("{}/{} * 2^{}", $aref[i][j], $dref, -(b[i] + a[j]))}), $w + a.iter().chain(b.iter()).map(|v| v.unsigned_abs() as u64).sum::<u64>()); }
        }
    }
}} }

/// determinant() of one float type on diag(2^a) * E * diag(2^b): every Leibniz term carries the same power of two, so the result is
/// det(E) * 2^(sum a + sum b) exactly (all eight forms of `det_ty`).
macro_rules! det_scaled { ($s:expr, $N:expr, $R:ident, $C:ident, $T:ty, $e:expr, $want:expr, $a:expr, $b:expr, $w:expr) => {{
    let s: &Section = $s; let e: &A<i64, $N> = $e; let a: &[i32] = $a; let b: &[i32] = $b;
    let m: A<$T, $N> = std::array::from_fn(|i| std::array::from_fn(|j| e[i][j] as $T * (2.0 as $T).powi(a[i] + b[j])));
    let tot: i32 = a[..$N].iter().sum::<i32>() + b[..$N].iter().sum::<i32>();
    let want = ($want as $T) * (2.0 as $T).powi(tot);
    let (r, c) = (rm::$R::<$T>::build(&m), cm::$C::<$T>::build(&m));
    let inp = || json!({"E": e, "a": &a[..$N], "b": &b[..$N]});
    let sites: [(&str, Option<$T>); 8] = [
        ("row determinant", s.call("det", inp, || r.determinant())),
        ("col determinant", s.call("det", inp, || c.determinant())),
        ("row transposed().determinant", s.call("det", inp, || r.transposed().determinant())),
        ("col transposed().determinant", s.call("det", inp, || c.transposed().determinant())),
        ("row transpose() in place, then determinant", s.call("det", inp, || { let mut x = r; x.transpose(); x.determinant() })),
        ("col transpose() in place, then determinant", s.call("det", inp, || { let mut x = c; x.transpose(); x.determinant() })),
        ("Cols::from(rows).determinant", s.call("det", inp, || cm::$C::<$T>::from(r).determinant())),
        ("Rows::from(cols).determinant", s.call("det", inp, || rm::$R::<$T>::from(c).determinant())),
    ];
    let mut n = 0u64;
    for (site, got) in sites { if let Some(g) = got { n += 1; if !(g == want) {
        s.violation_w(&format!("Mat{}<{}> {} (row/column power-of-two scaling)", $N, stringify!($T), site), "not-the-leibniz-expansion", json!({"M = diag(2^a) * E * diag(2^b)": inp(), "got": format!("{:e}", g), "want": format!("{:e}", want)}), $w); } } }
    n
}} }

fn main() {
    let rep = Report::start("C06", "exploration");
    let th = rep.thorough();
    let x = if th { 2 } else { 1 };

    let rd = "all points of L(N^2, D), D = N (measured degree) + extra: determinant() of both layouts, of the transpose and of the layout-converted matrix vs the Leibniz expansion generated from the signed permutations; non-trivial: det != 0";
    rep.section("determinant = Leibniz expansion, N=2", rd, true, true, |s| det_section!(s, 2, Mat2, Mat2, 2 + 2 * x));
    rep.section("determinant = Leibniz expansion, N=3", rd, true, true, |s| det_section!(s, 3, Mat3, Mat3, 3 + x));
    rep.section("determinant = Leibniz expansion, N=4", rd, true, true, |s| det_section!(s, 4, Mat4, Mat4, 4 + x));

    rep.section("determinant is multiplicative", "det(A*B) = det(A)det(B) on L(2N^2, D) around a non-singular base point: N=2: D=4 (the full degree), N=3: D=6 quick (full degree), N=4: D=4 quick / 6 thorough (the full degree 8 has 7.7e7 points and is implied by the two complete sections 'determinant = Leibniz' and C01 'matrix*matrix'); non-trivial: det(A)det(B) != 0", true, false, |s| {
        detmul_section!(s, 2, Mat2, Mat2, 4 + x);
        detmul_section!(s, 3, Mat3, Mat3, if th { 6 } else { 5 });
        detmul_section!(s, 4, Mat4, Mat4, if th { 6 } else { 4 });
        s.sample(json!({"law": "det(A*B) == det(A)*det(B)", "A": "base + lattice deviation", "layouts": ["row", "col"]}));
    });

    rep.section("reference adjugate is an adjugate", "M * adj_ref(M) = det_ref(M) * I on L(16,4) in exact rationals (validates the oracle used below, not vek); non-trivial: det != 0", true, true, |s| {
        par_lattice(16, 4, |p| {
            let a = arrx::<4>(p, &[0]);
            let (ad, d) = (adjugate(&a), det(&a));
            let prod = mmul(&a, &ad);
            s.eval(d != qi(0));
            for i in 0..4 { for j in 0..4 { let w = if i == j { d } else { qi(0) }; if prod[i][j] != w { s.rep.machinery_error(format!("reference adjugate wrong at {:?}", p)); } } }
        });
        s.sample(json!({"oracle": "adj(A)[i][j] = (-1)^(i+j) minor(j,i)", "checked": "A adj(A) = det(A) I"}));
    });

    rep.section("general 4x4 inverse: inv(M) * det(M) = adj(M) as a formal identity",
        "the real inverted()/invert() of both layouts run on formal fractions (no quotient is ever formed, so singular matrices are not skipped) at every point of L(16, D), D = 7 (measured cross-degree) quick / 8 thorough; each of the 16 entries n/d must satisfy n * det_ref = adj_ref * d; non-trivial: det != 0", true, true, |s| {
        let dv = [[Deg::VAR; 4]; 4];
        let mut cross = 0u32;
        for (lay, r) in [("row", catch(|| rm::Mat4::<Deg>::build(&dv).inverted().decode())), ("col", catch(|| cm::Mat4::<Deg>::build(&dv).inverted().decode()))] {
            match r { Ok(m) => { for row in m { for e in row { cross = cross.max(e.cross_degree(3, 4)); } } }
                      Err(e) => s.degrade(&format!("{}: {:?}", lay, e)) }
        }
        s.meta("measured_cross_degree", json!(cross));
        let d = if th { 8 } else { 7 };
        if cross > d { s.degrade("cross degree above lattice order"); }
        if cross == 0 {
            // the premise run failed: the code inspects values (a comparison on Deg/Fr panics), so it is not a rational function and
            // formal fractions cannot run it. Fall back to exact rationals on the non-singular lattice points (bounded, not complete).
            par_lattice(16, d, |p| {
                let ai = arri(p);
                let (dref, aref) = (det_i(&ai), adj_i(&ai));
                if dref == 0 { s.eval(false); return; }
                let a = arrx::<4>(p, &[0]);
                let inp = || json!(p);
                for (site, got) in [
                    ("row inverted", s.call("inv", inp, || rm::Mat4::<X>::build(&a).inverted().decode())),
                    ("col inverted", s.call("inv", inp, || cm::Mat4::<X>::build(&a).inverted().decode())),
                    ("row invert", s.call("inv", inp, || { let mut m = rm::Mat4::<X>::build(&a); m.invert(); m.decode() })),
                    ("col invert", s.call("inv", inp, || { let mut m = cm::Mat4::<X>::build(&a); m.invert(); m.decode() })),
                ] {
                    s.eval(true);
                    if let Some(g) = got { for i in 0..4 { for j in 0..4 { if g[i][j] != q(aref[i][j], dref) {
                        s.violation_w(&format!("Mat4 {}", site), "not-adjugate-over-determinant", json!({"M_row_major_flat": p, "entry": [i, j], "got": jx(g[i][j]), "want": format!("{}/{}", aref[i][j], dref)}), p.iter().sum::<i64>() as u64); } } } }
                }
            });
            s.meta("fallback", json!("exact rationals on non-singular lattice points (premise failed)"));
            return;
        }
        par_lattice(16, d, |p| {
            let ai = arri(p);
            let (dref, aref) = (det_i(&ai), adj_i(&ai));
            let f = arrf(p);
            let inp = || json!(p);
            for (site, got) in [
                ("row inverted", s.call("inv", inp, || rm::Mat4::<Fr>::build(&f).inverted().decode())),
                ("col inverted", s.call("inv", inp, || cm::Mat4::<Fr>::build(&f).inverted().decode())),
                ("row invert", s.call("inv", inp, || { let mut m = rm::Mat4::<Fr>::build(&f); m.invert(); m.decode() })),
                ("col invert", s.call("inv", inp, || { let mut m = cm::Mat4::<Fr>::build(&f); m.invert(); m.decode() })),
            ] {
                s.eval(dref != 0);
                if let Some(g) = got {
                    let mut bad = None;
                    for i in 0..4 { for j in 0..4 { match catch(|| g[i][j].eq_ratio(aref[i][j], dref)) { Ok(true) => {}, Ok(false) => { if bad.is_none() { bad = Some((i, j)); } }, Err(_) => s.unmodelled("overflow in cross multiplication") } } }
                    if let Some((i, j)) = bad { s.violation_w(&format!("Mat4 {}", site), "not-adjugate-over-determinant", json!({"M_row_major_flat": p, "entry": [i, j], "got": format!("{}/{}", g[i][j].n, g[i][j].d), "want": format!("{}/{}", aref[i][j], dref)}), p.iter().sum::<i64>() as u64); }
                }
            }
            if dref != 0 && s.wants_sample() && p.iter().sum::<i64>() == d as i64 { s.sample(json!({"M_row_major_flat": p, "det": dref.to_string(), "adj[0][0]": aref[0][0].to_string()})); }
        });
        s.meta("lattice", json!({"n": 16, "order": d, "points": lattice_count(16, d).to_string()}));
    });

    rep.section("general 4x4 inverse is two-sided (exact rationals)", "L(16, 3 quick / 4 thorough) translated to a non-singular base point: M * inverted(M) = inverted(M) * M = I for both layouts wherever det != 0, for M and for M scaled by 2^-20 and 2^20 (determinants far below / above the element type's epsilon); f64 and f32: inverted(M * 2^-k) is bit for bit inverted(M) * 2^k (k = 20, 8; power-of-two scaling is exact); non-trivial: all non-singular points", true, false, |s| {
        let base = [2i64, 0, 1, 0, 0, 3, 0, 1, 1, 0, 1, 0, 0, 1, 0, 2];
        s.require_classes(&["non-singular", "tiny-determinant(|det| < epsilon)", "huge-determinant", "float power-of-two scaling"]);
        par_lattice(16, if th { 4 } else { 3 }, |p| {
            let a0 = arrx::<4>(p, &base);
            if det(&a0) == qi(0) { s.eval(false); s.class("singular(skipped)"); return; }
            s.class("non-singular");
            let id = ident::<X, 4>();
            // the matrix itself and copies scaled by 2^-k and 2^k: the determinant scales by 2^(-4k), far below / above the
            // epsilon of the element type (2^-52) - "every matrix with non-zero determinant" includes those
            for k in [0i32, -20, 20] {
                let sc = if k >= 0 { qi(1i128 << k) } else { q(1, 1i128 << -k) };
                let mut a = a0; for i in 0..4 { for j in 0..4 { a[i][j] = a0[i][j] * sc; } }
                s.class(if k == 0 { "unit-scale" } else if k < 0 { "tiny-determinant(|det| < epsilon)" } else { "huge-determinant" });
                for (site, got) in [("row", s.call("inv", || jmat(&a), || { let m = rm::Mat4::<X>::build(&a); let i = m.inverted(); ((m * i).decode(), (i * m).decode()) })),
                                    ("col", s.call("inv", || jmat(&a), || { let m = cm::Mat4::<X>::build(&a); let i = m.inverted(); ((m * i).decode(), (i * m).decode()) }))] {
                    s.eval(true);
                    if let Some((l, r)) = got { if l != id || r != id { s.violation_w(&format!("Mat4<{}>::inverted", site), "not-a-two-sided-inverse", json!({"M": jmat(&a), "scaled_by_2^": k, "M*inv": jmat(&l), "inv*M": jmat(&r)}), p.iter().sum::<i64>() as u64 + k.unsigned_abs() as u64); } }
                }
            }
            let a = a0;
            // floats: scaling by a power of two is exact, so inverted(M * 2^-k) must equal inverted(M) * 2^k bit for bit
            {
                let f64m: A<f64, 4> = std::array::from_fn(|i| std::array::from_fn(|j| a[i][j].shadow()));
                let f32m: A<f32, 4> = std::array::from_fn(|i| std::array::from_fn(|j| a[i][j].shadow() as f32));
                let base64 = rm::Mat4::<f64>::build(&f64m).inverted().decode();
                let base32 = rm::Mat4::<f32>::build(&f32m).inverted().decode();
                for k in [20i32, 8] {
                    let (s64, s32) = (2f64.powi(-k), 2f32.powi(-k));
                    let m64: A<f64, 4> = std::array::from_fn(|i| std::array::from_fn(|j| f64m[i][j] * s64));
                    let m32: A<f32, 4> = std::array::from_fn(|i| std::array::from_fn(|j| f32m[i][j] * s32));
                    let (g64r, g64c) = (rm::Mat4::<f64>::build(&m64).inverted().decode(), cm::Mat4::<f64>::build(&m64).inverted().decode());
                    let (g32r, g32c) = (rm::Mat4::<f32>::build(&m32).inverted().decode(), cm::Mat4::<f32>::build(&m32).inverted().decode());
                    s.evals(4, 4); s.class("float power-of-two scaling");
                    let w64: A<f64, 4> = std::array::from_fn(|i| std::array::from_fn(|j| base64[i][j] / s64));
                    let w32: A<f32, 4> = std::array::from_fn(|i| std::array::from_fn(|j| base32[i][j] / s32));
                    let same64 = |g: &A<f64, 4>| (0..4).all(|i| (0..4).all(|j| g[i][j].to_bits() == w64[i][j].to_bits() || (g[i][j] == 0.0 && w64[i][j] == 0.0)));
                    let same32 = |g: &A<f32, 4>| (0..4).all(|i| (0..4).all(|j| g[i][j].to_bits() == w32[i][j].to_bits() || (g[i][j] == 0.0 && w32[i][j] == 0.0)));
                    if !same64(&g64r) || !same64(&g64c) { s.violation_w("Mat4<f64>::inverted", "inverse-of-a-power-of-two-scaled-matrix-is-not-the-scaled-inverse", json!({"M": jmat(&a), "scaled_by_2^": -k, "got_row0": format!("{:?}", g64r[0]), "want_row0": format!("{:?}", w64[0])}), p.iter().sum::<i64>() as u64); }
                    if !same32(&g32r) || !same32(&g32c) { s.violation_w("Mat4<f32>::inverted", "inverse-of-a-power-of-two-scaled-matrix-is-not-the-scaled-inverse", json!({"M": jmat(&a), "scaled_by_2^": -k, "got_row0": format!("{:?}", g32r[0]), "want_row0": format!("{:?}", w32[0])}), p.iter().sum::<i64>() as u64); }
                }
            }
            if s.wants_sample() { s.sample(json!({"M": jmat(&a), "law": "M*inv == I == inv*M"})); }
        });
    });

    rep.section("rigid and TRS fast inverses (exact rationals)",
        "M = T*R and M = T*R*S built from reference arrays: R = Rodrigues matrix for every rational unit axis (sign/permutation closure of 6 Pythagorean quadruples: 103 axes; quick: every 4th) x 12 rational circle points, T from {-2,0,3}^3 (quick: 5 of them), S from {1/2,1,2,-3}^3 (quick: 8 of them); inverted_affine_transform_no_scale / inverted_affine_transform (+ in-place twins) of both layouts must equal inverted() and multiply to I on both sides; negligible scale 2^-60 only exercised for 'no panic / no division by ~0' (the property excludes it); non-trivial: R != I", true, false, |s| {
        s.require_classes(&["rigid", "trs", "trs-negative-scale", "negligible-scale-branch"]);
        let axes = unit_axes(); let circ = circle_points();
        let tr_all: Vec<[X; 3]> = { let v = [qi(-2), qi(0), qi(3)]; let mut o = Vec::new(); for a in v { for b in v { for c in v { o.push([a, b, c]); } } } o };
        let sc_all: Vec<[X; 3]> = { let v = [q(1, 2), qi(1), qi(2), qi(-3)]; let mut o = Vec::new(); for a in v { for b in v { for c in v { o.push([a, b, c]); } } } o };
        let trs: Vec<[X; 3]> = if th { tr_all.clone() } else { vec![tr_all[0], tr_all[5], tr_all[13], tr_all[22], tr_all[26]] };
        let scs: Vec<[X; 3]> = if th { sc_all.clone() } else { vec![sc_all[0], sc_all[5], sc_all[21], sc_all[27], sc_all[38], sc_all[42], sc_all[57], sc_all[63]] };
        let id = ident::<X, 4>();
        let work: Vec<(usize, usize)> = (0..axes.len()).filter(|i| th || i % 4 == 0).flat_map(|i| (0..circ.len()).map(move |j| (i, j))).collect();
        use rayon::prelude::*;
        work.par_iter().for_each(|&(ai, ci)| {
            let r3 = rodrigues(&axes[ai], circ[ci].0, circ[ci].1);
            for t in &trs {
                // rigid
                let m = affine4(&r3, t);
                let nontriv = r3 != ident::<X, 3>();
                macro_rules! both { ($cls:expr, $m:expr, $fast:ident, $fast_inplace:ident, $name:expr) => {{
                    let m: A<X, 4> = $m;
                    for lay in ["row", "col"] {
                        s.eval(nontriv); s.class($cls);
                        let got = if lay == "row" { s.call($name, || jmat(&m), || { let mm = rm::Mat4::<X>::build(&m); let f = mm.$fast(); let mut g = mm; g.$fast_inplace(); (f.decode(), g.decode(), mm.inverted().decode(), (mm * f).decode(), (f * mm).decode()) }) }
                                  else { s.call($name, || jmat(&m), || { let mm = cm::Mat4::<X>::build(&m); let f = mm.$fast(); let mut g = mm; g.$fast_inplace(); (f.decode(), g.decode(), mm.inverted().decode(), (mm * f).decode(), (f * mm).decode()) }) };
                        if let Some((f, g, gen, l, r)) = got {
                            let site = format!("Mat4<{}>::{}", lay, $name);
                            if f != gen { s.violation(&site, "differs-from-general-inverse", json!({"M": jmat(&m), "got": jmat(&f), "want": jmat(&gen)})); }
                            else if l != id || r != id { s.violation(&site, "not-a-two-sided-inverse", json!({"M": jmat(&m)})); }
                            if g != f { s.violation(&site, "in-place-form-differs", json!({"M": jmat(&m)})); }
                        }
                    }
                }} }
                both!("rigid", m, inverted_affine_transform_no_scale, invert_affine_transform_no_scale, "inverted_affine_transform_no_scale");
                both!("rigid", m, inverted_affine_transform, invert_affine_transform, "inverted_affine_transform");
                for sc in &scs {
                    let mut l = r3; for i in 0..3 { for j in 0..3 { l[i][j] = r3[i][j] * sc[j]; } } // R*S: column j scaled
                    let m = affine4(&l, t);
                    both!(if sc.iter().any(|v| *v < qi(0)) { "trs-negative-scale" } else { "trs" }, m, inverted_affine_transform, invert_affine_transform, "inverted_affine_transform");
                }
            }
            // negligible scale: the documented branch must not divide by ~0 (result stays finite/exact; nothing else is asserted)
            let tiny = X::R(vx::Q::new(1, 1i128 << 60));
            let mut l = r3; for i in 0..3 { l[i][0] = r3[i][0] * tiny; }
            let m = affine4(&l, &[qi(1), qi(2), qi(3)]);
            s.eval(true); s.class("negligible-scale-branch");
            let _ = s.call("inverted_affine_transform(negligible scale)", || jmat(&m), || cm::Mat4::<X>::build(&m).inverted_affine_transform().decode());
            if s.wants_sample() && ai > 0 { let m = affine4(&r3, &trs[1]); s.sample(json!({"M = T*R": jmat(&m), "law": "inverted_affine_transform_no_scale(M) == inverted(M), M*inv == I"})); }
        });
    });

    rep.section("fast inverses, f64 tier", "64 angles in (-2pi,2pi) x 26 integer axes in {-1,0,1}^3 x 3 translations x 3 scale triples: the fast inverses times M within 256 eps * (max |entry| of M and of the inverse)^2 of I; non-trivial: all", true, false, |s| {
        for ai in 0..64 { let ang = -6.2 + ai as f64 * 0.1937;
            for ax in -1i32..=1 { for ay in -1i32..=1 { for az in -1i32..=1 { if (ax, ay, az) == (0, 0, 0) { continue; }
                let n = ((ax * ax + ay * ay + az * az) as f64).sqrt();
                let k = [ax as f64 / n, ay as f64 / n, az as f64 / n];
                let (c, sn) = (ang.cos(), ang.sin());
                let mut r = [[0.0f64; 3]; 3];
                for j in 0..3 { let mut e = [0.0; 3]; e[j] = 1.0; let kxe = [k[1] * e[2] - k[2] * e[1], k[2] * e[0] - k[0] * e[2], k[0] * e[1] - k[1] * e[0]]; let kd = k[j]; for i in 0..3 { r[i][j] = e[i] * c + kxe[i] * sn + k[i] * kd * (1.0 - c); } }
                for t in [[0.0, 0.0, 0.0], [1.5, -2.0, 3.0], [-100.0, 7.0, 0.25]] { for sc in [[1.0, 1.0, 1.0], [2.0, 0.5, 3.0], [-1.0, 4.0, 0.25]] {
                    let mut m = [[0.0f64; 4]; 4]; for i in 0..3 { for j in 0..3 { m[i][j] = r[i][j] * sc[j]; } m[i][3] = t[i]; } m[3][3] = 1.0;
                    let unit = sc == [1.0, 1.0, 1.0];
                    let chk = |name: &str, inv: A<f64, 4>| {
                        s.eval(true);
                        let big = m.iter().flatten().chain(inv.iter().flatten()).fold(1.0f64, |a, b| a.max(b.abs()));
                        let mut worst = 0.0f64;
                        for i in 0..4 { for j in 0..4 { let mut l = 0.0; let mut rr = 0.0; for kk in 0..4 { l += m[i][kk] * inv[kk][j]; rr += inv[i][kk] * m[kk][j]; } let w = if i == j { 1.0 } else { 0.0 }; worst = worst.max((l - w).abs()).max((rr - w).abs()); } }
                        if !(worst <= 256.0 * f64::EPSILON * big * big) { s.violation(&format!("Mat4<f64>::{}", name), "not-an-inverse-within-error-bound", json!({"angle": ang, "axis": [ax, ay, az], "t": t, "scale": sc, "residual": worst})); }
                    };
                    chk("inverted_affine_transform(col)", cm::Mat4::<f64>::build(&m).inverted_affine_transform().decode());
                    chk("inverted_affine_transform(row)", rm::Mat4::<f64>::build(&m).inverted_affine_transform().decode());
                    chk("inverted(col)", cm::Mat4::<f64>::build(&m).inverted().decode());
                    if unit { chk("inverted_affine_transform_no_scale(col)", cm::Mat4::<f64>::build(&m).inverted_affine_transform_no_scale().decode()); chk("inverted_affine_transform_no_scale(row)", rm::Mat4::<f64>::build(&m).inverted_affine_transform_no_scale().decode()); }
                } }
            } } }
        }
        s.sample(json!({"angle": -6.2, "axis": [1, -1, 0], "t": [1.5, -2.0, 3.0], "scale": [2.0, 0.5, 3.0]}));
    });

    // ------------------------------------------------------------------------------------------------------------------------------
    // round-b sections
    rep.section("determinant: machine element types and signed entries",
        "determinant() of i32, i64, f32, f64 matrices (both layouts; transposed(), transpose() in place, layout change) against the Leibniz expansion in i128; inputs: the signed affine image e = +-p + b of L(N^2, D) (N=2: D=6, N=3: D=5, N=4: D=4 quick / 6 thorough) and full signed cubes: N=2 {-3..3}^4, N=3 {-1,0,1}^9 (thorough {-2..2}^9), N=4 {-1,1}^16 (thorough additionally {-1,0,1}^16 on i64 and f64, plain determinant only); all values are small integers, so the float determinants are exact; non-trivial: det != 0", true, false, |s| {
        s.require_classes(&["N=2", "N=3", "N=4", "negative-determinant", "zero-determinant"]);
        let (p2, p3, p4) = (signed_permutations(2), signed_permutations(3), signed_permutations(4));
        let cls = |n: &str, e: &[i64], want_sign: i128| { let _ = e; s.class(n); if want_sign < 0 { s.class("negative-determinant"); } else if want_sign == 0 { s.class("zero-determinant"); } };
        par_lattice(4, 6, |p| { let e = signed_entries::<2>(p, 0); cls("N=2", p, det_perm::<2>(&e, &p2)); let (n, nt) = det_types_case!(s, 2, Mat2, Mat2, e, &p2, true); s.evals(n, nt); });
        par_lattice(9, 5, |p| { let e = signed_entries::<3>(p, 0); cls("N=3", p, det_perm::<3>(&e, &p3)); let (n, nt) = det_types_case!(s, 3, Mat3, Mat3, e, &p3, true); s.evals(n, nt); });
        par_lattice(16, if th { 6 } else { 4 }, |p| { let e = signed_entries::<4>(p, 0); cls("N=4", p, det_perm::<4>(&e, &p4)); let (n, nt) = det_types_case!(s, 4, Mat4, Mat4, e, &p4, true); s.evals(n, nt); });
        par_cube(s, &[-3, -2, -1, 0, 1, 2, 3], 4, |p| det_types_case!(s, 2, Mat2, Mat2, flat_entries::<2>(p), &p2, true));
        if th { par_cube(s, &[-2, -1, 0, 1, 2], 9, |p| det_types_case!(s, 3, Mat3, Mat3, flat_entries::<3>(p), &p3, true)); }
        else { par_cube(s, &[-1, 0, 1], 9, |p| det_types_case!(s, 3, Mat3, Mat3, flat_entries::<3>(p), &p3, true)); }
        par_cube(s, &[-1, 1], 16, |p| det_types_case!(s, 4, Mat4, Mat4, flat_entries::<4>(p), &p4, true));
        if th { par_cube(s, &[-1, 0, 1], 16, |p| det_types_case!(s, 4, Mat4, Mat4, flat_entries::<4>(p), &p4, false)); }
        s.sample(json!({"M (i32/i64/f32/f64)": signed_entries::<3>(&[1, 0, 2, 0, 1, 0, 0, 0, 1], 0), "law": "determinant() == Leibniz expansion computed in i128"}));
    });

    rep.section("determinant is multiplicative: mixed-layout products, *= and signed operands",
        "det(A*B) = det(A)det(B) for row*col (column-major result), col*row (row-major result), the in-place `*=` of both layouts and the plain products, on the signed affine image of L(2N^2, D) (two different images for A and B): N=2: D=4, N=3: D=4 (thorough 5), N=4: D=3 (thorough 4); non-trivial: det(A)det(B) != 0", true, false, |s| {
        detmul_forms!(s, 2, Mat2, Mat2, 4);
        detmul_forms!(s, 3, Mat3, Mat3, if th { 5 } else { 4 });
        detmul_forms!(s, 4, Mat4, Mat4, if th { 4 } else { 3 });
        s.sample(json!({"law": "det(A*B) == det(A)*det(B)", "forms": ["Rows*Cols", "Cols*Rows", "Rows*=Rows", "Cols*=Cols"], "A": signed_entries::<2>(&[1, 0, 2, 0], 0), "B": signed_entries::<2>(&[0, 1, 0, 1], 1)}));
    });

    rep.section("general 4x4 inverse, f32 and f64, against the exact adjugate over determinant",
        "E = signed affine image of L(16, 3 quick / 5 thorough) around a non-singular base, M = E * 2^-k exactly representable (f64: k in {0, 20, -20, 60, -60}; f32: k in {0, 8, -8, 20, -20}); inverted()/invert() of both layouts must equal adj(E)/det(E) * 2^k (integer reference) within two roundings (cofactors and determinant are exact in the float type: integers < 2^24 times a power of two; the only roundings are 1/det and the final product): |got - want| <= 2 EPSILON |want|, compared in exact rationals; non-trivial: every non-singular E", true, false, |s| {
        s.require_classes(&["f32", "f64", "unscaled", "scaled-down (tiny determinant)", "scaled-up (huge determinant)", "negative-determinant"]);
        let base = [2i64, 0, 1, 0, 0, 3, 0, 1, 1, 0, 1, 0, 0, 1, 0, 2];
        par_lattice(16, if th { 5 } else { 3 }, |p| {
            let mut e = [[0i64; 4]; 4];
            for i in 0..4 { for j in 0..4 { let k = i * 4 + j; e[i][j] = (if (i + j) % 2 == 0 { 1 } else { -1 }) * p[k] + base[k] * (if k % 3 == 2 { -1 } else { 1 }); } }
            let ei: A<i128, 4> = std::array::from_fn(|i| std::array::from_fn(|j| e[i][j] as i128));
            let (dref, aref) = (det_i(&ei), adj_i(&ei));
            if dref == 0 { s.eval(false); s.class("singular(skipped)"); return; }
            if dref < 0 { s.class("negative-determinant"); }
            let w = p.iter().sum::<i64>() as u64;
            inv_float!(s, f64, &e, aref, dref, &[0, 20, -20, 60, -60], w);
            inv_float!(s, f32, &e, aref, dref, &[0, 8, -8, 20, -20], w);
            if s.wants_sample() && w == 3 { s.sample(json!({"E": e, "det": dref.to_string(), "law": "inverted(E * 2^-k) == adj(E)/det(E) * 2^k within two roundings"})); }
        });
    });

    rep.section("rigid and TRS fast inverses: reference from the parameters, extreme scales and translations, call sequences",
        "M = T*R (rigid) and M = T*R*S with R = Rodrigues matrix of rational unit axes (quick: every 5th of 103; thorough: all) x 12 rational circle points, T in {0, (1/3,-7/5,2^30), (-2^20,5,-2^-10)}, S from scale triples that mix moderate (1/2,2,-3), small but above the code's own 'negligible' threshold (scale^2 > epsilon = 2^-52: 2^-10, 2^-20, 2^-25), huge (1000, 2^20) and negative values (quick: 8 triples; thorough: all 343 triples of a 7-letter alphabet); the oracle is built from the parameters only: inverse linear part = S^-1 R^T, inverse translation = -S^-1 R^T t (validated by reference products M*want = want*M = I, a machinery error otherwise); inverted_affine_transform(_no_scale) and the in-place twins of both layouts must equal it and, where the exact general inverse does not overflow the rational type, inverted(); sequences: inverting twice in place (rigid fast inverse, general inverse) restores M; non-trivial: R != I", true, false, |s| {
        s.require_classes(&["rigid", "trs-moderate", "trs-small-scale-above-threshold", "trs-huge-scale", "trs-mixed-magnitudes", "invert-twice"]);
        let axes = unit_axes(); let circ = circle_points();
        let p2 = |k: i32| if k >= 0 { qi(1i128 << k) } else { q(1, 1i128 << -k) };
        let trs: Vec<[X; 3]> = vec![[qi(0); 3], [q(1, 3), q(-7, 5), p2(30)], [-p2(20), qi(5), -p2(-10)]];
        let scs: Vec<[X; 3]> = if th { let al = [p2(-25), p2(-20), -p2(-10), q(1, 3), q(-7, 5), qi(1000), p2(20)]; let mut o = Vec::new(); for a in al { for b in al { for c in al { o.push([a, b, c]); } } } o }
            else { vec![[q(1, 2), qi(2), qi(-3)], [p2(-10); 3], [p2(-20), qi(1), p2(20)], [p2(-25), q(-7, 5), qi(1000)], [p2(20); 3], [-p2(-10), q(1, 3), p2(-20)], [qi(1), qi(1), p2(-25)], [p2(-25); 3]] };
        let (id4, id3) = (ident::<X, 4>(), ident::<X, 3>());
        let work: Vec<(usize, usize)> = (0..axes.len()).filter(|i| th || i % 5 == 2).flat_map(|i| (0..circ.len()).map(move |j| (i, j))).collect();
        use rayon::prelude::*;
        work.par_iter().for_each(|&(ai, ci)| {
            let r3 = rodrigues(&axes[ai], circ[ci].0, circ[ci].1);
            let nontriv = r3 != id3;
            // reference inverse of T*R*S from the parameters
            let reference = |sc: &[X; 3], t: &[X; 3]| -> A<X, 4> {
                let mut w = id4;
                for i in 0..3 { let mut ti = qi(0); for j in 0..3 { w[i][j] = r3[j][i] / sc[i]; ti = ti - r3[j][i] * t[j] / sc[i]; } w[i][3] = ti; }
                w
            };
            macro_rules! fast { ($cls:expr, $m:expr, $want:expr, $fast:ident, $fast_inplace:ident, $name:expr, $general:expr) => {{
                let (m, want): (A<X, 4>, A<X, 4>) = ($m, $want);
                for lay in ["row", "col"] {
                    s.eval(nontriv); s.class($cls);
                    let got = if lay == "row" { s.call($name, || jmat(&m), || { let mm = rm::Mat4::<X>::build(&m); let mut g = mm; g.$fast_inplace(); (mm.$fast().decode(), g.decode()) }) }
                              else { s.call($name, || jmat(&m), || { let mm = cm::Mat4::<X>::build(&m); let mut g = mm; g.$fast_inplace(); (mm.$fast().decode(), g.decode()) }) };
                    let site = format!("Mat4<{}>::{}", lay, $name);
                    if let Some((f, g)) = got {
                        if f != want { s.violation(&site, "differs-from-reference-inverse", json!({"M": jmat(&m), "got": jmat(&f), "want": jmat(&want)})); }
                        if g != f { s.violation(&site, "in-place-form-differs", json!({"M": jmat(&m)})); }
                        if $general {
                            let gen = if lay == "row" { s.call("inverted", || jmat(&m), || rm::Mat4::<X>::build(&m).inverted().decode()) } else { s.call("inverted", || jmat(&m), || cm::Mat4::<X>::build(&m).inverted().decode()) };
                            if let Some(gen) = gen { if gen != f { s.violation(&site, "differs-from-general-inverse", json!({"M": jmat(&m), "got": jmat(&f), "want": jmat(&gen)})); } }
                        }
                    }
                }
            }} }
            for t in &trs {
                let m = affine4(&r3, t);
                let want = match catch(|| { let w = reference(&[qi(1); 3], t); (w, mmul(&m, &w), mmul(&w, &m)) }) { Ok((w, l, r)) => { if l != id4 || r != id4 { s.rep.machinery_error(format!("reference rigid inverse wrong at axis {} circle {}", ai, ci)); } w }, Err(_) => { s.unmodelled("rational overflow in the reference"); continue } };
                fast!("rigid", m, want, inverted_affine_transform_no_scale, invert_affine_transform_no_scale, "inverted_affine_transform_no_scale", true);
                fast!("rigid", m, want, inverted_affine_transform, invert_affine_transform, "inverted_affine_transform", true);
                // call sequences: inverting twice in place restores the matrix
                for lay in ["row", "col"] {
                    s.eval(nontriv); s.class("invert-twice");
                    let got = if lay == "row" { s.call("invert twice", || jmat(&m), || { let mut a = rm::Mat4::<X>::build(&m); a.invert_affine_transform_no_scale(); a.invert_affine_transform_no_scale(); let mut b = rm::Mat4::<X>::build(&m); b.invert(); b.invert(); let mut c = rm::Mat4::<X>::build(&m); c.invert_affine_transform(); c.invert(); (a.decode(), b.decode(), c.decode()) }) }
                              else { s.call("invert twice", || jmat(&m), || { let mut a = cm::Mat4::<X>::build(&m); a.invert_affine_transform_no_scale(); a.invert_affine_transform_no_scale(); let mut b = cm::Mat4::<X>::build(&m); b.invert(); b.invert(); let mut c = cm::Mat4::<X>::build(&m); c.invert_affine_transform(); c.invert(); (a.decode(), b.decode(), c.decode()) }) };
                    if let Some((a, b, c)) = got {
                        if a != m { s.violation(&format!("Mat4<{}>::invert_affine_transform_no_scale", lay), "inverting-twice-does-not-restore-the-matrix", json!({"M": jmat(&m), "got": jmat(&a)})); }
                        if b != m { s.violation(&format!("Mat4<{}>::invert", lay), "inverting-twice-does-not-restore-the-matrix", json!({"M": jmat(&m), "got": jmat(&b)})); }
                        if c != m { s.violation(&format!("Mat4<{}>::invert_affine_transform", lay), "general-inverse-of-the-fast-inverse-does-not-restore-the-matrix", json!({"M": jmat(&m), "got": jmat(&c)})); }
                    }
                }
                for sc in &scs {
                    let ab = |v: &X| if *v < qi(0) { -*v } else { *v }; let small = sc.iter().any(|v| ab(v) <= p2(-10)); let huge = sc.iter().any(|v| ab(v) >= qi(1000));
                    let cls = if small && huge { "trs-mixed-magnitudes" } else if small { "trs-small-scale-above-threshold" } else if huge { "trs-huge-scale" } else { "trs-moderate" };
                    let built = catch(|| { let mut l = r3; for i in 0..3 { for j in 0..3 { l[i][j] = r3[i][j] * sc[j]; } } let m = affine4(&l, t); let w = reference(sc, t); let (a, b) = (mmul(&m, &w), mmul(&w, &m)); (m, w, a, b) });
                    let (m, want) = match built { Ok((m, w, a, b)) => { if a != id4 || b != id4 { s.rep.machinery_error(format!("reference TRS inverse wrong at axis {} circle {}", ai, ci)); } (m, w) }, Err(_) => { s.unmodelled("rational overflow in the reference"); continue } };
                    fast!(cls, m, want, inverted_affine_transform, invert_affine_transform, "inverted_affine_transform", !small && !huge);
                }
            }
            if s.wants_sample() && nontriv { let sc = [p2(-20), qi(1), p2(20)]; let mut l = r3; for i in 0..3 { for j in 0..3 { l[i][j] = r3[i][j] * sc[j]; } } s.sample(json!({"M = T*R*S": jmat(&affine4(&l, &trs[1])), "scale": jxs(&sc), "law": "inverted_affine_transform(M) == [S^-1 R^T | -S^-1 R^T t]"})); }
        });
    });

    rep.section("fast inverses, f32 and f64: value and in-place forms, small and large scales, derived bounds",
        "angles on a grid of (-2pi, 2pi) (24 quick / 720 thorough) x 26 integer axes in {-1,0,1}^3 x 3 translations x scale triples (1,1,1), (2^-10,1,2^10), (-2^-10,2^-10,2^-10), (3,-1/2,2^10) and for f64 also (2^-20,2^20,1), (2^-25,2^-25,2^-25) - all with scale^2 well above the type's epsilon, the code's own 'negligible' threshold; M = T*R*S is built in f64 and rounded to the type; inverted_affine_transform (and for unit scale inverted_affine_transform_no_scale and inverted) of both layouts, with the in-place twin equal bit for bit; residuals in f64: |(M*inv - I)_ij| <= c, |(inv*M - I)_ij| <= c |s_j|/|s_i| on the 3x3 block, translation column c (1 + |t|_1) resp. c (1 + |t|_1)/|s_i|, c = 64 EPSILON (the columns of the rounded R are orthonormal within ~16 EPSILON, the scale cancels exactly in M*inv and leaves s_j/s_i in inv*M); non-trivial: all", true, false, |s| {
        s.require_classes(&["f32", "f64", "rigid", "trs", "trs-small-scale-above-threshold"]);
        let nang = if th { 720 } else { 24 };
        let p = |k: i32| 2f64.powi(k);
        fast_float!(s, f32, nang, [[1.0, 1.0, 1.0], [p(-10), 1.0, p(10)], [-p(-10), p(-10), p(-10)], [3.0, -0.5, p(10)], [2.0, 0.5, 3.0]]);
        fast_float!(s, f64, nang, [[1.0, 1.0, 1.0], [p(-10), 1.0, p(10)], [-p(-10), p(-10), p(-10)], [3.0, -0.5, p(10)], [2.0, 0.5, 3.0], [p(-20), p(20), 1.0], [p(-25), p(-25), p(-25)]]);
        s.sample(json!({"type": "f32", "angle": -6.1863, "axis": [1, -1, 0], "t": [-1000.0, 7.0, 0.25], "scale": [p(-10), 1.0, p(10)]}));
    });
    // ------------------------------------------------------------------------------------------------------------------------------
    // round-c sections (second audit)
    rep.section("fast inverses around special values (exact rationals): threshold from just above, nearly-unit scales, tiny and single-lane translations, narrow angles",
        "M = T*R (rigid) and M = T*R*S; R = Rodrigues matrix of 7 rational unit axes (3 of them coordinate axes; thorough: every 3rd of 103) x (12 rational circle points incl. 0, +-90 and 180 degrees + narrow angles t = +-2^-24 (sin ~ 2^-23) + near-180 t = 2^24); T in {tiny (2^-40,-3*2^-45,2^-50), single lanes (0,0,5) (7,0,0) (0,-3,0), mixed (2^-40,3,-2^20)}; S from: just above the code's negligible threshold scale^2 > 2^-52 (2^-26(1+2^-10): scale^2 = 1.002 eps; 3*2^-27: 2.25 eps), nearly unit (1+-2^-12, 1+-2^-20, 1+-2^-30), alone in one lane or in all (quick 12 triples; thorough 343); the tie scale^2 == eps is left open (the text says 'not negligibly small'); oracle from the parameters: [S^-1 R^T | -S^-1 R^T t] validated by reference products; value and in-place forms of both layouts, and inverted() where the exact general inverse fits the rational type; non-trivial: all (every case has a special value)", true, false, |s| {
        s.require_classes(&["rigid", "scale-just-above-negligible-threshold", "nearly-unit-scale", "tiny-translation", "single-lane-translation", "narrow-angle", "near-180-degrees", "axis-aligned-rotation", "identity-rotation"]);
        let axes = unit_axes(); let mut circ: Vec<(X, X, &str)> = circle_points().into_iter().map(|(c, sn)| (c, sn, "")).collect();
        let p2 = |k: i32| if k >= 0 { qi(1i128 << k) } else { q(1, 1i128 << -k) };
        for (tn, td, cls) in [(1i128, 1i128 << 24, "narrow-angle"), (-1, 1i128 << 24, "narrow-angle"), (1i128 << 24, 1, "near-180-degrees")] { let t = q(tn, td); let t2 = t * t; circ.push(((qi(1) - t2) / (qi(1) + t2), (t + t) / (qi(1) + t2), cls)); }
        let trs: Vec<([X; 3], &str)> = vec![([p2(-40), -qi(3) * p2(-45), p2(-50)], "tiny-translation"), ([qi(0), qi(0), qi(5)], "single-lane-translation"), ([qi(7), qi(0), qi(0)], "single-lane-translation"), ([qi(0), qi(-3), qi(0)], "single-lane-translation"), ([p2(-40), qi(3), -p2(20)], "tiny-translation")];
        let (ja, jb) = (q((1 << 10) + 1, 1i128 << 36), q(3, 1i128 << 27));
        let nu = |k: i32, sg: i128| q((1i128 << k) + sg, 1i128 << k);
        let one = qi(1);
        let scs: Vec<[X; 3]> = if th { let al = [ja, jb, nu(12, 1), nu(30, -1), -nu(20, 1), one, qi(2)]; let mut o = Vec::new(); for a in al { for b in al { for c in al { if [a, b, c] != [one; 3] { o.push([a, b, c]); } } } } o }
            else { vec![[ja; 3], [jb, one, qi(2)], [one, -ja, one], [qi(2), one, jb], [nu(12, 1); 3], [nu(30, -1); 3], [nu(30, 1), one, one], [one, nu(12, -1), one], [one, one, nu(20, 1)], [-nu(30, 1), nu(12, 1), nu(20, -1)], [nu(20, -1); 3], [nu(12, -1), qi(2), ja]] };
        let (id4, id3) = (ident::<X, 4>(), ident::<X, 3>());
        let ax_idx: Vec<usize> = if th { (0..axes.len()).filter(|i| i % 3 == 0 || *i < 6).collect() } else { vec![0, 3, 4, 9, 37, 71, 100] };
        let work: Vec<(usize, usize)> = ax_idx.iter().flat_map(|&i| (0..circ.len()).map(move |j| (i, j))).collect();
        use rayon::prelude::*;
        work.par_iter().for_each(|&(ai, ci)| {
            let r3 = rodrigues(&axes[ai], circ[ci].0, circ[ci].1);
            let rot_cls = if r3 == id3 { "identity-rotation" } else if r3.iter().flatten().all(|v| *v == qi(0) || *v == qi(1) || *v == qi(-1)) { "axis-aligned-rotation" } else { "general-rotation" };
            let ang_cls = circ[ci].2;
            let reference = |sc: &[X; 3], t: &[X; 3]| -> A<X, 4> {
                let mut w = id4;
                for i in 0..3 { let mut ti = qi(0); for j in 0..3 { w[i][j] = r3[j][i] / sc[i]; ti = ti - r3[j][i] * t[j] / sc[i]; } w[i][3] = ti; }
                w
            };
            macro_rules! fastc { ($cls:expr, $tcls:expr, $m:expr, $want:expr, $fast:ident, $fast_inplace:ident, $name:expr, $general:expr) => {{
                let (m, want): (A<X, 4>, A<X, 4>) = ($m, $want);
                for lay in ["row", "col"] {
                    s.eval(true); s.class($cls); s.class($tcls); s.class(rot_cls); if ang_cls != "" { s.class(ang_cls); }
                    let got = if lay == "row" { s.call($name, || jmat(&m), || { let mm = rm::Mat4::<X>::build(&m); let mut g = mm; g.$fast_inplace(); (mm.$fast().decode(), g.decode()) }) }
                              else { s.call($name, || jmat(&m), || { let mm = cm::Mat4::<X>::build(&m); let mut g = mm; g.$fast_inplace(); (mm.$fast().decode(), g.decode()) }) };
                    let site = format!("Mat4<{}>::{}", lay, $name);
                    if let Some((f, g)) = got {
                        if f != want { s.violation(&site, "differs-from-reference-inverse(special values)", json!({"M": jmat(&m), "got": jmat(&f), "want": jmat(&want)})); }
                        if g != f { s.violation(&site, "in-place-form-differs", json!({"M": jmat(&m)})); }
                        if $general {
                            let gen = if lay == "row" { catch(|| rm::Mat4::<X>::build(&m).inverted().decode()) } else { catch(|| cm::Mat4::<X>::build(&m).inverted().decode()) };
                            match gen { Ok(gen) => { s.class("general-inverse-compared"); if gen != f { s.violation(&site, "differs-from-general-inverse", json!({"M": jmat(&m), "got": jmat(&f), "want": jmat(&gen)})); } }
                                        Err(Caught::Unmodelled(_)) => s.class("general-inverse-overflows-the-rational-type(skipped)"),
                                        Err(e) => s.violation(&format!("Mat4<{}>::inverted", lay), "panic", json!({"M": jmat(&m), "panic": format!("{:?}", e)})) }
                        }
                    }
                }
            }} }
            for (t, tcls) in &trs {
                let m = affine4(&r3, t);
                let want = match catch(|| { let w = reference(&[qi(1); 3], t); (w, mmul(&m, &w), mmul(&w, &m)) }) { Ok((w, l, r)) => { if l != id4 || r != id4 { s.rep.machinery_error(format!("reference rigid inverse wrong at axis {} circle {}", ai, ci)); } w }, Err(_) => { s.unmodelled("rational overflow in the reference"); continue } };
                fastc!("rigid", *tcls, m, want, inverted_affine_transform_no_scale, invert_affine_transform_no_scale, "inverted_affine_transform_no_scale", ang_cls == "");
                fastc!("rigid", *tcls, m, want, inverted_affine_transform, invert_affine_transform, "inverted_affine_transform", ang_cls == "");
                for sc in &scs {
                    // narrow angles carry 48-bit denominators: only scale triples with denominators up to 2^12 fit the rational type
                    if ang_cls != "" && sc.iter().any(|v| v.rat().d > 1 << 12) { continue; }
                    let ab = |v: &X| if *v < qi(0) { -*v } else { *v };
                    let just = sc.iter().any(|v| ab(v) < p2(-20));
                    let cls = if just { "scale-just-above-negligible-threshold" } else { "nearly-unit-scale" };
                    let general = !just && ang_cls == "" && sc.iter().all(|v| v.rat().d <= 1 << 12);
                    let built = catch(|| { let mut l = r3; for i in 0..3 { for j in 0..3 { l[i][j] = r3[i][j] * sc[j]; } } let m = affine4(&l, t); let w = reference(sc, t); let (a, b) = (mmul(&m, &w), mmul(&w, &m)); (m, w, a, b) });
                    let (m, want) = match built { Ok((m, w, a, b)) => { if a != id4 || b != id4 { s.rep.machinery_error(format!("reference TRS inverse wrong at axis {} circle {}", ai, ci)); } (m, w) }, Err(_) => { s.eval(false); s.unmodelled("rational overflow in the reference"); continue } };
                    fastc!(cls, *tcls, m, want, inverted_affine_transform, invert_affine_transform, "inverted_affine_transform", general);
                }
            }
            if s.wants_sample() && rot_cls == "general-rotation" { let sc = [ja, one, nu(30, 1)]; let mut l = r3; for i in 0..3 { for j in 0..3 { l[i][j] = r3[i][j] * sc[j]; } } s.sample(json!({"M = T*R*S": jmat(&affine4(&l, &trs[0].0)), "scale": jxs(&sc), "t": jxs(&trs[0].0), "law": "inverted_affine_transform(M) == [S^-1 R^T | -S^-1 R^T t]"})); }
        });
    });

    rep.section("fast and general inverses, f32 and f64, on exactly representable axis-aligned transforms and narrow-angle rotations",
        "M = T*P*S rounded nowhere: P = the 24 rotations with entries in {-1,0,1}, S = all triples of a 10-letter alphabet per type (f32 resp. f64: 1, -2, 3, -5*2^-9 resp. -5*2^-20, 2^-6 resp. 2^-10; nearly unit 1+2^-11, 1-2^-20 resp. 1+2^-25, 1-2^-40; just above the type's negligible threshold scale^2 > EPSILON: 1.5*2^-12, 2^-11 resp. 2^-26(1+2^-10), 1.5*2^-26; huge 2^40 resp. 2^500, whose square is still representable; thorough: 13 letters, adding the negative huge letter, 1+2^-22 resp. 1+2^-50 and 7/8), T in {0, (0,0,5), (1.5,-2,3), tiny, huge (squared length representable), mixed}; inverted_affine_transform always, inverted_affine_transform_no_scale for S = I, inverted()/invert() where all letters are short (exact cofactors) and moderate; in-place twins bit for bit; oracle without a quotient: |got_ij s_i - P_ji| <= 4 EPS |P_ji|, |got_i3 s_i - tau_i| <= 6 EPS |tau_i| (at most 3 roundings), exact zeros and bottom row; narrow angles: L = I + e skew(v), e in {2^-30, 2^-60} (f32: 2^-20, 2^-40), 7 directions, 3 translations: linear part must be exactly L^T, translation within gamma_4 sum|L_ji t_j| in exact rationals; non-trivial: all", true, false, |s| {
        s.require_classes(&["f32", "f64", "scale-just-above-negligible-threshold", "nearly-unit-scale", "huge-scale", "tiny-translation", "huge-translation", "rigid", "general-inverse-exact-case", "axis-aligned-rotation", "identity-rotation", "narrow-angle"]);
        let p = |k: i32| 2f64.powi(k);
        let l64: Vec<SLetter> = vec![(1.0, true, 0), (-2.0, true, 0), (3.0, true, 0), (-5.0 * p(-20), true, 0), (p(-10), true, 0), (1.0 + p(-25), false, 2), (1.0 - p(-40), false, 2), (p(-26) * (1.0 + p(-10)), false, 1), (1.5 * p(-26), false, 1), (p(500), true, 3), (-p(500), true, 3), (1.0 + p(-50), false, 2), (0.875, false, 0)];
        let l32: Vec<SLetter> = vec![(1.0, true, 0), (-2.0, true, 0), (3.0, true, 0), (-5.0 * p(-9), true, 0), (p(-6), true, 0), (1.0 + p(-11), false, 2), (1.0 - p(-20), false, 2), (1.5 * p(-12), false, 1), (p(-11), false, 1), (p(40), true, 3), (-p(40), true, 3), (1.0 + p(-22), false, 2), (0.875, false, 0)];
        let t64: Vec<TLetter> = vec![([0.0; 3], true, 3), ([0.0, 0.0, 5.0], true, 0), ([1.5, -2.0, 3.0], true, 0), ([p(-60), -3.0 * p(-70), p(-65)], true, 1), ([p(500), -3.0 * p(400), p(450)], false, 2), ([p(-60), 1.0, -p(40)], false, 1)];
        let t32: Vec<TLetter> = vec![([0.0; 3], true, 3), ([0.0, 0.0, 5.0], true, 0), ([1.5, -2.0, 3.0], true, 0), ([p(-30), -3.0 * p(-35), p(-33)], true, 1), ([p(40), -3.0 * p(30), p(35)], false, 2), ([p(-30), 1.0, -p(20)], false, 1)];
        let (n64, n32) = if th { (13, 13) } else { (10, 10) };
        perm_float!(s, f64, &l64[..n64], &t64, p(30), &[p(-30), p(-60)]);
        perm_float!(s, f32, &l32[..n32], &t32, p(11), &[p(-20), p(-40)]);
        s.sample(json!({"type": "f64", "P": [[0, -1, 0], [1, 0, 0], [0, 0, 1]], "scale": ["2^-26(1+2^-10)", "1+2^-25", "2^500"], "t": ["2^-60", "-3*2^-70", "2^-65"], "law": "got_ij * s_i == P_ji within 4 EPS, got_i3 * s_i == -P_j*i t_j* within 6 EPS"}));
    });

    rep.section("general 4x4 inverse, f32 and f64: extreme and anisotropic power-of-two scalings against the exact adjugate over determinant",
        "E as in the section 'general 4x4 inverse, f32 and f64, against the exact adjugate over determinant' (signed affine image of L(16, 3 quick / 4 thorough)); M = diag(2^a) E diag(2^b) with (a,b) from: uniform 2^+-250 (f64; determinant ~ 2^+-1000) resp. 2^+-27 (f32; ~ 2^+-108), one tiny row, alternating rows 2^+-100 resp. 2^+-12, opposite columns, mixed; every product of the block method is homogeneous in the scalings and stays in the normal range, so cofactors and determinant are exact and inv(M)_ij 2^(b_i + a_j) = adj(E)_ij / det(E) within two roundings; non-trivial: every non-singular E", true, false, |s| {
        s.require_classes(&["f32", "f64", "uniform-extreme-down", "uniform-extreme-up", "anisotropic"]);
        let base = [2i64, 0, 1, 0, 0, 3, 0, 1, 1, 0, 1, 0, 0, 1, 0, 2];
        let p64: Vec<([i32; 4], [i32; 4], &str)> = vec![([-250; 4], [0; 4], "uniform-extreme-down"), ([250; 4], [0; 4], "uniform-extreme-up"), ([0, 0, 0, -100], [0; 4], "anisotropic"), ([100, -100, 100, -100], [0; 4], "anisotropic"), ([0; 4], [-100, 0, 0, 100], "anisotropic"), ([50, 0, -50, 0], [-70, 70, 0, 30], "anisotropic"), ([-200, 0, 0, 0], [0, 0, 0, -200], "anisotropic")];
        let p32: Vec<([i32; 4], [i32; 4], &str)> = vec![([-27; 4], [0; 4], "uniform-extreme-down"), ([27; 4], [0; 4], "uniform-extreme-up"), ([0, 0, 0, -20], [0; 4], "anisotropic"), ([12, -12, 12, -12], [0; 4], "anisotropic"), ([0; 4], [-12, 0, 0, 12], "anisotropic"), ([6, 0, -6, 0], [-9, 9, 0, 4], "anisotropic"), ([-20, 0, 0, 0], [0, 0, 0, -20], "anisotropic")];
        par_lattice(16, if th { 4 } else { 3 }, |p| {
            let mut e = [[0i64; 4]; 4];
            for i in 0..4 { for j in 0..4 { let k = i * 4 + j; e[i][j] = (if (i + j) % 2 == 0 { 1 } else { -1 }) * p[k] + base[k] * (if k % 3 == 2 { -1 } else { 1 }); } }
            let ei: A<i128, 4> = std::array::from_fn(|i| std::array::from_fn(|j| e[i][j] as i128));
            let (dref, aref) = (det_i(&ei), adj_i(&ei));
            if dref == 0 { s.eval(false); s.class("singular(skipped)"); return; }
            let w = p.iter().sum::<i64>() as u64;
            inv_float_aniso!(s, f64, &e, aref, dref, &p64, w);
            inv_float_aniso!(s, f32, &e, aref, dref, &p32, w);
            if s.wants_sample() && w == 3 { s.sample(json!({"E": e, "det": dref.to_string(), "a": p64[5].0, "b": p64[5].1, "law": "inverted(diag(2^a) E diag(2^b))_ij * 2^(b_i + a_j) == adj(E)_ij/det(E) within two roundings"})); }
        });
    });

    rep.section("determinant, f32 and f64: row / column power-of-two scalings up to the ends of the exponent range",
        "E = signed affine image of L(N^2, D) (N=2: D=4, N=3: D=3, N=4: D=2 quick / 3 thorough), M = diag(2^a) E diag(2^b); every Leibniz term carries the factor 2^(sum a + sum b), so determinant() (both layouts, transposed(), transpose() in place, layout change) must be det(E) 2^(sum a + sum b) exactly; patterns: uniform up / down to |det| ~ 2^+-1000 (f64) resp. 2^+-100 (f32), one tiny row, alternating rows, opposite columns; non-trivial: det != 0", true, false, |s| {
        s.require_classes(&["N=2", "N=3", "N=4"]);
        let (p2, p3, p4) = (signed_permutations(2), signed_permutations(3), signed_permutations(4));
        // exponent patterns: (a, b) for f64 and for f32, the first N entries are used; per-entry exponent a_i + b_j, N-fold products stay normal
        let pat64: [([i32; 4], [i32; 4]); 5] = [([250; 4], [0; 4]), ([-250; 4], [0; 4]), ([0, -300, 0, 0], [0; 4]), ([200, -200, 200, -200], [0; 4]), ([30, 0, -30, 0], [-150, 150, 70, 0])];
        let pat32: [([i32; 4], [i32; 4]); 5] = [([25; 4], [0; 4]), ([-25; 4], [0; 4]), ([0, -40, 0, 0], [0; 4]), ([20, -20, 20, -20], [0; 4]), ([5, 0, -5, 0], [-15, 15, 7, 0])];
        macro_rules! scaled_cases { ($N:expr, $R:ident, $C:ident, $p:expr, $perms:expr, $cls:expr) => {{
            let e = signed_entries::<$N>($p, 1);
            let want: i128 = det_perm::<$N>(&e, $perms);
            let w: u64 = e.iter().flatten().map(|v| v.unsigned_abs()).sum();
            let mut n = 0u64;
            for k in 0..5 { n += det_scaled!(s, $N, $R, $C, f64, &e, want, &pat64[k].0, &pat64[k].1, w); n += det_scaled!(s, $N, $R, $C, f32, &e, want, &pat32[k].0, &pat32[k].1, w); }
            s.evals(n, if want != 0 { n } else { 0 }); s.class_n($cls, n);
        }} }
        par_lattice(4, 4, |p| scaled_cases!(2, Mat2, Mat2, p, &p2, "N=2"));
        par_lattice(9, 3, |p| scaled_cases!(3, Mat3, Mat3, p, &p3, "N=3"));
        par_lattice(16, if th { 3 } else { 2 }, |p| scaled_cases!(4, Mat4, Mat4, p, &p4, "N=4"));
        s.sample(json!({"E": signed_entries::<3>(&[1, 0, 2, 0, 1, 0, 0, 0, 1], 1), "a": [30, 0, -30], "b": [-150, 150, 70], "law": "determinant(diag(2^a) E diag(2^b)) == det(E) * 2^(sum a + sum b) exactly"}));
    });
    std::process::exit(rep.finish());
}

// integer reference determinant / adjugate (i128) for the formal-fraction identity
fn det_i(a: &A<i128, 4>) -> i128 { let mut s = 0i128; for (p, sg) in signed_permutations(4) { let mut t = 1i128; for i in 0..4 { t *= a[i][p[i]]; } s += sg as i128 * t; } s }
fn adj_i(a: &A<i128, 4>) -> A<i128, 4> {
    let mut o = [[0i128; 4]; 4];
    for i in 0..4 { for j in 0..4 {
        // minor deleting row j, column i
        let rows: Vec<usize> = (0..4).filter(|&r| r != j).collect(); let cols: Vec<usize> = (0..4).filter(|&c| c != i).collect();
        let mut m = 0i128; for (p, sg) in signed_permutations(3) { let mut t = 1i128; for k in 0..3 { t *= a[rows[k]][cols[p[k]]]; } m += sg as i128 * t; }
        o[i][j] = if (i + j) % 2 == 0 { m } else { -m };
    } }
    o
}
